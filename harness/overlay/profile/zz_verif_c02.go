//go:build verif

package profile

// VerifParseLegacy exposes parseLegacy (the chain of legacy parsers ParseData falls back to) so
// that the C02 harness can ship its answer to the model as the legacy-oracle value.
func VerifParseLegacy(data []byte) (*Profile, error) { return parseLegacy(data) }
