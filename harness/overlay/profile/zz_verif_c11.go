//go:build verif

package profile

// VerifSimplifyFunc exposes simplifyFunc (prune.go) to the verification harness (C11).
func VerifSimplifyFunc(s string) string { return simplifyFunc(s) }
