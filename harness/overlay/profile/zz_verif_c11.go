//go:build verif

package profile

// VerifSimplifyFunc exposes simplifyFunc (prune.go) to the verification harness (C11).
func VerifSimplifyFunc(s string) string { return simplifyFunc(s) }

// VerifC11LegacyRx exposes the built-in expressions addLegacyFrameInfo attaches to legacy profiles:
// heap drop, heap keep, contention drop, cpu (default) drop.
func VerifC11LegacyRx() [4]string {
	return [4]string{allocRxStr, allocSkipRxStr, lockRxStr, cpuProfilerRxStr}
}
