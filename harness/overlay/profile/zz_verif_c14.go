//go:build verif

package profile

// VerifLegacyFrameRx exposes the three drop-frame expressions and the keep-frame expression that
// addLegacyFrameInfo installs, so that the C14 harness can report them as tokens.
func VerifLegacyFrameRx() (alloc, allocSkip, lock, cpu string) {
	return allocRxStr, allocSkipRxStr, lockRxStr, cpuProfilerRxStr
}
