//go:build verif

package profile

// VerifSampleKey returns the bytes of the sample key Merge uses for s. The per-source location
// table is pre-seeded so that every location keeps its id.
func VerifSampleKey(s *Sample) string {
	pm := &profileMerger{
		p:         &Profile{},
		samples:   map[sampleKey]*Sample{},
		locations: map[locationKey]*Location{},
		functions: map[functionKey]*Function{},
		mappings:  map[mappingKey]*Mapping{},
	}
	pm.locationsByID = makeLocationIDMap(0)
	pm.functionsByID = map[uint64]*Function{}
	pm.mappingsByID = map[uint64]mapInfo{}
	for _, l := range s.Location {
		if l != nil {
			pm.locationsByID.set(l.ID, &Location{ID: l.ID})
		}
	}
	return string(pm.sampleKey(s))
}

// VerifLocationKey returns the fields of the merge key of l.
func VerifLocationKey(l *Location) (addr, mappingID uint64, lines string, isFolded bool) {
	k := l.key()
	return k.addr, k.mappingID, k.lines, k.isFolded
}
