//go:build verif

package report

import "github.com/google/pprof/internal/graph"

// Add-only export shims for the C08 check.

// VerifFullGraph is rpt.newGraph(nil): the untrimmed graph (or call tree) the report starts from.
// Like every report entry point it rewrites parts of rpt.prof; callers pass a private copy.
func VerifFullGraph(rpt *Report) *graph.Graph { return rpt.newGraph(nil) }
