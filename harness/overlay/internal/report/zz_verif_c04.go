//go:build verif

package report

import "github.com/google/pprof/internal/graph"

// VerifC04NewGraph exposes rpt.newGraph(nil): the untrimmed graph of the report.
func VerifC04NewGraph(rpt *Report) *graph.Graph { return rpt.newGraph(nil) }

// VerifC04Trimmed exposes rpt.newTrimmedGraph().
func VerifC04Trimmed(rpt *Report) (g *graph.Graph, origCount, droppedNodes, droppedEdges int) {
	return rpt.newTrimmedGraph()
}

// VerifC04Options exposes the report's options (read-only use by the harness).
func VerifC04Options(rpt *Report) *Options { return rpt.options }
