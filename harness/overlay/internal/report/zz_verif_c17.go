//go:build verif

package report

import "github.com/google/pprof/profile"

// VerifC17Options exposes the options a report was built with (read-only use by the harness).
func VerifC17Options(rpt *Report) *Options { return rpt.options }

// VerifC17Profile exposes the profile a report indexes (the one Stacks() walks).
func VerifC17Profile(rpt *Report) *profile.Profile { return rpt.prof }

// VerifC17TrimPath exposes trimPath; the harness uses it only to choose which strings the
// filepath.Clean oracle table must cover.
func VerifC17TrimPath(path, trim, search string) string { return trimPath(path, trim, search) }
