//go:build verif

package report

import "github.com/google/pprof/internal/measurement"

// Add-only export shim for the C18 correspondence harness: the graph printCallgrind walks
// (same preparation steps, same helpers), without any of the emission.

type VerifCGEdge struct {
	File, Name string
	Addr       uint64
	Line       int
	Cost       int64
}

type VerifCGNode struct {
	Obj, File, Name string
	Addr            uint64
	Line            int
	Cost            int64
	Out             []VerifCGEdge
}

func VerifCallgrindGraph(rpt *Report) (sampleType, outputUnit string, nodes []VerifCGNode) {
	o := rpt.options
	rpt.options.NodeFraction = 0
	rpt.options.EdgeFraction = 0
	rpt.options.NodeCount = 0

	g, _, _, _ := rpt.newTrimmedGraph()
	rpt.selectOutputUnit(g)
	nodeNames := getDisambiguatedNames(g)
	for _, n := range g.Nodes {
		sv, _ := measurement.Scale(n.FlatValue(), o.SampleUnit, o.OutputUnit)
		vn := VerifCGNode{Obj: n.Info.Objfile, File: n.Info.File, Name: n.Info.Name, Addr: n.Info.Address, Line: n.Info.Lineno, Cost: int64(sv)}
		for _, out := range n.Out.Sort() {
			c, _ := measurement.Scale(out.WeightValue(), o.SampleUnit, o.OutputUnit)
			callee := out.Dest
			vn.Out = append(vn.Out, VerifCGEdge{File: callee.Info.File, Name: nodeNames[callee], Addr: callee.Info.Address, Line: callee.Info.Lineno, Cost: int64(c)})
		}
		nodes = append(nodes, vn)
	}
	return o.SampleType, o.OutputUnit, nodes
}
