//go:build verif

package symbolizer

import "github.com/ianlancetaylor/demangle"

// Add-only export shims for the C12 verification harness.

// VerifC12Options exposes demanglerModeToOptions.
func VerifC12Options(mode string) []demangle.Option { return demanglerModeToOptions(mode) }

// VerifC12RemoveMatching exposes removeMatching.
func VerifC12RemoveMatching(name string, start, end byte) string {
	return removeMatching(name, start, end)
}

// VerifC12LooksLikeDemangled exposes looksLikeDemangledCPlusPlus.
func VerifC12LooksLikeDemangled(name string) bool { return looksLikeDemangledCPlusPlus(name) }
