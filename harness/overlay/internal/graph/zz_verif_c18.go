//go:build verif

package graph

import "io"

// Add-only export shims for the C18 correspondence harness.

// VerifEscapeForDot exposes escapeForDot.
func VerifEscapeForDot(s string) string { return escapeForDot(s) }

// VerifCollapsedTags exposes builder.collapsedTags (selection of numeric tag buckets).
func VerifCollapsedTags(c *DotConfig, ts []*Tag, count int, flatTags bool) []*Tag {
	b := &builder{io.Discard, &DotAttributes{}, c}
	return b.collapsedTags(ts, count, flatTags)
}

// VerifMaxNodelets exposes the nodelet cap.
const VerifMaxNodelets = maxNodelets
