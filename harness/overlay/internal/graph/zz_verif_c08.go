//go:build verif

package graph

// Add-only export shims for the C08 check (orderings used on output paths).

// VerifEdgeLess is edgeList.Less on the two-element list {a, b}.
func VerifEdgeLess(a, b *Edge) bool { return edgeList{a, b}.Less(0, 1) }

// VerifTagsLess is tags.Less on the two-element list {a, b}.
func VerifTagsLess(a, b *Tag, flat bool) bool { return tags{[]*Tag{a, b}, flat}.Less(0, 1) }

// VerifCompareNodes is compareNodes.
func VerifCompareNodes(a, b *Node) bool { return compareNodes(a, b) }

// VerifEntropyScore is entropyScore.
func VerifEntropyScore(n *Node) int64 { return entropyScore(n) }

// VerifEdgeEntropyScore is edgeEntropyScore.
func VerifEdgeEntropyScore(n *Node, edges EdgeMap, self int64) float64 {
	return edgeEntropyScore(n, edges, self)
}
