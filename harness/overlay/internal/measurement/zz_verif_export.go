//go:build verif

package measurement

// VerifAliases exposes the unexported alias list of a unit to the verification harness.
func VerifAliases(u Unit) []string { return u.aliases }
