//go:build verif

package symbolz

// Add-only export shims for the C12 verification harness.

// VerifC12Symbolz exposes symbolz (profile source URL -> symbol service URL).
func VerifC12Symbolz(source string) string { return symbolz(source) }

// VerifC12Adjust exposes adjust.
func VerifC12Adjust(addr uint64, offset int64) (uint64, bool) { return adjust(addr, offset) }

// VerifC12Match applies symbolzRE to one line of a symbolz answer.
func VerifC12Match(line string) []string { return symbolzRE.FindStringSubmatch(line) }
