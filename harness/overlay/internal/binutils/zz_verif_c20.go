//go:build verif

package binutils

// Add-only export shims for the C20 (concurrency) check of /verif: an addr2Liner / llvmSymbolizer
// connected to a scripted tool pipe. The pipe is deliberately NOT synchronised: serialising access
// to it is the job of the code under test (addr2Liner.mu, llvmSymbolizer's embedded mutex).

import (
	"fmt"
	"io"
	"runtime"
	"strconv"
	"strings"

	"github.com/google/pprof/internal/plugin"
)

type verifC20Pipe struct {
	llvm  bool
	queue []string
}

func (p *verifC20Pipe) write(s string) error {
	runtime.Gosched()
	if p.llvm {
		i := strings.LastIndex(s, " 0x")
		hex := s[i+3:]
		v, _ := strconv.ParseUint(hex, 16, 64)
		p.queue = append(p.queue, fmt.Sprintf(`{"Address":"0x%s","ModuleName":"m","Symbol":[{"Line":%d,"Column":0,"FunctionName":"fn_%s","FileName":"file_%s","StartLine":0}]}`, hex, v%1000+1, hex, hex))
		return nil
	}
	if s == fmt.Sprintf("%x", sentinel) {
		p.queue = append(p.queue, "0x"+s, "??", "??:0")
		return nil
	}
	v, _ := strconv.ParseUint(s, 16, 64)
	p.queue = append(p.queue, "0x"+s, "fn_"+s, fmt.Sprintf("file_%s:%d", s, v%1000+1))
	return nil
}

func (p *verifC20Pipe) readLine() (string, error) {
	runtime.Gosched()
	if len(p.queue) == 0 {
		return "", io.EOF
	}
	s := p.queue[0]
	p.queue = p.queue[1:]
	return s, nil
}

func (p *verifC20Pipe) close() {}

// VerifC20Tool is one tool connection shared by several goroutines.
type VerifC20Tool struct {
	a *addr2Liner
	l *llvmSymbolizer
}

func VerifC20NewTool(llvm bool) *VerifC20Tool {
	if llvm {
		return &VerifC20Tool{l: &llvmSymbolizer{filename: "m", rw: &verifC20Pipe{llvm: true}}}
	}
	return &VerifC20Tool{a: &addr2Liner{rw: &verifC20Pipe{}}}
}

func (t *VerifC20Tool) AddrInfo(addr uint64) ([]plugin.Frame, error) {
	if t.l != nil {
		return t.l.addrInfo(addr)
	}
	return t.a.addrInfo(addr)
}
