//go:build verif

package binutils

import (
	"debug/elf"
	"strings"
)

// VerifC13ObjAddrSeq runs file.ObjAddr for every address, in order, on ONE fresh file object whose
// ELF file is the given in-memory elf.File (elfOpen is replaced for the duration of the call).
// hasMapping=false leaves file.m nil. It returns the translated addresses and errors per call and
// the base / isData the file ended up with.
func VerifC13ObjAddrSeq(ef *elf.File, openErr error, hasMapping bool, start, limit, offset uint64, koff *uint64, addrs []uint64) (out []uint64, errs []error, base uint64, isData bool) {
	real := elfOpen
	defer func() { elfOpen = real }()
	elfOpen = func(string) (*elf.File, error) {
		if openErr != nil {
			return nil, openErr
		}
		return ef, nil
	}
	f := &file{name: "verif-c13"}
	if hasMapping {
		f.m = &elfMapping{start: start, limit: limit, offset: offset, kernelOffset: koff}
	}
	for _, a := range addrs {
		v, err := f.ObjAddr(a)
		out = append(out, v)
		errs = append(errs, err)
	}
	return out, errs, f.base, f.isData
}

// VerifC13NM parses nm output with the given base (parseAddr2LinerNM) and looks every address up
// (addrInfo). found[i] is false when addrInfo returned no frame.
func VerifC13NM(base uint64, nmOut string, addrs []uint64) (names []string, found []bool, nsyms int, err error) {
	a, err := parseAddr2LinerNM(base, strings.NewReader(nmOut))
	if err != nil {
		return nil, nil, 0, err
	}
	for _, ad := range addrs {
		fr, e := a.addrInfo(ad)
		if e != nil {
			return nil, nil, 0, e
		}
		if len(fr) == 0 {
			names = append(names, "")
			found = append(found, false)
		} else {
			names = append(names, fr[0].Func)
			found = append(found, len(fr) == 1)
		}
	}
	return names, found, len(a.m), nil
}
