//go:build verif

package binutils

import (
	"debug/elf"
	"encoding/json"
	"strconv"
	"strings"
)

// VerifC13ObjAddrSeq runs file.ObjAddr for every address, in order, on ONE fresh file object whose
// ELF file is the given in-memory elf.File (elfOpen is replaced for the duration of the call).
// hasMapping=false leaves file.m nil. It returns the translated addresses and errors per call and
// the base / isData the file ended up with.
func VerifC13ObjAddrSeq(ef *elf.File, openErr error, hasMapping bool, start, limit, offset uint64, koff *uint64, addrs []uint64) (out []uint64, errs []error, base uint64, isData bool) {
	real := elfOpen
	defer func() { elfOpen = real }()
	elfOpen = func(string) (*elf.File, error) {
		if openErr != nil {
			return nil, openErr
		}
		return ef, nil
	}
	f := &file{name: "verif-c13"}
	if hasMapping {
		f.m = &elfMapping{start: start, limit: limit, offset: offset, kernelOffset: koff}
	}
	for _, a := range addrs {
		v, err := f.ObjAddr(a)
		out = append(out, v)
		errs = append(errs, err)
	}
	return out, errs, f.base, f.isData
}

// VerifC13NM parses nm output with the given base (parseAddr2LinerNM) and looks every address up
// (addrInfo). found[i] is false when addrInfo returned no frame.
func VerifC13NM(base uint64, nmOut string, addrs []uint64) (names []string, found []bool, nsyms int, err error) {
	a, err := parseAddr2LinerNM(base, strings.NewReader(nmOut))
	if err != nil {
		return nil, nil, 0, err
	}
	for _, ad := range addrs {
		fr, e := a.addrInfo(ad)
		if e != nil {
			return nil, nil, 0, e
		}
		if len(fr) == 0 {
			names = append(names, "")
			found = append(found, false)
		} else {
			names = append(names, fr[0].Func)
			found = append(found, len(fr) == 1)
		}
	}
	return names, found, len(a.m), nil
}

// verifC13RW is a scripted lineReaderWriter: it records what is written and answers from a queue.
type verifC13RW struct {
	written []string
	answers []string
}

func (r *verifC13RW) write(s string) error { r.written = append(r.written, s); return nil }
func (r *verifC13RW) readLine() (string, error) {
	if len(r.answers) == 0 {
		return "", errVerifC13EOF
	}
	s := r.answers[0]
	r.answers = r.answers[1:]
	return s, nil
}
func (r *verifC13RW) close() {}

type verifC13Err string

func (e verifC13Err) Error() string { return string(e) }

const errVerifC13EOF = verifC13Err("verif: script exhausted")

// VerifC13ToolInput returns the first line addr2Liner.addrInfo and llvmSymbolizer.addrInfo (code and
// data mode) write to their tools for the given base and address.
func VerifC13ToolInput(base, addr uint64) (a2l, llvmCode, llvmData string, err error) {
	rw := &verifC13RW{answers: []string{"0x0", "fn", "file.c:1", "0xffffffffffffffff", "??", "??:0"}}
	a := &addr2Liner{rw: rw, base: base}
	if _, err = a.addrInfo(addr); err != nil {
		return
	}
	a2l = rw.written[0]
	rw = &verifC13RW{answers: []string{`{"Address":"0x0","ModuleName":"m","Symbol":[{"FunctionName":"f","FileName":"f.c","Line":1}]}`}}
	l := &llvmSymbolizer{filename: "m", rw: rw, base: base}
	if _, err = l.addrInfo(addr); err != nil {
		return
	}
	llvmCode = rw.written[0]
	rw = &verifC13RW{answers: []string{`{"Address":"0x0","ModuleName":"m","Data":{"Start":"0x0","Size":"4","Name":"d"}}`}}
	l = &llvmSymbolizer{filename: "m", rw: rw, base: base, isData: true}
	if _, err = l.addrInfo(addr); err != nil {
		return
	}
	llvmData = rw.written[0]
	return
}

// VerifC13A2LWithNM drives (*addr2Liner).addrInfo with a scripted addr2line pipe that answers the
// given frames (function names, innermost first, the last one is the non-inlined frame) and, when
// hasNM, an attached nm table built exactly as fileAddr2Line.init builds it: parseAddr2LinerNM with
// the file's base (newAddr2LinerNM minus the exec of nm). It returns the Func of every frame.
func VerifC13A2LWithNM(base uint64, nmOut string, hasNM bool, addr uint64, frames []string) (funcs []string, err error) {
	answers := []string{"0x0"}
	for i, f := range frames {
		if f == "" {
			f = "??"
		}
		answers = append(answers, f, "file.c:"+strconv.Itoa(i+1))
	}
	answers = append(answers, "0xffffffffffffffff", "??", "??:0")
	a := &addr2Liner{rw: &verifC13RW{answers: answers}, base: base}
	if hasNM {
		nm, err := parseAddr2LinerNM(base, strings.NewReader(nmOut))
		if err != nil {
			return nil, err
		}
		a.nm = nm
	}
	st, err := a.addrInfo(addr)
	if err != nil {
		return nil, err
	}
	for _, f := range st {
		funcs = append(funcs, f.Func)
	}
	return funcs, nil
}

// ---- conversations with a simulated symbolizer tool (one pipe, many requests) ----

// VerifC13ToolFrame is one frame a simulated tool prints for a link address. For addr2line the
// tool prints Func (or "??") and FileLine verbatim; for llvm-symbolizer File and Line go to JSON.
type VerifC13ToolFrame struct {
	Func, FileLine string
	Line           int
}

// verifC13Sim is a lineReaderWriter backed by a simulated tool process: every written line is
// answered (appended to the pipe) the way the real tool answers it; readLine pops the pipe.
type verifC13Sim struct {
	answer func(req string) []string
	pipe   []string
}

func (s *verifC13Sim) write(req string) error { s.pipe = append(s.pipe, s.answer(req)...); return nil }
func (s *verifC13Sim) readLine() (string, error) {
	if len(s.pipe) == 0 {
		return "", errVerifC13EOF
	}
	l := s.pipe[0]
	s.pipe = s.pipe[1:]
	return l, nil
}
func (s *verifC13Sim) close() {}

// VerifC13Conversation asks ONE addr2Liner (kind "a2l", optionally with an nm table attached as
// fileAddr2Line.init attaches it) or ONE llvmSymbolizer (kind "llvm", code mode) about every
// address in order, over one simulated pipe. table maps LINK addresses to the frames the tool
// knows; an address not in the table is unknown to the tool ("??" / "??:0", resp. an empty symbol).
func VerifC13Conversation(kind string, base uint64, table map[uint64][]VerifC13ToolFrame, nmOut string, hasNM bool, addrs []uint64) (out [][]VerifC13ToolFrame, errs []error, leftover int) {
	switch kind {
	case "a2l":
		sim := &verifC13Sim{answer: func(req string) []string {
			x, err := strconv.ParseUint(req, 16, 64)
			if err != nil {
				return []string{"addr2line: bad request " + req}
			}
			ans := []string{"0x" + strconv.FormatUint(x, 16)}
			fs := table[x]
			if len(fs) == 0 {
				return append(ans, "??", "??:0")
			}
			for _, f := range fs {
				ans = append(ans, f.Func, f.FileLine)
			}
			return ans
		}}
		a := &addr2Liner{rw: sim, base: base}
		if hasNM {
			if nm, err := parseAddr2LinerNM(base, strings.NewReader(nmOut)); err == nil {
				a.nm = nm
			}
		}
		for _, ad := range addrs {
			st, err := a.addrInfo(ad)
			var fs []VerifC13ToolFrame
			for _, f := range st {
				fs = append(fs, VerifC13ToolFrame{f.Func, f.File, f.Line})
			}
			out = append(out, fs)
			errs = append(errs, err)
		}
		return out, errs, len(sim.pipe)
	case "llvm":
		sim := &verifC13Sim{answer: func(req string) []string {
			if !strings.HasPrefix(req, "m 0x") {
				return []string{"{}"}
			}
			x, err := strconv.ParseUint(req[4:], 16, 64)
			if err != nil {
				return []string{"{}"}
			}
			type sym struct {
				Line         int    `json:"Line"`
				Column       int    `json:"Column"`
				FunctionName string `json:"FunctionName"`
				FileName     string `json:"FileName"`
				StartLine    int    `json:"StartLine"`
			}
			ans := struct {
				Address    string `json:"Address"`
				ModuleName string `json:"ModuleName"`
				Symbol     []sym  `json:"Symbol"`
			}{Address: "0x" + strconv.FormatUint(x, 16), ModuleName: "m"}
			for _, f := range table[x] {
				ans.Symbol = append(ans.Symbol, sym{Line: f.Line, FunctionName: f.Func, FileName: f.FileLine})
			}
			if len(ans.Symbol) == 0 { // what llvm-symbolizer prints for an unknown address
				ans.Symbol = []sym{{}}
			}
			b, _ := json.Marshal(ans)
			return []string{string(b)}
		}}
		l := &llvmSymbolizer{filename: "m", rw: sim, base: base}
		for _, ad := range addrs {
			st, err := l.addrInfo(ad)
			var fs []VerifC13ToolFrame
			for _, f := range st {
				fs = append(fs, VerifC13ToolFrame{f.Func, f.File, f.Line})
			}
			out = append(out, fs)
			errs = append(errs, err)
		}
		return out, errs, len(sim.pipe)
	}
	return nil, nil, 0
}
