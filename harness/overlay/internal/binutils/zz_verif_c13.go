//go:build verif

package binutils

import (
	"debug/elf"
	"strconv"
	"strings"
)

// VerifC13ObjAddrSeq runs file.ObjAddr for every address, in order, on ONE fresh file object whose
// ELF file is the given in-memory elf.File (elfOpen is replaced for the duration of the call).
// hasMapping=false leaves file.m nil. It returns the translated addresses and errors per call and
// the base / isData the file ended up with.
func VerifC13ObjAddrSeq(ef *elf.File, openErr error, hasMapping bool, start, limit, offset uint64, koff *uint64, addrs []uint64) (out []uint64, errs []error, base uint64, isData bool) {
	real := elfOpen
	defer func() { elfOpen = real }()
	elfOpen = func(string) (*elf.File, error) {
		if openErr != nil {
			return nil, openErr
		}
		return ef, nil
	}
	f := &file{name: "verif-c13"}
	if hasMapping {
		f.m = &elfMapping{start: start, limit: limit, offset: offset, kernelOffset: koff}
	}
	for _, a := range addrs {
		v, err := f.ObjAddr(a)
		out = append(out, v)
		errs = append(errs, err)
	}
	return out, errs, f.base, f.isData
}

// VerifC13NM parses nm output with the given base (parseAddr2LinerNM) and looks every address up
// (addrInfo). found[i] is false when addrInfo returned no frame.
func VerifC13NM(base uint64, nmOut string, addrs []uint64) (names []string, found []bool, nsyms int, err error) {
	a, err := parseAddr2LinerNM(base, strings.NewReader(nmOut))
	if err != nil {
		return nil, nil, 0, err
	}
	for _, ad := range addrs {
		fr, e := a.addrInfo(ad)
		if e != nil {
			return nil, nil, 0, e
		}
		if len(fr) == 0 {
			names = append(names, "")
			found = append(found, false)
		} else {
			names = append(names, fr[0].Func)
			found = append(found, len(fr) == 1)
		}
	}
	return names, found, len(a.m), nil
}

// verifC13RW is a scripted lineReaderWriter: it records what is written and answers from a queue.
type verifC13RW struct {
	written []string
	answers []string
}

func (r *verifC13RW) write(s string) error { r.written = append(r.written, s); return nil }
func (r *verifC13RW) readLine() (string, error) {
	if len(r.answers) == 0 {
		return "", errVerifC13EOF
	}
	s := r.answers[0]
	r.answers = r.answers[1:]
	return s, nil
}
func (r *verifC13RW) close() {}

type verifC13Err string

func (e verifC13Err) Error() string { return string(e) }

const errVerifC13EOF = verifC13Err("verif: script exhausted")

// VerifC13ToolInput returns the first line addr2Liner.addrInfo and llvmSymbolizer.addrInfo (code and
// data mode) write to their tools for the given base and address.
func VerifC13ToolInput(base, addr uint64) (a2l, llvmCode, llvmData string, err error) {
	rw := &verifC13RW{answers: []string{"0x0", "fn", "file.c:1", "0xffffffffffffffff", "??", "??:0"}}
	a := &addr2Liner{rw: rw, base: base}
	if _, err = a.addrInfo(addr); err != nil {
		return
	}
	a2l = rw.written[0]
	rw = &verifC13RW{answers: []string{`{"Address":"0x0","ModuleName":"m","Symbol":[{"FunctionName":"f","FileName":"f.c","Line":1}]}`}}
	l := &llvmSymbolizer{filename: "m", rw: rw, base: base}
	if _, err = l.addrInfo(addr); err != nil {
		return
	}
	llvmCode = rw.written[0]
	rw = &verifC13RW{answers: []string{`{"Address":"0x0","ModuleName":"m","Data":{"Start":"0x0","Size":"4","Name":"d"}}`}}
	l = &llvmSymbolizer{filename: "m", rw: rw, base: base, isData: true}
	if _, err = l.addrInfo(addr); err != nil {
		return
	}
	llvmData = rw.written[0]
	return
}

// VerifC13A2LWithNM drives (*addr2Liner).addrInfo with a scripted addr2line pipe that answers the
// given frames (function names, innermost first, the last one is the non-inlined frame) and, when
// hasNM, an attached nm table built exactly as fileAddr2Line.init builds it: parseAddr2LinerNM with
// the file's base (newAddr2LinerNM minus the exec of nm). It returns the Func of every frame.
func VerifC13A2LWithNM(base uint64, nmOut string, hasNM bool, addr uint64, frames []string) (funcs []string, err error) {
	answers := []string{"0x0"}
	for i, f := range frames {
		if f == "" {
			f = "??"
		}
		answers = append(answers, f, "file.c:"+strconv.Itoa(i+1))
	}
	answers = append(answers, "0xffffffffffffffff", "??", "??:0")
	a := &addr2Liner{rw: &verifC13RW{answers: answers}, base: base}
	if hasNM {
		nm, err := parseAddr2LinerNM(base, strings.NewReader(nmOut))
		if err != nil {
			return nil, err
		}
		a.nm = nm
	}
	st, err := a.addrInfo(addr)
	if err != nil {
		return nil, err
	}
	for _, f := range st {
		funcs = append(funcs, f.Func)
	}
	return funcs, nil
}
