//go:build verif

package driver

import (
	"net/http"

	"github.com/google/pprof/internal/plugin"
	"github.com/google/pprof/internal/symbolizer"
	"github.com/google/pprof/profile"
)

// VerifWebHandlers returns the handlers of the web UI for a profile (C18 harness: pages are
// fetched with httptest recorders, no socket is opened, no browser is started).
func VerifWebHandlers(p *profile.Profile, ui plugin.UI, obj plugin.ObjTool) (map[string]http.Handler, error) {
	var hs map[string]http.Handler
	// (setDefaults would register the transport's command-line flags on every call)
	o := &plugin.Options{Writer: oswriter{}, Flagset: &GoFlags{}, UI: ui, Obj: obj,
		Sym: &symbolizer.Symbolizer{Obj: obj, UI: ui},
		HTTPServer: func(a *plugin.HTTPServerArgs) error {
			hs = a.Handlers
			return nil
		}}
	err := serveWebInterface("localhost:1234", p, o, true)
	return hs, err
}

// VerifAddLabelNodes exposes addLabelNodes (-tagroot / -tagleaf pseudo frames: functions with
// neither mapping nor address, named after label values).
func VerifAddLabelNodes(p *profile.Profile, rootKeys, leafKeys []string, outputUnit string) (bool, bool) {
	return addLabelNodes(p, rootKeys, leafKeys, outputUnit)
}
