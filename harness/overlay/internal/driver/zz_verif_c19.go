//go:build verif

package driver

import (
	"fmt"
	"net/url"
	"reflect"
	"strconv"
)

// Add-only export shims for the C19/C10 verification harness (config table, URL mapping,
// settings file operations). Nothing here changes behaviour of the package.

// VerifConfig is the package's unexported config type.
type VerifConfig = config

// VerifField is one row of configFields as the code computes it in init().
type VerifField struct {
	Name, URLParam string
	Saved          bool
	Kind           string // string | int | float64 | bool
	Choices        []string
	Default        string
	Transient      bool // overwritten by resetTransient
}

// VerifConfigFields dumps configFields in order. Transient is determined behaviourally: a
// field is transient iff resetTransient overwrites it with the current config's value.
func VerifConfigFields() []VerifField {
	saved := currentConfig()
	defer setCurrentConfig(saved)
	// current := all fields "A-ish", probe := all fields "B-ish"
	mk := func(s, i, f, b string) config {
		var c config
		for _, fld := range configFields {
			switch c.fieldPtr(fld).(type) {
			case *string:
				reflect.ValueOf(&c).Elem().FieldByIndex(fld.field.Index).SetString(s)
			case *int:
				c.set(fld, i)
			case *float64:
				c.set(fld, f)
			case *bool:
				c.set(fld, b)
			}
		}
		return c
	}
	setCurrentConfig(mk("cur", "7", "0.25", "true"))
	probe := mk("probe", "9", "0.75", "false")
	before := VerifConfigDump(probe)
	probe.resetTransient()
	after := VerifConfigDump(probe)
	var out []VerifField
	for i, f := range configFields {
		out = append(out, VerifField{Name: f.name, URLParam: f.urlparam, Saved: f.saved, Kind: f.field.Type.Kind().String(),
			Choices: append([]string{}, f.choices...), Default: f.defaultValue, Transient: before[i][1] != after[i][1]})
	}
	return out
}

// VerifConfigDump returns (name, get(field)) for every config field, in configFields order.
func VerifConfigDump(cfg config) [][2]string {
	var out [][2]string
	for _, f := range configFields {
		out = append(out, [2]string{f.name, cfg.get(f)})
	}
	return out
}

// VerifConfigFromPairs builds a config from the zero config by assigning the struct fields
// directly (reflection), NOT through config.set: values outside a field's choices (reachable
// through a settings file) can be represented, and the construction does not depend on the
// parser under test. Values are the fmt.Sprint forms of the Go values.
func VerifConfigFromPairs(pairs [][2]string) (config, error) {
	var c config
	for _, p := range pairs {
		f, ok := configFieldMap[p[0]]
		if !ok || f.name != p[0] {
			return c, fmt.Errorf("no field %q", p[0])
		}
		fv := reflect.ValueOf(&c).Elem().FieldByIndex(f.field.Index)
		switch fv.Kind() {
		case reflect.String:
			fv.SetString(p[1])
		case reflect.Int:
			v, err := strconv.ParseInt(p[1], 10, 64)
			if err != nil {
				return c, err
			}
			fv.SetInt(v)
		case reflect.Float64:
			v, err := strconv.ParseFloat(p[1], 64)
			if err != nil {
				return c, err
			}
			fv.SetFloat(v)
		case reflect.Bool:
			fv.SetBool(p[1] == "true")
		default:
			return c, fmt.Errorf("unsupported kind %v", fv.Kind())
		}
	}
	return c, nil
}

func VerifDefaultConfig() config       { return defaultConfig() }
func VerifCurrentConfig() config       { return currentConfig() }
func VerifSetCurrentConfig(c config)   { setCurrentConfig(c) }
func VerifConfigure(n, v string) error { return configure(n, v) }

// VerifSetField runs cfg.set on the named field; ok=false if there is no such field.
func VerifSetField(c config, name, value string) (config, error, bool) {
	f, ok := configFieldMap[name]
	if !ok || f.name != name {
		return c, nil, false
	}
	err := c.set(f, value)
	return c, err, true
}

func VerifMakeURL(c config, u url.URL) (url.URL, bool) { return c.makeURL(u) }
func VerifApplyURL(c config, q url.Values) (config, error) {
	err := c.applyURL(q)
	return c, err
}

func VerifSetConfig(fname string, u url.URL) error { return setConfig(fname, u) }
func VerifRemoveConfig(fname, name string) error   { return removeConfig(fname, name) }

// VerifReadSettings returns the named configs of the settings file (after resetTransient).
func VerifReadSettings(fname string) (names []string, cfgs []config, err error) {
	s, err := readSettings(fname)
	if err != nil {
		return nil, nil, err
	}
	for _, c := range s.Configs {
		names = append(names, c.Name)
		cfgs = append(cfgs, c.config)
	}
	return names, cfgs, nil
}

func VerifWriteSettings(fname string, names []string, cfgs []config) error {
	s := &settings{}
	for i := range names {
		s.Configs = append(s.Configs, namedConfig{Name: names[i], config: cfgs[i]})
	}
	return writeSettings(fname, s)
}

type VerifMenuEntry struct {
	Name, URL           string
	Current, UserConfig bool
}

func VerifConfigMenu(fname string, u url.URL) []VerifMenuEntry {
	var out []VerifMenuEntry
	for _, e := range configMenu(fname, u) {
		out = append(out, VerifMenuEntry{e.Name, e.URL, e.Current, e.UserConfig})
	}
	return out
}
