//go:build verif

package driver

import (
	"net/http"

	"github.com/google/pprof/internal/plugin"
	"github.com/google/pprof/profile"
)

// Add-only export shims for the C10 verification harness (interactive loop, web handlers).

// VerifInteractive runs the real interactive loop.
func VerifInteractive(p *profile.Profile, o *plugin.Options) error { return interactive(p, o) }

// VerifSetDefaults is setDefaults.
func VerifSetDefaults(o *plugin.Options) *plugin.Options { return setDefaults(o) }

// VerifWrapReports installs f as generateReportWrapper (a package variable the code provides "for
// testing purposes"); f receives the real generateReport to call through. It returns a restore func.
func VerifWrapReports(f func(real func(*profile.Profile, []string, VerifConfig, *plugin.Options) error,
	p *profile.Profile, cmd []string, cfg VerifConfig, o *plugin.Options) error) func() {
	old := generateReportWrapper
	generateReportWrapper = func(p *profile.Profile, cmd []string, cfg config, o *plugin.Options) error {
		return f(generateReport, p, cmd, cfg, o)
	}
	return func() { generateReportWrapper = old }
}

// VerifCommands dumps pprofCommands: name -> takes a parameter.
func VerifCommands() map[string]bool {
	m := map[string]bool{}
	for n, c := range pprofCommands {
		m[n] = c.hasParam
	}
	return m
}

// VerifConfigHelpKeys dumps the keys of configHelp.
func VerifConfigHelpKeys() []string {
	var ks []string
	for k := range configHelp {
		ks = append(ks, k)
	}
	return ks
}

// VerifGlobals snapshots the process-wide state that a session (re)initialises, so that the
// harness can run many sessions in one process; the returned func restores it.
func VerifGlobals() func() {
	cfg := currentConfig()
	sc := shortcuts{}
	for k, v := range pprofShortcuts {
		sc[k] = v
	}
	help := configHelp["sample_index"]
	im := interactiveMode
	return func() {
		setCurrentConfig(cfg)
		pprofShortcuts = shortcuts{}
		for k, v := range sc {
			pprofShortcuts[k] = v
		}
		configHelp["sample_index"] = help
		interactiveMode = im
	}
}

// VerifWeb builds the web interface exactly as serveWebInterface does and returns its handlers
// (no listener is opened: the plugin.Options HTTPServer hook receives them).
func VerifWeb(p *profile.Profile, o *plugin.Options) (map[string]http.Handler, error) {
	o2 := *o
	var captured *plugin.HTTPServerArgs
	o2.HTTPServer = func(args *plugin.HTTPServerArgs) error {
		captured = args
		return nil
	}
	if err := serveWebInterface("localhost:18080", p, &o2, true); err != nil {
		return nil, err
	}
	return captured.Handlers, nil
}

// VerifParseAndFetch is the first half of PProf: setDefaults, parseFlags (which installs the option
// state the flags describe) and fetchProfiles. It returns the profile a session or web UI starts from.
func VerifParseAndFetch(eo *plugin.Options) (*profile.Profile, error) {
	o := setDefaults(eo)
	src, _, err := parseFlags(o)
	if err != nil {
		return nil, err
	}
	return fetchProfiles(src, o)
}
