//go:build verif

package driver

import (
	"fmt"
	"time"

	"github.com/google/pprof/internal/plugin"
	"github.com/google/pprof/internal/report"
	"github.com/google/pprof/profile"
)

// Add-only export shims for the C07 check: they call the unexported fetchProfiles and
// generateRawReport exactly as the command line does, with in-memory profile sources.

type verifC07Fetcher map[string]*profile.Profile

func (f verifC07Fetcher) Fetch(src string, duration, timeout time.Duration) (*profile.Profile, string, error) {
	p, ok := f[src]
	if !ok {
		return nil, "", fmt.Errorf("verif: no such source %q", src)
	}
	return p, "", nil
}

type verifC07Sym struct{}

func (verifC07Sym) Symbolize(mode string, srcs plugin.MappingSources, prof *profile.Profile) error {
	return nil
}

type verifC07UI struct{ errs []string }

func (u *verifC07UI) ReadLine(prompt string) (string, error)        { return "", fmt.Errorf("no input") }
func (u *verifC07UI) Print(args ...interface{})                     {}
func (u *verifC07UI) PrintErr(args ...interface{})                  { u.errs = append(u.errs, fmt.Sprint(args...)) }
func (u *verifC07UI) IsTerminal() bool                              { return false }
func (u *verifC07UI) WantBrowser() bool                             { return false }
func (u *verifC07UI) SetAutoComplete(complete func(string) string) {}

// VerifC07Fetch runs fetchProfiles (fetch.go) on in-memory sources and bases:
// pprof [-base|-diff_base b...] [-normalize] src...
func VerifC07Fetch(srcs, bases []*profile.Profile, diffBase, normalize bool) (*profile.Profile, []string, error) {
	f := verifC07Fetcher{}
	s := &source{DiffBase: diffBase, Normalize: normalize, Symbolize: "none"}
	for i, p := range srcs {
		n := fmt.Sprintf("src%d", i)
		f[n] = p
		s.Sources = append(s.Sources, n)
	}
	for i, p := range bases {
		n := fmt.Sprintf("base%d", i)
		f[n] = p
		s.Base = append(s.Base, n)
	}
	ui := &verifC07UI{}
	o := &plugin.Options{Fetch: f, Sym: verifC07Sym{}, UI: ui}
	p, err := fetchProfiles(s, o)
	return p, ui.errs, err
}

// VerifC07Top builds the report of `-top -sample_index=<si>` without trimming (nodecount 0,
// nodefraction 0) through generateRawReport and returns its total and text items.
func VerifC07Top(p *profile.Profile, sampleIndex string) (int64, []report.TextItem, error) {
	cfg := defaultConfig()
	cfg.SampleIndex = sampleIndex
	cfg.NodeFraction = 0
	cfg.EdgeFraction = 0
	cfg.NodeCount = 0
	ui := &verifC07UI{}
	_, rpt, err := generateRawReport(p, []string{"top"}, cfg, &plugin.Options{UI: ui})
	if err != nil {
		return 0, nil, err
	}
	items, _ := report.TextItems(rpt)
	return rpt.Total(), items, nil
}
