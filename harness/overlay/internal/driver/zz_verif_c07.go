//go:build verif

package driver

import (
	"bytes"
	"fmt"
	"io"
	"time"

	"github.com/google/pprof/internal/plugin"
	"github.com/google/pprof/internal/report"
	"github.com/google/pprof/profile"
)

// Add-only export shims for the C07 check: they call the unexported fetchProfiles and
// generateRawReport exactly as the command line does, with in-memory profile sources.

type verifC07Fetcher map[string]*profile.Profile

func (f verifC07Fetcher) Fetch(src string, duration, timeout time.Duration) (*profile.Profile, string, error) {
	p, ok := f[src]
	if !ok {
		return nil, "", fmt.Errorf("verif: no such source %q", src)
	}
	return p, "", nil
}

type verifC07Sym struct{}

func (verifC07Sym) Symbolize(mode string, srcs plugin.MappingSources, prof *profile.Profile) error {
	return nil
}

type verifC07UI struct{ errs []string }

func (u *verifC07UI) ReadLine(prompt string) (string, error)        { return "", fmt.Errorf("no input") }
func (u *verifC07UI) Print(args ...interface{})                     {}
func (u *verifC07UI) PrintErr(args ...interface{})                  { u.errs = append(u.errs, fmt.Sprint(args...)) }
func (u *verifC07UI) IsTerminal() bool                              { return false }
func (u *verifC07UI) WantBrowser() bool                             { return false }
func (u *verifC07UI) SetAutoComplete(complete func(string) string) {}

// VerifC07Fetch runs fetchProfiles (fetch.go) on in-memory sources and bases:
// pprof [-base|-diff_base b...] [-normalize] src...
func VerifC07Fetch(srcs, bases []*profile.Profile, diffBase, normalize bool) (*profile.Profile, []string, error) {
	f := verifC07Fetcher{}
	s := &source{DiffBase: diffBase, Normalize: normalize, Symbolize: "none"}
	for i, p := range srcs {
		n := fmt.Sprintf("src%d", i)
		f[n] = p
		s.Sources = append(s.Sources, n)
	}
	for i, p := range bases {
		n := fmt.Sprintf("base%d", i)
		f[n] = p
		s.Base = append(s.Base, n)
	}
	ui := &verifC07UI{}
	o := &plugin.Options{Fetch: f, Sym: verifC07Sym{}, UI: ui}
	p, err := fetchProfiles(s, o)
	return p, ui.errs, err
}

// VerifC07Top builds the report of `-top -sample_index=<si>` without trimming (nodecount 0,
// nodefraction 0) through generateRawReport and returns its total and text items.
func VerifC07Top(p *profile.Profile, sampleIndex string) (int64, []report.TextItem, error) {
	cfg := defaultConfig()
	cfg.SampleIndex = sampleIndex
	cfg.NodeFraction = 0
	cfg.EdgeFraction = 0
	cfg.NodeCount = 0
	ui := &verifC07UI{}
	_, rpt, err := generateRawReport(p, []string{"top"}, cfg, &plugin.Options{UI: ui})
	if err != nil {
		return 0, nil, err
	}
	items, _ := report.TextItems(rpt)
	return rpt.Total(), items, nil
}

type verifC07Writer struct{ files map[string]*verifC07File }
type verifC07File struct{ bytes.Buffer }

func (f *verifC07File) Close() error { return nil }
func (w *verifC07Writer) Open(name string) (io.WriteCloser, error) {
	f := &verifC07File{}
	w.files[name] = f
	return f, nil
}

// VerifC07SaveProto is `pprof ... -proto -output=<file>`: generateReport with the "proto" command
// (generateRawReport -> report.New -> report.Generate/printProto of the REPORT's profile ->
// Writer.Open(output)); it returns the bytes written to the output file.
func VerifC07SaveProto(p *profile.Profile) ([]byte, error) {
	cfg := defaultConfig()
	cfg.Output = "c07-saved.pb.gz"
	w := &verifC07Writer{files: map[string]*verifC07File{}}
	o := &plugin.Options{UI: &verifC07UI{}, Writer: w}
	if err := generateReport(p, []string{"proto"}, cfg, o); err != nil {
		return nil, err
	}
	f, ok := w.files[cfg.Output]
	if !ok {
		return nil, fmt.Errorf("verif: -proto wrote no output file")
	}
	return f.Bytes(), nil
}
