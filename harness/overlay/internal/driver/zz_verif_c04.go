//go:build verif

package driver

import (
	"fmt"

	"github.com/google/pprof/internal/plugin"
	"github.com/google/pprof/internal/report"
	"github.com/google/pprof/profile"
)

type verifC04UI struct{}

func (verifC04UI) ReadLine(string) (string, error)     { return "", fmt.Errorf("no input") }
func (verifC04UI) Print(...interface{})                {}
func (verifC04UI) PrintErr(...interface{})             {}
func (verifC04UI) IsTerminal() bool                    { return false }
func (verifC04UI) WantBrowser() bool                   { return false }
func (verifC04UI) SetAutoComplete(func(string) string) {}

// VerifC04RawReport exposes generateRawReport (add-only export for the verification harness):
// the default config modified by name=value assignments, exactly as the command line or the
// interactive shell would set them. It modifies p like generateRawReport does.
func VerifC04RawReport(p *profile.Profile, cmd []string, assign [][2]string) (*report.Report, error) {
	cfg := defaultConfig()
	for _, a := range assign {
		f, ok := configFieldMap[a[0]]
		if !ok {
			return nil, fmt.Errorf("unknown config field %q", a[0])
		}
		var err error
		if f.name == a[0] {
			err = cfg.set(f, a[1])
		} else {
			err = cfg.set(f, a[0])
		}
		if err != nil {
			return nil, err
		}
	}
	_, rpt, err := generateRawReport(p, cmd, cfg, &plugin.Options{UI: verifC04UI{}})
	return rpt, err
}
