//go:build verif

package driver

import (
	"net/http"

	"github.com/google/pprof/internal/plugin"
	"github.com/google/pprof/profile"
)

// VerifC16Grab exposes grabSourcesAndBases (fetch.go:124) to the verification harness (C16).
// The two profileSource lists are built exactly the way fetchProfiles (fetch.go:41-56) builds
// them from a *source; nothing else is added.
func VerifC16Grab(srcs, bases []string, fetch plugin.Fetcher, obj plugin.ObjTool, ui plugin.UI, tr http.RoundTripper) (p, pbase *profile.Profile, m, mbase plugin.MappingSources, save bool, err error) {
	s := &source{Sources: srcs, Base: bases}
	sources := make([]profileSource, 0, len(s.Sources))
	for _, src := range s.Sources {
		sources = append(sources, profileSource{addr: src, source: s})
	}
	bs := make([]profileSource, 0, len(s.Base))
	for _, src := range s.Base {
		bs = append(bs, profileSource{addr: src, source: s})
	}
	return grabSourcesAndBases(sources, bs, fetch, obj, ui, tr)
}

// VerifC16GrabT is VerifC16Grab for a run with explicit -seconds / -timeout values (source.Seconds,
// source.Timeout as parseFlags stores them; -1 = flag not given).
func VerifC16GrabT(srcs, bases []string, seconds, timeout int, fetch plugin.Fetcher, obj plugin.ObjTool, ui plugin.UI, tr http.RoundTripper) (p, pbase *profile.Profile, m, mbase plugin.MappingSources, save bool, err error) {
	s := &source{Sources: srcs, Base: bases, Seconds: seconds, Timeout: timeout}
	sources := make([]profileSource, 0, len(s.Sources))
	for _, src := range s.Sources {
		sources = append(sources, profileSource{addr: src, source: s})
	}
	bs := make([]profileSource, 0, len(s.Base))
	for _, src := range s.Base {
		bs = append(bs, profileSource{addr: src, source: s})
	}
	return grabSourcesAndBases(sources, bs, fetch, obj, ui, tr)
}

// VerifC16Fetch exposes fetchProfiles (fetch.go:41) for a source list / base list.
func VerifC16Fetch(srcs, bases []string, diffBase bool, o *plugin.Options) (*profile.Profile, error) {
	s := &source{Sources: srcs, Base: bases, DiffBase: diffBase, Symbolize: "none"}
	return fetchProfiles(s, o)
}
