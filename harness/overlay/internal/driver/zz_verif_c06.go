//go:build verif

package driver

import (
	"github.com/google/pprof/internal/plugin"
	"github.com/google/pprof/profile"
)

// VerifApplyFocus exposes applyFocus (driver_focus.go) to the verification harness (C06).
// opts holds the ten filter options by their configuration names.
func VerifApplyFocus(prof *profile.Profile, numLabelUnits map[string]string, opts map[string]string, ui plugin.UI) error {
	cfg := defaultConfig()
	cfg.Focus, cfg.Ignore, cfg.Hide, cfg.Show, cfg.ShowFrom = opts["focus"], opts["ignore"], opts["hide"], opts["show"], opts["show_from"]
	cfg.TagFocus, cfg.TagIgnore, cfg.TagShow, cfg.TagHide = opts["tagfocus"], opts["tagignore"], opts["tagshow"], opts["taghide"]
	cfg.PruneFrom = opts["prune_from"]
	return applyFocus(prof, numLabelUnits, cfg, ui)
}

// VerifC06RawReport runs generateRawReport (driver.go) -- the caller of applyFocus for every
// report -- with the given filter options, with and without relative_percentages, for the given
// report command (granularity pinned to addresses, so that aggregation leaves the samples alone
// whatever the command). prof is modified in place.
func VerifC06RawReport(prof *profile.Profile, cmd []string, opts map[string]string, relative bool, ui plugin.UI) error {
	cfg := defaultConfig()
	cfg.Focus, cfg.Ignore, cfg.Hide, cfg.Show, cfg.ShowFrom = opts["focus"], opts["ignore"], opts["hide"], opts["show"], opts["show_from"]
	cfg.TagFocus, cfg.TagIgnore, cfg.TagShow, cfg.TagHide = opts["tagfocus"], opts["tagignore"], opts["tagshow"], opts["taghide"]
	cfg.PruneFrom = opts["prune_from"]
	cfg.RelativePercentages = relative
	cfg.Granularity = "addresses"
	_, _, err := generateRawReport(prof, cmd, cfg, &plugin.Options{UI: ui})
	return err
}
