//go:build verif

package driver

import (
	"fmt"
	"time"

	"github.com/google/pprof/internal/plugin"
	"github.com/google/pprof/profile"
)

// Add-only export shim for the C11 check: runs the unexported fetchProfiles (fetch.go) on ONE
// in-memory source exactly as `pprof -symbolize=none src` does, with an ObjTool that finds no
// local binaries (mappings with file names make locateBinaries call obj.Open).

type verifC11Fetcher struct{ p *profile.Profile }

func (f verifC11Fetcher) Fetch(src string, duration, timeout time.Duration) (*profile.Profile, string, error) {
	return f.p, "", nil
}

type verifC11Sym struct{}

func (verifC11Sym) Symbolize(mode string, srcs plugin.MappingSources, prof *profile.Profile) error {
	return nil
}

type verifC11Obj struct{}

func (verifC11Obj) Open(file string, start, limit, offset uint64, relocationSymbol string) (plugin.ObjFile, error) {
	return nil, fmt.Errorf("verif: no local binaries")
}
func (verifC11Obj) Disasm(file string, start, end uint64, intelSyntax bool) ([]plugin.Inst, error) {
	return nil, fmt.Errorf("verif: no disassembler")
}

type verifC11UI struct{}

func (verifC11UI) ReadLine(prompt string) (string, error)        { return "", fmt.Errorf("no input") }
func (verifC11UI) Print(args ...interface{})                     {}
func (verifC11UI) PrintErr(args ...interface{})                  {}
func (verifC11UI) IsTerminal() bool                              { return false }
func (verifC11UI) WantBrowser() bool                             { return false }
func (verifC11UI) SetAutoComplete(complete func(string) string) {}

// VerifC11Fetch returns what fetchProfiles hands to the rest of the driver for the single source p.
func VerifC11Fetch(p *profile.Profile) (*profile.Profile, error) {
	s := &source{Sources: []string{"src0"}, Symbolize: "none"}
	o := &plugin.Options{Fetch: verifC11Fetcher{p}, Sym: verifC11Sym{}, Obj: verifC11Obj{}, UI: verifC11UI{}}
	return fetchProfiles(s, o)
}
