//go:build verif

package driver

// Add-only export shims for the C20 (concurrency) check of /verif.

import (
	"net/http"
	"net/http/httptest"
	"net/url"
	"strconv"
	"sync"

	"github.com/google/pprof/internal/plugin"
	"github.com/google/pprof/profile"
)

func VerifC20NewTempFile(dir, prefix, suffix string) (string, error) {
	f, err := newTempFile(dir, prefix, suffix)
	if err != nil {
		return "", err
	}
	name := f.Name()
	f.Close()
	return name, nil
}

func VerifC20Get() (int, string) {
	c := currentConfig()
	return c.NodeCount, c.Output
}

func VerifC20Set(n int, out string) {
	c := defaultConfig()
	c.NodeCount, c.Output = n, out
	setCurrentConfig(c)
}

func VerifC20Configure(name, value string) error { return configure(name, value) }

func VerifC20SaveConfig(fname, name string) error {
	u, err := url.Parse("/?config=" + url.QueryEscape(name))
	if err != nil {
		return err
	}
	return setConfig(fname, *u)
}

func VerifC20RemoveConfig(fname, name string) error { return removeConfig(fname, name) }

func VerifC20ConfigNames(fname string) ([]string, error) {
	s, err := readSettings(fname)
	if err != nil {
		return nil, err
	}
	var out []string
	for _, c := range s.Configs {
		out = append(out, c.Name)
	}
	return out, nil
}

// VerifC20Grab fetches n sources through chunkedGrab/concurrentGrab with the given Fetcher.
func VerifC20Grab(n int, f plugin.Fetcher, ui plugin.UI) (*profile.Profile, int, error) {
	sources := make([]profileSource, n)
	for i := range sources {
		sources[i] = profileSource{addr: strconv.Itoa(i), source: &source{Symbolize: "none"}}
	}
	p, _, _, count, err := chunkedGrab(sources, f, nil, ui, nil)
	return p, count, err
}

// VerifC20Web returns a function serving one web UI request (by handler name) on a fresh recorder.
func VerifC20Web(p *profile.Profile, opt *plugin.Options, settingsFile string) (func(handler, rawQuery string) (int, string), error) {
	ui, err := makeWebInterface(p, makeProfileCopier(p), opt)
	if err != nil {
		return nil, err
	}
	ui.settingsFile = settingsFile
	return func(handler, rawQuery string) (int, string) {
		rec := httptest.NewRecorder()
		req := httptest.NewRequest("GET", "/"+handler+"?"+rawQuery, nil)
		switch handler {
		case "top":
			ui.top(rec, req)
		case "peek":
			ui.peek(rec, req)
		case "flamegraph":
			ui.stackView(rec, req)
		case "source":
			ui.source(rec, req)
		case "saveconfig":
			ui.saveConfig(rec, req)
		case "deleteconfig":
			ui.deleteConfig(rec, req)
		}
		return rec.Code, rec.Body.String()
	}, nil
}

// VerifC20GetField reads one option back through the option store's accessor.
func VerifC20GetField(name string) string {
	c := currentConfig()
	f, ok := configFieldMap[name]
	if !ok {
		return "<unknown field>"
	}
	return c.get(f)
}

// VerifC20DeferDelete / VerifC20Cleanup: the temp-file registry (deferDeleteTempFile, cleanupTempFiles).
func VerifC20DeferDelete(path string) { deferDeleteTempFile(path) }
func VerifC20Cleanup() error          { return cleanupTempFiles() }

// VerifC20LeakedLocks reports which of the package's mutexes are still held although no operation is
// running (the caller guarantees quiescence) and releases them so that the process is not wedged.
func VerifC20LeakedLocks() []string {
	var out []string
	for _, m := range []struct {
		name string
		mu   *sync.Mutex
	}{{"currentMu", &currentMu}, {"tempFilesMu", &tempFilesMu}, {"settingsMu", &settingsMu}} {
		if m.mu.TryLock() {
			m.mu.Unlock()
		} else {
			out = append(out, m.name)
			m.mu.Unlock()
		}
	}
	return out
}

// VerifC20DefaultUI returns the UI that setDefaults installs when the caller supplies none (stdUI).
func VerifC20DefaultUI() plugin.UI {
	// a transport is supplied only so that setDefaults does not register the -tls_* flags again
	return setDefaults(&plugin.Options{HTTPTransport: http.DefaultTransport}).UI
}
