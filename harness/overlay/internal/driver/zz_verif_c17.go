//go:build verif

package driver

import (
	"net/http/httptest"

	"github.com/google/pprof/internal/plugin"
	"github.com/google/pprof/internal/report"
	"github.com/google/pprof/profile"
)

type verifC17UI struct{}

func (verifC17UI) ReadLine(prompt string) (string, error) { return "", nil }
func (verifC17UI) Print(...interface{})                    {}
func (verifC17UI) PrintErr(...interface{})                 {}
func (verifC17UI) IsTerminal() bool                        { return false }
func (verifC17UI) WantBrowser() bool                       { return false }
func (verifC17UI) SetAutoComplete(func(string) string)     {}

// VerifC17StackView serves GET /flamegraph?<rawQuery> through the real web handler for profile p
// and returns status and page.  It also returns the report generateRawReport builds for the same
// configuration (the handler does not expose its own), so that the harness can hand the model the
// profile and options the handler worked on.  rawQuery must set g= (granularity) explicitly; trim_path and divide_by have no URL
// parameter and are set in the current configuration for the duration of the call.
func VerifC17StackView(p *profile.Profile, rawQuery, trimPath string, divideBy float64) (status int, page string, rpt *report.Report, err error) {
	old := currentConfig()
	defer setCurrentConfig(old)
	mod := old
	mod.TrimPath, mod.DivideBy = trimPath, divideBy
	setCurrentConfig(mod)
	opt := &plugin.Options{UI: verifC17UI{}}
	ui, err := makeWebInterface(p, makeProfileCopier(p), opt)
	if err != nil {
		return 0, "", nil, err
	}
	req := httptest.NewRequest("GET", "/flamegraph?"+rawQuery, nil)
	w := httptest.NewRecorder()
	ui.stackView(w, req)
	status, page = w.Code, w.Body.String()

	cfg := currentConfig()
	if err := cfg.applyURL(req.URL.Query()); err != nil {
		return status, page, nil, err
	}
	_, rpt, err = generateRawReport(ui.copier.newCopy(), []string{"svg"}, cfg, opt)
	return status, page, rpt, err
}

// VerifC17Step is one request of VerifC17StackViewSeq.
type VerifC17Step struct {
	Status int
	Page   string
	Rpt    *report.Report // reference report for the same configuration, built from a pristine copy; nil if none
	Err    error
}

// VerifC17StackViewSeq serves several GET /flamegraph?<query> requests, one after the other, through
// ONE web interface object (the way a browser session does), so that state surviving in the
// interface, its profile or its copier between requests becomes observable.  The reference report
// of each request is built from a byte copy of the serialized profile taken before the first
// request, never from the interface's own copier.
func VerifC17StackViewSeq(p *profile.Profile, rawQueries []string, trimPath string, divideBy float64) (steps []VerifC17Step, err error) {
	old := currentConfig()
	defer setCurrentConfig(old)
	mod := old
	mod.TrimPath, mod.DivideBy = trimPath, divideBy
	setCurrentConfig(mod)
	opt := &plugin.Options{UI: verifC17UI{}}
	copier := makeProfileCopier(p)
	pristine := append(profileCopier(nil), copier...)
	ui, err := makeWebInterface(p, copier, opt)
	if err != nil {
		return nil, err
	}
	for _, q := range rawQueries {
		var st VerifC17Step
		req := httptest.NewRequest("GET", "/flamegraph?"+q, nil)
		w := httptest.NewRecorder()
		ui.stackView(w, req)
		st.Status, st.Page = w.Code, w.Body.String()
		cfg := currentConfig()
		if e := cfg.applyURL(req.URL.Query()); e != nil {
			st.Err = e
		} else {
			_, st.Rpt, st.Err = generateRawReport(pristine.newCopy(), []string{"svg"}, cfg, opt)
		}
		steps = append(steps, st)
	}
	return steps, nil
}
