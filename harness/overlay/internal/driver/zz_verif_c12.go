//go:build verif

package driver

import (
	"github.com/google/pprof/internal/plugin"
	"github.com/google/pprof/profile"
)

// Add-only export shim for the C12 verification harness.

// VerifC12FetchProfiles runs fetchProfiles for the given sources and symbolization mode with the
// plug-ins of o (Fetch, Obj, UI, HTTPTransport, Sym).
func VerifC12FetchProfiles(sources []string, symbolize string, o *plugin.Options) (*profile.Profile, error) {
	return fetchProfiles(&source{Sources: sources, Symbolize: symbolize}, o)
}
