//go:build verif

package driver

import (
	"net/url"
	"reflect"
	"sort"

	"github.com/google/pprof/internal/plugin"
	"github.com/google/pprof/profile"
)

// Add-only export shims for the C09 (crash-freedom) check of /verif. Nothing here changes behaviour.

// VerifC09Field is one configuration field of a config value, in configFields order.
type VerifC09Field struct {
	Name, URLParam, Kind, Default string
	Saved                         bool
	Choices                       []string
	S                             string
	I                             int64
	F                             float64
	B                             bool
}

func verifC09Dump(cfg *config) []VerifC09Field {
	var out []VerifC09Field
	for _, f := range configFields {
		v := VerifC09Field{Name: f.name, URLParam: f.urlparam, Default: f.defaultValue, Saved: f.saved,
			Choices: append([]string{}, f.choices...)}
		switch ptr := cfg.fieldPtr(f).(type) {
		case *string:
			v.Kind, v.S = "string", *ptr
		case *int:
			v.Kind, v.I = "int", int64(*ptr)
		case *float64:
			v.Kind, v.F = "float", *ptr
		case *bool:
			v.Kind, v.B = "bool", *ptr
		default:
			v.Kind = "other:" + f.field.Type.String()
		}
		out = append(out, v)
	}
	return out
}

// VerifC09Current dumps the current configuration.
func VerifC09Current() []VerifC09Field { c := currentConfig(); return verifC09Dump(&c) }

// VerifC09Default dumps the default configuration.
func VerifC09Default() []VerifC09Field { c := defaultConfig(); return verifC09Dump(&c) }

// VerifC09Reset puts the package-level session state back to what a fresh process has.
func VerifC09Reset() {
	setCurrentConfig(defaultConfig())
	interactiveMode = false
	pprofShortcuts = shortcuts{":": []string{"focus=", "ignore=", "hide=", "tagfocus=", "tagignore="}}
	generateReportWrapper = generateReport
}

// VerifC09Configure is configure.
func VerifC09Configure(name, value string) error { return configure(name, value) }

// VerifC09IsBool / VerifC09IsConfigurable are isBoolConfig / isConfigurable.
func VerifC09IsBool(name string) bool         { return isBoolConfig(name) }
func VerifC09IsConfigurable(name string) bool { return isConfigurable(name) }

// VerifC09Commands lists the command table: name -> hasParam, sorted by name.
func VerifC09Commands() (names []string, hasParam []bool) {
	for n := range pprofCommands {
		names = append(names, n)
	}
	sort.Strings(names)
	for _, n := range names {
		hasParam = append(hasParam, pprofCommands[n].hasParam)
	}
	return
}

// VerifC09HelpKeys lists the keys of configHelp, sorted.
func VerifC09HelpKeys() []string {
	var ks []string
	for k := range configHelp {
		ks = append(ks, k)
	}
	sort.Strings(ks)
	return ks
}

// VerifC09ParseTagFilterRange is parseTagFilterRange.
func VerifC09ParseTagFilterRange(s string) func(int64, string) bool { return parseTagFilterRange(s) }

// VerifC09ParseCommandLine is parseCommandLine; the config is dumped.
func VerifC09ParseCommandLine(tokens []string) ([]string, []VerifC09Field, error) {
	cmd, cfg, err := parseCommandLine(tokens)
	if err != nil {
		return nil, nil, err
	}
	return cmd, verifC09Dump(&cfg), nil
}

// VerifC09ApplyURL applies the parameters to a copy of the current configuration.
func VerifC09ApplyURL(params url.Values) ([]VerifC09Field, error) {
	cfg := currentConfig()
	err := cfg.applyURL(params)
	return verifC09Dump(&cfg), err
}

// VerifC09Interactive runs the interactive loop. If hook is non-nil it sees every report request
// (command and its configuration); next() runs the real report generation.
func VerifC09Interactive(p *profile.Profile, o *plugin.Options,
	hook func(cmd []string, cfg []VerifC09Field, next func() error) error) error {
	if hook != nil {
		generateReportWrapper = func(p *profile.Profile, cmd []string, cfg config, o *plugin.Options) error {
			return hook(cmd, verifC09Dump(&cfg), func() error { return generateReport(p, cmd, cfg, o) })
		}
		defer func() { generateReportWrapper = generateReport }()
	}
	return interactive(p, setDefaults(o))
}

// VerifC09LocateBinaries is locateBinaries.
func VerifC09LocateBinaries(p *profile.Profile, obj plugin.ObjTool, ui plugin.UI) {
	locateBinaries(p, &source{}, obj, ui)
}

// VerifC09FieldKindsSupported reports whether every config field has one of the four kinds that
// get/set handle (their default branch panics).
func VerifC09FieldKindsSupported() bool {
	for _, f := range configFields {
		switch f.field.Type.Kind() {
		case reflect.String, reflect.Int, reflect.Float64, reflect.Bool:
		default:
			return false
		}
	}
	return true
}
