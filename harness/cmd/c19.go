//go:build verif

package main

import (
	"fmt"
	"net/url"
	"os"
	"sort"
	"strconv"
	"strings"

	"github.com/google/pprof/internal/driver"
)

func init() {
	registry["C19"] = runC19
	subcmds["gen-configtable"] = c19GenConfigTable
	subcmds["c19-write"] = c19WriteChild
	subcmds["c19-edits"] = c19EditsChild
}

func c19CoqStr(s string) string { return Render(S(s))[3:] }

// c19GenConfigTable is the translator shared by C19 and C10: it dumps driver.configFields (as the
// init() of /repo's current source computes it) as Gallina data.
func c19GenConfigTable(args []string) {
	var sb strings.Builder
	sb.WriteString("(* GENERATED from /repo/internal/driver/config.go (configFields, defaultConfig, resetTransient) on every run; do not edit. *)\n")
	sb.WriteString("From PV Require Import M_Config.\nOpen Scope string_scope.\n\n")
	sb.WriteString("Definition config_fields : list field := [\n")
	for i, f := range driver.VerifConfigFields() {
		if i > 0 {
			sb.WriteString(";\n")
		}
		kind := map[string]string{"string": "KStr", "int": "KInt", "float64": "KFloat", "bool": "KBool"}[f.Kind]
		if kind == "" {
			fmt.Fprintf(os.Stderr, "gen-configtable: unsupported kind %q of field %s\n", f.Kind, f.Name)
			os.Exit(1)
		}
		var ch []string
		for _, c := range f.Choices {
			ch = append(ch, c19CoqStr(c))
		}
		fmt.Fprintf(&sb, "  {| f_name := %s; f_url := %s; f_saved := %v; f_kind := %s; f_choices := [%s]; f_default := %s; f_transient := %v |}",
			c19CoqStr(f.Name), c19CoqStr(f.URLParam), f.Saved, kind, strings.Join(ch, "; "), c19CoqStr(f.Default), f.Transient)
	}
	sb.WriteString("].\n")
	if len(args) > 0 {
		os.WriteFile(args[0], []byte(sb.String()), 0o644)
	} else {
		fmt.Print(sb.String())
	}
}

// ---- terms

// c19CfgTerm encodes a config as its difference from defaultConfig(): [field index; get(field)]
// for every field whose value is not the default (string literals are what makes Coq slow).
func c19CfgTerm(c driver.VerifConfig) Term {
	l := []Term{}
	def := driver.VerifConfigDump(driver.VerifDefaultConfig())
	for i, p := range driver.VerifConfigDump(c) {
		if p[1] != def[i][1] {
			l = append(l, L(ZI(i), S(p[1])))
		}
	}
	return L(l...)
}

func c19ValuesTerm(q url.Values) Term {
	var ks []string
	for k := range q {
		ks = append(ks, k)
	}
	sort.Strings(ks)
	var l []Term
	for _, k := range ks {
		l = append(l, L(S(k), Ss(q[k])))
	}
	return L(l...)
}

// pfTable ships the float oracle: for every candidate string the canonical fmt.Sprint of
// strconv.ParseFloat(s, 64), or nothing when it fails.
func c19PfTable(strs map[string]bool) Term {
	var ks []string
	for k := range strs {
		ks = append(ks, k)
	}
	sort.Strings(ks)
	l := []Term{}
	for _, k := range ks {
		v, err := strconv.ParseFloat(k, 64)
		switch {
		case err != nil: // absent from the table = parse error
		case fmt.Sprint(v) == k:
			l = append(l, L(S(k)))
		default:
			l = append(l, L(S(k), S(fmt.Sprint(v))))
		}
	}
	return L(l...)
}

func c19Collect(strs map[string]bool, q url.Values) {
	for _, vs := range q {
		for _, v := range vs {
			strs[v] = true
		}
	}
}

// c19CollectCfg adds the values of the float fields (the only ones the model asks the oracle about)
func c19CollectCfg(strs map[string]bool, c driver.VerifConfig) {
	fl := driver.VerifConfigFields()
	for i, p := range driver.VerifConfigDump(c) {
		if fl[i].Kind == "float64" {
			strs[p[1]] = true
		}
	}
}

// ---- generators

var c19StrPool = []string{"", "a", "main", "x|y", "a b", "&=?;#", "%41", "caf\xc3\xa9", "cum", "flat", "functions", "lines",
	"minimum", "auto", "true", "t", "0", "f", "\"q\"", "<b>", "line\nbreak", "\u2028", " ", "-1"}
var c19IntPool = []string{"-1", "0", "1", "10", "80", "500", "9223372036854775807", "-9223372036854775808", "123456789", "-42"}
var c19FloatPool = []string{"0", "0.005", "0.001", "1", "0.5", "1e-07", "1e+21", "1e+300", "-0", "NaN", "+Inf", "-Inf", "0.1", "123456.789", "-2.5", "5e-324"}
var c19JunkPool = []string{"10", "+5", "007", "-0", "1e3", " 5", "9223372036854775808", "-9223372036854775809", "abc", "T", "yes", "no", "maybe",
	"NaN", "inf", "0x1p-2", "1_000", ".5", "5.", "1e400", "TRUE", "False", "y", "N", "2", "-", "+", "١", "0.0050", "cum", "files", "Flat"}

func c19GenConfig(r *Rng, fields []driver.VerifField) driver.VerifConfig {
	var pairs [][2]string
	mode := r.Intn(6) // 1: mixed, 2: everything random, others: mostly default
	for _, f := range fields {
		v := f.Default
		vary := (mode == 2) || (mode == 1 && r.Bool()) || (mode != 1 && mode != 2 && r.P(1, 6))
		if vary && f.Saved && f.URLParam == "" && !r.P(1, 8) {
			vary = false // saved options without URL parameter put the case into class F26: keep most cases outside
		}
		if vary {
			switch f.Kind {
			case "string":
				if len(f.Choices) > 0 && !r.P(1, 8) {
					v = PickS(r, f.Choices)
				} else if len(f.Choices) > 0 {
					v = "" // reachable through a settings file without the key
				} else {
					v = PickS(r, c19StrPool)
				}
			case "int":
				v = PickS(r, c19IntPool)
				if r.P(1, 4) {
					v = strconv.FormatInt(r.I64()>>uint(r.Intn(63)), 10)
				}
			case "float64":
				v = PickS(r, c19FloatPool)
				if r.P(1, 4) {
					v = fmt.Sprint(float64(r.Intn(100000)) / float64(1+r.Intn(1000)))
				}
			case "bool":
				v = PickS(r, []string{"true", "false"})
			}
		}
		pairs = append(pairs, [2]string{f.Name, v})
	}
	c, err := driver.VerifConfigFromPairs(pairs)
	if err != nil {
		panic(err)
	}
	return c
}

func c19GenQuery(r *Rng, fields []driver.VerifField, density int) url.Values {
	q := url.Values{}
	for _, f := range fields {
		if f.URLParam == "" || !r.P(density, 10) {
			continue
		}
		var v string
		switch r.Intn(4) {
		case 0:
			v = PickS(r, c19JunkPool)
		case 1:
			v = PickS(r, c19StrPool)
		default:
			switch f.Kind {
			case "string":
				if len(f.Choices) > 0 {
					v = PickS(r, f.Choices)
				} else {
					v = PickS(r, c19StrPool)
				}
			case "int":
				v = PickS(r, c19IntPool)
			case "float64":
				v = PickS(r, c19FloatPool)
			case "bool":
				v = PickS(r, []string{"t", "f", "true", "false", "1", "0", "yes", "No"})
			}
		}
		q[f.URLParam] = []string{v}
		if r.P(1, 12) {
			q[f.URLParam] = append(q[f.URLParam], PickS(r, c19JunkPool))
		}
	}
	if r.P(1, 3) {
		q[PickS(r, []string{"config", "zzz", "", "F", "sort "})] = []string{PickS(r, c19StrPool)}
	}
	return q
}

func c19ApplyObs(c driver.VerifConfig, q url.Values) Term {
	c2, err := driver.VerifApplyURL(c, q)
	if err != nil {
		return L(S("err"), S(c19ErrField(err)))
	}
	return L(S("ok"), c19CfgTerm(c2))
}

// c19ErrField extracts the field name of "error setting config field <name>: ..."
func c19ErrField(err error) string {
	const p = "error setting config field "
	m := err.Error()
	if strings.HasPrefix(m, p) {
		m = m[len(p):]
		if i := strings.Index(m, ":"); i >= 0 {
			return m[:i]
		}
	}
	return "?" + m
}

func c19URLOf(q url.Values) url.URL { return url.URL{Path: "/top", RawQuery: q.Encode()} }

func runC19(c *Ctx) {
	fields := driver.VerifConfigFields()
	saved0 := driver.VerifCurrentConfig()
	defer driver.VerifSetCurrentConfig(saved0)
	c.Extra["fields"] = len(fields)

	// --- URL mapping: makeURL on (cfg, q0), then applyURL of the result on the default config
	urlCase := func(gen string, cfg driver.VerifConfig, q0 url.Values) {
		strs := map[string]bool{}
		c19Collect(strs, q0)
		c19CollectCfg(strs, cfg)
		u2, changed := driver.VerifMakeURL(cfg, c19URLOf(q0))
		q2 := u2.Query()
		c19Collect(strs, q2)
		obs := L(c19ValuesTerm(q2), Bool(changed), c19ApplyObs(driver.VerifDefaultConfig(), q2))
		in := L(S("url"), c19PfTable(strs), c19CfgTerm(cfg), c19ValuesTerm(q0))
		c.Case(gen, in, obs, changed, "op:url")
	}
	urlCase("url-default", driver.VerifDefaultConfig(), url.Values{})
	for k := 0; k < c.Budget(180, 5000); k++ {
		cfg := c19GenConfig(c.R, fields)
		q0 := url.Values{}
		if c.R.P(1, 2) {
			q0 = c19GenQuery(c.R, fields, 1+c.R.Intn(9))
		}
		urlCase("url-random", cfg, q0)
	}
	// one field away from the default at a time (each elision decision in isolation)
	for _, f := range fields {
		vals := append(append([]string{}, c19StrPool[:6]...), "true", "false", "7", "0.25")
		if len(f.Choices) > 0 {
			vals = append([]string{""}, f.Choices...)
		}
		for _, v := range vals {
			cfg, err := driver.VerifConfigFromPairs(append(driver.VerifConfigDump(driver.VerifDefaultConfig()), [2]string{f.Name, v}))
			if err != nil {
				continue
			}
			urlCase("url-onefield", cfg, url.Values{})
		}
	}
	// --- applyURL on an arbitrary base config and an arbitrary query (error paths, order)
	for k := 0; k < c.Budget(180, 5000); k++ {
		cfg := c19GenConfig(c.R, fields)
		q := c19GenQuery(c.R, fields, 1+c.R.Intn(9))
		strs := map[string]bool{}
		c19Collect(strs, q)
		c19CollectCfg(strs, cfg)
		c.Case("apply-random", L(S("apply"), c19PfTable(strs), c19CfgTerm(cfg), c19ValuesTerm(q)), c19ApplyObs(cfg, q), len(q) > 0, "op:apply")
	}
	c19RunSettings(c, fields)
}
