//go:build verif

package main

import (
	"math"
	"bytes"
	"flag"
	"fmt"
	"io"
	"net/http"
	"net/http/httptest"
	"os"
	"regexp"
	"strconv"
	"strings"
	"sync"
	"time"

	"github.com/google/pprof/driver"
	"github.com/google/pprof/profile"
)

// END-TO-END LAYER.  The same kind of generated profiles the other C03 streams hand to
// profile.Merge are pushed through the PUBLIC entry point driver.PProf: a FlagSet holding the real
// command line (parsed by the real parseFlags), sources fetched from files or through a Fetcher
// plug-in (some failing), the driver's chunked fetch / combineProfiles / -base pipeline, report
// generation, output through a Writer plug-in (-output, `cmd >file`) or the web handlers.  What is
// printed (-proto, `proto`, /download: a profile; -raw, `raw`: Profile.String) is parsed back into
// the observable the model (M_MergeGlue: glue semantics on top of M_Merge.merge) predicts.

// ---------------------------------------------------------------------------------------------
// plug-ins

type c03Flags struct {
	fs    *flag.FlagSet
	args  []string
	extra []string
}

type c03StrList struct{ l *[]*string }

func (s c03StrList) String() string { return "" }
func (s c03StrList) Set(v string) error {
	*s.l = append(*s.l, &v)
	return nil
}

func c03NewFlags(args []string) *c03Flags {
	fs := flag.NewFlagSet("pprof", flag.ContinueOnError)
	fs.SetOutput(io.Discard)
	return &c03Flags{fs: fs, args: args}
}
func (f *c03Flags) Bool(o string, d bool, c string) *bool          { return f.fs.Bool(o, d, c) }
func (f *c03Flags) Int(o string, d int, c string) *int             { return f.fs.Int(o, d, c) }
func (f *c03Flags) Float64(o string, d float64, c string) *float64 { return f.fs.Float64(o, d, c) }
func (f *c03Flags) String(o, d, c string) *string                  { return f.fs.String(o, d, c) }
func (f *c03Flags) StringList(o, d, c string) *[]*string {
	l := &[]*string{}
	f.fs.Var(c03StrList{l}, o, c)
	return l
}
func (f *c03Flags) ExtraUsage() string     { return strings.Join(f.extra, "\n") }
func (f *c03Flags) AddExtraUsage(s string) { f.extra = append(f.extra, s) }
func (f *c03Flags) Parse(usage func()) []string {
	f.fs.Usage = func() {}
	if err := f.fs.Parse(f.args); err != nil {
		return nil
	}
	if len(f.fs.Args()) == 0 {
		usage()
	}
	return f.fs.Args()
}

type c03Fetcher struct{ data map[string][]byte }

func (f c03Fetcher) Fetch(src string, _, _ time.Duration) (*profile.Profile, string, error) {
	b, ok := f.data[src]
	if !ok {
		return nil, "", fmt.Errorf("no such profile %q", src)
	}
	p, err := profile.ParseData(b)
	return p, "", err
}

type c03UI struct {
	lines []string
	idx   int
	errs  int
}

func (u *c03UI) ReadLine(string) (string, error) {
	if u.idx >= len(u.lines) {
		return "", io.EOF
	}
	u.idx++
	return u.lines[u.idx-1], nil
}
func (u *c03UI) Print(args ...interface{})           {}
func (u *c03UI) PrintErr(args ...interface{})        { u.errs++ }
func (u *c03UI) IsTerminal() bool                    { return false }
func (u *c03UI) WantBrowser() bool                   { return false }
func (u *c03UI) SetAutoComplete(func(string) string) {}

type c03MemWriter struct {
	mu  sync.Mutex
	buf map[string]*bytes.Buffer
}
type c03MemFile struct {
	w *c03MemWriter
	b *bytes.Buffer
}

func (w *c03MemWriter) Open(name string) (io.WriteCloser, error) {
	w.mu.Lock()
	defer w.mu.Unlock()
	if w.buf == nil {
		w.buf = map[string]*bytes.Buffer{}
	}
	b := &bytes.Buffer{}
	w.buf[name] = b
	return &c03MemFile{w, b}, nil
}
func (f *c03MemFile) Write(p []byte) (int, error) {
	f.w.mu.Lock()
	defer f.w.mu.Unlock()
	return f.b.Write(p)
}
func (f *c03MemFile) Close() error { return nil }

// ---------------------------------------------------------------------------------------------
// parsing the outputs back

var c03LabelRx = regexp.MustCompile(`(\S+?):\[([^\]]*)\]`)

func c03RawLabels(line string) Term {
	var es []Term
	for _, m := range c03LabelRx.FindAllStringSubmatch(line, -1) {
		var toks []string
		if m[2] != "" {
			toks = strings.Split(m[2], " ")
		}
		es = append(es, L(S(m[1]), Ss(toks)))
	}
	return L(es...)
}

func c03U(s string, base int) Term {
	s = strings.TrimPrefix(s, "0x")
	v, err := strconv.ParseUint(s, base, 64)
	if err != nil {
		return S("?" + s)
	}
	return ZU(v)
}
func c03I(s string) Term {
	v, err := strconv.ParseInt(s, 10, 64)
	if err != nil {
		return S("?" + s)
	}
	return Z(v)
}

// c03ParseRaw reads Profile.String() back (names, files and label values are generated without
// blanks; time and duration are printed lossily and are left out).
func c03ParseRaw(text string) Term {
	var comments []string
	doc := ""
	pt := L()
	var period Term = Z(0)
	var stypes, samples, locs, maps []Term
	lines := strings.Split(strings.TrimSuffix(text, "\n"), "\n")
	i := 0
	for ; i < len(lines) && lines[i] != "Samples:"; i++ {
		ln := lines[i]
		switch {
		case strings.HasPrefix(ln, "Comment: "):
			comments = append(comments, ln[len("Comment: "):])
		case strings.HasPrefix(ln, "Doc: "):
			doc = ln[len("Doc: "):]
		case strings.HasPrefix(ln, "PeriodType: "):
			f := strings.SplitN(ln[len("PeriodType: "):], " ", 2)
			if len(f) == 2 {
				pt = L(L(S(f[0]), S(f[1])))
			}
		case strings.HasPrefix(ln, "Period: "):
			period = c03I(ln[len("Period: "):])
		}
	}
	i++ // "Samples:"
	if i < len(lines) {
		for _, f := range strings.Fields(lines[i]) {
			dflt := strings.HasSuffix(f, "[dflt]")
			f = strings.TrimSuffix(f, "[dflt]")
			tu := strings.SplitN(f, "/", 2)
			if len(tu) == 2 {
				stypes = append(stypes, L(S(tu[0]), S(tu[1]), Bool(dflt)))
			}
		}
		i++
	}
	var cur []Term // values, ids, label lines of the sample being read
	var curLabs []Term
	flush := func() {
		if cur != nil {
			samples = append(samples, L(cur[0], cur[1], L(curLabs...)))
		}
		cur, curLabs = nil, nil
	}
	for ; i < len(lines) && lines[i] != "Locations"; i++ {
		ln := lines[i]
		if strings.Contains(ln, ":[") {
			curLabs = append(curLabs, c03RawLabels(ln))
			continue
		}
		flush()
		k := strings.Index(ln, ": ")
		if k < 0 {
			k = strings.Index(ln, ":")
		}
		if k < 0 {
			cur = []Term{L(S("?" + ln)), L()}
			continue
		}
		var vs, ids []Term
		for _, f := range strings.Fields(ln[:k]) {
			vs = append(vs, c03I(f))
		}
		for _, f := range strings.Fields(ln[k+1:]) {
			ids = append(ids, c03U(f, 10))
		}
		cur = []Term{L(vs...), L(ids...)}
	}
	flush()
	i++ // "Locations"
	type loc struct {
		head  []Term
		lines []Term
	}
	var cl *loc
	flushL := func() {
		if cl != nil {
			locs = append(locs, L(cl.head[0], cl.head[1], cl.head[2], cl.head[3], L(cl.lines...)))
		}
		cl = nil
	}
	parseLine := func(toks []string) {
		for len(toks) > 0 && toks[len(toks)-1] == "" {
			toks = toks[:len(toks)-1]
		}
		if len(toks) == 0 {
			return
		}
		if len(toks) != 3 {
			cl.lines = append(cl.lines, L(S("?"+strings.Join(toks, " "))))
			return
		}
		flc := toks[1]
		c := strings.LastIndex(flc, ":")
		l := strings.LastIndex(flc[:c], ":")
		st := strings.TrimPrefix(toks[2], "s=")
		sys := ""
		if k := strings.Index(st, "("); k >= 0 {
			sys = strings.TrimSuffix(st[k+1:], ")")
			st = st[:k]
		}
		cl.lines = append(cl.lines, L(S(toks[0]), S(flc[:l]), c03I(flc[l+1:c]), c03I(flc[c+1:]), c03I(st), S(sys)))
	}
	for ; i < len(lines) && lines[i] != "Mappings"; i++ {
		ln := lines[i]
		if strings.HasPrefix(ln, "             ") { // continuation: a further inline line
			parseLine(strings.Split(ln[13:], " "))
			continue
		}
		flushL()
		toks := strings.Split(strings.TrimLeft(ln, " "), " ")
		cl = &loc{head: []Term{c03U(strings.TrimSuffix(toks[0], ":"), 10), c03U(toks[1], 16), Z(0), Bool(false)}}
		toks = toks[2:]
		if len(toks) > 0 && strings.HasPrefix(toks[0], "M=") {
			cl.head[2] = c03U(toks[0][2:], 10)
			toks = toks[1:]
		}
		if len(toks) > 0 && toks[0] == "[F]" {
			cl.head[3] = Bool(true)
			toks = toks[1:]
		}
		parseLine(toks)
	}
	flushL()
	i++ // "Mappings"
	for ; i < len(lines); i++ {
		toks := strings.Split(lines[i], " ")
		if len(toks) != 5 {
			maps = append(maps, L(S("?"+lines[i])))
			continue
		}
		a := strings.Split(toks[1], "/")
		if len(a) != 3 {
			maps = append(maps, L(S("?"+lines[i])))
			continue
		}
		b := toks[4]
		maps = append(maps, L(c03U(strings.TrimSuffix(toks[0], ":"), 10), c03U(a[0], 16), c03U(a[1], 16), c03U(a[2], 16), S(toks[2]), S(toks[3]),
			Bool(strings.Contains(b, "[FN]")), Bool(strings.Contains(b, "[FL]")), Bool(strings.Contains(b, "[LN]")), Bool(strings.Contains(b, "[IN]"))))
	}
	return L(Ss(comments), S(doc), pt, period, L(stypes...), L(samples...), L(locs...), L(maps...))
}

func c03ParseProto(b []byte) Term {
	p, err := profile.ParseData(b)
	if err != nil {
		return L(S("unparsable"), S(err.Error()))
	}
	return L(S("profile"), DumpProfile(p))
}

// ---------------------------------------------------------------------------------------------
// a scenario: sources, bases, command line, what follows (one-shot command, session lines, requests)

type c03Item struct {
	kind   string // "set" name value | "cmd" name arg file judged | "get" path rawq judged
	a, b   string
	file   string
	judged bool
}

type c03Scenario struct {
	srcs, bases []*profile.Profile // nil = a source that cannot be fetched
	diffBase    bool
	flags       []c03Item // "set" items given as command-line flags
	oneShot     string    // "proto" | "raw" | "" (then session or web)
	web         bool
	items       []c03Item // session lines / web requests
	files       bool      // sources are files on disk rather than answers of a Fetcher plug-in
}

var c03E2ESeq int

func c03ItemTerm(it c03Item) Term {
	return L(S(it.kind), S(it.a), S(it.b), Bool(it.judged))
}

// c03E2E runs the scenario through driver.PProf and records the case.
func c03E2E(c *Ctx, gen string, sc c03Scenario, nontrivial bool, tags ...string) {
	if !c09Reset() {
		return
	}
	c03E2ESeq++
	data := map[string][]byte{}
	var srcNames, baseNames []string
	var srcTerms, baseTerms []Term
	add := func(kind string, i int, p *profile.Profile) (string, Term) {
		name := fmt.Sprintf("c03e2e_%d_%s%d.pb.gz", c03E2ESeq, kind, i)
		if p == nil {
			return name, L(S("fail"))
		}
		var buf bytes.Buffer
		p.Write(&buf)
		data[name] = buf.Bytes()
		q, err := profile.ParseData(buf.Bytes())
		if err != nil {
			return name, L(S("fail"))
		}
		return name, L(S("ok"), DumpProfile(q))
	}
	for i, p := range sc.srcs {
		n, t := add("s", i, p)
		srcNames, srcTerms = append(srcNames, n), append(srcTerms, t)
	}
	for i, p := range sc.bases {
		n, t := add("b", i, p)
		baseNames, baseTerms = append(baseNames, n), append(baseTerms, t)
	}
	args := []string{"-symbolize=none"}
	var script []Term
	for _, f := range sc.flags {
		switch {
		case f.a == "sort" || f.a == "granularity": // one boolean flag per choice
			args = append(args, "-"+f.b)
		default:
			args = append(args, "-"+f.a+"="+f.b)
		}
		script = append(script, c03ItemTerm(f))
	}
	for _, b := range baseNames {
		if sc.diffBase {
			args = append(args, "-diff_base="+b)
		} else {
			args = append(args, "-base="+b)
		}
	}
	items := sc.items
	switch {
	case sc.oneShot != "":
		args = append(args, "-"+sc.oneShot, "-output=oneshot")
		items = []c03Item{{kind: "cmd", a: sc.oneShot, file: "oneshot", judged: true}}
	case sc.web:
		args = append(args, "-http=localhost:8080")
	}
	args = append(args, srcNames...)
	for _, it := range items {
		script = append(script, c03ItemTerm(it))
	}
	mw := &c03MemWriter{}
	ui := &c03UI{}
	for _, it := range items {
		switch it.kind {
		case "set":
			ui.lines = append(ui.lines, it.a+"="+it.b)
		case "cmd":
			if sc.oneShot == "" {
				l := it.a
				if it.b != "" {
					l += " " + it.b
				}
				ui.lines = append(ui.lines, l+" >"+it.file)
			}
		}
	}
	webOut := map[int][]byte{}
	server := func(a *plugin_HTTPServerArgs) error {
		for k, it := range items {
			if it.kind != "get" {
				continue
			}
			h := a.Handlers[it.a]
			if h == nil {
				continue
			}
			req := httptest.NewRequest("GET", "http://localhost"+it.a, nil)
			req.URL.RawQuery = it.b
			w := httptest.NewRecorder()
			func() {
				defer func() { recover() }()
				h.ServeHTTP(w, req)
			}()
			if w.Code == http.StatusOK {
				webOut[k] = w.Body.Bytes()
			}
		}
		return nil
	}
	o := &driver.Options{UI: ui, Writer: mw, Flagset: c03NewFlags(args), HTTPServer: server}
	if sc.files {
		for n, b := range data {
			os.WriteFile(n, b, 0o644)
		}
	} else {
		o.Fetch = c03Fetcher{data}
	}
	in := L(S("e2e"), L(srcTerms...), L(baseTerms...), Bool(sc.diffBase), L(script...))
	res := c09Guarded(60*time.Second, func() string {
		if err := driver.PProf(o); err != nil {
			return "error"
		}
		return "ok"
	})
	if sc.files {
		for n := range data {
			os.Remove(n)
		}
	}
	c09Cleanup()
	var outs []Term
	for k, it := range items {
		if !it.judged {
			continue
		}
		var b []byte
		ok := false
		if it.kind == "get" {
			b, ok = webOut[k]
		} else if buf := mw.buf[it.file]; buf != nil {
			b, ok = buf.Bytes(), true
		}
		switch {
		case !ok:
			outs = append(outs, L(S("missing")))
		case it.kind == "cmd" && it.a == "raw":
			outs = append(outs, L(S("raw"), c03ParseRaw(string(b))))
		default:
			outs = append(outs, c03ParseProto(b))
		}
	}
	rs := "?"
	if s, ok := res.(tS); ok {
		rs = s.s
	} else {
		rs = "hang-or-panic"
	}
	tags = append(tags, "op:e2e", "e2e:"+rs, fmt.Sprintf("inputs:%d", len(sc.srcs)))
	c.Case(gen, in, L(S(rs), L(outs...)), nontrivial, tags...)
}

type plugin_HTTPServerArgs = driver.HTTPServerArgs

// ---------------------------------------------------------------------------------------------
// inputs that survive serialisation unchanged and print without blanks

var c03E2ENames = []string{"main", "foo", "bar", "runtime.mallocgc", "op+", "100%", "a::b<int>", "f"}

func c03E2EPool(r *Rng) *c03Pool {
	pool := c03RandPool(r, false)
	for i := range pool.fs {
		f := &pool.fs[i]
		if f.name == "" {
			f.name = PickS(r, c03E2ENames)
		}
		if f.sys == "" {
			f.sys = f.name
		}
		if r.P(1, 4) {
			f.name = PickS(r, c03E2ENames)
		}
	}
	for i := range pool.ms {
		if pool.ms[i].file == "[kernel.kallsyms]_stext" {
			pool.ms[i].file = "/boot/vmlinux"
		}
	}
	for i := range pool.ss {
		pool.ss[i].label, pool.ss[i].num, pool.ss[i].numUnit = c03E2ELabels(r)
	}
	return pool
}

func c03E2ELabels(r *Rng) (map[string][]string, map[string][]int64, map[string][]string) {
	var lab map[string][]string
	var num map[string][]int64
	var nu map[string][]string
	if r.P(1, 3) {
		lab = map[string][]string{}
		for j := 1 + r.Intn(2); j > 0; j-- {
			vs := []string{PickS(r, []string{"v", "w", "x+y", "50%"})}
			if r.P(1, 4) {
				vs = append(vs, "z")
			}
			lab[PickS(r, []string{"k", "key", "a", "b"})] = vs
		}
	}
	if r.P(1, 3) {
		num = map[string][]int64{}
		nu = map[string][]string{}
		for j := 1 + r.Intn(2); j > 0; j-- {
			k := PickS(r, []string{"bytes", "n", "req"})
			n := 1 + r.Intn(2)
			var vs []int64
			for q := 0; q < n; q++ {
				vs = append(vs, int64(1+r.Intn(300)))
			}
			num[k] = vs
			switch r.Intn(3) {
			case 0:
				delete(nu, k)
			case 1:
				us := make([]string, n)
				for q := range us {
					us[q] = "bytes"
				}
				nu[k] = us
			default: // a tag whose values carry different units
				us := make([]string, n)
				for q := range us {
					us[q] = []string{"bytes", "ms"}[q%2]
				}
				nu[k] = us
			}
		}
	}
	return lab, num, nu
}

func c03E2EHeader(r *Rng, h c03Header) c03Header {
	g := c03VaryHeader(r, h)
	g.drop, g.keep = "", "" // frame dropping is C11's
	if g.period < 0 {
		g.period = -g.period
	}
	if g.period < 0 {
		g.period = 0
	}
	if g.period >= 1<<53 {
		// measurement.ScaleProfiles rewrites Period through float64 even when the units agree: exact
		// below 2^53 only (reported separately; the glue model takes the conversion as the identity)
		g.period %= 1000
	}
	for i := range g.comm {
		g.comm[i] = strings.ReplaceAll(g.comm[i], "é", "e")
	}
	return g
}

func c03E2EValues(r *Rng, nst int) []int64 {
	v := make([]int64, nst)
	for i := range v {
		v[i] = int64(r.Intn(40)) - 8 // negative values and zero columns included
	}
	return v
}

// display options that must not change what proto / raw / download write
func c03E2ENoise(r *Rng, stypes []string) []c03Item {
	pool := []c03Item{
		{kind: "set", a: "sample_index", b: PickS(r, stypes)}, {kind: "set", a: "nodecount", b: "3"},
		{kind: "set", a: "unit", b: "minimum"}, {kind: "set", a: "call_tree", b: "true"}, {kind: "set", a: "trim", b: "false"},
		{kind: "set", a: "compact_labels", b: "true"}, {kind: "set", a: "showcolumns", b: "true"}, {kind: "set", a: "mean", b: "true"},
		{kind: "set", a: "relative_percentages", b: "true"}, {kind: "set", a: "drop_negative", b: "true"}, {kind: "set", a: "nodefraction", b: "0.5"},
		{kind: "set", a: "edgefraction", b: "0.5"}, {kind: "set", a: "sort", b: "cum"},
		{kind: "set", a: "granularity", b: PickS(r, []string{"functions", "filefunctions", "files", "lines", "addresses"})},
	}
	var out []c03Item
	seen := map[string]bool{}
	for k := r.Intn(4); k > 0; k-- {
		it := pool[r.Intn(len(pool))]
		if !seen[it.a] {
			seen[it.a] = true
			out = append(out, it)
		}
	}
	return out
}

// options with a modelled effect on what is written
func c03E2EEffect(r *Rng) []c03Item {
	var out []c03Item
	if r.P(1, 3) {
		out = append(out, c03Item{kind: "set", a: "noinlines", b: "true"})
		if r.Bool() {
			out = append(out, c03Item{kind: "set", a: "showcolumns", b: "true"})
		}
	}
	if r.P(1, 4) {
		out = append(out, c03Item{kind: "set", a: "divide_by", b: PickS(r, []string{"2", "4", "1"})})
	}
	if r.P(1, 4) {
		out = append(out, c03Item{kind: "set", a: "add_comment", b: PickS(r, []string{"note", "c1"})})
	}
	return out
}

func c03STypeNames(h c03Header) []string {
	var s []string
	for _, t := range h.st {
		s = append(s, t.Type)
	}
	return s
}

// ---------------------------------------------------------------------------------------------
// deterministic scenarios

func c03E2EHeaderBase() c03Header {
	return c03Header{st: []profile.ValueType{{Type: "samples", Unit: "count"}, {Type: "cpu", Unit: "nanoseconds"}},
		pt: &profile.ValueType{Type: "cpu", Unit: "nanoseconds"}, period: 10, time: 100, dur: 5}
}

var c03E2EReady bool

func c03E2ESetup() {
	if !c03E2EReady {
		c09Env() // HOME, TMPDIR, PATH, PPROF_* confined to the scratch directory; stdout to /dev/null
		c03E2EReady = true
	}
}

func c03E2ESystematic(c *Ctx) {
	c03E2ESetup()
	r := c.R
	h := c03E2EHeaderBase()
	quick := c.Tier != "thorough"
	// (1) every single-attribute pair through `pprof -proto a b` / `-raw a b`: nothing of a frame may be
	// altered on the way from the merge to the output
	for mi, mu := range c03Muts() {
		if strings.HasPrefix(mu.name, "sample.label-empty") || strings.HasPrefix(mu.name, "sample.label-split") ||
			strings.Contains(mu.name, "F2") || strings.Contains(mu.name, "num-unit-empty") || strings.Contains(mu.name, "fake-both") ||
			strings.Contains(mu.name, "label-val-eq-key") {
			continue // shapes the serialisation itself normalises (C01)
		}
		w := c03BaseWorld()
		mu.f(w)
		a := c03Instantiate(r, w, h, []c03Use{{0, []int64{1, 100}}}, 0, false, true)
		b := c03Instantiate(r, w, h, []c03Use{{1, []int64{10, 1000}}, {0, []int64{4, 400}}}, mi%4, mi%2 == 1, true)
		shot := "proto"
		if mi%3 == 2 && !strings.Contains(mu.name, "fn.name-eq") { // an empty function name does not survive the raw text
			shot = "raw"
		}
		if quick && mi%2 == 1 && !strings.HasPrefix(mu.name, "line.") {
			continue
		}
		c03E2E(c, "e2e-attr", c03Scenario{srcs: []*profile.Profile{a, b}, oneShot: shot, files: mi%5 == 0}, true, "attr:"+mu.name)
	}
	// (2) header rules with inputs that have no samples (an idle host in a fleet-wide merge)
	mk := func(period, tm, dur int64, comm []string, uses []c03Use) *profile.Profile {
		g := h
		g.period, g.time, g.dur, g.comm = period, tm, dur, comm
		return c03Instantiate(r, c03BaseWorld(), g, uses, 0, false, true)
	}
	busyA := func() *profile.Profile { return mk(1000, 300, 10, []string{"host=a", "build42"}, []c03Use{{0, []int64{10, 100}}}) }
	idle := func() *profile.Profile { return mk(5000, 100, 30, []string{"host=idle", "build42"}, nil) }
	idle2 := func() *profile.Profile { return mk(7, 0, 2, []string{"host=idle2"}, nil) }
	busyB := func() *profile.Profile { return mk(2000, 200, 20, []string{"host=b"}, []c03Use{{1, []int64{4, 40}}}) }
	for k, l := range [][]*profile.Profile{{busyA(), idle(), busyB()}, {idle(), busyA(), busyB()}, {busyA(), idle()}, {idle(), busyA()},
		{idle(), idle2()}, {busyA(), busyB(), idle(), idle2()}, {idle()}, {busyA(), nil, idle()}} {
		shot := "proto"
		if k%3 == 2 {
			shot = "raw"
		}
		c03E2E(c, "e2e-idle", c03Scenario{srcs: l, oneShot: shot, files: k%2 == 0}, true)
	}
	// (3) sessions: every proto / raw of a session writes the merged profile, whatever ran before
	two := func() []*profile.Profile {
		w := c03BaseWorld()
		w.ls[1].rel = 0x300
		return []*profile.Profile{c03Instantiate(r, w, h, []c03Use{{0, []int64{1, 100}}, {1, []int64{3, 300}}}, 0, false, true),
			c03Instantiate(r, w, h, []c03Use{{1, []int64{5, 500}}, {0, []int64{-1, 7}}}, 1, true, true)}
	}
	cmd := func(name, arg, file string, judged bool) c03Item {
		return c03Item{kind: "cmd", a: name, b: arg, file: file, judged: judged}
	}
	set := func(n, v string) c03Item { return c03Item{kind: "set", a: n, b: v} }
	sessions := [][]c03Item{
		{cmd("proto", "", "m1", true), cmd("proto", "caller", "m2", false), cmd("proto", "", "m3", true)},
		{cmd("raw", "", "r1", true), cmd("raw", "f0", "r2", false), cmd("raw", "", "r3", true), cmd("proto", "", "m4", true)},
		{cmd("proto", "-f0", "m1", false), cmd("raw", "", "r1", true), cmd("top", "", "t1", false), cmd("proto", "", "m2", true)},
		{set("focus", "f1"), cmd("proto", "", "m1", false), set("focus", ""), cmd("proto", "", "m2", true), cmd("raw", "", "r2", true)},
		{set("divide_by", "2"), cmd("proto", "", "m1", true), cmd("proto", "", "m2", true), set("divide_by", "1"), cmd("proto", "", "m3", true)},
		{set("tagroot", "k"), cmd("proto", "", "m1", false), cmd("raw", "", "r1", false), set("tagroot", ""), cmd("raw", "", "r2", true), cmd("proto", "", "m2", true)},
		{set("noinlines", "true"), cmd("proto", "", "m1", true), set("showcolumns", "true"), cmd("proto", "", "m2", true), set("noinlines", "false"), cmd("raw", "", "r3", true)},
		{cmd("traces", "", "t1", false), set("sample_index", "cpu"), cmd("proto", "", "m1", true), cmd("tree", "f0", "t2", false), cmd("raw", "", "r1", true)},
		{set("hide", "f1"), cmd("raw", "", "r1", false), set("hide", ""), set("tagignore", "k=v"), cmd("proto", "", "m1", false), set("tagignore", ""), cmd("proto", "", "m2", true)},
	}
	for k, s := range sessions {
		if quick && k%2 == 1 && k > 3 {
			continue
		}
		c03E2E(c, "e2e-session", c03Scenario{srcs: two(), items: s, files: k%3 == 0}, true)
	}
	// (4) the web UI: /download hands out the merged profile, before and after other requests
	get := func(path, q string, judged bool) c03Item { return c03Item{kind: "get", a: path, b: q, judged: judged} }
	webs := [][]c03Item{
		{get("/download", "", true), get("/top", "f=f0", false), get("/", "si=cpu&i=caller", false), get("/download", "", true)},
		{get("/flamegraph", "h=f1", false), get("/peek", "f=caller", false), get("/top", "f=%2B&s=100%25", false), get("/download", "x=1", true)},
	}
	for _, s := range webs {
		c03E2E(c, "e2e-web", c03Scenario{srcs: two(), web: true, items: s}, true)
	}
	// (5) subtraction: sources minus bases, plain and as a diff
	base := func() *profile.Profile {
		w := c03BaseWorld()
		w.ls[1].rel = 0x300
		return c03Instantiate(r, w, h, []c03Use{{0, []int64{1, 100}}, {1, []int64{2, 2}}}, 2, true, true)
	}
	for k, db := range []bool{false, true, false} {
		shot := "proto"
		if k == 2 {
			shot = "raw"
		}
		c03E2E(c, "e2e-base", c03Scenario{srcs: two(), bases: []*profile.Profile{base()}, diffBase: db, oneShot: shot}, true)
	}
	c03E2E(c, "e2e-base", c03Scenario{srcs: two()[:1], bases: []*profile.Profile{base(), base()}, oneShot: "proto"}, true)
	// (6) sources that cannot be fetched are left out; none left is an error
	c03E2E(c, "e2e-fail", c03Scenario{srcs: []*profile.Profile{nil, two()[0], nil, two()[1]}, oneShot: "proto"}, true)
	c03E2E(c, "e2e-fail", c03Scenario{srcs: []*profile.Profile{nil, nil}, oneShot: "proto", files: true}, false)
	c03E2E(c, "e2e-fail", c03Scenario{srcs: []*profile.Profile{two()[0], nil}, oneShot: "raw", files: true}, false)
	// (7) more sources than one fetch chunk holds (128): chunks are merged one after the other
	n := 130
	if !quick {
		n = 260
	}
	var many []*profile.Profile
	w := c03BaseWorld()
	for i := 0; i < n; i++ {
		g := h
		g.period, g.time, g.dur = int64(i%7), int64((i*37)%11)*10, int64(i%3)
		if i%50 == 0 {
			g.comm = []string{fmt.Sprint("c", i/50)}
		}
		var uses []c03Use
		if i%9 != 4 {
			uses = []c03Use{{i % 2, []int64{int64(i%5) - 1, 1}}}
		}
		many = append(many, c03Instantiate(r, w, g, uses, 0, false, true))
	}
	c03E2E(c, "e2e-chunks", c03Scenario{srcs: many, oneShot: "proto"}, true)
	c03E2EShapes(c)
}

// c03E2EShapes: rare but valid shapes on the end-to-end path.  Weights the writers must hand on
// exactly: beyond 2^53 (not representable in float64), at the int64 extremes, sums that wrap; a
// heap-like period type that is no sample type; duplicate and empty sample type names; locations
// without any mapping (fake mapping), empty function names, gaps in ids.
func c03E2EShapes(c *Ctx) {
	r := c.R
	h := c03E2EHeaderBase()
	quick := c.Tier != "thorough"
	w := c03BaseWorld()
	w.ls[1].rel = 0x300
	mk := func(g c03Header, idmode int, uses ...c03Use) *profile.Profile {
		return c03Instantiate(r, w, g, uses, idmode, false, true)
	}
	cmd := func(name, arg, file string, judged bool) c03Item {
		return c03Item{kind: "cmd", a: name, b: arg, file: file, judged: judged}
	}
	const p53 = int64(1) << 53
	pairs := [][4]int64{ // column 0 of the shared stack in a and in b; column 1 likewise
		{p53, 1, 7, 0}, {-p53, -1, 0, 7}, {p53 + 1, 0, p53 + 3, 2}, {1<<62 + 1, 1, -(1<<62 + 1), -2},
		{math.MaxInt64, 0, math.MaxInt64 - 2, 1}, {math.MinInt64, 0, math.MinInt64 + 1, 0},
		{math.MaxInt64, 1, 5, 5}, {math.MinInt64, -1, 5, 5}, {p53 - 1, 1, p53, p53}, {1<<61 + 1, 1<<61 + 1, 3, 3},
		{math.MaxInt64, math.MinInt64, 1, 1}, {p53*3 + 1, 2, 1, 0},
	}
	for k, v := range pairs {
		if quick && k%2 == 1 && k > 5 {
			continue
		}
		a := mk(h, 0, c03Use{0, []int64{v[0], v[2]}}, c03Use{1, []int64{1, 1}})
		b := mk(h, k%4, c03Use{0, []int64{v[1], v[3]}}, c03Use{1, []int64{v[2], v[0]}})
		switch k % 4 {
		case 0:
			c03E2E(c, "e2e-extreme", c03Scenario{srcs: []*profile.Profile{a, b}, oneShot: "proto", files: true}, true, "shape:extreme")
		case 1:
			c03E2E(c, "e2e-extreme", c03Scenario{srcs: []*profile.Profile{b, a}, oneShot: "proto"}, true, "shape:extreme")
		case 2:
			c03E2E(c, "e2e-extreme", c03Scenario{srcs: []*profile.Profile{a, b}, items: []c03Item{cmd("proto", "", "m1", true),
				cmd("raw", "", "r1", true), cmd("top", "", "t", false), cmd("proto", "", "m2", true)}}, true, "shape:extreme")
		default:
			c03E2E(c, "e2e-extreme", c03Scenario{srcs: []*profile.Profile{a, b}, web: true,
				items: []c03Item{{kind: "get", a: "/top", b: ""}, {kind: "get", a: "/download", judged: true}}}, true, "shape:extreme")
		}
		// a single source is handed on unmerged: its weights must come out as they went in
		c03E2E(c, "e2e-extreme", c03Scenario{srcs: []*profile.Profile{a}, oneShot: PickS(r, []string{"proto", "raw"})}, false, "shape:extreme-single")
	}
	// value types: heap-like (period type is no sample type), duplicate names, empty names
	heads := []c03Header{
		{st: []profile.ValueType{{Type: "alloc_objects", Unit: "count"}, {Type: "alloc_space", Unit: "bytes"}}, pt: &profile.ValueType{Type: "space", Unit: "bytes"}, period: 524288},
		{st: []profile.ValueType{{Type: "samples", Unit: "count"}, {Type: "samples", Unit: "count"}}, pt: &profile.ValueType{Type: "samples", Unit: "count"}, period: 1},
		{st: []profile.ValueType{{Type: "x", Unit: "count"}, {Type: "y", Unit: "count"}}, pt: &profile.ValueType{Type: "", Unit: ""}, period: 3, defType: "y"},
	}
	for k, g := range heads {
		g.time, g.dur = int64(100+k), 5
		a := mk(g, 2, c03Use{0, []int64{1, 100}}, c03Use{1, []int64{3, 0}})
		b := mk(g, 1, c03Use{0, []int64{-1, 8}}, c03Use{1, []int64{0, 0}})
		c03E2E(c, "e2e-types", c03Scenario{srcs: []*profile.Profile{a, b}, oneShot: "proto"}, true, "shape:types")
		c03E2E(c, "e2e-types", c03Scenario{srcs: []*profile.Profile{a, b, mk(g, 0)}, oneShot: "raw", files: true}, true, "shape:types")
	}
	// no mapping anywhere (every source gets the fake mapping), empty function names (proto only:
	// they do not survive the raw text), sparse ids
	nm := c03BaseWorld()
	nm.ms = nil
	for i := range nm.ls {
		nm.ls[i].m = -1
	}
	nm.ls[1].rel = 0x300
	nm.fs[1].name, nm.fs[1].sys = "", ""
	nm.fs[3].file = ""
	pa := c03Instantiate(r, nm, h, []c03Use{{0, []int64{1, 100}}, {1, []int64{2, 0}}}, 2, false, true)
	pb := c03Instantiate(r, nm, h, []c03Use{{1, []int64{-2, 5}}, {0, []int64{4, 4}}}, 1, false, true)
	c03E2E(c, "e2e-nomap", c03Scenario{srcs: []*profile.Profile{pa, pb}, oneShot: "proto"}, true, "shape:nomap")
	c03E2E(c, "e2e-nomap", c03Scenario{srcs: []*profile.Profile{pa, mk(h, 2, c03Use{0, []int64{1, 1}})}, oneShot: "proto", files: true}, true, "shape:nomap")
	c03E2E(c, "e2e-nomap", c03Scenario{srcs: []*profile.Profile{pb}, items: []c03Item{cmd("proto", "", "m1", true), cmd("proto", "f0", "m2", false),
		cmd("proto", "", "m3", true)}}, false, "shape:nomap")
}

// random scenarios: pool-based inputs, option combinations, one-shot / session / web
func c03E2ERandom(c *Ctx) {
	c03E2ESetup()
	r := c.R
	pool := c03E2EPool(r)
	nst := 1 + r.Intn(2)
	h := c03RandHeader(r, nst)
	for i := range h.st {
		h.st[i].Type = fmt.Sprintf("%s%d", h.st[i].Type, i) // distinct type names: sample_index can name them
		if h.st[i].Unit == "" {
			h.st[i].Unit = "count"
		}
	}
	if h.pt.Unit == "" {
		h.pt.Unit = "count"
	}
	mkp := func(maxUses int) *profile.Profile {
		var uses []c03Use
		for k := r.Intn(maxUses + 1); k > 0; k-- {
			uses = append(uses, c03Use{r.Intn(len(pool.ss)), c03E2EValues(r, nst)})
		}
		return c03Instantiate(r, pool, c03E2EHeader(r, h), uses, r.Intn(4), r.Bool(), r.P(1, 3))
	}
	sc := c03Scenario{files: r.P(1, 3)}
	for i := 1 + r.Intn(4); i > 0; i-- {
		if r.P(1, 12) {
			sc.srcs = append(sc.srcs, nil)
		} else {
			sc.srcs = append(sc.srcs, mkp(4))
		}
	}
	if r.P(1, 4) {
		for i := 1 + r.Intn(2); i > 0; i-- {
			sc.bases = append(sc.bases, mkp(3))
		}
		sc.diffBase = r.Bool()
	}
	sc.flags = append(c03E2ENoise(r, c03STypeNames(h)), c03E2EEffect(r)...)
	file := 0
	nextFile := func() string { file++; return fmt.Sprint("o", file) }
	switch r.Intn(4) {
	case 0, 1:
		sc.oneShot = PickS(r, []string{"proto", "proto", "raw"})
	case 2:
		for k := 2 + r.Intn(4); k > 0; k-- {
			switch r.Intn(6) {
			case 0:
				sc.items = append(sc.items, c03E2ENoise(r, c03STypeNames(h))...)
			case 1:
				flt := PickS(r, []string{"focus", "ignore", "hide", "show", "tagfocus", "tagroot", "tagleaf", "prune_from", "show_from"})
				val := PickS(r, []string{"main", "foo", "k", "f", "op\\+", "bytes"})
				sc.items = append(sc.items, c03Item{kind: "set", a: flt, b: val},
					c03Item{kind: "cmd", a: PickS(r, []string{"proto", "raw"}), file: nextFile()}, c03Item{kind: "set", a: flt, b: ""})
			case 2:
				sc.items = append(sc.items, c03Item{kind: "cmd", a: PickS(r, []string{"proto", "raw", "top", "traces"}),
					b: PickS(r, []string{"main", "foo", "-bar", "f"}), file: nextFile()})
			case 3:
				sc.items = append(sc.items, c03E2EEffect(r)...)
			default:
				sc.items = append(sc.items, c03Item{kind: "cmd", a: PickS(r, []string{"proto", "raw"}), file: nextFile(), judged: true})
			}
		}
		sc.items = append(sc.items, c03Item{kind: "cmd", a: "proto", file: nextFile(), judged: true})
		for i := range sc.items { // add_comment is a command-line flag only
			if sc.items[i].a == "add_comment" {
				sc.items[i] = c03Item{kind: "set", a: "sort", b: "flat"}
			}
		}
	default:
		sc.web = true
		for k := 1 + r.Intn(3); k > 0; k-- {
			sc.items = append(sc.items, c03Item{kind: "get", a: PickS(r, []string{"/top", "/", "/flamegraph", "/peek"}),
				b: PickS(r, []string{"", "f=main", "i=foo", "h=f", "si=" + h.st[0].Type, "f=%2B", "tf=k%3Dv", "s=op%2B"})})
		}
		sc.items = append(sc.items, c03Item{kind: "get", a: "/download", judged: true})
	}
	c03E2E(c, "e2e-random", sc, len(sc.srcs) >= 2)
}
