//go:build verif

package main

import (
	"fmt"
	"math"
	"strings"

	"github.com/google/pprof/internal/graph"
	"github.com/google/pprof/internal/report"
	"github.com/google/pprof/profile"
)

// Round 6: formatted VALUES whose text depends on the value -- measurement.ScaledLabel prints a
// value that displays as zero as the bare "0" without the unit, auto-scaling switches units --
// combined with hostile units and with totals that display as 0, are negative or extreme (-mean,
// comparisons).  Earlier streams used FormatValue = "%d<unit>" (the unit on every value, the total
// included) or real reports whose total always showed the unit, so "decide once from one value" was
// indistinguishable from "escape every value".  All cases here are deterministic.

var c18HostileUnits = []string{"ti\"cks", "a\\", "\\\"", "\"", "u\\\"v\\", "x\ny\"", "<b>\"", "ms"}

// c18UnitGraph: main -> slow, a tag and a numeric tag on slow; values v1 (main flat 0), v2.
func c18UnitGraph(v int64) *graph.Graph {
	mk := func(name string) *graph.Node {
		n := &graph.Node{In: graph.EdgeMap{}, Out: graph.EdgeMap{}, LabelTags: graph.TagMap{}, NumericTags: map[string]graph.TagMap{}}
		n.Function = n
		n.Info = graph.NodeInfo{Name: name, File: name + ".go", Lineno: 3}
		return n
	}
	a, b := mk("main"), mk("slow")
	a.Cum, b.Flat, b.Cum = v, v, v
	e := &graph.Edge{Src: a, Dest: b, Weight: v}
	a.Out[b] = e
	b.In[a] = e
	b.LabelTags["k:v"] = &graph.Tag{Name: "k:v", Flat: v, Cum: v}
	b.NumericTags["k:v"] = graph.TagMap{"8B": &graph.Tag{Name: "8B", Unit: "bytes", Value: 8, Flat: v, Cum: v}}
	b.NumericTags[""] = graph.TagMap{"16B": &graph.Tag{Name: "16B", Unit: "bytes", Value: 16, Flat: v, Cum: v}}
	return &graph.Graph{Nodes: graph.Nodes{a, b}}
}

// c18MeanProfile: [count, delay/<unit>]; many cheap events and a rare expensive one: with -mean the
// overall mean is 0 (integer division) while the node "slow" has a non-zero mean.
func c18MeanProfile(unit string, sign int64, scale int64) *profile.Profile {
	typ := "delay"
	if len(unit)%2 == 0 && !strings.Contains(unit, "\n") {
		typ = "de\"lay\\<" // odd characters in the sample TYPE as well (legend line "Type: ...", callgrind events line)
	}
	m := &profile.Mapping{ID: 1, Start: 0x1000, Limit: 0x9000, File: "/bin/prog"}
	mk := func(id uint64, name string) (*profile.Function, *profile.Location) {
		f := &profile.Function{ID: id, Name: name, SystemName: name, Filename: name + ".go"}
		return f, &profile.Location{ID: id, Mapping: m, Address: 0x1000 + id*0x10, Line: []profile.Line{{Function: f, Line: 3}}}
	}
	f1, l1 := mk(1, "main")
	f2, l2 := mk(2, "fast")
	f3, l3 := mk(3, "slow")
	return &profile.Profile{
		SampleType: []*profile.ValueType{{Type: "events", Unit: "count"}, {Type: typ, Unit: unit}},
		Sample: []*profile.Sample{
			{Location: []*profile.Location{l2, l1}, Value: []int64{100 * scale, sign * 1}, Label: map[string][]string{"k": {"v"}}},
			{Location: []*profile.Location{l3, l1}, Value: []int64{1, sign * 9}, NumLabel: map[string][]int64{"bytes": {8}}, NumUnit: map[string][]string{"bytes": {"bytes"}}},
		},
		Mapping: []*profile.Mapping{m}, Location: []*profile.Location{l1, l2, l3}, Function: []*profile.Function{f1, f2, f3},
		PeriodType: &profile.ValueType{Type: "delay", Unit: unit}, Period: 1,
	}
}

func c18UnitCases(c *Ctx, dotCase func(gen string, g *graph.Graph, a *graph.DotAttributes, cfg *graph.DotConfig, tags ...string)) {
	// ---- ComposeDot directly: value-dependent FormatValue x totals x units
	type fvk struct {
		name string
		f    func(unit string) func(int64) string
	}
	fvs := []fvk{
		{"zero-bare", func(u string) func(int64) string { // measurement.ScaledLabel: a zero has no unit
			return func(v int64) string {
				if v == 0 {
					return "0"
				}
				return fmt.Sprintf("%d%s", v, u)
			}
		}},
		{"auto-unit", func(u string) func(int64) string { // auto-scaling: large values switch to another unit
			return func(v int64) string {
				if v > -1000 && v < 1000 {
					return fmt.Sprintf("%dB", v)
				}
				return fmt.Sprintf("%.2fk%s", float64(v)/1000, u)
			}
		}},
		{"neg-bare", func(u string) func(int64) string { // only positive values carry the unit
			return func(v int64) string {
				if v <= 0 {
					return fmt.Sprint(v)
				}
				return fmt.Sprintf("%d %s", v, u)
			}
		}},
	}
	for _, fv := range fvs {
		for _, u := range c18HostileUnits {
			for _, total := range []int64{0, 9, -9, math.MinInt64} {
				for _, v := range []int64{9, 5000} {
					if v == 5000 && fv.name != "auto-unit" {
						continue
					}
					g := c18UnitGraph(v)
					cfg := &graph.DotConfig{Title: "t", Labels: []string{"Type: delay"}, Total: total, FormatValue: fv.f(u)}
					dotCase("dot-unit-synth", g, &graph.DotAttributes{}, cfg, "unit", "fv:"+fv.name)
				}
			}
		}
	}

	// ---- the report pipeline and the command line: -mean with an overall mean of 0, negative totals, sample_index
	for _, u := range c18HostileUnits {
		for _, sign := range []int64{1, -1} {
			for _, scale := range []int64{1, 0} { // scale 0: the cheap events have count 0 (mean divisor 1)
				p := c18MeanProfile(u, sign, scale)
				for _, mean := range []bool{true, false} {
					for _, ct := range []bool{false, true} {
						if ct && (sign < 0 || scale == 0) {
							continue
						}
						ro := c18ROpts{gran: "functions", callTree: ct, mean: mean}
						g, cfg := report.GetDOT(c18Report(p.Copy(), report.Dot, ro))
						dotCase("dot-unit-report", g, &graph.DotAttributes{}, cfg, "unit", fmt.Sprintf("mean:%v", mean))
					}
					args := []string{"-dot", "-symbolize=none", "-output=o"}
					if mean {
						args = append(args, "-mean")
					}
					args = append(args, "src")
					outs, st := c18Run(args, nil, map[string]*profile.Profile{"src": p}, nil)
					text := ""
					if len(outs) > 0 {
						text = outs[len(outs)-1].String()
					}
					c18E2EOut(c, "e2e-cli-unit", "e2edot", args, nil, 0, text, st, true, "unit")
					if !strings.Contains(u, "\n") && sign > 0 { // callgrind: the unit sits on the events line; most costs are 0 with -mean
						args[0] = "-callgrind"
						outs, st := c18Run(args, nil, map[string]*profile.Profile{"src": p}, nil)
						text := ""
						if len(outs) > 0 {
							text = outs[len(outs)-1].String()
						}
						c18E2EOut(c, "e2e-cli-unit", "e2ecg", args, nil, 0, text, st, true, "unit")
					}
				}
			}
		}
		// the unit on the OTHER column, a comparison whose total cancels, a session that switches -mean on and off
		p := c18MeanProfile(u, 1, 1)
		for _, extra := range [][]string{{"-sample_index=0"}, {"-mean", "-sample_index=1"}, {"-diff_base=base"}, {"-diff_base=base", "-mean"}, {"-mean", "-unit=" + u}, {"-mean", "-call_tree", "-nodecount=1"}} {
			args := append(append([]string{"-dot", "-symbolize=none", "-output=o"}, extra...), "src")
			outs, st := c18Run(args, nil, map[string]*profile.Profile{"src": p, "base": c18MeanProfile(u, 1, 1)}, nil)
			text := ""
			if len(outs) > 0 {
				text = outs[len(outs)-1].String()
			}
			c18E2EOut(c, "e2e-cli-unit", "e2edot", args, nil, 0, text, st, false, "unit")
		}
	}
	{
		p := c18MeanProfile("ti\"cks\\", 1, 1)
		lines := []string{"dot >a", "mean", "dot >b", "mean=false", "sample_index=0", "dot >c", "sample_index=1", "mean", "call_tree", "dot >d"}
		args := []string{"-symbolize=none", "src"}
		outs, st := c18Run(args, lines, map[string]*profile.Profile{"src": p}, nil)
		k := 0
		for li, ln := range lines {
			if ln[:3] != "dot" {
				continue
			}
			text := ""
			if k < len(outs) {
				text = outs[k].String()
			}
			k++
			c18E2EOut(c, "e2e-session-unit", "e2edot", args, lines[:li+1], li, text, st, true, "unit", "session")
		}
	}
}
