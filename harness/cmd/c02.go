//go:build verif

package main

import (
	"bytes"
	"compress/gzip"
	"fmt"
	"io"
	"os"
	"strings"
	"path/filepath"
	"time"

	"github.com/google/pprof/internal/driver"
	"github.com/google/pprof/internal/plugin"
	"github.com/google/pprof/internal/report"
	"github.com/google/pprof/profile"
)

func init() { registry["C02"] = runC02 }

// opsAfterParse: "a profile returned by the parser can always be written, copied, compacted and
// turned into any text report without a crash".
func c02OpsAfterParse(p *profile.Profile) (res string) {
	defer func() {
		if r := recover(); r != nil {
			res = "panic: " + fmt.Sprint(r)
		}
	}()
	var buf bytes.Buffer
	if err := p.Write(&buf); err != nil {
		return "write-err"
	}
	cp := p.Copy()
	_ = cp.String()
	cc := p.Compact()
	if err := cc.CheckValid(); err != nil {
		return "compact-invalid: " + err.Error()
	}
	m, err := profile.Merge([]*profile.Profile{p.Copy(), p.Copy()})
	if err != nil || m.CheckValid() != nil {
		return "merge-failed"
	}
	for _, f := range []int{report.Text, report.Tree, report.Traces, report.Raw, report.Tags, report.Dot, report.Callgrind, report.TopProto, report.Proto} {
		q := p.Copy()
		opt := &report.Options{OutputFormat: f, SampleValue: func(v []int64) int64 {
			if len(v) == 0 {
				return 0
			}
			return v[0]
		}, SampleUnit: "count", NodeCount: 10, NodeFraction: 0.005, EdgeFraction: 0.001}
		rpt := report.New(q, opt)
		var out bytes.Buffer
		if err := report.Generate(&out, rpt, nil); err != nil {
			// an error is allowed, a crash is not
			continue
		}
		// the same report as a mean (-mean / -mean_delay): values divided by the first column, which
		// may be 0 in any sample
		q = p.Copy()
		opt = &report.Options{OutputFormat: f, SampleValue: func(v []int64) int64 {
			if len(v) == 0 {
				return 0
			}
			return v[len(v)-1]
		}, SampleMeanDivisor: func(v []int64) int64 {
			if len(v) == 0 {
				return 0
			}
			return v[0]
		}, SampleUnit: "count", NodeCount: 10, NodeFraction: 0.005, EdgeFraction: 0.001}
		out.Reset()
		_ = report.Generate(&out, report.New(q, opt), nil)
	}
	return "ok"
}

// c02DriverTop: "pprof <file> never panics": the bytes go through the real fetch of pprof's driver
// (file source, no symbolization) and a text report is written.
func c02DriverTop(data []byte, extra ...string) (res string) {
	defer func() {
		if r := recover(); r != nil {
			res = "panic: " + fmt.Sprint(r)
		}
	}()
	if err := os.WriteFile("c02in.prof", data, 0o644); err != nil {
		return "harness-err"
	}
	defer os.Remove("c02in.prof")
	defer os.Remove("c02out.txt")
	args := append([]string{"-symbolize=none", "-output=c02out.txt"}, extra...)
	o := &plugin.Options{Flagset: newC09Flags(append(args, "c02in.prof")), Sym: c09Sym{}, Obj: &c09Obj{}, UI: &c09UI{}}
	if err := driver.PProf(o); err != nil {
		return "ok" // an error is allowed, a crash is not
	}
	return "ok"
}

func runC02(c *Ctx) {
	r := c.R
	var slow, total int
	parseCase := func(gen string, data []byte, tags ...string) {
		total++
		os.WriteFile("inflight.txt", []byte(Render(L(S("parsedata"), S(string(data))))), 0o644)
		// "parsing terminates promptly": an input on which the implementation does not come back ends the
		// harness, and the check reports the in-flight input
		wd := time.AfterFunc(40*time.Second, func() {
			fmt.Fprintln(os.Stderr, "watchdog: the implementation did not return within 40 s on the in-flight input")
			os.Exit(3)
		})
		defer wd.Stop()
		// oracles shipped to the model: the gzip reader's answer and the legacy chain's answer
		gz := L(S("none"))
		inner := data
		if len(data) >= 2 && data[0] == 0x1f && data[1] == 0x8b {
			zr, err := gzip.NewReader(bytes.NewReader(data))
			var d []byte
			if err == nil {
				d, err = io.ReadAll(zr)
			}
			if err != nil {
				gz = L(S("err"))
				inner = nil
			} else {
				gz = L(S("ok"), S(string(d)))
				inner = d
			}
		}
		leg := L(S("unused"))
		if inner != nil || gz.(tL).l[0].(tS).s == "none" {
			func() {
				defer func() {
					if rec := recover(); rec != nil {
						leg = L(S("panic"), S(fmt.Sprint(rec)))
					}
				}()
				lp, err := profile.VerifParseLegacy(inner)
				if err != nil {
					leg = L(S("err"))
				} else {
					leg = L(S("ok"), DumpProfile(lp))
				}
			}()
		}
		var obs Term
		t0 := time.Now()
		func() {
			defer func() {
				if rec := recover(); rec != nil {
					obs = L(S("panic"), S(fmt.Sprint(rec)))
				}
			}()
			p, err := profile.ParseData(data)
			if err != nil {
				obs = L(S("err"))
				return
			}
			ops := c02OpsAfterParse(p)
			if ops == "ok" {
				ops = c02DriverTop(data, [][]string{{"-top"}, {"-traces", "-mean"}, {"-tree"}, {"-top", "-mean"}}[total%4]...)
			}
			obs = L(S("ok"), DumpProfile(p), S(ops))
		}()
		if time.Since(t0) > 2*time.Second {
			slow++
			obs = L(S("slow"), obs)
		}
		c.Case(gen, L(S("parsedata"), S(string(data)), gz, leg), obs, len(data) > 8, tags...)
	}
	gzipOf := func(b []byte) []byte {
		var buf bytes.Buffer
		zw := gzip.NewWriter(&buf)
		zw.Write(b)
		zw.Close()
		return buf.Bytes()
	}
	// 1. valid encodings and structure-aware mutations (incl. references to undefined ids)
	var pool [][]byte
	n := c.Budget(250, 15000)
	for i := 0; i < n; i++ {
		p := GenProfile(r, c01Knobs(r))
		b, pan := c01Serialize(p)
		if pan {
			continue
		}
		pool = append(pool, b)
		parseCase("valid", b, "stream:valid")
		if i%5 == 0 {
			parseCase("gzip", gzipOf(b), "stream:gzip")
		}
		for k := 0; k < 3; k++ {
			m := c01Mutate(r, b)
			parseCase("mutated", m, "stream:mutated")
		}
	}
	// 2. every single-byte truncation of a few small encodings (exhaustive)
	for i := 0; i < c.Budget(2, 20) && i < len(pool); i++ {
		b := pool[i]
		if len(b) > 400 {
			continue
		}
		for k := 0; k <= len(b); k++ {
			parseCase("truncation", b[:k], "stream:truncation")
		}
	}
	// 3. wire-format soups, concatenations, gzip wrappers (valid, truncated, corrupted)
	for i := 0; i < c.Budget(400, 30000); i++ {
		parseCase("soup", c01FieldSoup(r), "stream:soup")
	}
	for i := 0; i < c.Budget(60, 3000) && len(pool) > 1; i++ {
		a, b := pool[r.Intn(len(pool))], pool[r.Intn(len(pool))]
		parseCase("concat", append(append([]byte{}, a...), b...), "stream:concat")
		g := gzipOf(a)
		switch r.Intn(3) {
		case 0:
			g = g[:r.Intn(len(g))]
		case 1:
			g[len(g)-1-r.Intn(8)] ^= 0x55
		case 2:
			g = c01Mutate(r, g)
		}
		parseCase("gzip-broken", g, "stream:gzip-broken")
	}
	// 4. legacy formats: the repository's own test data and mutations of it
	for _, dir := range []string{"/repo/profile/testdata", "/repo/fuzz/testdata"} {
		if v := os.Getenv("VERIF_REPO"); v != "" {
			dir = v + dir[len("/repo"):]
		}
		files, _ := filepath.Glob(filepath.Join(dir, "*"))
		for _, f := range files {
			b, err := os.ReadFile(f)
			if err != nil || len(b) > 6000 {
				continue
			}
			parseCase("testdata", b, "stream:legacy")
			for k := 0; k < c.Budget(2, 60); k++ {
				parseCase("testdata-mutated", c01Mutate(r, b), "stream:legacy-mutated")
			}
		}
	}
	// 5. legacy documents with hostile memory-map sections (odd file names, deleted binaries, pseudo
	// mappings, brief and /proc/maps forms) behind every legacy header
	heads := []string{
		"heap profile: 1: 2 [ 3: 4] @ heap_v2/524288\n1: 2 [ 3: 4] @ 0x400100 0x400200\n",
		"heap profile: 1: 2 [ 3: 4] @ heapprofile\n1: 2 [ 3: 4] @ 0x400100\n",
		"goroutine profile: total 1\n1 @ 0x400100 0x400200\n",
		"--- threadz 1 ---\n\n--- Thread 7f0 (name: a/1) stack: ---\n  0x400100 0x400200\n",
		"--- contentionz 1 ---\ncycles/second = 1000\n10 2 @ 0x400100 0x400200\n",
	}
	names := []string{"(deleted)", "/bin/app (deleted)", " (deleted)", "[vdso]", "[heap]", "", "/lib/x.so", "/lib/x.so.1 (deleted)", "a b", "[", "/bin/app",
		"/anon_hugepage", "/anon_hugepage (deleted)", "/anon_hugepage2", "[anon_hugepage]"}
	for i := 0; i < c.Budget(150, 5000); i++ {
		doc := heads[r.Intn(len(heads))]
		if r.Bool() {
			doc += "\nMAPPED_LIBRARIES:\n"
		} else {
			doc += "--- Memory map: ---\n"
		}
		for k := r.Intn(4); k >= 0; k-- {
			name := names[r.Intn(len(names))]
			start := 0x400000 + 0x100000*uint64(r.Intn(3))
			if r.Bool() {
				doc += fmt.Sprintf("%08x-%08x r-xp %08x fd:01 1234 %s\n", start, start+0x100000, 0x1000*r.Intn(2), name)
			} else {
				doc += fmt.Sprintf("%08x-%08x: %s\n", start, start+0x100000, name)
			}
		}
		parseCase("legacy-maps", []byte(doc), "stream:legacy-maps")
	}
	// 5b. always: every legacy header followed by a memory map whose (executable) line is inverted,
	// empty, huge or overlapping -- ranges the protobuf decoder never sees because these parsers build
	// mappings themselves; the result must still be writable and copyable
	for _, h := range heads {
		for _, rng := range [][2]uint64{{0x500000, 0x400000}, {0x400000, 0x400000}, {0, ^uint64(0)}, {^uint64(0) - 0xfff, 0}, {0x400000, 0x400001}} {
			for form := 0; form < 2; form++ {
				doc := h
				if form == 0 {
					doc += "\nMAPPED_LIBRARIES:\n" + fmt.Sprintf("%08x-%08x r-xp 00000000 fd:01 1234 /bin/demo\n", rng[0], rng[1])
				} else {
					doc += "--- Memory map: ---\n" + fmt.Sprintf("%08x-%08x: /bin/demo\n", rng[0], rng[1])
				}
				parseCase("legacy-maps-odd", []byte(doc), "stream:legacy-maps-odd")
			}
		}
	}
	// 6. labels the decoder drops (a key with neither a string, a number nor a unit: what the encoder
	// writes for a numeric label 0 without unit), on samples that keep no other label, with the key as
	// the last entry of the string table: whatever the decoder leaves behind on such a sample must not
	// break the next Write/Copy/Compact of the parsed profile
	for i := 0; i < c.Budget(60, 2000); i++ {
		p := &profile.Profile{SampleType: []*profile.ValueType{{Type: "samples", Unit: "count"}}}
		if r.Bool() {
			p.SampleType = append(p.SampleType, &profile.ValueType{Type: "cpu", Unit: "ns"})
		}
		for k := r.Intn(3); k >= 0; k-- {
			sm := &profile.Sample{Value: make([]int64, len(p.SampleType))}
			for j := range sm.Value {
				sm.Value[j] = int64(r.Intn(5))
			}
			sm.NumLabel = map[string][]int64{}
			for j := r.Intn(3); j >= 0; j-- {
				vals := []int64{0}
				if r.P(1, 4) {
					vals = append(vals, int64(r.Intn(2)))
				}
				sm.NumLabel[fmt.Sprintf("zkey%d_%d", k, j)] = vals
			}
			if r.P(1, 4) {
				sm.Label = map[string][]string{"s": {"v"}}
			}
			p.Sample = append(p.Sample, sm)
		}
		if b, pan := c01Serialize(p); !pan {
			parseCase("dropped-labels", b, "stream:dropped-labels")
		}
	}
	// 6b. odd function names under non-empty drop_frames / keep_frames (the name simplifier and the
	// pruning regexps run on every fetched profile that has them; every legacy profile gets built-in ones):
	// names cut in the middle of an operator, a template or an argument list, unbalanced brackets, empty
	oddNames := []string{"operator(", "Foo::operator(", "operator()", "operator()(", "Foo::operator()(int", "a(", "(", ")", "((", ")(", "<", "a<", "a<b", ">",
		"operator<", "operator<<(", "operator<(", "operator->", "f[abi:cxx11](", "[", "]", "(anonymous namespace)::f(", "f(int) [clone .cold", "f (", " ",
		"", "$", "\\", ".", "a.(*T).m", "a.func1.2(", "malloc", "free(", "x::malloc", "operator new", "operator new(", "operator new[](", "%s", "a\x00b", "\xff(", "f<operator(>", "operator"}
	for i, nm := range oddNames {
		p := &profile.Profile{SampleType: []*profile.ValueType{{Type: "samples", Unit: "count"}},
			DropFrames: []string{"malloc|free", "operator new|malloc", ".*", "malloc"}[i%4], KeepFrames: []string{"", "", "keepme", ""}[i%4]}
		fm := &profile.Function{ID: 1, Name: "main", SystemName: "main"}
		fo := &profile.Function{ID: 2, Name: nm, SystemName: nm}
		fd := &profile.Function{ID: 3, Name: "malloc", SystemName: "malloc"}
		p.Function = []*profile.Function{fm, fo, fd}
		for j, f := range p.Function {
			p.Location = append(p.Location, &profile.Location{ID: uint64(j + 1), Address: uint64(0x1000 + 16*j), Line: []profile.Line{{Function: f, Line: int64(j + 1)}}})
		}
		if i%3 == 0 { // the odd name inlined into main's location
			p.Location[0].Line = append([]profile.Line{{Function: fo, Line: 9}}, p.Location[0].Line...)
		}
		p.Sample = []*profile.Sample{
			{Location: []*profile.Location{p.Location[2], p.Location[1], p.Location[0]}, Value: []int64{3}},
			{Location: []*profile.Location{p.Location[1], p.Location[2], p.Location[0]}, Value: []int64{5}},
			{Location: []*profile.Location{p.Location[1]}, Value: []int64{7}}}
		if b, pan := c01Serialize(p); !pan {
			parseCase("odd-names", b, "stream:odd-names")
		}
		if i%2 == 0 && !strings.ContainsAny(nm, "\n\x00") {
			jdoc := "--- heapz 1 ---\nformat = java\nresolution = bytes\n          4752     9 @ 0x0000002b 0x0000002c 0x0000002d\n           100     1 @ 0x0000002c\n\n" +
				" 0x0000002b java.lang.Object.<init> (Object.java:37)\n 0x0000002c " + nm + "\n 0x0000002d com.example.Main.main (Main.java:12)\n"
			parseCase("odd-names", []byte(jdoc), "stream:odd-names-java")
		}
	}
	// 7. legacy text documents whose numbers are extreme (counts, totals, rates, periods, thread ids,
	// addresses around 2^31..2^64): the header and record numbers are untrusted text
	tmpl := []string{
		"heap profile: #: # [ #: #] @ heap_v2/#\n#: # [ #: #] @ 0x400100 0x400200\n",
		"heap profile: #: # [ #: #] @ heapprofile\n#: # [ #: #] @ 0x400100\n",
		"heap profile: #: # [ #: #] @ growthz\n#: # [ #: #] @ 0x400100\n",
		"heap profile: #: # [ #: #] @ heap/#\n#: # [ #: #] @ ~ 0x400200\n",
		"goroutine profile: total #\n# @ 0x400100 0x400200\n# @ ~\n",
		"threadcreate profile: total #\n# @ 0x400100\n",
		"--- threadz # ---\n\n--- Thread 7f0 (name: a/#) stack: ---\n  0x400100 0x400200\n",
		"--- contentionz # ---\ncycles/second = #\nsampling period = #\nms since reset = #\n# # @ 0x400100 0x400200\n",
		"--- heapz # ---\n#: # [ #: #] @ 0x400100\n",
	}
	extreme := []string{"0", "2147483648", "4294967296", "35184372088832", "1152921504606846976", "4611686018427387904",
		"9223372036854775807", "9223372036854775808", "18446744073709551615", "18446744073709551616", "-1", "99999999999999999999"}
	for i := 0; i < c.Budget(200, 6000); i++ {
		t := tmpl[r.Intn(len(tmpl))]
		doc := ""
		for _, ch := range t {
			switch {
			case ch != '#':
				doc += string(ch)
			case r.P(1, 3):
				doc += extreme[r.Intn(len(extreme))]
			default:
				doc += fmt.Sprint(1 + r.Intn(100))
			}
		}
		if r.Bool() {
			doc += "\nMAPPED_LIBRARIES:\n00400000-00500000 r-xp 00000000 fd:01 1234 /bin/app\n"
		}
		parseCase("legacy-extreme", []byte(doc), "stream:legacy-extreme")
	}
	// 7b. record STRUCTURE of the legacy text formats: every sequence of up to three threadz blocks drawn from
	// {own stack, "same as previous thread", empty stack} (a first block without a stack of its own has no
	// previous sample to refer to), and degenerate records of the other formats (no addresses, zero counts,
	// header only, a record before any header line, a memory map only)
	blocks := []string{"  0x40b688 0x4d5f51 0x40be31\n", "  -- same as previous thread --\n", ""}
	var seqs [][]int
	for a := 0; a < 3; a++ {
		seqs = append(seqs, []int{a})
		for b := 0; b < 3; b++ {
			seqs = append(seqs, []int{a, b})
			for d := 0; d < 3; d++ {
				seqs = append(seqs, []int{a, b, d})
			}
		}
	}
	for i, sq := range seqs {
		doc := "--- threadz 1 ---\n\n"
		for j, b := range sq {
			doc += fmt.Sprintf("--- Thread 7f7a1c3f%x700 (name: t%d/%d) stack: ---\n", j, j, 14748+j) + blocks[b]
		}
		if i%2 == 0 {
			doc += "--- Memory map: ---\n00400000-00fcb000: cppbench_server_main\n"
		}
		parseCase("legacy-structure", []byte(doc), "stream:legacy-structure")
	}
	for _, doc := range []string{
		"--- threadz 1 ---\n", "--- threadz 1 ---\n\n--- Memory map: ---\n00400000-00fcb000: app\n",
		"heap profile: 1: 2 [ 3: 4] @ heap_v2/524288\n", "heap profile: 1: 2 [ 3: 4] @ heap_v2/524288\n1: 2 [ 3: 4] @\n",
		"heap profile: 0: 0 [ 0: 0] @ heap_v2/524288\n0: 0 [ 0: 0] @ 0x400100\n", "heap profile: 1: 2 [ 3: 4] @ heap_v2/0\n1: 2 [ 3: 4] @ 0x400100\n",
		"heap profile: 1: 2 [ 3: 4] @ heapprofile\n 1: 2 [ 3: 4] @\n\nMAPPED_LIBRARIES:\n", "heap profile: 3: 100 [ 3: 100] @ heap_v2/524288\n3: 100 [ 3: 100] @ 0x400100 0x400200\n1: 0 [ 1: 0] @ 0x400100\n0: 7 [ 0: 7] @ 0x400200\n",
		"goroutine profile: total 0\n", "goroutine profile: total 3\n3 @\n", "goroutine profile: total 1\n0 @ 0x400100\n", "threadcreate profile: total 2\n2 @\n\n1 @ 0x1\n",
		"--- contentionz 1 ---\n", "--- contentionz 1 ---\ncycles/second = 0\n1 2 @ 0x400100\n", "--- contentionz 1 ---\nsampling period = 0\n0 0 @\n", "--- contentionz 1 ---\ncycles/second = 1000\n5 1 @\n5 1 @ 0x400100\n",
		"--- heapz 1 ---\n", "--- heapz 1 ---\nformat = java\nresolution = bytes\n", "--- heapz 1 ---\nformat = java\nresolution = bytes\n 10 0 @ 0x2b\n\n 0x2b f (F.java:1)\n", "--- heapz 1 ---\nformat = java\nresolution = bytes\n 1000 7 @\n",
		"--- contentionz 1 ---\nformat = java\nresolution = microseconds\nsampling period = 100\nms since reset = 6\n 1 0 @ 0x2b\n 0 1 @\n\n 0x2b f (F.java:1)\n",
		"--- heapz 1 ---\n\nformat = java\nresolution = bytes\n 10 1 @ 0x2b\n\n 0x2b f (F.java:1)\n", "--- heapz 1 ---\nformat = java\n\nresolution = bytes\n 10 1 @ 0x2b\n\n 0x2b f (F.java:1)\n",
		"--- heapz 1 ---\nformat = java\n   \t\nresolution = bytes\n 10 1 @ 0x2b\n", "--- contentionz 1 ---\nformat = java\n\nresolution = microseconds\nsampling period = 100\n 1 1 @ 0x2b\n\n 0x2b f (F.java:1)\n",
		"--- heapz 1 ---\nformat = java\nresolution = bytes\nnonsense\n= x\nkey =\n 10 1 @ 0x2b\n", "--- contentionz 1 ---\n\ncycles/second = 1000\n\n1 2 @ 0x400100\n", "--- threadz 1 ---\n\n\n--- Thread 7f (name: a/1) stack: ---\n\n  0x1 0x2\n\n",
		"heap profile: 1: 2 [ 3: 4] @ heap_v2/524288\n\n1: 2 [ 3: 4] @ 0x400100\n\n\nMAPPED_LIBRARIES:\n\n00400000-00500000 r-xp 00000000 fd:01 1234 /bin/app\n\n",
		"--- growthz 1 ---\n", "heap profile: 1: 2 [ 3: 4] @ growthz\n1: 2 [ 3: 4] @\n", "heap profile: 7: 7 [ 7: 7] @ fragmentationz\n7: 7 [ 7: 7] @ 0x1\n",
	} {
		parseCase("legacy-structure", []byte(doc), "stream:legacy-structure")
	}
	// 8. legacy binary CPU profiles (profilez: header 0,3,0|1,period,0; records count,depth,pcs...;
	// trailer 0,1,0) in 32/64-bit words of either byte order, with extreme count / depth / period words
	// (k*2^62, 2^63, 2^64-1, 2^32-1 ...) and truncated tails, optionally followed by a memory map
	xw := []uint64{0, 1, 2, 3, 1 << 31, 1<<32 - 1, 1 << 32, 1 << 62, 1<<62 + 1, 1 << 63, 1<<63 + 2, 3 << 62, 3<<62 + 1, ^uint64(0), ^uint64(0) - 1, 1<<63 - 1}
	for i := 0; i < c.Budget(200, 6000); i++ {
		wide, big := r.P(2, 3), r.P(1, 4)
		var buf []byte
		put := func(v uint64) {
			n := 4
			if wide {
				n = 8
			}
			for k := 0; k < n; k++ {
				sh := uint(8 * k)
				if big {
					sh = uint(8 * (n - 1 - k))
				}
				buf = append(buf, byte(v>>sh))
			}
		}
		word := func(normal uint64) uint64 {
			if r.P(1, 6) {
				return xw[r.Intn(len(xw))]
			}
			return normal
		}
		put(0)
		put(3)
		put(uint64(r.Intn(2))) // C++ or Java flavour
		put(word(uint64(1 + r.Intn(10000))))
		put(0)
		for k := r.Intn(5); k > 0; k-- {
			depth := uint64(1 + r.Intn(4))
			put(word(uint64(1 + r.Intn(9))))
			put(word(depth))
			for d := uint64(0); d < depth; d++ {
				put(word(0x400100 + uint64(r.Intn(64))*16))
			}
		}
		if r.P(4, 5) {
			put(0)
			put(1)
			put(0)
		}
		if r.P(1, 8) && len(buf) > 0 {
			buf = buf[:r.Intn(len(buf))]
		}
		if r.P(1, 3) {
			buf = append(buf, []byte("00400000-00500000 r-xp 00000000 fd:01 1234 "+names[r.Intn(len(names))]+"\n")...)
		}
		parseCase("legacy-cpu-binary", buf, "stream:legacy-cpu-binary")
	}
	os.Remove("inflight.txt")
	c.Extra["slow_parses"] = slow
	c.Extra["inputs"] = total
}
