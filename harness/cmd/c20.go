//go:build verif

package main

// C20: concurrent stress cases. Every case overlaps operations the tool itself performs or permits
// on shared state and records what the implementation returned; the Coq side (R_C20.v) predicts the
// observable from the model (sequential semantics / k smallest free names / set of linearizable
// outcomes) and evaluates the property's checker on it. The same generator is run a second time by
// lib/c20hooks.py in a binary built with -race: there the race detector is the oracle.

import (
	"bytes"
	"compress/gzip"
	"fmt"
	"io"
	"os"
	"path/filepath"
	"runtime"
	"sort"
	"strconv"
	"strings"
	"sync"
	"sync/atomic"
	"time"

	"github.com/google/pprof/internal/binutils"
	"github.com/google/pprof/internal/driver"
	"github.com/google/pprof/internal/plugin"
	"github.com/google/pprof/profile"
)

func init() { registry["C20"] = runC20 }

// c20RunPar starts n goroutines behind one start gate and waits for all of them.
func c20RunPar(n int, fn func(i int)) {
	var wg sync.WaitGroup
	gate := make(chan struct{})
	wg.Add(n)
	for i := 0; i < n; i++ {
		go func(i int) {
			defer wg.Done()
			<-gate
			fn(i)
		}(i)
	}
	close(gate)
	wg.Wait()
}

type c20UI struct{ mu sync.Mutex }

func (u *c20UI) ReadLine(string) (string, error)       { return "", io.EOF }
func (u *c20UI) Print(...interface{})                  {}
func (u *c20UI) PrintErr(...interface{})               {}
func (u *c20UI) IsTerminal() bool                      { return false }
func (u *c20UI) WantBrowser() bool                     { return false }
func (u *c20UI) SetAutoComplete(func(string) string)   {}

type c20Fetcher struct{ vals []int64 }

func (f *c20Fetcher) Fetch(src string, d, t time.Duration) (*profile.Profile, string, error) {
	i, _ := strconv.Atoi(src)
	if i%3 == 0 {
		runtime.Gosched()
	}
	if i%7 == 3 {
		time.Sleep(time.Duration(i%5) * 100 * time.Microsecond)
	}
	v := f.vals[i]
	if v < 0 {
		return nil, "", fmt.Errorf("source %d unavailable", i)
	}
	fn := &profile.Function{ID: 1, Name: "f", SystemName: "f", Filename: "f.go"}
	loc := &profile.Location{ID: 1, Address: 0x1000, Line: []profile.Line{{Function: fn, Line: 1}}}
	return &profile.Profile{
		SampleType: []*profile.ValueType{{Type: "samples", Unit: "count"}},
		PeriodType: &profile.ValueType{Type: "cpu", Unit: "nanoseconds"}, Period: 1,
		Sample:     []*profile.Sample{{Location: []*profile.Location{loc}, Value: []int64{v}}},
		Location:   []*profile.Location{loc},
		Function:   []*profile.Function{fn},
	}, "", nil
}

func c20Cfg(nc int, out string) Term { return L(ZI(nc), S(out)) }

func runC20(c *Ctx) {
	ui := &c20UI{}
	seqNo := 0
	scratchDir := func() string {
		seqNo++
		d := filepath.Join(".", fmt.Sprintf("c20-%d", seqNo))
		os.MkdirAll(d, 0o755)
		return d
	}

	// ---- temp files. The directory has a HISTORY: names that are taken may belong to files of any shape
	// (kind 0 fresh with data, 1 fresh and empty, 2 empty and three days old, 3 old with data,
	// 4 a directory, 5 a dangling symlink) -- a taken name is never reused, whatever it looks like.
	tempCase := func(gen string, existing []int64, kinds []int64, k int) {
		d := scratchDir()
		defer os.RemoveAll(d)
		old := time.Now().Add(-72 * time.Hour)
		type snap struct {
			mode os.FileMode
			mt   time.Time
			data string
		}
		look := func(p string) snap {
			fi, err := os.Lstat(p)
			if err != nil {
				return snap{}
			}
			sn := snap{mode: fi.Mode(), mt: fi.ModTime()}
			if fi.Mode().IsRegular() {
				b, _ := os.ReadFile(p)
				sn.data = "=" + string(b)
			}
			return sn
		}
		before := map[int64]snap{}
		for i, e := range existing {
			p := filepath.Join(d, fmt.Sprintf("pfx%03d.sfx", e))
			switch kinds[i] {
			case 0:
				os.WriteFile(p, []byte(fmt.Sprintf("old%d", e)), 0o644)
			case 1:
				os.WriteFile(p, nil, 0o644)
			case 2:
				os.WriteFile(p, nil, 0o644)
				os.Chtimes(p, old, old)
			case 3:
				os.WriteFile(p, []byte(fmt.Sprintf("old%d", e)), 0o644)
				os.Chtimes(p, old, old)
			case 4:
				os.Mkdir(p, 0o755)
			case 5:
				os.Symlink(filepath.Join(d, "nowhere"), p)
			}
			before[e] = look(p)
		}
		names := make([]string, k)
		c20RunPar(k, func(i int) {
			n, err := driver.VerifC20NewTempFile(d, "pfx", ".sfx")
			if err != nil {
				n = "ERR"
			} else {
				os.WriteFile(n, []byte(fmt.Sprintf("new%d", i)), 0o644)
			}
			names[i] = n
		})
		created := make([]int64, k)
		intact := true // every creator still finds its own output in the file it was given
		for i, n := range names {
			b := filepath.Base(n)
			v, err := strconv.ParseInt(strings.TrimSuffix(strings.TrimPrefix(b, "pfx"), ".sfx"), 10, 64)
			if err != nil || !strings.HasPrefix(b, "pfx") {
				v = -1
			} else if data, err := os.ReadFile(n); err != nil || string(data) != fmt.Sprintf("new%d", i) {
				intact = false
			}
			created[i] = v
		}
		sort.Slice(created, func(a, b int) bool { return created[a] < created[b] })
		untouched := true
		for _, e := range existing {
			if look(filepath.Join(d, fmt.Sprintf("pfx%03d.sfx", e))) != before[e] {
				untouched = false
			}
		}
		c.Case(gen, L(S("tempfile"), Zs(existing), ZI(k), Zs(kinds)), L(Zs(created), Bool(untouched), Bool(intact)), k >= 2, "op:tempfile")
	}
	tempCase("tempfile-empty-dir", nil, nil, 8)
	tempCase("tempfile-gap", []int64{1, 2, 4, 7}, []int64{0, 0, 0, 0}, 6)
	tempCase("tempfile-one", nil, nil, 1)
	tempCase("tempfile-old-empty-leftover", []int64{1}, []int64{2}, 8)
	tempCase("tempfile-history", []int64{1, 2, 3, 4, 5, 6}, []int64{0, 1, 2, 3, 4, 5}, 8)
	for n := 0; n < c.Budget(60, 1500); n++ {
		var ex, kd []int64
		m := c.R.Intn(14)
		for i := 1; i <= m; i++ {
			if c.R.P(2, 3) {
				ex = append(ex, int64(i))
				if c.R.P(1, 2) {
					kd = append(kd, 0)
				} else {
					kd = append(kd, int64(c.R.Intn(6)))
				}
			}
		}
		tempCase("tempfile-random", ex, kd, 1+c.R.Intn(c.Budget(16, 48)))
	}

	// ---- option store
	optCase := func(gen string, init int, threads [][][2]int) {
		driver.VerifC20Set(init, "o"+strconv.Itoa(init))
		res := make([][]Term, len(threads))
		c20RunPar(len(threads), func(i int) {
			for _, op := range threads[i] {
				switch op[0] {
				case 0:
					nc, out := driver.VerifC20Get()
					res[i] = append(res[i], c20Cfg(nc, out))
				case 1:
					driver.VerifC20Set(op[1], "o"+strconv.Itoa(op[1]))
				case 2:
					driver.VerifC20Configure("nodecount", strconv.Itoa(op[1]))
				}
				if op[1]%2 == 0 {
					runtime.Gosched()
				}
			}
		})
		nc, out := driver.VerifC20Get()
		var tt, rr []Term
		nops := 0
		for i, th := range threads {
			var ops []Term
			for _, op := range th {
				nops++
				switch op[0] {
				case 0:
					ops = append(ops, L(S("get")))
				case 1:
					ops = append(ops, L(S("set"), ZI(op[1])))
				case 2:
					ops = append(ops, L(S("cfg"), ZI(op[1])))
				}
			}
			tt = append(tt, L(ops...))
			rr = append(rr, L(res[i]...))
		}
		c.Case(gen, L(S("options"), ZI(init), L(tt...)), L(L(rr...), c20Cfg(nc, out)), len(threads) >= 2 && nops >= 2, "op:options")
	}
	optCase("options-set-get", 5, [][][2]int{{{1, 10}, {0, 0}}, {{0, 0}, {2, 20}}})
	for n := 0; n < c.Budget(150, 4000); n++ {
		nt := 2 + c.R.Intn(2)
		var th [][][2]int
		for i := 0; i < nt; i++ {
			var ops [][2]int
			for j := 0; j < 1+c.R.Intn(3); j++ {
				ops = append(ops, [2]int{c.R.Intn(3), 100*(i+1) + 10*j + c.R.Intn(4)})
			}
			th = append(th, ops)
		}
		optCase("options-random", c.R.Intn(9), th)
	}

	// ---- k goroutines configure DISTINCT options concurrently and each reads its own option back:
	// configure is a read-modify-write of the whole option struct, so if it is not ONE critical
	// section a concurrent writer of another field is overwritten (lost update) -- no data race needed
	c20Fields := []string{"nodecount", "focus", "ignore", "hide", "show", "show_from", "tagfocus", "tagignore", "tagshow", "taghide"}
	fieldCase := func(gen string, k, rounds int) {
		driver.VerifC20Set(-1, "")
		fields := c20Fields[:k]
		val := func(i, j int) string {
			if fields[i] == "nodecount" {
				return strconv.Itoa(1000*(i+1) + j)
			}
			return "v" + strconv.Itoa(i) + "_" + strconv.Itoa(j)
		}
		flags := make([][]int64, k)
		c20RunPar(k, func(i int) {
			for j := 0; j < rounds; j++ {
				v := val(i, j)
				if err := driver.VerifC20Configure(fields[i], v); err != nil {
					flags[i] = append(flags[i], -1)
					continue
				}
				if driver.VerifC20GetField(fields[i]) == v {
					flags[i] = append(flags[i], 1)
				} else {
					flags[i] = append(flags[i], 0)
				}
			}
		})
		final := make([]int64, k)
		var per []Term
		for i := range fields {
			if driver.VerifC20GetField(fields[i]) == val(i, rounds-1) {
				final[i] = 1
			}
			per = append(per, Zs(flags[i]))
		}
		c.Case(gen, L(S("fields"), Ss(fields), ZI(rounds)), L(L(per...), Zs(final)), k >= 2, "op:fields")
		driver.VerifC20Set(-1, "")
	}
	fieldCase("fields-two-writers", 2, 50)
	for n := 0; n < c.Budget(40, 600); n++ {
		fieldCase("fields-random", 2+c.R.Intn(len(c20Fields)-1), 5+c.R.Intn(c.Budget(40, 200)))
	}

	// ---- error paths of the option store followed by more work: a rejected assignment must leave the
	// store usable (no lock may stay held once the operation has returned), sequentially and with
	// several goroutines running such sequences at once (watchdog: a blocked run is an observable)
	c20Names := []string{"nodecount", "sort", "granularity", "cum", "flat", "functions", "filefunctions", "files", "lines", "addresses", "focus", "nosuchoption", "trim"}
	c20Values := []string{"", "0", "1", "true", "false", "t", "F", "cum", "flat", "lines", "10", "-3", "abc", "yes"}
	errCase := func(gen string, threads [][][2]string) {
		driver.VerifC20Set(-1, "")
		driver.VerifC20LeakedLocks()
		res := make([][]Term, len(threads))
		run := func(i int) {
			for _, op := range threads[i] {
				err := driver.VerifC20Configure(op[0], op[1])
				if len(threads) == 1 {
					// quiescent: nothing else runs, so every mutex of the package must be free again
					res[i] = append(res[i], L(Bool(err != nil), Ss(driver.VerifC20LeakedLocks())))
				} else {
					res[i] = append(res[i], L(Bool(err != nil), Ss(nil)))
				}
				driver.VerifC20Get()
			}
		}
		blocked := 0
		if len(threads) == 1 {
			run(0)
		} else {
			var wg sync.WaitGroup
			gate := make(chan struct{})
			done := make(chan struct{})
			wg.Add(len(threads))
			for i := range threads {
				go func(i int) { defer wg.Done(); <-gate; run(i) }(i)
			}
			close(gate)
			go func() { wg.Wait(); close(done) }()
			select {
			case <-done:
			case <-time.After(1500 * time.Millisecond):
				// not finished after 1.5 s although every operation takes microseconds: a lock was left
				// held. Record it, then keep releasing leaked locks so that the run can finish.
				blocked = 1
				for waiting, n := true, 0; waiting && n < 500; n++ {
					driver.VerifC20LeakedLocks()
					select {
					case <-done:
						waiting = false
					case <-time.After(10 * time.Millisecond):
					}
				}
			}
		}
		leakedAfter := driver.VerifC20LeakedLocks()
		var tt, rr []Term
		for i, th := range threads {
			var ops []Term
			for _, op := range th {
				ops = append(ops, L(S(op[0]), S(op[1])))
			}
			tt = append(tt, L(ops...))
			for len(res[i]) < len(th) { // a thread that never finished
				res[i] = append(res[i], L(Z(-1), Ss(nil)))
			}
			rr = append(rr, L(res[i]...))
		}
		c.Case(gen, L(S("errpaths"), L(tt...)), L(L(rr...), ZI(blocked), Ss(leakedAfter)), true, "op:errpaths")
		driver.VerifC20Set(-1, "")
	}
	errCase("errpaths-rejected-choice", [][][2]string{{{"sort", "flat"}, {"cum", "false"}, {"cum", "true"}, {"lines", "0"}, {"nodecount", "x"}, {"nodecount", "7"}}})
	for n := 0; n < c.Budget(60, 1500); n++ {
		nt := 1
		if n%3 == 2 {
			nt = 2 + c.R.Intn(3)
		}
		var th [][][2]string
		for i := 0; i < nt; i++ {
			var ops [][2]string
			for j := 0; j < 1+c.R.Intn(6); j++ {
				ops = append(ops, [2]string{PickS(c.R, c20Names), PickS(c.R, c20Values)})
			}
			th = append(th, ops)
		}
		errCase("errpaths-random", th)
	}

	// ---- temp-file registry: files are created and registered while cleanups run; the cleanup the
	// tool runs on exit must then leave no registered file behind and no cleanup may fail
	regCase := func(gen string, pre, writers, cleaners int) {
		d := scratchDir()
		defer os.RemoveAll(d)
		driver.VerifC20Cleanup()
		var all []string
		var allMu sync.Mutex
		mk := func(tag string, i int) string {
			n := filepath.Join(d, fmt.Sprintf("%s%05d.tmp", tag, i))
			os.WriteFile(n, []byte("x"), 0o644)
			allMu.Lock()
			all = append(all, n)
			allMu.Unlock()
			return n
		}
		for i := 0; i < pre; i++ {
			driver.VerifC20DeferDelete(mk("pre", i))
		}
		var running int32 = int32(cleaners)
		var errs int32
		c20RunPar(writers+cleaners, func(i int) {
			if i < cleaners {
				if err := driver.VerifC20Cleanup(); err != nil {
					atomic.AddInt32(&errs, 1)
				}
				atomic.AddInt32(&running, -1)
				return
			}
			// register new files for as long as a cleanup is running (bounded)
			for j := 0; j < 4000 && (atomic.LoadInt32(&running) > 0 || j < 3); j++ {
				driver.VerifC20DeferDelete(mk(fmt.Sprintf("w%d_", i), j))
			}
		})
		if err := driver.VerifC20Cleanup(); err != nil { // the cleanup PProf runs on exit
			errs++
		}
		leaked := 0
		for _, n := range all {
			if _, err := os.Stat(n); err == nil {
				leaked++
			}
		}
		c.dist["registry:files-registered"] += len(all)
		c.Case(gen, L(S("registry"), ZI(pre), ZI(writers), ZI(cleaners)), L(ZI(leaked), Z(int64(errs)), Ss(driver.VerifC20LeakedLocks())), true, "op:registry")
	}
	regCase("registry-one-cleanup", 400, 2, 1)
	regCase("registry-two-cleanups", 400, 1, 2)
	for n := 0; n < c.Budget(14, 80); n++ {
		regCase("registry-random", 100+c.R.Intn(c.Budget(500, 3000)), 1+c.R.Intn(3), 1+c.R.Intn(2))
	}

	// ---- Write / WriteUncompressed / Copy on one profile
	serCase := func(gen string, p *profile.Profile, k int) {
		before := Render(DumpProfile(p))
		var seqGz, seqRaw bytes.Buffer
		var seqCopy string
		seqOK := func() (ok bool) {
			defer func() {
				if recover() != nil { // profiles the encoder itself rejects by panicking are C09's subject
					ok = false
				}
			}()
			p.Write(&seqGz)
			p.WriteUncompressed(&seqRaw)
			seqCopy = Render(DumpProfile(p.Copy()))
			return true
		}()
		if !seqOK {
			c.dist["skipped:sequential-serialize-panics"]++
			return
		}
		zr, _ := gzip.NewReader(bytes.NewReader(seqGz.Bytes()))
		seqUnz, _ := io.ReadAll(zr)
		flags := make([]int64, k)
		c20RunPar(k, func(i int) {
			defer func() {
				if r := recover(); r != nil {
					flags[i] = -1
				}
			}()
			switch i % 3 {
			case 0:
				var b bytes.Buffer
				p.Write(&b)
				zr, err := gzip.NewReader(bytes.NewReader(b.Bytes()))
				if err == nil {
					if u, err := io.ReadAll(zr); err == nil && bytes.Equal(u, seqUnz) {
						flags[i] = 1
					}
				}
			case 1:
				var b bytes.Buffer
				p.WriteUncompressed(&b)
				if bytes.Equal(b.Bytes(), seqRaw.Bytes()) {
					flags[i] = 1
				}
			case 2:
				if Render(DumpProfile(p.Copy())) == seqCopy {
					flags[i] = 1
				}
			}
		})
		after := Render(DumpProfile(p))
		c.Case(gen, L(S("serialize"), ZI(k), ZI(len(p.Sample))), L(Zs(flags), Bool(before == after)), k >= 2 && len(p.Sample) > 0, "op:serialize")
	}
	for n := 0; n < c.Budget(40, 1500); n++ {
		serCase("serialize-random", GenProfile(c.R, DefaultKnobs()), 2+c.R.Intn(c.Budget(8, 24)))
	}

	// ---- scripted tool pipe shared by several goroutines
	pipeCase := func(gen string, llvm bool, addrs []uint64) {
		tool := binutils.VerifC20NewTool(llvm)
		out := make([]Term, len(addrs))
		c20RunPar(len(addrs), func(i int) {
			fr, err := tool.AddrInfo(addrs[i])
			if err != nil || len(fr) != 1 {
				msg := "frames=" + strconv.Itoa(len(fr))
				if err != nil {
					msg = "err"
				}
				out[i] = L(S(msg), S(""), Z(0))
				return
			}
			out[i] = L(S(fr[0].Func), S(fr[0].File), ZI(fr[0].Line))
		})
		var in []Term
		for _, a := range addrs {
			in = append(in, L(ZU(a), S(fmt.Sprintf("%x", a))))
		}
		c.Case(gen, L(S("pipe"), Bool(llvm), L(in...)), L(out...), len(addrs) >= 2, "op:pipe")
	}
	for n := 0; n < c.Budget(60, 2000); n++ {
		var addrs []uint64
		for i := 0; i < 2+c.R.Intn(c.Budget(10, 32)); i++ {
			addrs = append(addrs, 0x1000+uint64(c.R.Intn(1<<20)))
		}
		pipeCase("pipe-random", n%2 == 0, addrs)
	}

	// ---- sync.Once around computeBase: concurrent ObjAddr on one ObjFile
	root := os.Getenv("VERIF_REPO")
	if root == "" {
		root = "/repo"
	}
	exe := filepath.Join(root, "internal/binutils/testdata/exe_linux_64")
	onceOK := 0
	for n := 0; n < c.Budget(20, 400); n++ {
		bu := &binutils.Binutils{}
		probe := func(addr uint64) (uint64, bool) {
			f, err := bu.Open(exe, 0, ^uint64(0), 0, "")
			if err != nil {
				return 0, false
			}
			defer f.Close()
			o, err := f.ObjAddr(addr)
			if err != nil {
				return 0, false
			}
			return addr - o, true
		}
		var addrs []uint64
		var base uint64
		for i := 0; i < 2+c.R.Intn(10); i++ {
			a := 0x400000 + uint64(c.R.Intn(0x1000))
			if b, ok := probe(a); ok && (len(addrs) == 0 || b == base) {
				base = b
				addrs = append(addrs, a)
			}
		}
		if len(addrs) < 2 {
			continue
		}
		f, err := bu.Open(exe, 0, ^uint64(0), 0, "")
		if err != nil {
			continue
		}
		// history: on every third object the FIRST use fails (address outside the mapping); the Once
		// latches that outcome like any other, so every later caller reads the same error
		failedFirst := n%3 == 2
		if failedFirst {
			f.Close()
			f, err = bu.Open(exe, 0x400000, 0x500000, 0, "")
			if err != nil {
				continue
			}
			if _, err := f.ObjAddr(0x10); err == nil {
				f.Close()
				continue
			}
		}
		got := make([]Term, len(addrs))
		c20RunPar(len(addrs), func(i int) {
			o, err := f.ObjAddr(addrs[i])
			if err != nil {
				got[i] = Z(-1)
				return
			}
			got[i] = ZU(addrs[i] - o)
		})
		f.Close()
		var in []Term
		for _, a := range addrs {
			in = append(in, ZU(a))
		}
		onceOK++
		if failedFirst {
			c.Case("once-failed-first-use", L(S("once"), ZU(base), L(in...), Bool(true)), L(got...), true, "op:once")
			continue
		}
		c.Case("once-objaddr", L(S("once"), ZU(base), L(in...), Bool(false)), L(got...), true, "op:once")
	}
	c.Extra["once_cases"] = onceOK

	// ---- copy-on-write tool configuration: setters overlap readers (explored by the -race run; the
	// observable is only that the last String() is one of the two possible configurations)
	for n := 0; n < c.Budget(4, 40); n++ {
		bu := &binutils.Binutils{}
		k := 4 + c.R.Intn(8)
		c20RunPar(k, func(i int) {
			if i%2 == 0 {
				bu.SetFastSymbolization(i%4 == 0)
			} else {
				_ = bu.String()
			}
		})
		s := bu.String()
		c.Case("binutils-cow", L(S("cow"), ZI(k)), Bool(strings.HasSuffix(s, "fast=true") || strings.HasSuffix(s, "fast=false")), true, "op:cow")
	}

	// ---- first use of a Binutils (lazy default tool lookup in get) overlapped with a setter: whatever
	// the order, the setting must survive (one at a time: first use then set, or set then use, both
	// end with fast=true)
	for n := 0; n < c.Budget(10, 150); n++ {
		k := 2 + c.R.Intn(5)
		lost := 0
		for rep := 0; rep < 4; rep++ {
			bu := &binutils.Binutils{}
			c20RunPar(k, func(i int) {
				if i == 0 {
					bu.SetFastSymbolization(true)
				} else {
					_ = bu.String()
				}
			})
			if !strings.HasSuffix(bu.String(), "fast=true") {
				lost++
			}
		}
		c.Case("binutils-first-use", L(S("cow1"), ZI(k)), ZI(lost), true, "op:cow1")
	}

	// ---- settings file: concurrent saves, then concurrent deletes
	for n := 0; n < c.Budget(15, 300); n++ {
		d := scratchDir()
		fname := filepath.Join(d, "settings.json")
		k := 2 + c.R.Intn(c.Budget(8, 24))
		var names []string
		for i := 0; i < k; i++ {
			names = append(names, fmt.Sprintf("cfg%03d", i))
		}
		ok := true
		c20RunPar(k, func(i int) {
			if err := driver.VerifC20SaveConfig(fname, names[i]); err != nil {
				ok = false
			}
		})
		nrm := c.R.Intn(k)
		c20RunPar(nrm, func(i int) {
			if err := driver.VerifC20RemoveConfig(fname, names[i]); err != nil {
				ok = false
			}
		})
		got, err := driver.VerifC20ConfigNames(fname)
		if err != nil {
			ok = false
		}
		sort.Strings(got)
		ents, _ := os.ReadDir(d)
		c.Case("settings-save-delete", L(S("settings"), Ss(names), ZI(nrm)), L(Ss(got), Bool(ok), ZI(len(ents))), true, "op:settings")
		os.RemoveAll(d)
	}

	// ---- parallel fetch
	for n := 0; n < c.Budget(15, 200); n++ {
		k := 1 + c.R.Intn(c.Budget(40, 300))
		vals := make([]int64, k)
		for i := range vals {
			vals[i] = int64(c.R.Intn(1000))
			if c.R.P(1, 6) {
				vals[i] = -1
			}
		}
		var p *profile.Profile
		var count int
		var err error
		func() {
			defer func() {
				if r := recover(); r != nil { // a panic is an observable, not a harness crash
					p, count, err = nil, -1, fmt.Errorf("panic: %v", r)
				}
			}()
			p, count, err = driver.VerifC20Grab(k, &c20Fetcher{vals: vals}, ui)
		}()
		var total int64
		if p != nil {
			for _, s := range p.Sample {
				for _, v := range s.Value {
					total += v
				}
			}
		}
		c.Case("fetch-parallel", L(S("fetch"), Zs(vals)), L(ZI(count), Z(total), Bool(err == nil)), k >= 2, "op:fetch")
	}

	// ---- web UI: any mix of requests at once gives the pages the same requests give one at a time
	var webMu sync.Mutex
	webCompared, webEqual := 0, 0
	defer func() {
		c.Extra["web_pages_compared_with_stable_sequential_page"] = webCompared
		c.Extra["web_pages_identical"] = webEqual
	}()
	for n := 0; n < c.Budget(6, 100); n++ {
		k := DefaultKnobs()
		p := GenProfile(c.R, k)
		if len(p.SampleType) == 0 || len(p.Sample) == 0 || p.CheckValid() != nil {
			continue
		}
		d := scratchDir()
		opt := &plugin.Options{UI: ui, Obj: &binutils.Binutils{}}
		var serve func(handler, rawQuery string) (int, string)
		var err error
		func() {
			defer func() {
				if r := recover(); r != nil { // profiles the encoder rejects by panicking are C09's subject
					err = fmt.Errorf("panic: %v", r)
				}
			}()
			serve, err = driver.VerifC20Web(p, opt, filepath.Join(d, "settings.json"))
		}()
		if err != nil {
			c.dist["skipped:web-setup-failed"]++
			os.RemoveAll(d)
			continue
		}
		reqs := [][2]string{{"top", ""}, {"peek", "f=."}, {"flamegraph", ""}, {"top", "s=cum"}, {"top", "hide=a"}, {"source", "f=."}, {"flamegraph", "f=a"}, {"top", "nodecount=3"}}
		kk := 2 + c.R.Intn(c.Budget(6, 16))
		var pick [][2]string
		for i := 0; i < kk; i++ {
			pick = append(pick, reqs[c.R.Intn(len(reqs))])
		}
		// the one-at-a-time page; a request whose page already differs between sequential repetitions
		// (map-order ties in report output: C08's subject) is not compared
		seq := make([]string, kk)
		unstable := make([]bool, kk)
		for i, r := range pick {
			code, body := serve(r[0], r[1])
			seq[i] = strconv.Itoa(code) + body
			for rep := 0; rep < 3; rep++ {
				code2, body2 := serve(r[0], r[1])
				if strconv.Itoa(code2)+body2 != seq[i] {
					unstable[i] = true
				}
			}
			if unstable[i] {
				c.dist["skipped:page-differs-between-sequential-runs"]++
			}
		}
		flags := make([]int64, kk)
		c20RunPar(kk+2, func(i int) {
			if i >= kk { // settings edits and option reads overlap the page requests
				if i == kk && os.Getenv("VERIF_C20_RACE") != "" {
					// only in the -race run: the menu of saved configs is part of every page, so a
					// concurrent save legitimately changes the pages compared below
					serve("saveconfig", "config=w"+strconv.Itoa(n))
					serve("deleteconfig", "config=w"+strconv.Itoa(n))
				} else {
					driver.VerifC20Get()
				}
				return
			}
			code, body := serve(pick[i][0], pick[i][1])
			// judged: the status; whole pages are only counted (report output has tie orders that differ
			// between runs even sequentially -- C08's subject -- and three repetitions cannot rule that out)
			if strings.HasPrefix(seq[i], strconv.Itoa(code)) && (code != 200 || len(body) > 0) {
				flags[i] = 1
			}
			if !unstable[i] {
				webMu.Lock()
				webCompared++
				if strconv.Itoa(code)+body == seq[i] {
					webEqual++
				}
				webMu.Unlock()
			}
		})
		os.RemoveAll(d)
		c.Case("web-mix", L(S("web"), ZI(kk)), L(Zs(flags)), true, "op:web")
	}

	// ---- end-to-end layer (c20_e2e.go)
	c20E2E(c)
	// ---- round 5: shared helpers on rare shapes (c20_r5.go)
	c20R5(c)
	// ---- round 6: per-request state of the web handlers (c20_r6.go)
	c20R6(c)
}
