//go:build verif

package main

// Deterministic input shapes of the C07 quick tier (round 5): the same under every seed.

// c07UnitsLayoutShapes: a later (or the first) profile lists the common sample types in ANOTHER
// ORDER or carries an EXTRA type that is dropped, AND records a common type in ANOTHER UNIT of the
// same family -- both at once, as the statement says ("the same sample type in different units or
// ... in a different order - values are converted and aligned").  compatibilizeSampleTypes takes
// its rebuild path for the rearranged profile and ScaleProfiles must still see that profile's
// own units.  Part of the 'units' stream that C15 reuses.
func c07UnitsLayoutShapes() []struct {
	name string
	t    *c07Tuple
} {
	tab := c07Table{funcs: []string{"main", "hot", "cold"}, locs: []c07Loc{
		{id: 1, addr: 0x1000, lines: []int{0}}, {id: 2, addr: 0x1010, lines: []int{1}}, {id: 3, addr: 0x1020, lines: []int{2}}}}
	type col struct {
		typ, unit string
		v1, v2    int64 // values of the two samples (hot<-main, cold<-main)
	}
	mk := func(cols ...col) c07Prof {
		p := c07Prof{periodType: [2]string{"cpu", "ms"}, period: 1}
		s1 := c07Sample{locs: []int{1, 0}}
		s2 := c07Sample{locs: []int{2, 0}}
		for _, c := range cols {
			p.types = append(p.types, [2]string{c.typ, c.unit})
			s1.vals = append(s1.vals, c.v1)
			s2.vals = append(s2.vals, c.v2)
		}
		p.samples = []c07Sample{s1, s2}
		return p
	}
	samples := func(a, b int64) col { return col{"samples", "count", a, b} }
	cpu := func(u string, a, b int64) col { return col{"cpu", u, a, b} }
	space := func(u string, a, b int64) col { return col{"alloc_space", u, a, b} }
	extra := col{"extra", "count", 7, 9}
	var out []struct {
		name string
		t    *c07Tuple
	}
	add := func(name string, srcs, bases []c07Prof, diff bool) {
		out = append(out, struct {
			name string
			t    *c07Tuple
		}{name, &c07Tuple{tab: tab, srcs: srcs, bases: bases, diffBase: diff}})
	}
	a := mk(samples(3, 1), cpu("milliseconds", 3000, 40))
	bSwapped := mk(cpu("microseconds", 2000000, 500), samples(2, 5))
	bExtra := mk(samples(2, 5), cpu("microseconds", 2000000, 500), extra)
	bExtraFirst := mk(extra, cpu("us", 2000000, 500), samples(2, 5))
	aExtra := mk(samples(3, 1), extra, cpu("ms", 3000, 40))
	bSame := mk(samples(2, 5), cpu("us", 2000000, 500))
	add("swapped-later", []c07Prof{a, bSwapped}, nil, false)
	add("swapped-first", []c07Prof{bSwapped, a}, nil, false)
	add("extra-type-later", []c07Prof{a, bExtra}, nil, false)
	add("extra-type-first-column", []c07Prof{a, bExtraFirst}, nil, false)
	add("extra-type-in-first-profile", []c07Prof{aExtra, bSame}, nil, false)
	add("three-profiles", []c07Prof{a, bSwapped, bExtra}, nil, false)
	add("base-swapped", []c07Prof{a}, []c07Prof{bSwapped}, false)
	add("diff-base-swapped", []c07Prof{bSwapped}, []c07Prof{a}, true)
	add("diff-base-extra", []c07Prof{a}, []c07Prof{bExtra}, true)
	// two families at once, coarser unit in the rearranged profile
	m1 := mk(space("kB", 2048, 3), cpu("s", 2, 1))
	m2 := mk(cpu("ms", 1500, 250), space("MB", 5, 1))
	add("two-families-swapped", []c07Prof{m1, m2}, nil, false)
	add("two-families-base", []c07Prof{m2}, []c07Prof{m1}, false)
	return out
}

// c07BuildsShapes: the inputs are profiles of DIFFERENT BUILDS of one program, each listing only
// the functions / locations it uses (ids are tuple-wide: one id = one function or location
// content).  What the merge's key builders (Location.key, Function.key) and the report's entry
// identity (graph.nodeInfo) have to tell apart or to unify:
//   moved-code        one address is `parse` in the old build and `scan` in the new one
//   shifted-start     the same function names with other start lines (and other addresses)
//   shifted-same-addr the same function names with other start lines at the SAME addresses
//   addressless       locations without an address, told apart by their lines only
//   inline-vs-plain   one address carries [scan inlined into work] in one build, [scan] in the other
//   same-build        both inputs use the very same locations (everything must collapse)
// each as plain sum, -base and -diff_base.
func c07BuildsShapes() []struct {
	name string
	t    *c07Tuple
} {
	tab := c07Table{
		funcs:  []string{"main", "parse", "scan", "work", "work", "main"},
		starts: []int64{10, 20, 30, 40, 44, 14},
		locs: []c07Loc{
			{id: 1, addr: 0x401000, lines: []int{0}},    // 0 main (old)
			{id: 2, addr: 0x401200, lines: []int{1}},    // 1 parse @1200 (old)
			{id: 3, addr: 0x401200, lines: []int{2}},    // 2 scan  @1200 (new)
			{id: 4, addr: 0x401300, lines: []int{3}},    // 3 work (old)
			{id: 5, addr: 0x401400, lines: []int{4}},    // 4 work, start line shifted, moved (new)
			{id: 6, addr: 0x401010, lines: []int{5}},    // 5 main, start line shifted, moved (new)
			{id: 7, addr: 0, lines: []int{1}},           // 6 parse, no address
			{id: 8, addr: 0, lines: []int{2}},           // 7 scan, no address
			{id: 9, addr: 0x401500, lines: []int{2, 3}}, // 8 scan inlined into work (old)
			{id: 10, addr: 0x401500, lines: []int{2}},   // 9 scan alone at the same address (new)
			{id: 11, addr: 0x401300, lines: []int{4}},   // 10 work, start line shifted, same address as 3 (new)
			{id: 12, addr: 0x401000, lines: []int{5}},   // 11 main, start line shifted, same address as 0 (new)
		}}
	mk := func(samples ...c07Sample) c07Prof {
		return c07Prof{types: [][2]string{{"samples", "count"}, {"cpu", "ms"}}, periodType: [2]string{"cpu", "ms"}, period: 1,
			samples: samples, sparse: true}
	}
	sm := func(a, b int64, locs ...int) c07Sample { return c07Sample{locs: locs, vals: []int64{a, b}} }
	type pair struct {
		name     string
		old, new c07Prof
	}
	pairs := []pair{
		{"moved-code", mk(sm(40, 400, 1, 0), sm(2, 20, 3, 0)), mk(sm(100, 1000, 2, 0), sm(2, 25, 3, 0))},
		{"shifted-start", mk(sm(7, 70, 3, 0), sm(40, 400, 1, 3, 0)), mk(sm(7, 75, 4, 5), sm(100, 900, 1, 4, 5))},
		{"shifted-same-addr", mk(sm(7, 70, 3, 0), sm(3, 30, 0)), mk(sm(9, 95, 10, 11), sm(4, 40, 11))},
		{"addressless", mk(sm(5, 50, 6, 0), sm(1, 10, 0)), mk(sm(8, 80, 7, 0), sm(2, 20, 0))},
		{"inline-vs-plain", mk(sm(6, 60, 8, 0)), mk(sm(9, 90, 9, 3, 0))},
		{"same-build", mk(sm(40, 400, 1, 0), sm(2, 20, 3, 0)), mk(sm(15, 100, 1, 0), sm(2, 20, 3, 0), sm(1, 1, 0))},
	}
	var out []struct {
		name string
		t    *c07Tuple
	}
	add := func(name string, srcs, bases []c07Prof, diff bool) {
		out = append(out, struct {
			name string
			t    *c07Tuple
		}{name, &c07Tuple{tab: tab, srcs: srcs, bases: bases, diffBase: diff}})
	}
	for _, p := range pairs {
		add(p.name+"-sum", []c07Prof{p.old, p.new}, nil, false)
		add(p.name+"-base", []c07Prof{p.new}, []c07Prof{p.old}, false)
		add(p.name+"-diff-base", []c07Prof{p.new}, []c07Prof{p.old}, true)
	}
	return out
}

// c07ManyShapes (round 6): MANY profiles on one side.  chunkedGrab fetches and combines the
// sources (and, separately, the bases) 128 at a time and combines every further chunk with what it
// has so far: tuple sizes around the chunk size and around its multiples - 127, 128, 129, 130,
// 256, 257 - on the source side and on the base side.  Every profile lists only what it uses; the
// LAST profile of a side has an entry of its own, so a dropped tail loses an entry, not only weight.
func c07ManyShapes() []struct {
	name string
	t    *c07Tuple
} {
	tab := c07Table{funcs: []string{"main", "work", "idle", "last", "lastbase"}, locs: []c07Loc{
		{id: 1, addr: 0x1000, lines: []int{0}}, {id: 2, addr: 0x1010, lines: []int{1}}, {id: 3, addr: 0x1020, lines: []int{2}},
		{id: 4, addr: 0x1030, lines: []int{3}}, {id: 5, addr: 0x1040, lines: []int{4}}}}
	mk := func(i int, unit string, own int) c07Prof {
		p := c07Prof{types: [][2]string{{"samples", "count"}, {"cpu", unit}}, periodType: [2]string{"cpu", "ms"}, period: 1, sparse: true}
		p.samples = append(p.samples, c07Sample{locs: []int{1, 0}, vals: []int64{int64(10 + i%3), int64(100 + i)}})
		if i%7 == 0 {
			p.samples = append(p.samples, c07Sample{locs: []int{2, 0}, vals: []int64{1, 0}})
		}
		if own >= 0 {
			p.samples = append(p.samples, c07Sample{locs: []int{own, 0}, vals: []int64{5, 50}})
		}
		return p
	}
	side := func(n int, unitOf func(i int) string, own int) []c07Prof {
		var ps []c07Prof
		for i := 0; i < n; i++ {
			o := -1
			if i == n-1 {
				o = own
			}
			ps = append(ps, mk(i, unitOf(i), o))
		}
		return ps
	}
	ms := func(int) string { return "ms" }
	var out []struct {
		name string
		t    *c07Tuple
	}
	add := func(name string, srcs, bases []c07Prof, diff bool) {
		out = append(out, struct {
			name string
			t    *c07Tuple
		}{name, &c07Tuple{tab: tab, srcs: srcs, bases: bases, diffBase: diff}})
	}
	for _, n := range []int{127, 128, 129, 130, 256, 257} {
		add("sum-"+c07Itoa(n), side(n, ms, 3), nil, false)
	}
	// the profile that starts the second chunk uses another unit of the family
	add("sum-129-units", side(129, func(i int) string {
		if i == 128 {
			return "us"
		}
		return "ms"
	}, 3), nil, false)
	s130 := side(130, ms, 3)
	add("base-130-minus-128", s130, append([]c07Prof(nil), s130[:128]...), false)
	s129 := side(129, ms, 3)
	add("base-129-minus-itself", s129, append([]c07Prof(nil), s129...), false)
	add("diff-base-1-minus-129", side(1, ms, 3), side(129, ms, 4), true)
	add("diff-base-2-minus-257", side(2, ms, 3), side(257, ms, 4), true)
	add("base-129-minus-130", side(129, ms, 3), side(130, ms, 4), false)
	return out
}

func c07Itoa(n int) string {
	if n == 0 {
		return "0"
	}
	s := ""
	for n > 0 {
		s = string(rune('0'+n%10)) + s
		n /= 10
	}
	return s
}

// c07FilesShapes (round 7): functions that differ ONLY in their source file.  Function.key is
// (start line, name, system name, file name): two `lookup` functions starting at the same line in
// liba/tables.c and libb/tables.c (same BASE name, other directory) are two functions, and so are
// the neighbours - other base name in one directory, absolute vs relative path, no file name vs a
// file name, a file name that is a suffix of the other.  The merged profile must keep every
// sample's lines attributed to the file its input named (what -files, -lines, -filefunctions and
// -addresses show); at function granularity the same-named functions are one entry.
func c07FilesShapes() []struct {
	name string
	t    *c07Tuple
} {
	type variant struct{ name, fa, fb string }
	variants := []variant{
		{"same-base-other-dir", "liba/tables.c", "libb/tables.c"},
		{"other-base-same-dir", "lib/tables.c", "lib/tables2.c"},
		{"absolute-vs-relative", "/src/lib/tables.c", "lib/tables.c"},
		{"no-file-vs-file", "", "tables.c"},
		{"suffix", "tables.c", "a/tables.c"},
		{"same-file", "lib/tables.c", "lib/tables.c"},
	}
	var out []struct {
		name string
		t    *c07Tuple
	}
	for _, v := range variants {
		tab := c07Table{
			funcs:  []string{"main", "lookup", "lookup"},
			starts: []int64{10, 20, 20},
			files:  []string{"main.c", v.fa, v.fb},
			locs: []c07Loc{{id: 1, addr: 0x1000, lines: []int{0}}, {id: 2, addr: 0x2000, lines: []int{1}}, {id: 3, addr: 0x3000, lines: []int{2}}}}
		if v.fa == v.fb { // one function, two call sites
			tab.funcs, tab.starts, tab.files = tab.funcs[:2], tab.starts[:2], tab.files[:2]
			tab.locs[2].lines = []int{1}
		}
		mk := func(a, b int64, loc int) c07Prof {
			return c07Prof{types: [][2]string{{"samples", "count"}, {"cpu", "ms"}}, periodType: [2]string{"cpu", "ms"}, period: 1, sparse: true,
				samples: []c07Sample{{locs: []int{loc, 0}, vals: []int64{a, b}}, {locs: []int{0}, vals: []int64{1, 10}}}}
		}
		pa, pb := mk(5, 50, 1), mk(7, 75, 2)
		// a third profile that uses both functions itself
		pc := c07Prof{types: pa.types, periodType: pa.periodType, period: 1, sparse: true,
			samples: []c07Sample{{locs: []int{1, 0}, vals: []int64{2, 20}}, {locs: []int{2, 0}, vals: []int64{3, 30}}}}
		add := func(name string, srcs, bases []c07Prof, diff bool) {
			out = append(out, struct {
				name string
				t    *c07Tuple
			}{v.name + "-" + name, &c07Tuple{tab: tab, srcs: srcs, bases: bases, diffBase: diff}})
		}
		add("sum", []c07Prof{pa, pb}, nil, false)
		add("base", []c07Prof{pb}, []c07Prof{pa}, false)
		add("diff-base", []c07Prof{pc}, []c07Prof{pa}, true)
	}
	return out
}
