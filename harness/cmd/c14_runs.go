//go:build verif

package main

import (
	"fmt"
	"strconv"
	"strings"
)

// C14, deterministic "repeated record" streams (always generated, no PRNG): every legacy parser
// keeps state between the records of one parse (location cache, previous sample for threadz) and two
// of them edit sample stacks in place afterwards (cpuProfile's handler-frame removal,
// cleanupDuplicateLocations).  Records are independent by the property: a record converts the same way
// whether or not an equal record precedes it.  These documents contain runs of 2..4 EQUAL consecutive
// records (plus a non-adjacent repeat), crossed with the removals that can fire on them.

type c14EmitFn func(gen, kind, fmtName string, doc Term, data []byte, oracle []Term, approx bool, nt bool, tags ...string)

// c14RunPDoc: binary CPU document.  handler = number of shared handler frames (0, 1, 2) inserted as
// second frame(s) of EVERY sample (so the removal fires: count >= len - len/32); dup = the leaf is
// repeated as the next raw frame (after the -1 adjustment it is leaf-1: the duplicate-leaf clean-up fires).
func c14RunPDoc(kind, runLen, handler int, dup bool, withMap bool) c14PdocT {
	const sig, sig2 = uint64(0x401000), uint64(0x40be31)
	mk := func(count uint64, leaf uint64, callers ...uint64) c14PsampleT {
		a := []uint64{leaf}
		if handler >= 1 {
			a = append(a, sig+1)
		}
		if handler >= 2 {
			a = append(a, sig2+1)
		}
		if dup {
			a = append(a, leaf)
		}
		return c14PsampleT{count: count, addrs: append(a, callers...)}
	}
	d := c14PdocT{kind: kind, period: 10000, eod: true}
	d.samples = append(d.samples, mk(3, 0x600010, 0x10abc, 0x500001))
	for i := 0; i < runLen; i++ { // the run: equal address lists, different counts
		d.samples = append(d.samples, mk(uint64(i+1), 0x400800, 0x400901, 0x400a01, 0x400b01))
	}
	d.samples = append(d.samples, mk(7, 0x3ff000, 0x400901))
	d.samples = append(d.samples, mk(9, 0x400800, 0x400901, 0x400a01, 0x400b01)) // non-adjacent repeat
	for i := 0; i < 2; i++ {                                                     // a second, short run; equal counts as well
		d.samples = append(d.samples, mk(5, 0x401800, 0x401801))
	}
	if withMap {
		d.maps = []c14DmapT{{kind: 0, start: "00400000", limit: "00402000", perm: "r-xp", offset: "00000000", dev: "fc:01", inode: "7", file: "/bin/main"},
			{kind: 2, start: "600000", limit: "601000", file: "/lib/libm.so.6"}}
	}
	return d
}

func c14RunHexes(base uint64, n int) []string {
	var hs []string
	for i := 0; i < n; i++ {
		hs = append(hs, c14Hx(base+uint64(i)*0x101))
	}
	return hs
}

// c14OutlierPDoc: n >= 32 records, all but len/32 of them with the handler frame sig as second frame; the
// tolerated outliers have another second frame and carry the raw handler address deeper in their stack
// (depth 2 or 3) or as their leaf: the documented removal concerns the second frame only, so the outliers
// keep every frame.
func c14OutlierPDoc(kind, n, depth int, leafIsSig bool) c14PdocT {
	const sig = uint64(0x401000)
	d := c14PdocT{kind: kind, period: 100, eod: true}
	outliers := map[int]bool{0: true}
	if n/32 >= 2 {
		outliers[n/2] = true
	}
	for i := 0; i < n; i++ {
		leaf := 0x400800 + uint64(i%5)*0x10
		s := c14PsampleT{count: uint64(i%7 + 1), addrs: []uint64{leaf, sig + 1, 0x400901 + uint64(i%3)*0x100, 0x400b01}}
		if outliers[i] {
			switch {
			case leafIsSig:
				s.addrs = []uint64{sig, 0x500001, sig + 1, 0x400b01}
			case depth == 2:
				s.addrs = []uint64{leaf, 0x500001, sig + 1, 0x400b01}
			default:
				s.addrs = []uint64{leaf, 0x500001, 0x400901, sig + 1, 0x400b01}
			}
		}
		d.samples = append(d.samples, s)
	}
	return d
}

// c14SegMaps: one object listed as segs >= 3 contiguous executable segments (consistent offsets), then an
// unrelated library: massageMappings must fold the whole run into one mapping.
func c14SegMaps(form, segs int) c14MapsecT {
	m := c14MapsecT{present: true}
	for i := 0; i < segs; i++ {
		st := 0x400000 + uint64(i)*0x1000
		e := c14DmapT{kind: form, start: fmt.Sprintf("%08x", st), limit: fmt.Sprintf("%08x", st+0x1000), file: "/bin/main"}
		switch form {
		case 0:
			e.perm, e.offset, e.dev, e.inode = "r-xp", fmt.Sprintf("%08x", uint64(i)*0x1000), "fc:01", "7"
		case 1:
			e.start, e.limit = c14Hx(st), c14Hx(st+0x1000)
			if i > 0 {
				e.offset = c14Hx(uint64(i) * 0x1000)
			}
			e.buildid = "abc123"
		}
		m.entries = append(m.entries, e)
	}
	lib := c14DmapT{kind: form, start: "7f0000000000", limit: "7f0000004000", file: "/usr/lib/libc-2.15.so"}
	if form == 0 {
		lib.perm, lib.offset, lib.dev, lib.inode = "r-xp", "00000000", "fc:01", "9"
	}
	m.entries = append(m.entries, lib)
	return m
}

func c14RunStreams(emit c14EmitFn) {
	// memory map: FILE NAMES with special characters.  A line that parses as a mapping IS a mapping whatever its path
	// contains ('=' as in Android's /data/app/<pkg>-<base64>==/lib/..., ':', '@', "(deleted)", brackets, non-ASCII,
	// very long paths); only lines that are not mappings may be attr=value assignments.  The special name is used for
	// the first entry (main-binary candidate) and for a later one, in every map form, with samples inside it.
	long := "/data/" + strings.Repeat("very-long-directory-name/", 12) + "libnative.so"
	for i, name := range []string{"/data/app/com.example.app-AbC==/lib/arm64/libnative.so", "/opt/a=b/server", "=", "/x=", "k=v", "/bin/a:b", "/bin/a@b",
		"/bin/app(deleted)", "/p/(@ff)x", long, "/data/\xe6\x97\xa5\xe6\x9c\xac/app", "/bin/a[b]", "/opt/$x/bin", "/opt/a,b;c", "/opt/100%/x+y"} {
		for form := 0; form < 3; form++ {
			mk := func(st uint64, file string) c14DmapT {
				e := c14DmapT{kind: form, start: c14Hx(st), limit: c14Hx(st + 0x1000), file: file}
				if form == 0 {
					e.perm, e.offset, e.dev, e.inode = "r-xp", "00000000", "fc:01", "7"
				}
				if form == 1 && i%2 == 0 {
					e.offset, e.buildid = "1000", "abc123"
				}
				return e
			}
			for pos := 0; pos < 2; pos++ {
				ents := []c14DmapT{mk(0x400000, name), mk(0x500000, "/usr/lib/libc-2.15.so"), mk(0x600000, "/bin/other")}
				if pos == 1 {
					ents = []c14DmapT{mk(0x400000, "/bin/server"), mk(0x500000, "/usr/lib/libc-2.15.so"), mk(0x600000, name)}
				}
				m := c14MapsecT{present: true, entries: ents}
				a := uint64(0x400011) + uint64(pos)*0x200000
				tags := []string{fmt.Sprintf("mapname:%d", i), fmt.Sprintf("segs:form%d", form)}
				if (i+form+pos)%2 == 0 {
					cd := c14CdocT{typ: "goroutine", total: "3", m: m, items: []c14CitemT{{count: "1", addrs: []string{c14Hx(a), c14Hx(0x500021)}}, {count: "2", addrs: []string{c14Hx(0x600031), c14Hx(0x400031)}}}}
					emit("maps-filenames", "doc", "count", cd.term(), []byte(c14JoinLines(cd.lines())), nil, false, true, tags...)
				} else {
					pd := c14PdocT{kind: (i + form) % 4, period: 100, eod: true, maps: ents,
						samples: []c14PsampleT{{count: 1, addrs: []uint64{a - 1, 0x500021}}, {count: 2, addrs: []uint64{0x600030, 0x400031}}}}
					emit("maps-filenames", "doc", "cpu", pd.term(), pd.bytes(), nil, false, true, tags...)
				}
			}
		}
	}
	// memory map: which entry is taken for the main binary.  A shared library (".so" at the end, or ".so" followed by
	// "." / "_" and a digit -- any number of version components), a bracketed pseudo file, an empty name and a
	// "(deleted)" marker are never chosen; names that only look like libraries are.  The candidate is listed BEFORE
	// the executable, so a wrong decision moves it to the front of the mapping table.
	for i, first := range []string{"/usr/lib/libdemo.so.1.2.3", "/lib/libz.so.1.2.11", "/lib/libcrypto.so.1.1", "/lib/libc.so.6", "libfoo.so_1_2",
		"/lib/libm-2.15.so", "/lib/ld.so(deleted)", "[vdso]", "", "/opt/x.so.d/tool", "/opt/libfoo.sox", "/opt/app.so1", "/lib/libq.so.", "/opt/so", "/lib/libw.so.1a"} {
		for form := 0; form < 3; form++ {
			if first == "" && form != 0 {
				continue
			}
			mk := func(st uint64, file string) c14DmapT {
				e := c14DmapT{kind: form, start: c14Hx(st), limit: c14Hx(st + 0x1000), file: file}
				if form == 0 {
					e.perm, e.offset, e.dev, e.inode = "r-xp", "00000000", "fc:01", "7"
				}
				return e
			}
			m := c14MapsecT{present: true, entries: []c14DmapT{mk(0x100000, first), mk(0x200000, "/lib/libother.so.2.0"), mk(0x400000, "/bin/server"), mk(0x500000, "/bin/second")}}
			cd := c14CdocT{typ: "goroutine", total: "3", m: m}
			for k, a := range []uint64{0x100011, 0x400011, 0x200011} {
				cd.items = append(cd.items, c14CitemT{count: strconv.Itoa(k + 1), addrs: []string{c14Hx(a), c14Hx(0x500021)}})
			}
			emit("maps-mainbinary", "doc", "count", cd.term(), []byte(c14JoinLines(cd.lines())), nil, false, true, fmt.Sprintf("mainbin:%d", i), fmt.Sprintf("segs:form%d", form))
			if i < 7 && form < 2 {
				// the same library listed AFTER the executable (addresses above it): the executable stays first
				after := c14MapsecT{present: true, entries: []c14DmapT{mk(0x400000, "/bin/server"), mk(0x7f0000100000, first), mk(0x7f0000200000, "/lib/libother.so.2.0")}}
				ca := c14CdocT{typ: "goroutine", total: "2", m: after, items: []c14CitemT{{count: "1", addrs: []string{c14Hx(0x7f0000100011), c14Hx(0x400021)}}, {count: "2", addrs: []string{c14Hx(0x7f0000200011)}}}}
				emit("maps-mainbinary", "doc", "count", ca.term(), []byte(c14JoinLines(ca.lines())), nil, false, true, fmt.Sprintf("mainbin:%d", i), "mainbin:after")
			}
		}
	}
	// heap: effective sampling rate exactly 1 (heap/2, heap/3, heap_v2/1, heapz_v2/1) and 0/unknown (heap/1, heap_v2) with tiny
	// blocks: raw values are the documented ones ("rate <= 1"); an unsampling applied there is far from 1 for 1-8 byte blocks
	for _, nr := range [][2]string{{"heap", "2"}, {"heap", "3"}, {"heap_v2", "1"}, {"heapz_v2", "1"}, {"heap", "1"}, {"heap_v2", ""}} {
		hd := c14HdocT{name: nr[0], rate: nr[1], h: [4]string{"9", "900", "20", "2000"}}
		for i, cs := range [][4]string{{"1", "1", "2", "3"}, {"7", "14", "7", "14"}, {"3000", "24000", "5000", "40000"}, {"40000", "40000", "40000", "80000"}, {"2", "6", "0", "0"}} {
			hd.items = append(hd.items, c14HitemT{c: cs[0], s: cs[1], ac: cs[2], as: cs[3], addrs: c14RunHexes(0x400801+uint64(i)*0x1000, 2)})
		}
		emit("heap-rate1", "doc", "heap", hd.term(), []byte(c14JoinLines(hd.lines(0))), nil, false, true, "heap:"+hd.name+"/"+hd.rate)
	}
	// binary CPU: handler frame shared by all but len/32 records, outliers carrying the handler address elsewhere
	for kind := 0; kind < 4; kind++ {
		for _, n := range []int{32, 64} {
			for _, v := range []int{2, 3, 0} {
				d := c14OutlierPDoc(kind, n+kind, v, v == 0)
				emit("cpu-outlier", "doc", "cpu", d.term(), d.bytes(), nil, false, true, fmt.Sprintf("cpu:kind%d", d.kind), fmt.Sprintf("outlier:n%d", n), fmt.Sprintf("outlier:depth%d", v))
			}
		}
	}
	// memory map: one object in 3 and 4 contiguous segments, every map form, a sampled address in every segment
	for form := 0; form < 3; form++ {
		for segs := 3; segs <= 4; segs++ {
			m := c14SegMaps(form, segs)
			cd := c14CdocT{typ: "goroutine", total: "4", m: m}
			pd := c14PdocT{kind: (form + segs) % 4, period: 100, eod: true, maps: m.entries}
			for i := 0; i < segs; i++ {
				a := 0x400000 + uint64(i)*0x1000 + 0x11
				cd.items = append(cd.items, c14CitemT{count: strconv.Itoa(i + 1), addrs: []string{c14Hx(a), c14Hx(0x7f0000000101)}})
				pd.samples = append(pd.samples, c14PsampleT{count: uint64(i + 1), addrs: []uint64{a - 1, a + uint64(i+1)*0x20}})
			}
			tags := []string{fmt.Sprintf("segs:form%d", form), fmt.Sprintf("segs:n%d", segs)}
			emit("maps-segments", "doc", "count", cd.term(), []byte(c14JoinLines(cd.lines())), nil, false, true, tags...)
			emit("maps-segments", "doc", "cpu", pd.term(), pd.bytes(), nil, false, true, tags...)
		}
	}

	// binary CPU: all word sizes / byte orders x run length 2..4 x 0/1/2 handler frames x duplicate leaf
	for kind := 0; kind < 4; kind++ {
		for runLen := 2; runLen <= 4; runLen++ {
			for handler := 0; handler <= 2; handler++ {
				for _, dup := range []bool{false, true} {
					d := c14RunPDoc(kind, runLen, handler, dup, (kind+runLen+handler)%2 == 0)
					emit("cpu-runs", "doc", "cpu", d.term(), d.bytes(), nil, false, true,
						fmt.Sprintf("cpu:kind%d", d.kind), fmt.Sprintf("runs:len%d", runLen), fmt.Sprintf("runs:handler%d", handler), fmt.Sprintf("runs:dup%v", dup))
				}
			}
		}
	}
	stackA := c14RunHexes(0x400801, 4)
	stackB := c14RunHexes(0x600011, 2)
	maps := c14MapsecT{present: true, entries: []c14DmapT{{kind: 0, start: "00400000", limit: "00402000", perm: "r-xp", offset: "00000000", dev: "fc:01", inode: "7", file: "/bin/main"}}}
	for runLen := 2; runLen <= 4; runLen++ {
		tag := fmt.Sprintf("runs:len%d", runLen)
		// Go count, heap (raw and unsampled header), contention: A x runLen, B, A
		cd := c14CdocT{typ: "goroutine", total: "9", m: maps}
		hd := c14HdocT{name: "heapprofile", h: [4]string{"9", "900", "20", "2000"}, m: maps}
		kd := c14KdocT{header: "--- contentionz 1 ---", attrs: [][2]string{{"sampling period", "100"}}, m: maps}
		add := func(i int, st []string) {
			n := strconv.Itoa(i + 1)
			cd.items = append(cd.items, c14CitemT{count: n, addrs: st})
			hd.items = append(hd.items, c14HitemT{c: n, s: n + "00", ac: n + "1", as: n + "100", addrs: st})
			kd.items = append(kd.items, c14KitemT{delay: n + "000", count: n, addrs: st})
		}
		for i := 0; i < runLen; i++ {
			add(i, stackA)
		}
		add(runLen, stackB)
		add(runLen+1, stackA)
		add(runLen+1, stackA) // equal counts as well
		emit("count-runs", "doc", "count", cd.term(), []byte(c14JoinLines(cd.lines())), nil, false, true, tag)
		emit("heap-runs", "doc", "heap", hd.term(), []byte(c14JoinLines(hd.lines(0))), nil, false, true, tag)
		emit("contention-runs", "doc", "contention", kd.term(), []byte(c14JoinLines(kd.lines(0))), nil, false, true, tag)
		// threadz: equal stacks in consecutive threads, with/without the duplicated leaf (clean-up edits in place),
		// with a same-as-previous record inside the run
		for _, dup := range []bool{false, true} {
			td := c14TdocT{threadz: true, num: "1", m: maps}
			st := append([]string{}, stackA...)
			if dup {
				st = append([]string{stackA[0], stackA[0]}, stackA[1:]...)
			}
			blk := func(i int, lines [][]string, same bool) {
				td.blocks = append(td.blocks, c14TblockT{id: c14Hx(0x7f794ab90940 + uint64(i)*0x1000), name: "t" + strconv.Itoa(i), tid: strconv.Itoa(14748 + i), same: same, lines: lines})
			}
			for i := 0; i < runLen; i++ {
				blk(i, [][]string{st[:2], st[2:]}, false)
				if i == 0 {
					blk(100, nil, true)
				}
			}
			blk(50, [][]string{stackB}, false)
			blk(51, [][]string{st}, false)
			emit("thread-runs", "doc", "thread", td.term(), []byte(c14JoinLines(td.lines(0))), nil, false, true, tag, fmt.Sprintf("runs:dup%v", dup))
		}
	}
}
