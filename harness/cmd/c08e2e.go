//go:build verif

package main

// C08, end-to-end layer: the property is observed where a user observes it -- on what the real entry
// points print -- and not only on the core functions behind export shims.
//
//	e2e-cli     : driver.PProf with a FlagSet built from a generated command line (real parseFlags /
//	              installConfigFlags, Fetcher plug-in, merge, symbolize stub, filters, report), the
//	              report captured through -output and a plugin.Writer; the SAME command line is run
//	              several times in the process; observable = number of distinct outcomes and whether
//	              the command line was accepted.
//	e2e-session : one real interactive session (driver.interactive through c10Session): option
//	              assignments and commands, every command repeated; observable = per line the hash of
//	              everything the report produced.
//	e2e-web     : the real web handlers (serveWebInterface via driver.VerifWeb, httptest): a list of
//	              requests with repetitions; observable = per request status and body hash.
//
// The glue semantics these streams are judged with is modelled in coq/M_Glue08.v.

import (
	"bytes"
	"fmt"
	"net/url"
	"os"
	"path/filepath"
	"strings"
	"time"

	idriver "github.com/google/pprof/internal/driver"
	"github.com/google/pprof/internal/plugin"
	"github.com/google/pprof/internal/transport"
	"github.com/google/pprof/profile"
)

// c08E2EEnv confines a run to the scratch cwd and captures stdout (reports without -output).
func c08E2EEnv() func() {
	dir, _ := filepath.Abs("c08cfg")
	os.MkdirAll(dir, 0o700)
	os.Setenv("XDG_CONFIG_HOME", dir)
	os.Setenv("PPROF_TMPDIR", dir)
	os.Setenv("HOME", dir)
	os.Unsetenv("PPROF_BINARY_PATH")
	f, err := os.CreateTemp(".", "c08stdout")
	if err != nil {
		panic(err)
	}
	realStdout, prev := os.Stdout, c10Stdout
	c10Stdout, os.Stdout = f, f
	saved := idriver.VerifCurrentConfig()
	return func() {
		idriver.VerifSetCurrentConfig(saved)
		os.Stdout, c10Stdout = realStdout, prev
		f.Close()
		os.Remove(f.Name())
		os.RemoveAll(dir)
	}
}

// c08E2EProfile: main -> {work, helper}; every function has samples on two lines / addresses (so that
// granularities aggregate differently), values with ties and (style 1) negative values, string and
// numeric tags (one numeric tag with a unit), an empty stack in style 2, names needing escaping.
func c08E2EProfile(r *Rng, style int) *profile.Profile {
	p := &profile.Profile{SampleType: []*profile.ValueType{{Type: "samples", Unit: "count"}, {Type: "cpu", Unit: "milliseconds"}},
		PeriodType: &profile.ValueType{Type: "cpu", Unit: "milliseconds"}, Period: 10, DurationNanos: 1e9}
	m := &profile.Mapping{ID: 1, Start: 0x1000, Limit: 0x9000, File: "/bin/demo", HasFunctions: true, HasFilenames: true, HasLineNumbers: true}
	p.Mapping = []*profile.Mapping{m}
	names := []string{"main", "work", "helper", "leafA", "leafB"}
	if style == 2 {
		names = []string{"main", "a+b", "op%41", "leafA", "x<y>"}
	}
	var fns []*profile.Function
	for i, n := range names {
		f := &profile.Function{ID: uint64(i + 1), Name: n, SystemName: n, Filename: []string{"demo.go", "util.go"}[i%2], StartLine: int64(1 + i)}
		fns = append(fns, f)
	}
	p.Function = fns
	loc := func(f *profile.Function, line int64) *profile.Location {
		l := &profile.Location{ID: uint64(len(p.Location) + 1), Mapping: m, Address: 0x1000 + uint64(len(p.Location)+1)*0x10,
			Line: []profile.Line{{Function: f, Line: line}}}
		p.Location = append(p.Location, l)
		return l
	}
	mainL := loc(fns[0], 5)
	var mids, leaves []*profile.Location
	for _, f := range fns[1:3] {
		mids = append(mids, loc(f, 10), loc(f, 20))
	}
	for _, f := range fns[3:] {
		leaves = append(leaves, loc(f, 30), loc(f, 31))
	}
	vals := []int64{10, 20, 30, 30, 40, 60}
	n := 5 + r.Intn(4)
	for i := 0; i < n; i++ {
		v := PickI(r, vals)
		if style == 1 && i%3 == 1 {
			v = -v
		}
		st := []*profile.Location{mids[r.Intn(len(mids))], mainL}
		if r.P(2, 3) {
			st = append([]*profile.Location{leaves[r.Intn(len(leaves))]}, st...)
		}
		s := &profile.Sample{Location: st, Value: []int64{v, v * 10}}
		if i%2 == 0 {
			s.Label = map[string][]string{"k": {PickS(r, []string{"v", "w"})}}
		}
		if i%3 == 0 {
			s.NumLabel = map[string][]int64{"bytes": {int64(1024 * (1 + r.Intn(3)))}}
			s.NumUnit = map[string][]string{"bytes": {"bytes"}}
		}
		p.Sample = append(p.Sample, s)
	}
	if style == 2 {
		p.Sample = append(p.Sample, &profile.Sample{Value: []int64{5, 50}})
	}
	return p
}

// the fixed profile of the READMEs: main -> work (lines 10 and 20, 60 + 40), main -> leafA (30), leafB (10)
func c08E2EFixedProfile() *profile.Profile {
	p := c08E2EProfile(NewRng(99), 0)
	p.Sample = nil
	add := func(v int64, locs ...int) {
		var st []*profile.Location
		for _, i := range locs {
			st = append(st, p.Location[i])
		}
		p.Sample = append(p.Sample, &profile.Sample{Location: st, Value: []int64{v, v * 10}, Label: map[string][]string{"k": {"v"}}})
	}
	add(60, 1, 0)    // work:10 <- main
	add(40, 2, 0)    // work:20 <- main
	add(30, 5, 3, 0) // leafA:30 <- helper:10 <- main
	add(10, 7, 4, 0) // leafB:30 <- helper:20 <- main
	return p
}

func c08E2EBytes(p *profile.Profile) []byte {
	var b bytes.Buffer
	p.Write(&b)
	return b.Bytes()
}

// ---------------------------------------------------------------------------------- e2e-cli

type c08E2EUI struct{ errs []string }

func (u *c08E2EUI) ReadLine(string) (string, error) { return "", fmt.Errorf("EOF") }
func (u *c08E2EUI) Print(...interface{})            {}
func (u *c08E2EUI) PrintErr(a ...interface{}) {
	if m := fmt.Sprint(a...); !strings.HasPrefix(m, "Generating report in ") {
		u.errs = append(u.errs, m)
	}
}
func (u *c08E2EUI) IsTerminal() bool                  { return false }
func (u *c08E2EUI) WantBrowser() bool                 { return false }
func (u *c08E2EUI) SetAutoComplete(func(string) string) {}

// c08E2ERunCLI runs `pprof <args> p` once through driver.PProf and returns "err" or the bytes written.
func c08E2ERunCLI(data []byte, args []string) (out string) {
	return c08E2ERunCLIWith(data, args, &c09Obj{}, c09Sym{})
}

// c08E2ERunCLIWith: sym == nil lets the driver install the REAL symbolizer over the given object tool
func c08E2ERunCLIWith(data []byte, args []string, obj plugin.ObjTool, sym plugin.Symbolizer) (out string) {
	restore := idriver.VerifGlobals()
	defer restore()
	defer func() {
		if e := recover(); e != nil {
			out = "panic: " + fmt.Sprint(e)
		}
	}()
	ui := &c08E2EUI{}
	mw := &c10MemWriter{}
	off := c10StdoutOffset()
	o := &plugin.Options{UI: ui, Obj: obj, Writer: mw, Flagset: newC09Flags(append(append([]string{}, args...), "p")),
		Fetch: c09Fetch{data}, HTTPTransport: transport.New(nil)}
	if sym != nil {
		o.Sym = sym
	}
	done := make(chan error, 1)
	go func() {
		defer func() {
			if e := recover(); e != nil {
				done <- fmt.Errorf("panic: %v", e)
			}
		}()
		done <- idriver.PProf(o)
	}()
	select {
	case err := <-done:
		if err != nil {
			return "err"
		}
	case <-time.After(20 * time.Second):
		return "hang"
	}
	return "ok:" + c10StdoutSince(off) + mw.drain() + "\x00ui:" + strings.Join(ui.errs, "\x00")
}

var c08E2EFormats = []string{"top", "tree", "traces", "dot", "raw", "tags", "topproto", "callgrind", "peek=work|leaf", "text"}
var c08E2EChoiceFlags = []string{"functions", "filefunctions", "files", "lines", "addresses", "flat", "cum"}
// call_tree is left out of both pools: with -dot / -callgrind it runs into the recorded finding F19 (covered,
// with its class predicate, by the det stream)
var c08E2EOptFlags = []string{"focus=leafA", "ignore=leafB", "hide=helper", "show=work|main|leaf", "show_from=work|helper", "tagfocus=k=v", "tagignore=k=w",
	"tagroot=k", "tagleaf=k", "nodecount=3", "nodefraction=0.2", "sample_index=cpu", "sample_index=0", "mean", "relative_percentages", "drop_negative",
	"compact_labels", "noinlines", "divide_by=2", "unit=seconds", "trim=false", "prune_from=leafA", "showcolumns"}

func c08E2ECLI(c *Ctx) {
	r := c.R
	reps := c.Budget(10, 24)
	unstable := 0
	run := func(gen string, p *profile.Profile, args []string) {
		data := c08E2EBytes(p)
		n, first, _ := distinct(reps, func() string { return c08E2ERunCLI(data, args) })
		kind := first
		if strings.HasPrefix(first, "ok:") {
			kind = "ok"
		}
		if n > 1 {
			unstable++
		}
		c.Case(gen, L(S("e2e-cli"), Ss(args), DumpProfile(p)), L(ZI(n), S(kind)), len(args) >= 3, "e2e-cli", "e2e-cli:"+kind)
	}
	fixed := c08E2EFixedProfile()
	// decisive shapes, always generated: every pair of flags of one multi-choice group, for two formats
	groups := [][]string{{"functions", "filefunctions", "files", "lines", "addresses"}, {"flat", "cum"}}
	for _, g := range groups {
		for i := 0; i < len(g); i++ {
			for j := i + 1; j < len(g); j++ {
				for _, f := range []string{"top", "traces"} {
					run("e2e-cli-conflict", fixed, []string{"-" + f, "-" + g[i], "-" + g[j], "-output=rep"})
				}
			}
		}
	}
	run("e2e-cli-conflict", fixed, []string{"-top", "-tree", "-output=rep"})
	for _, f := range c08E2EFormats {
		run("e2e-cli-single", fixed, []string{"-" + f, "-output=rep"})
		run("e2e-cli-single", fixed, []string{"-" + f, "-lines", "-cum", "-focus=leafA|work", "-output=rep"})
	}
	// random option combinations (0..2 choice flags, 0..3 other options)
	for k := c.Budget(40, 600); k > 0; k-- {
		p := c08E2EProfile(r, k%3)
		args := []string{"-" + PickS(r, c08E2EFormats)}
		for i := r.Intn(3); i > 0; i-- {
			args = append(args, "-"+PickS(r, c08E2EChoiceFlags))
		}
		for i := r.Intn(4); i > 0; i-- {
			args = append(args, "-"+PickS(r, c08E2EOptFlags))
		}
		args = append(args, "-output=rep")
		run("e2e-cli", p, args)
	}
	c.Extra["e2e_cli_unstable"] = unstable
}

// ---------------------------------------------------------------------------------- e2e-session

var c08E2ESessCmds = []string{"top", "top 3", "tree", "peek leafA", "traces", "tags", "raw", "dot", "topproto", "proto", "text -cum", "callgrind"}
var c08E2ESessOpts = []string{"focus=leafA", "focus=", "ignore=leafB", "hide=helper", "show=work|main", "tagfocus=k=v", "tagroot=k", "tagleaf=k", "tagroot=",
	"divide_by=2", "divide_by=1", "relative_percentages=true", "relative_percentages=false", "nodecount=2", "sample_index=cpu", "sample_index=samples",
	"granularity=lines", "granularity=functions", "sort=cum", "mean=true", "drop_negative=true", "prune_from=leafA", "show_from=helper", "unit=seconds"}

func c08E2ESession(c *Ctx) {
	r := c.R
	unstable := 0
	run := func(gen string, p *profile.Profile, lines []string) {
		q := c10ParseBack(p)
		ref := Render(DumpProfile(q))
		ui := c10Session(q, ref, idriver.VerifDefaultConfig(), lines)
		var obs []Term
		reports := 0
		for i := range lines {
			var hs []Term
			if i < len(ui.ev) {
				for _, e := range ui.ev[i] {
					if e.kind == "r" {
						hs = append(hs, S(e.hash))
					}
				}
			}
			reports += len(hs)
			obs = append(obs, L(hs...))
		}
		c.Case(gen, L(S("e2e-session"), Ss(lines), DumpProfile(p)), L(obs...), reports >= 2, "e2e-session")
		_ = unstable
	}
	fixed := c08E2EFixedProfile()
	// decisive shapes, always generated: an option, then every command twice in a row
	for _, opt := range []string{"focus=leafA", "tagroot=k", "tagleaf=k", "divide_by=2", "hide=helper", "tagfocus=k=v", "show_from=helper", "granularity=lines"} {
		var lines []string
		lines = append(lines, opt)
		for _, cmd := range []string{"top", "tree", "peek leafA", "traces", "proto", "topproto", "tags", "raw"} {
			lines = append(lines, cmd+" >out", cmd+" >out")
		}
		run("e2e-session-repeat", fixed, lines)
	}
	for k := c.Budget(24, 300); k > 0; k-- {
		p := c08E2EProfile(r, k%3)
		var lines []string
		for i, n := 0, 4+r.Intn(8); i < n; i++ {
			switch r.Intn(5) {
			case 0, 1:
				lines = append(lines, PickS(r, c08E2ESessOpts))
			default:
				cmd := PickS(r, c08E2ESessCmds) + " >out"
				lines = append(lines, cmd)
				for r.P(1, 2) {
					lines = append(lines, cmd)
				}
			}
		}
		run("e2e-session", p, lines)
	}
}

// ---------------------------------------------------------------------------------- e2e-web

func c08E2EWeb(c *Ctx) {
	r := c.R
	paths := []string{"/top", "/", "/peek", "/flamegraph", "/source", "/disasm"}
	queries := []string{"", "f=leafA", "f=leafA&rel=t", "i=leafB&g=lines", "h=helper", "si=cpu", "g=lines&sort=cum", "tf=k%3Dv", "f=a%2Bb", "f=op%2541", "n=2", "calltree=t", "mean=t", "s=work%7Cmain"}
	run := func(gen string, p *profile.Profile, reqs []string) {
		restoreG := idriver.VerifGlobals()
		defer restoreG()
		idriver.VerifSetCurrentConfig(idriver.VerifDefaultConfig())
		o := idriver.VerifSetDefaults(&plugin.Options{UI: c10NullUI{}, Writer: &c10MemWriter{}, Obj: &c09Obj{}, Sym: c09Sym{}, HTTPTransport: transport.New(nil)})
		q := c10ParseBack(p)
		h, err := idriver.VerifWeb(q, o)
		if err != nil {
			return
		}
		var obs []Term
		for _, rq := range reqs {
			path, rawq := rq, ""
			if i := strings.Index(rq, "?"); i >= 0 {
				path, rawq = rq[:i], rq[i+1:]
			}
			vals, _ := url.ParseQuery(rawq)
			code, hash := c10Do(h, c10Req{path, vals})
			obs = append(obs, L(ZI(code), S(hash)))
		}
		c.Case(gen, L(S("e2e-web"), Ss(reqs), DumpProfile(p)), L(obs...), len(reqs) >= 2, "e2e-web")
	}
	fixed := c08E2EFixedProfile()
	var all []string
	for _, pa := range paths {
		for _, q := range []string{"", "f=leafA", "g=lines&sort=cum"} {
			rq := pa + "?" + q
			all = append(all, rq, rq)
		}
	}
	run("e2e-web-repeat", fixed, append(all, all...))
	// a profile whose numeric tags were recorded with conflicting units (two tags): the pages carry the warnings
	{
		p := c08E2EFixedProfile()
		for i, s := range p.Sample {
			s.NumLabel = map[string][]int64{"lat": {int64(5 + i)}, "size": {int64(7 + i)}}
			s.NumUnit = map[string][]string{"lat": {[]string{"ms", "us"}[i%2]}, "size": {[]string{"kb", "bytes"}[i%2]}}
		}
		run("e2e-web-units", p, []string{"/top?", "/top?", "/top?", "/top?", "/?", "/?", "/?", "/?", "/flamegraph?", "/flamegraph?", "/flamegraph?", "/flamegraph?"})
	}
	for k := c.Budget(12, 150); k > 0; k-- {
		p := c08E2EProfile(r, k%3)
		var reqs []string
		for i, n := 0, 3+r.Intn(5); i < n; i++ {
			rq := PickS(r, paths) + "?" + PickS(r, queries)
			reqs = append(reqs, rq)
			if r.Bool() {
				reqs = append(reqs, rq)
			}
		}
		reqs = append(reqs, reqs[0])
		run("e2e-web", p, reqs)
	}
}

func c08E2E(c *Ctx) {
	t0 := time.Now()
	restore := c08E2EEnv()
	defer restore()
	c08E2ECLI(c)
	c08E2ENumLabels(c)
	c08E2ELegacy(c)
	c08E2ESym(c)
	c08E2ESession(c)
	c08E2EWeb(c)
	c.Extra["e2e_wall_ms"] = time.Since(t0).Milliseconds()
}
