//go:build verif

package main

import (
	"fmt"
	"net/url"
	"os"
	"path/filepath"
	"strings"
	"time"

	"github.com/google/pprof/internal/driver"
	"github.com/google/pprof/internal/plugin"
	"github.com/google/pprof/internal/symbolizer"
	"github.com/google/pprof/internal/symbolz"
	"github.com/google/pprof/profile"
	"github.com/ianlancetaylor/demangle"
)

// ---------------------------------------------------------------------------------------------
// op "fetch": the driver's pipeline around symbolization (fetchProfiles: grabProfile with
// locateBinaries and collectMappingSources, Symbolize, RemoveUninteresting, unsourceMappings,
// CheckValid) for one profile handed over by a fetcher plug-in that reports a source URL.
// The object tool finds no binary while the profile is grabbed; the answer script starts when the
// real Symbolizer is entered.

type c12Fetcher struct {
	p   *profile.Profile
	src string
}

func (f *c12Fetcher) Fetch(string, time.Duration, time.Duration) (*profile.Profile, string, error) {
	return f.p, f.src, nil
}

// c12GatedTool answers "no such binary" until the symbolizer runs.
type c12GatedTool struct {
	inner *c12Tool
	live  *bool
}

func (t *c12GatedTool) Open(file string, start, limit, offset uint64, reloc string) (plugin.ObjFile, error) {
	if !*t.live {
		return nil, errC12
	}
	return t.inner.Open(file, start, limit, offset, reloc)
}
func (t *c12GatedTool) Disasm(string, uint64, uint64, bool) ([]plugin.Inst, error) { return nil, errC12 }

// c12GateSym opens the gate around the real Symbolizer.
type c12GateSym struct {
	inner *symbolizer.Symbolizer
	live  *bool
}

func (s *c12GateSym) Symbolize(mode string, srcs plugin.MappingSources, p *profile.Profile) error {
	*s.live = true
	defer func() { *s.live = false }()
	return s.inner.Symbolize(mode, srcs, p)
}

// c12SavedCopyAgrees: the copy of a remotely fetched profile that fetchProfiles saves under
// $PPROF_TMPDIR has the mappings (ids, ranges, files, build ids, flags) of the profile it returns.
func c12SavedCopyAgrees(res *profile.Profile) bool {
	tmp := os.Getenv("PPROF_TMPDIR")
	saved, _ := filepath.Glob(filepath.Join(tmp, "pprof.*.pb.gz"))
	ok := true
	for _, name := range saved {
		f, err := os.Open(name)
		if err != nil {
			return false
		}
		q, err := profile.Parse(f)
		f.Close()
		os.Remove(name)
		if err != nil || len(q.Mapping) != len(res.Mapping) {
			ok = false
			continue
		}
		for i, m := range q.Mapping {
			w := res.Mapping[i]
			if m.ID != w.ID || m.Start != w.Start || m.Limit != w.Limit || m.Offset != w.Offset || m.File != w.File ||
				m.BuildID != w.BuildID || m.HasFunctions != w.HasFunctions || m.HasFilenames != w.HasFilenames ||
				m.HasLineNumbers != w.HasLineNumbers || m.HasInlineFrames != w.HasInlineFrames {
				ok = false
			}
		}
	}
	return ok
}

// c12CleanSaved removes saved copies left by earlier runs (fetchProfiles saves before its final
// CheckValid, so a refused profile leaves one behind).
func c12CleanSaved() {
	saved, _ := filepath.Glob(filepath.Join(os.Getenv("PPROF_TMPDIR"), "pprof.*"))
	for _, n := range saved {
		os.Remove(n)
	}
}

func c12AbsURL(f string) bool {
	if filepath.VolumeName(f) != "" {
		return false
	}
	u, err := url.Parse(f)
	return err == nil && u.IsAbs()
}

var c12FetchSources = []string{"http://pproftest.local/debug/pprof/profile", "http://pproftest.local:8080/pprof/heap",
	"http://host:8080/debug/pprof/profile?seconds=3", "https://h.example/x/y", "http://host/pprof/growth", ""}

var c12FetchModes = []string{"none", "no", "NONE", "No", "", "local", "fastlocal", "remote", "force", "local:force",
	"remote:force", "demangle=none", "demangle=full", "local:none", "none:local", "bogus", "local:demangle=templates"}

// mapping files of fetched profiles: mostly plain paths or nothing; URL-like ones are the F34 class
var c12FetchFiles = []string{"", "", "", "/bin/app", "/bin/app", "/lib/libc.so.6", "[vdso]", "//anon", "app/", "dir/[x]",
	"/dev/dri/card0", "linux-vdso.so.1", "/a b/c", "C:\\win\\app.exe", "x:y"}

func c12Fetch(c *Ctx, gen, mode, src string, p *profile.Profile, script []c12Answer) {
	if p.CheckValid() != nil {
		return
	}
	before := DumpProfile(p)
	names := map[string]bool{}
	files := map[string]bool{src: true}
	for _, f := range p.Function {
		names[f.SystemName] = true
	}
	for _, m := range p.Mapping {
		files[m.File] = true
	}
	for _, a := range script {
		for _, f := range a.Frames {
			names[f.Func] = true
		}
	}
	c12CleanSaved()
	live := false
	sc := &c12Script{ans: script}
	o := &plugin.Options{
		Fetch:         &c12Fetcher{p, src},
		Obj:           &c12GatedTool{&c12Tool{sc}, &live},
		UI:            c12UI{},
		HTTPTransport: &c12RT{sc},
		Sym:           &c12GateSym{&symbolizer.Symbolizer{Obj: &c12Tool{sc}, UI: c12UI{}, Transport: &c12RT{sc}}, &live},
	}
	var obs Term
	var res *profile.Profile
	var ferr error
	func() {
		defer func() {
			if e := recover(); e != nil {
				obs = L(S("panic"), S(fmt.Sprint(e)))
			}
		}()
		res, ferr = driver.VerifC12FetchProfiles([]string{"the-source"}, mode, o)
	}()
	changed := false
	switch {
	case obs != nil:
	case ferr != nil || res == nil:
		obs = L(S("err"), L(sc.log...))
	default:
		after := DumpProfile(res)
		changed = Render(after) != Render(before)
		obs = L(S("ok"), after, L(sc.log...), Bool(c12SavedCopyAgrees(res)), Bool(res.CheckValid() == nil))
		for _, f := range res.Function {
			names[f.SystemName] = true
		}
		for _, m := range res.Mapping {
			files[m.File] = true
		}
	}
	var symzT, httpT, absT, filtT []Term
	if z := symbolz.VerifC12Symbolz(src); z != "" {
		symzT = append(symzT, L(S(src), S(z)))
	}
	for _, f := range c12SortedKeys(files) {
		if c12IsHTTP(f) {
			httpT = append(httpT, L(S(f), Bool(true)))
		}
		if c12AbsURL(f) {
			absT = append(absT, L(S(f), Bool(true)))
		}
	}
	for _, dm := range []string{"", "templates", "full"} {
		var tab []Term
		for _, n := range c12SortedKeys(names) {
			cands := []string{n}
			if strings.HasPrefix(n, "_") {
				cands = append(cands, n[1:])
			}
			for _, s := range cands {
				if d := demangle.Filter(s, symbolizer.VerifC12Options(dm)...); d != s {
					tab = append(tab, L(S(s), S(d)))
				}
			}
		}
		filtT = append(filtT, L(S(dm), L(tab...)))
	}
	in := L(S("fetch"), S(mode), before, c12DumpScript(script), L(), L(symzT...), L(httpT...), L(filtT...), S(src), L(absT...))
	tags := []string{"fetch-mode:" + strings.ToLower(mode)}
	if src == "" {
		tags = append(tags, "fetch-local")
	} else {
		tags = append(tags, "fetch-remote")
	}
	if ferr != nil {
		tags = append(tags, "fetch-error")
	}
	if changed {
		tags = append(tags, "fetch-changed")
	}
	c.Case(gen, in, obs, true, tags...)
}

// c12FetchProfile: a fetched profile: mappings often have neither file nor build id (legacy Go
// profiles, JIT regions), sometimes there is no mapping at all (the fake mapping is then added).
func c12FetchProfile(r *Rng, wrapIDs bool) *profile.Profile {
	p := c12Profile(r, wrapIDs)
	p.DropFrames, p.KeepFrames = "", "" // RemoveUninteresting is C11's; kept out of this pipeline
	// combineProfiles (CompatibilizeSampleTypes) is C07/C16's: sample type names are kept distinct so
	// that it is the identity on a single profile
	for i, st := range p.SampleType {
		st.Type = fmt.Sprintf("%s%d", st.Type, i)
	}
	p.DefaultSampleType = ""
	if len(p.SampleType) > 0 && r.Bool() {
		p.DefaultSampleType = p.SampleType[r.Intn(len(p.SampleType))].Type
	}
	for _, m := range p.Mapping {
		m.File = PickS(r, c12FetchFiles)
		switch r.Intn(3) {
		case 0:
			m.BuildID = ""
		case 1:
			m.BuildID = PickS(r, []string{"", "abc123", "ff00"})
		}
	}
	if r.P(1, 8) {
		p.Mapping = nil
		for _, l := range p.Location {
			l.Mapping = nil
		}
	}
	return p
}

func runC12Fetch(c *Ctx) {
	r := c.R
	tmp, _ := filepath.Abs("c12tmp")
	os.Setenv("PPROF_TMPDIR", tmp)
	os.Setenv("PPROF_BINARY_PATH", filepath.Join(tmp, "no-binaries"))
	defer os.RemoveAll(tmp)
	for k := 0; k < c.Budget(200, 2500); k++ {
		p := c12FetchProfile(r, false)
		src := PickS(r, c12FetchSources)
		mode := PickS(r, c12FetchModes)
		if r.P(1, 3) {
			mode = PickS(r, []string{"none", "no", "local"})
		}
		rate := 1000
		if r.P(1, 3) {
			rate = 8
		}
		c12Fetch(c, "fetch", mode, src, p, c12ScriptGen(r, p, plugin.MappingSources{}, rate))
	}
	// function ids right below 2^64 with mappings that still need symbols: the next id wraps to the
	// reserved 0 (or collides), symbolization leaves an invalid profile and fetchProfiles must refuse it
	for k := 0; k < c.Budget(40, 600); k++ {
		p := c12FetchProfile(r, true)
		for _, m := range p.Mapping {
			if r.P(3, 4) {
				m.HasFunctions, m.HasFilenames, m.HasLineNumbers = false, false, false
				m.File = PickS(r, []string{"/bin/app", "/bin/app", ""})
			}
		}
		src := PickS(r, c12FetchSources)
		mode := PickS(r, []string{"", "local", "remote", "force", "remote:force", "local:force", "fastlocal"})
		c12Fetch(c, "fetch-id-wrap", mode, src, p, c12ScriptGen(r, p, plugin.MappingSources{}, 1000))
	}
	runC12DropShapes(c)
	runC12FetchX(c)
	// the witness of F34: a local profile whose mapping file looks like an absolute URL, -symbolize=none
	{
		p := &profile.Profile{SampleType: []*profile.ValueType{{Type: "samples", Unit: "count"}}}
		m := &profile.Mapping{ID: 1, Start: 0x1000, Limit: 0x2000, File: "x:y"}
		l := &profile.Location{ID: 1, Mapping: m, Address: 0x1100}
		p.Mapping, p.Location = []*profile.Mapping{m}, []*profile.Location{l}
		p.Sample = []*profile.Sample{{Location: []*profile.Location{l}, Value: []int64{1}}}
		c12Fetch(c, "finding-F34", "none", "", p, nil)
	}
}

// ---------------------------------------------------------------------------------------------
// op "fetchx": fetchProfiles with a third-party plugin.Symbolizer (driver.Options.Sym) that leaves the
// profile in a scripted, possibly inconsistent state.  What it left (dump, error, Go's CheckValid
// verdict at its exit) is recorded and shipped as the plug-in's answer.

type c12BadSym struct {
	kind  int
	r     *Rng
	left  Term
	err   bool
	valid bool
	ran   bool
}

var errC12Plugin = fmt.Errorf("plug-in failure")

func (s *c12BadSym) Symbolize(mode string, srcs plugin.MappingSources, p *profile.Profile) error {
	s.ran = true
	var maxID uint64
	for _, f := range p.Function {
		if f.ID > maxID {
			maxID = f.ID
		}
	}
	loc := func() *profile.Location {
		if len(p.Location) == 0 {
			return nil
		}
		return p.Location[s.r.Intn(len(p.Location))]
	}
	reg := &profile.Function{ID: maxID + 1, Name: "plug", SystemName: "plug", Filename: "p.c"}
	switch s.kind {
	case 0: // well-behaved: registers the function it attaches
		if l := loc(); l != nil && maxID < 1<<63 {
			p.Function = append(p.Function, reg)
			l.Line = []profile.Line{{Function: reg, Line: 3}}
		}
	case 1: // attaches a function it never registered (fresh id)
		if l := loc(); l != nil {
			l.Line = append(l.Line, profile.Line{Function: &profile.Function{ID: maxID + 7, Name: "ghost", SystemName: "ghost"}, Line: 1})
		}
	case 2: // attaches an unregistered copy of a registered function (same id, other object)
		if l := loc(); l != nil && len(p.Function) > 0 {
			f := *p.Function[s.r.Intn(len(p.Function))]
			l.Line = append(l.Line, profile.Line{Function: &f, Line: 1})
		}
	case 3: // registers a function under the reserved id 0
		p.Function = append(p.Function, &profile.Function{ID: 0, Name: "zero", SystemName: "zero"})
	case 4: // reuses an id
		if len(p.Function) > 0 {
			p.Function = append(p.Function, &profile.Function{ID: p.Function[s.r.Intn(len(p.Function))].ID, Name: "dup", SystemName: "dup"})
		}
	case 5: // a line without a function
		if l := loc(); l != nil {
			l.Line = append(l.Line, profile.Line{Line: 9})
		}
	case 6: // moves a location into a mapping that is not in the table
		if l := loc(); l != nil {
			l.Mapping = &profile.Mapping{ID: 1<<40 + 3, Start: 1, Limit: 2}
		}
	case 7: // changes the number of values of a sample
		if len(p.Sample) > 0 {
			sm := p.Sample[s.r.Intn(len(p.Sample))]
			sm.Value = append(sm.Value, 1)
		}
	case 8: // duplicates a location id
		if l := loc(); l != nil {
			p.Location = append(p.Location, &profile.Location{ID: l.ID, Address: 5})
		}
	case 9: // corrupts and reports an error
		p.Function = append(p.Function, &profile.Function{ID: 0})
		s.err = true
	}
	s.left = DumpProfile(p)
	s.valid = p.CheckValid() == nil
	if s.err {
		return errC12Plugin
	}
	return nil
}

func c12FetchX(c *Ctx, kind int, mode, src string, p *profile.Profile) {
	if p.CheckValid() != nil {
		return
	}
	before := DumpProfile(p)
	files := map[string]bool{src: true}
	for _, m := range p.Mapping {
		files[m.File] = true
	}
	c12CleanSaved()
	bad := &c12BadSym{kind: kind, r: c.R}
	live := false
	sc := &c12Script{}
	o := &plugin.Options{Fetch: &c12Fetcher{p, src}, Obj: &c12GatedTool{&c12Tool{sc}, &live}, UI: c12UI{}, HTTPTransport: &c12RT{sc}, Sym: bad}
	var obs Term
	var res *profile.Profile
	var ferr error
	func() {
		defer func() {
			if e := recover(); e != nil {
				obs = L(S("panic"), S(fmt.Sprint(e)))
			}
		}()
		res, ferr = driver.VerifC12FetchProfiles([]string{"the-source"}, mode, o)
	}()
	switch {
	case obs != nil:
	case ferr != nil || res == nil:
		obs = L(S("err"))
	default:
		obs = L(S("ok"), DumpProfile(res), Bool(res.CheckValid() == nil))
		for _, m := range res.Mapping {
			files[m.File] = true
		}
		c12SavedCopyAgrees(res) // removes the saved copy
	}
	if !bad.ran {
		// the pipeline never entered the plug-in (not the case on the code as it is): answer = untouched
		bad.left, bad.valid = before, true
	}
	var absT []Term
	for _, f := range c12SortedKeys(files) {
		if c12AbsURL(f) {
			absT = append(absT, L(S(f), Bool(true)))
		}
	}
	in := L(S("fetchx"), S(mode), before, L(bad.left, Bool(bad.err), Bool(bad.valid)), S(src), L(absT...))
	c.Case("fetch-plugin", in, obs, kind != 0, fmt.Sprintf("plugin-kind:%d", kind))
}

func runC12FetchX(c *Ctx) {
	r := c.R
	for k := 0; k < c.Budget(80, 1000); k++ {
		p := c12FetchProfile(r, false)
		c12FetchX(c, k%10, PickS(r, c12FetchModes), PickS(r, c12FetchSources), p)
	}
}
