//go:build verif

package main

// C16, round 5: the header side of the merge -- what combineProfiles' helpers decide from ALL fetched
// sources: the common unit of the sample type (measurement.CommonValueType via ScaleProfiles: the
// finest unit among the merged profiles, values rescaled to it) and the default sample type
// (profile.combineHeaders: the first non-empty one in command-line order).  Both must depend on the
// successfully fetched sources only, not on chunking, completion order or the failing ones.
// Deterministic shapes: three and four different time units in every order (also by alias), equal
// units, failing sources before / between / after, bases in other units, the 128-source boundary;
// default sample type on the first / a later / no / every source, likewise around failures and the
// boundary.  Each shape runs through grabSourcesAndBases and through fetchProfiles.

import "fmt"

// c16UnitCode: 0 = no time unit, 1..4 = ns, us, ms, s (any spelling internal/measurement accepts)
func c16UnitCode(u string) int {
	switch u {
	case "nanoseconds", "nanosecond", "ns":
		return 1
	case "microseconds", "microsecond", "us":
		return 2
	case "milliseconds", "millisecond", "ms":
		return 3
	case "seconds", "second", "s":
		return 4
	}
	return 0
}

func (c *Ctx) c16HeaderStreams() {
	// values that are not multiples of the next coarser unit
	mk := func(i, grp int, unit, dst string, kind int) c16Src {
		own := fmt.Sprintf("h%d_%d", grp, i)
		return c16Src{kind: kind, typ: "samples", unit: unit, dst: dst,
			samples: []c16KV{{own, int64(1499 + i)}, {"tiny", 400 + int64(i)}, {"shared", 7}}}
	}
	emit := func(gen string, units, dsts []string, kinds []int, bunits []string, bkinds []int, rev bool) {
		for _, fetch := range []bool{false, true} {
			cs := c16Case{fetch: fetch}
			for i := range kinds {
				u, d := "", ""
				if units != nil {
					u = units[i%len(units)]
				}
				if dsts != nil {
					d = dsts[i%len(dsts)]
				}
				k := kinds[i]
				if fetch && k == kFetchRemote {
					k = kFetchOK
				}
				cs.srcs = append(cs.srcs, mk(i, 0, u, d, k))
			}
			for i := range bkinds {
				cs.bases = append(cs.bases, mk(i, 1, bunits[i%len(bunits)], "", bkinds[i]))
			}
			mode := 2 // command-line order
			if rev {
				mode = 1
			}
			cs.order = c16Order(c.R, len(cs.srcs), len(cs.bases), mode)
			c.c16Emit(gen, cs, "gen-header")
		}
	}
	ok, miss, garb := kFetchOK, kFileMissing, kFileGarbage
	perms3 := [][]string{{"milliseconds", "nanoseconds", "microseconds"}, {"milliseconds", "microseconds", "nanoseconds"},
		{"nanoseconds", "milliseconds", "microseconds"}, {"nanoseconds", "microseconds", "milliseconds"},
		{"microseconds", "nanoseconds", "milliseconds"}, {"microseconds", "milliseconds", "nanoseconds"}}
	for _, u := range perms3 {
		emit("header-units", u, nil, []int{ok, ok, ok}, nil, nil, false)
		emit("header-units", u, nil, []int{ok, ok, ok}, nil, nil, true)
		emit("header-units", u, nil, []int{ok, ok, miss}, nil, nil, false)       // 'a b missing'
		emit("header-units", u, nil, []int{miss, ok, garb, ok, ok}, nil, nil, true) // failures before and between
		emit("header-units", u, nil, []int{ok}, u, []int{ok, ok, ok}, false)      // bases in three units
	}
	emit("header-units", []string{"s", "ms", "ns", "us"}, nil, []int{ok, ok, ok, ok}, nil, nil, false) // aliases, four units
	emit("header-units", []string{"seconds", "us", "microseconds", "ms"}, nil, []int{ok, kFileOK, ok, kFetchTest}, nil, nil, true)
	emit("header-units", []string{"us", "us", "us"}, nil, []int{ok, ok, ok}, nil, nil, false) // all equal
	emit("header-units", []string{"ms", "ms", "ns"}, nil, []int{ok, ok, miss}, []string{"us"}, []int{ok}, false)
	// the chunk boundary: 128 coarse sources, then the finest, then an in-between one; and the reverse
	big := func(first, n int, a string, rest []string) []string {
		var l []string
		for i := 0; i < n; i++ {
			if i < first {
				l = append(l, a)
			} else {
				l = append(l, rest[(i-first)%len(rest)])
			}
		}
		return l
	}
	oks := func(n int) []int {
		l := make([]int, n)
		for i := range l {
			l[i] = ok
		}
		return l
	}
	emit("header-units", big(128, 130, "milliseconds", []string{"nanoseconds", "microseconds"}), nil, oks(130), nil, nil, false)
	emit("header-units", big(127, 130, "microseconds", []string{"milliseconds", "nanoseconds", "microseconds"}), nil, oks(130), nil, nil, true)
	// default sample type
	for _, d := range [][]string{{"", "samples"}, {"samples", ""}, {"", "", "samples"}, {"", "", ""}, {"samples", "samples"}} {
		emit("header-default", nil, d, oks(len(d)), nil, nil, false)
		emit("header-default", nil, d, oks(len(d)), nil, nil, true)
	}
	emit("header-default", nil, []string{"samples", "", "x", "samples"}, []int{miss, ok, garb, ok}, nil, nil, false) // 'missing heap garbage allocs'
	emit("header-default", nil, []string{"", "samples", "samples"}, []int{ok, ok, miss}, nil, nil, true)
	emit("header-default", nil, []string{"samples", ""}, []int{miss, ok}, nil, nil, false) // the only one naming a default failed
	emit("header-default", nil, []string{""}, []int{ok}, []string{""}, []int{ok}, false)
	emit("header-default", nil, big(128, 129, "", []string{"samples"}), oks(129), nil, nil, false) // 128 x heap, allocs
	emit("header-default", nil, big(1, 129, "samples", []string{""}), oks(129), nil, nil, true)
	// both at once
	emit("header-both", []string{"ms", "ns", "us"}, []string{"", "samples", ""}, []int{ok, ok, ok}, []string{"us", "ns"}, []int{ok, miss}, true)
}
