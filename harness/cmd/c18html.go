//go:build verif

package main

import (
	"fmt"
	"io"
	"net/http/httptest"
	"net/url"
	"os"
	"strings"

	"github.com/google/pprof/internal/driver"
	"github.com/google/pprof/internal/plugin"
	"github.com/google/pprof/profile"
)

// HTML views (partial: html/template and encoding/json are trusted).  Every profile string
// carries payload markers; a page served as text/html must not contain one of them raw:
//   "<zq"   -- an angle bracket of profile text reached the page (element injection, or a
//              "</script>" that ends a script block early)
//   `'"zq`  -- a quote pair of profile text reached the page unescaped (attribute / JS string)

type c18UI struct{}

func (c18UI) ReadLine(string) (string, error)      { return "", io.EOF }
func (c18UI) Print(...interface{})                 {}
func (c18UI) PrintErr(...interface{})              {}
func (c18UI) IsTerminal() bool                     { return false }
func (c18UI) WantBrowser() bool                    { return false }
func (c18UI) SetAutoComplete(func(string) string) {}

type c18Obj struct{}

func (c18Obj) Open(file string, start, limit, offset uint64, relocationSymbol string) (plugin.ObjFile, error) {
	return nil, fmt.Errorf("no object files in the harness")
}
func (c18Obj) Disasm(file string, start, end uint64, intelSyntax bool) ([]plugin.Inst, error) {
	return nil, fmt.Errorf("no disassembler in the harness")
}

func c18Payload(r *Rng, k int) string {
	base := PickS(r, []string{"f", "pkg.Run", "a::b", "main"})
	switch r.Intn(5) {
	case 0:
		return fmt.Sprintf("%s<zq%d>", base, k)
	case 1:
		return fmt.Sprintf("%s</script><zq%d>alert(1)", base, k)
	case 2:
		return fmt.Sprintf("%s'\"zq%d", base, k)
	case 3:
		return fmt.Sprintf("%s\"><zq%d>&amp;'\"zq%d", base, k, k)
	}
	return fmt.Sprintf("<zq%d>%s'\"zq%d</style><zq%d>", k, base, k, k)
}

func c18HTMLProfile(r *Rng) *profile.Profile {
	k := 0
	pl := func() string { k++; return c18Payload(r, k) }
	p := &profile.Profile{
		SampleType: []*profile.ValueType{{Type: "cpu" + pl(), Unit: PickS(r, []string{"ms", "count", pl()})}},
		Comments:   []string{pl()},
		DocURL:     "http://doc.example/" + pl(),
		TimeNanos:  1700000000000000000, DurationNanos: 1500000000,
	}
	m := &profile.Mapping{ID: 1, Start: 0x1000, Limit: 0x90000, File: "/bin/" + pl(), BuildID: pl()}
	p.Mapping = []*profile.Mapping{m}
	nf := 2 + r.Intn(3)
	for i := 0; i < nf; i++ {
		name := pl()
		p.Function = append(p.Function, &profile.Function{ID: uint64(i + 1), Name: name, SystemName: name, Filename: "/src/" + pl() + ".go", StartLine: 1})
	}
	for i := 0; i < nf+1; i++ {
		l := &profile.Location{ID: uint64(i + 1), Mapping: m, Address: 0x1000 + uint64(i)*0x100}
		l.Line = append(l.Line, profile.Line{Function: p.Function[i%nf], Line: int64(3 + i)})
		if r.P(1, 3) {
			l.Line = append(l.Line, profile.Line{Function: p.Function[(i+1)%nf], Line: int64(9 + i)})
		}
		p.Location = append(p.Location, l)
	}
	for i := 0; i < 3+r.Intn(3); i++ {
		s := &profile.Sample{Value: []int64{int64(10 + r.Intn(500))}}
		for d := 1 + r.Intn(3); d > 0; d-- {
			s.Location = append(s.Location, p.Location[r.Intn(len(p.Location))])
		}
		if r.Bool() {
			s.Label = map[string][]string{"k" + pl(): {pl()}}
		}
		if r.P(1, 3) {
			s.NumLabel = map[string][]int64{"bytes": {int64(r.Intn(4096))}}
			s.NumUnit = map[string][]string{"bytes": {PickS(r, []string{"bytes", pl()})}}
		}
		p.Sample = append(p.Sample, s)
	}
	return p
}

func c18HTMLCases(c *Ctx) {
	cwd, _ := os.Getwd()
	os.Setenv("XDG_CONFIG_HOME", cwd) // settings.json is looked up (never written) under the scratch dir
	os.Setenv("HOME", cwd)
	pages := []string{"/top", "/flamegraph", "/peek?f=.", "/source?f=.", "/top?si=cpu", "/flamegraph?tagroot=k", "/peek?f=zq", "/source?f=zq"}
	n := c.Budget(12, 120)
	for i := 0; i < n; i++ {
		p := c18HTMLProfile(c.R)
		hs, err := driver.VerifWebHandlers(p, c18UI{}, c18Obj{})
		if err != nil || hs == nil {
			c.Case("html", L(S("html"), S("setup"), ZI(i)), L(S("error"), S(fmt.Sprint(err))), false, "op:html")
			continue
		}
		for _, page := range pages {
			u, _ := url.Parse("http://localhost:1234" + page)
			h := hs[u.Path]
			obs, nt, status := func() (obs Term, nt bool, status int) {
				defer func() {
					if e := recover(); e != nil {
						obs = L(S("panic"), S(fmt.Sprint(e)))
					}
				}()
				rec := httptest.NewRecorder()
				h.ServeHTTP(rec, httptest.NewRequest("GET", u.String(), nil))
				body := rec.Body.String()
				ct := rec.Header().Get("Content-Type")
				if !strings.HasPrefix(ct, "text/html") {
					// not rendered as HTML by a browser (http.Error: text/plain + nosniff)
					return L(Z(0), Z(0)), false, rec.Code
				}
				return L(ZI(strings.Count(body, "<zq")), ZI(strings.Count(body, "'\"zq"))), strings.Contains(body, "zq"), rec.Code
			}()
			c.Case("html", L(S("html"), S(page), ZI(i)), obs, nt, "op:html", "page:"+u.Path, fmt.Sprintf("status:%d", status))
		}
	}
}
