//go:build verif

package main

import (
	"fmt"
	"strings"

	"github.com/google/pprof/internal/binutils"
)

// C13 op conv: a CONVERSATION with one symbolizer tool process -- many addresses asked of ONE
// addr2Liner (optionally with the nm table attached) or ONE llvmSymbolizer over one pipe. The tool
// is simulated in the shim (answers every request the way addr2line -aif / llvm-symbolizer
// --output-style=JSON do); what it knows is the table shipped in the case, keyed by LINK address.
//   conv kind base table syms hasNM addrs ↦ [ ["ok" [[func file line]...]] | ["err"] ... ] leftover
//     table = [[link [[func fileline line]...]] ...]   (addr2line prints func and fileline verbatim;
//                                                       llvm-symbolizer gets func, fileline as FileName, line)
// The model (coq/M_Elf.v a2l_conversation) keeps the pipe as state; the theorem conversation_paired
// says the pipe is empty after every request, so the k-th answer is the tool's answer for the k-th
// address minus base whatever was asked before: unknown addresses (??/??:0), inlined frames,
// half-known frames, repeated addresses, in any order.

type c13ToolEntry struct {
	link   uint64
	frames []binutils.VerifC13ToolFrame
}

func c13Conv(c *Ctx, gen, kind string, base uint64, table []c13ToolEntry, syms []c13Sym, hasNM bool, addrs []uint64, tags ...string) {
	tm := map[uint64][]binutils.VerifC13ToolFrame{}
	var tt []Term
	for _, e := range table {
		tm[e.link] = e.frames
		var fs []Term
		for _, f := range e.frames {
			fs = append(fs, L(S(f.Func), S(f.FileLine), ZI(f.Line)))
		}
		tt = append(tt, L(ZU(e.link), L(fs...)))
	}
	var st []Term
	var sb strings.Builder
	for _, s := range syms {
		fmt.Fprintf(&sb, "%s %s %x %x\n", s.name, s.typ, s.addr, s.size)
		st = append(st, L(ZU(s.addr), ZU(s.size), S(s.name), S(s.typ)))
	}
	in := L(S("conv"), S(kind), ZU(base), L(tt...), L(st...), Bool(hasNM), c13ZUs(addrs))
	obs := c13Guard(func() Term {
		out, errs, left := binutils.VerifC13Conversation(kind, base, tm, sb.String(), hasNM, addrs)
		var rs []Term
		for i := range out {
			if errs[i] != nil {
				rs = append(rs, L(S("err")))
				continue
			}
			var fs []Term
			for _, f := range out[i] {
				fs = append(fs, L(S(f.Func), S(f.FileLine), ZI(f.Line)))
			}
			rs = append(rs, L(S("ok"), L(fs...)))
		}
		return L(L(rs...), ZI(left))
	})
	c.Case(gen, in, obs, len(addrs) >= 2 && len(table) >= 2, append([]string{"op:conv", "conv:" + kind}, tags...)...)
}

var c13FileLines = []string{"main.c:12", "dir/sub/file.cc:345", "a.c:1 (discriminator 3)", "lib.c:?", "??:?", "??:0", "/abs/path/x.go:77", "weird:name.c:9", "noline.c"}

func c13ConvCases(c *Ctx, n int) {
	r := c.R
	for k := 0; k < n; k++ {
		kind := "a2l"
		if r.P(1, 4) {
			kind = "llvm"
		}
		base := []uint64{0, 0x1000, 0x5000000, 0x555555554000, 0x7f0000000000 + uint64(r.Intn(1<<20))*c13Page}[r.Intn(5)]
		// the text: functions at consecutive link addresses; some the tool knows nothing about (PLT
		// stubs, padding, stripped regions)
		nf := 3 + r.Intn(8)
		link := []uint64{0x1000, 0x401000, 0x2540}[r.Intn(3)]
		var table []c13ToolEntry
		var syms []c13Sym
		var pool []uint64 // link addresses to ask about
		for i := 0; i < nf; i++ {
			size := []uint64{0x10, 0x40, 0x100, 0x230}[r.Intn(4)]
			name := fmt.Sprintf("%s.%d", c13MangledStems[r.Intn(len(c13MangledStems))], i)
			syms = append(syms, c13Sym{link, size, name, "T"})
			for _, a := range []uint64{link, link + size/2, link + size - 1} {
				if !r.P(2, 3) {
					continue
				}
				pool = append(pool, a)
				shown := name
				if kind == "a2l" && r.P(1, 4) && len(name) > 4 { // truncated by addr2line (binutils bug 17541)
					shown = name[:len(name)-2-r.Intn(2)]
				}
				var fs []binutils.VerifC13ToolFrame
				switch r.Intn(8) {
				case 0, 1: // unknown to the tool
				case 2: // function unknown, file known
					fs = append(fs, c13ToolFrame(kind, "??", "stub.S:3", 3))
				case 3: // function known, file unknown
					fs = append(fs, c13ToolFrame(kind, shown, []string{"??:0", "??:?"}[r.Intn(2)], 0))
				case 4: // inlined frames, innermost first
					for x := 1 + r.Intn(3); x > 0; x-- {
						fl := c13FileLines[r.Intn(len(c13FileLines))]
						fs = append(fs, c13ToolFrame(kind, fmt.Sprintf("inl%d_%d", i, x), fl, 10+x))
					}
					fs = append(fs, c13ToolFrame(kind, shown, "main.c:40", 40))
				default:
					fs = append(fs, c13ToolFrame(kind, shown, c13FileLines[r.Intn(len(c13FileLines))], 1+r.Intn(500)))
				}
				if len(fs) > 0 {
					table = append(table, c13ToolEntry{a, fs})
				}
			}
			link += size
		}
		if len(pool) == 0 {
			pool = append(pool, syms[0].addr)
		}
		pool = append(pool, link+0x100, syms[0].addr-1) // outside the text: unknown
		na := 2 + r.Intn(9)
		var addrs []uint64
		for i := 0; i < na; i++ {
			addrs = append(addrs, base+pool[r.Intn(len(pool))])
		}
		hasNM := kind == "a2l" && r.P(1, 3)
		c13Conv(c, "conv", kind, base, table, syms, hasNM, addrs)
	}
	// fixed example: an unknown address in the middle of a conversation
	tab := []c13ToolEntry{
		{0x1140, []binutils.VerifC13ToolFrame{{Func: "alpha", FileLine: "a.c:10", Line: 10}}},
		{0x1180, []binutils.VerifC13ToolFrame{{Func: "beta", FileLine: "b.c:20", Line: 20}}},
		{0x11c0, []binutils.VerifC13ToolFrame{{Func: "inlined_in_gamma", FileLine: "g.h:5", Line: 5}, {Func: "gamma", FileLine: "g.c:30", Line: 30}}},
	}
	b := uint64(0x555555554000)
	c13Conv(c, "conv-example", "a2l", b, tab, nil, false, []uint64{b + 0x1140, b + 0x1010, b + 0x1180, b + 0x11c0, b + 0x1140})
}

// c13ToolFrame: addr2line prints "file:line" text; llvm-symbolizer gives FileName and Line separately.
func c13ToolFrame(kind, fn, fileline string, line int) binutils.VerifC13ToolFrame {
	if kind == "llvm" {
		if fn == "??" {
			fn = ""
		}
		return binutils.VerifC13ToolFrame{Func: fn, FileLine: fileline, Line: line}
	}
	return binutils.VerifC13ToolFrame{Func: fn, FileLine: fileline, Line: 0}
}
