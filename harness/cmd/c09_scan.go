//go:build verif

package main

// gen-c09calltree: translator for C09.  graph.TrimTree panics ("TrimTree only works on trees") unless
// the graph it is handed was BUILT as a call tree.  Two places of internal/report decide this
// independently: the guard under which newTrimmedGraph calls g.TrimTree, and the CallTree field of
// the graph.Options that newGraph passes to graph.New.  This translator reads /repo's CURRENT
// source (go/parser + go/ast only) and emits, as Gallina data, the set of output formats under which
// each TrimTree call is reached and the set under which graphs are built as trees.  It fails closed:
// any syntactic shape it does not understand yields calltree_scan_ok := false.

import (
	"fmt"
	"go/ast"
	"go/parser"
	"go/token"
	"os"
	"path/filepath"
	"sort"
	"strings"
)

func init() {
	subcmds["gen-c09calltree"] = c09GenCallTree
}

func c09RepoRoot() string {
	if r := os.Getenv("VERIF_REPO"); r != "" {
		return r
	}
	return "/repo"
}

type c09Scan struct {
	fset    *token.FileSet
	formats []string // constants of the const block that declares Callgrind (package report)
	notes   []string // why the scan is not ok
}

func (s *c09Scan) fail(format string, a ...interface{}) {
	s.notes = append(s.notes, fmt.Sprintf(format, a...))
}

// formatsOf interprets  X.CallTree [&& F]  with  F ::= X.OutputFormat == Name | F || F | (F).
func (s *c09Scan) formatsOf(e ast.Expr) ([]string, bool) {
	e = c09Unparen(e)
	if c09IsSel(e, "CallTree") {
		return append([]string{}, s.formats...), true
	}
	b, ok := e.(*ast.BinaryExpr)
	if !ok || b.Op != token.LAND || !c09IsSel(c09Unparen(b.X), "CallTree") {
		return nil, false
	}
	var out []string
	var walk func(f ast.Expr) bool
	walk = func(f ast.Expr) bool {
		f = c09Unparen(f)
		bb, ok := f.(*ast.BinaryExpr)
		if !ok {
			return false
		}
		switch bb.Op {
		case token.LOR:
			return walk(bb.X) && walk(bb.Y)
		case token.EQL:
			id, ok := c09Unparen(bb.Y).(*ast.Ident)
			if !ok || !c09IsSel(c09Unparen(bb.X), "OutputFormat") {
				return false
			}
			for _, f := range s.formats {
				if f == id.Name {
					out = append(out, id.Name)
					return true
				}
			}
			return false
		}
		return false
	}
	if !walk(b.Y) {
		return nil, false
	}
	sort.Strings(out)
	return out, true
}

func c09Unparen(e ast.Expr) ast.Expr {
	for {
		p, ok := e.(*ast.ParenExpr)
		if !ok {
			return e
		}
		e = p.X
	}
}

func c09IsSel(e ast.Expr, name string) bool {
	s, ok := e.(*ast.SelectorExpr)
	return ok && s.Sel.Name == name
}

func c09GenCallTree(args []string) {
	s := &c09Scan{fset: token.NewFileSet()}
	root := c09RepoRoot()
	type site struct {
		pos     string
		formats []string
	}
	var sites []site
	var build [][]string
	var files []*ast.File
	for _, pkg := range []string{"internal/report", "internal/driver", "internal/graph"} {
		ents, err := os.ReadDir(filepath.Join(root, pkg))
		if err != nil {
			s.fail("cannot read %s: %v", pkg, err)
			continue
		}
		for _, e := range ents {
			n := e.Name()
			if e.IsDir() || !strings.HasSuffix(n, ".go") || strings.HasSuffix(n, "_test.go") || strings.HasPrefix(n, "zz_") {
				continue
			}
			f, err := parser.ParseFile(s.fset, filepath.Join(root, pkg, n), nil, parser.SkipObjectResolution)
			if err != nil {
				s.fail("cannot parse %s/%s: %v", pkg, n, err)
				continue
			}
			files = append(files, f)
			if pkg == "internal/report" { // the output format constants
				for _, d := range f.Decls {
					gd, ok := d.(*ast.GenDecl)
					if !ok || gd.Tok != token.CONST {
						continue
					}
					var names []string
					has := false
					for _, sp := range gd.Specs {
						for _, id := range sp.(*ast.ValueSpec).Names {
							names = append(names, id.Name)
							has = has || id.Name == "Callgrind"
						}
					}
					if has {
						s.formats = names
					}
				}
			}
		}
	}
	if len(s.formats) == 0 {
		s.fail("output format constants not found")
	}
	for _, f := range files {
		for _, d := range f.Decls {
			fd, ok := d.(*ast.FuncDecl)
			if !ok || fd.Body == nil || fd.Name.Name == "TrimTree" {
				continue
			}
			// local definitions  x := expr  of this function
			defs := map[string]ast.Expr{}
			ast.Inspect(fd.Body, func(n ast.Node) bool {
				if as, ok := n.(*ast.AssignStmt); ok && as.Tok == token.DEFINE && len(as.Lhs) == 1 && len(as.Rhs) == 1 {
					if id, ok := as.Lhs[0].(*ast.Ident); ok {
						defs[id.Name] = as.Rhs[0]
					}
				}
				return true
			})
			// TrimTree calls with the stack of enclosing if-conditions (then-branches only)
			var walk func(n ast.Node, guards []ast.Expr)
			walk = func(n ast.Node, guards []ast.Expr) {
				switch x := n.(type) {
				case nil:
					return
				case *ast.IfStmt:
					if x.Init != nil {
						walk(x.Init, guards)
					}
					walk(x.Body, append(append([]ast.Expr{}, guards...), x.Cond))
					if x.Else != nil {
						walk(x.Else, guards)
					}
					return
				case *ast.CallExpr:
					if c09IsSel(x.Fun, "TrimTree") {
						pos := s.fset.Position(x.Pos())
						where := fmt.Sprintf("%s:%d", filepath.Base(pos.Filename), pos.Line)
						var got []string
						found := false
						for _, g := range guards {
							g = c09Unparen(g)
							if id, ok := g.(*ast.Ident); ok {
								if def, ok := defs[id.Name]; ok {
									g = def
								}
							}
							if fs, ok := s.formatsOf(g); ok {
								got, found = fs, true
							}
						}
						if !found {
							s.fail("%s: TrimTree call without a recognisable call-tree guard", where)
							got = append([]string{}, s.formats...)
						}
						sites = append(sites, site{where, got})
					}
				}
				ast.Inspect(n, func(c ast.Node) bool {
					if c == n || c == nil {
						return true
					}
					walk(c, guards)
					return false
				})
			}
			walk(fd.Body, nil)
			// graph.Options{... CallTree: expr ...}
			ast.Inspect(fd.Body, func(n ast.Node) bool {
				cl, ok := n.(*ast.CompositeLit)
				if !ok {
					return true
				}
				for _, el := range cl.Elts {
					kv, ok := el.(*ast.KeyValueExpr)
					if !ok {
						continue
					}
					if k, ok := kv.Key.(*ast.Ident); ok && k.Name == "CallTree" {
						if sel, ok := cl.Type.(*ast.SelectorExpr); ok && sel.Sel.Name == "Options" && fmt.Sprint(sel.X) == "graph" {
							if fs, ok := s.formatsOf(kv.Value); ok {
								build = append(build, fs)
							} else {
								pos := s.fset.Position(kv.Pos())
								s.fail("%s:%d: CallTree field of graph.Options has an unknown shape", filepath.Base(pos.Filename), pos.Line)
							}
						}
					}
				}
				return true
			})
		}
	}
	// the guard of the node-limiting step:  if nodeCount := o.NodeCount; nodeCount OP LIT { ... }
	guardOp := "?"
	for _, f := range files {
		for _, d := range f.Decls {
			fd, ok := d.(*ast.FuncDecl)
			if !ok || fd.Body == nil || fd.Name.Name != "newTrimmedGraph" {
				continue
			}
			ast.Inspect(fd.Body, func(n ast.Node) bool {
				is, ok := n.(*ast.IfStmt)
				if !ok || is.Init == nil {
					return true
				}
				as, ok := is.Init.(*ast.AssignStmt)
				if !ok || len(as.Rhs) != 1 || !c09IsSel(as.Rhs[0], "NodeCount") {
					return true
				}
				if b, ok := c09Unparen(is.Cond).(*ast.BinaryExpr); ok {
					if id, ok := b.X.(*ast.Ident); ok && len(as.Lhs) == 1 && fmt.Sprint(as.Lhs[0]) == id.Name {
						if lit, ok := b.Y.(*ast.BasicLit); ok {
							if guardOp != "?" {
								guardOp = "ambiguous"
							} else {
								guardOp = b.Op.String() + " " + lit.Value
							}
						}
					}
				}
				return true
			})
		}
	}
	if guardOp == "?" || guardOp == "ambiguous" {
		s.fail("node-limiting guard of newTrimmedGraph not recognised (%s)", guardOp)
	}
	if len(build) != 1 {
		s.fail("expected exactly one graph.Options{CallTree: ...} site, found %d", len(build))
	}
	var sb strings.Builder
	sb.WriteString("(* GENERATED by `harness gen-c09calltree` from /repo's current source (internal/report, internal/driver,\n   internal/graph: callers of graph.TrimTree and the CallTree field of graph.Options) on every run; do not edit. *)\n")
	sb.WriteString("From Coq Require Import List String.\nImport ListNotations.\nOpen Scope string_scope.\n\n")
	sb.WriteString("(* output format constants of package report *)\nDefinition report_formats : list string := " + c09CoqStrList(s.formats) + ".\n\n")
	sb.WriteString("(* formats for which newGraph builds the graph as a call tree when call_tree is set *)\n")
	var b []string
	if len(build) > 0 {
		b = build[0]
	}
	sb.WriteString("Definition build_tree_formats : list string := " + c09CoqStrList(b) + ".\n\n")
	sb.WriteString("(* every call of graph.TrimTree: position, formats for which its guard holds when call_tree is set *)\n")
	sb.WriteString("Definition trim_tree_sites : list (string * list string) := [")
	for i, st := range sites {
		if i > 0 {
			sb.WriteString(";")
		}
		sb.WriteString("\n  (" + c09CoqStr(st.pos) + ", " + c09CoqStrList(st.formats) + ")")
	}
	sb.WriteString("].\n\n")
	sb.WriteString("(* the test newTrimmedGraph applies to the node count before it calls SelectTopNodes / SelectTopNodePtrs *)\n")
	sb.WriteString("Definition node_limit_guard : string := " + c09CoqStr(guardOp) + ".\n\n")
	ok := "true"
	if len(s.notes) > 0 {
		ok = "false"
	}
	sb.WriteString("Definition calltree_scan_ok : bool := " + ok + ".\n")
	for _, n := range s.notes {
		sb.WriteString("(* scan problem: " + strings.ReplaceAll(strings.ReplaceAll(n, "*)", "* )"), "(*", "( *") + " *)\n")
	}
	if len(args) > 0 {
		os.WriteFile(args[0], []byte(sb.String()), 0o644)
	} else {
		fmt.Print(sb.String())
	}
}
