//go:build verif

package main

import (
	"bytes"
	"encoding/json"
	"fmt"
	"net/url"
	"os"
	"os/exec"
	"path/filepath"
	"strings"

	"github.com/google/pprof/internal/driver"
	"github.com/google/pprof/internal/plugin"
	"github.com/google/pprof/internal/transport"
	"github.com/google/pprof/profile"
)

// Source listings against REAL files (list, weblist, web /source): the path-trimming clause of C10.
// An on-disk tree in the scratch dir holds two sets of files with the same relative names and
// different contents; profiles name them through a remote prefix that trim_path has to remove:
//
//	s/p/src/{foo,bar}.c      reached with trim_path=/remote/build/x  (or no trim_path for /remote/p/src/..)
//	s/p/x/src/{foo,bar}.c    reached with trim_path=/remote/build
//
// The fresh reference of the metamorphic oracle runs in a CHILD PROCESS (`harness c10-ref`): a
// process-wide cache inside pprof must not be shared with the reference.

func init() {
	subcmds["c10-ref"] = c10RefChild
}

const c10SrcProfileFile = "c10src.pb"

func c10SrcTree() {
	for _, t := range []struct{ dir, tag string }{{"s/p/src", "A"}, {"s/p/x/src", "B"}} {
		os.MkdirAll(t.dir, 0o755)
		for _, f := range []string{"foo.c", "bar.c", "main.c"} {
			var sb strings.Builder
			for i := 1; i <= 40; i++ {
				fmt.Fprintf(&sb, "/* %s %s line %d */ int %s_%s_%d;\n", t.tag, f, i, t.tag, f[:3], i)
			}
			os.WriteFile(filepath.Join(t.dir, f), []byte(sb.String()), 0o644)
		}
	}
}

// every function has its own file and every location a single line: two functions in one file,
// or inlined lines, make weblist's output depend on map iteration order (C08's subject)
var c10SrcFiles = [][]string{{"/remote/build/x/src/foo.c", "/remote/p/src/foo.c"}, {"/remote/build/x/src/bar.c", "src/bar.c"}, {"/remote/build/x/src/main.c"}}

// c10SrcProfile: three functions whose file names point into the tree through a prefix; one
// mapping without object file (weblist then synthesises the instructions from the locations).
func c10SrcProfile(r *Rng) (*profile.Profile, []byte) {
	m := &profile.Mapping{ID: 1, Start: 0x1000, Limit: 0x9000, File: "/no/such/binary", HasFunctions: true, HasFilenames: true, HasLineNumbers: true}
	names := []string{"foo", "bar", "main"}
	var fns []*profile.Function
	for i, n := range names {
		fns = append(fns, &profile.Function{ID: uint64(i + 1), Name: n, SystemName: n, Filename: PickS(r, c10SrcFiles[i]), StartLine: int64(1 + r.Intn(5))})
	}
	var locs []*profile.Location
	for i := 0; i < 5; i++ {
		l := &profile.Location{ID: uint64(i + 1), Mapping: m, Address: uint64(0x1000 + 0x10*(i+1))}
		l.Line = append(l.Line, profile.Line{Function: fns[r.Intn(3)], Line: int64(2 + r.Intn(30))})
		locs = append(locs, l)
	}
	p := &profile.Profile{
		SampleType: []*profile.ValueType{{Type: "samples", Unit: "count"}, {Type: "cpu", Unit: "nanoseconds"}},
		Mapping:    []*profile.Mapping{m}, Function: fns, Location: locs,
		PeriodType: &profile.ValueType{Type: "cpu", Unit: "nanoseconds"}, Period: 1,
	}
	for i := 0; i < 6; i++ {
		s := &profile.Sample{Value: []int64{int64(1 + r.Intn(9)), int64(10 * (1 + r.Intn(50)))}}
		for d := 1 + r.Intn(3); d > 0; d-- {
			s.Location = append(s.Location, locs[r.Intn(len(locs))])
		}
		p.Sample = append(p.Sample, s)
	}
	var buf bytes.Buffer
	if err := p.WriteUncompressed(&buf); err != nil {
		panic(err)
	}
	q, err := profile.ParseUncompressed(buf.Bytes())
	if err != nil {
		panic(err)
	}
	return q, buf.Bytes()
}

var c10SrcAssign = []string{"source_path=s/p", "source_path=s/p", "source_path=s/p", "source_path=s/p/x", "source_path=",
	"trim_path=/remote/build/x", "trim_path=/remote/build", "trim_path=/remote/build/x", "trim_path=/remote/build", "trim_path=",
	"trim_path=/bogus", "trim_path=/remote", "trim_path=/bogus:/remote/build", "focus=foo", "granularity=lines", "nodecount=3"}
var c10SrcCmds = []string{"list foo", "list bar", "list .", "list main", "weblist foo >w", "weblist bar >w", "weblist . >w", "weblist main >w2",
	"weblist foo >w", "weblist . >w", "top", "list foo|bar", "weblist foo|bar > w"}

// c10SrcCfg: initial option state, mostly one under which the files are found
func c10SrcCfg(r *Rng) driver.VerifConfig {
	cfg := driver.VerifDefaultConfig()
	if r.P(3, 4) {
		cfg, _, _ = driver.VerifSetField(cfg, "source_path", PickS(r, []string{"s/p", "s/p", "s/p/x"}))
	}
	if r.P(3, 4) {
		cfg, _, _ = driver.VerifSetField(cfg, "trim_path", PickS(r, []string{"/remote/build/x", "/remote/build", "/remote/build/x", "/bogus"}))
	}
	return cfg
}

func c10SrcLines(r *Rng, n int) []string {
	var lines []string
	for i := 0; i < n; i++ {
		if r.P(2, 5) {
			lines = append(lines, PickS(r, c10SrcAssign))
		} else {
			lines = append(lines, PickS(r, c10SrcCmds))
		}
	}
	if r.P(1, 2) { // the pattern that matters: listing, trim_path changes, the same listing again
		cmd := PickS(r, c10SrcCmds[:10])
		lines = append(lines, cmd, PickS(r, c10SrcAssign[5:13]), cmd)
	}
	return lines
}

// ---- the child process

type c10RefJob struct {
	Mode  string      `json:"mode"` // "sess" | "web"
	Prof  string      `json:"prof"` // file holding the serialized profile
	Pairs [][2]string `json:"pairs"`
	Lines []string    `json:"lines"`
	Path  string      `json:"path"`
	Query string      `json:"query"`
}

type c10RefOut struct {
	Hashes []string `json:"hashes"`
	Outs   []string `json:"outs"`
	Code   int      `json:"code"`
}

// c10RefChild: `harness c10-ref` reads one job on stdin, runs it in this fresh process and prints
// the result as JSON. The profile is read from the file the job names (current directory).
func c10RefChild(args []string) {
	var job c10RefJob
	if err := json.NewDecoder(os.Stdin).Decode(&job); err != nil {
		fmt.Fprintln(os.Stderr, err)
		os.Exit(2)
	}
	data, err := os.ReadFile(job.Prof)
	if err != nil {
		fmt.Fprintln(os.Stderr, err)
		os.Exit(2)
	}
	p, err := profile.ParseUncompressed(data)
	if err != nil {
		fmt.Fprintln(os.Stderr, err)
		os.Exit(2)
	}
	cfg, err := driver.VerifConfigFromPairs(job.Pairs)
	if err != nil {
		fmt.Fprintln(os.Stderr, err)
		os.Exit(2)
	}
	dir, _ := filepath.Abs("c10cfg")
	os.Setenv("XDG_CONFIG_HOME", dir)
	os.Setenv("PPROF_TMPDIR", dir)
	f, err := os.CreateTemp(".", "c10refout")
	if err != nil {
		fmt.Fprintln(os.Stderr, err)
		os.Exit(2)
	}
	realStdout := os.Stdout
	c10Stdout, os.Stdout = f, f
	var out c10RefOut
	switch job.Mode {
	case "sess":
		ref := Render(DumpProfile(p))
		ui := c10Session(p, ref, cfg, job.Lines)
		if len(ui.ev) > 0 {
			out.Hashes = c10ReportHashes(ui.ev[len(ui.ev)-1])
			out.Outs = c10LastRefOuts
		}
	case "web":
		driver.VerifSetCurrentConfig(cfg)
		o := driver.VerifSetDefaults(&plugin.Options{UI: c10NullUI{}, Writer: &c10MemWriter{}, HTTPTransport: transport.New(nil)})
		h, err := driver.VerifWeb(p, o)
		if err != nil {
			fmt.Fprintln(os.Stderr, err)
			os.Exit(2)
		}
		q, _ := url.ParseQuery(job.Query)
		code, hash := c10Do(h, c10Req{job.Path, q})
		out.Code, out.Hashes = code, []string{hash}
	}
	os.Stdout = realStdout
	f.Close()
	os.Remove(f.Name())
	json.NewEncoder(realStdout).Encode(out)
}

func c10RunChild(job c10RefJob, st *c10Stats) c10RefOut {
	st.childRefs++
	exe, err := os.Executable()
	if err != nil {
		panic(err)
	}
	in, _ := json.Marshal(job)
	cmd := exec.Command(exe, "c10-ref")
	cmd.Stdin = bytes.NewReader(in)
	var stdout, stderr bytes.Buffer
	cmd.Stdout, cmd.Stderr = &stdout, &stderr
	var out c10RefOut
	if err := cmd.Run(); err != nil {
		panic(fmt.Sprintf("c10-ref child failed: %v: %s", err, stderr.String()))
	}
	if err := json.Unmarshal(stdout.Bytes(), &out); err != nil {
		panic(fmt.Sprintf("c10-ref child output %q: %v", stdout.String(), err))
	}
	return out
}

// c10RunSrc: sessions and web request sequences that list sources from the on-disk tree while
// source_path / trim_path change in between.
func c10RunSrc(c *Ctx, fields []driver.VerifField, st *c10Stats) {
	c10SrcTree()
	defer os.RemoveAll("s")
	defer os.Remove(c10SrcProfileFile)
	for k := 0; k < c.Budget(40, 400); k++ {
		p, data := c10SrcProfile(c.R)
		os.WriteFile(c10SrcProfileFile, data, 0o644)
		ref := Render(DumpProfile(p))
		cfg0 := c10SrcCfg(c.R)
		lines := c10SrcLines(c.R, 2+c.R.Intn(5))
		child := func(before driver.VerifConfig, line string) []string {
			r := c10RunChild(c10RefJob{Mode: "sess", Prof: c10SrcProfileFile, Pairs: driver.VerifConfigDump(before), Lines: []string{c10CompactLine(before), line}}, st)
			c10LastRefOuts = r.Outs
			return r.Hashes
		}
		c10History(c, "session-src", p, ref, ref, cfg0, lines, child, 40, st)
	}
	// web: option assignments (as SetVariableDefault / flags would make them) between /source requests
	for k := 0; k < c.Budget(25, 250); k++ {
		p, data := c10SrcProfile(c.R)
		os.WriteFile(c10SrcProfileFile, data, 0o644)
		c10WebSteps(c, "web-src", p, c10SrcProfileFile, c10SrcCfg(c.R), c10SrcLines(c.R, 3+c.R.Intn(4)), st)
	}
	c.Extra["fresh_references_in_child_processes"] = st.childRefs
	c.Extra["src_listings_showing_tree_A_B_none"] = []int{st.srcA, st.srcB, st.srcNone}
}

// c10WebSteps: option assignments ("name=value", through configure) and requests ("top X", "list X" ->
// /source, or "/path?query") on ONE web interface; every response is compared with the response of a
// fresh PROCESS in the same option state (profile read from profFile). Emits a "websrc" case.
func c10WebSteps(c *Ctx, gen string, p *profile.Profile, profFile string, cfg0 driver.VerifConfig, steps []string, st *c10Stats) {
	p0dump := Render(DumpProfile(p))
	restoreG := driver.VerifGlobals()
	driver.VerifSetCurrentConfig(cfg0)
	o := driver.VerifSetDefaults(&plugin.Options{UI: c10NullUI{}, Writer: &c10MemWriter{}, HTTPTransport: transport.New(nil)})
	h, err := driver.VerifWeb(p, o)
	if err != nil {
		panic(err)
	}
	strs := map[string]bool{}
	c19CollectCfg(strs, cfg0)
	var stepT, obsT []Term
	for _, ln := range steps {
		if i := strings.Index(ln, "="); i >= 0 {
			name, value := ln[:i], ln[i+1:]
			driver.VerifConfigure(name, value)
			strs[value] = true
			stepT = append(stepT, L(S("set"), S(name), S(value)))
			obsT = append(obsT, L(S("s"), c19CfgTerm(driver.VerifCurrentConfig())))
			continue
		}
		fs := strings.Fields(ln)
		path := "/source"
		if fs[0] == "top" {
			path = "/top"
		}
		q := url.Values{}
		if len(fs) > 1 {
			q["f"] = []string{fs[1]}
		}
		if strings.HasPrefix(ln, "/") { // "/path?query"
			path = ln
			if k := strings.Index(ln, "?"); k >= 0 {
				path = ln[:k]
				q, _ = url.ParseQuery(ln[k+1:])
			}
		}
		rq := c10Req{path, q}
		code, hash := c10Do(h, rq)
		state := driver.VerifConfigDump(driver.VerifCurrentConfig())
		fresh := func() c10RefOut {
			return c10RunChild(c10RefJob{Mode: "web", Prof: profFile, Pairs: state, Path: path, Query: q.Encode()}, st)
		}
		first := fresh()
		same := first.Code == code && len(first.Hashes) == 1 && first.Hashes[0] == hash
		for attempt := 0; attempt < 6 && !same && c10RetryBudget > 0; attempt++ {
			c10RetryBudget--
			again := fresh()
			if again.Code == code && len(again.Hashes) == 1 && again.Hashes[0] == hash {
				st.flaky++
				same = true
			} else if len(again.Hashes) == 1 && len(first.Hashes) == 1 && again.Hashes[0] != first.Hashes[0] {
				st.flaky++
				same = true
			}
		}
		if !same {
			st.leaks++
		}
		c19Collect(strs, q)
		stepT = append(stepT, L(S("req"), S(path), c19ValuesTerm(q)))
		obsT = append(obsT, L(ZI(code), Bool(same)))
	}
	unchanged := Render(DumpProfile(p)) == p0dump
	restoreG()
	in := L(S("websrc"), c19PfTable(strs), c19CfgTerm(cfg0), L(stepT...))
	c.Case(gen, in, L(L(obsT...), Bool(unchanged)), true, "op:websrc")
}
