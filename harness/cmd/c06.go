//go:build verif

package main

import (
	"fmt"
	"regexp"
	"sort"
	"strings"

	"github.com/google/pprof/internal/driver"
	"github.com/google/pprof/profile"
)

func init() { registry["C06"] = runC06 }

var c06Names = []string{"main", "foo", "bar", "foobar", "lib.f", "m1(int)"}
var c06Files = []string{"a.go", "foo.c", "dir/bar.cc", ""}
var c06Maps = []string{"bin/app", "libfoo.so"}
var c06Rx = []string{"foo", "bar", "^foo$", "main|bar", "\\.c$", "lib", "app", "nomatch", "fo+", "a\\.go", ".*", "b.r", "^$", "foo|app", "main"}
var c06BadRx = []string{"[", "a(", "*"}
var c06TagRx = []string{"v", "k:v", "key=val", "key=v,x1", "v,tag", "a:b", "k=", "=v", "key=[", "[", "req=k|v", "tag,nomatch", "bytes=5kb", "k=10",
	"10", "5kb", ":10", "1kb:", "1kb:4kb", "512:2048", "bytes=1024", "bytes=1kb:", "req=:5s", "5ms:1s", "-5", "+10", "5:1", "1kb:2ms",
	"99999999999999999999", "10x", "x10", "1:2:3", "10:", "k=5kb", "key=:1mb", "a=0", "1000000", "5000ms:", ":1024bytes", "1kb:1024", "4096b", "1s", "2foo", "3:4foo", "bytes=-1kb:1kb", ":", "=", "k=1,2", "1,2"}
var c06KeyRx = []string{"k", "key", "^k", "bytes|req", "a", "nomatch", ".*", "e"}

type c06UI struct{ msgs []string }

func (u *c06UI) ReadLine(string) (string, error) { return "", fmt.Errorf("no input") }
func (u *c06UI) Print(...interface{})            {}
func (u *c06UI) PrintErr(a ...interface{}) {
	m := fmt.Sprint(a...)
	switch {
	case strings.HasSuffix(m, " expression matched no samples"):
		m = strings.TrimSuffix(m, " expression matched no samples")
	case strings.Contains(m, ":Interpreted '"):
		m = "range:" + m[:strings.Index(m, ":")]
	}
	u.msgs = append(u.msgs, m)
}
func (u *c06UI) IsTerminal() bool                 { return false }
func (u *c06UI) WantBrowser() bool                { return false }
func (u *c06UI) SetAutoComplete(func(string) string) {}

// c06Universe lists every string the filters can match against in p.
func c06Universe(p *profile.Profile) []string {
	var u []string
	for _, f := range p.Function {
		u = append(u, f.Name, f.Filename, profile.VerifSimplifyFunc(f.Name))
	}
	for _, m := range p.Mapping {
		u = append(u, m.File)
	}
	for _, s := range p.Sample {
		for k, vs := range s.Label {
			u = append(u, k)
			for _, v := range vs {
				u = append(u, v, k+":"+v)
			}
		}
		for k := range s.NumLabel {
			u = append(u, k)
		}
	}
	return u
}

func c06OptRx(src *string) *regexp.Regexp {
	if src == nil {
		return nil
	}
	return regexp.MustCompile(*src)
}

func runC06(c *Ctx) {
	r := c.R
	kn := c06StackKnobs{Names: c06Names, Files: c06Files, MapFiles: c06Maps, MaxFuncs: 5, MaxLocs: 5, MaxLines: 3,
		MaxSamples: 4, MaxDepth: 4, Unsym: true, Empty: true, Labels: true, NoMap: true}
	pickRx := func(num, den int) *string {
		if r.P(num, den) {
			s := PickS(r, c06Rx)
			return &s
		}
		return nil
	}
	strs := func(l ...*string) []string {
		var o []string
		for _, s := range l {
			if s != nil {
				o = append(o, *s)
			}
		}
		return o
	}
	flags := func(b ...bool) Term {
		var l []Term
		for _, x := range b {
			l = append(l, Bool(x))
		}
		return L(l...)
	}
	names := func(gen string, p *profile.Profile, fo, ig, hi, sh *string) {
		in := L(S("names"), DumpProfile(p), c06OptS(fo), c06OptS(ig), c06OptS(hi), c06OptS(sh), c06MatchTable(c06Universe(p), strs(fo, ig, hi, sh)))
		before := Render(L(c06ObsProfile(p)...))
		obs := c06Guard(func() Term {
			fm, im, hm, hnm := p.FilterSamplesByName(c06OptRx(fo), c06OptRx(ig), c06OptRx(hi), c06OptRx(sh))
			return L(append(append([]Term{S("ok")}, c06ObsProfile(p)...), flags(fm, im, hm, hnm))...)
		})
		c.Case(gen, in, obs, before != Render(L(c06ObsProfile(p)...)), "op:names")
	}
	showFrom := func(gen string, p *profile.Profile, sf *string) {
		in := L(S("showfrom"), DumpProfile(p), c06OptS(sf), c06MatchTable(c06Universe(p), strs(sf)))
		before := Render(L(c06ObsProfile(p)...))
		obs := c06Guard(func() Term {
			m := p.ShowFrom(c06OptRx(sf))
			return L(append(append([]Term{S("ok")}, c06ObsProfile(p)...), flags(m))...)
		})
		c.Case(gen, in, obs, before != Render(L(c06ObsProfile(p)...)), "op:showfrom")
	}
	tagsByName := func(gen string, p *profile.Profile, sh, hi *string) {
		in := L(S("tagsbyname"), DumpProfile(p), c06OptS(sh), c06OptS(hi), c06MatchTable(c06Universe(p), strs(sh, hi)))
		before := Render(L(c06ObsProfile(p)...))
		obs := c06Guard(func() Term {
			sm, hm := p.FilterTagsByName(c06OptRx(sh), c06OptRx(hi))
			return L(append(append([]Term{S("ok")}, c06ObsProfile(p)...), flags(sm, hm))...)
		})
		c.Case(gen, in, obs, before != Render(L(c06ObsProfile(p)...)), "op:tagsbyname")
	}
	optNames := []string{"focus", "ignore", "hide", "show", "show_from", "tagfocus", "tagignore", "tagshow", "taghide", "prune_from"}
	applyFocus := func(gen string, p *profile.Profile, opts map[string]string) {
		var rxs []string
		var cfg []Term
		for _, n := range optNames {
			v := opts[n]
			cfg = append(cfg, S(v))
			if v == "" {
				continue
			}
			rxs = append(rxs, v)
			if n == "tagfocus" || n == "tagignore" {
				if i := strings.Index(v, "="); i >= 0 {
					v = v[i+1:]
				}
				rxs = append(rxs, v)
				rxs = append(rxs, strings.Split(v, ",")...)
			}
		}
		units, _ := p.NumLabelUnits()
		var us []Term
		var uk []string
		for k := range units {
			uk = append(uk, k)
		}
		sort.Strings(uk)
		for _, k := range uk {
			us = append(us, L(S(k), S(units[k])))
		}
		in := L(S("applyfocus"), DumpProfile(p), L(cfg...), L(us...), c06MatchTable(c06Universe(p), rxs))
		before := Render(L(c06ObsProfile(p)...))
		ui := &c06UI{}
		obs := c06Guard(func() Term {
			st := ""
			if err := driver.VerifApplyFocus(p, units, opts, ui); err != nil {
				st = "?"
				for _, n := range optNames {
					if strings.HasPrefix(err.Error(), "parsing "+n+" regexp") {
						st = n
					}
				}
			}
			return L(append(append([]Term{S(st)}, c06ObsProfile(p)...), Ss(ui.msgs))...)
		})
		nopts := 0
		for _, v := range opts {
			if v != "" {
				nopts++
			}
		}
		c.Case(gen, in, obs, before != Render(L(c06ObsProfile(p)...)), "op:applyfocus", fmt.Sprintf("nopts:%d", nopts))
	}
	// the same options through generateRawReport, with and without relative_percentages: the filters
	// must be applied exactly once either way
	rawReport := func(gen string, p *profile.Profile, opts map[string]string, relative bool) {
		var rxs []string
		var cfg []Term
		for _, n := range optNames {
			v := opts[n]
			cfg = append(cfg, S(v))
			if v == "" {
				continue
			}
			rxs = append(rxs, v)
			if n == "tagfocus" || n == "tagignore" {
				if i := strings.Index(v, "="); i >= 0 {
					v = v[i+1:]
				}
				rxs = append(rxs, v)
				rxs = append(rxs, strings.Split(v, ",")...)
			}
		}
		units, _ := p.NumLabelUnits()
		var us []Term
		var uk []string
		for k := range units {
			uk = append(uk, k)
		}
		sort.Strings(uk)
		for _, k := range uk {
			us = append(us, L(S(k), S(units[k])))
		}
		// the report command: the filters select the same samples whatever the output format
		cmd := [][]string{{"proto"}, {"raw"}, {"text"}, {"top"}, {"traces"}, {"tags"}, {"tree"}, {"dot"},
			{"callgrind"}, {"topproto"}, {"peek", "."}}[r.Intn(11)]
		in := L(S("rawreport"), DumpProfile(p), L(cfg...), L(us...), c06MatchTable(c06Universe(p), rxs), Bool(relative), Ss(cmd))
		before := Render(L(c06ObsProfile(p)...))
		ui := &c06UI{}
		obs := c06Guard(func() Term {
			st := ""
			if err := driver.VerifC06RawReport(p, cmd, opts, relative, ui); err != nil {
				st = "?"
				for _, n := range optNames {
					if strings.HasPrefix(err.Error(), "parsing "+n+" regexp") {
						st = n
					}
				}
			}
			return L(append([]Term{S(st)}, c06ObsProfile(p)...)...)
		})
		c.Case(gen, in, obs, before != Render(L(c06ObsProfile(p)...)), "op:rawreport", fmt.Sprintf("relative:%v", relative), "cmd:"+cmd[0])
	}

	// ---- witnesses of the known findings, always generated
	sp := func(s string) *string { return &s }
	names("finding-F16", c06Witness16(), nil, sp("foo"), nil, nil)
	names("finding-F24", c06Witness24(), nil, nil, nil, sp("app"))
	showFrom("finding-F25", c06Witness25(), sp("foo"))

	// ---- FilterSamplesByName: focus / ignore alone (the partition pair), then all combinations
	for i := 0; i < c.Budget(150, 4000); i++ {
		rx := PickS(r, c06Rx)
		seed := r.U64()
		names("focus-only", c06GenStacks(NewRng(seed), kn), &rx, nil, nil, nil)
		names("ignore-only", c06GenStacks(NewRng(seed), kn), nil, &rx, nil, nil)
	}
	for i := 0; i < c.Budget(280, 8000); i++ {
		names("names-rand", c06GenStacks(r, kn), pickRx(1, 2), pickRx(1, 2), pickRx(1, 2), pickRx(1, 2))
	}
	for i := 0; i < c.Budget(200, 5000); i++ {
		showFrom("showfrom-rand", c06GenStacks(r, kn), pickRx(9, 10))
	}
	for i := 0; i < c.Budget(150, 2000); i++ {
		var sh, hi *string
		if r.P(2, 3) {
			s := PickS(r, c06KeyRx)
			sh = &s
		}
		if r.P(2, 3) {
			s := PickS(r, c06KeyRx)
			hi = &s
		}
		tagsByName("tagsbyname-rand", c06GenStacks(r, kn), sh, hi)
	}
	// ---- applyFocus: single options, pairs, random subsets, invalid expressions
	for i := 0; i < c.Budget(250, 6000); i++ {
		opts := map[string]string{}
		if r.Bool() {
			opts["tagfocus"] = PickS(r, c06TagRx)
		} else {
			opts["tagignore"] = PickS(r, c06TagRx)
		}
		if r.P(1, 4) {
			opts["tagfocus"] = PickS(r, c06TagRx)
		}
		applyFocus("tagfilter", c06GenStacks(r, kn), opts)
	}
	// ---- numeric ranges at their bounds: label values lo-1, lo, lo+1, hi-1, hi, hi+1 in the range's unit
	for i := 0; i < c.Budget(120, 2000); i++ {
		lo := PickI(r, []int64{1, 2, 5, 10, 1024})
		hi := lo * PickI(r, []int64{1, 2, 4})
		unit := PickS(r, []string{"", "kb", "b", "mb"})
		mult := map[string]int64{"": 1, "kb": 1024, "b": 1, "mb": 1 << 20}[unit]
		p := c06GenStacks(r, kn)
		for _, s := range p.Sample {
			v := PickI(r, []int64{lo - 1, lo, lo + 1, hi - 1, hi, hi + 1}) * mult
			if mult > 1 && r.Bool() { // not a whole multiple of the filter's unit
				v += PickI(r, []int64{1, mult / 2, mult - 1, -1})
			}
			s.NumLabel = map[string][]int64{"bytes": {v}}
			s.NumUnit = map[string][]string{"bytes": {"bytes"}}
			if unit == "" {
				s.NumUnit = nil
			}
		}
		var f string
		switch r.Intn(4) {
		case 0:
			f = fmt.Sprintf("%d%s:%d%s", lo, unit, hi, unit)
		case 1:
			f = fmt.Sprintf("%d%s:", lo, unit)
		case 2:
			f = fmt.Sprintf(":%d%s", hi, unit)
		default:
			f = fmt.Sprintf("%d%s", lo, unit)
		}
		if r.Bool() {
			f = "bytes=" + f
		}
		opt := "tagfocus"
		if r.Bool() {
			opt = "tagignore"
		}
		applyFocus("tagrange-boundary", p, map[string]string{opt: f})
	}
	for i := 0; i < c.Budget(500, 10000); i++ {
		opts := map[string]string{}
		for _, n := range optNames {
			if !r.P(1, 3) {
				continue
			}
			switch n {
			case "tagfocus", "tagignore":
				opts[n] = PickS(r, c06TagRx)
			case "tagshow", "taghide":
				opts[n] = PickS(r, c06KeyRx)
			default:
				opts[n] = PickS(r, c06Rx)
			}
			if r.P(1, 25) {
				opts[n] = PickS(r, c06BadRx)
			}
		}
		applyFocus("applyfocus-rand", c06GenStacks(r, kn), opts)
		if i%3 == 0 {
			rawReport("rawreport-rand", c06GenStacks(r, kn), opts, i%2 == 0)
		}
	}
	// numeric ranges that are NOT valid regular expressions ("+10", "+5kb:") together with the options
	// whose known-finding classes the checker must still recognise (ignore on empty stacks, show_from and
	// prune_from on repeated / shared inlined locations): a range is never handed to the regexp compiler
	for i := 0; i < c.Budget(120, 3000); i++ {
		opts := map[string]string{}
		rg := PickS(r, []string{"+10", "+5kb:", ":+1024", "+1:+5000", "bytes=+512", "key=+1mb:"})
		if r.Bool() {
			opts["tagignore"] = rg
		} else {
			opts["tagfocus"] = rg
		}
		switch i % 4 {
		case 0:
			opts["ignore"] = PickS(r, c06Rx)
		case 1:
			opts["show_from"] = PickS(r, c06Rx)
		case 2:
			opts["prune_from"] = PickS(r, c06Rx)
		default:
			opts["show"] = PickS(r, c06Rx)
		}
		applyFocus("applyfocus-range-class", c06GenStacks(r, kn), opts)
	}
	// show_from on stacks that repeat ONE inlined location (shared Line slice trimmed once, seen at
	// every occurrence) and on locations shared by several samples
	knRep := kn
	knRep.MaxLocs, knRep.MaxLines, knRep.MaxDepth, knRep.Unsym, knRep.Empty = 2, 3, 5, false, false
	for i := 0; i < c.Budget(120, 3000); i++ {
		p := c06GenStacks(r, knRep)
		for _, l := range p.Location {
			for len(l.Line) < 2 {
				l.Line = append(l.Line, profile.Line{Function: p.Function[r.Intn(len(p.Function))], Line: int64(1 + r.Intn(9))})
			}
		}
		sf := PickS(r, c06Rx)
		if i%2 == 0 {
			showFrom("showfrom-repeat", p, &sf)
		} else {
			applyFocus("showfrom-repeat", p, map[string]string{"show_from": sf})
		}
	}
	// overlapping combinations: what one filter removes another one looks for
	for i := 0; i < c.Budget(60, 1500); i++ {
		x, y := PickS(r, c06Rx), PickS(r, c06Rx)
		combos := []map[string]string{
			{"focus": x, "hide": x}, {"focus": x, "show_from": y}, {"tagfocus": PickS(r, c06KeyRx), "taghide": "k|key|a|b"},
			{"focus": x, "show": y}, {"ignore": x, "hide": y},
		}
		opts := combos[i%len(combos)]
		rawReport("rawreport-overlap", c06GenStacks(r, kn), opts, true)
		rawReport("rawreport-overlap", c06GenStacks(r, kn), opts, false)
	}
	// ---- end-to-end layer
	c06E2EStreams(c)
}

func c06Base() *profile.Profile {
	p := &profile.Profile{SampleType: []*profile.ValueType{{Type: "samples", Unit: "count"}}}
	p.Mapping = []*profile.Mapping{{ID: 1, Start: 0x1000, Limit: 0x2000, File: "bin/app"}}
	for i, n := range []string{"main", "foo", "bar"} {
		p.Function = append(p.Function, &profile.Function{ID: uint64(i + 1), Name: n, SystemName: n, Filename: "a.go"})
	}
	return p
}

// one sample with frames, one without: ignore=foo drops the empty one (F16)
func c06Witness16() *profile.Profile {
	p := c06Base()
	l := &profile.Location{ID: 1, Address: 0x1001, Mapping: p.Mapping[0], Line: []profile.Line{{Function: p.Function[0], Line: 1}}}
	p.Location = []*profile.Location{l}
	p.Sample = []*profile.Sample{{Location: []*profile.Location{l}, Value: []int64{1}}, {Value: []int64{10}}}
	return p
}

// an unsymbolized location in bin/app: show=app hides it (F24)
func c06Witness24() *profile.Profile {
	p := c06Base()
	l := &profile.Location{ID: 1, Address: 0x1001, Mapping: p.Mapping[0]}
	p.Location = []*profile.Location{l}
	p.Sample = []*profile.Sample{{Location: []*profile.Location{l}, Value: []int64{1}}}
	return p
}

// leaf [bar foo main] <- root [foo]: show_from=foo cuts "main" out of the leaf-side location (F25)
func c06Witness25() *profile.Profile {
	p := c06Base()
	l1 := &profile.Location{ID: 1, Address: 1, Line: []profile.Line{{Function: p.Function[2], Line: 1}, {Function: p.Function[1], Line: 2}, {Function: p.Function[0], Line: 3}}}
	l2 := &profile.Location{ID: 2, Address: 2, Line: []profile.Line{{Function: p.Function[1], Line: 4}}}
	p.Location = []*profile.Location{l1, l2}
	p.Sample = []*profile.Sample{{Location: []*profile.Location{l1, l2}, Value: []int64{1}}}
	return p
}
