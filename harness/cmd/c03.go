//go:build verif

package main

import (
	"os"
	"fmt"
	"math"
	"reflect"
	"sort"

	"github.com/google/pprof/profile"
)

func init() {
	registry["C03"] = runC03
}

// ---------------------------------------------------------------------------------------------
// Value-level description of the entities of a merge case.  Profiles of one case are instantiated
// from ONE pool, each with its own id assignment and its own load addresses, so that the same
// entity appears under different ids / bases in different inputs, and different entities under
// the same id.

type c03F struct {
	name, sys, file string
	start           int64
}
type c03M struct {
	size, offset uint64
	file, build  string
	flags        [4]bool
	krs          string
}
type c03Ln struct {
	f         int // index into fs, -1 = nil function (invalid; never generated)
	line, col int64
}
type c03L struct {
	m      int // index into ms, -1 = no mapping
	rel    uint64
	lines  []c03Ln
	folded bool
	abs    bool // rel is the ABSOLUTE address, wherever the mapping starts (it may lie below Start or beyond Limit)
}
type c03S struct {
	locs    []int
	label   map[string][]string
	num     map[string][]int64
	numUnit map[string][]string
}
type c03Pool struct {
	fs []c03F
	ms []c03M
	ls []c03L
	ss []c03S
}

func (p *c03Pool) clone() *c03Pool {
	q := &c03Pool{}
	q.fs = append(q.fs, p.fs...)
	q.ms = append(q.ms, p.ms...)
	for _, l := range p.ls {
		l.lines = append([]c03Ln(nil), l.lines...)
		q.ls = append(q.ls, l)
	}
	for _, s := range p.ss {
		q.ss = append(q.ss, cloneS(s))
	}
	return q
}

func cloneS(s c03S) c03S {
	t := c03S{locs: append([]int(nil), s.locs...)}
	if s.label != nil {
		t.label = map[string][]string{}
		for k, v := range s.label {
			t.label[k] = append([]string(nil), v...)
		}
	}
	if s.num != nil {
		t.num = map[string][]int64{}
		for k, v := range s.num {
			t.num[k] = append([]int64(nil), v...)
		}
	}
	if s.numUnit != nil {
		t.numUnit = map[string][]string{}
		for k, v := range s.numUnit {
			t.numUnit[k] = append([]string(nil), v...)
		}
	}
	return t
}

type c03Header struct {
	st      []profile.ValueType
	pt      *profile.ValueType
	period  int64
	time    int64
	dur     int64
	comm    []string
	drop    string
	keep    string
	defType string
	docURL  string
}

type c03Use struct {
	s   int // index into pool.ss
	val []int64
}

// idmode: 0 dense in pool order, 1 dense shuffled, 2 sparse/huge, 3 offset (ids collide with other meanings)
func c03IDs(r *Rng, n int, mode int) []uint64 {
	ids := make([]uint64, n)
	for i := range ids {
		ids[i] = uint64(i + 1)
	}
	switch mode {
	case 1:
		for i := n - 1; i > 0; i-- {
			j := r.Intn(i + 1)
			ids[i], ids[j] = ids[j], ids[i]
		}
	case 2:
		used := map[uint64]bool{}
		for i := range ids {
			var id uint64
			switch r.Intn(4) {
			case 0:
				id = uint64(i+1) * 1000003
			case 1:
				id = 1<<63 + uint64(r.Intn(50))
			case 2:
				id = math.MaxUint64 - uint64(r.Intn(50))
			default:
				id = uint64(r.Intn(3*n + 3))
			}
			for id == 0 || used[id] {
				id++
			}
			used[id] = true
			ids[i] = id
		}
	case 3:
		k := uint64(r.Intn(n + 1))
		for i := range ids {
			ids[i] = uint64((uint64(i)+k)%uint64(n)) + 1
		}
	}
	return ids
}

// instantiate builds one valid profile from the pool.  All entities of the pool selected by
// keep* are present (used or not); samples are the given uses in the given order.
func c03Instantiate(r *Rng, pool *c03Pool, h c03Header, uses []c03Use, idmode int, aslr bool, dropUnused bool) *profile.Profile {
	p := &profile.Profile{DefaultSampleType: h.defType, Comments: append([]string(nil), h.comm...), DocURL: h.docURL,
		DropFrames: h.drop, KeepFrames: h.keep, TimeNanos: h.time, DurationNanos: h.dur, Period: h.period}
	for i := range h.st {
		p.SampleType = append(p.SampleType, &profile.ValueType{Type: h.st[i].Type, Unit: h.st[i].Unit})
	}
	if h.pt != nil {
		p.PeriodType = &profile.ValueType{Type: h.pt.Type, Unit: h.pt.Unit}
	}
	usedL := map[int]bool{}
	usedF := map[int]bool{}
	usedM := map[int]bool{}
	for _, u := range uses {
		for _, li := range pool.ss[u.s].locs {
			usedL[li] = true
			if pool.ls[li].m >= 0 {
				usedM[pool.ls[li].m] = true
			}
			for _, ln := range pool.ls[li].lines {
				usedF[ln.f] = true
			}
		}
	}
	keep := func(used map[int]bool, i int) bool { return used[i] || (!dropUnused && r.P(2, 3)) }
	// mappings
	mids := c03IDs(r, len(pool.ms), idmode)
	ms := make([]*profile.Mapping, len(pool.ms))
	order := r.permIf(len(pool.ms), idmode != 0)
	base := uint64(0x400000)
	if aslr {
		base = uint64(0x10000) * uint64(1+r.Intn(0x7000))
		if r.P(1, 10) {
			base = math.MaxUint64 - 0x3fffff // mapping wraps around the top of the address space
		}
	}
	for _, i := range order {
		if !keep(usedM, i) {
			continue
		}
		m := pool.ms[i]
		start := base + uint64(i)*0x1000000
		mm := &profile.Mapping{ID: mids[i], Start: start, Limit: start + m.size, Offset: m.offset, File: m.file, BuildID: m.build,
			HasFunctions: m.flags[0], HasFilenames: m.flags[1], HasLineNumbers: m.flags[2], HasInlineFrames: m.flags[3],
			KernelRelocationSymbol: m.krs}
		ms[i] = mm
		p.Mapping = append(p.Mapping, mm)
	}
	// functions
	fids := c03IDs(r, len(pool.fs), idmode)
	fs := make([]*profile.Function, len(pool.fs))
	for _, i := range r.permIf(len(pool.fs), idmode != 0) {
		if !keep(usedF, i) {
			continue
		}
		f := pool.fs[i]
		fs[i] = &profile.Function{ID: fids[i], Name: f.name, SystemName: f.sys, Filename: f.file, StartLine: f.start}
		p.Function = append(p.Function, fs[i])
	}
	// locations
	lids := c03IDs(r, len(pool.ls), idmode)
	ls := make([]*profile.Location, len(pool.ls))
	for _, i := range r.permIf(len(pool.ls), idmode != 0) {
		l := pool.ls[i]
		ok := keep(usedL, i)
		if l.m >= 0 && ms[l.m] == nil {
			ok = false
		}
		for _, ln := range l.lines {
			if fs[ln.f] == nil {
				ok = false
			}
		}
		if !ok && !usedL[i] {
			continue
		}
		loc := &profile.Location{ID: lids[i], IsFolded: l.folded, Address: l.rel}
		if l.m >= 0 {
			loc.Mapping = ms[l.m]
			loc.Address = ms[l.m].Start + l.rel
			if l.abs {
				loc.Address = l.rel
			}
		}
		for _, ln := range l.lines {
			loc.Line = append(loc.Line, profile.Line{Function: fs[ln.f], Line: ln.line, Column: ln.col})
		}
		ls[i] = loc
		p.Location = append(p.Location, loc)
	}
	for _, u := range uses {
		sp := cloneS(pool.ss[u.s])
		s := &profile.Sample{Value: append([]int64(nil), u.val...), Label: sp.label, NumLabel: sp.num, NumUnit: sp.numUnit}
		for _, li := range sp.locs {
			s.Location = append(s.Location, ls[li])
		}
		p.Sample = append(p.Sample, s)
	}
	return p
}

func (r *Rng) permIf(n int, shuffle bool) []int {
	o := make([]int, n)
	for i := range o {
		o[i] = i
	}
	if shuffle {
		for i := n - 1; i > 0; i-- {
			j := r.Intn(i + 1)
			o[i], o[j] = o[j], o[i]
		}
	}
	return o
}

// ---------------------------------------------------------------------------------------------
// observation

// c03Pointers collects the identities of every pointer, map and slice backing array reachable
// from v (strings are immutable and may be shared).
func c03Pointers(v reflect.Value, path string, out map[uintptr]string, seen map[uintptr]bool) {
	switch v.Kind() {
	case reflect.Ptr:
		if v.IsNil() {
			return
		}
		a := v.Pointer()
		if _, ok := out[a]; !ok {
			out[a] = path
		}
		if seen[a] {
			return
		}
		seen[a] = true
		c03Pointers(v.Elem(), path, out, seen)
	case reflect.Struct:
		t := v.Type()
		if t.PkgPath() == "sync" {
			return
		}
		for i := 0; i < v.NumField(); i++ {
			c03Pointers(v.Field(i), path+"."+t.Field(i).Name, out, seen)
		}
	case reflect.Slice:
		if v.IsNil() || v.Cap() == 0 {
			return
		}
		a := v.Pointer()
		if _, ok := out[a]; !ok {
			out[a] = path + "[]"
		}
		for i := 0; i < v.Len(); i++ {
			c03Pointers(v.Index(i), path+"[]", out, seen)
		}
	case reflect.Map:
		if v.IsNil() {
			return
		}
		a := v.Pointer()
		if _, ok := out[a]; !ok {
			out[a] = path + "{}"
		}
		it := v.MapRange()
		for it.Next() {
			c03Pointers(it.Value(), path+"{}", out, seen)
		}
	}
}

func c03Shared(inputs []*profile.Profile, out *profile.Profile) []string {
	in := map[uintptr]string{}
	seen := map[uintptr]bool{}
	for _, p := range inputs {
		c03Pointers(reflect.ValueOf(p), "in", in, seen)
	}
	o := map[uintptr]string{}
	c03Pointers(reflect.ValueOf(out), "out", o, map[uintptr]bool{})
	set := map[string]bool{}
	for a, path := range o {
		if _, ok := in[a]; ok {
			set[path] = true
		}
	}
	var res []string
	for k := range set {
		res = append(res, k)
	}
	sort.Strings(res)
	return res
}

func c03KRS(p *profile.Profile) Term {
	var l []Term
	for _, m := range p.Mapping {
		l = append(l, L(ZU(m.ID), S(m.KernelRelocationSymbol)))
	}
	return L(l...)
}

func c03Merge(ps []*profile.Profile) (q *profile.Profile, res string, msg string) {
	defer func() {
		if e := recover(); e != nil {
			q, res, msg = nil, "panic", fmt.Sprint(e)
		}
	}()
	q, err := profile.Merge(ps)
	if err != nil {
		return nil, "err", err.Error()
	}
	return q, "ok", ""
}

func c03Compact(p *profile.Profile) (q *profile.Profile, res string) {
	defer func() {
		if e := recover(); e != nil {
			q, res = nil, "panic"
		}
	}()
	return p.Compact(), "ok"
}

// c03Emit runs Merge on ps and records the case.
//   input    = ["merge"; [profile dumps]; [kernel relocation symbols per input mapping]]
//   observed = ["ok"; dump; [shared pointer paths]; inputs-modified; compact-is-identity;
//               [krs per output mapping]; [dump of Merge(reverse inputs)] ]  |  ["err"] | ["panic"; msg]
func c03Emit(c *Ctx, gen string, ps []*profile.Profile, nontrivial bool, tags ...string) {
	c03EmitOp(c, gen, "merge", ps, nontrivial, tags...)
}

// c03EmitCompact records p.Compact() (op "compact": same layout and same judgement as Merge([p])).
func c03EmitCompact(c *Ctx, gen string, p *profile.Profile, nontrivial bool, tags ...string) {
	c03EmitOp(c, gen, "compact", []*profile.Profile{p}, nontrivial, tags...)
}

func c03EmitOp(c *Ctx, gen, op string, ps []*profile.Profile, nontrivial bool, tags ...string) {
	var ins, krs []Term
	for _, p := range ps {
		ins = append(ins, DumpProfile(p))
		krs = append(krs, c03KRS(p))
	}
	in := L(S(op), L(ins...), L(krs...))
	before := Render(in)
	deepBefore := c03DeepSnapshot(ps)
	var q *profile.Profile
	var res, msg string
	if op == "compact" {
		q, res = c03Compact(ps[0])
	} else {
		q, res, msg = c03Merge(ps)
	}
	deepModified := c03DeepSnapshot(ps) != deepBefore // unexported fields included
	tags = append(tags, "op:"+op, "res:"+res, fmt.Sprintf("inputs:%d", len(ps)))
	var obs Term
	switch res {
	case "ok":
		shared := c03Shared(ps, q)
		var ins2, krs2 []Term
		for _, p := range ps {
			ins2 = append(ins2, DumpProfile(p))
			krs2 = append(krs2, c03KRS(p))
		}
		modified := Render(L(S(op), L(ins2...), L(krs2...))) != before || deepModified
		d := DumpProfile(q)
		q2, res2 := c03Compact(q)
		same := res2 == "ok" && q2 != nil && q2 != q && Render(DumpProfile(q2)) == Render(d) && Render(DumpProfile(q)) == Render(d) &&
			len(c03Shared([]*profile.Profile{q}, q2)) == 0
		rev := L()
		if len(ps) >= 2 {
			rp := make([]*profile.Profile, len(ps))
			for i := range ps {
				rp[len(ps)-1-i] = ps[i]
			}
			if qr, resr, _ := c03Merge(rp); resr == "ok" {
				rev = L(DumpProfile(qr))
			} else {
				rev = L(S(resr))
			}
		}
		if len(q.Sample) > 0 {
			tags = append(tags, "out:samples")
		}
		obs = L(S("ok"), d, Ss(shared), Bool(modified), Bool(same), c03KRS(q), rev)
	case "err":
		obs = L(S("err"))
	default:
		obs = L(S("panic"), S(msg))
	}
	c.Case(gen, in, obs, nontrivial, tags...)
}

// ---------------------------------------------------------------------------------------------
// generators

var c03Names = []string{"main", "foo", "bar", "runtime.mallocgc", "a", "b", ""}
var c03FilesP = []string{"main.go", "foo.c", "", "dir/x.cc"}
var c03Builds = []string{"", "abc123", "ff00"}
var c03MFiles = []string{"/bin/app", "/lib/libc.so", "", "[kernel.kallsyms]_stext"}

func c03RandHeader(r *Rng, nst int) c03Header {
	h := c03Header{}
	for i := 0; i < nst; i++ {
		h.st = append(h.st, profile.ValueType{Type: PickS(r, typePool), Unit: PickS(r, unitPool)})
	}
	h.pt = &profile.ValueType{Type: PickS(r, typePool), Unit: PickS(r, unitPool)}
	return h
}

// per-profile header variation (the types stay those of h)
func c03VaryHeader(r *Rng, h c03Header) c03Header {
	g := h
	g.period = PickI(r, []int64{0, 0, 1, 10, 10, 100, -5, math.MaxInt64, math.MinInt64, int64(r.Intn(1000))})
	g.time = PickI(r, []int64{0, 0, 0, 5, 7, 7, 1000, -3, math.MinInt64, math.MaxInt64, int64(r.Intn(100000))})
	g.dur = PickI(r, []int64{0, 1, 10, -10, math.MaxInt64, math.MinInt64, 1 << 62, int64(r.Intn(100000))})
	g.comm = nil
	for i := r.Intn(4); i > 0; i-- {
		g.comm = append(g.comm, PickS(r, []string{"c1", "c2", "c3", "", "c1", "héllo"}))
	}
	g.drop = PickS(r, []string{"", "", "foo|ba.", "x"})
	g.keep = PickS(r, []string{"", "", "bar"})
	g.defType = PickS(r, []string{"", "", h.st[0].Type, "zzz"})
	g.docURL = PickS(r, []string{"", "", "http://a/", "http://b/"})
	return g
}

func c03RandF(r *Rng) c03F {
	return c03F{name: PickS(r, c03Names), sys: PickS(r, c03Names), file: PickS(r, c03FilesP), start: int64(r.Intn(4))}
}
func c03RandM(r *Rng) c03M {
	m := c03M{size: 0x10000 + uint64(r.Intn(3))*0x1000 + uint64(PickI(r, []int64{0, 0, 1, 0xfff, 0x800})),
		offset: uint64(r.Intn(3)) * 0x1000, file: PickS(r, c03MFiles), build: PickS(r, c03Builds)}
	m.flags = [4]bool{r.Bool(), r.Bool(), r.Bool(), r.Bool()}
	if r.P(1, 5) {
		m.krs = PickS(r, []string{"_text", "_stext"})
	}
	if r.P(1, 30) {
		m.size = c03PickU(r, []uint64{0, 1, math.MaxUint64, math.MaxUint64 - 0xffe, math.MaxUint64 - 0xfff, 1 << 63})
	}
	return m
}
func c03PickU(r *Rng, l []uint64) uint64 { return l[r.Intn(len(l))] }

func c03RandL(r *Rng, pool *c03Pool, maxLines int) c03L {
	l := c03L{m: -1, rel: uint64(r.Intn(6)) * 0x10, folded: r.P(1, 6)}
	if len(pool.ms) > 0 && !r.P(1, 6) {
		l.m = r.Intn(len(pool.ms))
	}
	n := r.Intn(maxLines + 1)
	for j := 0; j < n; j++ {
		l.lines = append(l.lines, c03Ln{f: r.Intn(len(pool.fs)), line: int64(r.Intn(3)), col: int64(r.Intn(3))})
	}
	if r.P(1, 40) {
		l.rel = c03PickU(r, []uint64{math.MaxUint64, 1 << 63, math.MaxUint64 - 0x400000})
	}
	return l
}

var c03LabKeys = []string{"k", "key", "a", "b", ""}
var c03LabVals = []string{"v", "w", "", "\x00", "\x01", "a"}

func c03RandS(r *Rng, pool *c03Pool) c03S {
	s := c03S{}
	for d := r.Intn(5); d > 0; d-- {
		s.locs = append(s.locs, r.Intn(len(pool.ls)))
	}
	if r.P(1, 3) {
		s.label = map[string][]string{}
		for j := r.Intn(3); j > 0; j-- {
			var vs []string
			for q := r.Intn(3); q > 0; q-- {
				vs = append(vs, PickS(r, c03LabVals))
			}
			s.label[PickS(r, c03LabKeys)] = vs
		}
	}
	if r.P(1, 3) {
		s.num = map[string][]int64{}
		s.numUnit = map[string][]string{}
		for j := r.Intn(3); j > 0; j-- {
			k := PickS(r, c03LabKeys)
			n := r.Intn(3)
			var vs []int64
			for q := 0; q < n; q++ {
				vs = append(vs, PickI(r, []int64{0, 1, 2, -1, 127, 128, 300, math.MinInt64, math.MaxInt64}))
			}
			s.num[k] = vs
			switch r.Intn(4) {
			case 0:
			case 1:
				us := make([]string, n)
				for q := range us {
					us[q] = PickS(r, []string{"bytes", "", "ms"})
				}
				s.numUnit[k] = us
			case 2:
				s.numUnit[k] = make([]string, n)
			case 3:
				s.numUnit[PickS(r, c03LabKeys)] = []string{"bytes"} // unit for a key that may have no value
			}
		}
	}
	return s
}

// near-duplicates: a copy of an existing entity with exactly one attribute changed
func c03VariantF(r *Rng, f c03F) c03F {
	switch r.Intn(4) {
	case 0:
		f.name += "x"
	case 1:
		f.sys += "x"
	case 2:
		f.file += "x"
	default:
		f.start++
	}
	return f
}
func c03VariantM(r *Rng, m c03M) c03M {
	switch r.Intn(8) {
	case 0:
		m.build += "0"
	case 1:
		m.file += "x"
	case 2:
		m.offset += 0x1000
	case 3:
		m.size += 0x1000
	case 4:
		m.size ^= 1 // usually the same 4 KiB page count: same binary
	case 5:
		m.flags[r.Intn(4)] = !m.flags[r.Intn(4)] // not part of the identity
	case 6:
		m.krs = "_text" // not part of the identity
	default:
		m.offset++
	}
	return m
}
func c03VariantL(r *Rng, pool *c03Pool, l c03L) c03L {
	l.lines = append([]c03Ln(nil), l.lines...)
	n := len(l.lines)
	switch k := r.Intn(8); {
	case k == 0:
		l.rel++
	case k == 1:
		l.folded = !l.folded
	case k == 2:
		if l.m >= 0 && r.Bool() {
			l.m = -1
		} else if len(pool.ms) > 0 {
			l.m = r.Intn(len(pool.ms))
		}
	case k == 3 && n > 0:
		l.lines[r.Intn(n)].col++
	case k == 4 && n > 0:
		l.lines[r.Intn(n)].line++
	case k == 5 && n > 0:
		l.lines[r.Intn(n)].f = r.Intn(len(pool.fs))
	case k == 6 && n > 1:
		i, j := r.Intn(n), r.Intn(n)
		l.lines[i], l.lines[j] = l.lines[j], l.lines[i]
	default:
		if n > 0 && r.Bool() {
			l.lines = l.lines[:n-1]
		} else {
			l.lines = append(l.lines, c03Ln{f: r.Intn(len(pool.fs)), line: int64(r.Intn(3)), col: int64(r.Intn(3))})
		}
	}
	return l
}

func c03RandPool(r *Rng, big bool) *c03Pool {
	pool := &c03Pool{}
	k := 1
	if big {
		k = 2
	}
	for i := 1 + r.Intn(2*k); i > 0; i-- {
		pool.fs = append(pool.fs, c03RandF(r))
	}
	for i := r.Intn(3 * k); i > 0; i-- {
		pool.fs = append(pool.fs, c03VariantF(r, pool.fs[r.Intn(len(pool.fs))]))
	}
	for i := r.Intn(2*k + 1); i > 0; i-- {
		pool.ms = append(pool.ms, c03RandM(r))
	}
	if len(pool.ms) > 0 {
		for i := r.Intn(2*k + 1); i > 0; i-- {
			pool.ms = append(pool.ms, c03VariantM(r, pool.ms[r.Intn(len(pool.ms))]))
		}
	}
	for i := 1 + r.Intn(2*k); i > 0; i-- {
		pool.ls = append(pool.ls, c03RandL(r, pool, 3))
	}
	for i := r.Intn(3*k + 1); i > 0; i-- {
		pool.ls = append(pool.ls, c03VariantL(r, pool, pool.ls[r.Intn(len(pool.ls))]))
	}
	for i := 1 + r.Intn(3*k); i > 0; i-- {
		pool.ss = append(pool.ss, c03RandS(r, pool))
	}
	for i := r.Intn(2*k + 1); i > 0; i-- { // same stack, other labels; same labels, other stack
		s := cloneS(pool.ss[r.Intn(len(pool.ss))])
		if r.Bool() {
			t := c03RandS(r, pool)
			s.label, s.num, s.numUnit = t.label, t.num, t.numUnit
		} else {
			s.locs = c03RandS(r, pool).locs
		}
		pool.ss = append(pool.ss, s)
	}
	return pool
}

func c03Value(r *Rng) int64 {
	switch r.Intn(10) {
	case 0:
		return 0
	case 1:
		return PickI(r, []int64{math.MaxInt64, math.MinInt64, 1 << 62, -(1 << 62), math.MaxInt64 - 1, 1 << 63 >> 1})
	case 2, 3:
		return -int64(r.Intn(5))
	default:
		return int64(r.Intn(5))
	}
}

func c03Vals(r *Rng, nst int) []int64 {
	v := make([]int64, nst)
	if r.P(1, 8) {
		return v // all-zero sample
	}
	for i := range v {
		v[i] = c03Value(r)
	}
	return v
}

func c03RandomList(c *Ctx, gen string, big bool) {
	r := c.R
	pool := c03RandPool(r, big)
	nst := 1 + r.Intn(3)
	h := c03RandHeader(r, nst)
	np := 1 + r.Intn(4)
	if big {
		np = 1 + r.Intn(6)
	}
	var ps []*profile.Profile
	usedBy := map[int]int{}
	shares := false
	var prev []c03Use
	for i := 0; i < np; i++ {
		var uses []c03Use
		if i > 0 && r.P(1, 4) { // cancel (part of) the previous profile
			for _, u := range prev {
				if r.P(3, 4) {
					v := make([]int64, nst)
					for j := range v {
						v[j] = -u.val[j]
					}
					uses = append(uses, c03Use{u.s, v})
				}
			}
		}
		for k := r.Intn(5); k > 0; k-- {
			uses = append(uses, c03Use{r.Intn(len(pool.ss)), c03Vals(r, nst)})
		}
		for _, u := range uses {
			if usedBy[u.s] > 0 {
				shares = true
			}
		}
		for _, u := range uses {
			usedBy[u.s]++
		}
		prev = uses
		ps = append(ps, c03Instantiate(r, pool, c03VaryHeader(r, h), uses, r.Intn(4), r.Bool(), r.P(1, 4)))
	}
	c03Emit(c, gen, ps, np >= 2 && shares)
}

// the systematic single-attribute pairs: a base world (one mapping, three functions, a location
// with three inline lines, a caller location, a labelled sample) and one changed attribute
type c03Mut struct {
	name string
	f    func(p *c03Pool) // edits entity index 1 of its kind (a copy of index 0) or sample 1
}

func c03BaseWorld() *c03Pool {
	p := &c03Pool{}
	p.fs = []c03F{{"f0", "s0", "a.go", 3}, {"f1", "s1", "b.go", 5}, {"f2", "s2", "c.go", 7}, {"caller", "caller", "m.go", 1}}
	p.ms = []c03M{{size: 0x20000, offset: 0x1000, file: "/bin/app", build: "id1", flags: [4]bool{true, true, false, false}}}
	p.ls = []c03L{
		{m: 0, rel: 0x100, lines: []c03Ln{{0, 10, 1}, {1, 20, 2}, {2, 30, 3}}},
		{m: 0, rel: 0x100, lines: []c03Ln{{0, 10, 1}, {1, 20, 2}, {2, 30, 3}}}, // the variant
		{m: 0, rel: 0x900, lines: []c03Ln{{3, 1, 0}}},
	}
	lab := func() c03S {
		return c03S{label: map[string][]string{"k": {"v"}}, num: map[string][]int64{"n": {8}}, numUnit: map[string][]string{"n": {"bytes"}}}
	}
	s0, s1 := lab(), lab()
	s0.locs = []int{0, 2}
	s1.locs = []int{1, 2}
	p.ss = []c03S{s0, s1}
	return p
}

// variant function / mapping are appended copies that location 1 is switched to
func c03Muts() []c03Mut {
	withF := func(line int, ed func(f *c03F)) func(p *c03Pool) {
		return func(p *c03Pool) {
			f := p.fs[p.ls[1].lines[line].f]
			ed(&f)
			p.fs = append(p.fs, f)
			p.ls[1].lines[line].f = len(p.fs) - 1
		}
	}
	withM := func(ed func(m *c03M)) func(p *c03Pool) {
		return func(p *c03Pool) {
			m := p.ms[0]
			ed(&m)
			p.ms = append(p.ms, m)
			p.ls[1].m = len(p.ms) - 1
		}
	}
	ms := []c03Mut{
		{"same", func(p *c03Pool) {}},
		{"map.build", withM(func(m *c03M) { m.build = "id2" })},
		{"map.file-with-build", withM(func(m *c03M) { m.file = "/bin/other" })}, // same binary: build id wins
		{"map.file-no-build", func(p *c03Pool) {
			p.ms[0].build = ""
			m := p.ms[0]
			m.file = "/bin/other"
			p.ms = append(p.ms, m)
			p.ls[1].m = 1
		}},
		{"map.fake-both-empty", func(p *c03Pool) {
			p.ms[0].build, p.ms[0].file = "", ""
			m := p.ms[0]
			p.ms = append(p.ms, m)
			p.ls[1].m = 1
		}},
		{"map.offset", withM(func(m *c03M) { m.offset += 0x1000 })},
		{"map.size-page", withM(func(m *c03M) { m.size += 0x1000 })},
		{"map.size-within-page", withM(func(m *c03M) { m.size -= 0x10 })},
		{"map.size-boundary", withM(func(m *c03M) { m.size += 1 })},
		{"map.flags", withM(func(m *c03M) { m.flags = [4]bool{false, false, true, true} })},
		{"map.krs", withM(func(m *c03M) { m.krs = "_stext" })},
		{"map.none", func(p *c03Pool) { p.ls[1].m = -1 }},
		{"loc.addr", func(p *c03Pool) { p.ls[1].rel++ }},
		// addresses at and beyond the edges of the mapping.  A location that carries a mapping but an
		// address BELOW its start (typically 0: "no address") has the relative address A - Start mod
		// 2^64; it is not the frame at Start + A
		{"loc.below-start-twin", func(p *c03Pool) { p.ls[1].abs = true }},                    // absolute 0x100 next to Start+0x100
		{"loc.below-start-zero", func(p *c03Pool) { p.ls[0].rel = 0; p.ls[1].rel, p.ls[1].abs = 0, true }}, // address 0 next to a frame AT the start
		{"loc.below-start-one", func(p *c03Pool) { p.ls[0].rel = 1; p.ls[1].rel, p.ls[1].abs = 1, true }},
		{"loc.below-start-two-abs", func(p *c03Pool) { p.ls[0].rel, p.ls[0].abs = 0, true; p.ls[1].rel, p.ls[1].abs = 0x100, true }},
		{"loc.just-below-start", func(p *c03Pool) { p.ls[0].rel = 0; p.ls[1].rel = math.MaxUint64 }}, // Start-1 next to Start
		{"loc.at-start", func(p *c03Pool) { p.ls[0].rel = 0; p.ls[1].rel = 1 }},
		{"loc.at-limit", func(p *c03Pool) { p.ls[0].rel = p.ms[0].size - 1; p.ls[1].rel = p.ms[0].size }},
		{"loc.beyond-limit", func(p *c03Pool) { p.ls[1].rel = p.ms[0].size + 0x100 }},
		{"loc.top-of-space", func(p *c03Pool) { p.ls[1].rel, p.ls[1].abs = math.MaxUint64, true }},
		{"loc.no-mapping-same-address", func(p *c03Pool) { p.ls[1].m = -1; p.ls[1].rel = 0x100 }}, // unmapped frame at the twin's relative address
		{"loc.folded", func(p *c03Pool) { p.ls[1].folded = true }},
		{"loc.fewer-lines", func(p *c03Pool) { p.ls[1].lines = p.ls[1].lines[:2] }},
		{"loc.no-lines", func(p *c03Pool) { p.ls[1].lines = nil }},
		{"loc.more-lines", func(p *c03Pool) { p.ls[1].lines = append(p.ls[1].lines, c03Ln{3, 1, 0}) }},
		{"loc.swap-lines01", func(p *c03Pool) { l := p.ls[1].lines; l[0], l[1] = l[1], l[0] }},
		{"loc.swap-lines12", func(p *c03Pool) { l := p.ls[1].lines; l[1], l[2] = l[2], l[1] }},
		{"loc.shift-columns", func(p *c03Pool) { // same multiset of numbers, other slots
			l := p.ls[1].lines
			l[0].col, l[1].line = l[1].line, l[0].col
		}},
		{"sample.label-key", func(p *c03Pool) { p.ss[1].locs = p.ss[0].locs; p.ss[1].label = map[string][]string{"k2": {"v"}} }},
		{"sample.label-value", func(p *c03Pool) { p.ss[1].locs = p.ss[0].locs; p.ss[1].label = map[string][]string{"k": {"w"}} }},
		{"sample.label-mult", func(p *c03Pool) { p.ss[1].locs = p.ss[0].locs; p.ss[1].label = map[string][]string{"k": {"v", "v"}} }},
		{"sample.label-none", func(p *c03Pool) { p.ss[1].locs = p.ss[0].locs; p.ss[1].label = nil }},
		{"sample.label-empty-values", func(p *c03Pool) { p.ss[1].locs = p.ss[0].locs; p.ss[1].label = map[string][]string{"k": {}} }},
		{"sample.label-split", func(p *c03Pool) {
			p.ss[0].label = map[string][]string{"k": {"v", "w"}}
			p.ss[1].locs = p.ss[0].locs
			p.ss[1].label = map[string][]string{"k": {"v"}, "w": {}}
		}},
		{"sample.num-value", func(p *c03Pool) { p.ss[1].locs = p.ss[0].locs; p.ss[1].num = map[string][]int64{"n": {9}} }},
		{"sample.num-mult", func(p *c03Pool) {
			p.ss[1].locs = p.ss[0].locs
			p.ss[1].num = map[string][]int64{"n": {8, 8}}
			p.ss[1].numUnit = map[string][]string{"n": {"bytes", "bytes"}}
		}},
		{"sample.num-unit", func(p *c03Pool) { p.ss[1].locs = p.ss[0].locs; p.ss[1].numUnit = map[string][]string{"n": {"ms"}} }},
		{"sample.num-unit-absent", func(p *c03Pool) { p.ss[1].locs = p.ss[0].locs; p.ss[1].numUnit = nil }},
		{"sample.num-unit-empty", func(p *c03Pool) { p.ss[1].locs = p.ss[0].locs; p.ss[1].numUnit = map[string][]string{"n": {""}} }},
		{"sample.num-key", func(p *c03Pool) {
			p.ss[1].locs = p.ss[0].locs
			p.ss[1].num = map[string][]int64{"m": {8}}
			p.ss[1].numUnit = map[string][]string{"m": {"bytes"}}
		}},
		{"sample.num-none", func(p *c03Pool) { p.ss[1].locs = p.ss[0].locs; p.ss[1].num, p.ss[1].numUnit = nil, nil }},
		{"sample.str-vs-num-F2", func(p *c03Pool) { // the F2 witness: Label{a:"\x00"} vs NumLabel{a:[1]}
			p.ss[0].label, p.ss[0].num, p.ss[0].numUnit = map[string][]string{"a": {"\x00"}}, nil, nil
			p.ss[1].locs = p.ss[0].locs
			p.ss[1].label, p.ss[1].num, p.ss[1].numUnit = nil, map[string][]int64{"a": {1}}, nil
		}},
		{"sample.stack-extra-frame", func(p *c03Pool) { p.ss[1].locs = []int{0, 2, 2} }},
		{"sample.stack-order", func(p *c03Pool) { p.ss[1].locs = []int{2, 0} }},
		{"sample.stack-empty", func(p *c03Pool) { p.ss[1].locs = nil }},
	}
	for line := 0; line < 3; line++ {
		ln := line
		sfx := fmt.Sprintf("@%d", ln)
		ms = append(ms,
			c03Mut{"fn.name" + sfx, withF(ln, func(f *c03F) { f.name += "x" })},
			c03Mut{"fn.sysname" + sfx, withF(ln, func(f *c03F) { f.sys += "x" })},
			c03Mut{"fn.file" + sfx, withF(ln, func(f *c03F) { f.file += "x" })},
			c03Mut{"fn.startline" + sfx, withF(ln, func(f *c03F) { f.start++ })},
			c03Mut{"fn.dup" + sfx, withF(ln, func(f *c03F) {})}, // a second, identical function object
			c03Mut{"line.line" + sfx, func(p *c03Pool) { p.ls[1].lines[ln].line++ }},
			c03Mut{"line.column" + sfx, func(p *c03Pool) { p.ls[1].lines[ln].col += 9 }},
			c03Mut{"line.function" + sfx, func(p *c03Pool) { p.ls[1].lines[ln].f = 3 }},
		)
	}
	// one attribute apart where the two values are the EMPTY one and the one EQUAL TO ANOTHER FIELD of the
	// same entity (system name == name vs no system name, file == name vs no file, ...): the shapes a key
	// that abbreviates "redundant" fields confuses.  both edits the shared base function first.
	both := func(line int, edBase, edVar func(f *c03F)) func(p *c03Pool) {
		return func(p *c03Pool) {
			edBase(&p.fs[p.ls[1].lines[line].f])
			withF(line, edVar)(p)
		}
	}
	for _, ln := range []int{0, 2} {
		ln := ln
		sfx := fmt.Sprintf("@%d", ln)
		ms = append(ms,
			c03Mut{"fn.sys-eq-name-vs-empty" + sfx, both(ln, func(f *c03F) { f.sys = f.name }, func(f *c03F) { f.sys = "" })},
			c03Mut{"fn.sys-eq-file-vs-empty" + sfx, both(ln, func(f *c03F) { f.sys = f.file }, func(f *c03F) { f.sys = "" })},
			c03Mut{"fn.sys-eq-name-vs-eq-file" + sfx, both(ln, func(f *c03F) { f.sys = f.name }, func(f *c03F) { f.sys = f.file })},
			c03Mut{"fn.name-eq-sys-vs-empty" + sfx, both(ln, func(f *c03F) { f.name = f.sys }, func(f *c03F) { f.name = "" })},
			c03Mut{"fn.name-eq-file-vs-empty" + sfx, both(ln, func(f *c03F) { f.name = f.file }, func(f *c03F) { f.name = "" })},
			c03Mut{"fn.file-eq-name-vs-empty" + sfx, both(ln, func(f *c03F) { f.file = f.name }, func(f *c03F) { f.file = "" })},
			c03Mut{"fn.file-eq-sys-vs-empty" + sfx, both(ln, func(f *c03F) { f.file = f.sys }, func(f *c03F) { f.file = "" })},
			c03Mut{"fn.all-equal-vs-sys-empty" + sfx, both(ln, func(f *c03F) { f.sys, f.file = f.name, f.name }, func(f *c03F) { f.sys = "" })},
			c03Mut{"fn.start-zero-vs-line" + sfx, both(ln, func(f *c03F) { f.start = 0 }, func(f *c03F) { f.start = 10 })},
			c03Mut{"line.line-eq-col-vs-zero" + sfx, func(p *c03Pool) {
				p.ls[0].lines[ln].line, p.ls[0].lines[ln].col = 7, 7
				p.ls[1].lines[ln].line, p.ls[1].lines[ln].col = 7, 0
			}},
			c03Mut{"line.col-eq-line-vs-zero" + sfx, func(p *c03Pool) {
				p.ls[0].lines[ln].line, p.ls[0].lines[ln].col = 7, 7
				p.ls[1].lines[ln].line, p.ls[1].lines[ln].col = 0, 7
			}},
		)
	}
	ms = append(ms,
		c03Mut{"map.file-eq-build-vs-empty", withM(func(m *c03M) { m.file = "" })}, // same binary: the build id decides
		c03Mut{"map.build-eq-file-vs-empty", func(p *c03Pool) { // same binary: without a build id the file does
			p.ms[0].build = p.ms[0].file
			withM(func(m *c03M) { m.build = "" })(p)
		}},
		c03Mut{"map.offset-zero-vs-size", func(p *c03Pool) { p.ms[0].offset = 0; withM(func(m *c03M) { m.offset = m.size })(p) }},
		c03Mut{"sample.label-val-eq-key-vs-empty", func(p *c03Pool) {
			p.ss[0].label = map[string][]string{"k": {"k"}}
			p.ss[1].locs = p.ss[0].locs
			p.ss[1].label = map[string][]string{"k": {""}}
		}},
		c03Mut{"sample.num-unit-eq-key-vs-none", func(p *c03Pool) {
			p.ss[0].numUnit = map[string][]string{"n": {"n"}}
			p.ss[1].locs = p.ss[0].locs
			p.ss[1].numUnit = nil
		}},
	)
	return ms
}

func c03AttrPairs(c *Ctx) {
	r := c.R
	h := c03Header{st: []profile.ValueType{{Type: "samples", Unit: "count"}, {Type: "cpu", Unit: "ns"}},
		pt: &profile.ValueType{Type: "cpu", Unit: "ns"}, period: 10, time: 100, dur: 5}
	for mi, mu := range c03Muts() {
		w := c03BaseWorld()
		mu.f(w)
		a := []c03Use{{0, []int64{1, 100}}}
		b := []c03Use{{1, []int64{10, 1000}}}
		both := []c03Use{{0, []int64{1, 100}}, {1, []int64{10, 1000}}}
		rboth := []c03Use{{1, []int64{20, 2000}}, {0, []int64{2, 200}}}
		tag := "attr:" + mu.name
		for idmode := 0; idmode < 4; idmode++ {
			if c.Tier != "thorough" && idmode%2 != mi%2 { // quick tier: two of the four id layouts per attribute
				continue
			}
			// the two entities in one profile
			c03Emit(c, "attr-one", []*profile.Profile{c03Instantiate(r, w, h, both, idmode, false, true)}, false, tag)
			// one each in two profiles, second at another load address and other ids
			c03Emit(c, "attr-two", []*profile.Profile{c03Instantiate(r, w, h, a, 0, false, true),
				c03Instantiate(r, w, h, b, idmode, idmode%2 == 1, true)}, true, tag)
			// both in both, opposite order
			c03Emit(c, "attr-cross", []*profile.Profile{c03Instantiate(r, w, h, both, idmode, true, false),
				c03Instantiate(r, w, h, rboth, 3-idmode, false, false)}, true, tag)
		}
		// cancellation of exactly one of the two
		neg := []c03Use{{1, []int64{-10, -1000}}}
		c03Emit(c, "attr-cancel", []*profile.Profile{c03Instantiate(r, w, h, both, 1, false, true),
			c03Instantiate(r, w, h, neg, 2, true, true)}, true, tag)
	}
}

func c03HeaderCases(c *Ctx) {
	r := c.R
	w := c03BaseWorld()
	mk := func(h c03Header) *profile.Profile {
		return c03Instantiate(r, w, h, []c03Use{{0, []int64{1}}}, 0, false, true)
	}
	base := c03Header{st: []profile.ValueType{{Type: "samples", Unit: "count"}}, pt: &profile.ValueType{Type: "cpu", Unit: "ns"}}
	times := [][]int64{{5, 0}, {5, 0, 7}, {0, 5}, {0, 0}, {7, 5}, {5, 7}, {-1, 5}, {5, -1}, {0, -1, 0}, {math.MinInt64, 1}, {3, 3}}
	for _, ts := range times { // earliest NON-ZERO time (F24 regression: [5,0] and [5,0,7])
		var ps []*profile.Profile
		for _, t := range ts {
			h := base
			h.time = t
			ps = append(ps, mk(h))
		}
		c03Emit(c, "header-time", ps, true, "hdr:time")
	}
	for _, pd := range [][]int64{{0, 0}, {10, 5}, {5, 10}, {-5, 0}, {0, -5}, {-5, -7}, {-7, -5}, {math.MinInt64, 0}, {3, 3, 9, 1}} {
		var ps []*profile.Profile
		for _, x := range pd {
			h := base
			h.period = x
			ps = append(ps, mk(h))
		}
		c03Emit(c, "header-period", ps, true, "hdr:period")
	}
	for _, ds := range [][]int64{{1, 2, 3}, {math.MaxInt64, 1}, {math.MinInt64, -1}, {math.MaxInt64, math.MaxInt64, 2}, {-5, 5}} {
		var ps []*profile.Profile
		for _, x := range ds {
			h := base
			h.dur = x
			ps = append(ps, mk(h))
		}
		c03Emit(c, "header-duration", ps, true, "hdr:duration")
	}
	for _, cs := range [][][]string{{{"a", "b"}, {"b", "c"}}, {{"a", "a"}, {}}, {{}, {"x", "", "x"}}, {{"b"}, {"a"}, {"b", "a", "c"}}} {
		var ps []*profile.Profile
		for _, x := range cs {
			h := base
			h.comm = x
			ps = append(ps, mk(h))
		}
		c03Emit(c, "header-comments", ps, true, "hdr:comments")
	}
	for _, ds := range [][]string{{"", "x", "y"}, {"x", "", "y"}, {"", "", ""}} {
		var ps []*profile.Profile
		for _, x := range ds {
			h := base
			h.defType, h.docURL, h.drop, h.keep = x, x, x, x
			ps = append(ps, mk(h))
		}
		c03Emit(c, "header-first", ps, true, "hdr:first")
	}
	// compatibility: differing sample type / unit / count / period type => error
	bad := []c03Header{
		{st: []profile.ValueType{{Type: "samples", Unit: "ms"}}, pt: base.pt},
		{st: []profile.ValueType{{Type: "cpu", Unit: "count"}}, pt: base.pt},
		{st: []profile.ValueType{{Type: "samples", Unit: "count"}}, pt: &profile.ValueType{Type: "cpu", Unit: "ms"}},
		{st: []profile.ValueType{{Type: "samples", Unit: "count"}}, pt: &profile.ValueType{Type: "wall", Unit: "ns"}},
	}
	for _, b := range bad {
		c03Emit(c, "incompatible", []*profile.Profile{mk(base), mk(b)}, true, "hdr:compat")
		c03Emit(c, "incompatible", []*profile.Profile{mk(base), mk(base), mk(b)}, true, "hdr:compat")
		c03Emit(c, "incompatible", []*profile.Profile{mk(b), mk(base)}, true, "hdr:compat")
	}
	two := c03Header{st: []profile.ValueType{{Type: "samples", Unit: "count"}, {Type: "cpu", Unit: "ns"}}, pt: base.pt}
	p2 := c03Instantiate(r, w, two, []c03Use{{0, []int64{1, 2}}}, 0, false, true)
	c03Emit(c, "incompatible", []*profile.Profile{mk(base), p2}, true, "hdr:compat")
	c03Emit(c, "incompatible", []*profile.Profile{p2, mk(base)}, true, "hdr:compat")
	c03Emit(c, "empty-list", nil, false, "hdr:compat")
	// a nil PeriodType is dereferenced by compatible() as soon as there are two inputs
	nopt := base
	nopt.pt = nil
	c03Emit(c, "nil-periodtype", []*profile.Profile{mk(nopt)}, false, "hdr:nilpt")
	c03Emit(c, "nil-periodtype", []*profile.Profile{mk(nopt), mk(nopt)}, false, "hdr:nilpt")
	c03Emit(c, "nil-periodtype", []*profile.Profile{mk(base), mk(nopt)}, false, "hdr:nilpt")
}

// the witnesses of the repaired defects F1, F2, F3, F24 are always replayed
func c03Regressions(c *Ctx) {
	r := c.R
	{ // known finding F25: periods [0, -5] give -5, not the maximum
		h0 := c03Header{st: []profile.ValueType{{Type: "samples", Unit: "count"}}, pt: &profile.ValueType{Type: "cpu", Unit: "ns"}}
		h1 := h0
		h1.period = -5
		c03Emit(c, "finding-F25", []*profile.Profile{c03Instantiate(r, c03BaseWorld(), h0, []c03Use{{0, []int64{1}}}, 0, false, true),
			c03Instantiate(r, c03BaseWorld(), h1, []c03Use{{0, []int64{1}}}, 0, false, true)}, true)
	}
	h := c03Header{st: []profile.ValueType{{Type: "samples", Unit: "count"}}, pt: &profile.ValueType{Type: "cpu", Unit: "ns"}}
	// F1: locations differing only in the column of a non-last inline line
	w := c03BaseWorld()
	w.ls[1].lines[0].col = 77
	c03Emit(c, "regress-F1", []*profile.Profile{c03Instantiate(r, w, h, []c03Use{{0, []int64{1}}, {1, []int64{10}}}, 0, false, true)}, false)
	w = c03BaseWorld()
	w.ls[1].lines[1].col = 77
	c03Emit(c, "regress-F1", []*profile.Profile{c03Instantiate(r, w, h, []c03Use{{0, []int64{1}}}, 0, false, true),
		c03Instantiate(r, w, h, []c03Use{{1, []int64{10}}}, 0, false, true)}, true)
	// F2
	w = c03BaseWorld()
	w.ss[0].label, w.ss[0].num, w.ss[0].numUnit = map[string][]string{"a": {"\x00"}}, nil, nil
	w.ss[1] = c03S{locs: w.ss[0].locs, num: map[string][]int64{"a": {1}}}
	c03Emit(c, "regress-F2", []*profile.Profile{c03Instantiate(r, w, h, []c03Use{{0, []int64{1}}, {1, []int64{10}}}, 0, false, true)}, false)
	// F24
	for _, ts := range [][]int64{{5, 0}, {5, 0, 7}} {
		var ps []*profile.Profile
		for _, t := range ts {
			g := h
			g.time = t
			ps = append(ps, c03Instantiate(r, c03BaseWorld(), g, []c03Use{{0, []int64{1}}}, 0, false, true))
		}
		c03Emit(c, "regress-F24", ps, true)
	}
}

// c03Negate returns a profile with the same entities (shared with p, which is fine between
// inputs) and every sample value negated.  (Profile.Copy goes through the encoder, which panics on
// the inconsistent NumUnit lengths GenProfile can produce.)
func c03Negate(p *profile.Profile) *profile.Profile {
	q := &profile.Profile{SampleType: p.SampleType, DefaultSampleType: p.DefaultSampleType, Mapping: p.Mapping,
		Location: p.Location, Function: p.Function, Comments: p.Comments, DocURL: p.DocURL, DropFrames: p.DropFrames,
		KeepFrames: p.KeepFrames, TimeNanos: p.TimeNanos, DurationNanos: p.DurationNanos, PeriodType: p.PeriodType, Period: p.Period}
	for _, s := range p.Sample {
		t := &profile.Sample{Location: s.Location, Label: s.Label, NumLabel: s.NumLabel, NumUnit: s.NumUnit}
		for _, v := range s.Value {
			t.Value = append(t.Value, -v)
		}
		q.Sample = append(q.Sample, t)
	}
	return q
}

func c03SharedRandom(c *Ctx, n int) {
	// lists of GenProfile profiles forced to the same types: colliding ids, unrelated content,
	// and a profile merged with itself / its negation (the shape the existing tests use)
	r := c.R
	for i := 0; i < n; i++ {
		k := DefaultKnobs()
		k.MaxSampleTypes, k.MinSampleTypes = 2, 2
		k.SparseIDs = r.Bool()
		np := 1 + r.Intn(3)
		var ps []*profile.Profile
		for j := 0; j < np; j++ {
			p := GenProfile(r, k)
			p.SampleType = []*profile.ValueType{{Type: "samples", Unit: "count"}, {Type: "cpu", Unit: "ns"}}
			p.PeriodType = &profile.ValueType{Type: "cpu", Unit: "ns"}
			ps = append(ps, p)
		}
		nt := false
		switch r.Intn(4) {
		case 0:
			ps = append(ps, ps[0])
			nt = true
		case 1:
			ps = append(ps, c03Negate(ps[0]))
			nt = true
		}
		c03Emit(c, "genprofile", ps, nt)
	}
}

// byte-level comparison of sampleKey with the model's skey_bytes
func c03KeyCases(c *Ctx, n int) {
	r := c.R
	long := make([]byte, 300)
	for i := range long {
		long[i] = byte('a' + i%26)
	}
	strs := []string{"", "a", "k", "\x00", "\x01\x02", "\xff", string(long[:127]), string(long[:128]), string(long), "héllo"}
	ids := []uint64{1, 2, 127, 128, 129, 255, 256, 16383, 16384, 1 << 21, 1<<32 + 5, 1<<56 - 1, 1 << 56, 1<<63 - 1, 1 << 63, math.MaxUint64}
	nums := []int64{0, 1, -1, 127, 128, 300, math.MaxInt64, math.MinInt64, -128, 1 << 35}
	for i := 0; i < n; i++ {
		s := &profile.Sample{}
		for d := r.Intn(5); d > 0; d-- {
			s.Location = append(s.Location, &profile.Location{ID: c03PickU(r, ids)})
		}
		if r.P(2, 3) {
			s.Label = map[string][]string{}
			for j := r.Intn(4); j > 0; j-- {
				var vs []string
				for q := r.Intn(3); q > 0; q-- {
					vs = append(vs, PickS(r, strs))
				}
				s.Label[PickS(r, strs)] = vs
			}
		}
		if r.P(2, 3) {
			s.NumLabel = map[string][]int64{}
			s.NumUnit = map[string][]string{}
			for j := r.Intn(4); j > 0; j-- {
				var vs []int64
				for q := r.Intn(3); q > 0; q-- {
					vs = append(vs, PickI(r, nums))
				}
				k := PickS(r, strs)
				s.NumLabel[k] = vs
				if r.Bool() {
					var us []string
					for q := r.Intn(3); q > 0; q-- {
						us = append(us, PickS(r, strs))
					}
					s.NumUnit[k] = us
				}
			}
		}
		key := profile.VerifSampleKey(s)
		bs := make([]int64, len(key))
		for j := 0; j < len(key); j++ {
			bs[j] = int64(key[j])
		}
		c.Case("samplekey", L(S("skey"), DumpSample(s)), L(S("key"), Zs(bs)), len(s.Label)+len(s.NumLabel) > 0, "op:skey")
	}
}

// field-level comparison of Location.key (incl. the hex/join string) with the model
func c03LocKeyCases(c *Ctx, n int) {
	r := c.R
	ids := []uint64{1, 2, 9, 10, 15, 16, 17, 255, 256, 4095, 4096, 1 << 32, 1<<63 - 1, 1 << 63, math.MaxUint64, 0xabcdef, 0xdeadbeefcafe}
	nums := []int64{0, 1, -1, 9, 10, 15, 16, -16, 255, 256, -255, 1 << 40, math.MaxInt64, math.MinInt64, math.MinInt64 + 1, 0xabc, -0xabc}
	for i := 0; i < n; i++ {
		p := &profile.Profile{}
		l := &profile.Location{ID: 1, Address: c03PickU(r, []uint64{0, 1, 0x1000, 0x400100, 1 << 63, math.MaxUint64}), IsFolded: r.P(1, 3)}
		if r.P(2, 3) {
			m := &profile.Mapping{ID: c03PickU(r, ids), Start: c03PickU(r, []uint64{0, 0x1000, 0x400000, 1 << 63, math.MaxUint64 - 5})}
			m.Limit = m.Start + 0x1000
			l.Mapping = m
			p.Mapping = []*profile.Mapping{m}
		}
		used := map[uint64]*profile.Function{}
		for k := r.Intn(4); k > 0; k-- {
			id := c03PickU(r, ids)
			f := used[id]
			if f == nil {
				f = &profile.Function{ID: id, Name: "f"}
				used[id] = f
				p.Function = append(p.Function, f)
			}
			l.Line = append(l.Line, profile.Line{Function: f, Line: PickI(r, nums), Column: PickI(r, nums)})
		}
		p.Location = []*profile.Location{l}
		a, mid, lines, folded := profile.VerifLocationKey(l)
		c.Case("lockey", L(S("lkey"), DumpProfile(p)), L(S("key"), L(ZU(a), ZU(mid), S(lines), Bool(folded))), len(l.Line) > 0, "op:lkey")
	}
}

// ---------------------------------------------------------------------------------------------
// duplicate records INSIDE one input: several sample records with the same stack and labels whose
// values cancel, cancel partly, or cancel in some columns only.  Merge must sum them, drop the
// all-zero sums together with the entities only they reference (this is what the re-merge of the
// result is for, also for a one-element list), and Compact must reach its fixed point at once.

// c03DupGroup returns the value vectors of one group of duplicate records.
func c03DupGroup(r *Rng, nst int, mode int) (vals [][]int64, tag string) {
	v := make([]int64, nst)
	for i := range v {
		v[i] = int64(1 + r.Intn(9))
		if r.P(1, 4) {
			v[i] = -v[i]
		}
	}
	neg := func(a []int64) []int64 {
		b := make([]int64, len(a))
		for i := range a {
			b[i] = -a[i]
		}
		return b
	}
	cp := func(a []int64) []int64 { return append([]int64(nil), a...) }
	switch mode {
	case 0: // cancel completely
		return [][]int64{v, neg(v)}, "dup:cancel"
	case 1: // cancel partly: one column keeps a remainder
		w := neg(v)
		w[r.Intn(nst)] += int64(1 + r.Intn(3))
		return [][]int64{v, w}, "dup:partial"
	case 2: // cancel in one column only
		w := cp(v)
		j := r.Intn(nst)
		w[j] = -v[j]
		if nst == 1 {
			return [][]int64{v, w}, "dup:cancel"
		}
		return [][]int64{v, w}, "dup:column"
	case 3: // three records summing to zero
		a, b := cp(v), make([]int64, nst)
		for i := range b {
			b[i] = int64(r.Intn(7)) - 3
		}
		s := make([]int64, nst)
		for i := range s {
			s[i] = -(a[i] + b[i])
		}
		return [][]int64{a, b, s}, "dup:three"
	case 4: // cancel only through int64 wrap-around, or at the extremes
		a, b := make([]int64, nst), make([]int64, nst)
		for i := range a {
			if r.Bool() {
				a[i], b[i] = math.MinInt64, math.MinInt64
			} else {
				a[i], b[i] = math.MaxInt64, -math.MaxInt64
			}
		}
		return [][]int64{a, b}, "dup:wrap"
	case 5: // duplicates that add up, plus a literal all-zero record of the same stack
		return [][]int64{v, cp(v), make([]int64, nst)}, "dup:add"
	default: // cancel, and come back: v, -v, v
		return [][]int64{v, neg(v), cp(v)}, "dup:revive"
	}
}

const c03DupModes = 7

// c03DupWorld: stack A = [loc0, caller] (three inline functions only it uses), stack B = [loc1, caller]
// (its own address and functions), labelled according to lab: 0 both kinds, 1 none, 2 string, 3 numeric.
func c03DupWorld(lab int) *c03Pool {
	w := c03BaseWorld()
	w.fs = append(w.fs, c03F{"g0", "g0", "d.go", 2})
	w.ls[1] = c03L{m: 0, rel: 0x200, lines: []c03Ln{{4, 5, 1}}}
	for i := range w.ss {
		switch lab {
		case 1:
			w.ss[i].label, w.ss[i].num, w.ss[i].numUnit = nil, nil, nil
		case 2:
			w.ss[i].num, w.ss[i].numUnit = nil, nil
		case 3:
			w.ss[i].label = nil
		}
	}
	// same stack as A, other labels: must survive when A's records cancel
	o := cloneS(w.ss[0])
	o.label = map[string][]string{"other": {"x"}}
	w.ss = append(w.ss, o)
	return w
}

func c03DupSystematic(c *Ctx) {
	r := c.R
	h := c03Header{st: []profile.ValueType{{Type: "samples", Unit: "count"}, {Type: "cpu", Unit: "ns"}},
		pt: &profile.ValueType{Type: "cpu", Unit: "ns"}, period: 10, time: 100, dur: 5}
	k := 0
	for lab := 0; lab < 4; lab++ {
		for mode := 0; mode < c03DupModes; mode++ {
			for _, withOthers := range []bool{false, true} {
				k++
				if c.Tier != "thorough" && (k+lab)%2 == 0 { // quick tier: half of the table, every (lab, mode) pair present
					continue
				}
				w := c03DupWorld(lab)
				vals, tag := c03DupGroup(r, 2, mode)
				var uses []c03Use
				if withOthers {
					uses = append(uses, c03Use{1, []int64{3, 30}})
				}
				for i, v := range vals {
					uses = append(uses, c03Use{0, v})
					if withOthers && i == 0 {
						uses = append(uses, c03Use{2, []int64{7, 70}}) // same stack, other labels, in between
					}
				}
				tags := []string{tag, fmt.Sprintf("lab:%d", lab)}
				one := func() *profile.Profile { return c03Instantiate(r, w, h, uses, r.Intn(4), r.Bool(), r.P(1, 2)) }
				// the one-element list, through Merge and through Compact
				c03Emit(c, "dup-single", []*profile.Profile{one()}, true, tags...)
				c03EmitCompact(c, "dup-compact", one(), true, tags...)
				// k inputs: duplicates in the first, in the last, in all of them
				plain := c03Instantiate(r, w, h, []c03Use{{1, []int64{1, 10}}}, r.Intn(4), true, true)
				switch k % 3 {
				case 0:
					c03Emit(c, "dup-multi", []*profile.Profile{one(), plain}, true, tags...)
				case 1:
					c03Emit(c, "dup-multi", []*profile.Profile{plain, one()}, true, tags...)
				default:
					c03Emit(c, "dup-multi", []*profile.Profile{one(), plain, one()}, true, tags...)
				}
			}
		}
	}
}

// random pools: groups of duplicate records mixed with ordinary ones, in 1..3 inputs
func c03DupRandom(c *Ctx) {
	r := c.R
	pool := c03RandPool(r, false)
	if r.Bool() { // make sure labelled and unlabelled samples both occur
		t := c03RandS(r, pool)
		pool.ss[0].label, pool.ss[0].num, pool.ss[0].numUnit = t.label, t.num, t.numUnit
	}
	nst := 1 + r.Intn(3)
	h := c03RandHeader(r, nst)
	np := int(PickI(r, []int64{1, 1, 1, 2, 2, 3}))
	var ps []*profile.Profile
	var tags []string
	for i := 0; i < np; i++ {
		var uses []c03Use
		if i == 0 || r.P(2, 3) {
			for g := 1 + r.Intn(2); g > 0; g-- {
				si := r.Intn(len(pool.ss))
				vals, tag := c03DupGroup(r, nst, r.Intn(c03DupModes))
				tags = append(tags, tag)
				for _, v := range vals {
					uses = append(uses, c03Use{si, v})
				}
			}
		}
		for k := r.Intn(3); k > 0; k-- {
			uses = append(uses, c03Use{r.Intn(len(pool.ss)), c03Vals(r, nst)})
		}
		for a := len(uses) - 1; a > 0; a-- { // records of one group need not be adjacent
			b := r.Intn(a + 1)
			uses[a], uses[b] = uses[b], uses[a]
		}
		ps = append(ps, c03Instantiate(r, pool, c03VaryHeader(r, h), uses, r.Intn(4), r.Bool(), r.P(1, 3)))
	}
	c03Emit(c, "dup-random", ps, true, tags...)
	if np == 1 {
		c03EmitCompact(c, "dup-random-compact", ps[0], true, tags...)
	}
}

func runC03(c *Ctx) {
	c03E2ESystematic(c)
	for i := c.Budget(60, 4000); i > 0; i-- {
		c03E2ERandom(c)
	}
	if os.Getenv("C03_ONLY") == "e2e" { // debugging aid
		return
	}
	c03KeyCases(c, c.Budget(100, 5000))
	c03LocKeyCases(c, c.Budget(100, 5000))
	c03Regressions(c)
	c03HeaderCases(c)
	c03AttrPairs(c)
	c03DupSystematic(c)
	for i := c.Budget(60, 6000); i > 0; i-- {
		c03DupRandom(c)
	}
	c03HistSystematic(c)
	c03HistPreOps(c)
	for i := c.Budget(50, 5000); i > 0; i-- {
		c03HistSession(c)
	}
	for i := c.Budget(220, 40000); i > 0; i-- {
		c03RandomList(c, "pool", false)
	}
	for i := c.Budget(60, 8000); i > 0; i-- {
		c03RandomList(c, "pool-big", true)
	}
	c03SharedRandom(c, c.Budget(40, 6000))
}
