//go:build verif

package main

import (
	"regexp"

	"github.com/google/pprof/profile"
)

func init() { registry["C11"] = runC11 }

var c11Names = []string{"f1", "f2", "f3", "m1", "m2", "m3", ".m1", "m1(int)", "f1(int, char)", "",
	"(anonymous namespace)::m1(int)", "operator()(m1)", "ns::m2<(anonymous namespace)::T>(x)", "x::operator()"}
var c11Plain = []string{"f1", "f2", "f3", "m1", "m2"}
var c11Drops = []string{"m.*", "m1", "m1|m2", "f1|m1", ".*", "m[12]", "x::operator\\(\\)|m1", "(anonymous namespace)::m1", "nomatch", "m1(", "ns::m2<\\(anonymous namespace\\)::T>"}
var c11Keeps = []string{"", "", "m2", "m1", "f.*", "m[", ".*"}

var c11SimplifyPool = []string{"", ".", "..a", ".a(b)", "a(b)(c)", "(", "()", "operator()", "operator()(int)", "x::operator()(int) const",
	"(anonymous namespace)", "(anonymous namespace)::f(int)", "a::(anonymous namespace)::b(c)", "operator(", "(anonymous namespace",
	"(anonymous namespace)(", "operator()operator()(", "foo<(anonymous namespace)::X>(y)", "f(operator())", "oper(ator()", "a.b(c)", ".(x)",
	"\xff(\xfe", "日本(語)", "(anonymous namespace)operator()(anonymous namespace)(z)", "operatoroperator()(", "((anonymous namespace)"}

func c11Universe(p *profile.Profile) []string {
	var u []string
	for _, f := range p.Function {
		u = append(u, profile.VerifSimplifyFunc(f.Name))
	}
	return u
}

func runC11(c *Ctx) {
	r := c.R
	// ---- simplifyFunc on a pool + random concatenations of its interesting pieces
	pieces := []string{"(", ")", "operator()", "(anonymous namespace)", "a", ".", "::", "operator", "(anonymous", " namespace)", "f", "<", ">", "x"}
	for _, s := range c11SimplifyPool {
		c.Case("simplify-pool", L(S("simplify"), S(s)), S(profile.VerifSimplifyFunc(s)), s != profile.VerifSimplifyFunc(s), "op:simplify")
	}
	for i := 0; i < c.Budget(400, 5000); i++ {
		s := ""
		for j := r.Intn(6); j >= 0; j-- {
			s += PickS(r, pieces)
		}
		c.Case("simplify-rand", L(S("simplify"), S(s)), S(profile.VerifSimplifyFunc(s)), s != profile.VerifSimplifyFunc(s), "op:simplify")
	}

	prune := func(gen string, p *profile.Profile, drop string, keep *string) {
		rxs := []string{drop}
		if keep != nil {
			rxs = append(rxs, *keep)
		}
		tbl := matchTable(c11Universe(p), rxs)
		in := L(S("prune"), DumpProfile(p), S(drop), optS(keep), tbl)
		d, err := regexp.Compile(drop)
		if err != nil {
			return
		}
		var k *regexp.Regexp
		if keep != nil {
			if k, err = regexp.Compile(*keep); err != nil {
				return
			}
		}
		before := Render(L(obsProfile(p)...))
		obs := guard(func() Term { p.Prune(d, k); return L(append([]Term{S("ok")}, obsProfile(p)...)...) })
		c.Case(gen, in, obs, before != Render(L(obsProfile(p)...)), "op:prune")
	}
	pruneFrom := func(gen string, p *profile.Profile, rx string) {
		d, err := regexp.Compile(rx)
		if err != nil {
			return
		}
		in := L(S("prunefrom"), DumpProfile(p), S(rx), matchTable(c11Universe(p), []string{rx}))
		before := Render(L(obsProfile(p)...))
		obs := guard(func() Term { p.PruneFrom(d); return L(append([]Term{S("ok")}, obsProfile(p)...)...) })
		c.Case(gen, in, obs, before != Render(L(obsProfile(p)...)), "op:prunefrom")
	}
	removeUn := func(gen string, p *profile.Profile) {
		rxs := []string{"^(" + p.DropFrames + ")$", "^(" + p.KeepFrames + ")$"}
		in := L(S("removeun"), DumpProfile(p), matchTable(c11Universe(p), rxs))
		before := Render(L(obsProfile(p)...))
		obs := guard(func() Term {
			st := "ok"
			if err := p.RemoveUninteresting(); err != nil {
				st = "err"
			}
			return L(append([]Term{S(st)}, obsProfile(p)...)...)
		})
		c.Case(gen, in, obs, before != Render(L(obsProfile(p)...)), "op:removeun")
	}

	// ---- the witnesses of the known findings are always generated
	prune("finding-F14", c11Witness14(), "m1", nil)
	pruneFrom("finding-F15", c11Witness15(), "m1")

	kn := stackKnobs{Names: c11Plain, Files: []string{"a.c"}, MapFiles: []string{"bin"}, MaxFuncs: 4, MaxLocs: 4, MaxLines: 3,
		MaxSamples: 3, MaxDepth: 4, Unsym: true, Empty: true, Labels: true, NoMap: true}
	knMeta := kn
	knMeta.Names = c11Names
	knMeta.MaxFuncs = 6
	pick := func() *profile.Profile {
		if r.P(1, 3) {
			return genStacks(r, knMeta)
		}
		return genStacks(r, kn)
	}
	for i := 0; i < c.Budget(700, 10000); i++ {
		drop := PickS(r, c11Drops)
		var keep *string
		if ks := PickS(r, c11Keeps); ks != "" {
			keep = &ks
		}
		prune("prune-rand", pick(), drop, keep)
	}
	for i := 0; i < c.Budget(500, 8000); i++ {
		pruneFrom("prunefrom-rand", pick(), PickS(r, c11Drops))
	}
	for i := 0; i < c.Budget(400, 5000); i++ {
		p := pick()
		if !r.P(1, 8) {
			p.DropFrames = PickS(r, c11Drops)
		}
		p.KeepFrames = PickS(r, c11Keeps)
		removeUn("removeun-rand", p)
	}
}

// [f3 <- m1 <- f1] <- x with "m1" dropped: the root location is mixed (F14)
func c11Witness14() *profile.Profile {
	p := &profile.Profile{SampleType: []*profile.ValueType{{Type: "samples", Unit: "count"}}}
	for i, n := range []string{"f1", "m1", "f3", "x"} {
		p.Function = append(p.Function, &profile.Function{ID: uint64(i + 1), Name: n, SystemName: n, Filename: "a.c"})
	}
	l1 := &profile.Location{ID: 1, Address: 1, Line: []profile.Line{{Function: p.Function[0], Line: 1}, {Function: p.Function[1], Line: 2}, {Function: p.Function[2], Line: 3}}}
	l2 := &profile.Location{ID: 2, Address: 2, Line: []profile.Line{{Function: p.Function[3], Line: 4}}}
	p.Location = []*profile.Location{l1, l2}
	p.Sample = []*profile.Sample{{Location: []*profile.Location{l2, l1}, Value: []int64{1}}}
	return p
}

// leaf [f1 m1 f3] then root-side [f1 m1]: PruneFrom(m1) trims the root-side location too (F15)
func c11Witness15() *profile.Profile {
	p := c11Witness14()
	l3 := &profile.Location{ID: 3, Address: 3, Line: []profile.Line{{Function: p.Function[0], Line: 5}, {Function: p.Function[1], Line: 6}}}
	p.Location = append(p.Location, l3)
	p.Sample = []*profile.Sample{{Location: []*profile.Location{p.Location[0], l3}, Value: []int64{1}}}
	return p
}
