//go:build verif

package main

import (
	"regexp"
	"strings"

	"github.com/google/pprof/internal/driver"
	"github.com/google/pprof/profile"
)

func init() { registry["C11"] = runC11 }

var c11Names = []string{"f1", "f2", "f3", "m1", "m2", "m3", ".m1", "m1(int)", "f1(int, char)", "",
	"(anonymous namespace)::m1(int)", "operator()(m1)", "ns::m2<(anonymous namespace)::T>(x)", "x::operator()"}
var c11Plain = []string{"f1", "f2", "f3", "m1", "m2"}
var c11Drops = []string{"m.*", "m1", "m1|m2", "f1|m1", ".*", "m[12]", "x::operator\\(\\)|m1", "(anonymous namespace)::m1", "nomatch", "m1(", "ns::m2<\\(anonymous namespace\\)::T>"}
var c11Keeps = []string{"", "", "m2", "m1", "f.*", "m[", ".*"}

var c11SimplifyPool = []string{"", ".", "..a", ".a(b)", "a(b)(c)", "(", "()", "operator()", "operator()(int)", "x::operator()(int) const",
	"(anonymous namespace)", "(anonymous namespace)::f(int)", "a::(anonymous namespace)::b(c)", "operator(", "(anonymous namespace",
	"(anonymous namespace)(", "operator()operator()(", "foo<(anonymous namespace)::X>(y)", "f(operator())", "oper(ator()", "a.b(c)", ".(x)",
	"\xff(\xfe", "日本(語)", "(anonymous namespace)operator()(anonymous namespace)(z)", "operatoroperator()(", "((anonymous namespace)"}

func c11Universe(p *profile.Profile) []string {
	var u []string
	for _, f := range p.Function {
		u = append(u, profile.VerifSimplifyFunc(f.Name))
	}
	return u
}

func runC11(c *Ctx) {
	r := c.R
	// ---- simplifyFunc on a pool + random concatenations of its interesting pieces
	pieces := []string{"(", ")", "operator()", "(anonymous namespace)", "a", ".", "::", "operator", "(anonymous", " namespace)", "f", "<", ">", "x"}
	for _, s := range c11SimplifyPool {
		c.Case("simplify-pool", L(S("simplify"), S(s)), S(profile.VerifSimplifyFunc(s)), s != profile.VerifSimplifyFunc(s), "op:simplify")
	}
	for i := 0; i < c.Budget(250, 5000); i++ {
		s := ""
		for j := r.Intn(6); j >= 0; j-- {
			s += PickS(r, pieces)
		}
		c.Case("simplify-rand", L(S("simplify"), S(s)), S(profile.VerifSimplifyFunc(s)), s != profile.VerifSimplifyFunc(s), "op:simplify")
	}

	prune := func(gen string, p *profile.Profile, drop string, keep *string) {
		rxs := []string{drop}
		if keep != nil {
			rxs = append(rxs, *keep)
		}
		tbl := c06MatchTable(c11Universe(p), rxs)
		in := L(S("prune"), DumpProfile(p), S(drop), c06OptS(keep), tbl)
		d, err := regexp.Compile(drop)
		if err != nil {
			return
		}
		var k *regexp.Regexp
		if keep != nil {
			if k, err = regexp.Compile(*keep); err != nil {
				return
			}
		}
		before := Render(L(c06ObsProfile(p)...))
		obs := c06Guard(func() Term { p.Prune(d, k); return L(append([]Term{S("ok")}, c06ObsProfile(p)...)...) })
		c.Case(gen, in, obs, before != Render(L(c06ObsProfile(p)...)), "op:prune")
	}
	pruneFrom := func(gen string, p *profile.Profile, rx string) {
		d, err := regexp.Compile(rx)
		if err != nil {
			return
		}
		in := L(S("prunefrom"), DumpProfile(p), S(rx), c06MatchTable(c11Universe(p), []string{rx}))
		before := Render(L(c06ObsProfile(p)...))
		obs := c06Guard(func() Term { p.PruneFrom(d); return L(append([]Term{S("ok")}, c06ObsProfile(p)...)...) })
		c.Case(gen, in, obs, before != Render(L(c06ObsProfile(p)...)), "op:prunefrom")
	}
	removeUn := func(gen string, p *profile.Profile) {
		rxs := []string{"^(" + p.DropFrames + ")$", "^(" + p.KeepFrames + ")$"}
		in := L(S("removeun"), DumpProfile(p), c11Table(c11Universe(p), rxs, p))
		before := Render(L(c06ObsProfile(p)...))
		obs := c06Guard(func() Term {
			st := "ok"
			if err := p.RemoveUninteresting(); err != nil {
				st = "err"
			}
			return L(append([]Term{S(st)}, c06ObsProfile(p)...)...)
		})
		c.Case(gen, in, obs, before != Render(L(c06ObsProfile(p)...)), "op:removeun")
	}

	// ---- the witnesses of the known findings are always generated
	prune("finding-F14", c11Witness14(), "m1", nil)
	pruneFrom("finding-F15", c11Witness15(), "m1")

	kn := c06StackKnobs{Names: c11Plain, Files: []string{"a.c"}, MapFiles: []string{"bin"}, MaxFuncs: 4, MaxLocs: 4, MaxLines: 3,
		MaxSamples: 3, MaxDepth: 4, Unsym: true, Empty: true, Labels: true, NoMap: true}
	knMeta := kn
	knMeta.Names = c11Names
	knMeta.MaxFuncs = 6
	pick := func() *profile.Profile {
		if r.P(1, 3) {
			return c06GenStacks(r, knMeta)
		}
		return c06GenStacks(r, kn)
	}
	for i := 0; i < c.Budget(450, 10000); i++ {
		drop := PickS(r, c11Drops)
		var keep *string
		if ks := PickS(r, c11Keeps); ks != "" {
			keep = &ks
		}
		prune("prune-rand", pick(), drop, keep)
	}
	for i := 0; i < c.Budget(350, 8000); i++ {
		pruneFrom("prunefrom-rand", pick(), PickS(r, c11Drops))
	}
	for i := 0; i < c.Budget(280, 5000); i++ {
		p := pick()
		if !r.P(1, 8) {
			p.DropFrames = PickS(r, c11Drops)
		}
		p.KeepFrames = PickS(r, c11Keeps)
		removeUn("removeun-rand", p)
	}
	// ---- the call site: fetchProfiles (internal/driver/fetch.go) on one in-memory source must apply
	// RemoveUninteresting exactly once, whatever the mappings' HasFunctions/HasFilenames flags say
	fetch := func(gen string, p *profile.Profile) {
		rxs := []string{"^(" + p.DropFrames + ")$", "^(" + p.KeepFrames + ")$"}
		in := L(S("fetch"), DumpProfile(p), c11Table(c11Universe(p), rxs, p))
		before := Render(c11FreeSamples(p))
		obs := c06Guard(func() Term {
			q, err := driver.VerifC11Fetch(p)
			if err != nil {
				return L(S("err"), S(err.Error()))
			}
			return L(S("ok"), c11FreeSamples(q))
		})
		mixed := false
		for _, m := range p.Mapping {
			if !m.HasFunctions {
				mixed = true
			}
		}
		tag := "mappings:all-have-functions"
		if mixed {
			tag = "mappings:some-without-functions"
		}
		c.Case(gen, in, obs, before != Render(obs), "op:fetch", tag)
	}
	fetch("fetch-twice-witness", c11WitnessTwice())
	knF := kn
	knF.MapFiles = []string{"bin", "libx.so", "[vdso]"}
	knFM := knMeta
	knFM.MapFiles = knF.MapFiles
	for i := 0; i < c.Budget(250, 6000); i++ {
		var p *profile.Profile
		if r.P(1, 3) {
			p = c06GenStacks(r, knFM)
		} else {
			p = c06GenStacks(r, knF)
		}
		for _, m := range p.Mapping {
			m.HasFunctions, m.HasFilenames, m.HasLineNumbers, m.HasInlineFrames = r.P(2, 3), r.Bool(), r.Bool(), r.Bool()
		}
		if i%4 == 0 { // fully symbolized
			for _, m := range p.Mapping {
				m.HasFunctions = true
			}
		}
		if !r.P(1, 10) {
			p.DropFrames = PickS(r, c11Drops)
		}
		p.KeepFrames = PickS(r, c11Keeps)
		fetch("fetch-rand", p)
	}
	// ---- "fully matches": drop_frames / keep_frames drawn from an expression grammar (top-level
	// alternations whose first / last alternative starts / ends with a group, whole-expression groups,
	// expressions that already carry ^ or $, flags) probed with names that match an alternative only
	// PARTIALLY (prefix, suffix, infix, two alternatives glued together) next to names that match fully
	for i := 0; i < c.Budget(220, 6000); i++ {
		p, tag := c11AnchorProbe(r)
		if i%3 == 2 {
			fetch("anchor-probe", p)
		} else {
			removeUn("anchor-probe", p)
		}
		c.dist[tag]++
	}
	// ---- histories: several frame-dropping operations on the SAME *Profile object, directly and
	// through the driver (fetchProfiles, then generateRawReport with prune_from as the command line
	// path does).  Whatever an operation leaves behind on the object must not influence the next one.
	c.Extra["history_steps"] = "prune d k | prunefrom re | removeun | fetch (driver fetchProfiles) | report re (driver generateRawReport -prune_from=re)"
	c11History(c, "history-root-match", c11WitnessRootMatch(), []c11Step{{kind: "removeun"}, {kind: "prunefrom", a: "nomatch"}})
	c11History(c, "history-root-match", c11WitnessRootMatch(), []c11Step{{kind: "fetch"}, {kind: "report", a: "f1"}})
	c11History(c, "history-root-match", c11WitnessRootMatch(), []c11Step{{kind: "prunefrom", a: "f2"}, {kind: "prune", a: "rt"}, {kind: "prunefrom", a: "f1"}})
	valid := func() string {
		for {
			rx := PickS(r, c11Drops)
			if _, err := regexp.Compile(rx); err == nil {
				return rx
			}
		}
	}
	for i := 0; i < c.Budget(350, 8000); i++ {
		var p *profile.Profile
		if r.P(1, 3) {
			p = c06GenStacks(r, knFM)
		} else {
			p = c06GenStacks(r, knF)
		}
		for _, m := range p.Mapping {
			m.HasFunctions, m.HasFilenames = r.P(2, 3), r.Bool()
		}
		if !r.P(1, 10) {
			p.DropFrames = PickS(r, c11Drops)
		}
		p.KeepFrames = PickS(r, c11Keeps)
		var steps []c11Step
		driverPath := r.P(1, 3)
		for n := 2 + r.Intn(2); n > 0; n-- {
			switch k := r.Intn(5); {
			case driverPath && len(steps) == 0:
				steps = append(steps, c11Step{kind: "fetch"})
			case driverPath:
				steps = append(steps, c11Step{kind: "report", a: valid()})
			case k == 0:
				st := c11Step{kind: "prune", a: valid()}
				if ks := PickS(r, c11Keeps); ks != "" {
					if _, err := regexp.Compile(ks); err == nil {
						st.b = &ks
					}
				}
				steps = append(steps, st)
			case k == 1:
				steps = append(steps, c11Step{kind: "removeun"})
			default:
				steps = append(steps, c11Step{kind: "prunefrom", a: valid()})
			}
		}
		c11History(c, "history-rand", p, steps)
	}
	// ---- built-in expressions of legacy profiles
	c11LegacyStreams(c, removeUn)
	// ---- end-to-end layer
	c11E2EStreams(c)
}

// c11FreeSamples renders the samples of p without ids: values, labels and, leaf first, one
// (function name, file, line) per inline line or the address of an unsymbolized location.
func c11FreeSamples(p *profile.Profile) Term {
	var ss []Term
	for _, s := range p.Sample {
		d := DumpSample(s).(tL)
		var fr []Term
		for _, l := range s.Location {
			if len(l.Line) == 0 {
				fr = append(fr, L(ZU(l.Address)))
			}
			for _, ln := range l.Line {
				fr = append(fr, L(S(ln.Function.Name), S(ln.Function.Filename), Z(ln.Line)))
			}
		}
		ss = append(ss, L(d.l[1], d.l[2], d.l[3], d.l[4], L(fr...)))
	}
	return L(ss...)
}

// leaf [m2] <- root [f1 m1 f3] with drop "m1|m2": one pass leaves f3 <- m2 (F14 class), a second pass
// would cut m2 as well, so applying RemoveUninteresting twice is observable
func c11WitnessTwice() *profile.Profile {
	p := c11Witness14()
	p.Function[3].Name, p.Function[3].SystemName = "m2", "m2"
	p.Mapping = []*profile.Mapping{{ID: 1, Start: 0x1000, Limit: 0x2000, File: "bin", HasFunctions: true},
		{ID: 2, Start: 0x3000, Limit: 0x4000, File: "[vdso]"}}
	p.Location[0].Mapping, p.Location[0].Address = p.Mapping[0], 0x1001
	p.Location[1].Mapping, p.Location[1].Address = p.Mapping[1], 0x3001
	p.DropFrames = "m1|m2"
	return p
}

// [f3 <- m1 <- f1] <- x with "m1" dropped: the root location is mixed (F14)
func c11Witness14() *profile.Profile {
	p := &profile.Profile{SampleType: []*profile.ValueType{{Type: "samples", Unit: "count"}}}
	for i, n := range []string{"f1", "m1", "f3", "x"} {
		p.Function = append(p.Function, &profile.Function{ID: uint64(i + 1), Name: n, SystemName: n, Filename: "a.c"})
	}
	l1 := &profile.Location{ID: 1, Address: 1, Line: []profile.Line{{Function: p.Function[0], Line: 1}, {Function: p.Function[1], Line: 2}, {Function: p.Function[2], Line: 3}}}
	l2 := &profile.Location{ID: 2, Address: 2, Line: []profile.Line{{Function: p.Function[3], Line: 4}}}
	p.Location = []*profile.Location{l1, l2}
	p.Sample = []*profile.Sample{{Location: []*profile.Location{l2, l1}, Value: []int64{1}}}
	return p
}

// leaf [f1 m1 f3] then root-side [f1 m1]: PruneFrom(m1) trims the root-side location too (F15)
func c11Witness15() *profile.Profile {
	p := c11Witness14()
	l3 := &profile.Location{ID: 3, Address: 3, Line: []profile.Line{{Function: p.Function[0], Line: 5}, {Function: p.Function[1], Line: 6}}}
	p.Location = append(p.Location, l3)
	p.Sample = []*profile.Sample{{Location: []*profile.Location{p.Location[0], l3}, Value: []int64{1}}}
	return p
}

// c11Step is one operation of a history: prune a [b] | prunefrom a | removeun | fetch | report a.
type c11Step struct {
	kind string
	a    string
	b    *string
}

// c11History applies the steps one after the other to the same profile object and records the
// id-free frame samples it ends with.
func c11History(c *Ctx, gen string, p *profile.Profile, steps []c11Step) {
	rxs := []string{"^(" + p.DropFrames + ")$", "^(" + p.KeepFrames + ")$"}
	var st []Term
	tags := []string{"op:history"}
	kinds := ""
	for _, s := range steps {
		kinds += map[string]string{"prune": "P", "prunefrom": "F", "removeun": "R", "fetch": "fetch", "report": "report"}[s.kind] + ">"
		switch s.kind {
		case "prune":
			rxs = append(rxs, s.a)
			if s.b != nil {
				rxs = append(rxs, *s.b)
			}
			st = append(st, L(S("prune"), S(s.a), c06OptS(s.b)))
		case "prunefrom", "report":
			rxs = append(rxs, s.a)
			st = append(st, L(S(s.kind), S(s.a)))
		default:
			st = append(st, L(S(s.kind)))
		}
	}
	tags = append(tags, "history:"+kinds)
	in := L(S("history"), DumpProfile(p), L(st...), c11Table(c11Universe(p), rxs, p))
	before := Render(c11FreeSamples(p))
	obs := c06Guard(func() Term {
		for _, s := range steps {
			switch s.kind {
			case "prune":
				var k *regexp.Regexp
				if s.b != nil {
					k = regexp.MustCompile(*s.b)
				}
				p.Prune(regexp.MustCompile(s.a), k)
			case "prunefrom":
				p.PruneFrom(regexp.MustCompile(s.a))
			case "removeun":
				p.RemoveUninteresting() // error = nothing done
			case "fetch":
				q, err := driver.VerifC11Fetch(p)
				if err != nil {
					return L(S("err"), S("fetch: "+err.Error()))
				}
				p = q
			case "report":
				if err := driver.VerifC06RawReport(p, []string{"top"}, map[string]string{"prune_from": s.a}, false, &c06UI{}); err != nil {
					return L(S("err"), S("report: "+err.Error()))
				}
			}
		}
		return L(S("ok"), c11FreeSamples(p))
	})
	c.Case(gen, in, obs, before != Render(obs), tags...)
}

// leaf f1 <- f2 <- rt root, and f2 <- rt, with drop_frames "rt": the matching frame is the root, so
// it survives drop_frames; a later prune_from must still see a profile without any marks
func c11WitnessRootMatch() *profile.Profile {
	p := &profile.Profile{SampleType: []*profile.ValueType{{Type: "samples", Unit: "count"}}}
	p.Mapping = []*profile.Mapping{{ID: 1, Start: 0x1000, Limit: 0x2000, File: "bin", HasFunctions: true}}
	for i, n := range []string{"f1", "f2", "rt"} {
		p.Function = append(p.Function, &profile.Function{ID: uint64(i + 1), Name: n, SystemName: n, Filename: "a.c"})
		p.Location = append(p.Location, &profile.Location{ID: uint64(i + 1), Mapping: p.Mapping[0], Address: 0x1000 + uint64(i),
			Line: []profile.Line{{Function: p.Function[i], Line: int64(i + 1)}}})
	}
	p.Sample = []*profile.Sample{
		{Location: []*profile.Location{p.Location[0], p.Location[1], p.Location[2]}, Value: []int64{1}},
		{Location: []*profile.Location{p.Location[1], p.Location[2]}, Value: []int64{2}}}
	p.DropFrames = "rt"
	return p
}

// c11Table is c06MatchTable plus the FULL-MATCH ORACLE for the profile's drop_frames / keep_frames:
// an entry "=full=<expr>" (valid iff expr compiles on its own) listing the subjects that the expression
// matches from the first to the last byte, decided with leftmost-longest matching of the expression
// itself -- no anchoring string is built, so the specification's "fully matches" does not depend on
// how RemoveUninteresting (or its model) spells the anchoring.
func c11Table(universe []string, rxs []string, p *profile.Profile) Term {
	t := c06MatchTable(universe, rxs).(tL)
	us := t.l[0].(tL)
	ents := append([]Term{}, t.l[1].(tL).l...)
	seen := map[string]bool{}
	for _, e := range []string{p.DropFrames, p.KeepFrames} {
		if e == "" || seen[e] {
			continue
		}
		seen[e] = true
		re, err := regexp.Compile(e)
		var ms []string
		if err == nil {
			re.Longest()
			for _, u := range us.l {
				s := u.(tS).s
				if loc := re.FindStringIndex(s); loc != nil && loc[0] == 0 && loc[1] == len(s) {
					ms = append(ms, s)
				}
			}
		}
		ents = append(ents, L(S("=full="+e), Bool(err == nil), Ss(ms)))
	}
	return L(us, L(ents...))
}

// c11Alt is one alternative of a generated expression with strings that match it fully.
type c11Alt struct {
	src  string
	inst []string
}

func c11GenAlt(r *Rng) c11Alt {
	lit := PickS(r, []string{"malloc", "new", "m1", "f", "op x", "rt.call", "Free"})
	a := c11Alt{src: regexp.QuoteMeta(lit), inst: []string{lit}}
	switch r.Intn(5) { // leading piece
	case 0:
		a.src = "(tc_)?" + a.src
		a.inst = []string{lit, "tc_" + lit}
	case 1:
		a.src = "(a|b)" + a.src
		a.inst = []string{"a" + lit, "b" + lit}
	case 2:
		a.src = "(?:x::)?" + a.src
		a.inst = []string{lit, "x::" + lit}
	}
	switch r.Intn(5) { // trailing piece
	case 0:
		a.src += "(16|32)"
		a.inst = []string{a.inst[0] + "16", a.inst[len(a.inst)-1] + "32"}
	case 1:
		a.src += "(_x)?"
		a.inst = append(a.inst, a.inst[0]+"_x")
	case 2:
		a.src += "[0-9]"
		a.inst = []string{a.inst[0] + "7", a.inst[len(a.inst)-1] + "0"}
	}
	return a
}

// c11GenExpr draws an expression and names that match it fully.
func c11GenExpr(r *Rng) (string, []string, string) {
	var srcs, inst []string
	n := 1 + r.Intn(3)
	edge := n > 1 && r.P(1, 3) // the expression starts with a group and ends with one without being one group
	for i := 0; i < n; i++ {
		a := c11GenAlt(r)
		for edge && ((i == 0 && !strings.HasPrefix(a.src, "(")) || (i == n-1 && !strings.HasSuffix(a.src, ")") && !strings.HasSuffix(a.src, ")?"))) {
			a = c11GenAlt(r)
		}
		srcs = append(srcs, a.src)
		inst = append(inst, a.inst...)
	}
	e := ""
	for i, s := range srcs {
		if i > 0 {
			e += "|"
		}
		e += s
	}
	shape := "plain"
	k := r.Intn(8)
	if edge {
		k = 7
	}
	switch k {
	case 0:
		e, shape = "("+e+")", "one-group"
	case 1:
		e, shape = "(?:"+e+")", "one-noncapture-group"
	case 2:
		e, shape = "^"+e, "leading-caret"
	case 3:
		e, shape = e+"$", "trailing-dollar"
	case 4:
		e, shape = "(?i)"+e, "flag-i"
		inst = append(inst, strings.ToUpper(inst[0]))
	}
	if n > 1 && shape == "plain" {
		shape = "alternation"
		if strings.HasPrefix(e, "(") && strings.HasSuffix(e, ")") {
			shape = "alternation-group-first-and-last"
		}
	}
	return e, inst, shape
}

// c11AnchorProbe builds a profile whose frames are full and partial matches of a generated
// expression, each under a root that the drop expression does not match, some with a user leaf.
func c11AnchorProbe(r *Rng) (*profile.Profile, string) {
	e, inst, shape := c11GenExpr(r)
	names := map[string]bool{}
	var order []string
	add := func(n string) {
		if !names[n] && len(order) < 12 {
			names[n] = true
			order = append(order, n)
		}
	}
	for _, w := range inst {
		if r.P(2, 3) {
			add(w)
		}
		switch r.Intn(5) {
		case 0:
			add(w + "_stats")
		case 1:
			add("pre_" + w)
		case 2:
			add("Pool::placement " + w + " hook")
		case 3:
			add(w + PickS(r, inst))
		case 4:
			add(strings.ToUpper(w))
		}
	}
	add("main")
	p := &profile.Profile{SampleType: []*profile.ValueType{{Type: "samples", Unit: "count"}}}
	p.Mapping = []*profile.Mapping{{ID: 1, Start: 0x1000, Limit: 0x9000, File: "bin", HasFunctions: true}}
	mk := func(n string) *profile.Location {
		f := &profile.Function{ID: uint64(len(p.Function) + 1), Name: n, SystemName: n, Filename: "a.c"}
		p.Function = append(p.Function, f)
		l := &profile.Location{ID: uint64(len(p.Location) + 1), Mapping: p.Mapping[0], Address: 0x1000 + uint64(len(p.Location)),
			Line: []profile.Line{{Function: f, Line: int64(len(p.Location) + 1)}}}
		p.Location = append(p.Location, l)
		return l
	}
	root, leaf := mk("zzroot"), mk("zzleaf")
	for i, n := range order {
		l := mk(n)
		locs := []*profile.Location{l, root}
		if i%2 == 1 {
			locs = []*profile.Location{leaf, l, root}
		}
		p.Sample = append(p.Sample, &profile.Sample{Location: locs, Value: []int64{int64(i + 1)}})
	}
	mode := "drop"
	if r.P(1, 3) { // keep mode: everything but the zz frames is dropped unless keep_frames FULLY matches it
		p.DropFrames, p.KeepFrames, mode = "[^z].*", e, "keep"
	} else {
		p.DropFrames = e
		if r.P(1, 4) {
			p.KeepFrames = PickS(r, inst)
		}
	}
	return p, "anchor:" + mode + ":" + shape
}
