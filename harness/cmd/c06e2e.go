//go:build verif

package main

// End-to-end layer shared by C06 and C11 (op "e2e", coq/R_Driver.v): the inputs of the core streams
// pushed through the real entry points -- driver.PProf with a FlagSet (real flag parsing, fetch through
// a Fetcher plug-in, merge, RemoveUninteresting, tag roots/leaves, filters, report, print through a
// plugin.Writer), an interactive session on the same entry point, and the web handlers -- and what is
// printed parsed back into id-free observables.

import (
	"bytes"
	"encoding/json"
	"fmt"
	"io"
	"net/http/httptest"
	"net/url"
	"sort"
	"strings"
	"time"

	"github.com/google/pprof/driver"
	idriver "github.com/google/pprof/internal/driver"
	"github.com/google/pprof/internal/plugin"
	"github.com/google/pprof/profile"
)

var _ = driver.PProf

type c06E2EFetch map[string][]byte

func (f c06E2EFetch) Fetch(src string, _, _ time.Duration) (*profile.Profile, string, error) {
	b, ok := f[src]
	if !ok {
		return nil, "", fmt.Errorf("no such profile %q", src)
	}
	p, err := profile.ParseData(b)
	return p, "", err
}

type c06E2EWriter struct{ files map[string]*bytes.Buffer }
type c06E2EWC struct{ *bytes.Buffer }

func (c06E2EWC) Close() error { return nil }
func (w *c06E2EWriter) Open(name string) (io.WriteCloser, error) {
	b := &bytes.Buffer{}
	w.files[name] = b
	return c06E2EWC{b}, nil
}

type c06E2EUI struct {
	lines []string
	idx   int
	msgs  []string
}

func (u *c06E2EUI) ReadLine(string) (string, error) {
	if u.idx >= len(u.lines) {
		return "", io.EOF
	}
	u.idx++
	return u.lines[u.idx-1], nil
}
func (u *c06E2EUI) Print(a ...interface{})              {}
func (u *c06E2EUI) PrintErr(a ...interface{})           { u.msgs = append(u.msgs, fmt.Sprint(a...)) }
func (u *c06E2EUI) IsTerminal() bool                    { return false }
func (u *c06E2EUI) WantBrowser() bool                   { return false }
func (u *c06E2EUI) SetAutoComplete(func(string) string) {}

var c06E2EOptNames = []string{"focus", "ignore", "hide", "show", "show_from", "tagfocus", "tagignore", "tagshow", "taghide", "prune_from"}
var c06E2EURLParam = map[string]string{"focus": "f", "ignore": "i", "hide": "h", "show": "s", "show_from": "sf", "tagfocus": "tf",
	"tagignore": "ti", "tagshow": "ts", "taghide": "th", "prune_from": "prunefrom"}

// c06E2EReport is one report of a case: a command-line run, an interactive command or a web request.
type c06E2EReport struct {
	kind     string            // proto | traces | top
	opts     map[string]string // the ten filter options
	tagroot  []string
	tagleaf  []string
	relative bool
	before   []string // interactive only: lines typed before this command that produce no compared output
}

func (r c06E2EReport) term() Term {
	var cfg []Term
	for _, n := range c06E2EOptNames {
		cfg = append(cfg, S(r.opts[n]))
	}
	return L(S(r.kind), L(cfg...), Ss(r.tagroot), Ss(r.tagleaf), Bool(r.relative))
}

// c06E2ERun drives driver.PProf once: args are the command-line arguments before the source names.
func c06E2ERun(srcs [][]byte, args []string, lines []string, server func(*plugin.HTTPServerArgs) error) (map[string]*bytes.Buffer, []string, error) {
	idriver.VerifC09Reset()
	f := c06E2EFetch{}
	for i, b := range srcs {
		n := fmt.Sprintf("src%d", i)
		f[n] = b
		args = append(args, n)
	}
	ui := &c06E2EUI{lines: lines}
	w := &c06E2EWriter{files: map[string]*bytes.Buffer{}}
	o := &plugin.Options{UI: ui, Obj: &c09Obj{}, Sym: c09Sym{}, Writer: w, Flagset: newC09Flags(args), Fetch: f,
		HTTPServer: server, HTTPTransport: c09NoNet{}}
	if server == nil {
		o.HTTPServer = func(*plugin.HTTPServerArgs) error { return nil }
	}
	var err error
	func() {
		defer func() {
			if r := recover(); r != nil {
				err = fmt.Errorf("panic: %v", r)
			}
		}()
		err = idriver.PProf(o)
	}()
	idriver.VerifC09Reset()
	return w.files, ui.msgs, err
}

// ---- parsing what was printed

func c06E2EFreeSamples(p *profile.Profile) Term {
	var ss []Term
	for _, s := range p.Sample {
		d := DumpSample(s).(tL)
		var fr []Term
		for _, l := range s.Location {
			if len(l.Line) == 0 {
				fr = append(fr, L(ZU(l.Address)))
			}
			for _, ln := range l.Line {
				fr = append(fr, L(S(ln.Function.Name), S(ln.Function.Filename), Z(ln.Line)))
			}
		}
		ss = append(ss, L(d.l[1], d.l[2], d.l[3], d.l[4], L(fr...)))
	}
	return L(ss...)
}

func c06E2EParseProto(b []byte) (Term, error) {
	p, err := profile.ParseData(b)
	if err != nil {
		return nil, err
	}
	return c06E2EFreeSamples(p), nil
}

// c06E2EParseTraces reads the output of -traces: per sample the value, the text label lines (numeric
// keys, whose values are printed scaled, are left out) and the function names, leaf first.
func c06E2EParseTraces(b []byte, numKeys map[string]bool) (Term, error) {
	const sep = "-----------+-------------------------------------------------------"
	blocks := strings.Split(string(b), sep+"\n")
	if len(blocks) < 2 {
		return nil, fmt.Errorf("no separator in traces output")
	}
	var out []Term
	for _, blk := range blocks[1:] {
		if blk == "" {
			continue
		}
		type kv struct {
			k string
			v []string
		}
		var labs []kv
		var names []Term
		var val Term
		for _, line := range strings.Split(strings.TrimSuffix(blk, "\n"), "\n") {
			if len(line) >= 13 && line[10:13] == "   " && !strings.Contains(line[:10], ":") {
				vs := strings.TrimSpace(line[:10])
				if len(names) == 0 {
					var v int64
					if _, err := fmt.Sscanf(vs, "%d", &v); err != nil || fmt.Sprint(v) != vs {
						return nil, fmt.Errorf("traces value %q", vs)
					}
					val = Z(v)
				}
				names = append(names, S(strings.TrimSuffix(line[13:], " (inline)")))
				continue
			}
			i := strings.Index(line, ":  ")
			if i < 0 {
				return nil, fmt.Errorf("traces line %q", line)
			}
			k := strings.TrimSpace(line[:i])
			if numKeys[k] {
				continue
			}
			labs = append(labs, kv{k, strings.Split(line[i+3:], " ")})
		}
		sort.Slice(labs, func(a, b int) bool { return labs[a].k < labs[b].k })
		var lt []Term
		for _, l := range labs {
			lt = append(lt, L(S(l.k), Ss(l.v)))
		}
		if val == nil {
			return nil, fmt.Errorf("traces block without frames")
		}
		out = append(out, L(val, L(lt...), L(names...)))
	}
	return L(out...), nil
}

// c06E2EParseTop reads total and rows out of the /top page: makeTopTable(<total>, <json rows>);
func c06E2EParseTop(page string) (Term, error) {
	i := strings.LastIndex(page, "makeTopTable(")
	if i < 0 {
		return nil, fmt.Errorf("no top table in page")
	}
	rest := page[i+len("makeTopTable("):]
	j := strings.Index(rest, ");")
	k := strings.Index(rest, ",")
	if j < 0 || k < 0 || k > j {
		return nil, fmt.Errorf("top table call not understood")
	}
	var total int64
	if _, err := fmt.Sscanf(strings.TrimSpace(rest[:k]), "%d", &total); err != nil {
		return nil, err
	}
	var items []struct {
		Name      string
		Flat, Cum int64
	}
	if err := json.Unmarshal([]byte(strings.TrimSpace(rest[k+1:j])), &items); err != nil {
		return nil, err
	}
	flat, cum := map[string]int64{}, map[string]int64{}
	var names []string
	for _, it := range items {
		if _, ok := flat[it.Name]; !ok {
			names = append(names, it.Name)
		}
		flat[it.Name] += it.Flat
		cum[it.Name] += it.Cum
	}
	sort.Strings(names)
	var rows []Term
	for _, n := range names {
		rows = append(rows, L(S(n), Z(flat[n]), Z(cum[n])))
	}
	return L(Z(total), L(rows...)), nil
}

// ---- building cases

// c06E2EUniverse: every string a filter of the case can be matched against, including the names and
// files of the pseudo frames tagroot / tagleaf create (joined label values, label keys).
func c06E2EUniverse(srcs []*profile.Profile, reports []c06E2EReport) []string {
	var u []string
	for _, p := range srcs {
		u = append(u, c06Universe(p)...)
		for _, rp := range reports {
			for _, k := range append(append([]string{}, rp.tagroot...), rp.tagleaf...) {
				u = append(u, k)
				for _, s := range p.Sample {
					u = append(u, strings.Join(s.Label[k], ","))
				}
			}
		}
	}
	return u
}

func c06E2ERxs(srcs []*profile.Profile, reports []c06E2EReport) []string {
	var rxs []string
	for _, rp := range reports {
		for _, n := range c06E2EOptNames {
			v := rp.opts[n]
			if v == "" {
				continue
			}
			rxs = append(rxs, v)
			if n == "tagfocus" || n == "tagignore" {
				if i := strings.Index(v, "="); i >= 0 {
					v = v[i+1:]
				}
				rxs = append(rxs, v)
				rxs = append(rxs, strings.Split(v, ",")...)
			}
		}
	}
	if len(srcs) > 0 {
		rxs = append(rxs, "^("+srcs[0].DropFrames+")$", "^("+srcs[0].KeepFrames+")$")
	}
	return rxs
}

func c06E2ENumKeys(srcs []*profile.Profile) map[string]bool {
	m := map[string]bool{}
	for _, p := range srcs {
		for _, s := range p.Sample {
			for k := range s.NumLabel {
				m[k] = true
			}
		}
	}
	return m
}

// c06E2EUnits: the units generateRawReport identifies for numeric labels (of the merged sources).
func c06E2EUnits(srcs []*profile.Profile) Term {
	units := map[string]string{}
	for _, p := range srcs {
		u, _ := p.NumLabelUnits()
		for k, v := range u {
			if _, ok := units[k]; !ok {
				units[k] = v
			}
		}
	}
	var ks []string
	for k := range units {
		ks = append(ks, k)
	}
	sort.Strings(ks)
	var us []Term
	for _, k := range ks {
		us = append(us, L(S(k), S(units[k])))
	}
	return L(us...)
}

func c06E2EParse(kind string, b []byte, numKeys map[string]bool) Term {
	var t Term
	var err error
	switch kind {
	case "proto":
		t, err = c06E2EParseProto(b)
	case "traces":
		t, err = c06E2EParseTraces(b, numKeys)
	default:
		t, err = c06E2EParseTop(string(b))
	}
	if err != nil {
		return L(S("unparsed"), S(err.Error()))
	}
	return L(S("ok"), t)
}

func c06E2EFlags(rp c06E2EReport) []string {
	var args []string
	for _, n := range c06E2EOptNames {
		if v := rp.opts[n]; v != "" {
			args = append(args, "-"+n+"="+v)
		}
	}
	if len(rp.tagroot) > 0 {
		args = append(args, "-tagroot="+strings.Join(rp.tagroot, ","))
	}
	if len(rp.tagleaf) > 0 {
		args = append(args, "-tagleaf="+strings.Join(rp.tagleaf, ","))
	}
	if rp.relative {
		args = append(args, "-relative_percentages")
	}
	return args
}

// c06E2ECase runs one end-to-end case and records it. mode: cli (one report, driver.PProf with flags),
// session (several commands typed into one interactive session), web (requests to the web handlers).
func c06E2ECase(c *Ctx, gen, mode string, srcs []*profile.Profile, reports []c06E2EReport, tags ...string) {
	var raw [][]byte
	var parsed []*profile.Profile
	var dumps []Term
	for _, p := range srcs {
		var b bytes.Buffer
		if err := p.Write(&b); err != nil {
			return
		}
		q, err := profile.ParseData(b.Bytes())
		if err != nil {
			return
		}
		raw = append(raw, b.Bytes())
		parsed = append(parsed, q)
		dumps = append(dumps, DumpProfile(q))
	}
	var rts []Term
	for _, rp := range reports {
		rts = append(rts, rp.term())
	}
	in := L(S("e2e"), S(mode), L(dumps...), c06E2EUnits(parsed), L(rts...), c06MatchTable(c06E2EUniverse(parsed, reports), c06E2ERxs(parsed, reports)))
	numKeys := c06E2ENumKeys(parsed)
	var obs []Term
	switch mode {
	case "cli":
		rp := reports[0]
		files, _, err := c06E2ERun(raw, append([]string{"-" + rp.kind, "-output=out"}, c06E2EFlags(rp)...), nil, nil)
		if err != nil || files["out"] == nil {
			obs = append(obs, L(S("error")))
		} else {
			obs = append(obs, c06E2EParse(rp.kind, files["out"].Bytes(), numKeys))
		}
	case "session":
		var lines []string
		cur := map[string]string{}
		for i, rp := range reports {
			lines = append(lines, rp.before...)
			for _, n := range c06E2EOptNames {
				if cur[n] != rp.opts[n] {
					lines = append(lines, n+"="+rp.opts[n])
					cur[n] = rp.opts[n]
				}
			}
			lines = append(lines, "tagroot="+strings.Join(rp.tagroot, ","), "tagleaf="+strings.Join(rp.tagleaf, ","),
				fmt.Sprintf("relative_percentages=%v", rp.relative), fmt.Sprintf("%s >out%d", rp.kind, i))
		}
		files, _, _ := c06E2ERun(raw, nil, lines, nil)
		for i, rp := range reports {
			if b := files[fmt.Sprintf("out%d", i)]; b != nil {
				obs = append(obs, c06E2EParse(rp.kind, b.Bytes(), numKeys))
			} else {
				obs = append(obs, L(S("error")))
			}
		}
	case "web":
		pages := make([]Term, len(reports))
		server := func(a *plugin.HTTPServerArgs) error {
			for i, rp := range reports {
				q := url.Values{}
				for _, n := range c06E2EOptNames {
					if v := rp.opts[n]; v != "" {
						q.Set(c06E2EURLParam[n], v)
					}
				}
				q.Set("nf", "0")
				q.Set("ef", "0")
				if rp.relative {
					q.Set("rel", "true")
				}
				for _, l := range rp.before { // earlier requests whose pages are not compared
					req := httptest.NewRequest("GET", "http://localhost"+l, nil)
					a.Handlers[strings.SplitN(l, "?", 2)[0]].ServeHTTP(httptest.NewRecorder(), req)
				}
				req := httptest.NewRequest("GET", "http://localhost/top?"+q.Encode(), nil)
				w := httptest.NewRecorder()
				a.Handlers["/top"].ServeHTTP(w, req)
				if w.Code != 200 {
					pages[i] = L(S("error"))
				} else {
					pages[i] = c06E2EParse("top", w.Body.Bytes(), numKeys)
				}
			}
			return nil
		}
		if _, _, err := c06E2ERun(raw, []string{"-http=localhost:0"}, nil, server); err != nil {
			for i := range pages {
				pages[i] = L(S("error"))
			}
		}
		for _, pg := range pages {
			if pg == nil {
				pg = L(S("error"))
			}
			obs = append(obs, pg)
		}
	}
	nontrivial := false
	for _, rp := range reports {
		for _, v := range rp.opts {
			if v != "" {
				nontrivial = true
			}
		}
		if len(rp.tagroot)+len(rp.tagleaf) > 0 {
			nontrivial = true
		}
	}
	if len(srcs) > 1 || (len(srcs) == 1 && srcs[0].DropFrames != "") {
		nontrivial = true
	}
	c.Case(gen, in, L(obs...), nontrivial, append([]string{"op:e2e", "e2e:" + mode}, tags...)...)
}

// ---- small hand-made profiles

// c06E2EStk is one sample of a hand-made profile: frames leaf first as "function" or "function@file".
type c06E2EStk struct {
	val    int64
	frames []string
	lab    map[string]string
	num    map[string]int64
	unit   map[string]string
}

// c06E2EBuild makes a valid profile with one single-line location per distinct frame; idBase shifts
// every id and address so that several sources stay disjoint.
func c06E2EBuild(idBase uint64, mapFile string, stks []c06E2EStk) *profile.Profile {
	p := &profile.Profile{SampleType: []*profile.ValueType{{Type: "samples", Unit: "count"}}}
	m := &profile.Mapping{ID: idBase + 1, Start: 0x10000 * (idBase + 1), Limit: 0x10000*(idBase+1) + 0x8000, File: mapFile, HasFunctions: true}
	p.Mapping = []*profile.Mapping{m}
	locs := map[string]*profile.Location{}
	for _, st := range stks {
		s := &profile.Sample{Value: []int64{st.val}}
		for _, fr := range st.frames {
			l := locs[fr]
			if l == nil {
				name, file := fr, "src.c"
				if i := strings.Index(fr, "@"); i >= 0 {
					name, file = fr[:i], fr[i+1:]
				}
				f := &profile.Function{ID: idBase + uint64(len(p.Function)) + 1, Name: name, SystemName: name, Filename: file}
				p.Function = append(p.Function, f)
				l = &profile.Location{ID: idBase + uint64(len(p.Location)) + 1, Mapping: m, Address: m.Start + uint64(len(p.Location)) + 1,
					Line: []profile.Line{{Function: f, Line: int64(len(p.Location) + 1)}}}
				p.Location = append(p.Location, l)
				locs[fr] = l
			}
			s.Location = append(s.Location, l)
		}
		if len(st.lab) > 0 {
			s.Label = map[string][]string{}
			for k, v := range st.lab {
				s.Label[k] = strings.Split(v, " ")
			}
		}
		if len(st.num) > 0 {
			s.NumLabel, s.NumUnit = map[string][]int64{}, map[string][]string{}
			for k, v := range st.num {
				s.NumLabel[k] = []int64{v}
				s.NumUnit[k] = []string{st.unit[k]}
			}
		}
		p.Sample = append(p.Sample, s)
	}
	return p
}

// c06E2ETidy makes a generated profile fit for the end-to-end observables: one sample type, no zero
// values (merging drops them), text and numeric label keys kept apart, no empty label strings or
// zero numeric labels (the wire format cannot tell them from absent ones), symbolized locations.
func c06E2ETidy(p *profile.Profile, positive bool) {
	p.SampleType = p.SampleType[:1]
	p.DefaultSampleType = ""
	for i, s := range p.Sample {
		s.Value = s.Value[:1]
		if s.Value[0] == 0 || (positive && s.Value[0] < 0) {
			s.Value[0] = int64(7 + i)
		}
		for k, vs := range s.Label {
			if k == "bytes" || k == "req" {
				delete(s.Label, k)
				continue
			}
			for j, v := range vs {
				if v == "" || strings.Contains(v, " ") {
					vs[j] = "e"
				}
			}
		}
		for k, vs := range s.NumLabel {
			if k != "bytes" && k != "req" {
				delete(s.NumLabel, k)
				delete(s.NumUnit, k)
				continue
			}
			for j, v := range vs {
				if v == 0 {
					vs[j] = 3
				}
			}
			us := s.NumUnit[k]
			if len(us) != len(vs) { // the generator may leave units of an overwritten label behind
				delete(s.NumUnit, k)
				continue
			}
			allEmpty := true
			for _, u := range us {
				if u != "" {
					allEmpty = false
				}
			}
			if allEmpty {
				delete(s.NumUnit, k)
			} else {
				for j, u := range us {
					if u == "" {
						us[j] = "bytes"
					}
				}
			}
		}
	}
}

// c06E2EShift makes p disjoint from other sources: ids and addresses shifted, names suffixed.
func c06E2EShift(p *profile.Profile, base uint64, suffix string) {
	for _, m := range p.Mapping {
		m.ID += base
		m.Start += base * 0x100000
		m.Limit += base * 0x100000
		m.File += suffix
	}
	for _, f := range p.Function {
		f.ID += base
		if f.Name != "" {
			f.Name += suffix
			f.SystemName = f.Name
		}
	}
	for _, l := range p.Location {
		l.ID += base
		l.Address += base * 0x100000
	}
}

func c06E2EOpts(kv ...string) map[string]string {
	m := map[string]string{}
	for i := 0; i+1 < len(kv); i += 2 {
		m[kv[i]] = kv[i+1]
	}
	return m
}

// c06E2EStreams: the end-to-end cases of C06 (filters through the command line, sessions, the web UI).
func c06E2EStreams(c *Ctx) {
	c09Env()
	r := c.R
	ms := map[string]string{"latency": "milliseconds", "bytes": "bytes"}
	// -- histories of one interactive session: what a command starts from does not depend on earlier
	//    commands (source files and numeric tags are still there after an unfiltered top / traces)
	files := func() *profile.Profile {
		return c06E2EBuild(0, "bin/app", []c06E2EStk{
			{val: 10, frames: []string{"leafA@alpha.go", "main@main.go"}, num: map[string]int64{"latency": 5}, unit: ms},
			{val: 20, frames: []string{"leafB@beta.go", "main@main.go"}, num: map[string]int64{"latency": 50, "bytes": 2048}, unit: ms},
			{val: 40, frames: []string{"work@alpha.go", "run@beta.go", "main@main.go"}, num: map[string]int64{"latency": 2000}, unit: ms, lab: map[string]string{"tenant": "acme"}},
			{val: 80, frames: []string{"idle@gamma.go", "main@main.go"}, lab: map[string]string{"tenant": "globex"}},
		})
	}
	for _, first := range []string{"top", "traces", "tree", "peek main", "tags"} {
		for _, kind := range []string{"traces", "proto"} {
			for _, o := range []map[string]string{
				c06E2EOpts("focus", "alpha\\.go"), c06E2EOpts("ignore", "alpha\\.go"), c06E2EOpts("hide", "beta\\.go"), c06E2EOpts("show", "main\\.go|alpha"),
				c06E2EOpts("show_from", "beta\\.go"), c06E2EOpts("tagfocus", "latency=10ms:1s"), c06E2EOpts("tagignore", "latency=1s:"), c06E2EOpts("tagfocus", "50ms"),
			} {
				c06E2ECase(c, "e2e-session-history", "session", []*profile.Profile{files()},
					[]c06E2EReport{{kind: kind, opts: map[string]string{}, before: []string{first}}, {kind: kind, opts: o, before: []string{first}}}, "history:"+strings.Fields(first)[0])
			}
		}
	}
	// -- the web UI decodes its URL parameters exactly once
	web := func() *profile.Profile {
		return c06E2EBuild(0, "bin/app", []c06E2EStk{
			{val: 100, frames: []string{"F1", "main"}, num: map[string]int64{"bytes": 100}, unit: ms},
			{val: 200, frames: []string{"F22", "main"}, num: map[string]int64{"bytes": 300}, unit: ms},
			{val: 400, frames: []string{"Fx", "main"}, num: map[string]int64{"bytes": 400}, unit: ms},
			{val: 800, frames: []string{"G7", "a+b", "main"}, num: map[string]int64{"bytes": 900}, unit: ms},
			{val: 1600, frames: []string{"F%31", "100%", "main"}},
		})
	}
	for _, o := range []map[string]string{
		c06E2EOpts("focus", "^F[0-9]+$"), c06E2EOpts("ignore", "^F[0-9]+$"), c06E2EOpts("focus", "^.+[0-9]$"), c06E2EOpts("ignore", "^.+[0-9]$"),
		c06E2EOpts("tagfocus", "+400b:"), c06E2EOpts("tagignore", "+300:"), c06E2EOpts("focus", "F%31"), c06E2EOpts("hide", "a\\+b|100%"),
		c06E2EOpts("show", "F+|main"), c06E2EOpts("show_from", "a\\+b"), c06E2EOpts("focus", "F1 F22"), c06E2EOpts("ignore", "%41|F%2531"),
		c06E2EOpts("prune_from", "a\\+b"), c06E2EOpts("focus", "^F", "ignore", "x$", "tagignore", "bytes=+100"),
	} {
		for _, rel := range []bool{false, true} {
			c06E2ECase(c, "e2e-web-params", "web", []*profile.Profile{web()}, []c06E2EReport{{kind: "top", opts: o, relative: rel, before: []string{"/top"}}})
		}
	}
	// -- tag roots / leaves exist before the filters run, with and without relative_percentages
	tenants := func(all bool) *profile.Profile {
		st := []c06E2EStk{
			{val: 10, frames: []string{"work", "main"}, lab: map[string]string{"tenant": "acme", "zone": "eu"}},
			{val: 20, frames: []string{"work", "main"}, lab: map[string]string{"tenant": "globex", "zone": "us"}},
			{val: 80, frames: []string{"idle", "main"}, lab: map[string]string{"tenant": "acme", "zone": "us"}},
		}
		if !all {
			st = append(st, c06E2EStk{val: 40, frames: []string{"idle", "main"}})
		}
		return c06E2EBuild(0, "bin/app", st)
	}
	for _, o := range []map[string]string{
		c06E2EOpts("focus", "^acme$"), c06E2EOpts("ignore", "^acme$"), c06E2EOpts("hide", "^acme$"), c06E2EOpts("show", "acme|main|work"),
		c06E2EOpts("show_from", "work"), c06E2EOpts("focus", "^tenant$"), c06E2EOpts("taghide", "tenant"), c06E2EOpts("tagshow", "zone"),
		c06E2EOpts("focus", "acme|globex", "ignore", "^us$"), c06E2EOpts("prune_from", "^work$", "focus", "eu"), c06E2EOpts("focus", "^work$"),
	} {
		for _, rel := range []bool{false, true} {
			for k, tr := range [][2][]string{{{"tenant"}, nil}, {nil, {"tenant"}}, {{"zone", "tenant"}, {"zone"}}} {
				kind, mode := "proto", "cli"
				if k == 0 {
					kind = "traces"
				}
				if k == 2 {
					mode = "session"
				}
				c06E2ECase(c, "e2e-tagroot", mode, []*profile.Profile{tenants(kind == "traces")},
					[]c06E2EReport{{kind: kind, opts: o, tagroot: tr[0], tagleaf: tr[1], relative: rel}}, fmt.Sprintf("tagroot-rel:%v", rel))
			}
		}
	}
	// -- numeric tag filters on values that are NOT whole multiples of the filter's unit
	sizes := func() *profile.Profile {
		var st []c06E2EStk
		for i, v := range []int64{32768, 33000, 33791, 33792, 32767, 65536, 1536 * 1024, 1 << 20, -33000, -32768} {
			st = append(st, c06E2EStk{val: int64(i + 1), frames: []string{fmt.Sprintf("fn_%d", i), "main"}, num: map[string]int64{"bytes": v}, unit: ms})
		}
		for i, v := range []int64{2000, 2500, 2999, 3000, 1999} {
			st = append(st, c06E2EStk{val: int64(20 + i), frames: []string{fmt.Sprintf("lat_%d", i), "main"}, num: map[string]int64{"latency": v}, unit: ms})
		}
		return c06E2EBuild(0, "bin/app", st)
	}
	for _, f := range []string{"32kb", "bytes=32kb", "1mb", "-32kb", "latency=2s", "2s", "33kb", "32kb:33kb", "32kb:", ":32kb", "1536kb", "bytes=33000b", "3s", "latency=2500ms"} {
		for _, opt := range []string{"tagfocus", "tagignore"} {
			c06E2ECase(c, "e2e-tag-nonmultiple", "cli", []*profile.Profile{sizes()}, []c06E2EReport{{kind: "proto", opts: c06E2EOpts(opt, f)}})
		}
		c06E2ECase(c, "e2e-tag-nonmultiple", "web", []*profile.Profile{sizes()}, []c06E2EReport{{kind: "top", opts: c06E2EOpts("tagfocus", f)}})
		c06E2ECase(c, "e2e-tag-nonmultiple", "session", []*profile.Profile{sizes()}, []c06E2EReport{{kind: "traces", opts: c06E2EOpts("tagignore", f), before: []string{"top"}}})
	}
	// -- round 5: helpers on the path.  Profile.NumLabelUnits (unit of a numeric tag = first non-empty unit
	//    in sample order, else inferred from the key) is no longer taken from the harness: the model
	//    computes it, and these shapes exercise it: a tag unit-less in an earlier sample and unit-bearing
	//    later, conflicting units, empty units, alignment / request without units, tags never carrying one
	us, msu := map[string]string{"latency": "microseconds"}, map[string]string{"latency": "milliseconds"}
	later := func(k int) *profile.Profile {
		st := []c06E2EStk{
			{val: 1, frames: []string{"alpha", "main"}, num: map[string]int64{"latency": 3}},
			{val: 2, frames: []string{"beta", "main"}, num: map[string]int64{"latency": 5000}, unit: us},
			{val: 4, frames: []string{"gamma", "main"}, num: map[string]int64{"latency": 7000}, unit: us},
			{val: 8, frames: []string{"delta", "main"}, num: map[string]int64{"latency": 6, "request": 2048, "alignment": 64, "depth": 5}, unit: msu},
			{val: 16, frames: []string{"eps", "main"}, num: map[string]int64{"request": 4096, "depth": 7}},
		}
		switch k {
		case 1: // the unit-bearing samples first
			st[0], st[2] = st[2], st[0]
		case 2: // conflicting units, milliseconds first
			st[0], st[3] = st[3], st[0]
		case 3: // no sample carries a unit for latency
			st = []c06E2EStk{st[0], st[4], {val: 32, frames: []string{"zeta", "main"}, num: map[string]int64{"latency": 5000}}}
		}
		return c06E2EBuild(0, "bin/app", st)
	}
	for k := 0; k < 4; k++ {
		p := later(k)
		units, _ := p.NumLabelUnits()
		var ks []string
		for key := range units {
			ks = append(ks, key)
		}
		sort.Strings(ks)
		var ut []Term
		for _, key := range ks {
			ut = append(ut, L(S(key), S(units[key])))
		}
		c.Case("numunits", L(S("numunits"), DumpProfile(p)), L(ut...), true, "op:numunits")
		for _, f := range []string{"latency=4ms:6ms", "latency=6ms:", "latency=:4ms", "latency=5ms", "4ms:6ms", "latency=5000us", "latency=3:6", "request=2kb:", "request=:2048", "alignment=64b", "depth=5:6", "6ms"} {
			for _, opt := range []string{"tagfocus", "tagignore"} {
				c06E2ECase(c, "e2e-unit-of-tag", "cli", []*profile.Profile{later(k)}, []c06E2EReport{{kind: "traces", opts: c06E2EOpts(opt, f)}}, fmt.Sprintf("unit-shape:%d", k))
			}
			c06E2ECase(c, "e2e-unit-of-tag", "web", []*profile.Profile{later(k)}, []c06E2EReport{{kind: "top", opts: c06E2EOpts("tagfocus", f)}}, fmt.Sprintf("unit-shape:%d", k))
		}
		c06E2ECase(c, "e2e-unit-of-tag", "session", []*profile.Profile{later(k)},
			[]c06E2EReport{{kind: "proto", opts: c06E2EOpts("tagfocus", "latency=4ms:6ms"), before: []string{"top"}}, {kind: "traces", opts: c06E2EOpts("tagignore", "latency=6ms:")}}, fmt.Sprintf("unit-shape:%d", k))
	}
	// -- measurement.Scale on the path: tag values sitting EXACTLY on an inclusive bound given in another
	//    unit (N*1e9 ns vs N s for every N up to 64, hours, microseconds), single values and ranges
	ns := map[string]string{"latency": "nanoseconds", "cpu": "microseconds"}
	var bound []c06E2EStk
	for n := int64(1); n <= 64; n++ {
		bound = append(bound, c06E2EStk{val: n, frames: []string{fmt.Sprintf("n%d", n), "main"}, num: map[string]int64{"latency": n * 1000000000, "cpu": n * 1000000}, unit: ns})
	}
	bound = append(bound, c06E2EStk{val: 100, frames: []string{"hour", "main"}, num: map[string]int64{"latency": 3600 * 1000000000 * 3}, unit: ns})
	for _, f := range []string{"latency=15s", "latency=:15s", "latency=16s:31s", "latency=31s:", "latency=58s:63s", "latency=29s", "latency=7s:16s", "latency=15000ms",
		"latency=3hr", "latency=:3hr", "cpu=15s", "cpu=:31s", "cpu=59s:61s", "latency=62s", "latency=30s:30s", "latency=47s:", "latency=:55s"} {
		for i, opt := range []string{"tagfocus", "tagignore"} {
			mode, kind := "cli", "proto"
			if i == 1 {
				mode, kind = "web", "top"
			}
			c06E2ECase(c, "e2e-exact-bound", mode, []*profile.Profile{c06E2EBuild(0, "bin/app", bound)}, []c06E2EReport{{kind: kind, opts: c06E2EOpts(opt, f)}})
		}
	}
	// -- sparse ids: tagroot / tagleaf number their pseudo locations and functions above the LARGEST id;
	//    gaps such that len+1 is taken, huge ids, with filters that look at the colliding frames
	for _, sp := range []int{1, 2, 3} {
		for _, o := range []map[string]string{c06E2EOpts("focus", "target"), c06E2EOpts("ignore", "^a$"), c06E2EOpts("hide", "target|main"), c06E2EOpts("show_from", "helper|target"),
			c06E2EOpts("prune_from", "target"), c06E2EOpts("focus", "tenant"), map[string]string{}} {
			for k, tr := range [][2][]string{{{"tenant"}, nil}, {nil, {"tenant"}}, {{"tenant"}, {"zone"}}} {
				kind := "proto"
				if k == 0 {
					kind = "traces"
				}
				c06E2ECase(c, "e2e-sparse-ids", "cli", []*profile.Profile{c06E2ESparse(sp)}, []c06E2EReport{{kind: kind, opts: o, tagroot: tr[0], tagleaf: tr[1]}}, fmt.Sprintf("sparse:%d", sp))
			}
		}
	}
	// -- random: the profiles and option pools of the core streams through all three entry points
	kn := c06StackKnobs{Names: c06Names, Files: c06Files, MapFiles: c06Maps, MaxFuncs: 5, MaxLocs: 5, MaxLines: 3,
		MaxSamples: 4, MaxDepth: 4, Unsym: false, Empty: true, Labels: true, NoMap: true}
	randOpts := func() map[string]string {
		opts := map[string]string{}
		for _, n := range c06E2EOptNames {
			if !r.P(1, 4) {
				continue
			}
			switch n {
			case "tagfocus", "tagignore":
				opts[n] = PickS(r, c06TagRx)
			case "tagshow", "taghide":
				opts[n] = PickS(r, c06KeyRx)
			default:
				opts[n] = PickS(r, c06Rx)
			}
			if strings.ContainsAny(opts[n], " ") { // a space ends an interactive token
				delete(opts, n)
			}
		}
		return opts
	}
	for i := 0; i < c.Budget(150, 4000); i++ {
		p := c06GenStacks(r, kn)
		c06E2ETidy(p, true)
		var reports []c06E2EReport
		mode := []string{"cli", "session", "web"}[i%3]
		n := 1
		if mode != "cli" {
			n = 2 + r.Intn(2)
		}
		for j := 0; j < n; j++ {
			rp := c06E2EReport{kind: PickS(r, []string{"proto", "traces"}), opts: randOpts(), relative: r.Bool()}
			if mode == "web" {
				rp.kind = "top"
			} else {
				if r.P(1, 3) {
					rp.tagroot = []string{PickS(r, []string{"k", "key", "a"})}
					rp.kind = "proto"
				}
				if r.P(1, 4) {
					rp.tagleaf = []string{PickS(r, []string{"k", "a"})}
					rp.kind = "proto"
				}
			}
			if mode == "session" && r.P(1, 2) {
				rp.before = []string{PickS(r, []string{"top", "traces", "tree", "text", "tags", "top foo", "peek ."})}
			}
			if j == 0 && mode == "session" && r.Bool() {
				rp.opts = map[string]string{} // an unfiltered first command
			}
			reports = append(reports, rp)
		}
		c06E2ECase(c, "e2e-rand", mode, []*profile.Profile{p}, reports)
	}
}

// c06E2ESparse: a small profile whose ids have gaps. kind 1: the last location and the last function
// have id len+1 (the id a dense numbering would hand out next); kind 2: every id multiplied by 1000;
// kind 3: gaps in the middle and ids in descending order of creation.
func c06E2ESparse(kind int) *profile.Profile {
	p := c06E2EBuild(0, "bin/app", []c06E2EStk{
		{val: 1, frames: []string{"leaf1", "helper", "main"}, lab: map[string]string{"tenant": "a", "zone": "eu"}},
		{val: 2, frames: []string{"leaf2", "target", "main"}, lab: map[string]string{"tenant": "b", "zone": "us"}},
		{val: 4, frames: []string{"leaf1", "main"}, lab: map[string]string{"tenant": "a", "zone": "us"}},
		{val: 8, frames: []string{"target", "helper", "main"}, lab: map[string]string{"tenant": "c", "zone": "eu"}},
	})
	// c06E2EBuild creates leaf1, helper, main, leaf2, target in this order: target is last
	switch kind {
	case 1:
		p.Location[len(p.Location)-1].ID++
		p.Function[len(p.Function)-1].ID++
	case 2:
		for _, l := range p.Location {
			l.ID *= 1000
		}
		for _, f := range p.Function {
			f.ID *= 1000
		}
	default:
		n := uint64(len(p.Location))
		for i, l := range p.Location {
			l.ID = 2*(n-uint64(i)) + 1
		}
		for i, f := range p.Function {
			f.ID = 3*(n-uint64(i)) + 2
		}
	}
	return p
}
