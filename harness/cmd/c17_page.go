//go:build verif

package main

import (
	"encoding/json"
	"fmt"
	"strings"
)

// What the browser hands to the page's script is part of the C17 observation ("so the client never
// dereferences a missing element").  c17FromPage therefore reads the served page the way an HTML
// tokenizer does: elements whose content is raw text (script, style, textarea, title) are delimited
// by the tokenizer's rules, not by where the server meant them to end, and the stack data is
// decoded from the text of the script element as delimited.

// c17Text renders a long, mostly printable text as TS (cat17 ["run"; B [10]; "run"; ...]) (cat17 is
// defined in R_C17.v): term.go's S() spells a string with a single non-printable byte as a list of
// byte numbers, which makes page-sized texts very slow to read in Coq.
type c17Text struct{ s string }

func (t c17Text) coq(sb *strings.Builder) {
	sb.WriteString("TS (cat17 [")
	plain := func(b byte) bool { return b >= 0x20 && b <= 0x7e }
	for i, n := 0, 0; i < len(t.s); n++ {
		j := i
		for j < len(t.s) && plain(t.s[j]) == plain(t.s[i]) {
			j++
		}
		if n > 0 {
			sb.WriteString("; ")
		}
		if plain(t.s[i]) {
			sb.WriteString("\"" + strings.ReplaceAll(t.s[i:j], "\"", "\"\"") + "\"")
		} else {
			sb.WriteString("B [")
			for k := i; k < j; k++ {
				if k > i {
					sb.WriteByte(';')
				}
				fmt.Fprintf(sb, "%d", t.s[k])
			}
			sb.WriteString("]")
		}
		i = j
	}
	sb.WriteString("])")
}

func c17IsDelim(b byte) bool {
	return b == '\t' || b == '\n' || b == '\f' || b == ' ' || b == '/' || b == '>'
}

// c17TagAt reports whether s[i:] starts with name (lower case) in any letter case followed by a delimiter.
func c17TagAt(s string, i int, name string) bool {
	if i+len(name) >= len(s) {
		return false
	}
	return strings.EqualFold(s[i:i+len(name)], name) && c17IsDelim(s[i+len(name)])
}

// c17ScriptDataEnd returns the offset (relative to start) of the "<" of the end tag that closes the
// script element whose content begins at page[start], or -1 if the element is never closed.
// States: 0 script data, 1 escaped ("<!--" seen), 2 double escaped ("<script" seen inside 1).
func c17ScriptDataEnd(page string, start int) int {
	st := 0
	for i := start; i < len(page); i++ {
		switch {
		case page[i] == '<':
			end := c17TagAt(page, i+1, "/script")
			switch st {
			case 0:
				if end {
					return i - start
				}
				if strings.HasPrefix(page[i+1:], "!--") {
					st = 1
				}
			case 1:
				if end {
					return i - start
				}
				if c17TagAt(page, i+1, "script") {
					st = 2
				}
			default:
				if end {
					st = 1
				}
			}
		case st != 0 && page[i] == '-' && strings.HasPrefix(page[i+1:], "->"):
			st = 0
		}
	}
	return -1
}

type c17Elem struct {
	start int // offset of the first content byte
	end   int // offset of the "<" of the closing tag, or -1 (unterminated)
}

// c17ScriptElems walks the page in the tokenizer's data state and returns the script elements.
func c17ScriptElems(page string) []c17Elem {
	var out []c17Elem
	i := 0
	for i < len(page) {
		if page[i] != '<' {
			i++
			continue
		}
		if strings.HasPrefix(page[i:], "<!--") {
			j := strings.Index(page[i+4:], "-->")
			if j < 0 {
				return out
			}
			i += 4 + j + 3
			continue
		}
		raw := ""
		for _, name := range []string{"script", "style", "textarea", "title"} {
			if c17TagAt(page, i+1, name) {
				raw = name
			}
		}
		if raw == "" {
			i++
			continue
		}
		// end of the start tag, honouring quoted attribute values
		j, q := i+1+len(raw), byte(0)
		for j < len(page) && (q != 0 || page[j] != '>') {
			switch {
			case q != 0 && page[j] == q:
				q = 0
			case q == 0 && (page[j] == '"' || page[j] == '\''):
				q = page[j]
			}
			j++
		}
		if j >= len(page) {
			return out
		}
		start := j + 1
		end := -1
		if raw == "script" {
			end = c17ScriptDataEnd(page, start)
			out = append(out, c17Elem{start, end})
		} else {
			for k := start; k < len(page); k++ {
				if page[k] == '<' && c17TagAt(page, k+1, "/"+raw) {
					end = k - start
					break
				}
			}
		}
		if end < 0 {
			return out
		}
		k := strings.IndexByte(page[start+end:], '>')
		if k < 0 {
			return out
		}
		i = start + end + k + 1
	}
	return out
}

// c17Tail renders the page from the first content byte of a script element to the end of the page
// for the Coq side, which runs the specification's tokenizer on it: [number of leading bytes that
// contain no "<"; the rest].  A text without "<" cannot change the tokenizer's state (theorem
// script_end_skips_text_without_lt), so only its length is shipped; on the unchanged tree the rest
// is just the closing tag and the page epilogue.
func c17Tail(tail string) []Term {
	k := strings.IndexByte(tail, '<')
	if k < 0 {
		k = len(tail)
	}
	return []Term{ZI(k), c17Text{tail[k:]}}
}

// c17FromPage decodes the stack data from the script element that calls stackViewer(...).  On
// success the observable carries an 8th element for the Coq side: the page from the start of that
// script's content to its end as c17Tail renders it, the offset at which the call ends, the offset
// at which this file's tokenizer ended the element, and (decoded value, raw literal) pairs of
// string literals of the stack data (the model of the JSON string encoding is compared with them).
func c17FromPage(page string) Term {
	const call = "stackViewer("
	for _, e := range c17ScriptElems(page) {
		text := page[e.start:]
		if e.end >= 0 {
			text = page[e.start : e.start+e.end]
		}
		at := -1
		for from := 0; ; {
			k := strings.Index(text[from:], call)
			if k < 0 {
				break
			}
			if !strings.HasSuffix(text[:from+k], "function ") {
				at = from + k
				break
			}
			from += k + len(call)
		}
		if at < 0 {
			continue
		}
		tail := page[e.start:]
		if e.end < 0 {
			return L(S("script-never-closed"), L(c17Tail(tail)...))
		}
		args := text[at+len(call):]
		dec := json.NewDecoder(strings.NewReader(args))
		dec.UseNumber()
		var v, nodes interface{}
		if err := dec.Decode(&v); err != nil {
			return L(S("script-cut"), S("stack data: "+err.Error()), L(c17Tail(tail)...))
		}
		n1 := int(dec.InputOffset())
		rest := strings.TrimLeft(args[n1:], " \t\r\n")
		if !strings.HasPrefix(rest, ",") {
			return L(S("script-cut"), S("no second argument"), L(c17Tail(tail)...))
		}
		dec2 := json.NewDecoder(strings.NewReader(rest[1:]))
		if err := dec2.Decode(&nodes); err != nil {
			return L(S("script-cut"), S("node list: "+err.Error()), L(c17Tail(tail)...))
		}
		rest2 := strings.TrimLeft(rest[1+int(dec2.InputOffset()):], " \t\r\n")
		if !strings.HasPrefix(rest2, ");") || strings.TrimSpace(rest2[2:]) != "" {
			return L(S("script-cut"), S("call not closed"), L(c17Tail(tail)...))
		}
		callEnd := len(text) - len(rest2) + 2
		// raw literals of the strings in the stack data
		var pairs []Term
		seen := map[string]bool{}
		td := json.NewDecoder(strings.NewReader(args[:n1]))
		for len(pairs) < 24 {
			off0 := int(td.InputOffset())
			tok, err := td.Token()
			if err != nil {
				break
			}
			if sv, ok := tok.(string); ok && !seen[sv] {
				seen[sv] = true
				rawLit := strings.TrimLeft(args[off0:int(td.InputOffset())], " \t\r\n,:")
				pairs = append(pairs, L(S(sv), S(rawLit)))
			}
		}
		obs := c17FromJSON(v, nodes).(tL)
		return L(append(append([]Term{}, obs.l...), L(L(c17Tail(tail)...), ZI(callEnd), ZI(e.end), L(pairs...)))...)
	}
	return L(S("no-stack-data"), S(fmt.Sprint(len(page))))
}
