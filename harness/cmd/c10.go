//go:build verif

package main

import (
	"bytes"
	"crypto/sha256"
	"encoding/hex"
	"fmt"
	"io"
	"net/http"
	"net/http/httptest"
	"net/url"
	"os"
	"path/filepath"
	"sort"
	"strings"
	"sync"

	"github.com/google/pprof/internal/driver"
	"github.com/google/pprof/internal/plugin"
	"github.com/google/pprof/internal/transport"
	"github.com/google/pprof/profile"
)

func init() {
	registry["C10"] = runC10
	subcmds["gen-commandtable"] = c10GenCommandTable
}

// c10GenCommandTable dumps pprofCommands (name, hasParam) and the keys of configHelp.
func c10GenCommandTable(args []string) {
	var sb strings.Builder
	sb.WriteString("(* GENERATED from /repo/internal/driver/commands.go (pprofCommands, configHelp) on every run; do not edit. *)\n")
	sb.WriteString("From Coq Require Import List String.\nImport ListNotations.\nOpen Scope string_scope.\n\n")
	cm := driver.VerifCommands()
	var ks []string
	for k := range cm {
		ks = append(ks, k)
	}
	sort.Strings(ks)
	var l []string
	for _, k := range ks {
		l = append(l, fmt.Sprintf("(%s, %v)", c19CoqStr(k), cm[k]))
	}
	sb.WriteString("Definition pprof_commands : list (string * bool) := [\n  " + strings.Join(l, ";\n  ") + "].\n\n")
	hk := driver.VerifConfigHelpKeys()
	sort.Strings(hk)
	l = nil
	for _, k := range hk {
		l = append(l, c19CoqStr(k))
	}
	sb.WriteString("Definition config_help_keys : list string := [\n  " + strings.Join(l, "; ") + "].\n")
	if len(args) > 0 {
		os.WriteFile(args[0], []byte(sb.String()), 0o644)
	} else {
		fmt.Print(sb.String())
	}
}

// ---- scripted UI

type c10Event struct {
	kind     string // "r" report, "e" error, "p" print
	code     int
	cmd      []string
	cfg      driver.VerifConfig
	pristine bool
	hash     string
	out      string // everything the report produced (kept for diagnostics)
}

type c10UI struct {
	lines    []string
	pos      int
	ev       [][]c10Event
	after    []driver.VerifConfig
	start    driver.VerifConfig
	gotSt    bool
	inReport bool
	panicked string
	e2eErr   error
	said     []string // what report generation printed through the UI (part of the transcript)
}

func (u *c10UI) ReadLine(prompt string) (string, error) {
	cfg := driver.VerifCurrentConfig()
	if !u.gotSt {
		u.start, u.gotSt = cfg, true
	} else {
		u.after = append(u.after, cfg)
	}
	if u.pos >= len(u.lines) {
		return "", io.EOF
	}
	l := u.lines[u.pos]
	u.pos++
	u.ev = append(u.ev, nil)
	return l, nil
}
func (u *c10UI) add(e c10Event) {
	if u.pos >= 1 {
		u.ev[u.pos-1] = append(u.ev[u.pos-1], e)
	}
}
func (u *c10UI) Print(args ...interface{}) {
	if u.inReport {
		u.said = append(u.said, "P:"+fmt.Sprint(args...))
	}
	if u.pos >= 1 && !u.inReport {
		// what a command that is not a report prints (help, o, options) is part of the transcript too
		m := fmt.Sprint(args...)
		u.add(c10Event{kind: "p", hash: c10ShortHash(m), out: m})
	}
}
func (u *c10UI) PrintErr(args ...interface{}) {
	// whatever is printed while a report is generated, or after it on the same line (the loop prints
	// the report's error), belongs to the report: it is covered by the output hash
	if u.inReport {
		// the transcript of a command includes what its report said; names of temporary files are not
		// part of it ("Generating report in profile001.pb.gz")
		if m := fmt.Sprint(args...); !strings.HasPrefix(m, "Generating report in ") {
			u.said = append(u.said, "E:"+m)
		}
		return
	}
	if u.pos >= 1 {
		for _, e := range u.ev[u.pos-1] {
			if e.kind == "r" {
				return
			}
		}
	}
	m := fmt.Sprint(args...)
	code := c10ErrCode(m)
	switch {
	case code == 0:
		u.add(c10Event{kind: "p", hash: c10ShortHash(m), out: m})
	case code > 0:
		u.add(c10Event{kind: "e", code: code})
	}
}
func (u *c10UI) IsTerminal() bool                             { return false }
func (u *c10UI) WantBrowser() bool                            { return false }
func (u *c10UI) SetAutoComplete(complete func(string) string) {}

// c10ErrCode classifies what the loop prints with PrintErr: >0 an error of the loop itself,
// 0 a plain message (help), -1 something the report generation said (covered by the output hash).
func c10ErrCode(m string) int {
	switch {
	case strings.HasPrefix(m, "please specify a value"):
		return 1
	case strings.HasPrefix(m, "sample_index "), strings.HasPrefix(m, "invalid sample_index"):
		return 2
	case strings.HasPrefix(m, "unknown config field"), strings.HasPrefix(m, "invalid \""), strings.HasPrefix(m, "strconv."),
		strings.HasPrefix(m, "illegal value"):
		return 3
	case strings.HasPrefix(m, "did you mean: "):
		return 41
	case strings.HasPrefix(m, "unrecognized command: "):
		return 42
	case strings.HasPrefix(m, "command ") && strings.HasSuffix(m, "requires an argument"):
		return 43
	case strings.HasPrefix(m, "unexpected end of line after >"):
		return 44
	case strings.HasPrefix(m, "Unknown command: "):
		return 0
	}
	return -1
}

type c10MemWriter struct {
	mu  sync.Mutex
	buf map[string]*bytes.Buffer
	ord []string
}
type c10MemFile struct {
	w    *c10MemWriter
	name string
}

func (w *c10MemWriter) Open(name string) (io.WriteCloser, error) {
	w.mu.Lock()
	defer w.mu.Unlock()
	if w.buf == nil {
		w.buf = map[string]*bytes.Buffer{}
	}
	w.buf[name] = &bytes.Buffer{}
	w.ord = append(w.ord, name)
	return &c10MemFile{w, name}, nil
}
func (f *c10MemFile) Write(b []byte) (int, error) {
	f.w.mu.Lock()
	defer f.w.mu.Unlock()
	return f.w.buf[f.name].Write(b)
}
func (f *c10MemFile) Close() error { return nil }
func (w *c10MemWriter) drain() string {
	w.mu.Lock()
	defer w.mu.Unlock()
	var sb strings.Builder
	for _, n := range w.ord {
		sb.WriteString("\x00file:" + n + "\x00")
		sb.Write(w.buf[n].Bytes())
	}
	w.buf, w.ord = nil, nil
	return sb.String()
}

// c10RetryBudget bounds the re-runs spent on telling an unstable output (map order, C08) from a leak.
var c10RetryBudget = 4000

var c10Stdout *os.File

func c10StdoutOffset() int64 {
	off, _ := c10Stdout.Seek(0, io.SeekCurrent)
	return off
}
func c10StdoutSince(off int64) string {
	end := c10StdoutOffset()
	b := make([]byte, end-off)
	c10Stdout.ReadAt(b, off)
	return string(b)
}

func c10ShortHash(s string) string {
	h := sha256.Sum256([]byte(s))
	return hex.EncodeToString(h[:8])
}

// c10Session runs the REAL interactive loop on p with the scripted lines, starting from option
// state cfg0, with every report generated for real; each report is recorded with the config it
// was generated with, whether the profile it was handed equals the pristine decode, and a hash of
// everything it produced (stdout, files opened through o.Writer, returned error).
func c10Session(p *profile.Profile, ref string, cfg0 driver.VerifConfig, lines []string) *c10UI {
	return c10SessionCore(ref, lines, func(ui *c10UI, mw *c10MemWriter) {
		driver.VerifSetCurrentConfig(cfg0)
		o := driver.VerifSetDefaults(&plugin.Options{UI: ui, Writer: mw, HTTPTransport: transport.New(nil)})
		driver.VerifInteractive(p, o)
	})
}

// c10SessionCore: the recording machinery around one run of the interactive loop; run starts the
// loop (directly, or through driver.PProf).
func c10SessionCore(ref string, lines []string, run func(ui *c10UI, mw *c10MemWriter)) *c10UI {
	restoreG := driver.VerifGlobals()
	defer restoreG()
	ui := &c10UI{lines: lines}
	mw := &c10MemWriter{}
	restoreW := driver.VerifWrapReports(func(real func(*profile.Profile, []string, driver.VerifConfig, *plugin.Options) error,
		pp *profile.Profile, cmd []string, cfg driver.VerifConfig, oo *plugin.Options) error {
		pristine := ref == "" || Render(DumpProfile(pp)) == ref
		off := c10StdoutOffset()
		var err error
		ui.inReport = true
		ui.said = nil
		func() {
			defer func() {
				if r := recover(); r != nil {
					err = fmt.Errorf("panic: %v", r)
				}
			}()
			err = real(pp, cmd, cfg, oo)
		}()
		ui.inReport = false
		out := c10StdoutSince(off) + mw.drain() + "\x00ui:" + strings.Join(ui.said, "\x00")
		if err != nil {
			out += "\x00err:" + err.Error()
		}
		ui.add(c10Event{kind: "r", cmd: append([]string{}, cmd...), cfg: cfg, pristine: pristine, hash: c10ShortHash(out), out: out})
		return err
	})
	defer restoreW()
	func() {
		defer func() {
			if r := recover(); r != nil {
				ui.panicked = fmt.Sprint(r)
			}
		}()
		run(ui, mw)
	}()
	for len(ui.after) < ui.pos {
		ui.after = append(ui.after, driver.VerifCurrentConfig())
	}
	return ui
}

// ---- line generator

var c10Cmds = []string{"top", "text", "tree", "traces", "tags", "raw", "dot", "comments", "peek", "list", "top", "top", "tree", "callgrind", "proto", "topproto"}
var c10Args = []string{"5", "10", "0", "-1", "+3", "007", "99999999999", "-cum", "--cum", "main", "foo|bar", "-baz", "-runtime", "f", "g.*", "[", "-(", ">out.txt", ">", "> o2", "k", "-v", "1e3", "--", "-", "bar"}

func c10Line(r *Rng, fields []driver.VerifField, types []string) string {
	pad := func(s string) string {
		if r.P(1, 6) {
			s = " " + s
		}
		if r.P(1, 6) {
			s = s + "\t "
		}
		return s
	}
	switch r.Intn(20) {
	case 0, 1, 2, 3, 4, 5: // assignment name=value
		f := fields[r.Intn(len(fields))]
		var v string
		switch r.Intn(4) {
		case 0:
			v = PickS(r, c19JunkPool)
		default:
			switch f.Kind {
			case "string":
				if len(f.Choices) > 0 {
					v = PickS(r, f.Choices)
				} else {
					v = PickS(r, []string{"", "main", "foo", "bar|baz", "a b", "x=y", "k", "[", "auto", "ms", "minimum"})
				}
			case "int":
				v = PickS(r, c19IntPool)
			case "float64":
				v = PickS(r, c19FloatPool)
			case "bool":
				v = PickS(r, []string{"t", "f", "true", "false", "1", "0", "yes", "No", ""})
			}
		}
		name := f.Name
		if f.Name == "sample_index" {
			v = PickS(r, append(append([]string{"0", "1", "7", "-1", "", "inuse_objects", "bogus"}, types...), "inuse_"+PickS(r, types)))
		}
		eq := "="
		if r.P(1, 5) {
			eq = PickS(r, []string{" = ", "= ", " ="})
		}
		s := name + eq + v
		if r.P(1, 8) {
			s += PickS(r, []string{" //: [a | b]", "//:", " //: x //: y", " // not a comment"})
		}
		return pad(s)
	case 6: // choice as variable
		f := fields[r.Intn(len(fields))]
		for len(f.Choices) == 0 {
			f = fields[r.Intn(len(fields))]
		}
		return pad(PickS(r, f.Choices) + PickS(r, []string{"", "=1", "=true", "=0", "=false", "=T", "=yes", "="}))
	case 7: // bare name
		return pad(fields[r.Intn(len(fields))].Name)
	case 8: // shortcuts
		t := PickS(r, types)
		return pad(PickS(r, []string{":", t, "total_" + t, "mean_" + t, "total_bogus", "mean_"}))
	case 9:
		return PickS(r, []string{"o", "options", "help", "help top", "help focus", "help bogus", "", "  ", "frob", "focus 3", "focus", "nodecount10", "top10x", "10", "peek", "list", "=", "=x", "q=1"})
	default: // command
		c := PickS(r, c10Cmds)
		if r.P(1, 6) {
			c += PickS(r, []string{"5", "10", "0", "3"})
		}
		parts := []string{c}
		if c == "peek" || c == "list" {
			parts = append(parts, PickS(r, []string{"main", "foo", ".", "bar|baz", "[", "f"}))
		}
		for i, n := 0, r.Intn(4); i < n; i++ {
			parts = append(parts, PickS(r, c10Args))
		}
		return pad(strings.Join(parts, PickS(r, []string{" ", " ", "  ", "\t"})))
	}
}

func c10Profile(r *Rng) *profile.Profile {
	k := DefaultKnobs()
	k.MinSampleTypes = 1
	k.MaxSamples = 8
	k.Extreme = false
	k.SparseIDs = false
	k.EmptyStacks = r.P(1, 4)
	p := GenProfile(r, k)
	// tags for tagfocus / tagroot / tags command
	for i, s := range p.Sample {
		// GenProfile can leave a NumUnit list of another length than its NumLabel list (same key
		// drawn twice): preEncode would panic on such a profile
		// The generator's units are dropped: conflicting units of SEVERAL tags make identifyNumLabelUnits
		// emit its warnings in map-iteration order (a C08 matter), which would make outputs unstable.
		s.NumUnit = nil
		if i%2 == 0 {
			if s.Label == nil {
				s.Label = map[string][]string{}
			}
			s.Label["k"] = []string{PickS(r, []string{"v", "w"})}
		}
	}
	// ... but every other profile gets exactly ONE numeric tag recorded with two units, so that report
	// generation has something to warn about ("For tag K used unit U, also encountered unit(s) ..":
	// printed to the UI by commands, part of every web page). The key is unique per profile: a
	// process-wide "already said that" memo keyed by the text cannot hide behind an earlier case.
	if len(p.Sample) > 0 && r.P(1, 2) {
		c10TagSeq++
		key := fmt.Sprintf("lat%d", c10TagSeq)
		a, b := p.Sample[0], p.Sample[len(p.Sample)-1]
		put := func(s *profile.Sample, vals []int64, units []string) {
			if s.NumLabel == nil {
				s.NumLabel = map[string][]int64{}
			}
			s.NumUnit = map[string][]string{key: units}
			s.NumLabel[key] = vals
		}
		if a == b || r.P(1, 3) {
			put(a, []int64{5, 7}, []string{"ms", "us"})
		} else {
			put(a, []int64{5}, []string{PickS(r, []string{"ms", "bytes"})})
			put(b, []int64{7000}, []string{PickS(r, []string{"us", "kb"})})
		}
	}
	return p
}

var c10TagSeq int

func c10Types(p *profile.Profile) []string {
	var ts []string
	for _, st := range p.SampleType {
		ts = append(ts, st.Type)
	}
	return ts
}

func c10EventTerm(e c10Event, same bool) Term {
	switch e.kind {
	case "r":
		return L(S("r"), Ss(e.cmd), c19CfgTerm(e.cfg), Bool(e.pristine), Bool(same))
	case "e":
		return L(S("e"), ZI(e.code))
	}
	return L(S("p"), Bool(same))
}

func runC10(c *Ctx) {
	fields := driver.VerifConfigFields()
	saved0 := driver.VerifCurrentConfig()
	defer driver.VerifSetCurrentConfig(saved0)
	dir, _ := filepath.Abs("c10cfg")
	os.MkdirAll(dir, 0o700)
	os.Setenv("XDG_CONFIG_HOME", dir)
	os.Setenv("PPROF_TMPDIR", dir)
	f, err := os.CreateTemp(".", "c10stdout")
	if err != nil {
		panic(err)
	}
	realStdout := os.Stdout
	c10Stdout, os.Stdout = f, f
	defer func() { os.Stdout = realStdout; f.Close(); os.Remove(f.Name()); os.RemoveAll(dir) }()

	var st c10Stats
	for k := 0; k < c.Budget(350, 3000); k++ {
		p := c10Profile(c.R)
		types := c10Types(p)
		ref := Render(DumpProfile(func() *profile.Profile { return c10ParseBack(p) }()))
		p0dump := Render(DumpProfile(p))
		cfg0 := driver.VerifDefaultConfig()
		if c.R.P(1, 3) {
			cfg0 = c19GenConfig(c.R, fields)
		}
		var lines []string
		for i, n := 0, 2+c.R.Intn(c.Budget(10, 30)); i < n; i++ {
			lines = append(lines, c10Line(c.R, fields, types))
		}
		if c.R.P(1, 10) {
			lines = append(lines, PickS(c.R, []string{"exit", "quit", "q"}), "top")
		}
		inProc := func(before driver.VerifConfig, line string) []string {
			fr := c10Session(p, ref, before, []string{c10CompactLine(before), line})
			if len(fr.ev) != 2 {
				return nil
			}
			return c10ReportHashes(fr.ev[1])
		}
		if k%16 == 5 {
			// every 16th history is judged against a fresh PROCESS: a process-wide cache inside pprof
			// would be shared by an in-process "fresh" session
			// both processes hold the decode of the same bytes (a parse/serialize round trip may
			// reorder what unstable sorts later see)
			var buf bytes.Buffer
			p.WriteUncompressed(&buf)
			os.WriteFile("c10sess.pb", buf.Bytes(), 0o644)
			p = c10ParseBack(p)
			ref = Render(DumpProfile(c10ParseBack(p)))
			p0dump = Render(DumpProfile(p))
			child := func(before driver.VerifConfig, line string) []string {
				r := c10RunChild(c10RefJob{Mode: "sess", Prof: "c10sess.pb", Pairs: driver.VerifConfigDump(before), Lines: []string{c10CompactLine(before), line}}, &st)
				c10LastRefOuts = r.Outs
				return r.Hashes
			}
			c10History(c, "session", p, ref, p0dump, cfg0, lines, child, 40, &st)
			os.Remove("c10sess.pb")
			continue
		}
		c10History(c, "session", p, ref, p0dump, cfg0, lines, inProc, 60, &st)
	}
	c10RunShapes(c, &st)
	c10RunSrc(c, fields, &st)
	c10RunE2E(c, fields, &st)
	c.Extra["reports"] = st.reports
	c.Extra["nondeterministic_outputs_skipped"] = st.flaky
	c.Extra["leaks_seen"] = st.leaks
	c10RunWeb(c, fields)
}

type c10Stats struct{ flaky, reports, leaks, childRefs, srcA, srcB, srcNone int }

// c10RefFn regenerates the reports of one line in a FRESH session brought to the option state
// `before`; it returns one hash per event of the line ("" for events that are not reports).
type c10RefFn func(before driver.VerifConfig, line string) []string

// c10LastRefOuts holds the full outputs behind the hashes the last c10RefFn call returned.
var c10LastRefOuts []string

func c10CompactLine(before driver.VerifConfig) string {
	for _, pr := range driver.VerifConfigDump(before) {
		if pr[0] == "compact_labels" && pr[1] == "true" {
			return "compact_labels=true"
		}
	}
	return "compact_labels=false"
}

func c10ReportHashes(evs []c10Event) []string {
	var hs []string
	c10LastRefOuts = nil
	for _, e := range evs {
		if e.kind == "r" || e.kind == "p" {
			hs = append(hs, e.hash)
		} else {
			hs = append(hs, "")
		}
		c10LastRefOuts = append(c10LastRefOuts, e.out)
	}
	return hs
}

// c10History runs one scripted session on the real loop and judges every report with the
// metamorphic oracle (refFn); it emits the "sess" case.
func c10History(c *Ctx, gen string, p *profile.Profile, ref, p0dump string, cfg0 driver.VerifConfig, lines []string,
	refFn c10RefFn, maxRetry int, st *c10Stats) {
	types := c10Types(p)
	ui := c10Session(p, ref, cfg0, lines)
	var lineT []Term
	strs := map[string]bool{}
	c19CollectCfg(strs, cfg0)
	nt := false
	for li := 0; li < ui.pos; li++ {
		before := ui.start
		if li > 0 {
			before = ui.after[li-1]
		}
		var evT []Term
		var first []string
		for ei, e := range ui.ev[li] {
			same := true
			if e.kind == "r" || e.kind == "p" {
				if e.kind == "r" {
					st.reports++
					nt = true
				}
				if e.kind == "r" && gen == "session-src" && (e.cmd[0] == "list" || e.cmd[0] == "weblist") {
					switch {
					case strings.Contains(e.out, "/* A "):
						st.srcA++
					case strings.Contains(e.out, "/* B "):
						st.srcB++
					default:
						st.srcNone++
					}
				}
				if first == nil {
					first = refFn(before, lines[li])
				}
				same = ei < len(first) && first[ei] == e.hash
				for attempt := 0; attempt < maxRetry && !same && c10RetryBudget > 0; attempt++ {
					// an unstable output (map order; C08's subject) matches eventually or differs between
					// two fresh runs; a leak does neither
					c10RetryBudget--
					again := refFn(before, lines[li])
					if ei < len(again) && again[ei] == e.hash {
						st.flaky++
						same = true
					} else if ei < len(again) && ei < len(first) && again[ei] != first[ei] {
						st.flaky++
						same = true
					}
				}
				if !same || (e.kind == "r" && !e.pristine) {
					st.leaks++
					if _, have := c.Extra["session_mismatch_sample"]; !have && ei < len(c10LastRefOuts) {
						c.Extra["session_mismatch_sample"] = lines[li] + ": " + c10FirstDiff(e.out, c10LastRefOuts[ei])
					}
				}
			}
			evT = append(evT, c10EventTerm(e, same))
		}
		c19CollectCfg(strs, ui.after[li])
		lineT = append(lineT, L(L(evT...), c19CfgTerm(ui.after[li])))
	}
	for _, l := range lines {
		if i := strings.Index(l, "="); i >= 0 {
			v := l[i+1:]
			if j := strings.LastIndex(v, "//:"); j >= 0 {
				v = v[:j]
			}
			strs[strings.TrimSpace(v)] = true
		}
	}
	unchanged := Render(DumpProfile(p)) == p0dump
	in := L(S("sess"), c19PfTable(strs), Ss(types), S(p.DefaultSampleType), c19CfgTerm(cfg0), Ss(lines))
	obs := L(c19CfgTerm(ui.start), L(lineT...), Bool(unchanged))
	c.Case(gen, in, obs, nt, "op:sess")
}

func c10ParseBack(p *profile.Profile) *profile.Profile {
	var buf bytes.Buffer
	p.WriteUncompressed(&buf)
	q, err := profile.ParseUncompressed(buf.Bytes())
	if err != nil {
		panic(err)
	}
	return q
}

// ---- web requests

type c10Req struct {
	path string
	q    url.Values
}

func c10Do(h map[string]http.Handler, rq c10Req) (int, string) {
	code, hash, _ := c10Do3(h, rq)
	return code, hash
}

func c10Do3(h map[string]http.Handler, rq c10Req) (int, string, string) {
	req := httptest.NewRequest("GET", rq.path+"?"+rq.q.Encode(), nil)
	w := httptest.NewRecorder()
	func() {
		defer func() {
			if r := recover(); r != nil {
				w.WriteHeader(599)
				fmt.Fprintf(w, "panic: %v", r)
			}
		}()
		h[rq.path].ServeHTTP(w, req)
	}()
	return w.Code, c10ShortHash(fmt.Sprint(w.Code) + w.Body.String()), w.Body.String()
}

type c10NullUI struct{}

func (c10NullUI) ReadLine(string) (string, error)     { return "", io.EOF }
func (c10NullUI) Print(...interface{})                {}
func (c10NullUI) PrintErr(...interface{})             {}
func (c10NullUI) IsTerminal() bool                    { return false }
func (c10NullUI) WantBrowser() bool                   { return false }
func (c10NullUI) SetAutoComplete(func(string) string) {}

func c10RunWeb(c *Ctx, fields []driver.VerifField) {
	paths := []string{"/top", "/top", "/peek", "/flamegraph", "/flamegraph", "/", "/download", "/source"}
	flaky := 0
	for k := 0; k < c.Budget(100, 1500); k++ {
		p := c10Profile(c.R)
		viaChild := k%8 == 3 // the reference comes from a fresh PROCESS: nothing process-wide is shared
		if viaChild {
			// both processes must hold the same object: the decode of the same bytes
			var buf bytes.Buffer
			p.WriteUncompressed(&buf)
			os.WriteFile("c10web.pb", buf.Bytes(), 0o644)
			p = c10ParseBack(p)
		}
		p0dump := Render(DumpProfile(p))
		cfg0 := driver.VerifDefaultConfig()
		if c.R.P(1, 3) {
			cfg0 = c19GenConfig(c.R, fields)
		}
		restoreG := driver.VerifGlobals()
		driver.VerifSetCurrentConfig(cfg0)
		o := driver.VerifSetDefaults(&plugin.Options{UI: c10NullUI{}, Writer: &c10MemWriter{}, HTTPTransport: transport.New(nil)})
		var reqs []c10Req
		for i, n := 0, 2+c.R.Intn(6); i < n; i++ {
			q := url.Values{}
			switch c.R.Intn(4) {
			case 0:
			case 1:
				q = c19GenQuery(c.R, fields, 1+c.R.Intn(3))
			default: // mutating, valid options
				for _, kv := range [][2]string{{"f", "main|foo"}, {"i", "bar"}, {"h", "f"}, {"s", "main"}, {"sf", "foo"}, {"tf", "k=v"}, {"ti", "w"},
					{"g", "lines"}, {"g", "files"}, {"n", "2"}, {"nf", "0.3"}, {"calltree", "t"}, {"rel", "t"}, {"prunefrom", "bar"},
					{"noinlines", "t"}, {"sort", "cum"}, {"trim", "f"}, {"si", "0"}, {"norm", "t"}, {"dropneg", "t"}, {"mean", "t"}} {
					if c.R.P(1, 5) {
						q[kv[0]] = []string{kv[1]}
					}
				}
			}
			path := PickS(c.R, paths)
			if path == "/peek" || path == "/source" {
				if _, ok := q["f"]; !ok || c.R.Bool() {
					q["f"] = []string{PickS(c.R, []string{"main", "foo", ".", "[", "bar|baz"})}
				}
			}
			reqs = append(reqs, c10Req{path, q})
		}
		concurrent := c.R.Bool()
		lastFresh := ""
		state0 := driver.VerifConfigDump(cfg0)
		fresh := func(rq c10Req) (int, string) {
			if viaChild {
				r := c10RunChild(c10RefJob{Mode: "web", Prof: "c10web.pb", Pairs: state0, Path: rq.path, Query: rq.q.Encode()}, &c10WebStats)
				lastFresh = ""
				if len(r.Hashes) != 1 {
					return r.Code, ""
				}
				return r.Code, r.Hashes[0]
			}
			h, err := driver.VerifWeb(p, o)
			if err != nil {
				panic(err)
			}
			code, hash, body := c10Do3(h, rq)
			lastFresh = body
			return code, hash
		}
		h, err := driver.VerifWeb(p, o)
		if err != nil {
			panic(err)
		}
		codes := make([]int, len(reqs))
		hashes := make([]string, len(reqs))
		bodies := make([]string, len(reqs))
		if concurrent {
			var wg sync.WaitGroup
			for i := range reqs {
				wg.Add(1)
				go func(i int) {
					defer wg.Done()
					codes[i], hashes[i] = c10Do(h, reqs[i])
				}(i)
			}
			wg.Wait()
		} else {
			for i := range reqs {
				codes[i], hashes[i], bodies[i] = c10Do3(h, reqs[i])
			}
		}
		cfgSame := Render(c19CfgTerm(driver.VerifCurrentConfig())) == Render(c19CfgTerm(cfg0))
		var rT, oT []Term
		strs := map[string]bool{}
		c19CollectCfg(strs, cfg0)
		for i, rq := range reqs {
			c19Collect(strs, rq.q)
			fc, fh := fresh(rq)
			same := fc == codes[i] && fh == hashes[i]
			firstFresh := lastFresh
			maxAtt := 200
			if viaChild {
				maxAtt = 6
			}
			for attempt := 0; attempt < maxAtt && !same && c10RetryBudget > 0; attempt++ { // an unstable output (C08) matches eventually, a leak never
				c10RetryBudget--
				fc2, fh2 := fresh(rq)
				if fc2 == codes[i] && fh2 == hashes[i] {
					flaky++
					same = true
					if _, have := c.Extra["web_unstable_sample"]; !have && !concurrent {
						c.Extra["web_unstable_sample"] = rq.path + " " + c10FirstDiff(bodies[i], firstFresh)
					}
				}
			}
			if !same {
				_, fh2 := fresh(rq)
				if fh2 != fh {
					flaky++
					same = true
				} else if _, have := c.Extra["web_mismatch_sample"]; !have && !concurrent {
					c.Extra["web_mismatch_sample"] = c10FirstDiff(bodies[i], lastFresh)
				}
			}
			rT = append(rT, L(S(rq.path), c19ValuesTerm(rq.q)))
			oT = append(oT, L(ZI(codes[i]), Bool(same)))
		}
		unchanged := Render(DumpProfile(p)) == p0dump
		restoreG()
		in := L(S("web"), c19PfTable(strs), c19CfgTerm(cfg0), L(rT...), Bool(concurrent))
		c.Case("web", in, L(L(oT...), Bool(cfgSame), Bool(unchanged)), true, "op:web", fmt.Sprintf("concurrent:%v", concurrent))
	}
	os.Remove("c10web.pb")
	c.Extra["web_nondeterministic_outputs_skipped"] = flaky
	c.Extra["web_fresh_references_in_child_processes"] = c10WebStats.childRefs
}

var c10WebStats c10Stats

// c10FirstDiff shows where two response bodies part (diagnostic copied into the evidence).
func c10FirstDiff(a, b string) string {
	i := 0
	for i < len(a) && i < len(b) && a[i] == b[i] {
		i++
	}
	lo := i - 200
	if lo < 0 {
		lo = 0
	}
	cut := func(s string) string {
		hi := i + 200
		if hi > len(s) {
			hi = len(s)
		}
		if lo > len(s) {
			return ""
		}
		return s[lo:hi]
	}
	return fmt.Sprintf("at byte %d: in sequence %q / fresh %q", i, cut(a), cut(b))
}
