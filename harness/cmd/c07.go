//go:build verif

package main

import (
	"bytes"
	"fmt"
	"os"
	"strconv"
	"strings"

	"github.com/google/pprof/internal/driver"
	"github.com/google/pprof/profile"
)

func init() { registry["C07"] = runC07 }

// ---- plain-data description of a tuple of profiles that share their symbol tables -------------

type c07Line struct{ fn int } // index into funcs
type c07Loc struct {
	id    uint64
	addr  uint64
	lines []int // function indices, leaf-most first
}
type c07Table struct {
	funcs  []string // function id = index+1; names are unique unless starts tells two builds of one function apart
	starts []int64  // optional: Function.StartLine per function
	files  []string // optional: Function.Filename per function (default "f.go")
	locs   []c07Loc
}
type c07Sample struct {
	locs   []int // indices into table.locs
	vals   []int64
	labels map[string][]string
	numlab map[string][]int64
}
type c07Prof struct {
	types      [][2]string // (type, unit)
	dflt       string
	periodType [2]string
	period     int64
	samples    []c07Sample
	sparse     bool // the profile lists only the locations / functions its samples use (ids stay tuple-wide)
	duration   int64
	timeNanos  int64
}
type c07Tuple struct {
	tab       c07Table
	srcs      []c07Prof
	bases     []c07Prof
	diffBase  bool
	normalize bool
}

func (t *c07Table) build(pp c07Prof) *profile.Profile {
	p := &profile.Profile{DefaultSampleType: pp.dflt, Period: pp.period, DurationNanos: pp.duration, TimeNanos: pp.timeNanos}
	p.PeriodType = &profile.ValueType{Type: pp.periodType[0], Unit: pp.periodType[1]}
	for _, st := range pp.types {
		p.SampleType = append(p.SampleType, &profile.ValueType{Type: st[0], Unit: st[1]})
	}
	useLoc := map[int]bool{}
	useFn := map[int]bool{}
	for _, s := range pp.samples {
		for _, li := range s.locs {
			useLoc[li] = true
			for _, fi := range t.locs[li].lines {
				useFn[fi] = true
			}
		}
	}
	fnByIdx := map[int]*profile.Function{}
	for i, n := range t.funcs {
		if pp.sparse && !useFn[i] {
			continue
		}
		f := &profile.Function{ID: uint64(i + 1), Name: n, SystemName: n, Filename: "f.go"}
		if i < len(t.starts) {
			f.StartLine = t.starts[i]
		}
		if i < len(t.files) {
			f.Filename = t.files[i]
		}
		fnByIdx[i] = f
		p.Function = append(p.Function, f)
	}
	locByIdx := map[int]*profile.Location{}
	for li, l := range t.locs {
		if pp.sparse && !useLoc[li] {
			continue
		}
		loc := &profile.Location{ID: l.id, Address: l.addr}
		for _, fi := range l.lines {
			loc.Line = append(loc.Line, profile.Line{Function: fnByIdx[fi], Line: int64(10 + fi)})
		}
		locByIdx[li] = loc
		p.Location = append(p.Location, loc)
	}
	for _, s := range pp.samples {
		ss := &profile.Sample{Value: append([]int64(nil), s.vals...)}
		for _, li := range s.locs {
			ss.Location = append(ss.Location, locByIdx[li])
		}
		if len(s.labels) > 0 {
			ss.Label = map[string][]string{}
			for k, v := range s.labels {
				ss.Label[k] = append([]string(nil), v...)
			}
		}
		if len(s.numlab) > 0 {
			ss.NumLabel = map[string][]int64{}
			for k, v := range s.numlab {
				ss.NumLabel[k] = append([]int64(nil), v...)
			}
		}
		p.Sample = append(p.Sample, ss)
	}
	return p
}

func (t *c07Tuple) buildAll() (srcs, bases []*profile.Profile) {
	for _, s := range t.srcs {
		srcs = append(srcs, t.tab.build(s))
	}
	for _, b := range t.bases {
		bases = append(bases, t.tab.build(b))
	}
	return
}

func (t *c07Tuple) input() Term {
	srcs, bases := t.buildAll()
	var ls, lb []Term
	for _, p := range srcs {
		ls = append(ls, DumpProfile(p))
	}
	for _, p := range bases {
		lb = append(lb, DumpProfile(p))
	}
	return L(L(Bool(t.diffBase), Bool(t.normalize)), L(ls...), L(lb...))
}

// ---- running the implementation --------------------------------------------------------------

func c07ErrEnum(msg string, normalize bool) string {
	stage := "diff:"
	switch {
	case strings.Contains(msg, "problem fetching source profiles"):
		stage = "src:"
	case strings.Contains(msg, "problem fetching base profiles"):
		stage = "base:"
	case normalize && strings.HasPrefix(msg, "incompatible"):
		stage = "norm:"
	}
	kinds := [][2]string{
		{"empty common sample type list", "no-common-types"},
		{"sample type is not found", "type-not-found"},
		{"period type:", "period-type"},
		{"sample types:", "sample-types"},
		{"inconsistent samples type count", "count-mismatch"},
		{"incompatible period types", "incompatible-period"},
		{"incompatible sample types", "incompatible-sample"},
	}
	for _, k := range kinds {
		if strings.Contains(msg, k[0]) {
			return stage + k[1]
		}
	}
	return stage + "other:" + msg
}

func c07DumpMerged(p *profile.Profile) Term {
	var sts, ss []Term
	for _, st := range p.SampleType {
		sts = append(sts, dumpVT(st))
	}
	for _, s := range p.Sample {
		var frames []Term
		for _, l := range s.Location {
			var names, files []string
			for _, ln := range l.Line {
				if ln.Function != nil {
					names = append(names, ln.Function.Name)
					files = append(files, ln.Function.Filename)
				} else {
					names = append(names, "")
					files = append(files, "")
				}
			}
			frames = append(frames, L(ZU(l.Address), Ss(names), Ss(files)))
		}
		var lab, nl []Term
		for _, k := range sortedKeysS(s.Label) {
			lab = append(lab, L(S(k), Ss(s.Label[k])))
		}
		for _, k := range sortedKeysI(s.NumLabel) {
			nl = append(nl, L(S(k), Zs(s.NumLabel[k])))
		}
		ss = append(ss, L(L(frames...), Zs(s.Value), L(lab...), L(nl...)))
	}
	pt := L()
	if p.PeriodType != nil {
		pt = L(dumpVT(p.PeriodType))
	}
	di, err := p.SampleIndexByName("")
	if err != nil {
		di = -1
	}
	return L(L(sts...), S(p.DefaultSampleType), pt, Z(p.Period), L(ss...), ZI(di))
}

// funcOrder: function names in the order of the merged function table (sources first, then bases;
// per profile the functions it lists, in table order), every name once.
func (t *c07Tuple) funcOrder() []string {
	var out []string
	seen := map[string]bool{}
	for _, pp := range append(append([]c07Prof(nil), t.srcs...), t.bases...) {
		for _, f := range t.tab.build(pp).Function {
			if !seen[f.Name] {
				seen[f.Name] = true
				out = append(out, f.Name)
			}
		}
	}
	return out
}

func (t *c07Tuple) top(p *profile.Profile, col int) Term {
	total, items, err := driver.VerifC07Top(p, strconv.Itoa(col))
	if err != nil {
		return L(S("err"), S(err.Error()))
	}
	byName := map[string][2]int64{}
	dup := false
	for _, it := range items {
		if _, ok := byName[it.Name]; ok {
			dup = true
		}
		byName[it.Name] = [2]int64{it.Flat, it.Cum}
	}
	var out []Term
	seen := map[string]bool{}
	for _, n := range t.funcOrder() {
		if v, ok := byName[n]; ok && !seen[n] {
			seen[n] = true
			out = append(out, L(S(n), Z(v[0]), Z(v[1])))
		}
	}
	if dup || len(seen) != len(byName) {
		return L(S("err"), S(fmt.Sprintf("unexpected report entries %v", items)))
	}
	return L(Z(total), L(out...))
}

// observe runs pprof's own fetch path (fetchProfiles) and report path (generateRawReport +
// report.TextItems) on the tuple.  Every report is produced from a freshly fetched profile, as
// each pprof invocation does.  The second list is the three-step history of the statement:
// (1) fetch with the flags, (2) save with the real `-proto` command (driver generateReport ->
// report.New -> report.Generate(Proto)/printProto of the report's own profile -> output file),
// (3) reopen the saved bytes (profile.Parse) and build the -top report again.
func (t *c07Tuple) observe() (obs Term) {
	defer func() {
		if r := recover(); r != nil {
			obs = L(S("panic"), S(fmt.Sprint(r)))
		}
	}()
	fetch := func() (*profile.Profile, error) {
		srcs, bases := t.buildAll()
		p, _, err := driver.VerifC07Fetch(srcs, bases, t.diffBase, t.normalize)
		return p, err
	}
	p, err := fetch()
	if err != nil {
		return L(S("err"), S(c07ErrEnum(err.Error(), t.normalize)))
	}
	dump := c07DumpMerged(p)
	ps, err := fetch()
	if err != nil {
		return L(S("err"), S("refetch:"+err.Error()))
	}
	saved, err := driver.VerifC07SaveProto(ps)
	if err != nil {
		return L(S("err"), S("saveproto:"+err.Error()))
	}
	var direct, reopened []Term
	for col := range p.SampleType {
		q, err := fetch()
		if err != nil {
			return L(S("err"), S("refetch:"+err.Error()))
		}
		direct = append(direct, t.top(q, col))
		r, err := profile.Parse(bytes.NewReader(saved))
		if err != nil {
			return L(S("err"), S("reparse:"+err.Error()))
		}
		reopened = append(reopened, t.top(r, col))
	}
	return L(S("ok"), dump, L(direct...), L(reopened...))
}

// ---- generators --------------------------------------------------------------------------------

type c07Knobs struct {
	nsrc, nbase        int
	diffBase, norm     bool
	units              int  // 0 same spelling, 1 convertible, 2 may be incompatible
	perm, partial      bool // permuted / partially overlapping sample type lists
	dupTypes           bool
	zeros              int // 1 in zeros values is 0 (0 = never)
	negative           bool
	big                int // 0 small, 1 up to 1e6, 2 extreme int64
	labels             bool
	selfDiff           bool // bases are copies of the sources
	multiple           int  // >0: sources are base * multiple (normalisation exact)
	periodMismatch     bool
	maxSamples, maxCol int
	minSamples         int // e2e streams: every profile has at least this many samples
}

var c07Funcs = []string{"main", "a", "b", "c", "d", "runtime.mallocgc"}

type c07Family struct {
	typ   string
	units []string
}

var c07Fams = []c07Family{
	{"samples", []string{"count"}},
	{"cpu", []string{"nanoseconds", "ns", "us", "microseconds", "ms", "milliseconds", "s", "seconds", "sec", "Milliseconds"}},
	{"alloc_space", []string{"bytes", "B", "kb", "kilobytes", "MB", "megabyte", "GB"}},
	{"wall", []string{"ms", "s", "us"}},
	{"objects", []string{"count", "objects"}},
	{"custom", []string{"widgets"}},
}

func c07Table_(r *Rng) c07Table {
	nf := 2 + r.Intn(4)
	t := c07Table{funcs: append([]string(nil), c07Funcs[:nf]...)}
	nl := 2 + r.Intn(4)
	sparse := r.P(1, 4)
	for i := 0; i < nl; i++ {
		id := uint64(i + 1)
		if sparse {
			id = uint64(i+1)*1000 + 7
		}
		l := c07Loc{id: id, addr: uint64(0x1000 + 16*i)}
		l.lines = append(l.lines, r.Intn(nf))
		if r.P(1, 4) {
			l.lines = append(l.lines, r.Intn(nf))
		}
		t.locs = append(t.locs, l)
	}
	return t
}

func (k c07Knobs) value(r *Rng) int64 {
	if k.zeros > 0 && r.P(1, k.zeros) {
		return 0
	}
	var v int64
	switch {
	case k.big == 2 && r.P(1, 3):
		v = PickI(r, []int64{1<<63 - 1, -(1 << 63), 1 << 62, 1<<53 + 1, -(1 << 62), 1<<63 - 2, 1 << 31})
		return v
	case k.big >= 1 && r.P(1, 3):
		v = int64(r.Intn(1000000))
	default:
		v = int64(1 + r.Intn(60))
	}
	if k.negative && r.P(1, 5) {
		v = -v
	}
	return v
}

func c07Stack(r *Rng, t *c07Table) []int {
	d := 1 + r.Intn(3)
	if r.P(1, 12) {
		d = 0
	}
	var s []int
	for j := 0; j < d; j++ {
		s = append(s, r.Intn(len(t.locs)))
	}
	return s
}

func c07Gen(r *Rng, k c07Knobs) *c07Tuple {
	t := &c07Tuple{tab: c07Table_(r), diffBase: k.diffBase, normalize: k.norm}
	ncol := 1 + r.Intn(k.maxCol)
	// the column universe: distinct families
	perm := c07Perm(r, len(c07Fams))
	var uni []c07Family
	for i := 0; i < ncol; i++ {
		uni = append(uni, c07Fams[perm[i]])
	}
	// a pool of stacks + label sets so that keys collide across profiles
	nst := 1 + r.Intn(4)
	var stacks [][]int
	for i := 0; i < nst; i++ {
		stacks = append(stacks, c07Stack(r, &t.tab))
	}
	labelSets := []map[string][]string{nil, nil, {"k": {"v"}}, {"k": {"w"}, "a": {"x", "y"}}, {"pprof::base": {"true"}}, {"z": {"1"}}}
	baseUnits := make([]string, ncol)
	for i := range baseUnits {
		baseUnits[i] = PickS(r, uni[i].units)
	}
	mk := func() c07Prof {
		var p c07Prof
		order := make([]int, ncol)
		for i := range order {
			order[i] = i
		}
		if k.perm && r.Bool() {
			order = c07Perm(r, ncol)
		}
		if k.partial && ncol > 1 && r.P(1, 3) {
			order = order[:len(order)-1]
		}
		for _, c := range order {
			u := baseUnits[c]
			switch k.units {
			case 1:
				if r.P(2, 3) {
					u = PickS(r, uni[c].units)
				}
				if uni[c].typ == "cpu" && r.P(1, 25) {
					u = "hrs"
				}
			case 2:
				if r.P(1, 2) {
					u = PickS(r, uni[c].units)
				} else if r.P(1, 4) {
					u = PickS(r, []string{"bytes", "ms", "count", "zorks", ""})
				}
			}
			p.types = append(p.types, [2]string{uni[c].typ, u})
		}
		if k.partial && r.P(1, 4) {
			p.types = append(p.types, [2]string{PickS(r, []string{"extra", "other"}), "count"})
		}
		if k.dupTypes && r.P(1, 3) {
			p.types = append(p.types, p.types[r.Intn(len(p.types))])
		}
		switch r.Intn(4) {
		case 0:
			p.dflt = p.types[r.Intn(len(p.types))][0]
		case 1:
			p.dflt = PickS(r, []string{"cpu", "samples", "bogus"})
		}
		p.periodType = [2]string{"cpu", "ms"}
		if k.periodMismatch {
			p.periodType = [2]string{PickS(r, []string{"cpu", "cpus", "cpu", "space"}), PickS(r, []string{"ms", "ms", "us", "s", "bytes", "zorks"})}
		} else if k.units >= 1 && r.P(1, 3) {
			p.periodType[1] = PickS(r, []string{"ms", "us", "s", "milliseconds"})
		}
		p.period = int64(r.Intn(50))
		p.duration = int64(r.Intn(1000))
		p.timeNanos = int64(r.Intn(1000))
		ns := k.minSamples + r.Intn(k.maxSamples+1-k.minSamples)
		for i := 0; i < ns; i++ {
			s := c07Sample{locs: stacks[r.Intn(nst)]}
			for range p.types {
				s.vals = append(s.vals, k.value(r))
			}
			if k.labels && r.P(1, 3) {
				s.labels = labelSets[r.Intn(len(labelSets))]
			}
			if k.labels && r.P(1, 8) {
				s.numlab = map[string][]int64{"bytes": {int64(r.Intn(3))}}
			}
			p.samples = append(p.samples, s)
		}
		return p
	}
	for i := 0; i < k.nsrc; i++ {
		t.srcs = append(t.srcs, mk())
	}
	for i := 0; i < k.nbase; i++ {
		t.bases = append(t.bases, mk())
	}
	if k.selfDiff {
		t.bases = append([]c07Prof(nil), t.srcs...)
	}
	if k.multiple != 0 && len(t.bases) > 0 {
		// sources = one profile whose every value is multiple * the base's
		b := t.bases[0]
		t.bases = t.bases[:1]
		s := b
		s.samples = nil
		for _, bs := range b.samples {
			ns := bs
			ns.vals = nil
			for _, v := range bs.vals {
				ns.vals = append(ns.vals, v*int64(k.multiple))
			}
			s.samples = append(s.samples, ns)
		}
		t.srcs = []c07Prof{s}
	}
	return t
}

func c07Perm(r *Rng, n int) []int {
	p := make([]int, n)
	for i := range p {
		p[i] = i
	}
	for i := n - 1; i > 0; i-- {
		j := r.Intn(i + 1)
		p[i], p[j] = p[j], p[i]
	}
	return p
}

// the witness of known finding F4: [samples/count, cpu/ms] merged with a .../ns profile drops (5, 0)
func c07F4() *c07Tuple {
	tab := c07Table{funcs: []string{"main", "a"}, locs: []c07Loc{{id: 1, addr: 0x1000, lines: []int{0}}, {id: 2, addr: 0x1010, lines: []int{1}}}}
	mk := func(unit string, locs []int, vals []int64) c07Prof {
		return c07Prof{types: [][2]string{{"samples", "count"}, {"cpu", unit}}, periodType: [2]string{"cpu", "ms"}, period: 1,
			samples: []c07Sample{{locs: locs, vals: vals}}}
	}
	return &c07Tuple{tab: tab, srcs: []c07Prof{mk("ms", []int{1, 0}, []int64{5, 0}), mk("ns", []int{0}, []int64{1, 1000})}}
}

func (t *c07Tuple) nontrivial() bool {
	n := 0
	for _, p := range append(append([]c07Prof(nil), t.srcs...), t.bases...) {
		for _, s := range p.samples {
			for _, v := range s.vals {
				if v != 0 {
					n++
				}
			}
		}
	}
	return n >= 2 && len(t.srcs)+len(t.bases) >= 2
}

func runC07(c *Ctx) {
	emit := func(gen string, t *c07Tuple, tags ...string) {
		mode := "plain"
		if len(t.bases) > 0 {
			mode = "base"
			if t.diffBase {
				mode = "diff_base"
			}
		}
		tags = append(tags, "mode:"+mode)
		if t.normalize {
			tags = append(tags, "normalize")
		}
		obs := t.observe()
		if l, ok := obs.(tL); ok && len(l.l) > 0 {
			if s, ok := l.l[0].(tS); ok {
				tags = append(tags, "outcome:"+s.s)
			}
		}
		c.Case(gen, t.input(), obs, t.nontrivial(), tags...)
	}
	emit("finding-F4", c07F4())
	for _, sh := range c07UnitsLayoutShapes() { // also under VERIF_ONLY=units (C15's harmonising clause)
		emit("units-layout-"+sh.name, sh.t)
	}

	base := c07Knobs{nsrc: 2, maxSamples: 4, maxCol: 3, zeros: 4, negative: true, labels: true}
	modes := []struct {
		nbase          int
		diffBase, norm bool
	}{{0, false, false}, {1, false, false}, {1, true, false}, {1, false, true}, {1, true, true}, {2, false, false}, {2, true, false}}
	streams := []struct {
		name string
		q, t int
		mod  func(k *c07Knobs, r *Rng)
	}{
		{"same-units", 150, 2500, func(k *c07Knobs, r *Rng) { k.nsrc = 1 + r.Intn(4) }},
		{"convertible-units", 220, 4000, func(k *c07Knobs, r *Rng) { k.nsrc = 1 + r.Intn(3); k.units = 1; k.zeros = 3 }},
		{"permuted-partial", 180, 3000, func(k *c07Knobs, r *Rng) {
			k.nsrc = 2 + r.Intn(3)
			k.units = r.Intn(2)
			k.perm = true
			k.partial = true
		}},
		{"f4-shape", 80, 1200, func(k *c07Knobs, r *Rng) { k.units = 1; k.zeros = 2; k.maxCol = 2 }},
		{"self-diff", 80, 1200, func(k *c07Knobs, r *Rng) { k.nsrc = 1 + r.Intn(2); k.selfDiff = true; k.units = r.Intn(2) }},
		{"normalize-multiple", 70, 1000, func(k *c07Knobs, r *Rng) { k.multiple = 1 + r.Intn(4); k.norm = true; k.zeros = 6 }},
		{"errors", 80, 1000, func(k *c07Knobs, r *Rng) {
			k.units = 2
			k.partial = r.Bool()
			k.dupTypes = r.P(1, 3)
			k.periodMismatch = r.P(1, 2)
			k.nsrc = 1 + r.Intn(3)
		}},
		{"extreme-values", 60, 1000, func(k *c07Knobs, r *Rng) { k.big = 1 + r.Intn(2); k.nsrc = 2 + r.Intn(2) }},
	}
	if os.Getenv("VERIF_ONLY") != "units" {
		for _, sh := range c07BuildsShapes() {
			emit("builds-"+sh.name, sh.t)
		}
		for _, sh := range c07FilesShapes() {
			emit("files-"+sh.name, sh.t)
		}
		runC07E2E(c, func(gen string, in, obs Term, nt bool, tags ...string) { c.Case(gen, in, obs, nt, tags...) })
	}
	// the big tuples (round 6) are spread over the run, two after every stream, so that they are
	// evaluated in different shards
	many := c07ManyShapes()
	if os.Getenv("VERIF_ONLY") == "units" {
		many = nil
	}
	manyNext := 0
	for _, st := range streams {
		for k := 0; k < 2 && manyNext < len(many); k++ {
			emit("many-"+many[manyNext].name, many[manyNext].t)
			manyNext++
		}
		// VERIF_ONLY=units: C15 reuses the unit-harmonising streams for its "harmonising the units of
		// several profiles preserves each profile's physical totals" clause
		if os.Getenv("VERIF_ONLY") == "units" && st.name != "convertible-units" && st.name != "f4-shape" {
			continue
		}
		n := c.Budget(st.q, st.t)
		for i := 0; i < n; i++ {
			k := base
			m := modes[c.R.Intn(len(modes))]
			k.nbase, k.diffBase, k.norm = m.nbase, m.diffBase, m.norm
			st.mod(&k, c.R)
			if k.norm && k.units == 1 && c.R.P(3, 4) {
				k.units = 0 // Normalize demands identical types and units of source and base
			}
			if (k.selfDiff || k.multiple != 0) && k.nbase == 0 {
				k.nbase = 1
				k.diffBase = c.R.Bool()
			}
			emit(st.name, c07Gen(c.R, k))
		}
	}
	for ; manyNext < len(many); manyNext++ {
		emit("many-"+many[manyNext].name, many[manyNext].t)
	}
}
