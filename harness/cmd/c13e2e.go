//go:build verif

package main

import (
	"bytes"
	"debug/elf"
	"encoding/binary"
	"encoding/hex"
	"encoding/json"
	"fmt"
	"io"
	"net/http/httptest"
	"os"
	"path/filepath"
	"regexp"
	"sort"
	"strconv"
	"strings"

	pubdriver "github.com/google/pprof/driver"
	"github.com/google/pprof/profile"
)

// C13 END-TO-END LAYER (op e2e): the property observed where users observe it.
// A WORLD is generated: ELF files with real symbol tables written to disk (c13WriteELFSyms: the
// same segment layouts the loader streams use, functions laid out in the executable segment, an
// optional GNU build-id note), processes = (file, load bias), and pprof profiles of these processes
// whose sample addresses are runtime addresses inside known functions. The world is then pushed
// through the REAL entry points with the REAL object tool (binutils + nm / llvm-symbolizer /
// addr2line on PATH): driver.PProf with a FlagSet (fetch from profile files on disk, locateBinaries
// with PPROF_BINARY_PATH, profile.Merge, local symbolization, report), an interactive session,
// the web handlers. What is printed (-proto re-read, -top rows, -traces stacks, `top >file` of a
// session, the JSON of the /top page) is parsed back into "stack of function names -> value" and
// compared with (a) the model of the glue (coq/M_ElfGlue.v: locate, merge, symbolize) and (b) the
// specification: every frame is the symbol of the binary REALLY loaded that contains
// address - bias.

type c13ESym struct {
	addr, size uint64
	name       string
	data       bool
}

type c13EFile struct {
	path    string
	lay     c13Layout // as read back by debug/elf
	syms    []c13ESym // sorted by address
	buildID string    // hex, "" = no note
}

// c13WriteELFSyms writes an ELF64 file with PT_LOAD segments, one section per segment (.text for the
// first executable one), a .symtab/.strtab and optionally a PT_NOTE / .note.gnu.build-id.
func c13WriteELFSyms(path string, etype elf.Type, progs []elf.ProgHeader, syms []c13ESym, buildID []byte) error {
	var ident [16]uint8
	copy(ident[:], elf.ELFMAG)
	ident[elf.EI_CLASS] = uint8(elf.ELFCLASS64)
	ident[elf.EI_DATA] = uint8(elf.ELFDATA2LSB)
	ident[elf.EI_VERSION] = uint8(elf.EV_CURRENT)
	nph := len(progs)
	if buildID != nil {
		nph++
	}
	end := uint64(64 + 56*nph)
	for _, s := range progs {
		if s.Type == elf.PT_LOAD && s.Filesz > 0 && s.Off+s.Filesz > end {
			end = s.Off + s.Filesz
		}
	}
	end = (end + 15) &^ 15
	file := make([]byte, end)
	put := func(b []byte) uint64 {
		o := uint64(len(file))
		file = append(file, b...)
		for len(file)%8 != 0 {
			file = append(file, 0)
		}
		return o
	}
	var noteOff, noteSize uint64
	if buildID != nil {
		var nb bytes.Buffer
		binary.Write(&nb, binary.LittleEndian, []uint32{4, uint32(len(buildID)), 3})
		nb.WriteString("GNU\x00")
		nb.Write(buildID)
		noteSize = uint64(nb.Len())
		noteOff = put(nb.Bytes())
	}
	var shstr bytes.Buffer
	shstr.WriteByte(0)
	name := func(s string) uint32 {
		o := uint32(shstr.Len())
		shstr.WriteString(s)
		shstr.WriteByte(0)
		return o
	}
	secs := []elf.Section64{{}}
	segSec := make([]int, len(progs))
	textDone := false
	for i, s := range progs {
		if s.Type != elf.PT_LOAD || s.Filesz == 0 {
			continue
		}
		n := fmt.Sprintf(".data%d", i)
		fl := uint64(elf.SHF_ALLOC)
		switch {
		case s.Flags&elf.PF_X != 0:
			fl |= uint64(elf.SHF_EXECINSTR)
			if !textDone {
				n, textDone = ".text", true
			} else {
				n = fmt.Sprintf(".text%d", i)
			}
		case s.Flags&elf.PF_W != 0:
			fl |= uint64(elf.SHF_WRITE)
		default:
			n = fmt.Sprintf(".rodata%d", i)
		}
		segSec[i] = len(secs)
		secs = append(secs, elf.Section64{Name: name(n), Type: uint32(elf.SHT_PROGBITS), Flags: fl, Addr: s.Vaddr, Off: s.Off, Size: s.Filesz, Addralign: 1})
	}
	if buildID != nil {
		secs = append(secs, elf.Section64{Name: name(".note.gnu.build-id"), Type: uint32(elf.SHT_NOTE), Flags: uint64(elf.SHF_ALLOC), Off: noteOff, Size: noteSize, Addralign: 4})
	}
	var strtab, st bytes.Buffer
	strtab.WriteByte(0)
	binary.Write(&st, binary.LittleEndian, elf.Sym64{})
	for _, y := range syms {
		shndx := 0
		for i, s := range progs {
			if s.Type == elf.PT_LOAD && s.Filesz > 0 && y.addr >= s.Vaddr && y.addr < s.Vaddr+s.Memsz {
				shndx = segSec[i]
			}
		}
		info := uint8(elf.STB_GLOBAL)<<4 | uint8(elf.STT_FUNC)
		if y.data {
			info = uint8(elf.STB_GLOBAL)<<4 | uint8(elf.STT_OBJECT)
		}
		binary.Write(&st, binary.LittleEndian, elf.Sym64{Name: uint32(strtab.Len()), Info: info, Shndx: uint16(shndx), Value: y.addr, Size: y.size})
		strtab.WriteString(y.name)
		strtab.WriteByte(0)
	}
	symOff := put(st.Bytes())
	strOff := put(strtab.Bytes())
	strIdx := len(secs) + 1
	secs = append(secs, elf.Section64{Name: name(".symtab"), Type: uint32(elf.SHT_SYMTAB), Off: symOff, Size: uint64(st.Len()), Link: uint32(strIdx), Info: 1, Addralign: 8, Entsize: 24})
	secs = append(secs, elf.Section64{Name: name(".strtab"), Type: uint32(elf.SHT_STRTAB), Off: strOff, Size: uint64(strtab.Len()), Addralign: 1})
	shn := name(".shstrtab")
	shOff := put(shstr.Bytes())
	secs = append(secs, elf.Section64{Name: shn, Type: uint32(elf.SHT_STRTAB), Off: shOff, Size: uint64(shstr.Len()), Addralign: 1})
	var sb bytes.Buffer
	binary.Write(&sb, binary.LittleEndian, secs)
	shoff := put(sb.Bytes())
	hdr := elf.Header64{Ident: ident, Type: uint16(etype), Machine: uint16(elf.EM_X86_64), Version: 1, Phoff: 64, Shoff: shoff, Ehsize: 64,
		Phentsize: 56, Phnum: uint16(nph), Shentsize: 64, Shnum: uint16(len(secs)), Shstrndx: uint16(len(secs) - 1)}
	var hb bytes.Buffer
	binary.Write(&hb, binary.LittleEndian, hdr)
	for _, s := range progs {
		binary.Write(&hb, binary.LittleEndian, elf.Prog64{Type: uint32(s.Type), Flags: uint32(s.Flags), Off: s.Off, Vaddr: s.Vaddr, Paddr: s.Vaddr,
			Filesz: s.Filesz, Memsz: s.Memsz, Align: s.Align})
	}
	if buildID != nil {
		binary.Write(&hb, binary.LittleEndian, elf.Prog64{Type: uint32(elf.PT_NOTE), Flags: 4, Off: noteOff, Filesz: noteSize, Memsz: noteSize, Align: 4})
	}
	copy(file, hb.Bytes())
	if err := os.MkdirAll(filepath.Dir(path), 0o755); err != nil {
		return err
	}
	return os.WriteFile(path, file, 0o755)
}

// ---------------------------------------------------------------- the world

type c13EMapping struct {
	start, limit, offset uint64
	file                 string // File recorded in the profile
	buildID              string // BuildID recorded in the profile
	rec                  int    // index of the world file found at `file` (-1: not on disk)
	cands                []int  // world files found under the names locateBinaries tries, in trial order
	truth                int    // the file REALLY loaded
	bias                 uint64
	fkind                int // legacy map entries: 0 named file, 1 named library (.so), 2 no name, 3 /anon_hugepage
}
type c13EFrame struct {
	m    int // mapping index inside the profile
	addr uint64
}
type c13ESample struct {
	stack []c13EFrame // leaf first
	value int64
}
type c13EProfile struct {
	legacy   bool  // written as a legacy text profile with a memory map (ParseMemoryMap / massageMappings path)
	scale    int64 // +1 source, -1 base (-diff_base)
	mappings []c13EMapping
	samples  []c13ESample
}
type c13EWorld struct {
	dir      string
	files    []c13EFile
	profiles []c13EProfile
	binpath  []string // PPROF_BINARY_PATH directories
}

// c13EMakeFile lays `names` out as consecutive functions in the first executable segment of the
// layout (one data symbol in a writable segment if there is one) and writes the file.
func c13EMakeFile(path string, lay c13Layout, names []string, sizes []uint64, buildID string) (c13EFile, bool) {
	var text, data *elf.ProgHeader
	for i := range lay.progs {
		p := &lay.progs[i]
		if p.Type != elf.PT_LOAD || p.Filesz == 0 {
			continue
		}
		if p.Flags&elf.PF_X != 0 && text == nil {
			text = p
		}
		if p.Flags&elf.PF_X == 0 && p.Flags&elf.PF_W != 0 && data == nil {
			data = p
		}
	}
	if text == nil {
		return c13EFile{}, false
	}
	a := text.Vaddr
	if text.Off == 0 { // leave room for the ELF and program headers at the start of the file
		a += 0x200
	}
	a = (a + 15) &^ 15
	var syms []c13ESym
	for i, n := range names {
		sz := sizes[i%len(sizes)]
		if a+sz > text.Vaddr+text.Filesz {
			break
		}
		syms = append(syms, c13ESym{a, sz, n, false})
		a += sz
	}
	if len(syms) < 2 {
		return c13EFile{}, false
	}
	// the functions must be identifiable: no other PT_LOAD header's file range [Off, Off+Memsz)
	// may contain their file offsets (otherwise an error is the allowed answer for the mapping)
	flo, fhi := text.Off+(syms[0].addr-text.Vaddr), text.Off+(a-text.Vaddr)
	for i := range lay.progs {
		q := &lay.progs[i]
		if q != text && q.Type == elf.PT_LOAD && q.Off < fhi && flo < q.Off+q.Memsz {
			return c13EFile{}, false
		}
	}
	if data != nil && data.Filesz >= 16 {
		syms = append(syms, c13ESym{data.Vaddr + 8, 8, "datum_" + names[0], true})
	}
	sort.Slice(syms, func(i, j int) bool { return syms[i].addr < syms[j].addr })
	var id []byte
	if buildID != "" {
		id, _ = hex.DecodeString(buildID)
	}
	var loads []elf.ProgHeader
	for _, p := range lay.progs { // only what the writer emits: PT_LOAD
		if p.Type == elf.PT_LOAD {
			loads = append(loads, p)
		}
	}
	if err := c13WriteELFSyms(path, lay.etype, loads, syms, id); err != nil {
		return c13EFile{}, false
	}
	back, err := c13ReadBack(path)
	if err != nil {
		return c13EFile{}, false
	}
	return c13EFile{path, back, syms, buildID}, true
}

func (f c13EFile) funcs() []c13ESym {
	var r []c13ESym
	for _, s := range f.syms {
		if !s.data {
			r = append(r, s)
		}
	}
	return r
}

// the runtime mapping of the segment containing link address a, for the process (file, bias)
func (f c13EFile) mappingOf(a, bias uint64) (start, limit, offset uint64, seg elf.ProgHeader) {
	for _, p := range f.lay.progs {
		if p.Type == elf.PT_LOAD && p.Filesz > 0 && a >= p.Vaddr && a < p.Vaddr+p.Memsz {
			return bias + c13Down(p.Vaddr), bias + c13Up(p.Vaddr+p.Filesz), c13Down(p.Off), p
		}
	}
	return 0, 0, 0, elf.ProgHeader{}
}

func (w *c13EWorld) term(mode, format string, extra []string) Term {
	var fts []Term
	for _, f := range w.files {
		var ss []Term
		for _, s := range f.syms {
			t := "T"
			if s.data {
				t = "D"
			}
			ss = append(ss, L(ZU(s.addr), ZU(s.size), S(s.name), S(t)))
		}
		fts = append(fts, L(S(filepath.Base(f.path)), f.lay.term(), L(ss...), S(f.buildID)))
	}
	var pts []Term
	for _, p := range w.profiles {
		var ms, ss []Term
		for _, m := range p.mappings {
			var cs []Term
			for _, c := range m.cands {
				cs = append(cs, ZI(c))
			}
			ms = append(ms, L(ZU(m.start), ZU(m.limit), ZU(m.offset), S(m.buildID), ZI(m.rec), L(cs...), ZI(m.truth), ZU(m.bias), ZI(m.fkind)))
		}
		for _, s := range p.samples {
			var fs []Term
			for _, fr := range s.stack {
				fs = append(fs, L(ZI(fr.m), ZU(fr.addr)))
			}
			ss = append(ss, L(L(fs...), Z(s.value)))
		}
		pts = append(pts, L(Z(p.scale), L(ms...), L(ss...), Bool(p.legacy)))
	}
	return L(S("e2e"), L(fts...), L(pts...), S(mode), S(format), Ss(extra))
}

// profile files on disk, one per process
func (w *c13EWorld) writeProfiles() ([]string, error) {
	var paths []string
	for pi, ep := range w.profiles {
		if ep.legacy {
			path, err := w.writeLegacy(pi, ep)
			if err != nil {
				return nil, err
			}
			paths = append(paths, path)
			continue
		}
		p := &profile.Profile{SampleType: []*profile.ValueType{{Type: "samples", Unit: "count"}}, PeriodType: &profile.ValueType{Type: "cpu", Unit: "nanoseconds"}, Period: 1}
		for i, m := range ep.mappings {
			p.Mapping = append(p.Mapping, &profile.Mapping{ID: uint64(i + 1), Start: m.start, Limit: m.limit, Offset: m.offset, File: m.file, BuildID: m.buildID})
		}
		locs := map[c13EFrame]*profile.Location{}
		for _, s := range ep.samples {
			ps := &profile.Sample{Value: []int64{s.value}}
			for _, fr := range s.stack {
				l := locs[fr]
				if l == nil {
					l = &profile.Location{ID: uint64(len(p.Location) + 1), Mapping: p.Mapping[fr.m], Address: fr.addr}
					locs[fr] = l
					p.Location = append(p.Location, l)
				}
				ps.Location = append(ps.Location, l)
			}
			p.Sample = append(p.Sample, ps)
		}
		path := filepath.Join(w.dir, fmt.Sprintf("prof%d.pb.gz", pi))
		f, err := os.Create(path)
		if err != nil {
			return nil, err
		}
		err = p.Write(f)
		f.Close()
		if err != nil {
			return nil, err
		}
		paths = append(paths, path)
	}
	return paths, nil
}

// ---------------------------------------------------------------- driving pprof

type c13EUI struct {
	lines []string
	idx   int
	errs  []string
}

func (u *c13EUI) ReadLine(string) (string, error) {
	if u.idx >= len(u.lines) {
		return "", io.EOF
	}
	s := u.lines[u.idx]
	u.idx++
	return s, nil
}
func (u *c13EUI) Print(...interface{})                {}
func (u *c13EUI) PrintErr(args ...interface{})        { u.errs = append(u.errs, fmt.Sprint(args...)) }
func (u *c13EUI) IsTerminal() bool                    { return false }
func (u *c13EUI) WantBrowser() bool                   { return false }
func (u *c13EUI) SetAutoComplete(func(string) string) {}

type c13EWC struct {
	name string
	bytes.Buffer
}

func (*c13EWC) Close() error { return nil }

type c13EWriter struct{ outs []*c13EWC }

func (w *c13EWriter) Open(name string) (io.WriteCloser, error) {
	b := &c13EWC{name: name}
	w.outs = append(w.outs, b)
	return b, nil
}

type c13EAgg map[string]int64

func (a c13EAgg) term() Term {
	var ks []string
	for k := range a {
		ks = append(ks, k)
	}
	sort.Strings(ks)
	var l []Term
	for _, k := range ks {
		if a[k] != 0 {
			l = append(l, L(S(k), Z(a[k])))
		}
	}
	return L(l...)
}

// names pprof prints for frames it could not symbolize (addresses, [file]) become "?"
func (w *c13EWorld) norm(name string) string {
	for _, f := range w.files {
		for _, s := range f.syms {
			if s.name == name {
				return name
			}
		}
	}
	return "?"
}

var c13ETopRow = regexp.MustCompile(`^\s*(-?\d+)\s+\S+%\s+\S+%\s+(-?\d+)\s+\S+%\s+(.*)$`)
var c13ETraceHead = regexp.MustCompile(`^\s*(-?\d+)\s+(\S.*)$`)

func (w *c13EWorld) parseTop(text string) c13EAgg {
	a := c13EAgg{}
	for _, line := range strings.Split(text, "\n") {
		if m := c13ETopRow.FindStringSubmatch(line); m != nil {
			v, _ := strconv.ParseInt(m[1], 10, 64)
			a[w.norm(strings.TrimSpace(m[3]))] += v
		}
	}
	return a
}

func (w *c13EWorld) parseTraces(text string) c13EAgg {
	a := c13EAgg{}
	var stack []string
	var val int64
	in := false
	flush := func() {
		if in && len(stack) > 0 {
			a[strings.Join(stack, ";")] += val
		}
		stack, in = nil, false
	}
	for _, line := range strings.Split(text, "\n") {
		switch {
		case strings.HasPrefix(line, "-----------+"):
			flush()
			in = true
		case !in:
		case strings.Contains(line, ": "): // a label line
		default:
			if len(stack) == 0 {
				if m := c13ETraceHead.FindStringSubmatch(line); m != nil {
					val, _ = strconv.ParseInt(m[1], 10, 64)
					stack = append(stack, w.norm(strings.TrimSpace(m[2])))
				}
			} else if s := strings.TrimSpace(line); s != "" {
				stack = append(stack, w.norm(s))
			}
		}
	}
	flush()
	return a
}

func (w *c13EWorld) parseProto(b []byte) (c13EAgg, error) {
	p, err := profile.ParseData(b)
	if err != nil {
		return nil, err
	}
	a := c13EAgg{}
	for _, s := range p.Sample {
		var st []string
		for _, l := range s.Location {
			if len(l.Line) == 0 {
				st = append(st, "?")
				continue
			}
			for _, ln := range l.Line {
				n := "?"
				if ln.Function != nil {
					n = w.norm(ln.Function.Name)
				}
				st = append(st, n)
			}
		}
		if len(s.Value) > 0 {
			a[strings.Join(st, ";")] += s.Value[0]
		}
	}
	return a, nil
}

func (w *c13EWorld) parseWebTop(html string) c13EAgg {
	a := c13EAgg{}
	i := strings.LastIndex(html, "makeTopTable(")
	if i < 0 {
		a["no-top-table"] = 1
		return a
	}
	rest := html[i+len("makeTopTable("):]
	j := strings.Index(rest, "[")
	k := strings.Index(rest, "]);")
	if j < 0 || k < j {
		if strings.Contains(rest[:min(len(rest), 40)], "null") {
			return a // no rows
		}
		a["no-top-rows"] = 1
		return a
	}
	k++
	var rows []struct {
		Name string
		Flat int64
	}
	if err := json.Unmarshal([]byte(rest[j:k]), &rows); err != nil {
		a["json-error: "+err.Error()] = 1
		return a
	}
	for _, r := range rows {
		a[w.norm(r.Name)] += r.Flat
	}
	return a
}

// leafOnly: what a flat listing can show of the per-stack truth
const c13ECommon = "-nodefraction=0 -edgefraction=0 -nodecount=100000"

// c13ERun pushes the world through one entry point and returns the parsed observable.
func (w *c13EWorld) run(mode, format string, extra []string) (obs Term) {
	defer func() {
		if r := recover(); r != nil {
			obs = L(S("panic"), S(fmt.Sprint(r)))
		}
	}()
	paths, err := w.writeProfiles()
	if err != nil {
		return L(S("harness-err"), S(err.Error()))
	}
	defer func() {
		for _, p := range paths {
			os.Remove(p)
		}
	}()
	oldBP, hadBP := os.LookupEnv("PPROF_BINARY_PATH")
	os.Setenv("PPROF_BINARY_PATH", strings.Join(w.binpath, string(os.PathListSeparator)))
	defer func() {
		if hadBP {
			os.Setenv("PPROF_BINARY_PATH", oldBP)
		} else {
			os.Unsetenv("PPROF_BINARY_PATH")
		}
	}()
	args := append(append([]string{"-symbolize=" + mode}, strings.Fields(c13ECommon)...), extra...)
	var srcs []string
	for i, p := range w.profiles {
		if p.scale < 0 {
			args = append(args, "-diff_base="+paths[i])
		} else {
			srcs = append(srcs, paths[i])
		}
	}
	ui := &c13EUI{}
	wr := &c13EWriter{}
	o := &pubdriver.Options{UI: ui, Writer: wr}
	last := func() string {
		if len(wr.outs) == 0 {
			return ""
		}
		return wr.outs[len(wr.outs)-1].String()
	}
	switch format {
	case "proto", "top", "traces":
		args = append(args, "-"+format, "-output=out."+format)
		o.Flagset = newC09Flags(append(args, srcs...))
		if err := pubdriver.PProf(o); err != nil {
			return L(S("err"), S(c13EErr(err)))
		}
		switch format {
		case "proto":
			if len(wr.outs) == 0 {
				return L(S("no-output"))
			}
			a, err := w.parseProto(wr.outs[len(wr.outs)-1].Bytes())
			if err != nil {
				return L(S("reparse-err"), S(err.Error()))
			}
			return L(S("ok"), a.term())
		case "top":
			return L(S("ok"), w.parseTop(last()).term())
		default:
			return L(S("ok"), w.parseTraces(last()).term())
		}
	case "interactive":
		// a session: the same report twice with something else in between; every output must agree
		ui.lines = []string{"top >t1", "traces >t2", "sort=cum", "top >t3", "granularity=functions", "traces >t4"}
		o.Flagset = newC09Flags(append(args, srcs...))
		if err := pubdriver.PProf(o); err != nil {
			return L(S("err"), S(c13EErr(err)))
		}
		if len(wr.outs) != 4 {
			return L(S("outputs"), ZI(len(wr.outs)))
		}
		return L(S("ok"), w.parseTop(wr.outs[0].String()).term(), w.parseTraces(wr.outs[1].String()).term(),
			w.parseTop(wr.outs[2].String()).term(), w.parseTraces(wr.outs[3].String()).term())
	case "web":
		var pages []string
		o.HTTPServer = func(a *pubdriver.HTTPServerArgs) error {
			for _, q := range []string{"", "?sort=cum", ""} {
				h := a.Handlers["/top"]
				if h == nil {
					pages = append(pages, "")
					continue
				}
				req := httptest.NewRequest("GET", "http://localhost/top"+q, nil)
				rec := httptest.NewRecorder()
				h.ServeHTTP(rec, req)
				pages = append(pages, rec.Body.String())
			}
			return nil
		}
		o.Flagset = newC09Flags(append(append([]string{"-http=localhost:0"}, args...), srcs...))
		if err := pubdriver.PProf(o); err != nil {
			return L(S("err"), S(c13EErr(err)))
		}
		var ts []Term
		for _, pg := range pages {
			ts = append(ts, w.parseWebTop(pg).term())
		}
		return L(append([]Term{S("ok")}, ts...)...)
	}
	return L(S("bad-format"))
}

func c13EErr(err error) string {
	s := err.Error()
	if len(s) > 120 {
		s = s[:120]
	}
	return s
}

// writeLegacy: a Go "count" text profile (threadcreate) followed by a /proc/self/maps style memory
// map: the REAL legacy parser, ParseMemoryMap, massageMappings and remapMappingIDs turn the map
// entries into mappings. Addresses are written +1 (the parser steps back onto the call instruction).
func (w *c13EWorld) writeLegacy(pi int, ep c13EProfile) (string, error) {
	var sb strings.Builder
	total := int64(0)
	for _, s := range ep.samples {
		total += s.value
	}
	fmt.Fprintf(&sb, "threadcreate profile: total %d\n", total)
	for _, s := range ep.samples {
		fmt.Fprintf(&sb, "%d @", s.value)
		for _, fr := range s.stack {
			fmt.Fprintf(&sb, " 0x%x", fr.addr+1)
		}
		sb.WriteString("\n")
	}
	sb.WriteString("\n--- Memory map: ---\n")
	for i, m := range ep.mappings {
		name := m.file
		switch m.fkind {
		case 2:
			name = ""
		case 3:
			name = "/anon_hugepage (deleted)"
		}
		fmt.Fprintf(&sb, "%08x-%08x r-xp %08x 08:01 %d %s\n", m.start, m.limit, m.offset, 1000+i, name)
		// a non-executable neighbour of the same file: skipped by the parser
		fmt.Fprintf(&sb, "%08x-%08x rw-p %08x 08:01 %d %s\n", m.limit+0x200000, m.limit+0x201000, m.offset+0x5000, 1000+i, name)
	}
	path := filepath.Join(w.dir, fmt.Sprintf("prof%d.legacy.txt", pi))
	return path, os.WriteFile(path, []byte(sb.String()), 0o644)
}
