//go:build verif

package main

// End-to-end layer of the C07 check: the same generated tuples are pushed through pprof's real
// entry points -- driver.PProf with a FlagSet built from the options (real parseFlags, sources
// read from FILES in the working directory, fetch, merge, report, print through -output / the
// plugin.Writer), an interactive session (option assignments and `cmd >file` lines on ONE
// session) and the web handlers (the handlers serveWebInterface registers, requested through
// httptest) -- and what they print is parsed back into the observable the model predicts:
// [ok; merged dump; per sample index (total, rows); the same after saving with proto and
// reopening].

import (
	"bytes"
	"encoding/json"
	"flag"
	"fmt"
	"io"
	"net/http/httptest"
	"os"
	"path/filepath"
	"regexp"
	"strconv"
	"strings"
	"sync"

	"github.com/google/pprof/internal/driver"
	"github.com/google/pprof/internal/plugin"
	"github.com/google/pprof/profile"
)

// ---- plug-ins ------------------------------------------------------------------------------------

// c07Flags is a plugin.FlagSet over the standard flag package whose StringList really is a list
// (pprof's own GoFlags keeps one value; plug-in flag sets such as this one allow several -base).
type c07Flags struct {
	fs    *flag.FlagSet
	args  []string
	extra []string
}
type c07StrList struct{ l *[]*string }

func (v c07StrList) String() string { return "" }
func (v c07StrList) Set(s string) error {
	*v.l = append(*v.l, &s)
	return nil
}
func c07NewFlags(args []string) *c07Flags {
	fs := flag.NewFlagSet("pprof", flag.ContinueOnError)
	fs.SetOutput(io.Discard)
	return &c07Flags{fs: fs, args: args}
}
func (f *c07Flags) Bool(o string, d bool, c string) *bool          { return f.fs.Bool(o, d, c) }
func (f *c07Flags) Int(o string, d int, c string) *int             { return f.fs.Int(o, d, c) }
func (f *c07Flags) Float64(o string, d float64, c string) *float64 { return f.fs.Float64(o, d, c) }
func (f *c07Flags) String(o, d, c string) *string                  { return f.fs.String(o, d, c) }
func (f *c07Flags) StringList(o, d, c string) *[]*string {
	l := &[]*string{}
	f.fs.Var(c07StrList{l}, o, c)
	return l
}
func (f *c07Flags) ExtraUsage() string     { return strings.Join(f.extra, "\n") }
func (f *c07Flags) AddExtraUsage(s string) { f.extra = append(f.extra, s) }
func (f *c07Flags) Parse(usage func()) []string {
	f.fs.Usage = func() {}
	if err := f.fs.Parse(f.args); err != nil {
		return nil
	}
	return f.fs.Args()
}

// c07UI feeds an interactive session from a script that may look at what the previous commands
// wrote (next is called for every prompt).
type c07UI struct {
	next func() (string, bool)
	errs []string
}

func (u *c07UI) ReadLine(string) (string, error) {
	if u.next == nil {
		return "", io.EOF
	}
	if l, ok := u.next(); ok {
		return l, nil
	}
	return "", io.EOF
}
func (u *c07UI) Print(...interface{})                {}
func (u *c07UI) PrintErr(args ...interface{})        { u.errs = append(u.errs, fmt.Sprint(args...)) }
func (u *c07UI) IsTerminal() bool                    { return false }
func (u *c07UI) WantBrowser() bool                   { return false }
func (u *c07UI) SetAutoComplete(func(string) string) {}

// c07Obj opens exactly the names in bins as executables.
type c07Obj struct{ bins map[string]bool }
type c07ObjFile struct{ name string }

func (o *c07Obj) Open(file string, _, _, _ uint64, _ string) (plugin.ObjFile, error) {
	if o.bins[file] {
		return c07ObjFile{file}, nil
	}
	return nil, fmt.Errorf("%s: not an object file", file)
}
func (o *c07Obj) Disasm(string, uint64, uint64, bool) ([]plugin.Inst, error) {
	return nil, fmt.Errorf("no disassembler here")
}
func (f c07ObjFile) Name() string                            { return f.name }
func (f c07ObjFile) ObjAddr(addr uint64) (uint64, error)     { return addr, nil }
func (f c07ObjFile) BuildID() string                         { return "" }
func (f c07ObjFile) SourceLine(uint64) ([]plugin.Frame, error) { return nil, fmt.Errorf("no lines") }
func (f c07ObjFile) Symbols(*regexp.Regexp, uint64) ([]*plugin.Sym, error) {
	return nil, fmt.Errorf("no symbols")
}
func (f c07ObjFile) Close() error { return nil }

type c07MemWriter struct {
	mu  sync.Mutex
	buf map[string]*bytes.Buffer
}
type c07MemFile struct {
	w    *c07MemWriter
	name string
}

func (w *c07MemWriter) Open(name string) (io.WriteCloser, error) {
	w.mu.Lock()
	defer w.mu.Unlock()
	if w.buf == nil {
		w.buf = map[string]*bytes.Buffer{}
	}
	w.buf[name] = &bytes.Buffer{}
	return &c07MemFile{w, name}, nil
}
func (f *c07MemFile) Write(b []byte) (int, error) {
	f.w.mu.Lock()
	defer f.w.mu.Unlock()
	return f.w.buf[f.name].Write(b)
}
func (f *c07MemFile) Close() error { return nil }
func (w *c07MemWriter) get(name string) ([]byte, bool) {
	w.mu.Lock()
	defer w.mu.Unlock()
	b, ok := w.buf[name]
	if !ok {
		return nil, false
	}
	return b.Bytes(), true
}

type c07WebReq struct{ path, rawq string }

// c07PProf is one pprof process: driver.PProf on the argument vector, with an interactive script
// (next) and/or web requests (issued against the handlers serveWebInterface hands to HTTPServer).
func c07PProf(args []string, bins map[string]bool, next func() (string, bool), web func(get func(path, rawq string) (int, string))) (*c07MemWriter, *c07UI, error) {
	driver.VerifC09Reset()
	w := &c07MemWriter{}
	ui := &c07UI{next: next}
	o := &plugin.Options{Flagset: c07NewFlags(args), UI: ui, Obj: &c07Obj{bins}, Sym: c09Sym{}, Writer: w, HTTPTransport: c09NoNet{}}
	o.HTTPServer = func(a *plugin.HTTPServerArgs) error {
		if web == nil {
			return nil
		}
		web(func(path, rawq string) (int, string) {
			h := a.Handlers[path]
			if h == nil {
				return 0, ""
			}
			req := httptest.NewRequest("GET", "http://localhost"+path, nil)
			req.URL.RawQuery = rawq
			rec := httptest.NewRecorder()
			h.ServeHTTP(rec, req)
			return rec.Code, rec.Body.String()
		})
		return nil
	}
	err := driver.PProf(o)
	driver.VerifC09Reset()
	return w, ui, err
}

// ---- parsing what pprof prints back into numbers ---------------------------------------------------

var c07NumRE = regexp.MustCompile(`^(-?[0-9]+)(\.[0-9]+)?([^0-9.].*)?$`)
var c07TotalRE = regexp.MustCompile(`(?m)^Showing nodes accounting for .* of (\S+) total`)

// c07Num reads a printed value ("65", "-12ms", "3B"); the reports are requested in the column's
// own unit, so a fractional part means a value was not printed as stored.
func c07Num(s string) (int64, error) {
	m := c07NumRE.FindStringSubmatch(s)
	if m == nil || m[2] != "" {
		return 0, fmt.Errorf("not a whole number in the requested unit: %q", s)
	}
	return strconv.ParseInt(m[1], 10, 64)
}

// c07ParseTop parses the text of `top`: legend, "Showing nodes accounting for X, P of T total",
// the column header, then rows  flat flat% sum% cum cum% name [(inline)].
func c07ParseTop(txt string) (int64, map[string][2]int64, error) {
	m := c07TotalRE.FindStringSubmatch(txt)
	if m == nil {
		return 0, nil, fmt.Errorf("no total line in %q", txt)
	}
	total, err := c07Num(m[1])
	if err != nil {
		return 0, nil, err
	}
	rows := map[string][2]int64{}
	lines := strings.Split(txt, "\n")
	in := false
	for _, l := range lines {
		f := strings.Fields(l)
		if !in {
			if len(f) >= 5 && f[0] == "flat" && f[1] == "flat%" {
				in = true
			}
			continue
		}
		if len(f) == 0 {
			continue
		}
		if len(f) < 6 {
			return 0, nil, fmt.Errorf("short row %q", l)
		}
		flat, err := c07Num(f[0])
		if err != nil {
			return 0, nil, err
		}
		cum, err := c07Num(f[3])
		if err != nil {
			return 0, nil, err
		}
		name := f[5:]
		if last := name[len(name)-1]; last == "(inline)" || last == "(partial-inline)" {
			name = name[:len(name)-1]
		}
		n := strings.Join(name, " ")
		if _, dup := rows[n]; dup {
			return 0, nil, fmt.Errorf("entry %q printed twice", n)
		}
		rows[n] = [2]int64{flat, cum}
	}
	if !in {
		return 0, nil, fmt.Errorf("no column header in %q", txt)
	}
	return total, rows, nil
}

var c07WebTopRE = regexp.MustCompile(`(?s)makeTopTable\(\s*(-?[0-9]+)\s*,\s*(\[.*?\]|null)\s*\);`)

// c07ParseWebTop reads the data embedded in the /top page: makeTopTable(<total>, <rows as JSON>).
func c07ParseWebTop(html string) (int64, map[string][2]int64, error) {
	m := c07WebTopRE.FindStringSubmatch(html)
	if m == nil {
		return 0, nil, fmt.Errorf("no makeTopTable(...) in the page")
	}
	total, err := strconv.ParseInt(m[1], 10, 64)
	if err != nil {
		return 0, nil, err
	}
	var items []struct {
		Name      string
		Flat, Cum int64
	}
	if err := json.Unmarshal([]byte(m[2]), &items); err != nil {
		return 0, nil, fmt.Errorf("rows: %v", err)
	}
	rows := map[string][2]int64{}
	for _, it := range items {
		if _, dup := rows[it.Name]; dup {
			return 0, nil, fmt.Errorf("entry %q listed twice", it.Name)
		}
		rows[it.Name] = [2]int64{it.Flat, it.Cum}
	}
	return total, rows, nil
}

func (t *c07Tuple) rowsTerm(total int64, rows map[string][2]int64, err error) Term {
	if err != nil {
		return L(S("err"), S(err.Error()))
	}
	var out []Term
	n := 0
	for _, f := range t.funcOrder() {
		if v, ok := rows[f]; ok {
			n++
			out = append(out, L(S(f), Z(v[0]), Z(v[1])))
		}
	}
	if n != len(rows) {
		return L(S("err"), S(fmt.Sprintf("unexpected report entries %v", rows)))
	}
	return L(Z(total), L(out...))
}

// ---- an end-to-end case ------------------------------------------------------------------------------

type c07E2E struct {
	kind      string // cli | session | web
	t         *c07Tuple
	srcNames  []string // file name of every source of t (equal names = the same file listed twice)
	baseNames []string
	binary    string // when not empty: first positional argument, opened by the ObjTool as executable
	// command-line misuse: extra flags that make parseFlags refuse
	bothBaseFlags bool // the bases are given with -base AND -diff_base
	normNoBase    bool
}

func (e *c07E2E) positional() []string {
	var a []string
	if e.binary != "" {
		a = append(a, e.binary)
	}
	return append(a, e.srcNames...)
}

func (e *c07E2E) baseFlagValues() (base, diff []string) {
	switch {
	case e.bothBaseFlags:
		return e.baseNames, e.baseNames
	case e.t.diffBase:
		return nil, e.baseNames
	}
	return e.baseNames, nil
}

// flags common to every process of the case: no trimming, the comparison flags
func (e *c07E2E) flags() []string {
	a := []string{"-nodefraction=0", "-edgefraction=0", "-symbolize=none"}
	if e.t.normalize || e.normNoBase {
		a = append(a, "-normalize")
	}
	b, d := e.baseFlagValues()
	for _, n := range b {
		a = append(a, "-base="+n)
	}
	for _, n := range d {
		a = append(a, "-diff_base="+n)
	}
	return a
}

func (e *c07E2E) fileTable() ([]string, map[string]c07Prof) {
	var names []string
	tab := map[string]c07Prof{}
	add := func(ns []string, ps []c07Prof) {
		for i, n := range ns {
			if _, ok := tab[n]; !ok {
				names = append(names, n)
				tab[n] = ps[i]
			}
		}
	}
	add(e.srcNames, e.t.srcs)
	add(e.baseNames, e.t.bases)
	return names, tab
}

func (e *c07E2E) input() Term {
	base := e.t.input().(tL)
	names, tab := e.fileTable()
	var files []Term
	for _, n := range names {
		files = append(files, L(S(n), DumpProfile(e.t.tab.build(tab[n]))))
	}
	var bins []string
	if e.binary != "" {
		bins = []string{e.binary}
	}
	b, d := e.baseFlagValues()
	norm := e.t.normalize || e.normNoBase
	flags := L(Bool(e.t.diffBase), Bool(norm))
	return L(flags, base.l[1], base.l[2], L(S(e.kind), Ss(e.positional()), Ss(b), Ss(d), Ss(bins), L(files...)))
}

func c07UnitFlag(u string) string {
	if u == "" {
		return "minimum"
	}
	return u
}

const c07Saved = "c07-saved.pb.gz"

// columns runs fn once per sample index of the dumped profile and collects the report terms.
func (e *c07E2E) errTerm(err error) Term {
	msg := err.Error()
	switch {
	case strings.Contains(msg, "-base and -diff_base flags cannot both be specified"):
		return L(S("err"), S("cli:base-and-diff_base"))
	case strings.Contains(msg, "must have base profile to normalize by"):
		return L(S("err"), S("cli:normalize-without-base"))
	case strings.Contains(msg, "no profile source specified"):
		return L(S("err"), S("cli:no-source"))
	}
	return L(S("err"), S(c07ErrEnum(msg, e.t.normalize)))
}

// reports produces, through the entry point of the case's kind, the saved profile (proto) and the
// (total, rows) of every sample index, for the given positional arguments.
func (e *c07E2E) reports(flags, positional []string, bins map[string]bool) (saved []byte, reps []Term, err error) {
	args := func(extra ...string) []string {
		return append(append(append([]string{}, extra...), flags...), positional...)
	}
	switch e.kind {
	case "cli":
		w, _, err := c07PProf(args("-proto", "-output="+c07Saved), bins, nil, nil)
		if err != nil {
			return nil, nil, err
		}
		saved, _ = w.get(c07Saved)
		p, perr := profile.ParseData(saved)
		if perr != nil {
			return nil, nil, fmt.Errorf("saved profile does not parse: %v", perr)
		}
		for i, st := range p.SampleType {
			w, _, err := c07PProf(args("-top", "-output=top.txt", "-sample_index="+strconv.Itoa(i), "-unit="+c07UnitFlag(st.Unit)), bins, nil, nil)
			if err != nil {
				reps = append(reps, L(S("err"), S(err.Error())))
				continue
			}
			txt, _ := w.get("top.txt")
			reps = append(reps, e.t.rowsTerm(c07ParseTop(string(txt))))
		}
		return saved, reps, nil
	case "session":
		// one session: proto >saved, then for every sample index: sample_index=i, unit=u, top >top_i
		var w *c07MemWriter
		var script []string
		step, ncol := 0, 0
		next := func() (string, bool) {
			if step == 0 {
				step++
				return "proto >" + c07Saved, true
			}
			if step == 1 {
				step++
				if b, ok := w.get(c07Saved); ok {
					if p, err := profile.ParseData(b); err == nil {
						ncol = len(p.SampleType)
						for i, st := range p.SampleType {
							script = append(script, "sample_index="+strconv.Itoa(i), "unit="+c07UnitFlag(st.Unit), "top >top_"+strconv.Itoa(i))
						}
					}
				}
			}
			if k := step - 2; k < len(script) {
				step++
				return script[k], true
			}
			return "", false
		}
		// the writer is created inside c07PProf; reach it through a first prompt hook
		var ui *c07UI
		var perr error
		w, ui, perr = c07SessionPProf(args(), bins, next, &w)
		if perr != nil {
			return nil, nil, perr
		}
		saved, ok := w.get(c07Saved)
		if !ok {
			return nil, nil, fmt.Errorf("session: proto wrote nothing (%v)", ui.errs)
		}
		for i := 0; i < ncol; i++ {
			txt, ok := w.get("top_" + strconv.Itoa(i))
			if !ok {
				reps = append(reps, L(S("err"), S(fmt.Sprintf("session: top wrote nothing (%v)", ui.errs))))
				continue
			}
			reps = append(reps, e.t.rowsTerm(c07ParseTop(string(txt))))
		}
		return saved, reps, nil
	case "web":
		var werr error
		_, _, err := c07PProf(args("-http=localhost:0"), bins, nil, func(get func(path, rawq string) (int, string)) {
			code, body := get("/download", "")
			if code != 200 {
				werr = fmt.Errorf("web: /download status %d", code)
				return
			}
			saved = []byte(body)
			p, perr := profile.ParseData(saved)
			if perr != nil {
				werr = fmt.Errorf("web: downloaded profile does not parse: %v", perr)
				return
			}
			for i := range p.SampleType {
				code, body := get("/top", "si="+strconv.Itoa(i))
				if code != 200 {
					reps = append(reps, L(S("err"), S(fmt.Sprintf("web: /top status %d", code))))
					continue
				}
				reps = append(reps, e.t.rowsTerm(c07ParseWebTop(body)))
			}
		})
		if err != nil {
			return nil, nil, err
		}
		return saved, reps, werr
	}
	return nil, nil, fmt.Errorf("unknown kind %q", e.kind)
}

// c07SessionPProf is c07PProf for a script that needs the writer of its own process.
func c07SessionPProf(args []string, bins map[string]bool, next func() (string, bool), wp **c07MemWriter) (*c07MemWriter, *c07UI, error) {
	driver.VerifC09Reset()
	w := &c07MemWriter{}
	*wp = w
	ui := &c07UI{next: next}
	o := &plugin.Options{Flagset: c07NewFlags(args), UI: ui, Obj: &c07Obj{bins}, Sym: c09Sym{}, Writer: w, HTTPTransport: c09NoNet{}}
	err := driver.PProf(o)
	driver.VerifC09Reset()
	return w, ui, err
}

func (e *c07E2E) observe() (obs Term) {
	defer func() {
		if r := recover(); r != nil {
			obs = L(S("panic"), S(fmt.Sprint(r)))
		}
	}()
	// the files of the case, in the working directory (a scratch directory of the run)
	names, tab := e.fileTable()
	var created []string
	defer func() {
		for _, n := range created {
			os.Remove(n)
		}
		os.Remove("sub")
		os.Remove(c07Saved)
	}()
	for _, n := range names {
		if d := filepath.Dir(n); d != "." {
			os.MkdirAll(d, 0o755)
		}
		if err := os.WriteFile(n, c09Bytes(e.t.tab.build(tab[n])), 0o644); err != nil {
			return L(S("err"), S("harness: "+err.Error()))
		}
		created = append(created, n)
	}
	bins := map[string]bool{}
	if e.binary != "" {
		bins[e.binary] = true
	}
	saved, direct, err := e.reports(e.flags(), e.positional(), bins)
	if err != nil {
		return e.errTerm(err)
	}
	p, err := profile.ParseData(saved)
	if err != nil {
		return L(S("err"), S("reparse:"+err.Error()))
	}
	dump := c07DumpMerged(p)
	// step 3 of the history: the saved file is opened by a new process of the same kind
	if err := os.WriteFile(c07Saved, saved, 0o644); err != nil {
		return L(S("err"), S("harness: "+err.Error()))
	}
	_, reopened, err := e.reports([]string{"-nodefraction=0", "-edgefraction=0", "-symbolize=none"}, []string{c07Saved}, nil)
	if err != nil {
		return L(S("err"), S("reopen:"+err.Error()))
	}
	return L(S("ok"), dump, L(direct...), L(reopened...))
}

// ---- streams ---------------------------------------------------------------------------------------

// names a profile file can have: content hashes and ids (hex digits only), ordinary names, names in
// a directory, names with characters that need escaping in URLs / shells
var c07HexNames = []string{"5d41402abc4b2a76", "7d793037a0760186", "cafe", "2024", "a1b2c3", "00ff", "DEADBEEF", "9"}
var c07PlainNames = []string{"cpu.pb.gz", "run-1.prof", "heap.pprof", "sub/p1.prof", "sub/p2.pb.gz", "prof+1.pb", "a%41b.prof", "my prof.pb", "x=y.prof", "p#1.prof"}

func c07E2EKnobs() c07Knobs {
	return c07Knobs{nsrc: 2, maxSamples: 3, minSamples: 1, maxCol: 2, zeros: 6, negative: true, labels: true}
}

func c07Names(r *Rng, n int, pool []string, used map[string]bool) []string {
	var out []string
	for len(out) < n {
		c := pool[r.Intn(len(pool))]
		if used[c] {
			c = fmt.Sprintf("%s%d", "f", len(used)) + c // never a hex-only name
			if used[c] {
				continue
			}
		}
		used[c] = true
		out = append(out, c)
	}
	return out
}

// c07FileSafe: a numeric label (0, no unit) does not survive being written to a file (the
// permitted normalisation of C01), and here the sources ARE files: such labels get the value 3.
func c07FileSafe(t *c07Tuple) {
	for _, ps := range [][]c07Prof{t.srcs, t.bases} {
		for _, p := range ps {
			for _, s := range p.samples {
				for k, vs := range s.numlab {
					nv := append([]int64{}, vs...)
					for i := range nv {
						if nv[i] == 0 {
							nv[i] = 3
						}
					}
					s.numlab[k] = nv
				}
			}
		}
	}
}

func runC07E2E(c *Ctx, emit func(gen string, in, obs Term, nt bool, tags ...string)) {
	kinds := []string{"cli", "session", "web"}
	run := func(gen string, e *c07E2E) {
		c07FileSafe(e.t)
		obs := e.observe()
		tags := []string{"e2e:" + e.kind}
		if l, ok := obs.(tL); ok && len(l.l) > 0 {
			if s, ok := l.l[0].(tS); ok {
				tags = append(tags, "outcome:"+s.s)
			}
		}
		emit(gen, e.input(), obs, e.t.nontrivial(), tags...)
	}
	// (1) deterministic shapes: the same under every seed (own generator state)
	type shape struct {
		name            string
		nsrc, nbase     int
		diffBase, norm  bool
		srcs, bases     []string
		binary          string
		dupFirst        bool // the first source is listed twice
		bothBase, normX bool
	}
	shapes := []shape{
		{name: "hash-named-sources", nsrc: 3, srcs: []string{"5d41402abc4b2a76", "7d793037a0760186", "cafe"}},
		{name: "hash-first-then-plain", nsrc: 2, srcs: []string{"2024", "run-1.prof"}},
		{name: "plain-first-then-hash", nsrc: 2, srcs: []string{"cpu.pb.gz", "00ff"}},
		{name: "single-hash-source", nsrc: 1, srcs: []string{"DEADBEEF"}},
		{name: "base-hash-named", nsrc: 2, nbase: 1, srcs: []string{"a1b2c3", "run-1.prof"}, bases: []string{"9"}},
		{name: "diff-base-hash-sources", nsrc: 2, nbase: 1, diffBase: true, srcs: []string{"cafe", "00ff"}, bases: []string{"base.prof"}},
		{name: "names-needing-escaping", nsrc: 3, nbase: 1, diffBase: true, srcs: []string{"prof+1.pb", "a%41b.prof", "my prof.pb"}, bases: []string{"sub/b+%.prof"}},
		{name: "same-file-twice", nsrc: 2, srcs: []string{"dup.prof", "other.prof"}, dupFirst: true},
		{name: "binary-then-sources", nsrc: 2, srcs: []string{"a.prof", "b.prof"}, binary: "prog.bin"},
		{name: "binary-then-one-source", nsrc: 1, nbase: 1, srcs: []string{"a.prof"}, bases: []string{"b.prof"}, binary: "prog"},
		{name: "two-bases-normalize", nsrc: 1, nbase: 2, diffBase: true, norm: true, srcs: []string{"s.prof"}, bases: []string{"b1.prof", "b2.prof"}},
		{name: "base-and-diff-base", nsrc: 1, nbase: 1, srcs: []string{"s.prof"}, bases: []string{"b.prof"}, bothBase: true},
		{name: "normalize-without-base", nsrc: 2, srcs: []string{"s.prof", "t.prof"}, normX: true},
	}
	for si, sh := range shapes {
		for ki, kind := range kinds {
			r := NewRng(uint64(7700 + 10*si + ki))
			k := c07E2EKnobs()
			k.nsrc, k.nbase, k.diffBase, k.norm = sh.nsrc, sh.nbase, sh.diffBase, sh.norm
			k.zeros = 0
			k.units = ki % 2
			if sh.norm {
				k.units = 0
			}
			t := c07Gen(r, k)
			e := &c07E2E{kind: kind, t: t, srcNames: append([]string{}, sh.srcs...), baseNames: append([]string{}, sh.bases...),
				binary: sh.binary, bothBaseFlags: sh.bothBase, normNoBase: sh.normX}
			if sh.dupFirst {
				t.srcs = append([]c07Prof{t.srcs[0]}, t.srcs...)
				e.srcNames = append([]string{e.srcNames[0]}, e.srcNames...)
			}
			run("e2e-"+sh.name, e)
		}
	}
	// (1b) profiles of different builds (round 5 shapes) through the three entry points
	e2eBuilds := map[string]bool{"moved-code-sum": true, "moved-code-base": true, "shifted-start-diff-base": true, "inline-vs-plain-base": true}
	for _, kind := range kinds {
		for _, sh := range c07BuildsShapes() {
			if !e2eBuilds[sh.name] {
				continue
			}
			e := &c07E2E{kind: kind, t: sh.t}
			for i := range sh.t.srcs {
				e.srcNames = append(e.srcNames, []string{"build-new.prof", "build-old.prof", "b3.prof"}[i])
			}
			for i := range sh.t.bases {
				e.baseNames = append(e.baseNames, []string{"base-old.prof", "base2.prof"}[i])
			}
			run("e2e-builds-"+sh.name, e)
		}
	}
	// (1c) more than 128 files on one side of the command line (round 6 shapes)
	for _, sh := range c07ManyShapes() {
		var ks []string
		switch sh.name {
		case "sum-129":
			ks = kinds
		case "base-130-minus-128", "diff-base-1-minus-129":
			ks = []string{"cli"}
		}
		for _, kind := range ks {
			e := &c07E2E{kind: kind, t: sh.t}
			for i := range sh.t.srcs {
				e.srcNames = append(e.srcNames, fmt.Sprintf("s%03d.prof", i))
			}
			for i := range sh.t.bases {
				e.baseNames = append(e.baseNames, fmt.Sprintf("b%03d.prof", i))
			}
			run("e2e-many-"+sh.name, e)
		}
	}
	// (2) random tuples x random names x the three entry points
	modes := []struct {
		nbase          int
		diffBase, norm bool
	}{{0, false, false}, {0, false, false}, {1, false, false}, {1, true, false}, {1, false, true}, {1, true, true}, {2, true, false}}
	n := c.Budget(36, 900)
	for i := 0; i < n; i++ {
		k := c07E2EKnobs()
		m := modes[c.R.Intn(len(modes))]
		k.nsrc, k.nbase, k.diffBase, k.norm = 1+c.R.Intn(4), m.nbase, m.diffBase, m.norm
		k.units = c.R.Intn(2)
		if k.norm {
			k.units = 0
		}
		k.perm, k.partial = c.R.P(1, 3), c.R.P(1, 4)
		t := c07Gen(c.R, k)
		used := map[string]bool{c07Saved: true}
		pool := c07PlainNames
		if c.R.P(1, 2) {
			pool = append(append([]string{}, c07HexNames...), c07PlainNames...)
		}
		e := &c07E2E{kind: kinds[i%3], t: t, srcNames: c07Names(c.R, len(t.srcs), pool, used), baseNames: c07Names(c.R, len(t.bases), pool, used)}
		if c.R.P(1, 5) && len(t.srcs) > 1 { // the same file given twice
			j := c.R.Intn(len(t.srcs))
			t.srcs = append(t.srcs, t.srcs[j])
			e.srcNames = append(e.srcNames, e.srcNames[j])
		}
		if c.R.P(1, 6) {
			e.binary = "prog.bin"
		}
		run("e2e-random", e)
	}
}
