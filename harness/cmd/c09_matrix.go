//go:build verif

package main

// C09: the option x output-format matrix on profiles with STRUCTURE.
// The random streams draw 1-4 lines over small random profiles: a particular option value meeting a
// particular report format on a profile shape that makes trimming / merging / tree building actually
// do work (a function with two callers, recursion, inlining, a node under the cutoff, more nodes than
// nodecount, negative and zero values) is rare there.  Here it is systematic: for every shaped
// profile and every setting derived from the configuration field table (so a new option is covered
// without touching this file) -- alone and combined with the structural switches (call_tree, trim,
// nodecount, nodefraction) -- EVERY report command is run, through the interactive loop (state
// survives between the commands of a session), through the command line and through the web handlers.

import (
	"fmt"
	"net/url"
	"strings"

	"github.com/google/pprof/internal/driver"
	"github.com/google/pprof/profile"
)

type c09Shape struct {
	name string
	p    *profile.Profile
}

// c09ShapeBuilder assembles small profiles from named functions; stacks are leaf-first lists of names.
type c09ShapeBuilder struct {
	p    *profile.Profile
	m    *profile.Mapping
	fn   map[string]*profile.Function
	loc  map[string]*profile.Location
	next uint64
}

func newC09ShapeBuilder(types ...string) *c09ShapeBuilder {
	b := &c09ShapeBuilder{p: &profile.Profile{}, fn: map[string]*profile.Function{}, loc: map[string]*profile.Location{}}
	for _, t := range types {
		u := "count"
		if strings.Contains(t, "space") {
			u = "bytes"
		} else if t == "cpu" || t == "delay" {
			u = "nanoseconds"
		}
		b.p.SampleType = append(b.p.SampleType, &profile.ValueType{Type: t, Unit: u})
	}
	b.m = &profile.Mapping{ID: 1, Start: 0x1000, Limit: 0x90000, File: "/bin/shape", HasFunctions: true}
	b.p.Mapping = []*profile.Mapping{b.m}
	b.p.PeriodType = &profile.ValueType{Type: "cpu", Unit: "nanoseconds"}
	b.p.Period = 1
	return b
}

func (b *c09ShapeBuilder) function(name string) *profile.Function {
	if f, ok := b.fn[name]; ok {
		return f
	}
	f := &profile.Function{ID: uint64(len(b.fn) + 1), Name: name, SystemName: name, Filename: name + ".go", StartLine: 1}
	b.fn[name] = f
	b.p.Function = append(b.p.Function, f)
	return f
}

// location: "a" is a location of function a; "a+b" is ONE location with inlined lines a (leaf-most) and b.
func (b *c09ShapeBuilder) location(spec string) *profile.Location {
	if l, ok := b.loc[spec]; ok {
		return l
	}
	b.next++
	l := &profile.Location{ID: b.next, Mapping: b.m, Address: 0x1000 + b.next*0x10}
	for i, n := range strings.Split(spec, "+") {
		l.Line = append(l.Line, profile.Line{Function: b.function(n), Line: int64(10 + i)})
	}
	b.loc[spec] = l
	b.p.Location = append(b.p.Location, l)
	return l
}

func (b *c09ShapeBuilder) sample(stack string, vals ...int64) *profile.Sample {
	s := &profile.Sample{Value: vals}
	if stack != "" {
		for _, n := range strings.Split(stack, " ") {
			s.Location = append(s.Location, b.location(n))
		}
	}
	for len(s.Value) < len(b.p.SampleType) {
		s.Value = append(s.Value, s.Value[len(s.Value)-1]*3)
	}
	b.p.Sample = append(b.p.Sample, s)
	return s
}

// c09Shapes: the shaped profiles.  quick uses the first few, thorough all.
func c09Shapes() []c09Shape {
	var out []c09Shape
	add := func(name string, b *c09ShapeBuilder) {
		if err := b.p.CheckValid(); err != nil {
			panic("c09Shapes: " + name + ": " + err.Error())
		}
		out = append(out, c09Shape{name, b.p})
	}
	// diamond: leaf reached through two callers; one stack far below every cutoff
	b := newC09ShapeBuilder("samples")
	b.sample("leaf left main", 1000)
	b.sample("leaf right main", 1000)
	b.sample("rare main", 1)
	add("diamond", b)
	// two sample types, recursion, inlining, labels, a shared callee at different depths, zero counts
	b = newC09ShapeBuilder("samples", "cpu")
	b.sample("a b a main", 50, 5000).Label = map[string][]string{"k": {"v1"}, "key": {"x", "y"}}
	b.sample("leaf+inl+mid main", 70, 100)
	b.sample("leaf mid main", 0, 300).NumLabel = map[string][]int64{"bytes": {16, 32}}
	b.sample("leaf a main", 30, 1)
	b.sample("tiny main", 1, 1)
	b.sample("", 4, 4)
	b.p.Sample[2].NumUnit = map[string][]string{"bytes": {"bytes", "bytes"}}
	add("mixed", b)
	// wide: more nodes than any default nodecount, every leaf shared by two parents, weights descending
	b = newC09ShapeBuilder("samples")
	for i := 0; i < 120; i++ {
		b.sample(fmt.Sprintf("f%d p%d main", i, i%2), int64(1000-i*8))
		b.sample(fmt.Sprintf("f%d q%d main", i, i%3), int64(i+1))
	}
	add("wide", b)
	// diff-like: negative and cancelling values, a node netting to zero
	b = newC09ShapeBuilder("alloc_space", "inuse_space")
	b.sample("leaf left main", 500, -500)
	b.sample("leaf right main", -500, 400)
	b.sample("other main", -3, 100)
	b.sample("rare right main", 1, -1)
	add("diff", b)
	// deep chain with a repeated function far apart and a shared tail
	b = newC09ShapeBuilder("samples")
	var chain []string
	for i := 0; i < 40; i++ {
		chain = append([]string{fmt.Sprintf("d%d", i%17)}, chain...)
	}
	b.sample(strings.Join(chain, " "), 100)
	b.sample("d3 d9 d0", 60)
	b.sample("d3 d1 d0", 1)
	add("deep", b)
	// unsymbolized locations and a location without mapping next to symbolized ones
	b = newC09ShapeBuilder("samples")
	b.sample("leaf left main", 10)
	b.sample("leaf right main", 10)
	raw1 := &profile.Location{ID: 100, Mapping: b.m, Address: 0x5000}
	raw2 := &profile.Location{ID: 101, Address: 0x7000}
	b.p.Location = append(b.p.Location, raw1, raw2)
	b.p.Sample = append(b.p.Sample, &profile.Sample{Location: []*profile.Location{raw1, raw2, b.location("main")}, Value: []int64{5}},
		&profile.Sample{Location: []*profile.Location{raw1, b.location("left")}, Value: []int64{1}})
	add("raw", b)
	return out
}

type c09Setting struct {
	lines []string // interactive assignments
	flags []string // the same as command-line flags
	query string   // the same as URL parameters ("" if some field has no URL parameter)
}

// c09Settings derives the option settings from the configuration field table: every field gets the
// values of its kind; the structural switches are then combined with every other setting.
func c09Settings(full bool) []c09Setting {
	type kv struct{ name, value, urlparam string }
	var singles []kv
	for _, f := range driver.VerifC09Default() {
		var vals []string
		switch {
		case len(f.Choices) > 0:
			vals = f.Choices
		case f.Kind == "bool":
			vals = []string{"true", "false"}
		case f.Kind == "int":
			vals = []string{"1", "2", "5", "0"}
		case f.Kind == "float":
			vals = []string{"0.3", "0", "0.99", "2"}
		default:
			switch f.Name {
			case "output":
				vals = []string{"out"}
			case "unit":
				vals = []string{"auto", "ms", "kb", "zz"}
			case "sample_index":
				vals = []string{"0", "samples"}
			case "tagroot", "tagleaf":
				vals = []string{"k", "bytes,key"}
			case "tagfocus", "tagignore":
				vals = []string{"v1", "bytes=16:32", "k=v1"}
			case "tagshow", "taghide":
				vals = []string{"k", "bytes"}
			case "source_path", "trim_path":
				vals = []string{"/nonexistent"}
			default: // regexp-valued filters: functions of the shaped profiles
				vals = []string{"leaf", "left|a", "main", "nomatch"}
			}
		}
		for _, v := range vals {
			singles = append(singles, kv{f.Name, v, f.URLParam})
		}
	}
	mk := func(kvs ...kv) c09Setting {
		var s c09Setting
		okURL := true
		var q []string
		for _, e := range kvs {
			s.lines = append(s.lines, e.name+"="+e.value)
			s.flags = append(s.flags, "-"+e.name+"="+e.value)
			if e.urlparam == "" {
				okURL = false
			}
			q = append(q, url.QueryEscape(e.urlparam)+"="+url.QueryEscape(e.value))
		}
		if okURL {
			s.query = strings.Join(q, "&")
		}
		return s
	}
	out := []c09Setting{{}}
	for _, e := range singles {
		out = append(out, mk(e))
	}
	// structural switches x everything else
	structural := []kv{{"call_tree", "true", "calltree"}, {"trim", "false", "trim"}, {"nodecount", "2", "n"}, {"nodefraction", "0.3", "nf"}}
	for si, st := range structural {
		for _, e := range singles {
			if e.name == st.name {
				continue
			}
			if !full && si > 0 && e.value != "true" && e.value != "1" && e.value != "0.3" && e.value != "leaf" {
				continue // quick: every setting with call_tree, a selection with the other switches
			}
			out = append(out, mk(st, e))
		}
	}
	out = append(out, mk(structural[0], structural[2], structural[3]), mk(structural[0], structural[1]))
	return out
}

// c09MatrixLines: every report command; variant 0 plain, variant 1 with a small node count argument.
func c09MatrixLines(variant int, full bool) []string {
	names, hasParam := driver.VerifC09Commands()
	// quick: one command per report format (the nine dot-based commands differ only in the external
	// program that is not started here); a command unknown to this list is always kept
	dup := map[string]bool{"gif": true, "pdf": true, "png": true, "ps": true, "eog": true, "evince": true, "gv": true, "web": true,
		"kcachegrind": true, "text": true}
	var lines []string
	for i, n := range names {
		if !full && dup[n] {
			continue
		}
		switch {
		case hasParam[i] && variant == 0:
			lines = append(lines, n+" .")
		case hasParam[i]:
			lines = append(lines, n+" leaf 2")
		case variant == 0:
			lines = append(lines, n)
		default:
			lines = append(lines, n+" 2")
		}
	}
	return lines
}

// c09Matrix runs one of the three matrix streams.
func c09Matrix(c *Ctx, stream string) {
	shapes := c09Shapes()
	full := c.Tier == "thorough"
	settings := c09Settings(full)
	names, hasParam := driver.VerifC09Commands()
	c.Extra["matrix_settings"] = len(settings)
	pick := func(k int) bool { return full || c.N > 0 || k%3 == int(c.Seed%3) } // quick: a third, rotating with the seed
	k := 0
	switch stream {
	case "matrix-session-0", "matrix-session-1", "matrix-session-2":
		shard := int(stream[len(stream)-1] - '0')
		for si, sh := range shapes {
			if si%3 != shard {
				continue
			}
			for ti, st := range settings {
				k++
				if !full && si == 0 && len(st.lines) > 0 && !strings.HasPrefix(st.lines[0], "call_tree") && k%2 != int(c.Seed%2) {
					continue // quick, diamond: every setting that involves call_tree, a rotating half of the others
				}
				if !full && si >= 1 && (!pick(k) || (si >= 2 && (k/3)%3 != int(c.Seed/3%3))) {
					continue // quick: "mixed" with a rotating third of the settings, the other shapes a ninth
				}
				variants := []int{ti % 2}
				if full {
					variants = []int{0, 1}
				}
				for _, v := range variants {
					lines := append(append([]string{}, st.lines...), c09MatrixLines(v, full)...)
					c09Session(c, "matrix-session-"+sh.name, sh.p, lines, true)
				}
			}
		}
	case "matrix-cli":
		for _, sh := range shapes {
			for _, st := range settings {
				for i, n := range names {
					k++
					if full && k%2 != int(c.Seed%2) {
						continue // thorough: half of the command lines, alternating with the seed
					}
					if !pick(k/7) || (!full && k%14 != 0 && !((n == "tree" || n == "dot" || n == "callgrind") && (k/7)%2 == int(c.Seed%2))) {
						continue
					}
					arg := "-" + n
					if hasParam[i] {
						arg += "=."
					}
					args := append(append([]string{arg}, st.flags...), "-output=out", "p")
					c09CLI(c, "matrix-cli-"+sh.name, sh.p, args, nil)
				}
			}
		}
	case "matrix-web":
		paths := []string{"/", "/top", "/disasm", "/source", "/peek", "/flamegraph"}
		for _, sh := range shapes {
			var reqs []c09Req
			for _, st := range settings {
				if st.query == "" {
					continue
				}
				for _, pth := range paths {
					k++
					if !pick(k) || (!full && (k/3)%2 != int(c.Seed/3%2)) {
						continue
					}
					q := st.query
					if pth == "/disasm" || pth == "/source" || pth == "/peek" {
						q += "&f=leaf"
					}
					reqs = append(reqs, c09Req{pth, q})
					if len(reqs) == 12 {
						c09Web(c, "matrix-web-"+sh.name, sh.p, nil, reqs)
						reqs = nil
					}
				}
			}
			if len(reqs) > 0 {
				c09Web(c, "matrix-web-"+sh.name, sh.p, nil, reqs)
			}
		}
	}
}
