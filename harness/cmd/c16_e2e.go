//go:build verif

package main

// C16, end-to-end layer: the same generated source lists, outcomes and completion orders as the
// other C16 streams, pushed through the real entry point driver.PProf -- setDefaults (plug-in
// adapters), parseFlags (positional sources, -base / -diff_base lists), fetchProfiles (fetch, merge,
// base subtraction, symbolize, RemoveUninteresting, validity), then one of
//   c16E2EProto   : `-proto -output=...` through a plugin.Writer, output parsed back
//   c16E2ESession : interactive session, `proto >file` typed at the prompt
//   c16E2EWeb     : `-http`, the registered /download handler called through httptest
//   c16E2ETop     : `-top -output=...`, the printed rows parsed back into (function, flat)
// What comes out is turned back into the observable the C16 model predicts (status, profile
// reported on, per-source error lines, other stderr lines) and judged by the same model/spec.
// srcs/bases of an e2e case are TABLES of distinct source names; args[g] says which of them the
// command line names, in which order and how often.

import (
	"bufio"
	"bytes"
	"flag"
	"fmt"
	"io"
	"net/http/httptest"
	"net/http"
	"strconv"
	"strings"

	"github.com/google/pprof/internal/driver"
	"github.com/google/pprof/internal/plugin"
	"github.com/google/pprof/profile"
)

const (
	c16E2EProto   = 1
	c16E2ESession = 2
	c16E2EWeb     = 3
	c16E2ETop     = 4
)

func c16I64(l []int) []int64 {
	r := make([]int64, len(l))
	for i, x := range l {
		r[i] = int64(x)
	}
	return r
}

// c16CLI is a plugin.FlagSet over the standard flag package in which StringList flags may be
// repeated (`-base a -base b`), as in pprof's own command line.
type c16CLI struct {
	fs   *flag.FlagSet
	args []string
}

type c16ListValue struct{ l *[]*string }

func (v c16ListValue) String() string { return "" }
func (v c16ListValue) Set(s string) error {
	*v.l = append(*v.l, &s)
	return nil
}

func c16NewCLI(args []string) *c16CLI {
	fs := flag.NewFlagSet("pprof", flag.ContinueOnError)
	fs.SetOutput(io.Discard)
	return &c16CLI{fs: fs, args: args}
}
func (f *c16CLI) Bool(o string, d bool, c string) *bool          { return f.fs.Bool(o, d, c) }
func (f *c16CLI) Int(o string, d int, c string) *int             { return f.fs.Int(o, d, c) }
func (f *c16CLI) Float64(o string, d float64, c string) *float64 { return f.fs.Float64(o, d, c) }
func (f *c16CLI) String(o, d, c string) *string                  { return f.fs.String(o, d, c) }
func (f *c16CLI) StringList(o, d, c string) *[]*string {
	l := &[]*string{}
	f.fs.Var(c16ListValue{l}, o, c)
	return l
}
func (f *c16CLI) ExtraUsage() string     { return "" }
func (f *c16CLI) AddExtraUsage(s string) {}
func (f *c16CLI) Parse(usage func()) []string {
	f.fs.Usage = func() {}
	if err := f.fs.Parse(f.args); err != nil {
		return nil
	}
	if len(f.fs.Args()) == 0 {
		usage()
	}
	return f.fs.Args()
}

// c16RunE2E runs one pprof invocation and returns the profile it reported on, recovered from
// what it printed.
func c16RunE2E(env *c16Env, rt http.RoundTripper, cs c16Case, addrs [2][]string) (*profile.Profile, error) {
	driver.VerifC09Reset() // the driver's package-level configuration
	args := []string{"-symbolize=none"}
	baseFlag := "-base="
	if cs.diffBase {
		baseFlag = "-diff_base="
	}
	for k, id := range cs.args[1] {
		args = append(args, baseFlag+addrs[1][id])
		if cs.emptyBase && k == 0 {
			args = append(args, baseFlag) // an empty value is dropped by the command line handling
		}
	}
	if cs.emptyBase && len(cs.args[1]) == 0 {
		args = append(args, baseFlag)
	}
	w := &c01Writer{}
	o := &plugin.Options{Fetch: env, Sym: c16Sym{}, Obj: c16Obj{}, UI: env, HTTPTransport: rt, Writer: w}
	var webBody []byte
	switch cs.e2e {
	case c16E2EProto:
		args = append(args, "-proto", "-output=c16out")
	case c16E2ETop:
		args = append(args, "-top", "-nodefraction=0", "-nodecount=100000", "-output=c16out")
	case c16E2ESession:
		env.lines = []string{"proto >c16out"}
	case c16E2EWeb:
		args = append(args, "-http=localhost:0")
		o.HTTPServer = func(a *plugin.HTTPServerArgs) error {
			h := a.Handlers["/download"]
			if h == nil {
				return fmt.Errorf("c16: no /download handler")
			}
			rec := httptest.NewRecorder()
			h.ServeHTTP(rec, httptest.NewRequest("GET", "http://localhost/download", nil))
			webBody = rec.Body.Bytes()
			return nil
		}
	}
	for _, id := range cs.args[0] {
		args = append(args, addrs[0][id])
	}
	o.Flagset = c16NewCLI(args)
	if err := driver.PProf(o); err != nil {
		return nil, err
	}
	var out []byte
	if cs.e2e == c16E2EWeb {
		out = webBody
	} else if len(w.bufs) > 0 {
		out = w.bufs[len(w.bufs)-1].Bytes()
	}
	if out == nil {
		return nil, fmt.Errorf("c16: pprof produced no output")
	}
	if cs.e2e == c16E2ETop {
		return c16ParseTop(out)
	}
	p, err := profile.ParseData(out)
	if err != nil {
		return nil, fmt.Errorf("c16: output does not parse: %v", err)
	}
	return p, nil
}

// c16ParseTop reads `-top` text back: the legend (comments, then "Type:") and the rows
// "flat flat% sum% cum cum% name".
func c16ParseTop(out []byte) (*profile.Profile, error) {
	p := &profile.Profile{}
	sc := bufio.NewScanner(bytes.NewReader(out))
	sc.Buffer(make([]byte, 1<<20), 1<<24)
	inRows := false
	for sc.Scan() {
		line := sc.Text()
		if strings.HasPrefix(line, "Type: ") {
			p.SampleType = []*profile.ValueType{{Type: strings.TrimPrefix(line, "Type: "), Unit: "count"}}
			continue
		}
		f := strings.Fields(line)
		if !inRows {
			if len(f) == 5 && f[0] == "flat" && f[1] == "flat%" {
				inRows = true
			} else if len(p.SampleType) == 0 && !strings.HasPrefix(line, "File: ") && !strings.HasPrefix(line, "Build ID: ") {
				p.Comments = append(p.Comments, line) // the legend lists the profile's comments before "Type:"
			}
			continue
		}
		if len(f) < 6 {
			return nil, fmt.Errorf("c16: unexpected -top row %q", line)
		}
		v, err := strconv.ParseInt(f[0], 10, 64)
		if err != nil {
			return nil, fmt.Errorf("c16: unexpected flat value in -top row %q", line)
		}
		// the name is the rest of the line after the fifth column
		rest := line
		for k := 0; k < 5; k++ {
			rest = strings.TrimLeft(rest, " ")
			rest = rest[len(f[k]):]
		}
		name := strings.TrimLeft(rest, " ")
		fn := &profile.Function{ID: uint64(len(p.Function) + 1), Name: name}
		p.Function = append(p.Function, fn)
		loc := &profile.Location{ID: fn.ID, Line: []profile.Line{{Function: fn}}}
		p.Location = append(p.Location, loc)
		p.Sample = append(p.Sample, &profile.Sample{Location: []*profile.Location{loc}, Value: []int64{v}})
	}
	if !inRows {
		return nil, fmt.Errorf("c16: no rows in -top output: %q", string(out[:min(len(out), 400)]))
	}
	return p, nil
}

var c16E2EFormats = []int{c16E2EProto, c16E2ESession, c16E2EWeb, c16E2ETop}

const c16BadDrop = "(?!fb$)runtime[.].*" // Perl look-ahead: valid for other producers, rejected by Go's regexp

// c16E2EStreams queues the end-to-end cases.
func (c *Ctx) c16E2EStreams() {
	ok := func(i, grp int) c16Src { return c16Plain(i, grp, true) }
	bad := func(i, grp, kind int) c16Src { s := c16Plain(i, grp, false); s.kind = kind; return s }
	emit := func(gen string, cs c16Case) {
		cs.order = nil
		// default completion order: reverse command-line order of the names, bases first
		for i := len(cs.bases) - 1; i >= 0; i-- {
			cs.order = append(cs.order, c16Ev{1, i})
		}
		for i := len(cs.srcs) - 1; i >= 0; i-- {
			cs.order = append(cs.order, c16Ev{0, i})
		}
		c.c16Emit(gen, cs, "gen-e2e", fmt.Sprintf("e2e-format:%d", cs.e2e))
	}
	// D1: a source named more than once is fetched and merged as often as it is named; a failing
	// one gets one error line per mention (the lists are lists, not sets) -- every entry point
	for _, f := range c16E2EFormats {
		emit("e2e-repeats", c16Case{e2e: f, srcs: []c16Src{ok(0, 0), ok(1, 0)}, args: [2][]int{{0, 0, 1}}})
		emit("e2e-repeats", c16Case{e2e: f, srcs: []c16Src{ok(0, 0), bad(1, 0, kFileMissing), ok(2, 0)}, args: [2][]int{{0, 1, 2, 1, 0}}})
		emit("e2e-repeats", c16Case{e2e: f, srcs: []c16Src{bad(0, 0, kFetchErr), ok(1, 0)}, args: [2][]int{{0, 1, 0}}})
		emit("e2e-repeats", c16Case{e2e: f, srcs: []c16Src{ok(0, 0)}, bases: []c16Src{ok(0, 1), bad(1, 1, kFileGarbage)},
			args: [2][]int{{0, 0}, {0, 1, 1, 0}}, diffBase: f == c16E2ETop})
		emit("e2e-repeats", c16Case{e2e: f, srcs: []c16Src{ok(0, 0), ok(1, 0)}, args: [2][]int{{1, 0, 1, 1}}, emptyBase: true})
	}
	// D2: a fetched, valid source whose drop_frames Go cannot compile (or that matches nothing) is a
	// success like any other, wherever it stands among failing sources
	withDrop := func(s c16Src, d string) c16Src { s.drop = d; return s }
	for _, f := range c16E2EFormats {
		for _, d := range []string{c16BadDrop, "c16_matches_no_frame.*"} {
			emit("e2e-dropframes", c16Case{e2e: f, srcs: []c16Src{withDrop(ok(0, 0), d), ok(1, 0)}, args: [2][]int{{0, 1}}})
			emit("e2e-dropframes", c16Case{e2e: f, srcs: []c16Src{bad(0, 0, kFileMissing), withDrop(ok(1, 0), d), ok(2, 0)}, args: [2][]int{{0, 1, 2}}})
			emit("e2e-dropframes", c16Case{e2e: f, srcs: []c16Src{bad(0, 0, kFileMissing), bad(1, 0, kFileGarbage), withDrop(ok(2, 0), d), ok(3, 0)}, args: [2][]int{{0, 1, 2, 3}}})
			emit("e2e-dropframes", c16Case{e2e: f, srcs: []c16Src{ok(0, 0), withDrop(ok(1, 0), d), bad(2, 0, kHTTP500)}, args: [2][]int{{0, 1, 2}}})
			emit("e2e-dropframes", c16Case{e2e: f, srcs: []c16Src{withDrop(ok(0, 0), d)}, bases: []c16Src{bad(0, 1, kFetchErr), withDrop(ok(1, 1), d)}, args: [2][]int{{0}, {0, 1}}})
		}
	}
	// D3: eight sources, two failing, a Fetcher plug-in whose fetches complete in a chosen order
	// (command-line, reverse, scrambled, failures last): all must be in flight together
	for _, f := range c16E2EFormats {
		for _, ord := range [][]int{{0, 1, 2, 3, 4, 5, 6, 7}, {7, 6, 5, 4, 3, 2, 1, 0}, {3, 0, 6, 1, 7, 4, 2, 5}, {0, 1, 3, 4, 6, 7, 2, 5}} {
			cs := c16Case{e2e: f}
			for i := 0; i < 8; i++ {
				if i == 2 || i == 5 {
					cs.srcs = append(cs.srcs, bad(i, 0, kFetchErr))
				} else {
					cs.srcs = append(cs.srcs, ok(i, 0))
				}
				cs.args[0] = append(cs.args[0], i)
			}
			for i := range cs.srcs {
				cs.srcs[i].comment = fmt.Sprintf("c0:%d", i)
			}
			for _, i := range ord {
				cs.order = append(cs.order, c16Ev{0, i})
			}
			c.c16Emit("e2e-orders", cs, "gen-e2e", fmt.Sprintf("e2e-format:%d", f))
		}
	}
	// R: random command lines over a small table of names: repeats, bases / diff bases, empty base
	// values, every local outcome kind, drop_frames on some sources, random completion orders
	localOK := []int{kFetchOK, kFetchTest, kFileOK}
	fails := []int{kFetchErr, kFetchInvalid, kFileMissing, kFileGarbage, kFileInvalid, kHTTP500}
	keys := []string{"a", "b", "shared", "x\"y", "k k", "p+q%20r"}
	vals := []int64{1, 2, 3, 5, -5, 7, 0, 100, 1 << 39}
	for k := 0; k < c.Budget(160, 8000); k++ {
		cs := c16Case{e2e: c16E2EFormats[k%len(c16E2EFormats)]}
		mk := func(i, grp int) c16Src {
			s := c16Src{typ: "samples"}
			if c.R.P(2, 3) {
				s.kind = localOK[c.R.Intn(len(localOK))]
			} else {
				s.kind = fails[c.R.Intn(len(fails))]
			}
			for j := c.R.Intn(3); j > 0; j-- {
				s.samples = append(s.samples, c16KV{PickS(c.R, keys), PickI(c.R, vals)})
			}
			s.samples = append(s.samples, c16KV{fmt.Sprintf("own%d_%d", grp, i), int64(i + 1)})
			if c.R.P(1, 5) {
				s.drop = PickS(c.R, []string{c16BadDrop, "c16_matches_no_frame.*"})
			}
			return s
		}
		ns, nb := 1+c.R.Intn(4), c.R.Intn(3)
		for i := 0; i < ns; i++ {
			cs.srcs = append(cs.srcs, mk(i, 0))
			cs.args[0] = append(cs.args[0], i)
		}
		for i := 0; i < nb; i++ {
			cs.bases = append(cs.bases, mk(i, 1))
			cs.args[1] = append(cs.args[1], i)
		}
		for j := c.R.Intn(3); j > 0; j-- { // repeated mentions
			cs.args[0] = append(cs.args[0], c.R.Intn(ns))
		}
		if nb > 0 && c.R.P(1, 3) {
			cs.args[1] = append(cs.args[1], c.R.Intn(nb))
		}
		for g := 0; g < 2; g++ {
			idx := make([]int, len(cs.args[g]))
			copy(idx, cs.args[g])
			c16Shuffle(c.R, idx)
			cs.args[g] = idx
		}
		cs.diffBase = c.R.P(1, 4)
		cs.emptyBase = c.R.P(1, 6)
		cs.order = c16Order(c.R, ns, nb, 0)
		c.c16Emit("e2e-random", cs, "gen-e2e", fmt.Sprintf("e2e-format:%d", cs.e2e))
	}
}
