//go:build verif

package main

import (
	"bytes"
	"fmt"
	"regexp"
	"strconv"
	"strings"

	"github.com/google/pprof/internal/driver"
	"github.com/google/pprof/internal/graph"
	"github.com/google/pprof/internal/measurement"
	"github.com/google/pprof/internal/report"
	"github.com/google/pprof/profile"
)

func init() {
	registry["C04"] = runC04
	subcmds["c04-probe"] = c04Probe
}

// ---------------------------------------------------------------------------------------------
// options of one report, shared by C04 and C05

type c04Opts struct {
	Gran        string
	NoInlines   bool
	ShowColumns bool
	SampleIndex string
	Mean        bool
	CallTree    bool
	DropNeg     bool
	TagRoot     string
	TagLeaf     string
	Format      string // text | tree | dot | callgrind | traces
	CumSort     bool
	NodeCount   int
	NodeFrac    float64
	EdgeFrac    float64
	// computed from the implementation's own float expression (report.go:138-139)
	NodeCutoff int64
	EdgeCutoff int64
	// glue options (end-to-end layer)
	NoTrim     bool     // -trim=false
	SourcePath string   // -source_path
	TrimPath   string   // -trim_path
	Legacy     []string // legacy sample-index flags (-inuse_space, -mean_delay, ...), only through parseFlags
	Via        string   // entry point of the text forms: cli (default) | session | web
	HasArg     bool     // session: the command carries its own numeric argument (`top 5`)
	Arg        int
	Pre        []string // session: extra lines before the command
	CmdText    bool     // use the `text` command name instead of `top`
}

func (o c04Opts) term() Term {
	return L(S(o.Gran), Bool(o.NoInlines), Bool(o.ShowColumns), S(o.SampleIndex), Bool(o.Mean), Bool(o.CallTree),
		Bool(o.DropNeg), S(o.TagRoot), S(o.TagLeaf), S(o.Format), Bool(o.CumSort), ZI(o.NodeCount), Z(o.NodeCutoff), Z(o.EdgeCutoff),
		Bool(o.NoTrim), S(o.SourcePath), S(o.TrimPath), Ss(o.Legacy), S(o.Via), Bool(o.HasArg), ZI(o.Arg))
}

// cmdName is the command as typed (cmd() is the one the shim path uses).
func (o c04Opts) cmdName() string {
	if o.Format == "text" && o.CmdText {
		return "text"
	}
	return o.cmd()
}

func (o c04Opts) cmd() string {
	switch o.Format {
	case "text":
		return "top"
	default:
		return o.Format
	}
}

func (o c04Opts) assign() [][2]string {
	a := [][2]string{
		{"nodefraction", strconv.FormatFloat(o.NodeFrac, 'g', -1, 64)},
		{"edgefraction", strconv.FormatFloat(o.EdgeFrac, 'g', -1, 64)},
	}
	if o.NodeCount != -1 { // -1: not given, the command's default applies
		a = append(a, [2]string{"nodecount", strconv.Itoa(o.NodeCount)})
	}
	if o.NoTrim {
		a = append(a, [2]string{"trim", "false"})
	}
	if o.SourcePath != "" {
		a = append(a, [2]string{"source_path", o.SourcePath})
	}
	if o.TrimPath != "" {
		a = append(a, [2]string{"trim_path", o.TrimPath})
	}
	b := func(name string, v bool) {
		if v {
			a = append(a, [2]string{name, "true"})
		}
	}
	if o.Gran != "" {
		a = append(a, [2]string{"granularity", o.Gran})
	}
	b("noinlines", o.NoInlines)
	b("showcolumns", o.ShowColumns)
	if o.SampleIndex != "" {
		a = append(a, [2]string{"sample_index", o.SampleIndex})
	}
	b("mean", o.Mean)
	b("call_tree", o.CallTree)
	b("drop_negative", o.DropNeg)
	if o.TagRoot != "" {
		a = append(a, [2]string{"tagroot", o.TagRoot})
	}
	if o.TagLeaf != "" {
		a = append(a, [2]string{"tagleaf", o.TagLeaf})
	}
	if o.CumSort {
		a = append(a, [2]string{"sort", "cum"})
	}
	return a
}

// newReport builds a report for a fresh copy of p (the report code mutates the profile).
func (o c04Opts) newReport(p *profile.Profile) (*report.Report, error) {
	return driver.VerifC04RawReport(p.Copy(), []string{o.cmd()}, o.assign())
}

func c04ErrClass(err error) Term {
	msg := err.Error()
	switch {
	case strings.Contains(msg, "outside the range"):
		return L(S("err"), S("range"))
	case strings.Contains(msg, "must be one of"):
		return L(S("err"), S("name"))
	case strings.Contains(msg, "profile has no samples"):
		return L(S("err"), S("nosamples"))
	}
	return L(S("err"), S("other:"+msg))
}

// guarded runs f under recover: a panic is an observable.
func c04Guarded(f func() Term) (t Term) {
	defer func() {
		if r := recover(); r != nil {
			t = L(S("panic"), S(fmt.Sprint(r)))
		}
	}()
	return f()
}

func SetOf(items []Term) Term { return L(append([]Term{S("#set")}, items...)...) }

func c04DumpInfo(i graph.NodeInfo) Term {
	return L(S(i.Name), S(i.OrigName), ZU(i.Address), S(i.File), ZI(i.StartLine), ZI(i.Lineno), ZI(i.Columnno), S(i.Objfile))
}

func c04DumpNode(n *graph.Node) Term {
	return L(c04DumpInfo(n.Info), Z(n.Flat), Z(n.FlatDiv), Z(n.Cum), Z(n.CumDiv))
}

func dumpEdge(e *graph.Edge) Term {
	return L(c04DumpInfo(e.Src.Info), c04DumpInfo(e.Dest.Info), Z(e.Weight), Z(e.WeightDiv), Bool(e.Residual), Bool(e.Inline))
}

// dumpGraph lists nodes (in g.Nodes order) and every out-edge of every listed node.
func dumpGraph(g *graph.Graph) (nodes, edges []Term) {
	for _, n := range g.Nodes {
		nodes = append(nodes, c04DumpNode(n))
		for _, e := range n.Out {
			edges = append(edges, dumpEdge(e))
		}
	}
	// in-edges whose source is not listed would otherwise go unseen
	listed := map[*graph.Node]bool{}
	for _, n := range g.Nodes {
		listed[n] = true
	}
	for _, n := range g.Nodes {
		for _, e := range n.In {
			if !listed[e.Src] {
				edges = append(edges, dumpEdge(e))
			}
		}
	}
	return
}

// fmtTable is the answer table for numeric tag values under tagroot/tagleaf keys.
func fmtTable(p *profile.Profile, o c04Opts) Term {
	var rows []Term
	seen := map[string]bool{}
	keys := append(strings.Split(o.TagRoot, ","), strings.Split(o.TagLeaf, ",")...)
	for _, s := range p.Sample {
		for _, k := range keys {
			if k == "" {
				continue
			}
			units := s.NumUnit[k]
			for i, v := range s.NumLabel[k] {
				var key, str string
				if len(units) == 0 {
					key, str = "", measurement.ScaledLabel(v, "", "")
				} else if i < len(units) {
					key, str = units[i], measurement.ScaledLabel(v, units[i], "minimum")
				} else {
					continue
				}
				id := fmt.Sprintf("%d/%s", v, key)
				if !seen[id] {
					seen[id] = true
					rows = append(rows, L(Z(v), S(key), S(str)))
				}
			}
		}
	}
	return L(rows...)
}

// ---------------------------------------------------------------------------------------------
// parsing numbers back out of the text forms

var legendRx = regexp.MustCompile(`Showing nodes accounting for (-?\d+), \S+ of (-?\d+) total`)
var droppedRx = regexp.MustCompile(`Dropped (\d+) nodes? \(cum <= (-?\d+)\)`)
var droppedEdgeRx = regexp.MustCompile(`Dropped (\d+) edges? \(freq <= (-?\d+)\)`)
var topNRx = regexp.MustCompile(`Showing top (\d+) nodes out of (\d+)`)

func atoi64(s string) int64 {
	v, err := strconv.ParseInt(s, 10, 64)
	if err != nil {
		panic("harness: not an integer in report output: " + strconv.Quote(s))
	}
	return v
}

func parseLegend(txt string) (shown, total int64) {
	m := legendRx.FindStringSubmatch(txt)
	if m == nil {
		panic("harness: legend line not found")
	}
	return atoi64(m[1]), atoi64(m[2])
}

// legendExtras: dropped nodes, dropped edges, top N, out of M (0 when the line is absent)
func parseLegendExtras(txt string) (dn, de, topn, outof int64) {
	if m := droppedRx.FindStringSubmatch(txt); m != nil {
		dn = atoi64(m[1])
	}
	if m := droppedEdgeRx.FindStringSubmatch(txt); m != nil {
		de = atoi64(m[1])
	}
	if m := topNRx.FindStringSubmatch(txt); m != nil {
		topn, outof = atoi64(m[1]), atoi64(m[2])
	}
	return
}

var topRowRx = regexp.MustCompile(`^\s*(\S+)\s+(\S+)\s+(\S+)\s+(\S+)\s+(\S+)  (.*)$`)

func parseTop(txt string) Term {
	shown, total := parseLegend(txt)
	var rows []Term
	in := false
	for _, line := range strings.Split(txt, "\n") {
		if strings.HasPrefix(line, "      flat  flat%") {
			in = true
			continue
		}
		if !in || line == "" {
			continue
		}
		m := topRowRx.FindStringSubmatch(line)
		if m == nil {
			panic("harness: unparsable top row " + strconv.Quote(line))
		}
		rows = append(rows, L(S(m[6]), Z(atoi64(m[1])), Z(atoi64(m[4]))))
	}
	return L(S("ok"), Z(shown), Z(total), L(rows...))
}

func parseTree(txt string) Term {
	shown, total := parseLegend(txt)
	const sep = "----------------------------------------------------------+-------------"
	var blocks []Term
	var ins, outs []Term
	var node []Term
	started := 0
	flush := func() {
		if node != nil {
			blocks = append(blocks, L(node[0], node[1], node[2], SetOf(ins), SetOf(outs)))
		}
		ins, outs, node = nil, nil, nil
	}
	for _, line := range strings.Split(txt, "\n") {
		if line == sep {
			started++
			flush()
			continue
		}
		if started < 2 || line == "" {
			continue
		}
		bar := strings.Index(line, "|")
		if bar < 0 {
			panic("harness: unparsable tree line " + strconv.Quote(line))
		}
		f := strings.Fields(line[:bar])
		rest := line[bar+1:]
		switch len(f) {
		case 2: // edge
			name := strings.TrimPrefix(rest, "   ")
			e := L(S(name), Z(atoi64(f[0])))
			if node == nil {
				ins = append(ins, e)
			} else {
				outs = append(outs, e)
			}
		case 5:
			node = []Term{S(strings.TrimPrefix(rest, " ")), Z(atoi64(f[0])), Z(atoi64(f[3]))}
		default:
			panic("harness: unparsable tree line " + strconv.Quote(line))
		}
	}
	flush()
	return L(S("ok"), Z(shown), Z(total), L(blocks...))
}

var dotNodeRx = regexp.MustCompile(`^N(\d+) \[label="(.*)" id="node\d+" .* tooltip="(.*) \((-?\d+)\)" color=`)
var dotValRx = regexp.MustCompile(`(?:(-?\d+) \([^)]*\)|0)(?:(?:\\n| )of (-?\d+) \([^)]*\))?$`)
var dotEdgeRx = regexp.MustCompile(`^N(\d+) -> N(\d+) \[label=" (-?\d+)((?:\\n \(inline\))?)"(.*)\]$`)

func parseDot(txt string) Term {
	shown, total := parseLegend(txt)
	names := map[string]string{}
	var nodes, edges []Term
	for _, line := range strings.Split(txt, "\n") {
		if m := dotNodeRx.FindStringSubmatch(line); m != nil {
			v := dotValRx.FindStringSubmatch(m[2])
			if v == nil {
				panic("harness: unparsable dot label " + strconv.Quote(m[2]))
			}
			var flat int64
			if v[1] != "" {
				flat = atoi64(v[1])
			}
			cum := flat
			if v[2] != "" {
				cum = atoi64(v[2])
			}
			if cum != atoi64(m[4]) {
				panic("harness: dot label and tooltip disagree on cum: " + strconv.Quote(line))
			}
			names[m[1]] = m[3]
			nodes = append(nodes, L(S(m[3]), Z(flat), Z(cum)))
			continue
		}
		if m := dotEdgeRx.FindStringSubmatch(line); m != nil {
			edges = append(edges, L(S(names[m[1]]), S(names[m[2]]), Z(atoi64(m[3])),
				Bool(strings.Contains(m[5], `style="dotted"`)), Bool(m[4] != "")))
		}
	}
	return L(S("ok"), Z(shown), Z(total), SetOf(nodes), SetOf(edges))
}

var cgDefRx = regexp.MustCompile(`^\((\d+)\) (.*)$`)
var cgRefRx = regexp.MustCompile(`^\((\d+)\)$`)
var cgSuffixRx = regexp.MustCompile(` \[\d+/\d+\]$`)

func parseCallgrind(txt string) Term {
	files, names := map[string]string{}, map[string]string{}
	dec := func(m map[string]string, s string) string {
		if d := cgDefRx.FindStringSubmatch(s); d != nil {
			m[d[1]] = d[2]
			return d[2]
		}
		if r := cgRefRx.FindStringSubmatch(s); r != nil {
			return m[r[1]]
		}
		return s
	}
	var nodes, edges []Term
	var fl, fn, cfn string
	var calleeLine int64
	lines := strings.Split(txt, "\n")
	for i := 0; i < len(lines); i++ {
		line := lines[i]
		switch {
		case strings.HasPrefix(line, "positions:"), strings.HasPrefix(line, "events:"), line == "", strings.HasPrefix(line, "ob="):
		case strings.HasPrefix(line, "fl="):
			fl = dec(files, line[3:])
		case strings.HasPrefix(line, "fn="):
			fn = dec(names, line[3:])
		case strings.HasPrefix(line, "cfl="):
			dec(files, line[4:])
		case strings.HasPrefix(line, "cfn="):
			cfn = cgSuffixRx.ReplaceAllString(dec(names, line[4:]), "")
		case strings.HasPrefix(line, "calls="):
			f := strings.Fields(line)
			calleeLine = atoi64(f[2])
		case strings.HasPrefix(line, "* * "):
			edges = append(edges, L(S(fn), S(cfn), Z(calleeLine), Z(atoi64(line[4:]))))
		default:
			f := strings.Fields(line)
			if len(f) != 3 {
				panic("harness: unparsable callgrind line " + strconv.Quote(line))
			}
			nodes = append(nodes, L(S(fn), S(fl), Z(atoi64(f[1])), Z(atoi64(f[2]))))
		}
	}
	return L(S("ok"), SetOf(nodes), SetOf(edges))
}

var traceLabelRx = regexp.MustCompile(`^\s*\S+:  `)

func parseTraces(txt string) Term {
	const sep = "-----------+-------------------------------------------------------"
	var out []Term
	var cur []Term
	var val int64
	have := false
	started := false
	flush := func() {
		if have {
			out = append(out, L(Z(val), L(cur...)))
		}
		cur, have = nil, false
	}
	for _, line := range strings.Split(txt, "\n") {
		if line == sep {
			started = true
			flush()
			continue
		}
		if !started || line == "" {
			continue
		}
		if !have && traceLabelRx.MatchString(line) {
			continue
		}
		if len(line) < 13 {
			panic("harness: unparsable traces line " + strconv.Quote(line))
		}
		if !have {
			f := strings.Fields(line)
			val = atoi64(f[0])
			idx := strings.Index(line, f[0]) + len(f[0])
			cur = append(cur, S(strings.TrimPrefix(line[idx:], "   ")))
			have = true
			continue
		}
		cur = append(cur, S(line[13:]))
	}
	return L(S("ok"), L(out...))
}

// ---------------------------------------------------------------------------------------------
// running one form

func c04Generate(rpt *report.Report) string {
	var b bytes.Buffer
	if err := report.Generate(&b, rpt, nil); err != nil {
		panic("report.Generate: " + err.Error())
	}
	return b.String()
}

// c04Text produces the report text of o through the real entry point (driver.PProf: flags, fetch,
// report, writer), not through the export shim.
func c04Text(p *profile.Profile, o c04Opts) (string, Term) {
	txt, err := c04E2E(p, o)
	if err != nil {
		return "", c04ErrClass(err)
	}
	return txt, nil
}

func c04Observe(p *profile.Profile, o c04Opts, form string) Term {
	return c04Guarded(func() Term {
		switch form {
		case "top", "tree", "dot", "callgrind", "traces", "webtop":
			txt, e := c04Text(p, o)
			if e != nil {
				return e
			}
			switch form {
			case "top":
				return parseTop(txt)
			case "tree":
				return parseTree(txt)
			case "dot":
				return parseDot(txt)
			case "callgrind":
				return parseCallgrind(txt)
			case "traces":
				return parseTraces(txt)
			}
			return c04WebTop(txt)
		}
		rpt, err := o.newReport(p)
		if err != nil {
			return c04ErrClass(err)
		}
		switch form {
		case "graph":
			g := report.VerifC04NewGraph(rpt)
			ns, es := dumpGraph(g)
			return L(S("ok"), Z(rpt.Total()), SetOf(ns), SetOf(es))
		case "items":
			items, labels := report.TextItems(rpt)
			var rows []Term
			var shown int64
			for _, it := range items {
				rows = append(rows, L(S(it.Name), S(it.InlineLabel), Z(it.Flat), Z(it.Cum)))
				shown += it.Flat
			}
			// the legend figure when it prints as a raw integer (unit count), else the sum of the rows
			// (beyond 2^52 the label shows the float64 rounding of the figure)
			if m := legendRx.FindStringSubmatch(strings.Join(labels, "\n")); m != nil {
				if v, err := strconv.ParseInt(m[1], 10, 64); err == nil && v < 1<<52 && v > -(1<<52) {
					shown = v
				}
			}
			return L(S("ok"), Z(rpt.Total()), Z(shown), L(rows...))
		}
		panic("unknown form " + form)
	})
}

// ---------------------------------------------------------------------------------------------
// generators

var c04Grans = []string{"", "addresses", "lines", "files", "functions", "filefunctions"}

// c04Knobs: plain names and clean paths (filepath.Clean and DOT escaping are outside this model)
func c04Knobs(r *Rng) Knobs {
	k := DefaultKnobs()
	k.Meta = false
	k.Header = false
	k.SparseIDs = r.P(1, 3)
	k.MaxSamples = 5
	k.MaxLocs = 5
	k.MaxDepth = 4
	k.NumLabels = r.P(1, 3)
	k.Labels = r.P(1, 2)
	k.Files = []string{"main.go", "foo.c", "dir/bar.cc", "", "a.go"}
	return k
}

// c04FixUnits drops unit lists whose length differs from the value list (the shared generator can
// leave a stale NumUnit entry when it draws the same key twice; such a profile cannot be encoded)
func c04FixUnits(p *profile.Profile) {
	// sample type names are made distinct: the fetch step (CompatibilizeSampleTypes) merges or
	// rejects columns with equal names, which is C07's subject, not this one's
	seenT := map[string]bool{}
	for i, st := range p.SampleType {
		for seenT[st.Type] {
			st.Type = st.Type + strconv.Itoa(i)
		}
		seenT[st.Type] = true
	}
	for _, s := range p.Sample {
		for k, us := range s.NumUnit {
			if len(us) != len(s.NumLabel[k]) {
				delete(s.NumUnit, k)
			}
		}
	}
}

// textable: values that print as raw integers and keep the columns aligned
func c04MakeTextable(r *Rng, p *profile.Profile) {
	for _, st := range p.SampleType {
		st.Unit = "count"
	}
	for _, s := range p.Sample {
		for i, v := range s.Value {
			if v > 1000000 || v < -1000000 {
				s.Value[i] = int64(r.Intn(2000)) - 500
			}
		}
	}
	p.DurationNanos, p.TimeNanos = 0, 0
}

// hand-made stack shapes the proofs split on: direct and indirect recursion, inlined
// multi-line frames repeated within one stack, locations shared between samples, a location
// without lines, an empty stack, values that cancel, several sample types
func c04Shapes() []*profile.Profile {
	fn := func(id uint64, name, file string, start int64) *profile.Function {
		return &profile.Function{ID: id, Name: name, SystemName: "_" + name, Filename: file, StartLine: start}
	}
	mk := func() (fs []*profile.Function, m *profile.Mapping) {
		fs = []*profile.Function{fn(1, "main", "main.go", 1), fn(2, "foo", "foo.c", 5), fn(3, "bar", "dir/bar.cc", 9), fn(4, "foo", "foo.c", 50)}
		m = &profile.Mapping{ID: 1, Start: 0x1000, Limit: 0x9000, File: "bin/prog", HasFunctions: true}
		return
	}
	var out []*profile.Profile
	build := func(stacks [][]int, vals [][]int64, labels []map[string][]string) {
		fs, m := mk()
		locs := []*profile.Location{
			{ID: 1, Mapping: m, Address: 0x1100, Line: []profile.Line{{Function: fs[0], Line: 10, Column: 1}}},
			{ID: 2, Mapping: m, Address: 0x1200, Line: []profile.Line{{Function: fs[2], Line: 30}, {Function: fs[1], Line: 20, Column: 2}}},
			{ID: 3, Mapping: m, Address: 0x1300, Line: []profile.Line{{Function: fs[2], Line: 31}}},
			{ID: 4, Mapping: m, Address: 0x1400},
			{ID: 5, Address: 0x1500, Line: []profile.Line{{Function: fs[1], Line: 21}, {Function: fs[1], Line: 22}, {Function: fs[0], Line: 11}}},
			{ID: 6, Mapping: m, Address: 0x1600, Line: []profile.Line{{Function: fs[3], Line: 60}}},
		}
		p := &profile.Profile{
			SampleType: []*profile.ValueType{{Type: "samples", Unit: "count"}, {Type: "cpu", Unit: "count"}},
			Mapping:    []*profile.Mapping{m}, Location: locs, Function: fs,
		}
		for i, st := range stacks {
			s := &profile.Sample{Value: vals[i]}
			for _, li := range st {
				s.Location = append(s.Location, locs[li-1])
			}
			if labels != nil && labels[i] != nil {
				s.Label = labels[i]
			}
			p.Sample = append(p.Sample, s)
		}
		out = append(out, p)
	}
	// leaf first, like profile.Sample.Location
	build([][]int{{1, 1}, {2, 1}, {1, 2, 1}}, [][]int64{{1, 10}, {2, 20}, {3, 30}}, nil)                   // direct + indirect recursion
	build([][]int{{2, 2, 1}, {5, 2, 5, 1}, {3, 2}}, [][]int64{{1, 7}, {2, 9}, {4, 11}}, nil)                 // inlined frames repeated
	build([][]int{{4, 1}, {}, {4}, {3, 4, 1}}, [][]int64{{1, 5}, {1, 6}, {2, 7}, {1, 8}}, nil)               // unsymbolized, empty stack
	build([][]int{{3, 2, 1}, {3, 2, 1}, {3, 1}}, [][]int64{{1, 50}, {1, -50}, {1, 4}}, nil)                  // cancelling values
	build([][]int{{6, 1}, {2, 1}, {6, 2, 1}}, [][]int64{{1, 3}, {2, 4}, {0, 0}}, nil)                        // same name, two start lines; a (0,0) sample
	build([][]int{{3, 2, 1}, {2, 1}, {1}}, [][]int64{{0, 9}, {3, 0}, {4, 100}}, nil)                         // zero divisor / zero value with mean
	build([][]int{{3, 2, 1}, {3, 1}}, [][]int64{{1, 40}, {2, 60}}, []map[string][]string{{"pprof::base": {"true"}}, nil}) // diff base total
	build([][]int{{3, 2, 1}, {3, 1}, {2}}, [][]int64{{1, 40}, {2, 60}, {1, 5}},
		[]map[string][]string{{"k": {"v1"}, "key": {"x", "y"}}, {"k": {"v2"}}, nil}) // tagroot / tagleaf material
	return out
}

// c04CancelShapes: stacks (leaf first) whose values cancel exactly on one entry but not on another.
func c04CancelShapes() []*profile.Profile {
	var out []*profile.Profile
	mk := func(stacks [][]int, vals [][]int64) {
		names := []string{"main", "F", "G", "H"}
		p := &profile.Profile{SampleType: []*profile.ValueType{{Type: "samples", Unit: "count"}, {Type: "cpu", Unit: "count"}}}
		m := &profile.Mapping{ID: 1, Start: 0x1000, Limit: 0x9000, File: "bin/prog", HasFunctions: true}
		p.Mapping = []*profile.Mapping{m}
		for i, nm := range names {
			p.Function = append(p.Function, &profile.Function{ID: uint64(i + 1), Name: nm, SystemName: nm, Filename: nm + ".go", StartLine: int64(i)})
		}
		for i := range names {
			p.Location = append(p.Location, &profile.Location{ID: uint64(i + 1), Mapping: m, Address: uint64(0x1000 + 16*i),
				Line: []profile.Line{{Function: p.Function[i], Line: int64(10 * (i + 1))}}})
		}
		// location 5: G inlined into F
		p.Location = append(p.Location, &profile.Location{ID: 5, Mapping: m, Address: 0x1100,
			Line: []profile.Line{{Function: p.Function[2], Line: 31}, {Function: p.Function[1], Line: 21}}})
		for i, st := range stacks {
			s := &profile.Sample{Value: vals[i]}
			for _, li := range st {
				s.Location = append(s.Location, p.Location[li])
			}
			p.Sample = append(p.Sample, s)
		}
		out = append(out, p)
	}
	// 0 main, 1 F, 2 G, 3 H, 4 [G inlined in F]
	mk([][]int{{1, 0}, {2, 1, 0}, {3, 0}}, [][]int64{{1, 7}, {1, -7}, {1, 3}})                // F: cum 0, flat 7
	mk([][]int{{2, 1, 0}, {2, 1, 0}, {3, 0}}, [][]int64{{1, 5}, {1, -5}, {1, 4}})             // F and G: both 0
	mk([][]int{{1, 0}, {2, 1, 0}, {3, 0}}, [][]int64{{2, 7}, {-2, -7}, {1, 3}})               // the divisors cancel too
	mk([][]int{{1, 2, 1, 0}, {2, 1, 0}, {0}}, [][]int64{{1, 4}, {1, -4}, {1, 1}})             // recursion: F cum 0 flat 4, G cum 0 flat -4
	mk([][]int{{1, 0}, {1, 0}, {0}}, [][]int64{{1, 6}, {1, -6}, {1, 1}})                      // a leaf that vanishes with its edge
	mk([][]int{{4, 0}, {1, 0}, {2, 4, 0}}, [][]int64{{1, 2}, {1, -2}, {1, 9}})                // inlined pair against the plain location
	mk([][]int{{1, 0}, {2, 1, 0}, {3, 2, 1, 0}}, [][]int64{{1, 7}, {1, -7}, {1, 0}})          // a (…,0) sample on top
	return out
}

// c04TagFamily: one stack work <- main, samples that differ only in their labels under the keys the
// tag options name.
func c04TagFamily() *profile.Profile {
	p := &profile.Profile{SampleType: []*profile.ValueType{{Type: "samples", Unit: "count"}, {Type: "cpu", Unit: "count"}}}
	m := &profile.Mapping{ID: 1, Start: 0x1000, Limit: 0x9000, File: "bin/prog", HasFunctions: true}
	p.Mapping = []*profile.Mapping{m}
	fm := &profile.Function{ID: 1, Name: "main", SystemName: "main", Filename: "main.go"}
	fw := &profile.Function{ID: 2, Name: "work", SystemName: "work", Filename: "work.go"}
	p.Function = []*profile.Function{fm, fw}
	lm := &profile.Location{ID: 1, Mapping: m, Address: 0x1010, Line: []profile.Line{{Function: fm, Line: 10}}}
	lw := &profile.Location{ID: 2, Mapping: m, Address: 0x1020, Line: []profile.Line{{Function: fw, Line: 20}}}
	p.Location = []*profile.Location{lm, lw}
	add := func(v int64, lab map[string][]string, num map[string][]int64, unit map[string][]string) {
		p.Sample = append(p.Sample, &profile.Sample{Value: []int64{1, v}, Location: []*profile.Location{lw, lm}, Label: lab, NumLabel: num, NumUnit: unit})
	}
	add(7, map[string][]string{"req": {"a"}}, map[string][]int64{"req": {10}}, nil)          // string AND numeric under one key
	add(3, map[string][]string{"req": {"a"}}, map[string][]int64{"req": {20}}, nil)          // same string, other number
	add(2, map[string][]string{"req": {"a"}}, nil, nil)                                      // string only
	add(5, nil, map[string][]int64{"req": {10}}, nil)                                        // numeric only
	add(1, map[string][]string{"other": {"z"}}, nil, nil)                                    // key absent: empty frame name
	add(4, map[string][]string{"req": {"a", "b"}}, map[string][]int64{"req": {0, -3}}, map[string][]string{"req": {"bytes", "bytes"}}) // multi-valued, units, zero, negative
	add(6, map[string][]string{"other": {"z"}}, map[string][]int64{"req": {2048}, "sz": {1 << 40}}, map[string][]string{"req": {"bytes"}, "sz": {"bytes"}})
	add(8, map[string][]string{"sz": {"big"}}, map[string][]int64{"sz": {-1, 1 << 40}}, nil) // huge and negative, no units
	add(-9, map[string][]string{"req": {"a"}}, map[string][]int64{"req": {10}}, nil)         // a negative value on the first frame again
	return p
}

// c04RareShapes: valid profiles of unusual shape.
func c04RareShapes() []*profile.Profile {
	var out []*profile.Profile
	st := func() []*profile.ValueType {
		return []*profile.ValueType{{Type: "samples", Unit: "count"}, {Type: "cpu", Unit: "count"}}
	}
	m := &profile.Mapping{ID: 7, Start: 0x1000, Limit: 0x9000, File: "bin/prog", HasFunctions: true}
	fn := func(id uint64, name, file string) *profile.Function {
		return &profile.Function{ID: id, Name: name, SystemName: name, Filename: file, StartLine: int64(id % 5)}
	}
	// (a) no samples at all; (b) only all-zero samples
	fa := fn(1, "main", "main.go")
	la := &profile.Location{ID: 1, Mapping: m, Address: 0x1010, Line: []profile.Line{{Function: fa, Line: 3}}}
	out = append(out, &profile.Profile{SampleType: st(), Mapping: []*profile.Mapping{m}, Function: []*profile.Function{fa}, Location: []*profile.Location{la}})
	out = append(out, &profile.Profile{SampleType: st(), Mapping: []*profile.Mapping{m}, Function: []*profile.Function{fa}, Location: []*profile.Location{la},
		Sample: []*profile.Sample{{Value: []int64{0, 0}, Location: []*profile.Location{la}}, {Value: []int64{0, 0}, Location: []*profile.Location{la, la}}}})
	// (c) functions without a name, with and without a file; locations without mapping / without lines;
	// id gaps and huge ids; the mapping-less location FOLLOWS a mapped one and vice versa
	f0 := fn(1<<40, "", "anon.go")
	f1 := fn(3, "", "")
	f2 := fn(1<<63+9, "named", "")
	f3 := fn(1000003, "main", "main.go")
	mm := &profile.Mapping{ID: 1 << 33, Start: 0x400000, Limit: 0x500000, File: "lib/libx.so", HasFunctions: true}
	l0 := &profile.Location{ID: 5, Mapping: mm, Address: 0x400100, Line: []profile.Line{{Function: f0, Line: 1}}}
	l1 := &profile.Location{ID: 1 << 62, Address: 0x77, Line: []profile.Line{{Function: f1, Line: 2}}}
	l2 := &profile.Location{ID: 9, Mapping: mm, Address: 0x400200, Line: []profile.Line{{Function: f2, Line: 0}, {Function: f1, Line: 4}}}
	l3 := &profile.Location{ID: 10, Address: 0x88}
	l4 := &profile.Location{ID: 1<<63 + 1, Mapping: mm, Address: 0x400300}
	l5 := &profile.Location{ID: 12, Address: 0, Line: []profile.Line{{Function: f3, Line: 7}}}
	pc := &profile.Profile{SampleType: st(), Mapping: []*profile.Mapping{mm}, Function: []*profile.Function{f0, f1, f2, f3},
		Location: []*profile.Location{l0, l1, l2, l3, l4, l5}}
	addc := func(v int64, ls ...*profile.Location) {
		pc.Sample = append(pc.Sample, &profile.Sample{Value: []int64{1, v}, Location: ls})
	}
	addc(5, l0, l5)
	addc(3, l1, l0, l5)
	addc(2, l3, l4, l5)
	addc(7, l4, l3, l2, l5)
	addc(1, l2, l1, l5)
	addc(4, l3)
	addc(-6, l1, l5)
	out = append(out, pc)
	// (d) one location at every depth of every stack
	pd := &profile.Profile{SampleType: st(), Mapping: []*profile.Mapping{m}, Function: []*profile.Function{fa}, Location: []*profile.Location{la},
		Sample: []*profile.Sample{{Value: []int64{1, 5}, Location: []*profile.Location{la, la, la}}, {Value: []int64{1, 2}, Location: []*profile.Location{la}}}}
	out = append(out, pd)
	return out
}

func c04RandomOpts(r *Rng, p *profile.Profile, format string) c04Opts {
	o := c04Opts{Format: format}
	o.Gran = PickS(r, c04Grans)
	o.NoInlines = r.P(1, 3)
	o.ShowColumns = r.P(1, 4)
	o.Mean = r.P(1, 3)
	o.CallTree = r.P(1, 3)
	o.DropNeg = r.P(1, 6)
	o.CumSort = r.P(1, 3)
	n := len(p.SampleType)
	switch r.Intn(6) {
	case 0:
	case 1:
		o.SampleIndex = strconv.Itoa(r.Intn(n + 1)) // n itself is out of range
	case 2:
		if n > 0 {
			o.SampleIndex = p.SampleType[r.Intn(n)].Type
		}
	case 3:
		if n > 0 {
			o.SampleIndex = "inuse_" + p.SampleType[r.Intn(n)].Type
		}
	case 4:
		o.SampleIndex = PickS(r, []string{"nosuch", "-1", "+0", "007", "1e0", " 1"})
	case 5:
		o.SampleIndex = strconv.Itoa(r.Intn(n + 1))
	}
	if r.P(1, 5) {
		o.TagRoot = PickS(r, []string{"k", "key", "k,key", "a", "bytes", "nosuch", ",k,"})
	}
	if r.P(1, 6) {
		o.TagLeaf = PickS(r, []string{"k", "key", "key,k", "b", "request"})
	}
	return o
}

func c04Nontrivial(p *profile.Profile) bool {
	for _, s := range p.Sample {
		seen := map[uint64]bool{}
		for _, l := range s.Location {
			if seen[l.ID] || len(l.Line) > 1 {
				return true
			}
			seen[l.ID] = true
		}
	}
	return false
}

func runC04(c *Ctx) {
	r := c.R
	forms := []struct {
		form, format string
		text         bool
	}{
		{"graph", "text", false}, {"graph", "dot", false}, {"graph", "callgrind", false},
		{"items", "text", false}, {"top", "text", true}, {"tree", "tree", true}, {"dot", "dot", true},
		{"callgrind", "callgrind", true}, {"traces", "traces", true},
	}
	emit := func(gen string, p *profile.Profile, o c04Opts, form string) {
		in := L(DumpProfile(p), o.term(), S(form), fmtTable(p, o))
		obs := c04Observe(p, o, form)
		via := o.Via
		if via == "" {
			via = "cli"
		}
		c.Case(gen, in, obs, c04Nontrivial(p), "form:"+form, "via:"+via, "gran:"+o.Gran, fmt.Sprintf("mean:%v", o.Mean),
			fmt.Sprintf("calltree:%v", o.CallTree), fmt.Sprintf("tag:%v", o.TagRoot != "" || o.TagLeaf != ""))
	}
	// shapes x every granularity x noinlines x mean x every form
	shapes := c04Shapes()
	for si, p := range shapes {
		p = p.Copy()
		for _, gr := range c04Grans {
			for _, f := range forms {
				if c.Tier != "thorough" && !r.P(1, 3) {
					continue
				}
				o := c04Opts{Format: f.format, Gran: gr, NoInlines: r.Bool(), Mean: r.Bool(), CallTree: r.Bool(), ShowColumns: r.P(1, 3), CumSort: r.P(1, 3)}
				if si == 7 {
					o.TagRoot, o.TagLeaf = PickS(r, []string{"k", "k,key", ""}), PickS(r, []string{"key", "", "k"})
				}
				o.SampleIndex = PickS(r, []string{"", "0", "1", "cpu", "samples"})
				emit("shape", p, o, f.form)
			}
		}
	}
	// the ORDER of tag keys matters (the first tagroot key becomes the new root, the last tagleaf key
	// the new leaf): keys given in non-alphabetical order (deterministic)
	{
		p7 := shapes[7].Copy()
		for _, f := range []struct{ form, format string }{{"graph", "text"}, {"top", "text"}, {"tree", "tree"}, {"traces", "traces"}} {
			for _, ks := range [][2]string{{"key,k", ""}, {"", "key,k"}, {"key,k", "k,key"}} {
				emit("tag-order", p7, c04Opts{Format: f.format, TagRoot: ks[0], TagLeaf: ks[1], SampleIndex: "1"}, f.form)
			}
		}
	}
	// label pseudo frames (formatLabelValues / addLabelNodes): a key carrying BOTH string and numeric
	// values on one sample, numeric-only and string-only samples, multi-valued labels, units, zero /
	// negative / huge numeric values, samples without the key (empty frame name), repeated and
	// unknown keys, the same key as root and leaf (deterministic)
	{
		pt := c04TagFamily().Copy()
		tagForms := []struct{ form, format string }{{"graph", "text"}, {"top", "text"}, {"tree", "tree"}, {"traces", "traces"}, {"dot", "dot"}, {"callgrind", "callgrind"}}
		keysets := [][2]string{{"req", ""}, {"", "req"}, {"req", "req"}, {"sz", "req"}, {"req,sz", ""}, {"", "sz,req"}, {"req,req", ""},
			{",req,", "nosuch"}, {"other,req", "sz"}, {"nosuch", ""}}
		for ki, ks := range keysets {
			for fi, f := range tagForms {
				if c.Tier != "thorough" && ki >= 3 && (ki+fi)%3 != 0 {
					continue // the first three key sets go through every form, the others through a third
				}
				o := c04Opts{Format: f.format, TagRoot: ks[0], TagLeaf: ks[1], Gran: []string{"", "lines", "files", "functions"}[(ki+fi)%4]}
				if (ki+fi)%5 == 1 && f.form != "graph" {
					o.Via = "session"
				}
				o.CallTree = (ki+fi)%4 == 2
				emit("tag-family", pt, o, f.form)
			}
		}
	}
	// rare but valid profile shapes: no samples at all, only all-zero samples, functions without a
	// name (with and without a file), locations without mapping and without lines, id gaps and huge
	// ids, one location used at every depth (deterministic)
	for _, p := range c04RareShapes() {
		p = p.Copy()
		for gi, gr := range c04Grans {
			for fi, f := range forms {
				if c.Tier != "thorough" && (gi+fi)%3 != 0 {
					continue
				}
				emit("rare-shape", p, c04Opts{Format: f.format, Gran: gr, CallTree: (gi+fi)%2 == 0, NoInlines: gi%2 == 1}, f.form)
			}
		}
	}
	// exact cancellations: cum 0 with flat != 0, flat 0 with cum != 0, both 0 (an entry is hidden only
	// when BOTH are 0), through newGraph and newTree, every form
	for _, p := range c04CancelShapes() {
		p = p.Copy()
		for _, gr := range c04Grans {
			for _, f := range forms {
				if c.Tier != "thorough" && !r.P(1, 3) {
					continue
				}
				o := c04Opts{Format: f.format, Gran: gr, NoInlines: r.P(1, 3), Mean: r.P(1, 3), CallTree: r.Bool(), CumSort: r.P(1, 3), DropNeg: r.P(1, 6)}
				o.SampleIndex = PickS(r, []string{"", "1", "cpu"})
				emit("cancel-shape", p, o, f.form)
			}
		}
	}
	// random stacks whose values come from a tiny signed set, so that sums cancel exactly all the time
	for k := 0; k < c.Budget(30, 600); k++ {
		kn := c04Knobs(r)
		kn.Extreme, kn.EmptyStacks = false, false
		kn.MaxSamples, kn.MaxLocs, kn.MaxFuncs = 6, 4, 3
		p := GenProfile(r, kn)
		c04FixUnits(p)
		c04MakeTextable(r, p)
		for _, s := range p.Sample {
			for i := range s.Value {
				s.Value[i] = PickI(r, []int64{1, -1, 2, -2, 3, -3, 1, -1})
			}
		}
		p = p.Copy()
		for j := 0; j < 8; j++ {
			f := forms[r.Intn(len(forms))]
			o := c04RandomOpts(r, p, f.format)
			o.TagRoot, o.TagLeaf = "", ""
			emit("cancel-random", p, o, f.form)
		}
	}
	// random profiles x sampled option combinations x forms
	nprof := c.Budget(70, 2000)
	for k := 0; k < nprof; k++ {
		kn := c04Knobs(r)
		textable := r.P(2, 3)
		if textable {
			kn.Extreme = false
		}
		p := GenProfile(r, kn)
		c04FixUnits(p)
		if textable {
			c04MakeTextable(r, p)
		}
		p = p.Copy() // what is dumped is what every report copy starts from (C01 normalisation applied once)
		ncomb := 12
		for j := 0; j < ncomb; j++ {
			f := forms[r.Intn(len(forms))]
			if f.text && !textable {
				f = forms[r.Intn(4)]
			}
			emit("random", p, c04RandomOpts(r, p, f.format), f.form)
		}
	}
	// ---- end-to-end layer: the options the DRIVER interprets, through every entry point ----
	c04GlueStreams(c, emit)
	// a profile without sample types
	p0 := GenProfile(r, c04Knobs(r))
	c04FixUnits(p0)
	p0.SampleType = nil
	for _, s := range p0.Sample {
		s.Value = nil
	}
	p0 = p0.Copy()
	emit("no-sample-types", p0, c04Opts{Format: "text"}, "items")
}

// ---------------------------------------------------------------------------------------------

func c04Probe(args []string) {
	ps := c04Shapes()
	idx := 0
	if len(args) > 0 {
		idx, _ = strconv.Atoi(args[0])
		args = args[1:]
	}
	for _, f := range []string{"text", "tree", "dot", "callgrind", "traces"} {
		o := c04Opts{Format: f}
		for i := 0; i+1 < len(args); i += 2 {
			switch args[i] {
			case "granularity":
				o.Gran = args[i+1]
			case "mean":
				o.Mean = true
			case "call_tree":
				o.CallTree = true
			case "tagroot":
				o.TagRoot = args[i+1]
			case "nodecount":
				o.NodeCount, _ = strconv.Atoi(args[i+1])
			}
		}
		rpt, err := o.newReport(ps[idx])
		if err != nil {
			fmt.Println("ERR", err)
			continue
		}
		fmt.Printf("=== %s\n%s\n", f, c04Generate(rpt))
	}
}

// ---------------------------------------------------------------------------------------------
// end-to-end layer: glue options

// c04Big: n stacks main > midNNN > leafNNN (2n+1 entries): more entries than the default node limit
// of graph-style commands, so "explicitly untrimmed" and "limit not given" differ.
func c04Big(n int) *profile.Profile {
	p := &profile.Profile{SampleType: []*profile.ValueType{{Type: "cpu", Unit: "count"}}}
	m := &profile.Mapping{ID: 1, Start: 0x1000, Limit: 0x90000, File: "bin/prog", HasFunctions: true}
	p.Mapping = []*profile.Mapping{m}
	loc := func(name string) *profile.Location {
		id := uint64(len(p.Function) + 1)
		f := &profile.Function{ID: id, Name: name, SystemName: name, Filename: name + ".go"}
		p.Function = append(p.Function, f)
		l := &profile.Location{ID: id, Mapping: m, Address: 0x1000 + 16*id, Line: []profile.Line{{Function: f, Line: int64(id)}}}
		p.Location = append(p.Location, l)
		return l
	}
	lm := loc("main")
	for i := 0; i < n; i++ {
		mid, leaf := loc(fmt.Sprintf("mid%03d", i)), loc(fmt.Sprintf("leaf%03d", i))
		p.Sample = append(p.Sample, &profile.Sample{Value: []int64{int64(1000 + i)}, Location: []*profile.Location{leaf, mid, lm}})
	}
	return p
}

// c04LegacyProfile: sample types the legacy flags of parseFlags select by name.
func c04LegacyProfile(r *Rng, heap bool) *profile.Profile {
	p := c04Shapes()[r.Intn(4)]
	types := []string{"contentions", "delay"}
	if heap {
		types = []string{"alloc_objects", "alloc_space", "inuse_objects", "inuse_space"}
	}
	p.SampleType = nil
	for _, t := range types {
		p.SampleType = append(p.SampleType, &profile.ValueType{Type: t, Unit: "count"})
	}
	for _, s := range p.Sample {
		s.Value = nil
		for range types {
			s.Value = append(s.Value, int64(r.Intn(50))-10)
		}
	}
	return p
}

func c04GlueStreams(c *Ctx, emit func(gen string, p *profile.Profile, o c04Opts, form string)) {
	r := c.R
	textForms := []struct{ form, format string }{{"top", "text"}, {"tree", "tree"}, {"dot", "dot"}, {"callgrind", "callgrind"}, {"traces", "traces"}}
	// (1) more entries than the default limit: explicit nodecount=0 is untrimmed for every command; a
	// limit that was not given means 80 for tree/dot and none for top (deterministic part)
	// (evaluating an 83-entry report inside Coq takes seconds: the cases are spread over the stream
	// below so that they land in different shards)
	var bigCases []func()
	{
		p := c04Big(41).Copy()
		for _, f := range []struct{ form, format string }{{"tree", "tree"}, {"dot", "dot"}, {"top", "text"}} {
			f := f
			bigCases = append(bigCases, func() { emit("big", p, c04Opts{Format: f.format, NodeCount: 0}, f.form) })
		}
		bigCases = append(bigCases,
			func() { emit("big", p, c04Opts{Format: "text", NodeCount: -1}, "top") },
			func() { emit("big", p, c04Opts{Format: "tree", NodeCount: 5, NoTrim: true}, "tree") },
			func() { emit("big", p, c04Opts{Format: "tree", NodeCount: 0, Via: "session"}, "tree") },
			func() { emit("big", p, c04Opts{Format: "tree", NodeCount: 5, Via: "session", HasArg: true, Arg: 0}, "tree") },
			func() { emit("big", p, c04Opts{Format: "text", NodeCount: 7, NodeFrac: 0, Via: "web"}, "webtop") })
	}
	// (2) option combinations through the three entry points; everything stays untrimmed BY REQUEST
	pool := append(c04Shapes(), c04CancelShapes()...)
	for k := 0; k < c.Budget(130, 3000); k++ {
		if k%16 == 0 && k/16 < len(bigCases) {
			bigCases[k/16]()
		}
		p := pool[r.Intn(len(pool))].Copy()
		f := textForms[r.Intn(len(textForms))]
		o := c04RandomOpts(r, p, f.format)
		o.Via = PickS(r, []string{"cli", "cli", "session", "web"})
		form := f.form
		if o.Via == "web" {
			o.Format, form = "text", "webtop"
			o.TagRoot, o.TagLeaf = "", ""
		}
		switch r.Intn(5) {
		case 0:
			o.NodeCount = -1 // not given: 0 for top, 80 for the others (more than these profiles have)
			if o.Via == "session" && f.format == "text" {
				o.NodeCount = 0 // an interactive top/text without a count shows 10 entries: C05's stream
			}
		case 1:
			o.NodeCount = 200
		case 2: // trim=false switches every limit off, whatever the other options say
			o.NoTrim, o.NodeCount, o.NodeFrac, o.EdgeFrac = true, 1+r.Intn(2), 0.5, 0.5
		case 3:
			if o.Via == "session" { // the command's own argument replaces the session's node count
				o.HasArg, o.Arg, o.NodeCount = true, c04PickInt(r, []int{0, 150}), 1
			}
		}
		if f.format == "text" {
			o.CmdText = r.Bool()
		}
		if o.Via == "session" {
			o.Pre = []string{"nodefraction=0.9", "edgefraction=0.9", "sample_index=nosuch_zz", "top ((", "top 1 >decoy"}
			if o.NodeCount != -1 {
				o.Pre = append(o.Pre, "nodecount=1")
			}
		}
		emit("glue", p, o, form)
	}
	// (3) legacy sample-index flags of the command line
	legacyHeap := []string{"inuse_space", "inuse_objects", "alloc_space", "alloc_objects"}
	legacyCont := []string{"total_delay", "mean_delay", "contentions"}
	for k := 0; k < c.Budget(40, 600); k++ {
		heap := r.Bool()
		p := c04LegacyProfile(r, heap).Copy()
		flags := legacyCont
		if heap {
			flags = legacyHeap
		}
		f := textForms[r.Intn(3)]
		o := c04Opts{Format: f.format, Gran: PickS(r, c04Grans), Mean: r.P(1, 4)}
		o.Legacy = []string{PickS(r, flags)}
		if r.P(1, 3) {
			o.Legacy = append(o.Legacy, PickS(r, flags))
		}
		if r.P(1, 4) {
			o.SampleIndex = PickS(r, []string{"0", "1", p.SampleType[0].Type})
		}
		o.Via = PickS(r, []string{"cli", "web", "session"})
		form := f.form
		if o.Via == "web" {
			o.Format, form = "text", "webtop"
		}
		emit("legacy", p, o, form)
	}
}

func c04PickInt(r *Rng, l []int) int { return l[r.Intn(len(l))] }
