//go:build verif

package main

import (
	"sort"

	"github.com/google/pprof/profile"
)

// DumpProfile renders a profile in the layout of coq/M_Profile.v (profile_of / of_profile).
// Pointers are dumped as ids (nil = 0); maps are dumped sorted by key.
func DumpProfile(p *profile.Profile) Term {
	var sts, ss, ms, ls, fs []Term
	for _, st := range p.SampleType {
		sts = append(sts, dumpVT(st))
	}
	for _, s := range p.Sample {
		ss = append(ss, DumpSample(s))
	}
	for _, m := range p.Mapping {
		ms = append(ms, L(ZU(m.ID), ZU(m.Start), ZU(m.Limit), ZU(m.Offset), S(m.File), S(m.BuildID),
			Bool(m.HasFunctions), Bool(m.HasFilenames), Bool(m.HasLineNumbers), Bool(m.HasInlineFrames)))
	}
	for _, l := range p.Location {
		ls = append(ls, DumpLocation(l))
	}
	for _, f := range p.Function {
		fs = append(fs, L(ZU(f.ID), S(f.Name), S(f.SystemName), S(f.Filename), Z(f.StartLine)))
	}
	pt := L()
	if p.PeriodType != nil {
		pt = L(dumpVT(p.PeriodType))
	}
	return L(L(sts...), S(p.DefaultSampleType), L(ss...), L(ms...), L(ls...), L(fs...), Ss(p.Comments),
		S(p.DocURL), S(p.DropFrames), S(p.KeepFrames), Z(p.TimeNanos), Z(p.DurationNanos), pt, Z(p.Period))
}

func dumpVT(v *profile.ValueType) Term {
	if v == nil {
		return L(S("<nil>"), S("<nil>"))
	}
	return L(S(v.Type), S(v.Unit))
}

func DumpLocation(l *profile.Location) Term {
	var lines []Term
	for _, ln := range l.Line {
		var fid uint64
		if ln.Function != nil {
			fid = ln.Function.ID
		}
		lines = append(lines, L(ZU(fid), Z(ln.Line), Z(ln.Column)))
	}
	var mid uint64
	if l.Mapping != nil {
		mid = l.Mapping.ID
	}
	return L(ZU(l.ID), ZU(mid), ZU(l.Address), L(lines...), Bool(l.IsFolded))
}

func DumpSample(s *profile.Sample) Term {
	var locs []Term
	for _, l := range s.Location {
		if l == nil {
			locs = append(locs, Z(-1)) // nil pointer (only in unchecked ParseUncompressed results)
		} else {
			locs = append(locs, ZU(l.ID))
		}
	}
	var lab, nl, nu []Term
	for _, k := range sortedKeysS(s.Label) {
		lab = append(lab, L(S(k), Ss(s.Label[k])))
	}
	for _, k := range sortedKeysI(s.NumLabel) {
		nl = append(nl, L(S(k), Zs(s.NumLabel[k])))
	}
	for _, k := range sortedKeysS(s.NumUnit) {
		nu = append(nu, L(S(k), Ss(s.NumUnit[k])))
	}
	return L(L(locs...), Zs(s.Value), L(lab...), L(nl...), L(nu...))
}

func sortedKeysS(m map[string][]string) []string {
	var ks []string
	for k := range m {
		ks = append(ks, k)
	}
	sort.Strings(ks)
	return ks
}
func sortedKeysI(m map[string][]int64) []string {
	var ks []string
	for k := range m {
		ks = append(ks, k)
	}
	sort.Strings(ks)
	return ks
}

// ---------------------------------------------------------------------------------------------
// Profile generator shared by most properties.  Every choice derives from the one Rng.

type Knobs struct {
	MaxSampleTypes int  // 0..k sample types (at least MinSampleTypes)
	MinSampleTypes int
	MaxSamples     int
	MaxLocs        int
	MaxFuncs       int
	MaxMappings    int
	MaxLines       int  // inline lines per location
	MaxDepth       int  // stack depth
	SparseIDs      bool // ids may be sparse / huge
	Labels         bool
	NumLabels      bool
	Extreme        bool // extreme int64 values
	Negative       bool
	Meta           bool // strings may contain metacharacters / non-UTF8
	Recursion      bool
	EmptyStacks    bool
	Unsymbolized   bool // locations without lines
	NoMapping      bool // locations without mapping
	Header         bool // comments, drop/keep frames, times, period type
	Names          []string
	Files          []string
}

func DefaultKnobs() Knobs {
	return Knobs{MaxSampleTypes: 3, MinSampleTypes: 1, MaxSamples: 6, MaxLocs: 6, MaxFuncs: 5, MaxMappings: 3,
		MaxLines: 3, MaxDepth: 5, SparseIDs: true, Labels: true, NumLabels: true, Extreme: true, Negative: true,
		Meta: false, Recursion: true, EmptyStacks: true, Unsymbolized: true, NoMapping: true, Header: true}
}

var plainNames = []string{"main", "foo", "bar", "baz", "runtime.mallocgc", "a.b.c", "f", "g", "h"}
var metaNames = []string{"a\"b", "a\\b", "x\ny", "<tpl>", "a b", "", "\xff\xfe", "日本", "op()", "(anonymous namespace)::f", "a,b", "k=v", "file:1", "100%"}
var plainFiles = []string{"main.go", "foo.c", "dir/bar.cc", "", "a.go"}
var unitPool = []string{"count", "nanoseconds", "bytes", "ms", "", "objects"}
var typePool = []string{"samples", "cpu", "alloc_space", "inuse_objects", "wall", "contentions"}

func (k Knobs) name(r *Rng) string {
	if len(k.Names) > 0 {
		return PickS(r, k.Names)
	}
	if k.Meta && r.P(1, 3) {
		return PickS(r, metaNames)
	}
	return PickS(r, plainNames)
}
func (k Knobs) file(r *Rng) string {
	if len(k.Files) > 0 {
		return PickS(r, k.Files)
	}
	if k.Meta && r.P(1, 4) {
		return PickS(r, metaNames)
	}
	return PickS(r, plainFiles)
}

func (k Knobs) id(r *Rng, i int) uint64 {
	if !k.SparseIDs {
		return uint64(i + 1)
	}
	switch r.Intn(6) {
	case 0:
		return uint64(i+1) * 1000003
	case 1:
		return 1<<63 + uint64(i) + 5
	case 2:
		return 1<<32 + uint64(i)
	default:
		return uint64(i + 1)
	}
}

func (k Knobs) value(r *Rng) int64 {
	if k.Extreme && r.P(1, 8) {
		return PickI(r, []int64{0, 1, -1, 1 << 31, -(1 << 31), 1 << 53, 1<<63 - 1, -(1 << 63), 1<<63 - 2})
	}
	v := int64(r.Intn(200))
	if r.P(1, 6) {
		v = 0
	}
	if k.Negative && r.P(1, 4) {
		v = -v
	}
	return v
}

// GenProfile builds a valid in-memory profile.
func GenProfile(r *Rng, k Knobs) *profile.Profile {
	p := &profile.Profile{}
	nst := k.MinSampleTypes
	if k.MaxSampleTypes > k.MinSampleTypes {
		nst += r.Intn(k.MaxSampleTypes - k.MinSampleTypes + 1)
	}
	for i := 0; i < nst; i++ {
		p.SampleType = append(p.SampleType, &profile.ValueType{Type: PickS(r, typePool), Unit: PickS(r, unitPool)})
	}
	if k.Header {
		if r.Bool() {
			p.PeriodType = &profile.ValueType{Type: PickS(r, typePool), Unit: PickS(r, unitPool)}
		}
		p.Period = int64(r.Intn(1000))
		p.TimeNanos = int64(r.Intn(100000))
		p.DurationNanos = int64(r.Intn(100000))
		for i := r.Intn(3); i > 0; i-- {
			p.Comments = append(p.Comments, k.name(r))
		}
		if r.P(1, 4) {
			p.DropFrames = "foo|ba."
		}
		if r.P(1, 6) {
			p.KeepFrames = "bar"
		}
		if nst > 0 && r.P(1, 3) {
			p.DefaultSampleType = p.SampleType[r.Intn(nst)].Type
		}
		if r.P(1, 5) {
			p.DocURL = "http://x/" + k.name(r)
		}
	}
	nm := 0
	if k.MaxMappings > 0 {
		nm = r.Intn(k.MaxMappings + 1)
	}
	usedM := map[uint64]bool{}
	for i := 0; i < nm; i++ {
		id := k.id(r, i)
		for usedM[id] || id == 0 {
			id++
		}
		usedM[id] = true
		start := uint64(0x400000) + uint64(i)*0x100000
		m := &profile.Mapping{ID: id, Start: start, Limit: start + 0x10000 + uint64(r.Intn(4))*0x1000,
			Offset: uint64(r.Intn(3)) * 0x1000, File: k.file(r), BuildID: PickS(r, []string{"", "abc123", "ff", "0123456789abcdef"})}
		m.HasFunctions, m.HasFilenames, m.HasLineNumbers, m.HasInlineFrames = r.Bool(), r.Bool(), r.Bool(), r.Bool()
		p.Mapping = append(p.Mapping, m)
	}
	nf := 1 + r.Intn(max(1, k.MaxFuncs))
	usedF := map[uint64]bool{}
	for i := 0; i < nf; i++ {
		id := k.id(r, i)
		for usedF[id] || id == 0 {
			id++
		}
		usedF[id] = true
		p.Function = append(p.Function, &profile.Function{ID: id, Name: k.name(r), SystemName: k.name(r), Filename: k.file(r), StartLine: int64(r.Intn(50))})
	}
	nl := 1 + r.Intn(max(1, k.MaxLocs))
	usedL := map[uint64]bool{}
	for i := 0; i < nl; i++ {
		id := k.id(r, i)
		for usedL[id] || id == 0 {
			id++
		}
		usedL[id] = true
		l := &profile.Location{ID: id}
		if nm > 0 && !(k.NoMapping && r.P(1, 6)) {
			l.Mapping = p.Mapping[r.Intn(nm)]
			l.Address = l.Mapping.Start + uint64(r.Intn(0x1000))
		} else {
			l.Address = uint64(r.Intn(0x10000))
		}
		nln := 1 + r.Intn(max(1, k.MaxLines))
		if k.Unsymbolized && r.P(1, 6) {
			nln = 0
		}
		for j := 0; j < nln; j++ {
			l.Line = append(l.Line, profile.Line{Function: p.Function[r.Intn(nf)], Line: int64(r.Intn(100)), Column: int64(r.Intn(3))})
		}
		l.IsFolded = r.P(1, 8)
		p.Location = append(p.Location, l)
	}
	ns := r.Intn(k.MaxSamples + 1)
	if nst == 0 {
		ns = 0 // samples without sample types are invalid
	}
	labKeys := []string{"k", "key", "a", "b", "bytes", "request"}
	for i := 0; i < ns; i++ {
		s := &profile.Sample{}
		d := 1 + r.Intn(max(1, k.MaxDepth))
		if k.EmptyStacks && r.P(1, 10) {
			d = 0
		}
		for j := 0; j < d; j++ {
			l := p.Location[r.Intn(nl)]
			if !k.Recursion {
				dup := false
				for _, o := range s.Location {
					if o == l {
						dup = true
					}
				}
				if dup {
					continue
				}
			}
			s.Location = append(s.Location, l)
		}
		for j := 0; j < nst; j++ {
			s.Value = append(s.Value, k.value(r))
		}
		if k.Labels && r.P(1, 2) {
			s.Label = map[string][]string{}
			for j := r.Intn(3); j >= 0; j-- {
				key := PickS(r, labKeys)
				var vs []string
				for q := 1 + r.Intn(2); q > 0; q-- {
					vs = append(vs, k.name(r))
				}
				s.Label[key] = vs
			}
		}
		if k.NumLabels && r.P(1, 2) {
			s.NumLabel = map[string][]int64{}
			s.NumUnit = map[string][]string{}
			for j := r.Intn(2); j >= 0; j-- {
				key := PickS(r, labKeys)
				n := 1 + r.Intn(3)
				var vs []int64
				for q := 0; q < n; q++ {
					vs = append(vs, k.value(r))
				}
				s.NumLabel[key] = vs
				switch r.Intn(3) {
				case 0: // no units
					delete(s.NumUnit, key)
				case 1:
					us := make([]string, n)
					for q := range us {
						us[q] = PickS(r, []string{"bytes", "", "ms"})
					}
					s.NumUnit[key] = us
				case 2:
					s.NumUnit[key] = make([]string, n) // all empty
				}
			}
		}
		p.Sample = append(p.Sample, s)
	}
	return p
}

func max(a, b int) int {
	if a > b {
		return a
	}
	return b
}
