//go:build verif

package main

import (
	"bytes"
	"fmt"
	"os"
	"sort"
	"strings"

	"github.com/google/pprof/internal/graph"
	"github.com/google/pprof/internal/measurement"
	"github.com/google/pprof/internal/report"
	"github.com/google/pprof/profile"
)

func init() {
	registry["C18"] = runC18
}

// tPK is a string shipped as a list of primitive 63-bit integers (marker byte 1, then up to
// seven bytes); coq/U_C18Pack.v (PK) rebuilds it. Coq string literals are too slow for graph texts.
type tPK struct{ s string }

func (t tPK) coq(sb *strings.Builder) {
	sb.WriteString("TS (PK [")
	for i := 0; i < len(t.s); i += 7 {
		j := i + 7
		if j > len(t.s) {
			j = len(t.s)
		}
		v := uint64(1)
		for k := i; k < j; k++ {
			v = v<<8 | uint64(t.s[k])
		}
		if i > 0 {
			sb.WriteByte(';')
		}
		fmt.Fprintf(sb, "%d%%uint63", v)
	}
	sb.WriteString("])")
}

// PS ships short strings as literals (readable in evidence) and long ones packed.
func PS(s string) Term {
	if len(s) <= 12 {
		return S(s)
	}
	return tPK{s}
}
func PSs(l []string) Term {
	r := make([]Term, len(l))
	for i, s := range l {
		r[i] = PS(s)
	}
	return L(r...)
}

// ---------------------------------------------------------------------------------------------
// strings over an alphabet that contains the metacharacters of DOT, callgrind and HTML

var c18Pieces = []string{
	"\"", "\\", "\n", "<", ">", "&", "'", "\\n", "\\l", "\\\"", "::", ".", "[...]", "(", ")", " ", "->", "}", "{", "]", "[",
	";", "#", "/*", "*/", "=", ",", ":", "%", "\t", "\r", "\xc3\xa9", "\xe6\x97\xa5", "\xff", "</script>", "<script>", "\"><b>",
	"a", "b", "f", "main", "foo", "Bar", "x1", "_", "0", "7", "N1", "node", "digraph", "-", "+", "*", "/",
}
var c18Plain = []string{"a", "b", "f", "main", "foo", "Bar", "x1", "_", "0", "7", "pkg", "run", "T", "go"}

// c18NoNL: generate names without newline bytes (most callgrind cases: a newline in any name puts
// the whole case into the F20 class)
var c18NoNL bool

func c18Str(r *Rng, meta bool) string {
	n := 1 + r.Intn(4)
	var sb strings.Builder
	for i := 0; i < n; i++ {
		if meta && r.P(1, 2) {
			pc := PickS(r, c18Pieces)
			if c18NoNL && strings.Contains(pc, "\n") {
				pc = "\\"
			}
			sb.WriteString(pc)
		} else {
			sb.WriteString(PickS(r, c18Plain))
		}
	}
	return sb.String()
}

// a string that is dangerous in every position: ends in a backslash, holds a quote, a newline...
var c18Nasty = []string{"\\", "a\\", "\"", "a\"b", "\\\"", "x\ny", "\\n", "a\\nb\\", "\\\\", "\"\\", "a\"><script>alert(1)</script>", "'", "}", "] }", "\xff\"", "\\l\""}

func c18Name(r *Rng, meta bool) string {
	if c18LongMode && r.P(1, 2) {
		return c18LongStr(r, meta)
	}
	if meta && r.P(1, 4) {
		s := PickS(r, c18Nasty)
		if c18NoNL {
			s = strings.ReplaceAll(s, "\n", "\"")
		}
		return s
	}
	return c18Str(r, meta)
}

func c18File(r *Rng, meta bool) string {
	s := c18Str(r, meta)
	switch r.Intn(4) {
	case 0:
		return "dir/" + s + ".go"
	case 1:
		return "/abs/" + s + "/" + c18Str(r, meta) + ".c"
	case 2:
		return s
	}
	return s + ".cc"
}

// ---------------------------------------------------------------------------------------------
// dump of the graph ComposeDot is given, in the layout of coq/R_C18.v (dgraph_of)

func c18Info(i *graph.NodeInfo) Term {
	return L(PS(i.Name), PS(graph.ShortenFunctionName(i.Name)), ZU(i.Address), PS(i.File), ZI(i.Lineno), ZI(i.Columnno), PS(i.Objfile))
}

type c18Tabs struct {
	fv, pct map[int64]string
	c       *graph.DotConfig
}

func (t *c18Tabs) val(v int64) {
	if _, ok := t.fv[v]; !ok {
		t.fv[v] = t.c.FormatValue(v)
	}
}
func (t *c18Tabs) pc(v int64) {
	if _, ok := t.pct[v]; !ok {
		t.pct[v] = strings.TrimSpace(measurement.Percentage(v, t.c.Total))
	}
}
func c18Tab(m map[int64]string) Term {
	var ks []int64
	for k := range m {
		ks = append(ks, k)
	}
	sort.Slice(ks, func(i, j int) bool { return ks[i] < ks[j] })
	var l []Term
	for _, k := range ks {
		l = append(l, L(Z(k), PS(m[k])))
	}
	return L(l...)
}

func c18NumTags(tb *c18Tabs, nts []*graph.Tag, flatTags bool) Term {
	if nts == nil {
		return L()
	}
	cp := append([]*graph.Tag(nil), nts...)
	var l []Term
	for _, t := range graph.VerifCollapsedTags(tb.c, cp, graph.VerifMaxNodelets, flatTags) {
		tb.val(t.FlatValue())
		tb.val(t.CumValue())
		l = append(l, L(PS(t.Name), Z(t.FlatValue()), Z(t.CumValue())))
	}
	return L(L(l...))
}

// c18DumpDot mirrors the *selection* steps of ComposeDot (which tags, which order) by calling the
// same helpers, and leaves every byte of the emission to the model.
func c18DumpDot(g *graph.Graph, a *graph.DotAttributes, c *graph.DotConfig) Term {
	tb := &c18Tabs{fv: map[int64]string{}, pct: map[int64]string{}, c: c}
	idmap := map[*graph.Node]int{}
	for i, n := range g.Nodes {
		idmap[n] = i + 1
	}
	var nodes, edges []Term
	em := graph.EdgeMap{}
	for _, n := range g.Nodes {
		tb.val(n.FlatValue())
		tb.val(n.CumValue())
		tb.pc(n.FlatValue())
		tb.pc(n.CumValue())
		attrs := L()
		if at := a.Nodes[n]; at != nil {
			f := L()
			if at.Formatter != nil {
				f = L(PS(at.Formatter(&n.Info)))
			}
			attrs = L(L(f, S(at.Shape), Bool(at.Bold), ZI(at.Peripheries), PS(at.URL)))
		}
		var ts []*graph.Tag
		for _, t := range n.LabelTags {
			ts = append(ts, t)
		}
		lnts := map[string][]*graph.Tag{}
		for l, tm := range n.NumericTags {
			for _, t := range tm {
				lnts[l] = append(lnts[l], t)
			}
		}
		flatTags := len(n.Out) > 0
		graph.SortTags(ts, flatTags)
		if len(ts) > graph.VerifMaxNodelets {
			ts = ts[:graph.VerifMaxNodelets]
		}
		var tags []Term
		for _, t := range ts {
			tb.val(t.FlatValue())
			tb.val(t.CumValue())
			tags = append(tags, L(PS(t.Name), Z(t.FlatValue()), Z(t.CumValue()), c18NumTags(tb, lnts[t.Name], flatTags)))
		}
		nodes = append(nodes, L(c18Info(&n.Info), Z(n.FlatValue()), Z(n.CumValue()), attrs, L(tags...), c18NumTags(tb, lnts[""], flatTags), Bool(flatTags)))
		for _, e := range n.Out {
			em[&graph.Node{}] = e
		}
	}
	for _, e := range em.Sort() {
		tb.val(e.WeightValue())
		edges = append(edges, L(ZI(idmap[e.Src]), ZI(idmap[e.Dest]), c18Info(&e.Src.Info), c18Info(&e.Dest.Info), Z(e.WeightValue()), Bool(e.Inline), Bool(e.Residual)))
	}
	return L(PS(c.Title), PS(c.LegendURL), PSs(c.Labels), Z(c.Total), c18Tab(tb.fv), c18Tab(tb.pct), L(nodes...), L(edges...))
}

func c18Compose(g *graph.Graph, a *graph.DotAttributes, c *graph.DotConfig) (obs Term) {
	defer func() {
		if e := recover(); e != nil {
			obs = L(S("panic"), S(fmt.Sprint(e)))
		}
	}()
	var b bytes.Buffer
	graph.ComposeDot(&b, g, a, c)
	return PS(b.String())
}

// ---------------------------------------------------------------------------------------------
// synthetic graphs handed to ComposeDot directly (shapes graph.New can produce: edges only
// between nodes of the graph, symmetric In/Out)

func c18Weight(r *Rng) int64 {
	switch r.Intn(10) {
	case 0:
		return 0
	case 1:
		return -int64(r.Intn(300))
	case 2:
		return PickI(r, []int64{1 << 62, -(1 << 63), 1<<63 - 1, 1 << 53, -1})
	}
	return int64(r.Intn(1000))
}

func c18Tag(r *Rng, name string, numeric bool) *graph.Tag {
	t := &graph.Tag{Name: name, Flat: c18Weight(r), Cum: c18Weight(r)}
	if r.P(1, 2) {
		t.Cum = t.Flat
	}
	if r.P(1, 6) {
		t.FlatDiv, t.CumDiv = int64(1+r.Intn(3)), int64(1+r.Intn(3))
	}
	if numeric {
		t.Unit = PickS(r, []string{"bytes", "", "ms", "kb", "wombat"})
		t.Value = int64(r.Intn(1 << 20))
	}
	return t
}

func c18SynthGraph(r *Rng, meta bool, unitSafe bool) (*graph.Graph, *graph.DotAttributes, *graph.DotConfig) {
	n := r.Intn(5)
	if r.P(1, 10) {
		n = 0
	}
	g := &graph.Graph{}
	a := &graph.DotAttributes{Nodes: map[*graph.Node]*graph.DotNodeAttributes{}}
	for i := 0; i < n; i++ {
		nd := &graph.Node{In: graph.EdgeMap{}, Out: graph.EdgeMap{}, LabelTags: graph.TagMap{}, NumericTags: map[string]graph.TagMap{}}
		nd.Function = nd
		info := &nd.Info
		if !r.P(1, 8) {
			info.Name = c18Name(r, meta)
		}
		switch r.Intn(4) {
		case 0:
			info.File = c18File(r, meta)
			info.Lineno = r.Intn(90)
			if r.P(1, 3) {
				info.Columnno = r.Intn(9)
			}
		case 1:
			info.File = c18File(r, meta)
		case 2:
			if info.Name == "" || r.P(1, 2) {
				info.Objfile = "/bin/" + c18Name(r, meta)
			}
		}
		if r.P(1, 4) {
			info.Address = uint64(r.Intn(1<<20)) << uint(r.Intn(40))
		}
		nd.Flat, nd.Cum = c18Weight(r), c18Weight(r)
		if r.P(1, 3) {
			nd.Cum = nd.Flat
		}
		if r.P(1, 8) {
			nd.FlatDiv, nd.CumDiv = int64(1+r.Intn(4)), int64(1+r.Intn(4))
		}
		for k := r.Intn(7); k > 0 && r.P(2, 3); k-- {
			name := c18Name(r, meta)
			if r.P(1, 2) {
				name = c18Str(r, meta) + ":" + c18Name(r, meta) + "\\n" + c18Str(r, meta) + ":" + c18Name(r, meta)
			}
			nd.LabelTags[name] = c18Tag(r, name, false)
			if r.P(1, 3) {
				tm := graph.TagMap{}
				for q := r.Intn(7); q >= 0; q-- {
					t := c18Tag(r, "", true)
					t.Name = measurement.Label(t.Value, t.Unit)
					if meta && r.P(1, 3) {
						t.Name = c18Name(r, meta)
					}
					tm[t.Name] = t
				}
				nd.NumericTags[name] = tm
			}
		}
		if r.P(1, 3) {
			tm := graph.TagMap{}
			for q := r.Intn(7); q >= 0; q-- {
				t := c18Tag(r, "", true)
				t.Name = measurement.Label(t.Value, t.Unit)
				tm[t.Name] = t
			}
			nd.NumericTags[""] = tm
		}
		if r.P(1, 5) {
			at := &graph.DotNodeAttributes{Bold: r.Bool(), Peripheries: r.Intn(3)}
			if r.Bool() {
				at.Shape = PickS(r, []string{"ellipse", "box3d", "folder", "Mrecord"})
			}
			if r.Bool() {
				at.URL = "/ui/source?f=" + c18Str(r, false)
			}
			if r.P(1, 3) {
				lab := c18Str(r, false) + "\\n"
				at.Formatter = func(*graph.NodeInfo) string { return lab }
			}
			a.Nodes[nd] = at
		}
		g.Nodes = append(g.Nodes, nd)
	}
	for i := 0; i < n; i++ {
		for k := r.Intn(3); k > 0; k-- {
			src, dst := g.Nodes[i], g.Nodes[r.Intn(n)]
			if src.Out[dst] != nil {
				continue
			}
			e := &graph.Edge{Src: src, Dest: dst, Weight: c18Weight(r), Residual: r.P(1, 4), Inline: r.P(1, 4)}
			if r.P(1, 8) {
				e.WeightDiv = int64(1 + r.Intn(3))
			}
			src.Out[dst] = e
			dst.In[src] = e
		}
	}
	unit := PickS(r, []string{"", "ms", "B", "s", "MB", "objects"})
	if !unitSafe {
		unit = c18Name(r, true)
	}
	c := &graph.DotConfig{
		FormatValue: func(v int64) string { return fmt.Sprintf("%d%s", v, unit) },
		Total:       c18Weight(r),
	}
	if r.P(3, 4) {
		c.Title = c18Name(r, meta)
	}
	if r.P(1, 2) {
		c.LegendURL = "https://x.example/" + c18Name(r, meta)
	}
	for k := r.Intn(5); k > 0; k-- {
		c.Labels = append(c.Labels, c18Name(r, meta))
	}
	return g, a, c
}

// ---------------------------------------------------------------------------------------------
// graphs built by the real pipeline: profile -> report.GetDOT -> ComposeDot

type c18POpts struct {
	meta, fileMeta, unitMeta bool
	diff                     bool // +v / -v pairs so that nodes net to zero
}

func c18Profile(r *Rng, o c18POpts) *profile.Profile {
	p := &profile.Profile{}
	unit := PickS(r, []string{"count", "nanoseconds", "bytes", "ms", "", "widgets"})
	if o.unitMeta {
		unit = c18Name(r, true)
	}
	nst := 1 + r.Intn(2)
	for i := 0; i < nst; i++ {
		p.SampleType = append(p.SampleType, &profile.ValueType{Type: PickS(r, []string{"cpu", "samples", "alloc_space"}), Unit: unit})
	}
	if o.meta && r.P(1, 3) {
		p.SampleType[nst-1].Type = c18Name(r, true)
	}
	for i := r.Intn(3); i > 0; i-- {
		p.Comments = append(p.Comments, c18Name(r, o.meta))
	}
	if r.P(1, 3) {
		p.DocURL = "http://doc/" + c18Name(r, o.meta)
	}
	p.TimeNanos = int64(r.Intn(2)) * 1700000000000000000
	p.DurationNanos = int64(r.Intn(3)) * 1500000000
	nm := 1 + r.Intn(2)
	for i := 0; i < nm; i++ {
		start := uint64(0x400000) + uint64(i)*0x100000
		p.Mapping = append(p.Mapping, &profile.Mapping{ID: uint64(i + 1), Start: start, Limit: start + 0x20000,
			File: "/usr/bin/" + c18Name(r, o.fileMeta), BuildID: PickS(r, []string{"", "abc123", c18Name(r, o.meta)})})
	}
	if r.P(1, 6) {
		p.Mapping[0].File = ""
	}
	nf := 1 + r.Intn(5)
	for i := 0; i < nf; i++ {
		name := c18Name(r, o.meta)
		p.Function = append(p.Function, &profile.Function{ID: uint64(i + 1), Name: name, SystemName: name,
			Filename: c18File(r, o.fileMeta), StartLine: int64(r.Intn(40))})
	}
	nl := 1 + r.Intn(6)
	for i := 0; i < nl; i++ {
		m := p.Mapping[r.Intn(nm)]
		l := &profile.Location{ID: uint64(i + 1), Mapping: m, Address: m.Start + uint64(r.Intn(0x2000))}
		if r.P(1, 8) {
			l.Mapping = nil
		}
		nln := 1 + r.Intn(3)
		if r.P(1, 7) {
			nln = 0
		}
		for j := 0; j < nln; j++ {
			l.Line = append(l.Line, profile.Line{Function: p.Function[r.Intn(nf)], Line: int64(r.Intn(60)), Column: int64(r.Intn(2) * r.Intn(9))})
		}
		p.Location = append(p.Location, l)
	}
	ns := 1 + r.Intn(6)
	keys := []string{"k", "req", "bytes", c18Name(r, o.meta)}
	for i := 0; i < ns; i++ {
		s := &profile.Sample{}
		for d := 1 + r.Intn(4); d > 0; d-- {
			s.Location = append(s.Location, p.Location[r.Intn(nl)])
		}
		for j := 0; j < nst; j++ {
			v := int64(1 + r.Intn(500))
			if r.P(1, 8) {
				v = -v
			}
			s.Value = append(s.Value, v)
		}
		if r.P(1, 2) {
			s.Label = map[string][]string{}
			for j := r.Intn(3); j >= 0; j-- {
				s.Label[PickS(r, keys)] = []string{c18Name(r, o.meta)}
			}
		}
		if r.P(1, 3) {
			n := 1 + r.Intn(6)
			var vs []int64
			for q := 0; q < n; q++ {
				vs = append(vs, int64(r.Intn(1<<22)))
			}
			s.NumLabel = map[string][]int64{"bytes": vs}
			if r.Bool() {
				us := make([]string, n)
				for q := range us {
					us[q] = "bytes"
				}
				s.NumUnit = map[string][]string{"bytes": us}
			}
		}
		p.Sample = append(p.Sample, s)
		if o.diff && r.P(2, 3) {
			// the same stack, or the same stack below another leaf, with the opposite value: the
			// leaf (and possibly inner nodes) net to zero and are left out of the graph
			c := &profile.Sample{Location: append([]*profile.Location(nil), s.Location...)}
			for _, v := range s.Value {
				c.Value = append(c.Value, -v)
			}
			if r.Bool() && len(c.Location) > 1 {
				c.Location = append([]*profile.Location{p.Location[r.Intn(nl)]}, c.Location[1:]...)
			}
			p.Sample = append(p.Sample, c)
		}
	}
	return p
}

type c18ROpts struct {
	callTree, dropNeg, trim bool
	gran                    string
	title                   string
	nodeCount               int
	mean                    bool   // -mean: the first sample column is the divisor
	unit                    string // explicit -unit (coarse units make costs truncate to 0); "" = minimum
}

func c18Report(p *profile.Profile, format int, o c18ROpts) *report.Report {
	switch o.gran {
	case "lines":
		p.Aggregate(true, true, true, true, false, false)
	case "files":
		p.Aggregate(true, false, true, false, false, false)
	case "addresses":
		p.Aggregate(true, true, true, true, true, true)
	case "filefunctions":
		p.Aggregate(true, true, true, false, false, false)
	default:
		p.Aggregate(true, true, false, false, false, false)
	}
	numUnits, _ := p.NumLabelUnits()
	if o.unit == "" {
		o.unit = "minimum"
	}
	ro := report.Options{OutputFormat: format, CallTree: o.callTree, DropNegative: o.dropNeg, OutputUnit: o.unit,
		NumLabelUnits: numUnits, Title: o.title, NodeFraction: 0, EdgeFraction: 0, NodeCount: 0}
	if o.trim {
		ro.NodeCount = o.nodeCount
		ro.NodeFraction = 0.05
		ro.EdgeFraction = 0.01
	}
	if o.mean {
		ro.SampleMeanDivisor = func(v []int64) int64 { return v[0] }
	}
	return report.NewDefault(p, ro)
}

// ---------------------------------------------------------------------------------------------

func runC18(c *Ctx) {
	r := c.R
	// escapeForDot on its own
	escCase := func(gen, s string) {
		c.Case(gen, L(S("esc"), S(s)), S(graph.VerifEscapeForDot(s)), strings.ContainsAny(s, "\"\\\n"), "op:esc")
	}
	for _, s := range c18Nasty {
		escCase("esc-fixed", s)
	}
	for i := 0; i < c.Budget(300, 3000); i++ {
		escCase("esc-random", c18Name(r, true)+c18Str(r, true))
	}

	dotCase := func(gen string, g *graph.Graph, a *graph.DotAttributes, cfg *graph.DotConfig, tags ...string) {
		// C18_ONLY=<prefix>: debugging aid, emit only the dot streams whose name starts with the prefix
		if only := os.Getenv("C18_ONLY"); only != "" && !strings.HasPrefix(gen, only) {
			return
		}
		in := L(S("dot"), c18DumpDot(g, a, cfg))
		obs := c18Compose(g, a, cfg)
		nt := len(g.Nodes) > 0
		c.Case(gen, in, obs, nt, append(tags, "op:dot")...)
	}
	// the witnesses of the repaired findings F29 (unit in formatted values) and F30 (file name in the
	// node label) are still always generated: they must be well-formed now
	{
		g, a, cfg := c18Witness("f", "main.go")
		cfg.FormatValue = func(v int64) string { return fmt.Sprintf("%da\"b", v) }
		dotCase("fixed-F29", g, a, cfg)
		g, a, cfg = c18Witness("f", "di\"r/fi\"le.go")
		dotCase("fixed-F30", g, a, cfg)
	}
	for i := 0; i < c.Budget(200, 4000); i++ {
		meta := !r.P(1, 5)
		g, a, cfg := c18SynthGraph(r, meta, !r.P(1, 3))
		dotCase("dot-synth", g, a, cfg)
	}
	grans := []string{"functions", "lines", "files", "addresses", "filefunctions"}
	for i := 0; i < c.Budget(140, 3500); i++ {
		po := c18POpts{meta: !r.P(1, 5), fileMeta: r.P(1, 3), unitMeta: r.P(1, 3), diff: r.P(1, 3)}
		p := c18Profile(r, po)
		ro := c18ROpts{callTree: r.P(1, 3), dropNeg: r.P(1, 4), trim: r.P(1, 3), gran: PickS(r, grans), nodeCount: 1 + r.Intn(3)}
		if r.P(1, 2) {
			ro.title = c18Name(r, po.meta)
		}
		rpt := c18Report(p, report.Dot, ro)
		g, cfg := report.GetDOT(rpt)
		tags := []string{"gran:" + ro.gran}
		if ro.callTree {
			tags = append(tags, "call_tree")
		}
		if po.diff {
			tags = append(tags, "diff")
		}
		dotCase("dot-report", g, &graph.DotAttributes{}, cfg, tags...)
	}

	// callgrind
	{
		// F20: a function name with a newline
		p := c18CGWitness("a\nfn=(7)", 0x1000, 0x1000, 0x1000)
		c18CGCase(c, "finding-F20", p, c18ROpts{gran: "functions"})
		// F11: previous node at 0x1000, caller at 0x3000, callee at 0x3000
		p = c18CGWitness("callee", 0x3000, 0x3000, 0x1000)
		c18CGCase(c, "finding-F11", p, c18ROpts{gran: "addresses"})
	}
	for i := 0; i < c.Budget(320, 4000); i++ {
		c18NoNL = !r.P(1, 12)
		po := c18POpts{meta: !r.P(1, 5), fileMeta: r.P(1, 2), unitMeta: r.P(1, 6), diff: r.P(1, 5)}
		p := c18Profile(r, po)
		gran := PickS(r, []string{"functions", "functions", "lines", "files", "filefunctions", "addresses", "addresses"})
		ro := c18ROpts{callTree: r.P(1, 3), dropNeg: r.P(1, 6), gran: gran}
		tags := []string{"gran:" + gran}
		if ro.callTree {
			tags = append(tags, "call_tree")
		}
		c18CGCase(c, "cg-report", p, ro, tags...)
		c18NoNL = false
	}

	c18ExtCases(c, dotCase)
	c18E2ECases(c, dotCase)
	c18UnitCases(c, dotCase)
	c18TrimCases(c)

	c18HTMLCases(c)
}

// three functions; main calls f and g; with "addresses" granularity the nodes sit at the given addresses
func c18CGWitness(fname string, a1, a2, a3 uint64) *profile.Profile {
	m := &profile.Mapping{ID: 1, Start: 0x1000, Limit: 0x9000, File: "/bin/prog"}
	mk := func(id uint64, name string) *profile.Function {
		return &profile.Function{ID: id, Name: name, SystemName: name, Filename: name + ".go"}
	}
	f1, f2, f3 := mk(1, fname), mk(2, "main"), mk(3, "other")
	l1 := &profile.Location{ID: 1, Mapping: m, Address: a1, Line: []profile.Line{{Function: f1, Line: 3}}}
	l2 := &profile.Location{ID: 2, Mapping: m, Address: a2 + 0x10, Line: []profile.Line{{Function: f2, Line: 7}}}
	l3 := &profile.Location{ID: 3, Mapping: m, Address: a3, Line: []profile.Line{{Function: f3, Line: 9}}}
	return &profile.Profile{
		SampleType: []*profile.ValueType{{Type: "cpu", Unit: "ms"}},
		Sample: []*profile.Sample{
			{Location: []*profile.Location{l1, l2}, Value: []int64{10}},
			{Location: []*profile.Location{l3}, Value: []int64{40}},
			{Location: []*profile.Location{l2}, Value: []int64{5}}},
		Mapping: []*profile.Mapping{m}, Location: []*profile.Location{l1, l2, l3}, Function: []*profile.Function{f1, f2, f3},
	}
}

func c18DumpCG(st, unit string, nodes []report.VerifCGNode, nondet bool) Term {
	var ns []Term
	for _, n := range nodes {
		var es []Term
		for _, e := range n.Out {
			es = append(es, L(PS(e.File), PS(e.Name), ZU(e.Addr), ZI(e.Line), Z(e.Cost)))
		}
		ns = append(ns, L(PS(n.Obj), PS(n.File), PS(n.Name), ZU(n.Addr), ZI(n.Line), Z(n.Cost), L(es...)))
	}
	return L(S("cg"), PS(st), PS(unit), Bool(nondet), L(ns...))
}

func c18PrintCG(rpt *report.Report) (obs Term) {
	defer func() {
		if e := recover(); e != nil {
			obs = L(S("panic"), S(fmt.Sprint(e)))
		}
	}()
	var b bytes.Buffer
	if err := report.Generate(&b, rpt, nil); err != nil {
		return L(S("error"), S(err.Error()))
	}
	return PS(b.String())
}

// c18CGCase: the graph is extracted twice (before and after the print) from copies of the profile;
// if the two extractions differ the node/edge order is not a function of the profile (ties between
// nodes sharing a NodeInfo, C08's domain) and the comparison is skipped (class 900).
func c18CGCase(c *Ctx, gen string, p *profile.Profile, ro c18ROpts, tags ...string) {
	st, unit, n1 := report.VerifCallgrindGraph(c18Report(p.Copy(), report.Callgrind, ro))
	obs := c18PrintCG(c18Report(p.Copy(), report.Callgrind, ro))
	_, _, n2 := report.VerifCallgrindGraph(c18Report(p.Copy(), report.Callgrind, ro))
	in1, in2 := c18DumpCG(st, unit, n1, false), c18DumpCG(st, unit, n2, false)
	nondet := Render(in1) != Render(in2)
	if nondet {
		in1 = c18DumpCG(st, unit, n1, true)
		tags = append(tags, "nondet-order")
	}
	nt := false
	for _, n := range n1 {
		if len(n.Out) > 0 {
			nt = true
		}
	}
	c.Case(gen, in1, obs, nt && len(n1) > 1, append(tags, "op:cg")...)
}

// one node, one self edge
func c18Witness(name, file string) (*graph.Graph, *graph.DotAttributes, *graph.DotConfig) {
	nd := &graph.Node{In: graph.EdgeMap{}, Out: graph.EdgeMap{}, LabelTags: graph.TagMap{}, NumericTags: map[string]graph.TagMap{}}
	nd.Function = nd
	nd.Info = graph.NodeInfo{Name: name, File: file, Lineno: 3}
	nd.Flat, nd.Cum = 10, 10
	g := &graph.Graph{Nodes: graph.Nodes{nd}}
	cfg := &graph.DotConfig{Title: "t", Total: 10, FormatValue: func(v int64) string { return fmt.Sprintf("%dms", v) }}
	return g, &graph.DotAttributes{}, cfg
}
