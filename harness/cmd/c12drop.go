//go:build verif

package main

import (
	"math"

	"github.com/google/pprof/internal/plugin"
	"github.com/google/pprof/profile"
)

// ---------------------------------------------------------------------------------------------
// Deterministic shapes for the step that follows Symbolize in fetchProfiles:
// Profile.RemoveUninteresting with the profile's drop_frames / keep_frames (bare alternations of
// literal names).  Names only exist after symbolization; a frame may go (with what it calls) only
// when its WHOLE simplified name is an alternative.  Symbolization answers names that are equal to /
// start with / contain / end with an alternative, in outermost, middle and inlined positions.

var c12DropNames = []string{
	"mallocator_run",    // starts with the first alternative
	"list_prefree_all",  // contains the middle one
	"my operator new",   // ends with the last one
	"malloc",            // IS the first alternative
	"free",              // IS the middle one
	"operator new",      // IS the last one
	"malloc(unsigned)",  // simplifies to the first alternative
	".free",             // leading dot is ignored
	"xmalloc|free",      // contains the separator itself
	"",                  // nothing known
	"Malloc",            // other case
}

func c12DropProfile(drop, keep string) *profile.Profile {
	p := &profile.Profile{SampleType: []*profile.ValueType{{Type: "objects", Unit: "count"}, {Type: "space", Unit: "bytes"}},
		DropFrames: drop, KeepFrames: keep}
	m := &profile.Mapping{ID: 3, Start: 0x1000, Limit: 0x9000, File: "/bin/app"}
	p.Mapping = []*profile.Mapping{m}
	pre := &profile.Function{ID: 4, Name: "pre_malloc_done", SystemName: "pre_malloc_done", Filename: "old.c"}
	p.Function = []*profile.Function{pre}
	main := &profile.Location{ID: 1, Mapping: m, Address: 0x1100}
	work := &profile.Location{ID: 2, Mapping: m, Address: 0x1200}
	mid := &profile.Location{ID: 5, Mapping: m, Address: 0x1300}
	midInl := &profile.Location{ID: 9, Mapping: m, Address: 0x1400}
	leaf := &profile.Location{ID: 12, Mapping: m, Address: 0x1500}
	nomap := &profile.Location{ID: 20, Address: 0x77, Line: []profile.Line{{Function: pre, Line: 3}}} // no mapping, symbolized before
	p.Location = []*profile.Location{main, work, mid, midInl, leaf, nomap}
	p.Sample = []*profile.Sample{
		{Location: []*profile.Location{leaf, mid, work, main}, Value: []int64{10, 100}},
		{Location: []*profile.Location{mid, main}, Value: []int64{20, 0}},
		{Location: []*profile.Location{leaf, midInl, nomap, main}, Value: []int64{-30, 7}},
		{Location: []*profile.Location{main}, Value: []int64{0, 0}},
		{Location: []*profile.Location{mid}, Value: []int64{5, 5}}, // the frame is the outermost one
		{Value: []int64{1, 1}},
	}
	return p
}

// answers: Open ok, BuildID "", then one SourceLine answer per location of the mapping, in order
func c12DropScript(name string) []c12Answer {
	one := func(n string) []plugin.Frame { return []plugin.Frame{{Func: n, File: "a.c", Line: 1}} }
	return []c12Answer{{}, {},
		{Frames: one("main")}, {Frames: one("work")}, {Frames: one(name)},
		{Frames: []plugin.Frame{{Func: "leaf_inl", File: "a.c", Line: 2}, {Func: name, File: "a.c", Line: 3}, {Func: "outer", File: "a.c", Line: 4}}},
		{Frames: one("leaf")}}
}

func runC12DropShapes(c *Ctx) {
	exprs := [][2]string{{"malloc|free|operator new", ""}, {"malloc", ""}, {"malloc|free|operator new", "free|keepme"}, {"free|x", "malloc|free"}}
	for _, e := range exprs {
		for _, name := range c12DropNames {
			for _, mode := range []string{"local", "none", "local:force"} {
				if mode != "local" && e[1] != "" {
					continue
				}
				c12Fetch(c, "fetch-drop-frames", mode, "", c12DropProfile(e[0], e[1]), c12DropScript(name))
			}
		}
	}
	// remote symbolization from a sourced, file-less mapping
	for _, name := range c12DropNames {
		p := c12DropProfile("malloc|free|operator new", "")
		p.Mapping[0].File = ""
		body := "0x1100 main\n0x1200 work\n0x1300 " + name + "\n0x1400 " + name + "\n0x1500 leaf\n"
		c12Fetch(c, "fetch-drop-frames", "remote", "http://pproftest.local/debug/pprof/heap", p, []c12Answer{{Body: body}})
	}
}

func runC12DropE2E(c *Ctx) {
	for _, name := range c12DropNames {
		for _, e := range [][2]string{{"malloc|free|operator new", ""}, {"malloc|free|operator new", "free|keepme"}} {
			ec := &c12E2ECase{mode: "local", data: c12Serialize(c12DropProfile(e[0], e[1])), script: c12DropScript(name)}
			if name == "malloc" {
				ec.exec = "/bin/named"
			}
			c12E2E(c, "e2e-drop-frames", ec)
		}
	}
}

// Neighbouring rare-but-valid shapes of the same family, pushed through the pipeline (op fetch) and
// end to end (op e2e): no samples, extreme values, duplicate value columns, names with special
// characters, nothing to symbolize (no location has a mapping), a drop_frames that matches every name.
func runC12RareShapes(c *Ctx) {
	special := []string{"a+b", "100%", "x\"y", "tab\there", "<T>", "\xe6\x97\xa5\xe6\x9c\xac", "two  spaces ", "(anonymous namespace)::f", "operator()", "a|b", "%2B", "\\d+"}
	type shape struct {
		gen  string
		p    *profile.Profile
		name string
	}
	var shapes []shape
	{
		p := c12DropProfile("", "")
		p.Sample = nil
		shapes = append(shapes, shape{"no-samples", p, "work2"})
	}
	{
		p := c12DropProfile("", "")
		p.Sample[0].Value = []int64{math.MaxInt64, math.MinInt64}
		p.Sample[1].Value = []int64{math.MinInt64, math.MaxInt64}
		shapes = append(shapes, shape{"extreme-values", p, "work2"})
	}
	{
		p := c12DropProfile("", "")
		for _, l := range p.Location {
			l.Mapping = nil
		}
		shapes = append(shapes, shape{"no-location-mapped", p, "work2"})
	}
	{
		p := c12DropProfile("main|work|leaf|outer|leaf_inl|every|pre_malloc_done", "")
		shapes = append(shapes, shape{"drop-everything", p, "every"})
	}
	{
		p := c12DropProfile("malloc|free", "malloc|free")
		shapes = append(shapes, shape{"keep-equals-drop", p, "free"})
	}
	for _, n := range special {
		shapes = append(shapes, shape{"special-name", c12DropProfile("two  spaces |100%", ""), n})
	}
	for _, s := range shapes {
		c12Fetch(c, "fetch-rare-"+s.gen, "local", "", s.p, c12DropScript(s.name))
		data := c12Serialize(s.p)
		if q, err := profile.ParseData(data); err != nil || q.CheckValid() != nil {
			continue
		}
		c12E2E(c, "e2e-rare-"+s.gen, &c12E2ECase{mode: "local", data: data, script: c12DropScript(s.name)})
	}
}
