//go:build verif

package main

import (
	"fmt"
	"regexp"
	"sort"

	"github.com/google/pprof/profile"
)

// c06MatchTable renders the answers of Go's regexp engine for every (expression, subject) pair:
// TL [ TL universe ; TL [ TL [TS rx; TZ compiles; TL matching subjects] ... ] ].
func c06MatchTable(universe []string, rxs []string) Term {
	seenU := map[string]bool{}
	var us []string
	for _, s := range universe {
		if !seenU[s] {
			seenU[s] = true
			us = append(us, s)
		}
	}
	sort.Strings(us)
	seenR := map[string]bool{}
	var ents []Term
	for _, src := range rxs {
		if seenR[src] {
			continue
		}
		seenR[src] = true
		re, err := regexp.Compile(src)
		var ms []string
		if err == nil {
			for _, s := range us {
				if re.MatchString(s) {
					ms = append(ms, s)
				}
			}
		}
		ents = append(ents, L(S(src), Bool(err == nil), Ss(ms)))
	}
	return L(Ss(us), L(ents...))
}

func c06OptS(s *string) Term {
	if s == nil {
		return L()
	}
	return L(S(*s))
}

// c06ObsProfile is the observable part of a filtered profile: samples and locations.
func c06ObsProfile(p *profile.Profile) []Term {
	var ss, ls []Term
	for _, s := range p.Sample {
		ss = append(ss, DumpSample(s))
	}
	for _, l := range p.Location {
		ls = append(ls, DumpLocation(l))
	}
	return []Term{L(ss...), L(ls...)}
}

// c06Guard runs f and turns a panic into an observable.
func c06Guard(f func() Term) (t Term) {
	defer func() {
		if r := recover(); r != nil {
			t = L(S("panic"), S(fmt.Sprint(r)))
		}
	}()
	return f()
}

// c06StackKnobs describes the small stack-shaped profiles used by C06 and C11.
type c06StackKnobs struct {
	Names    []string
	Files    []string
	MapFiles []string
	MaxFuncs, MaxLocs, MaxLines, MaxSamples, MaxDepth int
	Unsym    bool // locations without lines
	Empty    bool // samples without locations
	Labels   bool
	NoMap    bool // locations without mapping
}

// c06GenStacks builds a valid profile with dense ids; shape choices all come from r.
func c06GenStacks(r *Rng, k c06StackKnobs) *profile.Profile {
	p := &profile.Profile{SampleType: []*profile.ValueType{{Type: "samples", Unit: "count"}}}
	if r.P(1, 3) {
		p.SampleType = append(p.SampleType, &profile.ValueType{Type: "cpu", Unit: "ms"})
	}
	for i, f := range k.MapFiles {
		if i > 0 && r.P(1, 3) {
			continue
		}
		st := uint64(0x1000 * (len(p.Mapping) + 1))
		p.Mapping = append(p.Mapping, &profile.Mapping{ID: uint64(len(p.Mapping) + 1), Start: st, Limit: st + 0x1000, File: f})
	}
	nf := 1 + r.Intn(k.MaxFuncs)
	for i := 0; i < nf; i++ {
		fn := &profile.Function{ID: uint64(i + 1), Name: PickS(r, k.Names), Filename: PickS(r, k.Files)}
		fn.SystemName = fn.Name
		p.Function = append(p.Function, fn)
	}
	nl := 1 + r.Intn(k.MaxLocs)
	for i := 0; i < nl; i++ {
		l := &profile.Location{ID: uint64(i + 1), Address: uint64(0x100 + i)}
		if len(p.Mapping) > 0 && !(k.NoMap && r.P(1, 4)) {
			l.Mapping = p.Mapping[r.Intn(len(p.Mapping))]
			l.Address += l.Mapping.Start
		}
		n := 1 + r.Intn(k.MaxLines)
		if k.Unsym && r.P(1, 7) {
			n = 0
		}
		for j := 0; j < n; j++ {
			l.Line = append(l.Line, profile.Line{Function: p.Function[r.Intn(nf)], Line: int64(1 + r.Intn(9))})
		}
		p.Location = append(p.Location, l)
	}
	ns := 1 + r.Intn(k.MaxSamples)
	for i := 0; i < ns; i++ {
		s := &profile.Sample{}
		d := 1 + r.Intn(k.MaxDepth)
		if k.Empty && r.P(1, 9) {
			d = 0
		}
		for j := 0; j < d; j++ {
			s.Location = append(s.Location, p.Location[r.Intn(nl)])
		}
		for range p.SampleType {
			s.Value = append(s.Value, int64(r.Intn(50))-5)
		}
		if k.Labels && r.P(1, 2) {
			c06GenLabels(r, s)
		}
		p.Sample = append(p.Sample, s)
	}
	return p
}

var c06LabKeys = []string{"k", "key", "bytes", "req", "a"}
var c06LabVals = []string{"v", "val", "x1", "k", "a:b", "tag", "10", "5kb"}
var c06NumUnits = []string{"", "bytes", "kb", "ms", "s", "foo"}

func c06GenLabels(r *Rng, s *profile.Sample) {
	if r.P(2, 3) {
		s.Label = map[string][]string{}
		for j := r.Intn(3); j >= 0; j-- {
			var vs []string
			for q := 1 + r.Intn(2); q > 0; q-- {
				vs = append(vs, PickS(r, c06LabVals))
			}
			s.Label[PickS(r, c06LabKeys)] = vs
		}
	}
	if r.P(2, 3) {
		s.NumLabel = map[string][]int64{}
		s.NumUnit = map[string][]string{}
		for j := r.Intn(2); j >= 0; j-- {
			key := PickS(r, c06LabKeys)
			n := 1 + r.Intn(3)
			var vs []int64
			us := make([]string, n)
			for q := 0; q < n; q++ {
				vs = append(vs, PickI(r, []int64{0, 1, 5, 10, 512, 1024, 2048, 4096, 5000, 5120, 1000000, -5, -1024, 1 << 20, 3}))
			}
			u := PickS(r, c06NumUnits)
			for q := range us {
				us[q] = u
			}
			s.NumLabel[key] = vs
			if r.P(2, 3) {
				s.NumUnit[key] = us
			}
		}
	}
}
