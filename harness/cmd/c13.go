//go:build verif

package main

import (
	"debug/elf"
	"errors"
	"fmt"
	"strconv"
	"strings"

	"github.com/google/pprof/internal/binutils"
	"github.com/google/pprof/internal/elfexec"
)

// C13: ELF address translation. Ops (input term ↦ observable):
//   getbase  etype seg? stext? start limit offset          ↦ res
//   phm      phdrs mapOff mapSz                            ↦ kept headers
//   hffo     headers fileOffset                            ↦ ok header | err code
//   objaddr  elf mapping? openOk addrs bias(-1 = none)     ↦ [res...] (base isData)
//   nm       base syms addrs                               ↦ [name?...]
//   tooladdr base addr                                     ↦ the addresses written to addr2line / llvm-symbolizer (code, data)
//   a2lnm    base syms hasNM addr stack (c13a2l.go)         ↦ Func of the frames addr2Liner.addrInfo returns
//   session  files events (c13sess.go)                      ↦ one observable per event of a history on ONE Binutils
//   conv     kind base table syms hasNM addrs (c13conv.go)  ↦ answers of ONE addr2Liner / llvmSymbolizer over one simulated pipe
//   maps     elf mapping bias (thorough, real processes)   ↦ [] (specification-side check only)
// The loader-driven generators (c13LoaderCases) construct the runtime mapping from the segment
// layout and a page-aligned bias exactly as the kernel does and ship the bias, so that the Coq
// side can evaluate the specification "result = address - bias" on the implementation's answer.

func init() { registry["C13"] = runC13 }

const c13Page = 0x1000

func c13Ph(p elf.ProgHeader) Term {
	return L(Z(int64(p.Type)), Z(int64(p.Flags)), ZU(p.Off), ZU(p.Vaddr), ZU(p.Filesz), ZU(p.Memsz))
}
func c13Phs(ps []elf.ProgHeader) Term {
	var l []Term
	for _, p := range ps {
		l = append(l, c13Ph(p))
	}
	return L(l...)
}
func c13OptU(p *uint64) Term {
	if p == nil {
		return L()
	}
	return L(ZU(*p))
}
func c13ZUs(l []uint64) Term {
	var r []Term
	for _, v := range l {
		r = append(r, ZU(v))
	}
	return L(r...)
}

// c13ErrCode maps an error to the site that produced it (coq/M_Elf.v E_*).
func c13ErrCode(err error) int64 {
	s := err.Error()
	switch {
	case strings.Contains(s, "no program header matches mapping info"):
		return 3
	case strings.Contains(s, "found second program header"):
		return 4
	case strings.Contains(s, "no program header matches file offset"):
		return 5
	case strings.Contains(s, "is outside the mapping range"):
		return 1
	case strings.Contains(s, "error parsing"):
		return 2
	case strings.Contains(s, "don't know how to handle EXEC segment"):
		return 6
	case strings.Contains(s, "don't know how to handle mapping.Offset"):
		return 7
	case strings.Contains(s, "don't know how to handle FileHeader.Type"):
		return 8
	}
	return 99
}

func c13Res(v uint64, err error) Term {
	if err != nil {
		return L(S("err"), Z(c13ErrCode(err)))
	}
	return L(S("ok"), ZU(v))
}

func c13Guard(f func() Term) (t Term) {
	defer func() {
		if r := recover(); r != nil {
			t = L(S("panic"), S(fmt.Sprint(r)))
		}
	}()
	return f()
}

type c13Sec struct {
	name string
	addr uint64
}
type c13Layout struct {
	etype elf.Type
	progs []elf.ProgHeader // all program headers in file order (PT_LOAD and others)
	secs  []c13Sec
}

func (l c13Layout) loads() []int {
	var r []int
	for i, p := range l.progs {
		if p.Type == elf.PT_LOAD {
			r = append(r, i)
		}
	}
	return r
}

func (l c13Layout) term() Term {
	var ss []Term
	for _, s := range l.secs {
		ss = append(ss, L(S(s.name), ZU(s.addr)))
	}
	return L(Z(int64(l.etype)), c13Phs(l.progs), L(ss...))
}

func (l c13Layout) file() *elf.File {
	f := &elf.File{FileHeader: elf.FileHeader{Type: l.etype}}
	for _, p := range l.progs {
		f.Progs = append(f.Progs, &elf.Prog{ProgHeader: p})
	}
	for _, s := range l.secs {
		f.Sections = append(f.Sections, &elf.Section{SectionHeader: elf.SectionHeader{Name: s.name, Addr: s.addr}})
	}
	return f
}

type c13Map struct {
	start, limit, offset uint64
	koff                 *uint64
}

func (m *c13Map) term() Term {
	if m == nil {
		return L()
	}
	return L(L(ZU(m.start), ZU(m.limit), ZU(m.offset), c13OptU(m.koff)))
}

func c13Down(x uint64) uint64 { return x &^ (c13Page - 1) }
func c13Up(x uint64) uint64   { return c13Down(x + c13Page - 1) }
func c13AlignUp(x, a uint64) uint64 {
	return (x + a - 1) / a * a
}

// ---------------------------------------------------------------- ops

func c13GetBase(c *Ctx, gen string, etype elf.Type, seg *elf.ProgHeader, stext *uint64, start, limit, offset uint64) {
	segT := L()
	if seg != nil {
		segT = L(c13Ph(*seg))
	}
	in := L(S("getbase"), Z(int64(etype)), segT, c13OptU(stext), ZU(start), ZU(limit), ZU(offset))
	obs := c13Guard(func() Term {
		return c13Res(elfexec.GetBase(&elf.FileHeader{Type: etype}, seg, stext, start, limit, offset))
	})
	c.Case(gen, in, obs, seg != nil, "op:getbase")
}

func c13PHM(c *Ctx, gen string, phdrs []elf.ProgHeader, mapOff, mapSz uint64) {
	in := L(S("phm"), c13Phs(phdrs), ZU(mapOff), ZU(mapSz))
	obs := c13Guard(func() Term {
		hs := elfexec.ProgramHeadersForMapping(phdrs, mapOff, mapSz)
		var l []Term
		for _, h := range hs {
			l = append(l, c13Ph(*h))
		}
		return L(l...)
	})
	c.Case(gen, in, obs, len(phdrs) > 1, "op:phm")
}

func c13HFFO(c *Ctx, gen string, hs []elf.ProgHeader, fo uint64) {
	in := L(S("hffo"), c13Phs(hs), ZU(fo))
	obs := c13Guard(func() Term {
		var ptrs []*elf.ProgHeader
		for i := range hs {
			ptrs = append(ptrs, &hs[i])
		}
		h, err := elfexec.HeaderForFileOffset(ptrs, fo)
		if err != nil {
			return L(S("err"), Z(c13ErrCode(err)))
		}
		return L(S("ok"), c13Ph(*h))
	})
	c.Case(gen, in, obs, len(hs) > 1, "op:hffo")
}

// c13ObjAddrObs runs the implementation: one fresh file object, ObjAddr for every address in order.
func c13ObjAddrObs(lay c13Layout, m *c13Map, openOK bool, addrs []uint64) (obs Term, first string) {
	first = "none"
	obs = c13Guard(func() Term {
		var openErr error
		if !openOK {
			openErr = errors.New("elf.Open failed")
		}
		var out []uint64
		var errs []error
		var base uint64
		var isData bool
		if m != nil {
			out, errs, base, isData = binutils.VerifC13ObjAddrSeq(lay.file(), openErr, true, m.start, m.limit, m.offset, m.koff, addrs)
		} else {
			out, errs, base, isData = binutils.VerifC13ObjAddrSeq(lay.file(), openErr, false, 0, 0, 0, nil, addrs)
		}
		var rs []Term
		for i := range out {
			rs = append(rs, c13Res(out[i], errs[i]))
		}
		if len(errs) > 0 {
			if errs[0] == nil {
				first = "ok"
			} else {
				first = fmt.Sprintf("err%d", c13ErrCode(errs[0]))
			}
		}
		return L(L(rs...), L(ZU(base), Bool(isData)))
	})
	return obs, first
}

// bias < 0: not a loader-constructed case (the specification is not evaluated)
func c13ObjAddr(c *Ctx, gen string, lay c13Layout, m *c13Map, openOK bool, addrs []uint64, bias int64, tags ...string) {
	in := L(S("objaddr"), lay.term(), m.term(), Bool(openOK), c13ZUs(addrs), Z(bias))
	obs, first := c13ObjAddrObs(lay, m, openOK, addrs)
	tags = append([]string{"op:objaddr", "r0:" + first}, tags...)
	if bias >= 0 {
		tags = append(tags, "loader-r0:"+first)
	}
	c.Case(gen, in, obs, m != nil && len(addrs) > 0 && len(lay.loads()) > 0, tags...)
}

type c13Sym struct {
	addr, size uint64
	name, typ  string
}

func c13NM(c *Ctx, gen string, base uint64, syms []c13Sym, junk []string, addrs []uint64) {
	var st []Term
	var sb strings.Builder
	for i, s := range syms {
		if i < len(junk) && junk[i] != "" {
			sb.WriteString(junk[i] + "\n")
		}
		fmt.Fprintf(&sb, "%s %s %x %x\n", s.name, s.typ, s.addr, s.size)
		st = append(st, L(ZU(s.addr), ZU(s.size), S(s.name), S(s.typ)))
	}
	in := L(S("nm"), ZU(base), L(st...), c13ZUs(addrs))
	obs := c13Guard(func() Term {
		names, found, nsyms, err := binutils.VerifC13NM(base, sb.String(), addrs)
		if err != nil {
			return L(S("err"), S(err.Error()))
		}
		if nsyms != len(syms) {
			return L(S("parsed"), ZI(nsyms))
		}
		var l []Term
		for i := range names {
			if found[i] {
				l = append(l, L(S(names[i])))
			} else {
				l = append(l, L())
			}
		}
		return L(l...)
	})
	c.Case(gen, in, obs, len(syms) > 1 && len(addrs) > 0, "op:nm")
}

// what the symbolizer tools are asked: address - base, in hex (addr2liner.go:177, addr2liner_llvm.go:177)
func c13Tool(c *Ctx, gen string, base, addr uint64) {
	in := L(S("tooladdr"), ZU(base), ZU(addr))
	obs := c13Guard(func() Term {
		a, lc, ld, err := binutils.VerifC13ToolInput(base, addr)
		if err != nil {
			return L(S("err"), S(err.Error()))
		}
		hex := func(s, prefix string) Term {
			if !strings.HasPrefix(s, prefix) {
				return L(S("bad-prefix"), S(s))
			}
			v, err := strconv.ParseUint(s[len(prefix):], 16, 64)
			if err != nil {
				return L(S("bad-hex"), S(s))
			}
			return ZU(v)
		}
		return L(hex(a, ""), hex(lc, "m 0x"), hex(ld, "m 0x"))
	})
	c.Case(gen, in, obs, base != 0 && addr != base, "op:tooladdr")
}

func c13ToolCases(c *Ctx, n int) {
	r := c.R
	for k := 0; k < n; k++ {
		base := []uint64{0, 0x1000, 0x400000, 0x555555554000, 0x7f0000000000 + uint64(r.Intn(1<<20))*c13Page, c13U64(r)}[r.Intn(6)]
		addr := base + uint64(r.Intn(1<<24))
		if r.P(1, 6) {
			addr = c13U64(r)
		}
		c13Tool(c, "tooladdr", base, addr)
	}
}

// ---------------------------------------------------------------- layouts

var c13FileSizes = []uint64{1, 0x80, 0x1f0, 0xc80, 0xfff, 0x1000, 0x1001, 0x1c80, 0x2000, 0x2fff, 0x3000, 0x5123, 0x10000, 0x21000}

// c13GenLayout emits a segment layout the way linkers do: 1..4 PT_LOAD segments, max-page-size
// 4K/64K/2M, offset ≡ vaddr (mod max-page-size, hence mod 4K), optional bss, packed (segments
// share a file page), separate-code (page-aligned file offsets) or small segments sharing a page.
func c13GenLayout(r *Rng) c13Layout {
	var lay c13Layout
	align := []uint64{0x1000, 0x1000, 0x10000, 0x200000}[r.Intn(4)]
	if r.Bool() {
		lay.etype = elf.ET_DYN
	} else {
		lay.etype = elf.ET_EXEC
	}
	var v uint64
	if lay.etype == elf.ET_DYN {
		v = []uint64{0, 0, 0, 0x1000, 0x10000, 0x200000, 0x3000000000}[r.Intn(7)]
	} else {
		v = []uint64{0x400000, 0x400000, 0x8048000, 0x10000, 0x200000, 0x1000}[r.Intn(6)]
	}
	v = v / align * align
	if lay.etype == elf.ET_EXEC && v == 0 {
		v = align
	}
	nseg := 1 + r.Intn(4)
	mode := r.Intn(3) // 0 packed, 1 separate-code, 2 small segments on consecutive pages
	flagSets := [][]elf.ProgFlag{
		{elf.PF_R | elf.PF_X, elf.PF_R | elf.PF_W, elf.PF_R, elf.PF_R | elf.PF_W},
		{elf.PF_R, elf.PF_R | elf.PF_X, elf.PF_R, elf.PF_R | elf.PF_W},
		{elf.PF_R | elf.PF_X, elf.PF_R | elf.PF_X, elf.PF_R | elf.PF_W, elf.PF_R | elf.PF_W},
		{elf.PF_R | elf.PF_W | elf.PF_X, elf.PF_R, elf.PF_R | elf.PF_X, elf.PF_R | elf.PF_W},
	}
	flags := flagSets[r.Intn(len(flagSets))]
	off := uint64(0)
	if r.P(1, 5) { // first segment does not start at file offset 0
		off = []uint64{0x1000, 0x40, 0x2000}[r.Intn(3)]
		v += off
	}
	if r.P(1, 3) {
		lay.progs = append(lay.progs, elf.ProgHeader{Type: elf.PT_PHDR, Flags: elf.PF_R, Off: 0x40, Vaddr: v + 0x40, Filesz: 0x1f8, Memsz: 0x1f8})
	}
	textAddr := uint64(0)
	haveText := false
	for i := 0; i < nseg; i++ {
		filesz := c13FileSizes[r.Intn(len(c13FileSizes))]
		if r.P(1, 4) {
			filesz = uint64(1 + r.Intn(0x4000))
		}
		memsz := filesz
		if r.P(1, 3) {
			memsz += []uint64{8, 0x100, 0x1000, 0x2345, 0x100000}[r.Intn(5)]
		}
		p := elf.ProgHeader{Type: elf.PT_LOAD, Flags: flags[i], Off: off, Vaddr: v, Paddr: v, Filesz: filesz, Memsz: memsz, Align: align}
		if r.P(1, 25) { // pure-bss segment: no file bytes, arbitrary file offset (b/195427553)
			p.Filesz = 0
			p.Off = uint64(r.Intn(0x5000))
		}
		lay.progs = append(lay.progs, p)
		if p.Flags&elf.PF_X != 0 && !haveText && p.Filesz > 0 {
			haveText = true
			textAddr = p.Vaddr + uint64(r.Intn(int(p.Filesz)))
		}
		// next segment
		endOff := off + filesz
		endV := v + memsz
		if p.Filesz == 0 {
			endOff = off
		}
		switch mode {
		case 0:
			off = endOff
			v = c13AlignUp(endV, align) + off%align
			if v < endV {
				v += align
			}
		case 1:
			off = c13AlignUp(endOff, c13Page)
			if align > c13Page && r.Bool() {
				off = c13AlignUp(endOff, align)
			}
			v = c13AlignUp(endV, align) + off%align
		case 2:
			off = endOff
			v = c13Up(endV) + off%c13Page
			if r.P(1, 3) {
				v += c13Page * uint64(r.Intn(3))
			}
		}
	}
	if r.P(1, 3) {
		last := lay.progs[len(lay.progs)-1]
		lay.progs = append(lay.progs, elf.ProgHeader{Type: elf.PT_GNU_RELRO, Flags: elf.PF_R, Off: last.Off, Vaddr: last.Vaddr, Filesz: last.Filesz, Memsz: last.Filesz})
	}
	if haveText || r.P(1, 2) {
		if r.P(1, 6) {
			lay.secs = append(lay.secs, c13Sec{".text", 0xdead0000})
		}
		lay.secs = append(lay.secs, c13Sec{".init", textAddr}, c13Sec{".text", textAddr}, c13Sec{".data", textAddr + 0x100000})
	}
	if r.P(1, 6) {
		c13ReorderFile(r, &lay)
	}
	return lay
}

func c13Biases(r *Rng, lay c13Layout, owner elf.ProgHeader) uint64 {
	if lay.etype == elf.ET_EXEC && r.P(3, 4) {
		return 0
	}
	switch r.Intn(9) {
	case 0:
		return 0
	case 1:
		return 0x1000
	case 2:
		return 0x200000
	case 3:
		return 0x555555554000
	case 4:
		return 0x7f0000000000 + uint64(r.Intn(1<<20))*c13Page
	case 5:
		return (1 << 47) - 0x40000000 - uint64(r.Intn(1<<10))*c13Page
	case 6:
		return c13Down(owner.Off) // F23 territory when it equals owner.Off
	case 7:
		return uint64(r.Intn(1<<16)) * c13Page
	}
	return uint64(r.Intn(1<<30)) * c13Page
}

// c13LoaderCases: pick a segment, load the object at a bias, take a piece of the segment's image as
// the runtime mapping, and ask for addresses at every edge the proofs split on.
func c13LoaderCases(c *Ctx, n int) {
	r := c.R
	for k := 0; k < n; k++ {
		lay := c13GenLayout(r)
		var cands []int
		for _, i := range lay.loads() {
			if lay.progs[i].Filesz > 0 {
				cands = append(cands, i)
			}
		}
		if len(cands) == 0 {
			continue
		}
		oi := cands[r.Intn(len(cands))]
		if r.P(1, 2) { // prefer the executable segment
			for _, i := range cands {
				if lay.progs[i].Flags&elf.PF_X != 0 {
					oi = i
					break
				}
			}
		}
		p := lay.progs[oi]
		bias := c13Biases(r, lay, p)
		lo := bias + c13Down(p.Vaddr)
		hi := bias + c13Up(p.Vaddr+p.Filesz)
		np := int((hi - lo) / c13Page)
		i, j := 0, np
		split := "whole"
		switch r.Intn(6) {
		case 0:
			j = 1
			split = "first-page"
		case 1:
			i = np - 1
			split = "last-page"
		case 2, 3:
			i = r.Intn(np)
			j = i + 1 + r.Intn(np-i)
			split = "piece"
		}
		m := &c13Map{start: lo + uint64(i)*c13Page, limit: lo + uint64(j)*c13Page, offset: c13Down(p.Off) + uint64(i)*c13Page}
		tags := []string{"split:" + split, fmt.Sprintf("nload:%d", len(lay.loads()))}
		if r.P(1, 12) && oi+1 < len(lay.progs) && lay.progs[oi+1].Type == elf.PT_LOAD && lay.progs[oi+1].Filesz > 0 {
			// coalesced with the next segment's image (outside the specification: correspondence only)
			q := lay.progs[oi+1]
			m.limit = bias + c13Up(q.Vaddr+q.Filesz)
			tags[0] = "split:coalesced"
		}
		own := []uint64{bias + p.Vaddr, bias + p.Vaddr + p.Filesz - 1, bias + p.Vaddr + p.Memsz - 1, bias + p.Vaddr + p.Filesz/2}
		edge := []uint64{m.start, m.limit - 1, m.limit, m.start - 1, bias + p.Vaddr - 1, bias + p.Vaddr + p.Filesz, bias + p.Vaddr + p.Memsz,
			m.start + uint64(r.Intn(int(m.limit-m.start)))}
		for _, qi := range cands {
			if qi == oi {
				continue
			}
			q := lay.progs[qi]
			// addresses of this mapping whose file offset hits the neighbour's bytes (shared file page)
			for _, fo := range []uint64{q.Off, q.Off - 1, q.Off + q.Filesz - 1, q.Off + q.Memsz - 1, q.Off + q.Memsz} {
				edge = append(edge, m.start+(fo-m.offset))
			}
			edge = append(edge, bias+q.Vaddr)
		}
		var first uint64
		kind := "own"
		if r.P(2, 3) {
			// an own byte that lies inside the mapping, if there is one
			var in []uint64
			for _, a := range own {
				if a >= m.start && a < m.limit {
					in = append(in, a)
				}
			}
			lo2, hi2 := bias+p.Vaddr, bias+p.Vaddr+p.Memsz
			if lo2 < m.start {
				lo2 = m.start
			}
			if hi2 > m.limit {
				hi2 = m.limit
			}
			if lo2 < hi2 {
				in = append(in, lo2, hi2-1, lo2+uint64(r.Intn(int(hi2-lo2))))
			}
			if len(in) > 0 {
				first = in[r.Intn(len(in))]
			} else {
				first = edge[r.Intn(len(edge))]
				kind = "edge"
			}
		} else {
			first = edge[r.Intn(len(edge))]
			kind = "edge"
		}
		if kind == "edge" && r.P(5, 6) { // mostly edges that are inside the mapping
			var in []uint64
			for _, a := range edge {
				if a >= m.start && a < m.limit {
					in = append(in, a)
				}
			}
			if len(in) > 0 {
				first = in[r.Intn(len(in))]
			}
		}
		addrs := []uint64{first}
		for x := r.Intn(4); x > 0; x-- {
			if r.Bool() {
				addrs = append(addrs, own[r.Intn(len(own))])
			} else {
				addrs = append(addrs, edge[r.Intn(len(edge))])
			}
		}
		tags = append(tags, "first:"+kind, "etype:"+lay.etype.String())
		if bias == p.Off && m.offset != p.Off && lay.etype == elf.ET_DYN {
			tags = append(tags, "F23-shape")
		}
		c13ObjAddr(c, "loader", lay, m, true, addrs, int64(bias), tags...)
	}
}

// c13ReorderFile moves the file content of one PT_LOAD segment (not the last of the table) behind
// everything else in the file, keeping offset = vaddr modulo the segment alignment: the table stays
// in ascending vaddr order, as ELF demands, but is no longer in ascending file-offset order (linker
// scripts, post-link layout tools: writable data low in memory but stored after the text).
func c13ReorderFile(r *Rng, lay *c13Layout) bool {
	var loads []int
	end := uint64(0)
	for i, p := range lay.progs {
		if p.Type == elf.PT_LOAD && p.Filesz > 0 {
			loads = append(loads, i)
			if p.Off+p.Filesz > end {
				end = p.Off + p.Filesz
			}
		}
	}
	if len(loads) < 2 {
		return false
	}
	j := loads[r.Intn(len(loads)-1)]
	p := &lay.progs[j]
	a := p.Align
	if a < c13Page {
		a = c13Page
	}
	old := p.Off
	p.Off = c13AlignUp(end, a) + p.Vaddr%a
	for i := range lay.progs { // headers that described the same file range follow (PT_GNU_RELRO)
		if q := &lay.progs[i]; q.Type != elf.PT_LOAD && q.Off == old && q.Vaddr == p.Vaddr {
			q.Off = p.Off
		}
	}
	return true
}

// c13ReorderedLayouts: PT_LOAD entries in ascending vaddr order whose file offsets do NOT ascend.
func c13ReorderedLayouts() []c13Layout {
	ld := func(fl elf.ProgFlag, off, v, fsz, msz uint64) elf.ProgHeader {
		return elf.ProgHeader{Type: elf.PT_LOAD, Flags: fl, Off: off, Vaddr: v, Paddr: v, Filesz: fsz, Memsz: msz, Align: 0x1000}
	}
	var out []c13Layout
	for _, et := range []elf.Type{elf.ET_DYN, elf.ET_EXEC} {
		v := uint64(0)
		if et == elf.ET_EXEC {
			v = 0x400000
		}
		// A: data low in memory, stored after the text in the file
		out = append(out, c13Layout{etype: et, progs: []elf.ProgHeader{
			ld(elf.PF_R, 0, v, 0x400, 0x400),
			ld(elf.PF_R|elf.PF_W, 0x4000, v+0x1000, 0x300, 0x500),
			ld(elf.PF_R|elf.PF_X, 0x1000, v+0x2000, 0x1800, 0x1800),
			ld(elf.PF_R, 0x3000, v+0x4000, 0x200, 0x200),
		}, secs: []c13Sec{{".text", v + 0x2040}}})
		// B: the headers segment shares a file page with the text, the data is stored last
		out = append(out, c13Layout{etype: et, progs: []elf.ProgHeader{
			ld(elf.PF_R, 0, v, 0x1200, 0x1200),
			ld(elf.PF_R|elf.PF_W, 0x5000, v+0x2000, 0x180, 0x400),
			ld(elf.PF_R|elf.PF_X, 0x1200, v+0x3200, 0x1800, 0x1800),
		}, secs: []c13Sec{{".text", v + 0x3240}}})
		// C: the text itself is stored last, everything else before it
		out = append(out, c13Layout{etype: et, progs: []elf.ProgHeader{
			ld(elf.PF_R|elf.PF_X, 0x3000, v+0x1000, 0x2345, 0x2345),
			ld(elf.PF_R, 0x1000, v+0x4000, 0x800, 0x800),
			ld(elf.PF_R|elf.PF_W, 0x1800, v+0x5800, 0x200, 0x1200),
		}})
		// D: fully reversed file order
		out = append(out, c13Layout{etype: et, progs: []elf.ProgHeader{
			ld(elf.PF_R, 0x6000, v, 0x600, 0x600),
			ld(elf.PF_R|elf.PF_X, 0x3000, v+0x1000, 0x2100, 0x2100),
			ld(elf.PF_R|elf.PF_W, 0x1000, v+0x4000, 0x1100, 0x1300),
		}})
	}
	return out
}

// c13ReorderedCases (deterministic): every segment of every reordered layout, loaded at several
// biases, whole image and every single page of it, asked about its own first / middle / last byte.
func c13ReorderedCases(c *Ctx) {
	for li, lay := range c13ReorderedLayouts() {
		biases := []uint64{0x555555554000, 0x7f3a5c200000}
		if lay.etype == elf.ET_EXEC {
			biases = []uint64{0}
		}
		for _, bias := range biases {
			for _, p := range lay.progs {
				lo, hi := bias+c13Down(p.Vaddr), bias+c13Up(p.Vaddr+p.Filesz)
				np := int((hi - lo) / c13Page)
				type piece struct{ i, j int }
				pieces := []piece{{0, np}}
				for k := 0; k < np && np > 1; k++ {
					pieces = append(pieces, piece{k, k + 1})
				}
				for _, pc := range pieces {
					m := &c13Map{start: lo + uint64(pc.i)*c13Page, limit: lo + uint64(pc.j)*c13Page, offset: c13Down(p.Off) + uint64(pc.i)*c13Page}
					olo, ohi := bias+p.Vaddr, bias+p.Vaddr+p.Filesz
					if olo < m.start {
						olo = m.start
					}
					if ohi > m.limit {
						ohi = m.limit
					}
					if olo >= ohi {
						continue
					}
					for _, a := range []uint64{olo, olo + (ohi-olo)/2, ohi - 1} {
						c13ObjAddr(c, "loader-reordered", lay, m, true, []uint64{a, olo}, int64(bias), fmt.Sprintf("reordered:%d", li))
					}
				}
			}
		}
	}
}

// the witnesses of known finding F23 (always generated)
func c13FindingF23(c *Ctx) {
	for _, v := range []uint64{0, 0x3000000000} {
		lay := c13Layout{etype: elf.ET_DYN, progs: []elf.ProgHeader{
			{Type: elf.PT_LOAD, Flags: elf.PF_R | elf.PF_X, Off: 0, Vaddr: v, Paddr: v, Filesz: 0x3000, Memsz: 0x3000, Align: 0x1000},
			{Type: elf.PT_LOAD, Flags: elf.PF_R | elf.PF_W, Off: 0x3000, Vaddr: v + 0x4000, Paddr: v + 0x4000, Filesz: 0x200, Memsz: 0x300, Align: 0x1000},
		}}
		if v == 0 {
			lay.progs = lay.progs[:1]
		}
		m := &c13Map{start: v + 0x1000, limit: v + 0x3000, offset: 0x1000}
		c13ObjAddr(c, "finding-F23", lay, m, true, []uint64{v + 0x1800, v + 0x2000}, 0, "F23-shape")
	}
}

// ---------------------------------------------------------------- unit-level generators

func c13U64(r *Rng) uint64 {
	switch r.Intn(12) {
	case 0:
		return 0
	case 1:
		return ^uint64(0)
	case 2:
		return 1 << 63
	case 3:
		return 1<<63 - 1
	case 4:
		return 0xffffffff80200000 + uint64(r.Intn(4))*0x198
	case 5:
		return 0xc000000000000000
	case 6:
		return uint64(r.Intn(16)) * c13Page
	case 7:
		return uint64(r.Intn(16))*c13Page + 0x198
	case 8:
		return 0xffffffff81000000 + uint64(r.Intn(3))*c13Page
	case 9:
		return ^uint64(0) - uint64(r.Intn(0x3000))
	case 10:
		return r.U64()
	}
	return uint64(r.Intn(1 << 24))
}

func c13GetBaseCases(c *Ctx, n int) {
	r := c.R
	types := []elf.Type{elf.ET_EXEC, elf.ET_EXEC, elf.ET_DYN, elf.ET_DYN, elf.ET_REL, elf.ET_NONE, elf.ET_CORE}
	for k := 0; k < n; k++ {
		et := types[r.Intn(len(types))]
		var seg *elf.ProgHeader
		if r.P(5, 6) {
			seg = &elf.ProgHeader{Type: elf.PT_LOAD, Flags: elf.PF_R | elf.PF_X, Off: c13U64(r), Vaddr: c13U64(r), Filesz: 0x1000, Memsz: 0x1000}
		}
		var st *uint64
		if r.P(1, 2) {
			v := c13U64(r)
			st = &v
		}
		start, limit, offset := c13U64(r), c13U64(r), c13U64(r)
		switch r.Intn(8) {
		case 0:
			if seg != nil { // kernelBase rule 1
				seg.Vaddr = start - offset
			}
		case 1:
			limit = start + uint64(1+r.Intn(1<<20))
		case 2:
			offset = start
			limit = start + 0x1000000
		case 3:
			if st != nil { // same in-page offset as start
				*st = (*st &^ 0xfff) | (start & 0xfff)
			}
		case 4:
			start, offset = 0, 0
		}
		c13GetBase(c, "getbase", et, seg, st, start, limit, offset)
	}
	// the empirical kernel tuples quoted in the source comments
	v, s := uint64(0xffffffff80200000), uint64(0xffffffff80200198)
	ks := &elf.ProgHeader{Type: elf.PT_LOAD, Flags: elf.PF_R | elf.PF_X, Off: 0x200000, Vaddr: v, Filesz: 0x1000000, Memsz: 0x1000000}
	for _, et := range []elf.Type{elf.ET_EXEC, elf.ET_DYN} {
		for _, st := range []*uint64{nil, &s} {
			c13GetBase(c, "getbase-kernel", et, ks, st, 0, 0x1000000, 0)
			c13GetBase(c, "getbase-kernel", et, ks, st, 0xffffffff83200000, 0xffffffff84200000, 0)
			c13GetBase(c, "getbase-kernel", et, ks, st, 0xffffffff83200198, 0xffffffff84200000, 0)
			c13GetBase(c, "getbase-kernel", et, ks, st, 0xffffffff83200000, 0xffffffff84200000, 0xc000000000000000)
			c13GetBase(c, "getbase-kernel", et, ks, st, 0xffffffff83200000, 0xffffffff84200000, 0xffffffff83200000)
			c13GetBase(c, "getbase-kernel", et, ks, st, 0x198, 0x2f9fffff, 0)
			c13GetBase(c, "getbase-kernel", et, ks, st, 0, ^uint64(0), 0)
			c13GetBase(c, "getbase-kernel", et, ks, st, 0, 0, 0)
		}
	}
}

func c13PHMCases(c *Ctx, n int) {
	r := c.R
	for k := 0; k < n; k++ {
		lay := c13GenLayout(r)
		phdrs := lay.progs
		if r.P(1, 10) && len(phdrs) > 0 { // extreme header (wrap-around of Off+Memsz)
			phdrs[r.Intn(len(phdrs))].Off = ^uint64(0) - uint64(r.Intn(0x2000))
		}
		p := phdrs[r.Intn(len(phdrs))]
		segLimit := p.Off + p.Memsz
		aligned := uint64(0)
		if p.Off > p.Vaddr&0xfff {
			aligned = p.Off - p.Vaddr&0xfff
		}
		offs := []uint64{0, p.Off, p.Off + 1, p.Off - 1, aligned, aligned - 1, aligned + 1, aligned + c13Page, segLimit, segLimit - 1,
			segLimit - c13Page, segLimit - c13Page + 1, segLimit - c13Page - 1, c13Down(p.Off), c13Down(segLimit), uint64(r.Intn(0x8000)), c13U64(r)}
		mapOff := offs[r.Intn(len(offs))]
		lims := []uint64{segLimit + c13Page, segLimit + c13Page - 1, segLimit + c13Page + 1, segLimit, p.Off, p.Off + 1, mapOff + c13Page,
			mapOff + 1, mapOff, c13Up(segLimit), c13Up(p.Off + p.Filesz), mapOff + uint64(r.Intn(0x6000)), c13U64(r)}
		mapLimit := lims[r.Intn(len(lims))]
		c13PHM(c, "phm", phdrs, mapOff, mapLimit-mapOff)
	}
}

func c13HFFOCases(c *Ctx, n int) {
	r := c.R
	for k := 0; k < n; k++ {
		lay := c13GenLayout(r)
		var hs []elf.ProgHeader
		for _, i := range lay.loads() {
			if r.P(4, 5) {
				hs = append(hs, lay.progs[i])
			}
		}
		if r.P(1, 8) && len(hs) > 0 {
			hs = append(hs, hs[r.Intn(len(hs))]) // the same header twice
		}
		if r.P(1, 10) && len(hs) > 0 {
			hs[r.Intn(len(hs))].Off = ^uint64(0) - uint64(r.Intn(0x2000))
		}
		fos := []uint64{0, uint64(r.Intn(0x8000)), c13U64(r)}
		for _, h := range hs {
			fos = append(fos, h.Off, h.Off-1, h.Off+h.Memsz, h.Off+h.Memsz-1, h.Off+h.Filesz, h.Off+h.Filesz-1)
		}
		c13HFFO(c, "hffo", hs, fos[r.Intn(len(fos))])
	}
}

// objaddr with arbitrary (not loader-made) mappings: error paths, kernel paths, nil mapping,
// open failure, no loadable segment, exotic ELF types.
func c13ObjAddrMisc(c *Ctx, n int) {
	r := c.R
	for k := 0; k < n; k++ {
		lay := c13GenLayout(r)
		switch r.Intn(10) {
		case 0:
			lay.etype = elf.ET_REL
		case 1:
			lay.etype = elf.ET_NONE
		case 2: // no PT_LOAD at all (.ko)
			var ps []elf.ProgHeader
			for _, p := range lay.progs {
				if p.Type != elf.PT_LOAD {
					ps = append(ps, p)
				}
			}
			lay.progs = ps
		}
		var m *c13Map
		if r.P(14, 15) {
			m = &c13Map{start: c13U64(r), limit: c13U64(r), offset: c13U64(r)}
			switch r.Intn(6) {
			case 0, 1, 2:
				m.start = uint64(1+r.Intn(1<<20)) * c13Page
				m.limit = m.start + uint64(1+r.Intn(64))*c13Page
				m.offset = uint64(r.Intn(8)) * c13Page
			case 3:
				m.limit = m.start + uint64(1+r.Intn(1<<24))
			}
			if r.P(1, 5) {
				v := c13U64(r)
				m.koff = &v
			}
		}
		openOK := !r.P(1, 15)
		var addrs []uint64
		for x := 1 + r.Intn(3); x > 0; x-- {
			switch {
			case m != nil && m.limit > m.start && r.P(3, 4):
				addrs = append(addrs, m.start+r.U64()%(m.limit-m.start))
			case m != nil && r.Bool():
				addrs = append(addrs, []uint64{m.start, m.limit, m.start - 1, m.limit - 1}[r.Intn(4)])
			default:
				addrs = append(addrs, c13U64(r))
			}
		}
		c13ObjAddr(c, "objaddr-misc", lay, m, openOK, addrs, -1)
	}
}

func c13NMCases(c *Ctx, n int) {
	r := c.R
	types := []string{"T", "t", "T", "t", "D", "d", "B", "b", "R", "r", "V", "v", "W", "w", "A", "U", "i", "?"}
	for k := 0; k < n; k++ {
		ns := r.Intn(13)
		base := []uint64{0, 0, 0x1000, 0x555555554000, 0x7f0000000000, ^uint64(0) - 0xfff, 1 << 63}[r.Intn(7)]
		var syms []c13Sym
		var junk []string
		addr := []uint64{0, 0x1000, 0x401000, 0x100}[r.Intn(4)]
		for i := 0; i < ns; i++ {
			if i > 0 && !r.P(1, 4) { // 1/4: same start as the previous symbol (aliases)
				addr += []uint64{1, 8, 0x10, 0x40, 0x1000, 0x12345}[r.Intn(6)]
			}
			size := []uint64{0, 0, 1, 8, 0x10, 0x40, 0x2000, 0x100000}[r.Intn(8)]
			if r.P(1, 40) {
				size = ^uint64(0) - uint64(r.Intn(0x100))
			}
			syms = append(syms, c13Sym{addr, size, fmt.Sprintf("sym%d", i), types[r.Intn(len(types))]})
			j := ""
			switch r.Intn(12) {
			case 0:
				j = "undefined U"
			case 1:
				j = fmt.Sprintf("nosize T %x", addr)
			case 2:
				j = "bad T zz 10"
			case 3:
				j = "bad2 T 10 -1"
			case 4:
				j = ""
			}
			junk = append(junk, j)
		}
		if r.P(1, 20) && len(syms) > 2 { // unsorted table (correspondence only)
			a, b := r.Intn(len(syms)), r.Intn(len(syms))
			syms[a].addr, syms[b].addr = syms[b].addr, syms[a].addr
		}
		var addrs []uint64
		for _, s := range syms {
			a := s.addr + base
			addrs = append(addrs, a, a-1, a+1, a+s.size, a+s.size-1)
		}
		addrs = append(addrs, 0, base, ^uint64(0), r.U64())
		// keep the case small: a random subset of at most 16 addresses, order preserved
		for len(addrs) > 16 {
			i := r.Intn(len(addrs))
			addrs = append(addrs[:i], addrs[i+1:]...)
		}
		c13NM(c, "nm", base, syms, junk, addrs)
	}
}

func runC13(c *Ctx) {
	c13FindingF23(c)
	c13ReorderedCases(c)
	c13EndToEnd(c)
	// the streams whose cases cost most to evaluate come first, so that their shards start in the
	// first wave of the parallel evaluation
	c13ConvCases(c, c.Budget(220, 10000))
	c13SessionCases(c, c.Budget(200, 8000))
	c13A2LNMCases(c, c.Budget(220, 10000))
	c13NMCases(c, c.Budget(220, 8000))
	c13LoaderCases(c, c.Budget(1100, 60000))
	c13GetBaseCases(c, c.Budget(250, 10000))
	c13PHMCases(c, c.Budget(300, 15000))
	c13HFFOCases(c, c.Budget(200, 6000))
	c13ObjAddrMisc(c, c.Budget(250, 10000))
	c13ToolCases(c, c.Budget(150, 3000))
	if c.Tier == "thorough" {
		c13RealBinaries(c)
	}
}
