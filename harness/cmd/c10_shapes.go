//go:build verif

package main

import (
	"fmt"
	"os"

	"github.com/google/pprof/internal/driver"
	"github.com/google/pprof/profile"
)

// Round 5: RARE BUT VALID INPUT SHAPES, as a deterministic part of every quick run, on the real
// report path (no harness-side oracle: the real interactive loop / web handlers print through the
// real internal/measurement, internal/graph, internal/report helpers), judged against a FRESH
// PROCESS so that anything a shared helper remembers process-wide shows.
//
// Family "magnitudes and units": one function with a huge value and one with a tiny value in a unit
// of each unit family, so that two reports of one session pick output units at the two ends of the
// family (M*GCU vs m*GCU, hrs vs ns, TB vs B), in both orders, automatically (unit=minimum) and
// explicitly (unit=...).  Neighbouring shapes: zero and negative values, exactly equal values,
// a location without mapping, a function with an empty name, a numeric tag in such a unit,
// duplicate sample types, a profile without samples, gaps in ids.

const c10ShapeProfileFile = "c10shape.pb"

type c10Shape struct {
	name  string
	unit  string
	bulk  int64
	tiny  int64
	extra func(p *profile.Profile)
}

func c10ShapeProfile(sh c10Shape) *profile.Profile {
	m := &profile.Mapping{ID: 1, Start: 0x1000, Limit: 0x9000, File: "/no/such/binary", HasFunctions: true}
	f1 := &profile.Function{ID: 1, Name: "bulk", SystemName: "bulk", Filename: "bulk.c"}
	f2 := &profile.Function{ID: 7, Name: "tiny", SystemName: "tiny", Filename: "tiny.c"} // gap in ids
	f3 := &profile.Function{ID: 9, Name: "main", SystemName: "main", Filename: "main.c"}
	l1 := &profile.Location{ID: 1, Mapping: m, Address: 0x1010, Line: []profile.Line{{Function: f1, Line: 4}}}
	l2 := &profile.Location{ID: 5, Mapping: m, Address: 0x1020, Line: []profile.Line{{Function: f2, Line: 7}}}
	l3 := &profile.Location{ID: 6, Mapping: m, Address: 0x1030, Line: []profile.Line{{Function: f3, Line: 9}}}
	p := &profile.Profile{
		SampleType: []*profile.ValueType{{Type: "samples", Unit: "count"}, {Type: "cost", Unit: sh.unit}},
		PeriodType: &profile.ValueType{Type: "cost", Unit: sh.unit}, Period: 1,
		Mapping:  []*profile.Mapping{m},
		Function: []*profile.Function{f1, f2, f3},
		Location: []*profile.Location{l1, l2, l3},
		Sample: []*profile.Sample{
			{Location: []*profile.Location{l1, l3}, Value: []int64{1, sh.bulk}},
			{Location: []*profile.Location{l2, l3}, Value: []int64{1, sh.tiny}},
		},
	}
	if sh.extra != nil {
		sh.extra(p)
	}
	return p
}

var c10Shapes = []c10Shape{
	{"gcu", "milligcu", 5000000000, 5, nil},
	{"gcu-rev", "gcu", 5000000, 0, func(p *profile.Profile) { p.Sample[1].Value[1] = 1 }}, // 5 M*GCU vs 1 GCU
	{"time", "nanoseconds", 5000000000000000, 5, nil},
	{"memory", "bytes", 5000000000000, 5, nil},
	{"count", "count", 5000000000, 5, nil},
	{"neg-zero-tie", "milliseconds", -5000000, 0, func(p *profile.Profile) { // negative, zero and exactly equal values
		p.Sample = append(p.Sample, &profile.Sample{Location: p.Sample[1].Location, Value: []int64{1, 0}},
			&profile.Sample{Location: []*profile.Location{p.Location[0]}, Value: []int64{1, -5000000}})
	}},
	{"no-mapping-empty-name", "milligcu", 5000000000, 5, func(p *profile.Profile) { // a location without mapping, a function without name
		p.Location[1].Mapping = nil
		p.Function[2].Name, p.Function[2].SystemName = "", ""
	}},
	{"numtag-units", "bytes", 4096, 5, func(p *profile.Profile) { // numeric tags at the two ends of a unit family
		p.Sample[0].NumLabel = map[string][]int64{"req": {5000000000}}
		p.Sample[0].NumUnit = map[string][]string{"req": {"milligcu"}}
		p.Sample[1].NumLabel = map[string][]int64{"req": {5}}
		p.Sample[1].NumUnit = map[string][]string{"req": {"milligcu"}}
	}},
	{"dup-types", "milligcu", 5000000000, 5, func(p *profile.Profile) { p.SampleType[0].Type = "cost" }}, // two sample types of one name
	{"inline-special-names", "nanoseconds", 5000000000000000, 5, func(p *profile.Profile) { // inlined lines at the leaf and at the root, names needing escaping
		p.Function[2].Name = "ns::tpl<a b>(\"q\")"
		p.Location[0].Line = append(p.Location[0].Line, profile.Line{Function: p.Function[2], Line: 3})
		p.Location[2].Line = append([]profile.Line{{Function: p.Function[1], Line: 8}}, p.Location[2].Line...)
	}},
	{"threshold", "bytes", 995, 5, nil}, // tiny is exactly nodefraction (0.5%) of the total
	{"extreme", "bytes", 9223372036854775807, -9223372036854775808, nil},
	{"no-samples", "milligcu", 0, 0, func(p *profile.Profile) { p.Sample = nil }},
}

var c10ShapeHistories = [][]string{
	{"top bulk", "top tiny", "top bulk", "top", "tree tiny", "top tiny"},
	{"top tiny", "top bulk", "top tiny", "peek bulk", "tags", "traces"},
	{"unit=m*GCU", "top", "unit=M*GCU", "top", "unit=minimum", "top tiny", "unit=auto", "top"},
	{"sample_index=0", "top", "sample_index=1", "top bulk", "mean=true", "top tiny", "top"},
}

// histories of commands that are NOT reports: what help / o / options print must not depend on what
// was printed before (the option tables they read are shared, package-level state)
var c10ShapeTalk = [][]string{
	{"help"},
	{"o", "help"},
	{"help", "options", "help", "o", "help granularity", "help sort", "help top", "help"},
	{"granularity=lines", "o", "sort=cum", "options", "help", "cum=0", "flat=1", "o", "help", "top"},
	{"help sample_index", "sample_index=1", "o", "help sample_index", "help nosuch", "o"},
}

var c10ShapeWeb = [][]string{
	{"/top?f=bulk", "/top?f=tiny", "/top?f=bulk", "/top", "/flamegraph?f=tiny", "/top?f=tiny"},
	{"/top?f=tiny", "/top?f=bulk", "/peek?f=tiny", "/flamegraph", "/top?f=tiny"},
	{"unit=m*GCU", "/top", "unit=M*GCU", "/top", "unit=minimum", "/top?f=tiny&unit=auto", "/top?f=bulk&unit=minimum"},
}

func c10RunShapes(c *Ctx, st *c10Stats) {
	defer os.Remove(c10ShapeProfileFile)
	n := 0
	for si, sh := range c10Shapes {
		p0 := c10ShapeProfile(sh)
		data := c10Serialize(p0)
		os.WriteFile(c10ShapeProfileFile, data, 0o644)
		p := c10ParseBack(p0) // both processes hold the decode of the same bytes
		ref := Render(DumpProfile(c10ParseBack(p)))
		p0dump := Render(DumpProfile(p))
		child := func(before driver.VerifConfig, line string) []string {
			r := c10RunChild(c10RefJob{Mode: "sess", Prof: c10ShapeProfileFile, Pairs: driver.VerifConfigDump(before), Lines: []string{c10CompactLine(before), line}}, st)
			c10LastRefOuts = r.Outs
			return r.Hashes
		}
		// the unit families get every history; the neighbouring shapes one session and one web sequence
		hs, ws := c10ShapeHistories, c10ShapeWeb
		if si >= 5 || (c.Tier != "thorough" && si >= 1 && si <= 4) {
			hs, ws = c10ShapeHistories[si%2:si%2+1], c10ShapeWeb[si%2:si%2+1]
		}
		for _, lines := range hs {
			c10History(c, fmt.Sprintf("session-shape-%s", sh.name), p, ref, p0dump, driver.VerifDefaultConfig(), lines, child, 10, st)
			n++
		}
		if si == 0 {
			for _, lines := range c10ShapeTalk {
				c10History(c, "session-talk", p, ref, p0dump, driver.VerifDefaultConfig(), lines, child, 10, st)
				n++
			}
		}
		for _, steps := range ws {
			c10WebSteps(c, fmt.Sprintf("web-shape-%s", sh.name), p, c10ShapeProfileFile, driver.VerifDefaultConfig(), steps, st)
			n++
		}
	}
	c.Extra["shape_histories"] = n
}
