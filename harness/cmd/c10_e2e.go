//go:build verif

package main

import (
	"bytes"
	"fmt"
	"net/http"
	"net/url"
	"os/exec"
	"path/filepath"
	"runtime"
	"strings"
	"sync"

	"github.com/google/pprof/internal/binutils"
	"github.com/google/pprof/internal/driver"
	"github.com/google/pprof/internal/plugin"
	"github.com/google/pprof/internal/transport"
	"github.com/google/pprof/profile"
)

// END-TO-END LAYER of C10: the same kind of histories as the other streams, but pushed through the
// real entry point driver.PProf: a real flag set parsed by parseFlags (the option state comes from
// command-line flags, M_Flags.apply_flags), the profile comes through the Fetch plug-in and the
// fetch / merge pipeline, the object tool is the real binutils adapter (objdump on a real binary
// for disasm / weblist / /disasm / /source), interactive commands write through plugin.Writer,
// web requests go to the handlers serveWebInterface registers with the HTTPServer hook.

type c10Flag struct{ name, value string }

func c10FlagArgs(fl []c10Flag) []string {
	var a []string
	for _, f := range fl {
		a = append(a, "-"+f.name+"="+f.value)
	}
	return a
}

func c10FlagTerm(fl []c10Flag) Term {
	l := []Term{}
	for _, f := range fl {
		l = append(l, L(S(f.name), S(f.value)))
	}
	return L(l...)
}

var c10FlagPool = []c10Flag{{"call_tree", "true"}, {"trim", "false"}, {"intel_syntax", "true"}, {"compact_labels", "false"}, {"mean", "true"},
	{"nodecount", "15"}, {"nodecount", "0"}, {"nodecount", "3"}, {"nodefraction", "0.1"}, {"edgefraction", "0"}, {"divide_by", "2"},
	{"focus", "main"}, {"focus", "foo|bar"}, {"ignore", "bar"}, {"hide", "f"}, {"show", "foo"}, {"show_from", "main"}, {"tagfocus", "k=v"}, {"tagignore", "w"},
	{"unit", "ms"}, {"tagroot", "k"}, {"tagleaf", "k"}, {"prune_from", "baz"}, {"relative_percentages", "true"}, {"drop_negative", "true"},
	{"noinlines", "true"}, {"showcolumns", "true"}, {"sample_index", "0"}, {"source_path", "s/p"}, {"trim_path", "/remote/build"},
	{"lines", "true"}, {"files", "true"}, {"functions", "true"}, {"addresses", "true"}, {"filefunctions", "true"}, {"cum", "true"}, {"flat", "true"},
	{"inuse_space", "true"}, {"alloc_objects", "true"}, {"contentions", "true"}, {"mean_delay", "true"}, {"total_delay", "true"},
	{"normalize", "true"}}

func c10GenFlags(r *Rng) []c10Flag {
	var fl []c10Flag
	seen := map[string]bool{}
	for i, n := 0, r.Intn(5); i < n; i++ {
		f := c10FlagPool[r.Intn(len(c10FlagPool))]
		if f.name == "normalize" && !r.P(1, 6) {
			continue
		}
		if !seen[f.name] { // the flag package keeps the last of a repeated flag; not exercised
			seen[f.name] = true
			fl = append(fl, f)
		}
	}
	return fl
}

func c10RepoRoot() string {
	_, file, _, _ := runtime.Caller(0) // <repo>/internal/zzverif/harness/c10_e2e.go (overlay path)
	return filepath.Dir(filepath.Dir(filepath.Dir(filepath.Dir(file))))
}

// c10ExeProfile: a cpu profile of internal/binutils/testdata/exe_linux_64 with its samples in main,
// so that the real object tool has something to disassemble.
func c10ExeProfile() *profile.Profile {
	exe := filepath.Join(c10RepoRoot(), "internal", "binutils", "testdata", "exe_linux_64")
	m := &profile.Mapping{ID: 1, Start: 0x400000, Limit: 0x401000, File: exe, HasFunctions: true}
	fn := &profile.Function{ID: 1, Name: "main", SystemName: "main", Filename: "hello.c"}
	l1 := &profile.Location{ID: 1, Mapping: m, Address: 0x400531, Line: []profile.Line{{Function: fn, Line: 4}}}
	l2 := &profile.Location{ID: 2, Mapping: m, Address: 0x400536, Line: []profile.Line{{Function: fn, Line: 4}}}
	return &profile.Profile{
		SampleType: []*profile.ValueType{{Type: "cpu", Unit: "milliseconds"}},
		PeriodType: &profile.ValueType{Type: "cpu", Unit: "milliseconds"},
		Period:     1,
		Sample: []*profile.Sample{
			{Location: []*profile.Location{l1}, Value: []int64{100}},
			{Location: []*profile.Location{l2}, Value: []int64{200}},
		},
		Mapping:  []*profile.Mapping{m},
		Location: []*profile.Location{l1, l2},
		Function: []*profile.Function{fn},
	}
}

func c10HaveObjdump() bool {
	if runtime.GOOS != "linux" || runtime.GOARCH != "amd64" {
		return false
	}
	_, err := exec.LookPath("objdump")
	return err == nil
}

func c10Serialize(p *profile.Profile) []byte {
	var buf bytes.Buffer
	if err := p.WriteUncompressed(&buf); err != nil {
		panic(err)
	}
	return buf.Bytes()
}

func c10E2EOptions(args []string, data []byte, ui plugin.UI, w plugin.Writer) *plugin.Options {
	return &plugin.Options{Flagset: newC09Flags(args), Fetch: c09Fetch{data}, Sym: c09Sym{}, Obj: &binutils.Binutils{},
		UI: ui, Writer: w, HTTPTransport: transport.New(nil)}
}

// c10Fetched: what PProf hands to the session / web UI for these flags (parse + fetch pipeline),
// used for the fresh references; nil if the command line is refused.
func c10Fetched(args []string, data []byte) *profile.Profile {
	restoreG := driver.VerifGlobals()
	defer restoreG()
	p, err := driver.VerifParseAndFetch(c10E2EOptions(args, data, c10NullUI{}, &c10MemWriter{}))
	if err != nil {
		c10LastRefusal = err.Error()
		return nil
	}
	return p
}

var c10LastRefusal string

func c10E2ESession(c *Ctx, gen string, fl []c10Flag, p0 *profile.Profile, lines []string, st *c10Stats) {
	data := c10Serialize(p0)
	args := append(c10FlagArgs(fl), "p")
	driver.VerifSetCurrentConfig(driver.VerifDefaultConfig())
	fetched := c10Fetched(args, data)
	strs := map[string]bool{}
	for _, f := range fl {
		strs[f.value] = true
	}
	for _, l := range lines {
		if i := strings.Index(l, "="); i >= 0 {
			v := l[i+1:]
			if j := strings.LastIndex(v, "//:"); j >= 0 {
				v = v[:j]
			}
			strs[strings.TrimSpace(v)] = true
		}
	}
	c19CollectCfg(strs, driver.VerifDefaultConfig())
	in := L(S("e2e"), c19PfTable(strs), Ss(c10Types(p0)), S(p0.DefaultSampleType), c10FlagTerm(fl), Ss(lines))
	if fetched == nil {
		// the command line is refused: PProf must say so and start nothing
		ui := c10SessionCore("", lines, func(ui *c10UI, mw *c10MemWriter) {
			driver.VerifSetCurrentConfig(driver.VerifDefaultConfig())
			ui.e2eErr = driver.PProf(c10E2EOptions(args, data, ui, mw))
		})
		c.Extra["e2e_refusals"] = fmt.Sprint(c.Extra["e2e_refusals"]) + " | " + c10LastRefusal
		c.Case(gen, in, L(S("refused"), Bool(ui.e2eErr != nil), ZI(ui.pos)), true, "op:e2e", "e2e:refused")
		return
	}
	ref := Render(DumpProfile(c10ParseBack(fetched)))
	ui := c10SessionCore(ref, lines, func(ui *c10UI, mw *c10MemWriter) {
		driver.VerifSetCurrentConfig(driver.VerifDefaultConfig())
		ui.e2eErr = driver.PProf(c10E2EOptions(args, data, ui, mw))
	})
	inProc := func(before driver.VerifConfig, line string) []string {
		fr := c10Session(fetched, ref, before, []string{c10CompactLine(before), line})
		if len(fr.ev) != 2 {
			return nil
		}
		return c10ReportHashes(fr.ev[1])
	}
	var lineT []Term
	nt := false
	for li := 0; li < ui.pos; li++ {
		before := ui.start
		if li > 0 {
			before = ui.after[li-1]
		}
		var evT []Term
		var first []string
		for ei, e := range ui.ev[li] {
			same := true
			if e.kind == "r" {
				st.reports++
				nt = true
				if first == nil {
					first = inProc(before, lines[li])
				}
				same = ei < len(first) && first[ei] == e.hash
				for attempt := 0; attempt < 20 && !same && c10RetryBudget > 0; attempt++ {
					c10RetryBudget--
					again := inProc(before, lines[li])
					if ei < len(again) && (again[ei] == e.hash || (ei < len(first) && again[ei] != first[ei])) {
						st.flaky++
						same = true
					}
				}
				if !same {
					st.leaks++
					if _, have := c.Extra["e2e_mismatch_sample"]; !have && ei < len(c10LastRefOuts) {
						c.Extra["e2e_mismatch_sample"] = lines[li] + ": " + c10FirstDiff(e.out, c10LastRefOuts[ei])
					}
				}
			}
			evT = append(evT, c10EventTerm(e, same))
		}
		lineT = append(lineT, L(L(evT...), c19CfgTerm(ui.after[li])))
	}
	obs := L(c19CfgTerm(ui.start), L(lineT...), Bool(ui.e2eErr == nil && ui.panicked == ""))
	c.Case(gen, in, obs, nt, "op:e2e")
}

func c10E2EWeb(c *Ctx, gen string, fl []c10Flag, p0 *profile.Profile, reqs []c10Req, concurrent bool, st *c10Stats) {
	data := c10Serialize(p0)
	args := append(c10FlagArgs(fl), "-http=localhost:18081", "-no_browser", "p")
	driver.VerifSetCurrentConfig(driver.VerifDefaultConfig())
	restoreG := driver.VerifGlobals()
	defer restoreG()
	fetched := c10Fetched(args, data)
	strs := map[string]bool{}
	for _, f := range fl {
		strs[f.value] = true
	}
	c19CollectCfg(strs, driver.VerifDefaultConfig())
	var rT []Term
	for _, rq := range reqs {
		c19Collect(strs, rq.q)
		rT = append(rT, L(S(rq.path), c19ValuesTerm(rq.q)))
	}
	in := L(S("e2eweb"), c19PfTable(strs), c10FlagTerm(fl), L(rT...), Bool(concurrent))
	codes := make([]int, len(reqs))
	hashes := make([]string, len(reqs))
	var startCfg, endCfg driver.VerifConfig
	served := false
	o := c10E2EOptions(args, data, c10NullUI{}, &c10MemWriter{})
	o.HTTPServer = func(a *plugin.HTTPServerArgs) error {
		served = true
		startCfg = driver.VerifCurrentConfig()
		if concurrent {
			var wg sync.WaitGroup
			for i := range reqs {
				wg.Add(1)
				go func(i int) {
					defer wg.Done()
					codes[i], hashes[i] = c10Do(a.Handlers, reqs[i])
				}(i)
			}
			wg.Wait()
		} else {
			for i := range reqs {
				codes[i], hashes[i] = c10Do(a.Handlers, reqs[i])
			}
		}
		endCfg = driver.VerifCurrentConfig()
		return nil
	}
	driver.VerifSetCurrentConfig(driver.VerifDefaultConfig())
	err := driver.PProf(o)
	if fetched == nil || !served {
		c.Case(gen, in, L(S("refused"), Bool(err != nil), Bool(served)), true, "op:e2eweb", "e2e:refused")
		return
	}
	var oT []Term
	for i, rq := range reqs {
		fresh := func() (int, string) {
			driver.VerifSetCurrentConfig(startCfg)
			h, herr := driver.VerifWeb(fetched, driver.VerifSetDefaults(&plugin.Options{UI: c10NullUI{}, Writer: &c10MemWriter{}, HTTPTransport: transport.New(nil)}))
			if herr != nil {
				panic(herr)
			}
			return c10Do(h, rq)
		}
		fc, fh := fresh()
		same := fc == codes[i] && fh == hashes[i]
		for attempt := 0; attempt < 20 && !same && c10RetryBudget > 0; attempt++ {
			c10RetryBudget--
			fc2, fh2 := fresh()
			if (fc2 == codes[i] && fh2 == hashes[i]) || fh2 != fh {
				st.flaky++
				same = true
			}
		}
		if !same {
			st.leaks++
		}
		oT = append(oT, L(ZI(codes[i]), Bool(same)))
	}
	cfgSame := Render(c19CfgTerm(startCfg)) == Render(c19CfgTerm(endCfg))
	c.Case(gen, in, L(c19CfgTerm(startCfg), L(oT...), Bool(cfgSame)), true, "op:e2eweb", fmt.Sprintf("concurrent:%v", concurrent))
}

// c10DistinctTypes: the fetch pipeline (profile.CompatibilizeSampleTypes) refuses a single profile
// whose sample types repeat a name ("profiles have empty common sample type list"); that is not
// C10's subject, so end-to-end profiles get distinct sample type names.
func c10DistinctTypes(p *profile.Profile) *profile.Profile {
	seen := map[string]int{}
	for _, st := range p.SampleType {
		seen[st.Type]++
		if seen[st.Type] > 1 {
			st.Type = fmt.Sprintf("%s%d", st.Type, seen[st.Type])
		}
	}
	return p
}

func c10RunE2E(c *Ctx, fields []driver.VerifField, st *c10Stats) {
	q := func(kv ...string) url.Values {
		v := url.Values{}
		for i := 0; i+1 < len(kv); i += 2 {
			v[kv[i]] = []string{kv[i+1]}
		}
		return v
	}
	// deterministic part: the real object tool on a real binary, options that reach it changing
	// between commands / requests
	if c10HaveObjdump() {
		exe := c10ExeProfile
		for i, h := range []struct {
			fl    []c10Flag
			lines []string
		}{
			{nil, []string{"disasm main", "intel_syntax=true", "disasm main", "weblist main >w", "intel_syntax=false", "disasm main", "list main"}},
			{[]c10Flag{{"intel_syntax", "true"}}, []string{"disasm main", "intel_syntax=false", "disasm main", "intel_syntax=true", "disasm main"}},
			{nil, []string{"weblist main >w", "intel_syntax=1", "weblist main >w", "disasm main"}},
			{[]c10Flag{{"nodecount", "3"}, {"cum", "true"}}, []string{"top", "disasm main", "top 1", "intel_syntax=true", "disasm .", "top"}},
		} {
			c10E2ESession(c, fmt.Sprintf("e2e-session-exe%d", i), h.fl, exe(), h.lines, st)
		}
		for i, h := range []struct {
			fl   []c10Flag
			reqs []c10Req
		}{
			{nil, []c10Req{{"/disasm", q("f", "main")}, {"/disasm", q("f", "main", "intel", "t")}, {"/disasm", q("f", "main")},
				{"/source", q("f", "main", "intel", "t")}, {"/source", q("f", "main")}, {"/top", q()}}},
			{[]c10Flag{{"intel_syntax", "true"}}, []c10Req{{"/disasm", q("f", "main")}, {"/disasm", q("f", "main", "intel", "f")}, {"/disasm", q("f", "main")}}},
			{nil, []c10Req{{"/source", q("f", "main")}, {"/source", q("f", "main", "intel", "t")}, {"/disasm", q("f", "main", "intel", "t")}, {"/disasm", q("f", "main")}}},
		} {
			c10E2EWeb(c, fmt.Sprintf("e2e-web-exe%d", i), h.fl, exe(), h.reqs, false, st)
		}
		c.Extra["e2e_objdump"] = true
	} else {
		c.Extra["e2e_objdump"] = false
	}
	// a refused command line
	c10E2ESession(c, "e2e-session-refused", []c10Flag{{"cum", "true"}, {"flat", "true"}}, c10Profile(NewRng(3)), []string{"top"}, st)
	c10E2ESession(c, "e2e-session-refused", []c10Flag{{"normalize", "true"}}, c10Profile(NewRng(4)), []string{"top"}, st)
	// random part: generated profiles, flag combinations, histories
	for k := 0; k < c.Budget(40, 500); k++ {
		p := c10DistinctTypes(c10Profile(c.R))
		var lines []string
		for i, n := 0, 2+c.R.Intn(6); i < n; i++ {
			lines = append(lines, c10Line(c.R, fields, c10Types(p)))
		}
		c10E2ESession(c, "e2e-session", c10GenFlags(c.R), p, lines, st)
	}
	paths := []string{"/top", "/peek", "/flamegraph", "/", "/source", "/disasm"}
	for k := 0; k < c.Budget(20, 250); k++ {
		p := c10DistinctTypes(c10Profile(c.R))
		var reqs []c10Req
		for i, n := 0, 2+c.R.Intn(4); i < n; i++ {
			qq := url.Values{}
			if c.R.Bool() {
				qq = c19GenQuery(c.R, fields, 1+c.R.Intn(3))
			}
			path := PickS(c.R, paths)
			if path == "/peek" || path == "/source" || path == "/disasm" {
				qq["f"] = []string{PickS(c.R, []string{"main", "foo", ".", "bar|baz"})}
			}
			reqs = append(reqs, c10Req{path, qq})
		}
		c10E2EWeb(c, "e2e-web", c10GenFlags(c.R), p, reqs, c.R.Bool(), st)
	}
}

var _ = http.StatusOK
