//go:build verif

package main

import (
	"fmt"
	"os"
	"regexp"
	"strings"

	"github.com/google/pprof/internal/driver"
	"github.com/google/pprof/profile"
)

// C14, Java heapz / contentionz through the driver.  These legacy formats carry their own symbol table, so
// the drop/keep-frame tables attached by addLegacyFrameInfo are applied for real (fetchProfiles ->
// RemoveUninteresting -> Prune) before pprof -traces prints anything.  The stream drives the REAL path
// (file fetch, ParseData, RemoveUninteresting, report) and compares the printed traces with
// coq/M_LegacyGlue.v java_traces; only the answers of the two regular expressions per function name come
// from the harness (computed with the real tables; names are free of '(' and leading '.', so simplifyFunc
// is the identity on them).

type c14JRec struct {
	a, b  string
	stack []string // function names, leaf first
}

type c14JDoc struct {
	contention bool
	period     string
	recs       []c14JRec
}

func (d c14JDoc) names() []string {
	var ns []string
	seen := map[string]bool{}
	for _, r := range d.recs {
		for _, n := range r.stack {
			if !seen[n] {
				seen[n] = true
				ns = append(ns, n)
			}
		}
	}
	return ns
}

func (d c14JDoc) addr(name string) string {
	for i, n := range d.names() {
		if n == name {
			return c14Hx(0x1000 + uint64(i)*0x10)
		}
	}
	return "0"
}

func (d c14JDoc) bytes() []byte {
	var sb strings.Builder
	if d.contention {
		sb.WriteString("--- contentionz 1 ---\nformat = java\nresolution = microseconds\n")
		if d.period != "" {
			sb.WriteString("sampling period = " + d.period + "\n")
		}
		sb.WriteString("ms since reset = 6019923\n")
	} else {
		sb.WriteString("--- heapz 1 ---\nformat = java\nresolution = bytes\n")
	}
	for _, r := range d.recs {
		sb.WriteString("  " + r.a + " " + r.b + " @")
		for _, n := range r.stack {
			sb.WriteString(" 0x" + d.addr(n))
		}
		sb.WriteString("\n")
	}
	sb.WriteString("\n")
	for i, n := range d.names() {
		fmt.Fprintf(&sb, " 0x%s %s (File%d.java:%d)\n", d.addr(n), n, i, 10+i)
	}
	return []byte(sb.String())
}

func (d c14JDoc) term() Term {
	alloc, allocSkip, lock, _ := profile.VerifLegacyFrameRx()
	drop, keep := regexp.MustCompile("^("+alloc+")$"), regexp.MustCompile("^("+allocSkip+")$")
	if d.contention {
		drop, keep = regexp.MustCompile("^("+lock+")$"), nil
	}
	var recs, locs []Term
	var droppable []string
	for _, r := range d.recs {
		var as []string
		for _, n := range r.stack {
			as = append(as, d.addr(n))
		}
		recs = append(recs, L(S(r.a), S(r.b), Ss(as)))
	}
	for _, n := range d.names() {
		locs = append(locs, L(S(d.addr(n)), S(n)))
		if drop.MatchString(n) && (keep == nil || !keep.MatchString(n)) {
			droppable = append(droppable, n)
		}
	}
	return L(Bool(d.contention), S(d.period), L(recs...), L(locs...), Ss(droppable))
}

// c14ParseNameTraces: rows (value, frame names) of a -traces report; heap values are unsampled (exp) and not compared
func c14ParseNameTraces(out string, withValues bool) Term {
	const sep = "-----------+-------------------------------------------------------"
	var rows []Term
	var cur []string
	var val Term = Z(0)
	in := false
	flush := func() {
		if cur != nil {
			rows = append(rows, L(val, Ss(cur)))
		}
		cur, val = nil, Z(0)
	}
	for _, line := range strings.Split(out, "\n") {
		switch {
		case line == sep:
			flush()
			in = true
		case !in, strings.TrimSpace(line) == "":
		case cur == nil && c14LabelLine.MatchString(line):
		case cur == nil:
			t := strings.TrimLeft(line, " ")
			k := strings.IndexByte(t, ' ')
			if k < 0 {
				cur = []string{"<no name>"}
				continue
			}
			if withValues {
				val = c14Value(t[:k])
			}
			cur = append(cur, strings.TrimSpace(t[k:]))
		default:
			cur = append(cur, strings.TrimSpace(line))
		}
	}
	return L(rows...)
}

func c14RunJavaCLI(d c14JDoc, gz bool) (obs Term) {
	defer func() {
		if r := recover(); r != nil {
			obs = L(S("panic"), S(fmt.Sprint(r)))
		}
	}()
	if !c09Reset() {
		return L(S("harness-poisoned"))
	}
	src := c14WriteDoc(d.bytes(), gz)
	defer os.Remove(src)
	w := &c14CapWriter{}
	o := c14BaseOptions([]string{"-traces", "-symbolize=none", "-unit=microseconds", "-output=out", src}, &c09UI{}, w)
	if err := driver.PProf(o); err != nil {
		return L(S("err"))
	}
	b := w.bufs["out"]
	if b == nil {
		return L(S("no-output"))
	}
	return c14ParseNameTraces(b.String(), d.contention)
}

// c14JavaDocs: stacks made of user frames (U) and frames of the drop table (D) in every position relative to
// the first user frame, all-droppable stacks after and before records with user frames, equal records, a name
// rescued by the keep table.
func c14JavaDocs() []c14JDoc {
	var out []c14JDoc
	for _, contention := range []bool{false, true} {
		U := []string{"java.lang.Thread.run", "com.example.Main.work", "Foo.bar"}
		D := []string{"malloc", "tc_malloc", "operator new", "allocate", "calloc"}
		kept := "runtime.panic"
		if contention {
			D = []string{"Unlock", "Mutex::Unlock", "~MutexLock", "AwaitCommon", "RecordLockProfileData"}
			kept = "UnlockSlow" // also droppable for contention (no keep table)
		}
		stacks := [][]string{
			{U[1], U[0]},
			{D[0]},             // all droppable, after a record with a user frame
			{D[1], D[2]},       // tc_malloc <- operator new
			{D[0], U[1], D[3]}, // root droppable (kept), leaf droppable (pruned)
			{U[2], D[4], U[0]}, // droppable in the middle: it and everything leaf-ward go
			{D[2], U[1]},
			{U[2]},
			{D[0]}, // equal record again
			{kept, U[0]},
			{D[3], D[0], D[1]},
		}
		for variant := 0; variant < 3; variant++ {
			d := c14JDoc{contention: contention}
			if contention && variant != 1 {
				d.period = []string{"100", "", "7"}[variant]
			}
			order := stacks
			if variant == 1 { // the all-droppable records come FIRST
				order = append([][]string{{D[0]}, {D[1], D[2]}}, stacks...)
			}
			if variant == 2 { // only droppable stacks in the whole document
				order = [][]string{{D[0]}, {D[1], D[2]}, {D[3], D[0], D[1]}}
			}
			for i, st := range order {
				d.recs = append(d.recs, c14JRec{a: fmt.Sprint(600 + 24*i), b: fmt.Sprint(i%3 + 1), stack: st})
			}
			out = append(out, d)
		}
	}
	return out
}

func c14RunJava(c *Ctx) {
	flags := L(Bool(false), Bool(false))
	for i, d := range c14JavaDocs() {
		for _, gz := range []bool{false, true} {
			in := L(S("e2e-java"), S("java"), d.term(), S(""), L(), flags, L(Bool(gz)))
			c.Case("e2e-java", in, c14RunJavaCLI(d, gz), true, "fmt:java", "kind:e2e-java", fmt.Sprintf("java:doc%d", i))
		}
	}
	c09Cleanup()
}
