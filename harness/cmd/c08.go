//go:build verif

package main

// C08 -- identical inputs and options give byte-identical output.
//
// Case streams (see coq/R_C08.v for the model side):
//
//	cmp  : (comparator name, 2..3 elements)  -> the k x k matrix of the implementation's Less answers
//	sort : (comparator name, elements)       -> the order the implementation's sort produces
//	name : NodeInfo                          -> PrintableName, fmt.Sprint (key functions of the chains)
//	det  : (format, options, profile, nodes of the report's full graph)
//	       -> number of distinct byte strings over K in-process repetitions (Go re-randomises the
//	          order of every map range) on fresh copies of the profile
//	ser  : profile -> number of distinct serializations (compressed, uncompressed, text)
//	ent  : node with edges -> number of distinct entropyScore results over repetitions

import (
	"bytes"
	"crypto/sha256"
	"fmt"
	"math"
	"os"
	"runtime/debug"
	"sort"
	"strings"

	"github.com/google/pprof/internal/graph"
	"github.com/google/pprof/internal/report"
	"github.com/google/pprof/profile"
)

func init() { registry["C08"] = runC08 }

// ------------------------------------------------------------------------------- element dumps

func dumpInfo(i graph.NodeInfo) Term {
	return L(S(i.Name), S(i.OrigName), ZU(i.Address), S(i.File), ZI(i.StartLine), ZI(i.Lineno), ZI(i.Columnno), S(i.Objfile))
}

func dumpNode(id int, n *graph.Node, score int64) Term {
	return L(ZI(id), dumpInfo(n.Info), Z(n.Flat), Z(n.Cum), Z(score))
}

var c08Names = []string{"f", "g", "main", "a b", "a", "b", ""}
var c08Files = []string{"", "x.go", "dir/y.c", "a 0 0 0 b", "a"}
var c08Objs = []string{"", "/bin/x", "lib.so", "b 0 0 0 ", "/usr/lib/", "/"}
var c08Vals = []int64{0, 5, -5, 7, -7, 5, -5, 1, 100, -100, 1 << 62, math.MaxInt64, -math.MaxInt64, math.MinInt64}

func c08Info(r *Rng) graph.NodeInfo {
	i := graph.NodeInfo{Name: PickS(r, c08Names)}
	if r.P(1, 3) {
		i.OrigName = PickS(r, []string{"_Zf", "g", "a b"})
	}
	if r.P(1, 3) {
		i.Address = PickI64U(r, []uint64{0x1000, 0x2000, 1 << 63, math.MaxUint64, 10})
	}
	if r.P(1, 2) {
		i.File = PickS(r, c08Files)
	}
	if r.P(1, 3) {
		i.StartLine = r.Intn(3) * 7
	}
	if r.P(1, 3) {
		i.Lineno = []int{1, 5, -2, 10}[r.Intn(4)]
	}
	if r.P(1, 4) {
		i.Columnno = 1 + r.Intn(3)
	}
	if r.P(1, 3) {
		i.Objfile = PickS(r, c08Objs)
	}
	return i
}

func PickI64U(r *Rng, l []uint64) uint64 { return l[r.Intn(len(l))] }

// mutateInfo changes one field (near-duplicates: equal names at different addresses / files /
// start lines / object files).
func mutateInfo(r *Rng, i graph.NodeInfo) graph.NodeInfo {
	switch r.Intn(9) {
	case 0:
		i.Name = PickS(r, c08Names)
	case 1:
		i.OrigName = PickS(r, []string{"", "_Zf", "g"})
	case 2:
		i.Address = PickI64U(r, []uint64{0, 0x1000, 0x2000})
	case 3:
		i.File = PickS(r, c08Files)
	case 4:
		i.StartLine = r.Intn(3) * 7
	case 5:
		i.Lineno = r.Intn(3)
	case 6:
		i.Columnno = r.Intn(3)
	case 7:
		i.Objfile = PickS(r, c08Objs)
	}
	return i
}

func newNode(i graph.NodeInfo, flat, cum int64) *graph.Node {
	return &graph.Node{Info: i, Flat: flat, Cum: cum, In: graph.EdgeMap{}, Out: graph.EdgeMap{},
		LabelTags: graph.TagMap{}, NumericTags: map[string]graph.TagMap{}}
}

func cloneNode(n *graph.Node) *graph.Node {
	c := newNode(n.Info, n.Flat, n.Cum)
	for k, e := range n.In {
		c.In[k] = &graph.Edge{Src: k, Dest: c, Weight: e.Weight}
	}
	for k, e := range n.Out {
		c.Out[k] = &graph.Edge{Src: c, Dest: k, Weight: e.Weight}
	}
	return c
}

var nodeOrders = []struct {
	name string
	o    graph.NodeOrder
}{{"FlatNameOrder", graph.FlatNameOrder}, {"FlatCumNameOrder", graph.FlatCumNameOrder}, {"CumNameOrder", graph.CumNameOrder},
	{"NameOrder", graph.NameOrder}, {"FileOrder", graph.FileOrder}, {"AddressOrder", graph.AddressOrder}, {"EntropyOrder", graph.EntropyOrder}}

// nodeLess observes the closure of Nodes.Sort(o) on (a, b): sorting the two-element slice {a, b}
// swaps exactly when less(b, a); so less(a, b) is "sorting {b, a} swaps".
func nodeLess(o graph.NodeOrder, a, b *graph.Node) bool {
	if a == b {
		b = cloneNode(a)
	}
	ns := graph.Nodes{b, a}
	ns.Sort(o)
	return ns[0] == a
}

func c08Guard(f func() Term) (t Term) {
	defer func() {
		if e := recover(); e != nil {
			t = L(S("panic"), S(fmt.Sprint(e)))
		}
	}()
	return f()
}

func matrix(k int, less func(i, j int) bool) Term {
	return c08Guard(func() Term {
		var m []Term
		for i := 0; i < k; i++ {
			for j := 0; j < k; j++ {
				m = append(m, Bool(less(i, j)))
			}
		}
		return L(m...)
	})
}

// ------------------------------------------------------------------------------- cmp / sort / name

func c08Value(r *Rng) int64 { return PickI(r, c08Vals) }

func genNodes(r *Rng, k int) []*graph.Node {
	base := c08Info(r)
	bf, bc := c08Value(r), c08Value(r)
	var ns []*graph.Node
	for i := 0; i < k; i++ {
		info, fl, cu := base, bf, bc
		switch r.Intn(12) {
		case 0: // exact duplicate of the base (call-tree style, F19)
		case 1, 2, 3, 4, 5:
			info = mutateInfo(r, base)
		case 6, 7:
			info = mutateInfo(r, mutateInfo(r, base))
			fl = c08Value(r)
		case 8, 9:
			fl, cu = -bf, -bc
			info = mutateInfo(r, base)
		default:
			info, fl, cu = c08Info(r), c08Value(r), c08Value(r)
		}
		if r.P(1, 5) {
			cu = c08Value(r)
		}
		n := newNode(info, fl, cu)
		// a few edges so that entropyScore is exercised (at most two per direction: the float
		// accumulation over more than two edges depends on map order, see stream "ent")
		for d := 0; d < 2; d++ {
			for e := r.Intn(3); e > 0; e-- {
				o := newNode(graph.NodeInfo{Name: fmt.Sprint("o", e)}, 0, 0)
				w := int64(1 + r.Intn(4))
				if d == 0 {
					n.In[o] = &graph.Edge{Src: o, Dest: n, Weight: w}
				} else {
					n.Out[o] = &graph.Edge{Src: n, Dest: o, Weight: w}
				}
			}
		}
		ns = append(ns, n)
	}
	return ns
}

func smallScore(n *graph.Node) bool {
	return n.Cum > -(1<<40) && n.Cum < 1<<40 && n.Flat > -(1<<40) && n.Flat < 1<<40
}

func genTags(r *Rng, k int) []*graph.Tag {
	var ts []*graph.Tag
	names := []string{"t", "u", "t", "key:v", "", "1MB"}
	for i := 0; i < k; i++ {
		ts = append(ts, &graph.Tag{Name: PickS(r, names), Flat: c08Value(r), Cum: c08Value(r)})
	}
	if k >= 2 && r.P(1, 2) {
		ts[1].Flat = -ts[0].Flat
		if r.Bool() {
			ts[1].Cum = -ts[0].Cum
		}
	}
	return ts
}

func dumpTag(t *graph.Tag) Term { return L(S(t.Name), Z(t.Flat), Z(t.Cum)) }

func c08Cmp(c *Ctx) {
	r := c.R
	// nodes
	for n := c.Budget(1400, 25000); n > 0; n-- {
		k := 2 + r.Intn(2)
		ns := genNodes(r, k)
		ord := nodeOrders[r.Intn(len(nodeOrders))]
		if ord.name == "EntropyOrder" {
			ok := true
			for _, x := range ns {
				ok = ok && smallScore(x)
			}
			if !ok {
				ord = nodeOrders[0]
			}
		}
		var els []Term
		for i, x := range ns {
			els = append(els, dumpNode(i+1, x, graph.VerifEntropyScore(x)))
		}
		obs := matrix(k, func(i, j int) bool { return nodeLess(ord.o, ns[i], ns[j]) })
		c.Case("cmp-node", L(S("cmp"), S(ord.name), L(els...)), obs, true, "cmp:"+ord.name)
		if r.P(1, 4) {
			obs := matrix(k, func(i, j int) bool { return graph.VerifCompareNodes(ns[i], ns[j]) })
			c.Case("cmp-node", L(S("cmp"), S("compareNodes"), L(els...)), obs, true, "cmp:compareNodes")
		}
		if r.P(1, 3) {
			cp := append(graph.Nodes{}, ns...)
			obs := c08Guard(func() Term {
				cp.Sort(ord.o)
				var ids []Term
				for _, x := range cp {
					for i, y := range ns {
						if x == y {
							ids = append(ids, ZI(i+1))
						}
					}
				}
				return L(ids...)
			})
			c.Case("sort-node", L(S("sort"), S(ord.name), L(els...)), obs, true, "sort:"+ord.name)
		}
	}
	// edges: endpoints drawn from a small node set so that names collide
	for n := c.Budget(700, 10000); n > 0; n-- {
		k := 2 + r.Intn(2)
		pool := genNodes(r, 3)
		var es []*graph.Edge
		var els []Term
		w0 := c08Value(r)
		for i := 0; i < k; i++ {
			si, di := r.Intn(3), r.Intn(3)
			w := w0
			switch r.Intn(4) {
			case 0:
				w = -w0
			case 1:
				w = c08Value(r)
			}
			e := &graph.Edge{Src: pool[si], Dest: pool[di], Weight: w}
			es = append(es, e)
			els = append(els, L(dumpNode(si+1, pool[si], 0), dumpNode(di+1, pool[di], 0), Z(w)))
		}
		obs := matrix(k, func(i, j int) bool { return graph.VerifEdgeLess(es[i], es[j]) })
		c.Case("cmp-edge", L(S("cmp"), S("edgeList.Less"), L(els...)), obs, true, "cmp:edgeList.Less")
		if r.P(1, 3) {
			// EdgeMap.Sort ranges over a map: the result must not depend on the iteration order
			em := graph.EdgeMap{}
			for _, e := range es {
				em[&graph.Node{}] = e
			}
			obs := c08Guard(func() Term {
				var ids []Term
				for _, x := range em.Sort() {
					for i, y := range es {
						if x == y {
							ids = append(ids, ZI(i))
						}
					}
				}
				return L(ids...)
			})
			c.Case("sort-edge", L(S("sort"), S("edgeList.Less"), L(els...)), obs, true, "sort:edgeList.Less")
		}
	}
	// tags
	for n := c.Budget(600, 10000); n > 0; n-- {
		k := 2 + r.Intn(2)
		ts := genTags(r, k)
		flat := r.Bool()
		name := "tags.Less/cum"
		if flat {
			name = "tags.Less/flat"
		}
		var els []Term
		for _, t := range ts {
			els = append(els, dumpTag(t))
		}
		obs := matrix(k, func(i, j int) bool { return graph.VerifTagsLess(ts[i], ts[j], flat) })
		c.Case("cmp-tag", L(S("cmp"), S(name), L(els...)), obs, true, "cmp:"+name)
		if r.P(1, 3) {
			cp := append([]*graph.Tag{}, ts...)
			obs := c08Guard(func() Term {
				var ids []Term
				for _, x := range graph.SortTags(cp, flat) {
					for i, y := range ts {
						if x == y {
							ids = append(ids, ZI(i))
						}
					}
				}
				return L(ids...)
			})
			c.Case("sort-tag", L(S("sort"), S(name), L(els...)), obs, true, "sort:"+name)
		}
	}
	// key functions
	for n := c.Budget(500, 5000); n > 0; n-- {
		i := c08Info(r)
		if r.Bool() {
			i = mutateInfo(r, i)
		}
		c.Case("name", L(S("name"), dumpInfo(i)), L(S(i.PrintableName()), S(fmt.Sprint(i))), true, "name")
	}
	c08FindingWitnesses(c)
}

// the witnesses of the recorded findings are generated on every run
func c08FindingWitnesses(c *Ctx) {
	// F8: two different NodeInfos with the same fmt.Sprint
	a := newNode(graph.NodeInfo{Name: "f", File: "a 0 0 0 b"}, 1, 1)
	b := newNode(graph.NodeInfo{Name: "f", File: "a", Objfile: "b 0 0 0 "}, 1, 1)
	ns := []*graph.Node{a, b}
	els := []Term{dumpNode(1, a, graph.VerifEntropyScore(a)), dumpNode(2, b, graph.VerifEntropyScore(b))}
	c.Case("finding-F8", L(S("cmp"), S("NameOrder"), L(els...)), matrix(2, func(i, j int) bool { return nodeLess(graph.NameOrder, ns[i], ns[j]) }), true, "finding:F8")
	c.Case("finding-F8", L(S("cmp"), S("compareNodes"), L(els...)), matrix(2, func(i, j int) bool { return graph.VerifCompareNodes(ns[i], ns[j]) }), true, "finding:F8")
	// F19: two distinct nodes with the same NodeInfo (call tree)
	x := newNode(graph.NodeInfo{Name: "c"}, 1, 1)
	y := newNode(graph.NodeInfo{Name: "c"}, 1, 1)
	ns = []*graph.Node{x, y}
	els = []Term{dumpNode(1, x, graph.VerifEntropyScore(x)), dumpNode(2, y, graph.VerifEntropyScore(y))}
	c.Case("finding-F19", L(S("cmp"), S("EntropyOrder"), L(els...)), matrix(2, func(i, j int) bool { return nodeLess(graph.EntropyOrder, ns[i], ns[j]) }), true, "finding:F19")
	// F9: two edges between different nodes that share their printable names
	s1 := newNode(graph.NodeInfo{Name: "f", Objfile: "/bin/x", StartLine: 1}, 0, 0)
	s2 := newNode(graph.NodeInfo{Name: "f", Objfile: "/bin/y", StartLine: 2}, 0, 0)
	d := newNode(graph.NodeInfo{Name: "g"}, 0, 0)
	es := []*graph.Edge{{Src: s1, Dest: d, Weight: 5}, {Src: s2, Dest: d, Weight: 5}}
	eels := []Term{L(dumpNode(1, s1, 0), dumpNode(3, d, 0), Z(5)), L(dumpNode(2, s2, 0), dumpNode(3, d, 0), Z(5))}
	c.Case("finding-F9", L(S("cmp"), S("edgeList.Less"), L(eels...)), matrix(2, func(i, j int) bool { return graph.VerifEdgeLess(es[i], es[j]) }), true, "finding:F9")
}

// ------------------------------------------------------------------------------- det / ser

type c08Fmt struct {
	name string
	f    int
}

var c08Formats = []c08Fmt{{"top", report.Text}, {"tree", report.Tree}, {"dot", report.Dot}, {"callgrind", report.Callgrind},
	{"tags", report.Tags}, {"traces", report.Traces}, {"raw", report.Raw}, {"proto", report.Proto}, {"topproto", report.TopProto},
	{"comments", report.Comments}}

type c08Opts struct {
	cum, callTree, dropNeg bool
	nodeCount              int
	nodeFrac, edgeFrac     float64
	agg                    int // 0 none (addresses+lines), 1 functions, 2 files, 3 lines
}

func (o c08Opts) term() Term {
	return L(Bool(o.cum), Bool(o.callTree), Bool(o.dropNeg), ZI(o.nodeCount), Rat(o.nodeFrac), Rat(o.edgeFrac), ZI(o.agg))
}

func c08Report(p *profile.Profile, f int, o c08Opts) *report.Report {
	switch o.agg {
	case 1:
		p.Aggregate(true, true, false, false, false, false)
	case 2:
		p.Aggregate(true, false, true, false, false, false)
	case 3:
		p.Aggregate(true, true, true, true, false, false)
	}
	return report.NewDefault(p, report.Options{OutputFormat: f, CumSort: o.cum, CallTree: o.callTree, DropNegative: o.dropNeg,
		NodeCount: o.nodeCount, NodeFraction: o.nodeFrac, EdgeFraction: o.edgeFrac, OutputUnit: "minimum"})
}

func c08Render(p *profile.Profile, f int, o c08Opts) (out string) {
	defer func() {
		if e := recover(); e != nil {
			out = "panic: " + fmt.Sprint(e)
		}
	}()
	var buf bytes.Buffer
	if err := report.Generate(&buf, c08Report(p.Copy(), f, o), nil); err != nil {
		return "error: " + err.Error()
	}
	return buf.String()
}

// treePath gives call-tree nodes (which may share their NodeInfo) a stable signature
func treePath(n *graph.Node) string {
	var sb strings.Builder
	for d := 0; n != nil && d < 64; d++ {
		sb.WriteString(fmt.Sprint(n.Info))
		sb.WriteString(fmt.Sprintf("|%d|%d<", n.Flat, n.Cum))
		var up *graph.Node
		if len(n.In) == 1 {
			for s := range n.In {
				up = s
			}
		}
		n = up
	}
	return sb.String()
}

func c08FullNodes(p *profile.Profile, f int, o c08Opts) (t Term, count int) {
	defer func() {
		if e := recover(); e != nil {
			fmt.Fprintln(os.Stderr, "c08FullNodes panic:", e, string(debug.Stack()))
			t, count = L(), 0
		}
	}()
	g := report.VerifFullGraph(c08Report(p.Copy(), f, o))
	type sn struct {
		sig string
		n   *graph.Node
	}
	var l []sn
	for _, n := range g.Nodes {
		l = append(l, sn{treePath(n), n})
	}
	sort.SliceStable(l, func(i, j int) bool { return l[i].sig < l[j].sig })
	var ts []Term
	for i, x := range l {
		ts = append(ts, dumpNode(i+1, x.n, 0))
	}
	return L(ts...), len(ts)
}

// tie-rich profiles: few distinct names, several functions sharing a name (different start line /
// file / mapping), values from a small pool with both signs, shared stacks
func c08Profile(r *Rng, style int) *profile.Profile {
	k := DefaultKnobs()
	k.SparseIDs = false
	k.Extreme = false
	k.Header = r.Bool()
	k.MaxSamples = 8
	k.MaxLocs = 7
	k.MaxFuncs = 6
	k.EmptyStacks = r.P(1, 4)
	k.Names = []string{"a", "b", "c", "c", "a"}
	k.Files = []string{"", "x.go", "y.go"}
	switch style {
	case 0: // positive values only, ties by construction
		k.Negative = false
	case 1: // diff-like: equal magnitudes of opposite sign
	case 2:
		k.Names = []string{"a", "b", "c", "a b", "main", "d"}
		k.Meta = r.P(1, 3)
	}
	p := c08Valid(GenProfile(r, k))
	vals := []int64{1, 1, 2, 5, 5, 10}
	for _, s := range p.Sample {
		for i := range s.Value {
			v := PickI(r, vals)
			if style != 0 && r.P(1, 3) {
				v = -v
			}
			s.Value[i] = v
		}
	}
	return p
}

// c08Valid repairs a generator artefact: GenProfile may draw one numeric-label key twice and leave
// a NumUnit list whose length differs from the NumLabel list (not a valid profile: preEncode
// indexes units[i]).  Such unit lists are dropped.
func c08Valid(p *profile.Profile) *profile.Profile {
	for _, s := range p.Sample {
		for k, us := range s.NumUnit {
			if len(us) != len(s.NumLabel[k]) {
				delete(s.NumUnit, k)
			}
		}
	}
	return p
}

func distinct(k int, f func() string) (n int, first string, hashes []string) {
	seen := map[string]bool{}
	for i := 0; i < k; i++ {
		s := f()
		if i == 0 {
			first = s
		}
		h := fmt.Sprintf("%x", sha256.Sum256([]byte(s)))[:12]
		if !seen[h] {
			seen[h] = true
			hashes = append(hashes, h)
		}
	}
	sort.Strings(hashes)
	return len(seen), first, hashes
}

func c08Det(c *Ctx) {
	r := c.R
	reps := c.Budget(48, 64)
	nprof := c.Budget(44, 500)
	unstable := map[string]int{}
	addCase := func(gen string, p *profile.Profile, f c08Fmt, o c08Opts) {
		nodes, cnt := c08FullNodes(p, f.f, o)
		n, first, _ := distinct(reps, func() string { return c08Render(p, f.f, o) })
		if n > 1 {
			unstable[f.name]++
		}
		errc := 0
		if strings.HasPrefix(first, "panic: ") {
			errc = 2
		} else if strings.HasPrefix(first, "error: ") {
			errc = 1
		}
		in := L(S("det"), S(f.name), o.term(), nodes, DumpProfile(p))
		c.Case(gen, in, L(ZI(n), ZI(errc)), cnt >= 2 && len(p.Sample) >= 2, "det:"+f.name, fmt.Sprintf("det-distinct:%d", min(n, 3)))
	}
	for i := 0; i < nprof; i++ {
		p := c08Profile(r, i%3)
		for _, f := range c08Formats {
			o := c08Opts{cum: r.Bool(), callTree: r.P(1, 3), dropNeg: r.P(1, 5), agg: r.Intn(4)}
			if r.P(1, 3) {
				o.nodeCount = 1 + r.Intn(5)
			}
			if r.P(1, 3) {
				o.nodeFrac = []float64{0.005, 0.1, 0.25}[r.Intn(3)]
			}
			if r.P(1, 3) {
				o.edgeFrac = []float64{0.001, 0.1, 0.3}[r.Intn(3)]
			}
			addCase("det", p, f, o)
		}
	}
	// finding F19: call tree a->c, b->c, equal weights: the two c nodes share their NodeInfo
	{
		fa := &profile.Function{ID: 1, Name: "a"}
		fb := &profile.Function{ID: 2, Name: "b"}
		fc := &profile.Function{ID: 3, Name: "c"}
		la := &profile.Location{ID: 1, Line: []profile.Line{{Function: fa}}}
		lb := &profile.Location{ID: 2, Line: []profile.Line{{Function: fb}}}
		lc := &profile.Location{ID: 3, Line: []profile.Line{{Function: fc}}}
		p := &profile.Profile{SampleType: []*profile.ValueType{{Type: "samples", Unit: "count"}},
			Function: []*profile.Function{fa, fb, fc}, Location: []*profile.Location{la, lb, lc},
			Sample: []*profile.Sample{{Location: []*profile.Location{lc, la}, Value: []int64{1}}, {Location: []*profile.Location{lc, lb}, Value: []int64{1}}}}
		addCase("finding-F19", p, c08Fmt{"dot", report.Dot}, c08Opts{callTree: true})
		addCase("finding-F19", p, c08Fmt{"callgrind", report.Callgrind}, c08Opts{callTree: true})
	}
	// finding F9: callgrind keeps object files: f@/bin/x and f@/bin/y both call g with weight 1
	{
		m1 := &profile.Mapping{ID: 1, Start: 0x1000, Limit: 0x2000, File: "/bin/x"}
		m2 := &profile.Mapping{ID: 2, Start: 0x3000, Limit: 0x4000, File: "/bin/y"}
		ff := &profile.Function{ID: 1, Name: "f"}
		fg := &profile.Function{ID: 2, Name: "g"}
		fr := &profile.Function{ID: 3, Name: "root"}
		l1 := &profile.Location{ID: 1, Mapping: m1, Address: 0x1100, Line: []profile.Line{{Function: ff}}}
		l2 := &profile.Location{ID: 2, Mapping: m2, Address: 0x3100, Line: []profile.Line{{Function: ff}}}
		lg := &profile.Location{ID: 3, Mapping: m1, Address: 0x1200, Line: []profile.Line{{Function: fg}}}
		lr := &profile.Location{ID: 4, Mapping: m1, Address: 0x1300, Line: []profile.Line{{Function: fr}}}
		p := &profile.Profile{SampleType: []*profile.ValueType{{Type: "samples", Unit: "count"}},
			Mapping: []*profile.Mapping{m1, m2}, Function: []*profile.Function{ff, fg, fr}, Location: []*profile.Location{l1, l2, lg, lr},
			Sample: []*profile.Sample{{Location: []*profile.Location{l1, lr}, Value: []int64{1}}, {Location: []*profile.Location{l2, lr}, Value: []int64{1}}}}
		addCase("finding-F9", p, c08Fmt{"callgrind", report.Callgrind}, c08Opts{agg: 1})
	}
	// finding F25: the entropy score of node a takes two values depending on map order; b ties with
	// the larger one, so the numbering of a and b in -dot follows the iteration order
	if fp := f25Search(NewRng(7), 200000); fp.ok {
		addCase("finding-F25", f25Profile(fp), c08Fmt{"dot", report.Dot}, c08Opts{})
	}
	c.Extra["det_repetitions"] = reps
	c.Extra["det_unstable_by_format"] = unstable

	// both serializations of the in-memory profile (labels live in Go maps)
	for i := c.Budget(60, 1000); i > 0; i-- {
		k := DefaultKnobs()
		k.Meta = r.P(1, 3)
		p := c08Valid(GenProfile(r, k))
		n1, _, _ := distinct(16, func() string {
			var b bytes.Buffer
			if err := p.Write(&b); err != nil {
				return "error: " + err.Error()
			}
			return b.String()
		})
		n2, _, _ := distinct(16, func() string {
			var b bytes.Buffer
			if err := p.WriteUncompressed(&b); err != nil {
				return "error: " + err.Error()
			}
			return b.String()
		})
		n3, _, _ := distinct(16, func() string { return p.String() })
		nl := 0
		for _, s := range p.Sample {
			nl += len(s.Label) + len(s.NumLabel)
		}
		c.Case("ser", L(S("ser"), DumpProfile(p)), L(ZI(n1), ZI(n2), ZI(n3)), nl >= 2, "ser")
	}
}

// ------------------------------------------------------------------------------- ent

// entropyScore accumulates float64 terms while ranging over an EdgeMap.  Float addition is not
// associative, so the stream measures whether the int64 score can depend on the iteration order.
func c08Ent(c *Ctx) {
	r := c.R
	varying := 0
	for i := c.Budget(150, 3000); i > 0; i-- {
		n := newNode(graph.NodeInfo{Name: "n"}, int64(r.Intn(50)), 0)
		var ws []Term
		ne := 1 + r.Intn(6)
		for e := 0; e < ne; e++ {
			o := newNode(graph.NodeInfo{Name: fmt.Sprint("o", e)}, 0, 0)
			w := int64(1 + r.Intn(1000))
			if r.P(1, 4) {
				w = -w
			}
			n.Out[o] = &graph.Edge{Src: n, Dest: o, Weight: w}
			ws = append(ws, Z(w))
		}
		n.Cum = []int64{1 << 20, 1 << 50, 1<<53 - 1, 12345678901234567, 1000}[r.Intn(5)]
		cnt, _, _ := distinct(64, func() string { return fmt.Sprint(graph.VerifEntropyScore(n)) })
		if cnt > 1 {
			varying++
		}
		c.Case("ent", L(S("ent"), Z(n.Flat), Z(n.Cum), L(ws...)), L(ZI(cnt)), ne >= 3, "ent", fmt.Sprintf("ent-edges:%d", ne))
	}
	c.Extra["entropy_scores_varying_with_map_order"] = varying
}

func runC08(c *Ctx) {
	c08Cmp(c)
	c08Det(c)
	c08DetSrc(c)
	c08DetNumLabels(c)
	c08Ent(c)
	c08E2E(c)
}
