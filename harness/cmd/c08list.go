//go:build verif

package main

// C08, source-listing family of the "det" stream: `list` (report.List), `weblist` (MakeWebList with
// maxFiles = -1, as the weblist command does), `weblist-top` (MakeWebList with a file budget, as the
// web UI's /source page does) and `disasm` (report.Dis over a scripted object tool).
//
// These formats group the nodes of an UNSORTED graph (map order) by function name, by source file
// or by symbol, and order the groups.  What they need to be exercised is different from the graph
// formats: one function NAME with samples in two or more source files (file-local functions,
// template instances, inlined copies), several sampled lines of different weight per file, files
// and functions that tie on their weight, sources present on disk and missing.

import (
	"bytes"
	"fmt"
	"os"
	"regexp"
	"strings"
	"time"

	"github.com/google/pprof/internal/plugin"
	"github.com/google/pprof/internal/report"
	"github.com/google/pprof/profile"
)

var c08SrcFiles = []string{"a.c", "b.c", "x.go", "inc/h.h"}

// c08WriteSources puts the listed source files into the harness's scratch cwd ("gone.c" stays absent).
func c08WriteSources() {
	for _, f := range c08SrcFiles {
		var sb strings.Builder
		for i := 1; i <= 40; i++ {
			fmt.Fprintf(&sb, "\tline %d of %s;\n", i, f)
		}
		if strings.Contains(f, "/") {
			os.MkdirAll(f[:strings.LastIndex(f, "/")], 0o755)
		}
		os.WriteFile(f, []byte(sb.String()), 0o644)
	}
}

// c08ListProfile: few function names, each possibly defined in several files; several sampled
// lines per (function, file) with weights from a small pool (ties between lines, files, functions).
func c08ListProfile(r *Rng, style int) *profile.Profile {
	p := &profile.Profile{SampleType: []*profile.ValueType{{Type: "samples", Unit: "count"}}}
	files := append([]string{}, c08SrcFiles...)
	files = append(files, "gone.c")
	names := []string{"helper", "main", "init", "helper"}
	var maps []*profile.Mapping
	for i := 0; i < 1+r.Intn(2); i++ {
		m := &profile.Mapping{ID: uint64(i + 1), Start: uint64(0x1000 * (i + 1) * 16), Limit: uint64(0x1000*(i+1)*16 + 0x8000), File: []string{"/bin/prog", "/lib/libx.so"}[i]}
		maps = append(maps, m)
	}
	p.Mapping = maps
	type fk struct{ name, file string }
	fns := map[fk]*profile.Function{}
	fn := func(name, file string) *profile.Function {
		if f, ok := fns[fk{name, file}]; ok {
			return f
		}
		f := &profile.Function{ID: uint64(len(p.Function) + 1), Name: name, SystemName: name, Filename: file, StartLine: int64(1 + r.Intn(5))}
		fns[fk{name, file}] = f
		p.Function = append(p.Function, f)
		return f
	}
	nfn := 2 + r.Intn(3)
	var locs []*profile.Location
	addr := uint64(0x10100)
	for i := 0; i < nfn; i++ {
		name := PickS(r, names)
		nfile := 1 + r.Intn(3)
		for j := 0; j < nfile; j++ {
			file := PickS(r, files)
			f := fn(name, file)
			for k := 1 + r.Intn(4); k > 0; k-- {
				l := &profile.Location{ID: uint64(len(locs) + 1), Address: addr, Line: []profile.Line{{Function: f, Line: int64(5 + r.Intn(12))}}}
				addr += uint64(4 * (1 + r.Intn(3)))
				if style != 2 || r.P(2, 3) {
					l.Mapping = maps[r.Intn(len(maps))]
					if l.Address < l.Mapping.Start || l.Address >= l.Mapping.Limit {
						l.Address = l.Mapping.Start + (l.Address & 0xfff)
					}
				}
				if r.P(1, 5) { // an inlined callee from another file
					l.Line = append([]profile.Line{{Function: fn(PickS(r, names), PickS(r, files)), Line: int64(3 + r.Intn(8))}}, l.Line...)
				}
				locs = append(locs, l)
			}
		}
	}
	p.Location = locs
	vals := []int64{1, 50, 2, 10, 20, 15, 10, 1}
	root := &profile.Location{ID: uint64(len(locs) + 1), Address: addr + 64, Line: []profile.Line{{Function: fn("root", "x.go"), Line: 30}}}
	if len(maps) > 0 {
		root.Mapping = maps[0]
		root.Address = maps[0].Start + 0x700
	}
	p.Location = append(p.Location, root)
	for _, l := range locs {
		if r.P(1, 6) {
			continue
		}
		v := PickI(r, vals)
		if style == 1 && r.P(1, 4) {
			v = -v
		}
		st := []*profile.Location{l}
		if r.P(1, 2) {
			st = append(st, locs[r.Intn(len(locs))])
		}
		st = append(st, root)
		p.Sample = append(p.Sample, &profile.Sample{Location: st, Value: []int64{v}})
	}
	return p
}

// the profile of the always-generated two-file case: helper of a.c (lines worth 1, 50, 2) and
// helper of b.c (10, 20, 15), both called from main
func c08TwoFileProfile() *profile.Profile {
	p := &profile.Profile{SampleType: []*profile.ValueType{{Type: "samples", Unit: "count"}}}
	fa := &profile.Function{ID: 1, Name: "helper", SystemName: "helper", Filename: "a.c", StartLine: 1}
	fb := &profile.Function{ID: 2, Name: "helper", SystemName: "helper", Filename: "b.c", StartLine: 1}
	fm := &profile.Function{ID: 3, Name: "main", SystemName: "main", Filename: "x.go", StartLine: 1}
	p.Function = []*profile.Function{fa, fb, fm}
	lm := &profile.Location{ID: 1, Address: 0x100, Line: []profile.Line{{Function: fm, Line: 20}}}
	p.Location = []*profile.Location{lm}
	add := func(f *profile.Function, line, v int64) {
		l := &profile.Location{ID: uint64(len(p.Location) + 1), Address: uint64(0x200 + 16*len(p.Location)), Line: []profile.Line{{Function: f, Line: line}}}
		p.Location = append(p.Location, l)
		p.Sample = append(p.Sample, &profile.Sample{Location: []*profile.Location{l, lm}, Value: []int64{v}})
	}
	add(fa, 5, 1)
	add(fa, 6, 50)
	add(fa, 7, 2)
	add(fb, 5, 10)
	add(fb, 6, 20)
	add(fb, 7, 15)
	return p
}

// c08TwoFrameProfile: two unmapped one-frame samples of weight 1
func c08TwoFrameProfile(n1, f1 string, l1 int64, n2, f2 string, l2 int64) *profile.Profile {
	p := &profile.Profile{SampleType: []*profile.ValueType{{Type: "samples", Unit: "count"}}}
	fa := &profile.Function{ID: 1, Name: n1, SystemName: n1, Filename: f1}
	fb := &profile.Function{ID: 2, Name: n2, SystemName: n2, Filename: f2}
	la := &profile.Location{ID: 1, Address: 0x100, Line: []profile.Line{{Function: fa, Line: l1}}}
	lb := &profile.Location{ID: 2, Address: 0x200, Line: []profile.Line{{Function: fb, Line: l2}}}
	p.Function = []*profile.Function{fa, fb}
	p.Location = []*profile.Location{la, lb}
	p.Sample = []*profile.Sample{{Location: []*profile.Location{la}, Value: []int64{1}}, {Location: []*profile.Location{lb}, Value: []int64{1}}}
	return p
}

// c08ObjTool is a scripted object tool: every mapping file opens, its symbols are the profile's
// functions laid out around their sampled addresses, disassembly is one instruction per 4 bytes.
type c08ObjTool struct {
	p    *profile.Profile
	byPC map[uint64]*profile.Location
}

func c08NewObjTool(p *profile.Profile) *c08ObjTool {
	t := &c08ObjTool{p, map[uint64]*profile.Location{}}
	for _, l := range p.Location {
		if _, ok := t.byPC[l.Address]; !ok {
			t.byPC[l.Address] = l
		}
	}
	return t
}
type c08ObjFile struct {
	t    *c08ObjTool
	name string
}

func (t *c08ObjTool) Open(file string, start, limit, offset uint64, relocationSymbol string) (plugin.ObjFile, error) {
	if file == "" {
		return nil, fmt.Errorf("no file")
	}
	return &c08ObjFile{t, file}, nil
}

func (t *c08ObjTool) Disasm(file string, start, end uint64, intelSyntax bool) ([]plugin.Inst, error) {
	var is []plugin.Inst
	for a := start &^ 3; a < end && len(is) < 4096; a += 4 {
		is = append(is, plugin.Inst{Addr: a, Text: fmt.Sprintf("op%d", a%7), Function: "", File: "", Line: 0})
	}
	return is, nil
}

func (f *c08ObjFile) Name() string                        { return f.name }
func (f *c08ObjFile) ObjAddr(addr uint64) (uint64, error) { return addr, nil }
func (f *c08ObjFile) BuildID() string                     { return "" }
func (f *c08ObjFile) SourceLine(addr uint64) ([]plugin.Frame, error) {
	if l := f.t.byPC[addr]; l != nil && l.Mapping != nil && l.Mapping.File == f.name {
		var fr []plugin.Frame
		for _, ln := range l.Line {
			if ln.Function != nil {
				fr = append(fr, plugin.Frame{Func: ln.Function.Name, File: ln.Function.Filename, Line: int(ln.Line)})
			}
		}
		return fr, nil
	}
	return nil, fmt.Errorf("no line info")
}
func (f *c08ObjFile) Close() error { return nil }
func (f *c08ObjFile) Symbols(rx *regexp.Regexp, addr uint64) ([]*plugin.Sym, error) {
	var out []*plugin.Sym
	seen := map[string]bool{}
	for _, l := range f.t.p.Location {
		if l.Mapping == nil || l.Mapping.File != f.name || len(l.Line) == 0 {
			continue
		}
		fn := l.Line[len(l.Line)-1].Function
		if fn == nil || (rx != nil && !rx.MatchString(fn.Name)) {
			continue
		}
		start := l.Address &^ 0xf
		if k := fmt.Sprint(fn.Name, start); seen[k] {
			continue
		} else {
			seen[k] = true
		}
		out = append(out, &plugin.Sym{Name: []string{fn.Name}, File: f.name, Start: start, End: start + 15})
	}
	return out, nil
}

type c08SrcFmt struct {
	name     string
	f        int
	maxFiles int
}

var c08SrcFormats = []c08SrcFmt{{"list", report.List, 0}, {"weblist", report.WebList, -1}, {"weblist-top", report.WebList, 3}, {"disasm", report.Dis, 0}}

func c08SrcReport(p *profile.Profile, f c08SrcFmt, sym string, agg int) *report.Report {
	if agg == 3 {
		p.Aggregate(true, true, true, true, false, false)
	}
	return report.NewDefault(p, report.Options{OutputFormat: f.f, Symbol: regexp.MustCompile(sym), OutputUnit: "minimum"})
}

func c08SrcRender(p *profile.Profile, f c08SrcFmt, sym string, agg int) (out string) {
	defer func() {
		if e := recover(); e != nil {
			out = "panic: " + fmt.Sprint(e)
		}
	}()
	q := p.Copy()
	rpt := c08SrcReport(q, f, sym, agg)
	obj := c08NewObjTool(q)
	if f.f == report.WebList {
		d, err := report.MakeWebList(rpt, obj, f.maxFiles)
		if err != nil {
			return "error: " + err.Error()
		}
		return fmt.Sprintf("%+v", d)
	}
	var buf bytes.Buffer
	if err := report.Generate(&buf, rpt, obj); err != nil {
		return "error: " + err.Error()
	}
	return buf.String()
}

func c08DetSrc(c *Ctx) {
	r := c.R
	t0 := time.Now()
	c08WriteSources()
	reps := c.Budget(32, 64)
	unstable := map[string]int{}
	addCase := func(gen string, p *profile.Profile, f c08SrcFmt, sym string, agg int) {
		o := c08Opts{agg: agg}
		nodes, cnt := c08FullNodes(p, report.Text, o)
		n, first, _ := distinct(reps, func() string { return c08SrcRender(p, f, sym, agg) })
		if n > 1 {
			unstable[f.name]++
		}
		errc := 0
		if strings.HasPrefix(first, "panic: ") {
			errc = 2
		} else if strings.HasPrefix(first, "error: ") {
			errc = 1
		}
		in := L(S("det"), S(f.name), L(append(o.term().(tL).l, S(sym), ZI(f.maxFiles))...), nodes, DumpProfile(p))
		c.Case(gen, in, L(ZI(n), ZI(errc)), cnt >= 2 && len(p.Sample) >= 2 && errc == 0, "det:"+f.name, fmt.Sprintf("det-distinct:%d", min(n, 3)))
	}
	for _, f := range c08SrcFormats {
		addCase("det-src-twofile", c08TwoFileProfile(), f, "helper", 0)
		addCase("det-src-twofile", c08TwoFileProfile(), f, ".", 3)
	}
	for i := c.Budget(12, 200); i > 0; i-- {
		p := c08ListProfile(r, i%3)
		for _, f := range c08SrcFormats {
			sym := PickS(r, []string{".", "helper", "helper|init", "main"})
			addCase("det-src", p, f, sym, []int{0, 3}[r.Intn(2)])
		}
	}
	// repaired F35 (5f2b7e6): one source line shown under two function names at two addresses without object file
	addCase("det-src-oneline", c08TwoFrameProfile("f<int>", "inc/h.h", 5, "f<long>", "inc/h.h", 5), c08SrcFmt{"weblist", report.WebList, -1}, ".", 0)
	// repaired F36 (7401752): two files of equal flat weight, listed with a file budget
	addCase("det-src-equalflat", c08TwoFrameProfile("a", "a.c", 5, "b", "b.c", 5), c08SrcFmt{"weblist-top", report.WebList, 3}, ".", 0)
	c.Extra["det_src_unstable_by_format"] = unstable
	c.Extra["det_src_wall_ms"] = time.Since(t0).Milliseconds()
}
