//go:build verif

package main

// End-to-end cases of C11 (op "e2e", coq/R_Driver.v, helpers in c06e2e.go): drop_frames / keep_frames
// and prune_from observed through driver.PProf with several sources, option combinations, interactive
// sessions and the web UI.

import (
	"fmt"
	"regexp"
	"strings"

	"github.com/google/pprof/profile"
)

func c11E2EStreams(c *Ctx) {
	c09Env()
	r := c.R
	// -- several sources: the merged profile carries ONE pair of expressions, the first source's
	srcA := func(drop, keep string) *profile.Profile {
		p := c06E2EBuild(0, "bin/a", []c06E2EStk{
			{val: 1, frames: []string{"leaf1", "allocSlow", "work1", "main"}},
			{val: 2, frames: []string{"allocFast", "work2", "main"}},
			{val: 4, frames: []string{"sigtramp", "work1", "main"}},
		})
		p.DropFrames, p.KeepFrames = drop, keep
		return p
	}
	srcB := func(drop, keep string) *profile.Profile {
		p := c06E2EBuild(1000, "bin/b", []c06E2EStk{
			{val: 7, frames: []string{"leaf3", "allocSlowB", "work3", "mainB"}},
			{val: 8, frames: []string{"sigtrampB", "allocTiny", "work3", "mainB"}},
		})
		p.DropFrames, p.KeepFrames = drop, keep
		return p
	}
	for _, e := range [][4]string{
		{"alloc.*", "", "sigtramp.*", "allocSlow.*"}, {"", "", "alloc.*", ""}, {"alloc.*", "allocSlow.*", "", ""},
		{"alloc.*", "", "", "alloc.*"}, {"sigtramp.*", "", "alloc.*", "sigtramp.*"}, {"", "allocSlow.*", "alloc.*", ""},
		{"alloc.*|sigtramp.*", "allocFast", "alloc.*", "sigtrampB"},
	} {
		for _, kind := range []string{"proto", "traces"} {
			c06E2ECase(c, "e2e-merged-expressions", "cli", []*profile.Profile{srcA(e[0], e[1]), srcB(e[2], e[3])},
				[]c06E2EReport{{kind: kind, opts: map[string]string{}}}, "sources:2")
			c06E2ECase(c, "e2e-merged-expressions", "cli", []*profile.Profile{srcB(e[2], e[3]), srcA(e[0], e[1])},
				[]c06E2EReport{{kind: kind, opts: c06E2EOpts("prune_from", "work.*")}}, "sources:2")
		}
		c06E2ECase(c, "e2e-merged-expressions", "web", []*profile.Profile{srcA(e[0], e[1]), srcB(e[2], e[3])},
			[]c06E2EReport{{kind: "top", opts: map[string]string{}}, {kind: "top", opts: c06E2EOpts("prune_from", "work1|work3")}}, "sources:2")
	}
	// -- prune_from matches SIMPLIFIED names, whatever the raw names look like
	simp := func() *profile.Profile {
		return c06E2EBuild(0, "bin/app", []c06E2EStk{
			{val: 1, frames: []string{"leaf1", "helper", "Server::Handle(Request*)", "main"}},
			{val: 2, frames: []string{"leaf2", ".dispatch", "main"}},
			{val: 4, frames: []string{"leaf3", "ns::run(int, char) const", "main"}},
			{val: 8, frames: []string{"leaf4", "main"}},
		})
	}
	for _, rx := range []string{"Handle$", "^Server::Handle$", "^dispatch", "Handle", "run$", "^ns::run$", "\\)$", "^\\.", "dispatch|Handle$", "nomatch"} {
		for _, kind := range []string{"proto", "traces"} {
			c06E2ECase(c, "e2e-prunefrom-simplified", "cli", []*profile.Profile{simp()}, []c06E2EReport{{kind: kind, opts: c06E2EOpts("prune_from", rx)}})
		}
		c06E2ECase(c, "e2e-prunefrom-simplified", "session", []*profile.Profile{simp()},
			[]c06E2EReport{{kind: "traces", opts: c06E2EOpts("prune_from", rx), before: []string{"top"}}, {kind: "proto", opts: map[string]string{}}})
		c06E2ECase(c, "e2e-prunefrom-simplified", "web", []*profile.Profile{simp()}, []c06E2EReport{{kind: "top", opts: c06E2EOpts("prune_from", rx)}})
	}
	// -- prune_from comes LAST: it never changes which samples the other filters select
	order := func() *profile.Profile {
		return c06E2EBuild(0, "bin/app", []c06E2EStk{
			{val: 1, frames: []string{"leafA", "handler", "main"}},
			{val: 3, frames: []string{"leafA", "other", "main"}},
			{val: 2, frames: []string{"leafB", "handler", "main"}, lab: map[string]string{"k": "v"}},
			{val: 4, frames: []string{"leafC", "worker", "dispatcher", "main"}},
		})
	}
	for _, o := range []map[string]string{
		c06E2EOpts("prune_from", "handler"), c06E2EOpts("focus", "leafA"), c06E2EOpts("show_from", "worker"),
		c06E2EOpts("focus", "leafA", "prune_from", "handler"), c06E2EOpts("ignore", "leafB", "prune_from", "handler"),
		c06E2EOpts("show_from", "worker", "prune_from", "dispatcher"), c06E2EOpts("hide", "leaf.", "prune_from", "handler|worker"),
		c06E2EOpts("show", "leaf.|main", "prune_from", "handler"), c06E2EOpts("tagfocus", "v", "prune_from", "main"),
		c06E2EOpts("focus", "leafC", "show_from", "dispatcher", "prune_from", "worker"),
	} {
		for _, rel := range []bool{false, true} {
			for _, kind := range []string{"proto", "traces"} {
				c06E2ECase(c, "e2e-prunefrom-order", "cli", []*profile.Profile{order()}, []c06E2EReport{{kind: kind, opts: o, relative: rel}})
			}
			c06E2ECase(c, "e2e-prunefrom-order", "web", []*profile.Profile{order()}, []c06E2EReport{{kind: "top", opts: o, relative: rel}})
		}
		c06E2ECase(c, "e2e-prunefrom-order", "session", []*profile.Profile{order()},
			[]c06E2EReport{{kind: "traces", opts: o, before: []string{"top"}}, {kind: "traces", opts: map[string]string{}}, {kind: "proto", opts: o}})
	}
	// -- round 5: sparse ids + tag roots / leaves + prune_from: the pseudo locations must not share an id
	//    with a real location (PruneFrom decides per location id)
	for _, sp := range []int{1, 2, 3} {
		for _, rx := range []string{"target", "main", "leaf2", "helper", "^a$", "nomatch"} {
			for k, tr := range [][2][]string{{{"tenant"}, nil}, {nil, {"tenant"}}, {{"zone", "tenant"}, {"zone"}}} {
				kind, mode := "proto", "cli"
				if k == 0 {
					kind = "traces"
				}
				if k == 2 {
					mode = "session"
				}
				c06E2ECase(c, "e2e-sparse-ids", mode, []*profile.Profile{c06E2ESparse(sp)},
					[]c06E2EReport{{kind: kind, opts: c06E2EOpts("prune_from", rx), tagroot: tr[0], tagleaf: tr[1]}}, fmt.Sprintf("sparse:%d", sp))
			}
		}
		p := c06E2ESparse(sp)
		p.DropFrames = "leaf.*"
		c06E2ECase(c, "e2e-sparse-ids", "cli", []*profile.Profile{p}, []c06E2EReport{{kind: "proto", opts: c06E2EOpts("prune_from", "helper"), tagroot: []string{"tenant"}}}, fmt.Sprintf("sparse:%d", sp))
	}
	// -- random: stack profiles of the core streams with drop/keep expressions, one or two sources,
	//    prune_from alone and combined with other filters, through all three entry points
	kn := c06StackKnobs{Names: c11Plain, Files: []string{"a.c"}, MapFiles: []string{"bin"}, MaxFuncs: 4, MaxLocs: 4, MaxLines: 3,
		MaxSamples: 3, MaxDepth: 4, Unsym: false, Empty: true, Labels: true, NoMap: true}
	knM := kn
	knM.Names = []string{"f1", "f2", "m1", "m2", ".m1", "m1(int)", "f1(int, char)", "x::operator()", "ns::m2<(anonymous namespace)::T>(x)"}
	knM.MaxFuncs = 6
	valid := func() string {
		for {
			rx := PickS(r, c11Drops)
			if _, err := regexp.Compile(rx); err == nil && !strings.ContainsAny(rx, " ") {
				return rx
			}
		}
	}
	for i := 0; i < c.Budget(150, 4000); i++ {
		gen := func(base uint64, suffix string) *profile.Profile {
			k := kn
			if r.P(1, 3) {
				k = knM
			}
			p := c06GenStacks(r, k)
			c06E2ETidy(p, true)
			if !r.P(1, 6) {
				p.DropFrames = PickS(r, c11Drops)
			}
			p.KeepFrames = PickS(r, c11Keeps)
			if base > 0 {
				c06E2EShift(p, base, suffix)
			}
			return p
		}
		srcs := []*profile.Profile{gen(0, "")}
		if i%3 == 0 {
			srcs = append(srcs, gen(1000, "_b"))
			// profile.Merge adds up samples with identical stacks and labels: keep every sample distinct
			for si, p := range srcs {
				for k, s := range p.Sample {
					if s.Label == nil {
						s.Label = map[string][]string{}
					}
					s.Label["key"] = []string{fmt.Sprintf("s%d_%d", si, k)}
				}
			}
		}
		mode := []string{"cli", "cli", "session", "web"}[i%4]
		n := 1
		if mode != "cli" {
			n = 2
		}
		var reports []c06E2EReport
		for j := 0; j < n; j++ {
			rp := c06E2EReport{kind: PickS(r, []string{"proto", "traces"}), opts: map[string]string{}, relative: r.Bool()}
			if mode == "web" {
				rp.kind = "top"
			}
			if r.P(2, 3) {
				rp.opts["prune_from"] = valid()
			}
			if r.P(1, 3) {
				rp.opts[PickS(r, []string{"focus", "ignore", "show_from", "hide"})] = PickS(r, []string{"f1", "f2", "m1", "m2", "f.", "m.*"})
			}
			if mode == "session" && r.Bool() {
				rp.before = []string{PickS(r, []string{"top", "traces", "tree"})}
			}
			reports = append(reports, rp)
		}
		c06E2ECase(c, "e2e-rand", mode, srcs, reports, fmt.Sprintf("sources:%d", len(srcs)))
	}
}
