//go:build verif

package main

// Search for, and construction of, the byte-level witness of finding F25: a profile whose -dot
// output depends on the order in which edgeEntropyScore ranges over an EdgeMap.

import (
	"fmt"

	"github.com/google/pprof/internal/graph"
	"github.com/google/pprof/profile"
)

func init() { subcmds["c08-f25search"] = func([]string) { fmt.Println(f25Search(NewRng(7), 200000)) } }

type f25Params struct {
	w      [3]int64
	flat   int64
	b      int64
	lo, hi int64 // the two entropy scores of a
	ok     bool
}

// f25Search looks for a node A (no callers, three callees with weights w, own weight flat) whose
// entropy score takes two adjacent values k < k+1 depending on the iteration order, with k+1
// divisible by 3: a one-frame sample B of weight (k+1)/3 then has score exactly k+1.
func f25Search(r *Rng, tries int) f25Params {
	for t := 0; t < tries; t++ {
		var p f25Params
		n := newNode(graph.NodeInfo{Name: "a"}, 0, 0)
		for i := range p.w {
			p.w[i] = 1<<44 + int64(r.Intn(1<<30))
			o := newNode(graph.NodeInfo{Name: fmt.Sprint("c", i)}, 0, 0)
			n.Out[o] = &graph.Edge{Src: n, Dest: o, Weight: p.w[i]}
		}
		p.flat = int64(r.Intn(1 << 20))
		n.Flat = p.flat
		n.Cum = p.flat + p.w[0] + p.w[1] + p.w[2]
		seen := map[int64]bool{}
		for i := 0; i < 40; i++ {
			seen[graph.VerifEntropyScore(n)] = true
		}
		if len(seen) != 2 {
			continue
		}
		var lo, hi int64
		for s := range seen {
			if lo == 0 || s < lo {
				lo = s
			}
			if s > hi {
				hi = s
			}
		}
		if hi != lo+1 || hi%3 != 0 {
			continue
		}
		p.b, p.lo, p.hi, p.ok = hi/3, lo, hi, true
		return p
	}
	return f25Params{}
}

func f25Profile(p f25Params) *profile.Profile {
	fn := func(id uint64, name string) *profile.Function { return &profile.Function{ID: id, Name: name} }
	fa, fb := fn(1, "a"), fn(2, "b")
	fc := []*profile.Function{fn(3, "c0"), fn(4, "c1"), fn(5, "c2")}
	loc := func(id uint64, f *profile.Function) *profile.Location {
		return &profile.Location{ID: id, Line: []profile.Line{{Function: f}}}
	}
	la, lb := loc(1, fa), loc(2, fb)
	lc := []*profile.Location{loc(3, fc[0]), loc(4, fc[1]), loc(5, fc[2])}
	pr := &profile.Profile{SampleType: []*profile.ValueType{{Type: "samples", Unit: "count"}},
		Function: append([]*profile.Function{fa, fb}, fc...), Location: append([]*profile.Location{la, lb}, lc...)}
	for i := 0; i < 3; i++ {
		pr.Sample = append(pr.Sample, &profile.Sample{Location: []*profile.Location{lc[i], la}, Value: []int64{p.w[i]}})
	}
	pr.Sample = append(pr.Sample, &profile.Sample{Location: []*profile.Location{la}, Value: []int64{p.flat}})
	pr.Sample = append(pr.Sample, &profile.Sample{Location: []*profile.Location{lb}, Value: []int64{p.b}})
	return pr
}
