//go:build verif

package main

import (
	"bytes"
	"encoding/json"
	"fmt"
	"net/http"
	"net/url"
	"os"
	"os/signal"
	"path/filepath"
	"runtime"
	"sort"
	"strconv"
	"strings"
	"sync"
	"sync/atomic"
	"syscall"

	"github.com/google/pprof/internal/driver"
	"github.com/google/pprof/internal/plugin"
	"github.com/google/pprof/internal/transport"
)

// c19JsTable ships encoding/json's string round trip (invalid UTF-8 is coerced to U+FFFD).
func c19JsTable(strs map[string]bool) Term {
	var ks []string
	for k := range strs {
		ks = append(ks, k)
	}
	sort.Strings(ks)
	l := []Term{}
	for _, k := range ks {
		b, _ := json.Marshal(k)
		var back string
		json.Unmarshal(b, &back)
		if back != k {
			l = append(l, L(S(k), S(back)))
		}
	}
	return L(l...)
}

func c19CollectAll(strs map[string]bool, c driver.VerifConfig) {
	for _, p := range driver.VerifConfigDump(c) {
		strs[p[1]] = true
	}
}

func c19SettingsErrCode(err error) int {
	if err == nil {
		return 0
	}
	m := err.Error()
	switch {
	case strings.HasPrefix(m, "invalid config name"):
		return 1
	case strings.HasPrefix(m, "error setting config field"):
		return 2
	case strings.HasPrefix(m, "could not parse settings"), strings.HasPrefix(m, "could not read settings"):
		return 3
	case strings.HasSuffix(m, "not found") && strings.HasPrefix(m, "config "):
		return 4
	case strings.HasPrefix(m, "could not encode settings"):
		return 5
	case strings.HasPrefix(m, "failed to write settings"), strings.HasPrefix(m, "failed to create settings directory"):
		return 6
	}
	return 9
}

// c19WithWriteFailure runs fn while no file of this process may grow beyond 8 bytes
// (RLIMIT_FSIZE with SIGXFSZ ignored: write(2) fails with EFBIG, as a full disk fails with ENOSPC),
// so that the write of the settings file inside fn fails part way. Everything else fn does
// (reading, parsing, creating the temporary file, removing it) works normally.
func c19WithWriteFailure(fail bool, fn func()) {
	if !fail {
		fn()
		return
	}
	signal.Ignore(syscall.SIGXFSZ)
	var old syscall.Rlimit
	if err := syscall.Getrlimit(syscall.RLIMIT_FSIZE, &old); err != nil {
		panic(err)
	}
	lim := old
	lim.Cur = 8
	if err := syscall.Setrlimit(syscall.RLIMIT_FSIZE, &lim); err != nil {
		panic(err)
	}
	defer func() {
		if err := syscall.Setrlimit(syscall.RLIMIT_FSIZE, &old); err != nil {
			panic(err)
		}
	}()
	fn()
}

// c19WithReadFailure runs fn while the settings file cannot be READ (open fails with EACCES) although
// its directory is writable -- a file left behind by another user, an ACL, an LSM. chmod 000 does that
// for an ordinary user; for root the file-system uid of the process is switched to nobody (setfsuid:
// permission checks of file accesses only) for the duration of fn.
func c19WithReadFailure(fail bool, dir, fname string, fn func()) {
	if !fail {
		fn()
		return
	}
	for _, d := range []string{filepath.Dir(dir), dir, filepath.Dir(fname)} {
		if filepath.Base(d) != "c19set" && d == filepath.Dir(dir) {
			continue // only directories the harness made itself
		}
		os.Chmod(d, 0o777)
	}
	os.Chmod(fname, 0)
	defer os.Chmod(fname, 0o644)
	if os.Geteuid() != 0 {
		fn()
		return
	}
	runtime.LockOSThread()
	defer runtime.UnlockOSThread()
	if err := syscall.Setfsgid(65534); err != nil {
		panic(err)
	}
	if err := syscall.Setfsuid(65534); err != nil {
		panic(err)
	}
	defer func() {
		syscall.Setfsuid(0)
		syscall.Setfsgid(0)
		// whatever fn created belongs to nobody: hand it back so that later steps are not affected
		os.Chown(fname, 0, 0)
	}()
	fn()
}

var c19ReadFaultProbe = 0 // 0 unknown, 1 works, 2 does not

// c19ReadFaultWorks probes once whether c19WithReadFailure really makes a read fail with a
// permission error (it needs CAP_SETUID as root); if not, read faults are not generated.
func c19ReadFaultWorks() bool {
	if c19ReadFaultProbe == 0 {
		c19ReadFaultProbe = 2
		dir, _ := filepath.Abs("c19probe")
		os.MkdirAll(filepath.Join(dir, "pprof"), 0o777)
		f := filepath.Join(dir, "pprof", "probe.json")
		os.WriteFile(f, []byte("{}"), 0o644)
		func() {
			defer func() { recover() }()
			c19WithReadFailure(true, dir, f, func() {
				_, err := os.ReadFile(f)
				_, err2 := os.CreateTemp(filepath.Dir(f), "t*")
				if os.IsPermission(err) && err2 == nil {
					c19ReadFaultProbe = 1
				}
			})
		}()
		os.RemoveAll(dir)
	}
	return c19ReadFaultProbe == 1
}

// c19FileAgrees decodes the settings file INDEPENDENTLY of the code under test (encoding/json into
// generic maps) and compares names and saved options with what readSettings returns in this
// process: state that lives in the process (a cache, a shared slice) and not in the file shows here.
func c19FileAgrees(fname string, fields []driver.VerifField) bool {
	names, cfgs, rerr := driver.VerifReadSettings(fname)
	data, err := os.ReadFile(fname)
	if err != nil {
		return os.IsNotExist(err) && rerr == nil && len(names) == 0
	}
	var file struct {
		Configs []map[string]interface{} `json:"configs"`
	}
	dec := json.NewDecoder(bytes.NewReader(data))
	dec.UseNumber()
	if derr := dec.Decode(&file); derr != nil {
		return rerr != nil
	}
	if rerr != nil || len(file.Configs) != len(names) {
		return false
	}
	for i, m := range file.Configs {
		if n, _ := m["name"].(string); n != names[i] {
			return false
		}
		dump := driver.VerifConfigDump(cfgs[i])
		for k, f := range fields {
			if !f.Saved {
				continue
			}
			want := ""
			switch v := m[f.Name].(type) {
			case nil:
				want = map[string]string{"string": "", "int": "0", "float64": "0", "bool": "false"}[f.Kind]
			case string:
				want = v
			case bool:
				want = fmt.Sprint(v)
			case json.Number:
				want = v.String()
				if f.Kind == "float64" {
					x, perr := strconv.ParseFloat(v.String(), 64)
					if perr != nil {
						return false
					}
					want = fmt.Sprint(x)
				}
			default:
				return false
			}
			if dump[k][1] != want {
				return false
			}
		}
	}
	return true
}

func c19SettingsState(fname string) Term {
	if _, err := os.Stat(fname); err != nil {
		return L(S("absent"))
	}
	names, cfgs, err := driver.VerifReadSettings(fname)
	if err != nil {
		return L(S("corrupt"))
	}
	var l []Term
	for i := range names {
		l = append(l, L(S(names[i]), c19CfgTerm(cfgs[i])))
	}
	return L(S("good"), L(l...))
}

func c19MenuTerm(fname string, q url.Values) Term {
	var l []Term
	for _, e := range driver.VerifConfigMenu(fname, c19URLOf(q)) {
		u, err := url.Parse(e.URL)
		var qq url.Values
		if err == nil {
			qq = u.Query()
		}
		l = append(l, L(S(e.Name), c19ValuesTerm(qq), Bool(e.Current), Bool(e.UserConfig), Bool(strings.HasPrefix(e.URL, "?"))))
	}
	return L(l...)
}

var c19Names = []string{"a", "b", "c", "Default", "my view", "x/y", "caf\xc3\xa9", "A"}

type c19Op struct {
	kind string
	q    url.Values
	name string
}

func (o c19Op) term() Term {
	switch o.kind {
	case "save", "menu", "save!", "save?", "menu?":
		return L(S(o.kind), c19ValuesTerm(o.q))
	default:
		return L(S(o.kind), S(o.name))
	}
}

var c19dirSeq int

func c19Dir() (dir, fname string) {
	c19dirSeq++
	dir, _ = filepath.Abs(fmt.Sprintf("c19set/%d", c19dirSeq))
	os.RemoveAll(dir)
	return dir, filepath.Join(dir, "pprof", "settings.json")
}

// c19Stray: the next seqCase starts with stray files in the settings directory.
var c19Stray bool

func c19RunSettings(c *Ctx, fields []driver.VerifField) {
	defer os.RemoveAll("c19set")
	seqCase := func(gen string, cur driver.VerifConfig, init string, initNames []string, initCfgs []driver.VerifConfig, ops []c19Op) {
		dir, fname := c19Dir()
		defer os.RemoveAll(dir)
		driver.VerifSetCurrentConfig(cur)
		strs, jstrs := map[string]bool{}, map[string]bool{}
		c19CollectCfg(strs, cur)
		c19CollectAll(jstrs, cur)
		var initT Term
		switch init {
		case "absent":
			initT = L(S("absent"))
		case "corrupt":
			os.MkdirAll(filepath.Dir(fname), 0o700)
			os.WriteFile(fname, []byte("{\"configs\": [ {\"name\": \"a\", "), 0o644)
			initT = L(S("corrupt"))
		default:
			if err := driver.VerifWriteSettings(fname, initNames, initCfgs); err != nil {
				panic(err)
			}
			var l []Term
			for i := range initNames {
				jstrs[initNames[i]] = true
				c19CollectAll(jstrs, initCfgs[i])
				c19CollectCfg(strs, initCfgs[i])
				l = append(l, L(S(initNames[i]), c19CfgTerm(initCfgs[i])))
			}
			initT = L(S("good"), L(l...))
		}
		if c19Stray {
			// leftovers of earlier (killed) runs and of other tools in the settings directory: none of
			// them may end up in, or break, what the next save writes
			d := filepath.Dir(fname)
			os.MkdirAll(d, 0o700)
			junk := "{\n  \"configs\": [\n    {\n      \"name\": \"stale\",\n      \"focus\": \"" + strings.Repeat("leftover ", 600) + "\"\n"
			for _, n := range []string{".tmp", ".tmp123456789", "~", ".bak", ".tmp0000000001"} {
				os.WriteFile(fname+n, []byte(junk), 0o600)
			}
			os.WriteFile(filepath.Join(d, ".settings.json.swp"), []byte(junk), 0o600)
			os.Mkdir(fname+".d", 0o700)
		}
		var opT, obs []Term
		nt := false
		for _, o := range ops {
			if strings.HasSuffix(o.kind, "?") {
				// a read fault needs a file to read (a missing file is "no configs yet" for everybody)
				// and an environment in which the fault can be produced
				if _, err := os.Stat(fname); err != nil || !c19ReadFaultWorks() {
					o.kind = strings.TrimSuffix(o.kind, "?")
				}
			}
			opT = append(opT, o.term())
			c19Collect(strs, o.q)
			c19Collect(jstrs, o.q)
			readFault := strings.HasSuffix(o.kind, "?")
			switch o.kind {
			case "save", "save!", "save?":
				var err error
				c19WithReadFailure(readFault, dir, fname, func() {
					c19WithWriteFailure(o.kind == "save!", func() { err = driver.VerifSetConfig(fname, c19URLOf(o.q)) })
				})
				obs = append(obs, L(ZI(c19SettingsErrCode(err)), c19SettingsState(fname), Bool(c19FileAgrees(fname, fields))))
				nt = nt || err == nil
			case "delete", "delete!", "delete?":
				var err error
				c19WithReadFailure(readFault, dir, fname, func() {
					c19WithWriteFailure(o.kind == "delete!", func() { err = driver.VerifRemoveConfig(fname, o.name) })
				})
				obs = append(obs, L(ZI(c19SettingsErrCode(err)), c19SettingsState(fname), Bool(c19FileAgrees(fname, fields))))
				nt = nt || err == nil
			case "menu", "menu?":
				var m Term
				c19WithReadFailure(readFault, dir, fname, func() { m = c19MenuTerm(fname, o.q) })
				obs = append(obs, L(ZI(0), m))
			}
		}
		in := L(S("seq"), c19PfTable(strs), c19JsTable(jstrs), c19CfgTerm(cur), initT, L(opT...))
		c.Case(gen, in, L(obs...), nt, "op:seq", "init:"+init)
	}
	jsonSafe := func() driver.VerifConfig {
		for {
			cfg := c19GenConfig(c.R, fields)
			ok := true
			for _, p := range driver.VerifConfigDump(cfg) {
				if p[1] == "NaN" || p[1] == "+Inf" || p[1] == "-Inf" {
					ok = false
				}
			}
			if ok {
				return cfg
			}
		}
	}
	genOps := func(n int) []c19Op {
		var ops []c19Op
		for i := 0; i < n; i++ {
			switch c.R.Intn(6) {
			case 0, 1, 2:
				q := c19GenQuery(c.R, fields, c.R.Intn(5))
				if c.R.P(3, 4) { // mostly valid requests
					q = url.Values{}
					for _, f := range fields {
						if f.URLParam != "" && c.R.P(1, 5) {
							cfg := c19GenConfig(c.R, fields)
							for _, p := range driver.VerifConfigDump(cfg) {
								if p[0] == f.Name && p[1] != "" {
									q[f.URLParam] = []string{p[1]}
								}
							}
						}
					}
				}
				if !c.R.P(1, 12) {
					q["config"] = []string{PickS(c.R, c19Names)}
				}
				kind := "save"
				if c.R.P(1, 5) {
					kind = "save!" // the write to disk fails
				} else if c.R.P(1, 6) {
					kind = "save?" // the settings file cannot be read (EACCES)
				}
				ops = append(ops, c19Op{kind: kind, q: q})
			case 3:
				kind := "delete"
				if c.R.P(1, 4) {
					kind = "delete!"
				} else if c.R.P(1, 6) {
					kind = "delete?"
				}
				ops = append(ops, c19Op{kind: kind, name: PickS(c.R, c19Names)})
			default:
				q := url.Values{}
				if c.R.Bool() {
					q = c19GenQuery(c.R, fields, c.R.Intn(6))
				}
				ops = append(ops, c19Op{kind: "menu", q: q})
			}
		}
		return ops
	}
	for k := 0; k < c.Budget(150, 3000); k++ {
		cur := jsonSafe()
		if c.R.P(1, 5) {
			cur = c19GenConfig(c.R, fields) // may hold NaN/Inf: saving then fails in json.Marshal
		}
		init := PickS(c.R, []string{"absent", "good", "good", "good", "corrupt"})
		if k%10 != 0 && init == "corrupt" {
			init = "good"
		}
		var names []string
		var cfgs []driver.VerifConfig
		if init == "good" {
			for i, n := 0, c.R.Intn(4); i < n; i++ {
				names = append(names, PickS(c.R, c19Names)) // duplicates possible (hand-edited file)
				cfgs = append(cfgs, jsonSafe())
			}
		}
		c19Stray = k%3 == 1
		seqCase("seq-random", cur, init, names, cfgs, genOps(1+c.R.Intn(7)))
		c19Stray = false
	}
	// always-generated witness of F25: a saved string option holding invalid UTF-8 is not restored intact
	{
		q := url.Values{"config": {"w"}, "f": {"k\xff"}}
		seqCase("finding-F25", driver.VerifDefaultConfig(), "absent", nil, nil, []c19Op{{kind: "save", q: q}})
		// deterministic: a settings directory full of leftovers (among them a long settings.json.tmp), then
		// edits that make the file SHORTER and longer again
		mkc := func(f string) driver.VerifConfig {
			cfg, _, _ := driver.VerifSetField(driver.VerifDefaultConfig(), "focus", f)
			return cfg
		}
		for _, ops := range [][]c19Op{
			{{kind: "delete", name: "c"}, {kind: "menu", q: url.Values{}}, {kind: "save", q: url.Values{"config": {"n"}, "h": {"x"}}}, {kind: "delete", name: "a"}},
			{{kind: "save", q: url.Values{"config": {"a"}, "f": {"s"}}}, {kind: "delete", name: "b"}, {kind: "delete", name: "c"}, {kind: "delete", name: "a"}},
		} {
			c19Stray = true
			seqCase("seq-stray", driver.VerifDefaultConfig(), "good", []string{"a", "b", "c"},
				[]driver.VerifConfig{mkc(strings.Repeat("long", 40)), mkc("bb"), mkc(strings.Repeat("tail", 60))}, ops)
			c19Stray = false
		}
		c19Stray = true
		seqCase("seq-stray", driver.VerifDefaultConfig(), "absent", nil, nil, []c19Op{{kind: "save", q: url.Values{"config": {"first"}}}, {kind: "menu", q: url.Values{}}})
		c19Stray = false
	}
	// more of class F25: invalid UTF-8 in option values and names, followed by menu / delete / re-save
	bad := []string{"k\xff", "\xc3(", "a\x80b", "\xed\xa0\x80"}
	for k := 0; k < c.Budget(3, 200); k++ {
		name := PickS(c.R, []string{"w", PickS(c.R, bad)})
		ops := []c19Op{{kind: "save", q: url.Values{"config": {name}, PickS(c.R, []string{"f", "i", "unit", "tf"}): {PickS(c.R, bad)}}}}
		ops = append(ops, c19Op{kind: "menu", q: url.Values{}})
		if c.R.Bool() {
			ops = append(ops, c19Op{kind: "delete", name: name})
		} else {
			ops = append(ops, c19Op{kind: "save", q: url.Values{"config": {name}, "n": {"3"}}})
		}
		seqCase("seq-F25", driver.VerifDefaultConfig(), "absent", nil, nil, ops)
	}
	// an error path followed by more work in the same process: on a file holding several named
	// configurations one edit fails (write to disk fails, or the request itself is refused), then
	// the menu is rendered and further edits succeed -- the failed edit must leave no trace in
	// whatever the process keeps between requests
	for k := 0; k < c.Budget(40, 800); k++ {
		names := []string{"a", "b", "c"}
		if c.R.P(1, 4) {
			names = []string{"a", "b", "c", "b"}
		}
		var cfgs []driver.VerifConfig
		for i := range names {
			cfg := driver.VerifDefaultConfig()
			cfg, _, _ = driver.VerifSetField(cfg, "focus", "f"+names[i])
			cfg, _, _ = driver.VerifSetField(cfg, "nodecount", fmt.Sprint(i+1))
			cfgs = append(cfgs, cfg)
		}
		existing := func() string { return PickS(c.R, []string{"a", "b", "c"}) }
		var ops []c19Op
		if c.R.P(1, 3) {
			ops = append(ops, c19Op{kind: "menu", q: url.Values{}}) // something has read the file before
		}
		for i, n := 0, 1+c.R.Intn(2); i < n; i++ {
			switch c.R.Intn(8) {
			case 0, 1:
				ops = append(ops, c19Op{kind: "delete!", name: existing()})
			case 2, 3:
				ops = append(ops, c19Op{kind: "save!", q: url.Values{"config": {existing()}, "f": {"changed"}, "h": {"changed"}}})
			case 4: // the read of the file fails: nothing may be saved, deleted or lost
				ops = append(ops, c19Op{kind: "save?", q: url.Values{"config": {PickS(c.R, []string{"a", "newq"})}, "f": {"changed"}}})
			case 5:
				ops = append(ops, c19Op{kind: "delete?", name: existing()})
			case 6:
				ops = append(ops, c19Op{kind: "menu?", q: url.Values{}})
			default: // refused before any write: bad option value / unknown name
				if c.R.Bool() {
					ops = append(ops, c19Op{kind: "save", q: url.Values{"config": {existing()}, "f": {"changed"}, "n": {"zz"}}})
				} else {
					ops = append(ops, c19Op{kind: "delete", name: "nosuch"})
				}
			}
		}
		for i, n := 0, 1+c.R.Intn(3); i < n; i++ {
			switch c.R.Intn(4) {
			case 0:
				ops = append(ops, c19Op{kind: "menu", q: url.Values{}})
			case 1:
				ops = append(ops, c19Op{kind: "save", q: url.Values{"config": {"new" + fmt.Sprint(i)}, "s": {"x"}}})
			case 2:
				ops = append(ops, c19Op{kind: "save", q: url.Values{"config": {existing()}, "i": {"y"}}})
			default:
				ops = append(ops, c19Op{kind: "delete", name: existing()})
			}
		}
		c19Stray = k%2 == 0
		seqCase("seq-failed-edit", driver.VerifDefaultConfig(), "good", names, cfgs, ops)
		c19Stray = false
	}
	c.Extra["read_faults_producible"] = c19ReadFaultWorks()
	c19RunConc(c, fields)
	c19RunBurst(c, fields)
	c19RunE2E(c, fields)
}

// c19RunConc: n concurrent save/delete requests against one settings file; the observable is the
// final file. The model enumerates the results of all sequential orders.
func c19RunConc(c *Ctx, fields []driver.VerifField) {
	prev := runtime.GOMAXPROCS(8)
	defer runtime.GOMAXPROCS(prev)
	for k := 0; k < c.Budget(40, 600); k++ {
		dir, fname := c19Dir()
		cur := driver.VerifDefaultConfig()
		driver.VerifSetCurrentConfig(cur)
		strs := map[string]bool{}
		c19CollectCfg(strs, cur)
		names := []string{"a", "b"}
		cfgs := []driver.VerifConfig{driver.VerifDefaultConfig(), driver.VerifDefaultConfig()}
		if err := driver.VerifWriteSettings(fname, names, cfgs); err != nil {
			panic(err)
		}
		initT := L(S("good"), L(L(S("a"), c19CfgTerm(cfgs[0])), L(S("b"), c19CfgTerm(cfgs[1]))))
		n := 2 + c.R.Intn(3)
		if c.Tier == "thorough" {
			n = 2 + c.R.Intn(4)
		}
		var ops []c19Op
		for i := 0; i < n; i++ {
			if c.R.P(1, 4) {
				ops = append(ops, c19Op{kind: "delete", name: PickS(c.R, []string{"a", "b", "n0", "n1"})})
			} else {
				nm := fmt.Sprintf("n%d", i)
				if c.R.P(1, 4) {
					nm = PickS(c.R, []string{"a", "b", "n0"})
				}
				ops = append(ops, c19Op{kind: "save", q: url.Values{"config": {nm}, "n": {fmt.Sprint(10 + i)}}})
			}
		}
		var opT []Term
		for _, o := range ops {
			opT = append(opT, o.term())
			c19Collect(strs, o.q)
		}
		viaHTTP := k%2 == 0
		c19Fire(dir, fname, cur, ops, viaHTTP, k)
		in := L(S("conc"), c19PfTable(strs), c19JsTable(strs), c19CfgTerm(cur), initT, L(opT...))
		c.Case("conc", in, c19SettingsState(fname), true, "op:conc", fmt.Sprintf("conc:%d", n), fmt.Sprintf("conc-http:%v", viaHTTP))
		os.RemoveAll(dir)
	}
}

// c19Fire releases the requests at the same instant (spin barrier, one goroutine per request).
// viaHTTP: through the real HTTP handlers /saveconfig and /deleteconfig (settings file located
// through $XDG_CONFIG_HOME); otherwise setConfig / removeConfig are called directly.
func c19Fire(dir, fname string, cur driver.VerifConfig, ops []c19Op, viaHTTP bool, k int) {
	var handlers map[string]http.Handler
	if viaHTTP {
		os.Setenv("XDG_CONFIG_HOME", dir)
		o := driver.VerifSetDefaults(&plugin.Options{UI: c10NullUI{}, Writer: &c10MemWriter{}, HTTPTransport: transport.New(nil)})
		restoreG := driver.VerifGlobals()
		h, err := driver.VerifWeb(c10Profile(NewRng(uint64(k)+7)), o)
		restoreG()
		driver.VerifSetCurrentConfig(cur)
		if err != nil {
			panic(err)
		}
		handlers = h
	}
	var wg sync.WaitGroup
	var arrived int32
	n := int32(len(ops))
	for _, o := range ops {
		wg.Add(1)
		go func(o c19Op) {
			defer wg.Done()
			atomic.AddInt32(&arrived, 1)
			for atomic.LoadInt32(&arrived) < n { // spin: all requests start within nanoseconds
			}
			switch {
			case viaHTTP && o.kind == "save":
				c10Do(handlers, c10Req{"/saveconfig", o.q})
			case viaHTTP:
				c10Do(handlers, c10Req{"/deleteconfig", url.Values{"config": {o.name}}})
			case o.kind == "save":
				driver.VerifSetConfig(fname, c19URLOf(o.q))
			default:
				driver.VerifRemoveConfig(fname, o.name)
			}
		}(o)
	}
	wg.Wait()
}

// c19RunBurst: the FIRST edits a settings file sees in the life of the process arrive as one
// burst: 5 saves of new names and 3 deletes of existing names, all names distinct, so every
// serial order leaves the same set of configurations (compared up to order in R_C19 "burst").
func c19RunBurst(c *Ctx, fields []driver.VerifField) {
	prev := runtime.GOMAXPROCS(8)
	defer runtime.GOMAXPROCS(prev)
	for k := 0; k < c.Budget(40, 600); k++ {
		dir, fname := c19Dir()
		cur := driver.VerifDefaultConfig()
		driver.VerifSetCurrentConfig(cur)
		strs := map[string]bool{}
		c19CollectCfg(strs, cur)
		names := []string{"keep0", "keep1", "del0", "del1", "del2"}
		var cfgs []driver.VerifConfig
		var initL []Term
		for i := range names {
			cfg := driver.VerifDefaultConfig()
			cfg, _, _ = driver.VerifSetField(cfg, "nodecount", fmt.Sprint(i+1))
			cfgs = append(cfgs, cfg)
			initL = append(initL, L(S(names[i]), c19CfgTerm(cfg)))
		}
		if err := driver.VerifWriteSettings(fname, names, cfgs); err != nil {
			panic(err)
		}
		var ops []c19Op
		for i, n := 0, 2+c.R.Intn(4); i < n; i++ {
			ops = append(ops, c19Op{kind: "save", q: url.Values{"config": {fmt.Sprintf("new%d", i)}, "n": {fmt.Sprint(10 + i)}}})
		}
		for i, n := 0, 1+c.R.Intn(3); i < n; i++ {
			ops = append(ops, c19Op{kind: "delete", name: fmt.Sprintf("del%d", i)})
		}
		var opT []Term
		for _, o := range ops {
			opT = append(opT, o.term())
			c19Collect(strs, o.q)
		}
		viaHTTP := k%2 == 0
		c19Fire(dir, fname, cur, ops, viaHTTP, k)
		in := L(S("burst"), c19PfTable(strs), c19JsTable(strs), c19CfgTerm(cur), L(S("good"), L(initL...)), L(opT...))
		c.Case("burst", in, c19SettingsState(fname), true, "op:burst", fmt.Sprintf("burst:%d", len(ops)), fmt.Sprintf("burst-http:%v", viaHTTP))
		os.RemoveAll(dir)
	}
}

// c19WriteChild: `harness c19-write <settings file> <variant>` performs ONE writeSettings of
// new contents over the existing file; it is the process the python hook lib/c19_fs.py traces
// with strace and kills / fails at every system call. Markers (stat of a fixed bogus path)
// delimit the window.
func c19WriteChild(args []string) {
	runtime.LockOSThread()
	fname, variant := args[0], args[1]
	names, cfgs := c19ChildContents(variant)
	os.Stat("/verif-marker-begin")
	err := driver.VerifWriteSettings(fname, names, cfgs)
	os.Stat("/verif-marker-end")
	if err != nil {
		fmt.Println("error:", err)
		os.Exit(3)
	}
	fmt.Println("ok")
}

// c19ChildContents: deterministic contents per variant ("old:<k>" / "new:<k>").
func c19ChildContents(variant string) ([]string, []driver.VerifConfig) {
	var names []string
	var cfgs []driver.VerifConfig
	n := 1
	fmt.Sscanf(variant[strings.Index(variant, ":")+1:], "%d", &n)
	for i := 0; i < n; i++ {
		cfg := driver.VerifDefaultConfig()
		cfg, _, _ = driver.VerifSetField(cfg, "focus", fmt.Sprintf("%s-%d-%s", variant, i, strings.Repeat("x", 50*i)))
		cfg, _, _ = driver.VerifSetField(cfg, "nodecount", fmt.Sprint(i+1))
		names = append(names, fmt.Sprintf("cfg%d", i))
		cfgs = append(cfgs, cfg)
	}
	return names, cfgs
}

// c19EditsChild: `harness c19-edits <settings file> <variant>` runs, in ONE process, a first edit
// (variant "overwrite" / "delete" / "append") between the two marker stats -- lib/c19_fs.py makes
// one of its system calls fail with strace -- and then more work: menu, a save of a new name, a
// delete. It prints the complete "seq" case as JSON {in, obs}: an edit that reported a failed
// write is recorded as "save!" / "delete!" (the fault is an input of the model).
func c19EditsChild(args []string) {
	runtime.LockOSThread()
	fname, variant := args[0], args[1]
	fields := driver.VerifConfigFields()
	cur := driver.VerifDefaultConfig()
	driver.VerifSetCurrentConfig(cur)
	names := []string{"a", "b", "c"}
	var cfgs []driver.VerifConfig
	var initL []Term
	for i := range names {
		cfg := driver.VerifDefaultConfig()
		cfg, _, _ = driver.VerifSetField(cfg, "focus", "f"+names[i])
		cfg, _, _ = driver.VerifSetField(cfg, "nodecount", fmt.Sprint(i+1))
		cfgs = append(cfgs, cfg)
		initL = append(initL, L(S(names[i]), c19CfgTerm(cfg)))
	}
	initT := Term(nil)
	if variant == "after" {
		// second step of a crash history: a NEW process edits whatever an earlier (killed) save left in
		// the settings directory; the file as it is now is the model's initial state
		names, cfgs, initL = nil, nil, nil
		if _, serr := os.Stat(fname); serr != nil {
			initT = L(S("absent"))
		} else if rn, rc, rerr := driver.VerifReadSettings(fname); rerr != nil {
			initT = L(S("corrupt"))
		} else {
			names, cfgs = rn, rc
			for i := range names {
				initL = append(initL, L(S(names[i]), c19CfgTerm(cfgs[i])))
			}
		}
	} else if err := driver.VerifWriteSettings(fname, names, cfgs); err != nil {
		fmt.Println("error:", err)
		os.Exit(3)
	}
	if strings.HasSuffix(variant, "+read") { // something (a page render) has read the file before
		driver.VerifConfigMenu(fname, c19URLOf(url.Values{}))
	}
	var first c19Op
	switch strings.TrimSuffix(variant, "+read") {
	case "overwrite":
		first = c19Op{kind: "save", q: url.Values{"config": {"a"}, "f": {"changed"}, "h": {"changed"}}}
	case "delete":
		first = c19Op{kind: "delete", name: "a"}
	default:
		first = c19Op{kind: "save", q: url.Values{"config": {"d"}, "f": {"added"}}}
	}
	ops := []c19Op{first, {kind: "menu", q: url.Values{}}, {kind: "save", q: url.Values{"config": {"e"}, "s": {"x"}}},
		{kind: "delete", name: "b"}, {kind: "save", q: url.Values{"config": {"c"}, "i": {"y"}}}}
	if variant == "after" {
		// first make the file SHORTER (delete what is there), then longer again
		ops = nil
		for i := len(names) - 1; i >= 0 && i >= len(names)-2; i-- {
			ops = append(ops, c19Op{kind: "delete", name: names[i]})
		}
		ops = append(ops, c19Op{kind: "menu", q: url.Values{}}, c19Op{kind: "save", q: url.Values{"config": {"z"}, "h": {"x"}}}, c19Op{kind: "delete", name: "z"})
	}
	strs := map[string]bool{}
	c19CollectCfg(strs, cur)
	for _, cfg := range cfgs {
		c19CollectCfg(strs, cfg)
	}
	var opT, obs []Term
	for i, o := range ops {
		c19Collect(strs, o.q)
		var err error
		if i == 0 {
			os.Stat("/verif-marker-begin")
		}
		switch o.kind {
		case "save":
			err = driver.VerifSetConfig(fname, c19URLOf(o.q))
		case "delete":
			err = driver.VerifRemoveConfig(fname, o.name)
		}
		if i == 0 {
			os.Stat("/verif-marker-end")
		}
		if o.kind == "menu" {
			opT = append(opT, o.term())
			obs = append(obs, L(ZI(0), c19MenuTerm(fname, o.q)))
			continue
		}
		code := c19SettingsErrCode(err)
		if code == 6 {
			o.kind += "!"
		} else if i == 0 && len(args) > 2 && args[2] == "read" {
			o.kind += "?" // the hook makes the open/read of the settings file fail during this edit
		}
		opT = append(opT, o.term())
		obs = append(obs, L(ZI(code), c19SettingsState(fname), Bool(c19FileAgrees(fname, fields))))
	}
	if initT == nil {
		initT = L(S("good"), L(initL...))
	}
	in := L(S("seq"), c19PfTable(strs), c19JsTable(map[string]bool{}), c19CfgTerm(cur), initT, L(opT...))
	b, _ := json.Marshal(map[string]string{"in": Render(in), "obs": Render(L(obs...))})
	fmt.Println(string(b))
}
