//go:build verif

package main

import (
	"encoding/json"
	"fmt"
	"net/http"
	"net/url"
	"os"
	"path/filepath"
	"runtime"
	"sort"
	"strings"
	"sync"

	"github.com/google/pprof/internal/driver"
	"github.com/google/pprof/internal/plugin"
	"github.com/google/pprof/internal/transport"
)

// c19JsTable ships encoding/json's string round trip (invalid UTF-8 is coerced to U+FFFD).
func c19JsTable(strs map[string]bool) Term {
	var ks []string
	for k := range strs {
		ks = append(ks, k)
	}
	sort.Strings(ks)
	l := []Term{}
	for _, k := range ks {
		b, _ := json.Marshal(k)
		var back string
		json.Unmarshal(b, &back)
		if back != k {
			l = append(l, L(S(k), S(back)))
		}
	}
	return L(l...)
}

func c19CollectAll(strs map[string]bool, c driver.VerifConfig) {
	for _, p := range driver.VerifConfigDump(c) {
		strs[p[1]] = true
	}
}

func c19SettingsErrCode(err error) int {
	if err == nil {
		return 0
	}
	m := err.Error()
	switch {
	case strings.HasPrefix(m, "invalid config name"):
		return 1
	case strings.HasPrefix(m, "error setting config field"):
		return 2
	case strings.HasPrefix(m, "could not parse settings"), strings.HasPrefix(m, "could not read settings"):
		return 3
	case strings.HasSuffix(m, "not found") && strings.HasPrefix(m, "config "):
		return 4
	case strings.HasPrefix(m, "could not encode settings"):
		return 5
	}
	return 9
}

func c19SettingsState(fname string) Term {
	if _, err := os.Stat(fname); err != nil {
		return L(S("absent"))
	}
	names, cfgs, err := driver.VerifReadSettings(fname)
	if err != nil {
		return L(S("corrupt"))
	}
	var l []Term
	for i := range names {
		l = append(l, L(S(names[i]), c19CfgTerm(cfgs[i])))
	}
	return L(S("good"), L(l...))
}

func c19MenuTerm(fname string, q url.Values) Term {
	var l []Term
	for _, e := range driver.VerifConfigMenu(fname, c19URLOf(q)) {
		u, err := url.Parse(e.URL)
		var qq url.Values
		if err == nil {
			qq = u.Query()
		}
		l = append(l, L(S(e.Name), c19ValuesTerm(qq), Bool(e.Current), Bool(e.UserConfig), Bool(strings.HasPrefix(e.URL, "?"))))
	}
	return L(l...)
}

var c19Names = []string{"a", "b", "c", "Default", "my view", "x/y", "caf\xc3\xa9", "A"}

type c19Op struct {
	kind string
	q    url.Values
	name string
}

func (o c19Op) term() Term {
	switch o.kind {
	case "save", "menu":
		return L(S(o.kind), c19ValuesTerm(o.q))
	default:
		return L(S(o.kind), S(o.name))
	}
}

var c19dirSeq int

func c19Dir() (dir, fname string) {
	c19dirSeq++
	dir, _ = filepath.Abs(fmt.Sprintf("c19set/%d", c19dirSeq))
	os.RemoveAll(dir)
	return dir, filepath.Join(dir, "pprof", "settings.json")
}

func c19RunSettings(c *Ctx, fields []driver.VerifField) {
	defer os.RemoveAll("c19set")
	seqCase := func(gen string, cur driver.VerifConfig, init string, initNames []string, initCfgs []driver.VerifConfig, ops []c19Op) {
		dir, fname := c19Dir()
		defer os.RemoveAll(dir)
		driver.VerifSetCurrentConfig(cur)
		strs, jstrs := map[string]bool{}, map[string]bool{}
		c19CollectCfg(strs, cur)
		c19CollectAll(jstrs, cur)
		var initT Term
		switch init {
		case "absent":
			initT = L(S("absent"))
		case "corrupt":
			os.MkdirAll(filepath.Dir(fname), 0o700)
			os.WriteFile(fname, []byte("{\"configs\": [ {\"name\": \"a\", "), 0o644)
			initT = L(S("corrupt"))
		default:
			if err := driver.VerifWriteSettings(fname, initNames, initCfgs); err != nil {
				panic(err)
			}
			var l []Term
			for i := range initNames {
				jstrs[initNames[i]] = true
				c19CollectAll(jstrs, initCfgs[i])
				c19CollectCfg(strs, initCfgs[i])
				l = append(l, L(S(initNames[i]), c19CfgTerm(initCfgs[i])))
			}
			initT = L(S("good"), L(l...))
		}
		var opT, obs []Term
		nt := false
		for _, o := range ops {
			opT = append(opT, o.term())
			c19Collect(strs, o.q)
			c19Collect(jstrs, o.q)
			switch o.kind {
			case "save":
				err := driver.VerifSetConfig(fname, c19URLOf(o.q))
				obs = append(obs, L(ZI(c19SettingsErrCode(err)), c19SettingsState(fname)))
				nt = nt || err == nil
			case "delete":
				err := driver.VerifRemoveConfig(fname, o.name)
				obs = append(obs, L(ZI(c19SettingsErrCode(err)), c19SettingsState(fname)))
				nt = nt || err == nil
			case "menu":
				obs = append(obs, L(ZI(0), c19MenuTerm(fname, o.q)))
			}
		}
		in := L(S("seq"), c19PfTable(strs), c19JsTable(jstrs), c19CfgTerm(cur), initT, L(opT...))
		c.Case(gen, in, L(obs...), nt, "op:seq", "init:"+init)
	}
	jsonSafe := func() driver.VerifConfig {
		for {
			cfg := c19GenConfig(c.R, fields)
			ok := true
			for _, p := range driver.VerifConfigDump(cfg) {
				if p[1] == "NaN" || p[1] == "+Inf" || p[1] == "-Inf" {
					ok = false
				}
			}
			if ok {
				return cfg
			}
		}
	}
	genOps := func(n int) []c19Op {
		var ops []c19Op
		for i := 0; i < n; i++ {
			switch c.R.Intn(6) {
			case 0, 1, 2:
				q := c19GenQuery(c.R, fields, c.R.Intn(5))
				if c.R.P(3, 4) { // mostly valid requests
					q = url.Values{}
					for _, f := range fields {
						if f.URLParam != "" && c.R.P(1, 5) {
							cfg := c19GenConfig(c.R, fields)
							for _, p := range driver.VerifConfigDump(cfg) {
								if p[0] == f.Name && p[1] != "" {
									q[f.URLParam] = []string{p[1]}
								}
							}
						}
					}
				}
				if !c.R.P(1, 12) {
					q["config"] = []string{PickS(c.R, c19Names)}
				}
				ops = append(ops, c19Op{kind: "save", q: q})
			case 3:
				ops = append(ops, c19Op{kind: "delete", name: PickS(c.R, c19Names)})
			default:
				q := url.Values{}
				if c.R.Bool() {
					q = c19GenQuery(c.R, fields, c.R.Intn(6))
				}
				ops = append(ops, c19Op{kind: "menu", q: q})
			}
		}
		return ops
	}
	for k := 0; k < c.Budget(180, 3000); k++ {
		cur := jsonSafe()
		if c.R.P(1, 5) {
			cur = c19GenConfig(c.R, fields) // may hold NaN/Inf: saving then fails in json.Marshal
		}
		init := PickS(c.R, []string{"absent", "good", "good", "good", "corrupt"})
		if k%10 != 0 && init == "corrupt" {
			init = "good"
		}
		var names []string
		var cfgs []driver.VerifConfig
		if init == "good" {
			for i, n := 0, c.R.Intn(4); i < n; i++ {
				names = append(names, PickS(c.R, c19Names)) // duplicates possible (hand-edited file)
				cfgs = append(cfgs, jsonSafe())
			}
		}
		seqCase("seq-random", cur, init, names, cfgs, genOps(1+c.R.Intn(7)))
	}
	// always-generated witness of F25: a saved string option holding invalid UTF-8 is not restored intact
	{
		q := url.Values{"config": {"w"}, "f": {"k\xff"}}
		seqCase("finding-F25", driver.VerifDefaultConfig(), "absent", nil, nil, []c19Op{{kind: "save", q: q}})
	}
	// more of class F25: invalid UTF-8 in option values and names, followed by menu / delete / re-save
	bad := []string{"k\xff", "\xc3(", "a\x80b", "\xed\xa0\x80"}
	for k := 0; k < c.Budget(3, 200); k++ {
		name := PickS(c.R, []string{"w", PickS(c.R, bad)})
		ops := []c19Op{{kind: "save", q: url.Values{"config": {name}, PickS(c.R, []string{"f", "i", "unit", "tf"}): {PickS(c.R, bad)}}}}
		ops = append(ops, c19Op{kind: "menu", q: url.Values{}})
		if c.R.Bool() {
			ops = append(ops, c19Op{kind: "delete", name: name})
		} else {
			ops = append(ops, c19Op{kind: "save", q: url.Values{"config": {name}, "n": {"3"}}})
		}
		seqCase("seq-F25", driver.VerifDefaultConfig(), "absent", nil, nil, ops)
	}
	c19RunConc(c, fields)
}

// c19RunConc: n concurrent save/delete requests against one settings file; the observable is the
// final file. The model enumerates the results of all sequential orders.
func c19RunConc(c *Ctx, fields []driver.VerifField) {
	prev := runtime.GOMAXPROCS(8)
	defer runtime.GOMAXPROCS(prev)
	for k := 0; k < c.Budget(40, 600); k++ {
		dir, fname := c19Dir()
		cur := driver.VerifDefaultConfig()
		driver.VerifSetCurrentConfig(cur)
		strs := map[string]bool{}
		c19CollectCfg(strs, cur)
		names := []string{"a", "b"}
		cfgs := []driver.VerifConfig{driver.VerifDefaultConfig(), driver.VerifDefaultConfig()}
		if err := driver.VerifWriteSettings(fname, names, cfgs); err != nil {
			panic(err)
		}
		initT := L(S("good"), L(L(S("a"), c19CfgTerm(cfgs[0])), L(S("b"), c19CfgTerm(cfgs[1]))))
		n := 2 + c.R.Intn(3)
		if c.Tier == "thorough" {
			n = 2 + c.R.Intn(4)
		}
		var ops []c19Op
		for i := 0; i < n; i++ {
			if c.R.P(1, 4) {
				ops = append(ops, c19Op{kind: "delete", name: PickS(c.R, []string{"a", "b", "n0", "n1"})})
			} else {
				nm := fmt.Sprintf("n%d", i)
				if c.R.P(1, 4) {
					nm = PickS(c.R, []string{"a", "b", "n0"})
				}
				ops = append(ops, c19Op{kind: "save", q: url.Values{"config": {nm}, "n": {fmt.Sprint(10 + i)}}})
			}
		}
		var opT []Term
		for _, o := range ops {
			opT = append(opT, o.term())
			c19Collect(strs, o.q)
		}
		// half of the cases go through the real HTTP handlers /saveconfig and /deleteconfig (one
		// goroutine per request, settings file located through $XDG_CONFIG_HOME), the others call
		// setConfig / removeConfig directly
		var handlers map[string]http.Handler
		viaHTTP := k%2 == 0
		if viaHTTP {
			os.Setenv("XDG_CONFIG_HOME", dir)
			o := driver.VerifSetDefaults(&plugin.Options{UI: c10NullUI{}, Writer: &c10MemWriter{}, HTTPTransport: transport.New(nil)})
			restoreG := driver.VerifGlobals()
			h, err := driver.VerifWeb(c10Profile(NewRng(uint64(k)+7)), o)
			restoreG()
			driver.VerifSetCurrentConfig(cur)
			if err != nil {
				panic(err)
			}
			handlers = h
		}
		var wg sync.WaitGroup
		start := make(chan struct{})
		for _, o := range ops {
			wg.Add(1)
			go func(o c19Op) {
				defer wg.Done()
				<-start
				switch {
				case viaHTTP && o.kind == "save":
					c10Do(handlers, c10Req{"/saveconfig", o.q})
				case viaHTTP:
					c10Do(handlers, c10Req{"/deleteconfig", url.Values{"config": {o.name}}})
				case o.kind == "save":
					driver.VerifSetConfig(fname, c19URLOf(o.q))
				default:
					driver.VerifRemoveConfig(fname, o.name)
				}
			}(o)
		}
		close(start)
		wg.Wait()
		in := L(S("conc"), c19PfTable(strs), c19JsTable(strs), c19CfgTerm(cur), initT, L(opT...))
		c.Case("conc", in, c19SettingsState(fname), true, "op:conc", fmt.Sprintf("conc:%d", n), fmt.Sprintf("conc-http:%v", viaHTTP))
		os.RemoveAll(dir)
	}
}

// c19WriteChild: `harness c19-write <settings file> <variant>` performs ONE writeSettings of
// new contents over the existing file; it is the process the python hook lib/c19_fs.py traces
// with strace and kills / fails at every system call. Markers (stat of a fixed bogus path)
// delimit the window.
func c19WriteChild(args []string) {
	runtime.LockOSThread()
	fname, variant := args[0], args[1]
	names, cfgs := c19ChildContents(variant)
	os.Stat("/verif-marker-begin")
	err := driver.VerifWriteSettings(fname, names, cfgs)
	os.Stat("/verif-marker-end")
	if err != nil {
		fmt.Println("error:", err)
		os.Exit(3)
	}
	fmt.Println("ok")
}

// c19ChildContents: deterministic contents per variant ("old:<k>" / "new:<k>").
func c19ChildContents(variant string) ([]string, []driver.VerifConfig) {
	var names []string
	var cfgs []driver.VerifConfig
	n := 1
	fmt.Sscanf(variant[strings.Index(variant, ":")+1:], "%d", &n)
	for i := 0; i < n; i++ {
		cfg := driver.VerifDefaultConfig()
		cfg, _, _ = driver.VerifSetField(cfg, "focus", fmt.Sprintf("%s-%d-%s", variant, i, strings.Repeat("x", 50*i)))
		cfg, _, _ = driver.VerifSetField(cfg, "nodecount", fmt.Sprint(i+1))
		names = append(names, fmt.Sprintf("cfg%d", i))
		cfgs = append(cfgs, cfg)
	}
	return names, cfgs
}
