//go:build verif

package main

// C16, round 6: how long an HTTP fetch may take before the source counts as failed.  fetch() hands
// adjustURL the run's -seconds / -timeout; adjustURL derives the timeout (explicit -timeout; else 1.5 x
// the duration from -seconds or from the URL's own seconds= parameter; else 60 s) and fetchURL gives
// the http.Client that timeout PLUS 5 s.  "Exactly those that could be fetched" therefore includes
// every source whose server answers within timeout + 5 s.  Two observations, both on the real code:
//  - the deadline the http.Client puts on the request, read by the transport wrapper from the request
//    context (no waiting), reported per source in half seconds and predicted by the model;
//  - real delays: a local server answering 0.3 s / 1.5 s late under -timeout 1 (allowance 6 s) must be
//    fetched; thorough tier: 6.8 s late must fail with a timeout error.

func (c *Ctx) c16DeadlineStreams() {
	mk := func(i int, kind int, urlSec string, delay, sec, tmo int) c16Src {
		s := c16Plain(i, 0, true)
		s.kind, s.urlSec, s.delayMs = kind, urlSec, delay
		s.tmd, s.sec, s.tmo = true, sec, tmo
		return s
	}
	emit := func(gen string, sec, tmo int, urlSecs []string, delays []int) {
		cs := c16Case{timed: true, seconds: sec, timeout: tmo}
		for i, u := range urlSecs {
			cs.srcs = append(cs.srcs, mk(i, c16KTrHTTPOK, u, delays[i], sec, tmo))
		}
		n := len(cs.srcs)
		cs.srcs = append(cs.srcs, mk(n, kFetchOK, "", 0, sec, tmo), mk(n+1, c16KTrHTTP500, "", 0, sec, tmo))
		cs.order = c16Order(c.R, len(cs.srcs), 0, 1)
		c.c16Emit(gen, cs, "gen-deadline")
	}
	z := []int{0, 0, 0}
	// (-seconds, -timeout) x URL seconds= parameters: none, a number, not a number
	for _, st := range [][2]int{{-1, -1}, {0, 0}, {-1, 1}, {-1, 2}, {0, 7}, {3, -1}, {10, -1}, {2, 1}, {1, 0}, {-1, 0}} {
		emit("deadline-arith", st[0], st[1], []string{"", "4", "abc"}, z)
	}
	emit("deadline-arith", -1, -1, []string{"1", "30", "0"}, z)
	emit("deadline-arith", 5, -1, []string{"9", "", "-3"}, z)
	// real delays between the timeout and timeout + 5 s
	emit("deadline-delay", -1, 1, []string{"", "", "7"}, []int{300, 1500, 1100})
	if c.Tier == "thorough" {
		emit("deadline-delay", -1, 1, []string{"", ""}, []int{6800, 5200})
	}
}
