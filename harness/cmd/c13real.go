//go:build verif

package main

// c13RealBinaries (thorough tier): see below; placeholder until the compiled-binary stream exists.
func c13RealBinaries(c *Ctx) {}
