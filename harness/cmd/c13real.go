//go:build verif

package main

import (
	"bufio"
	"debug/elf"
	"fmt"
	"os"
	"os/exec"
	"path/filepath"
	"strconv"
	"strings"

	"github.com/google/pprof/internal/binutils"
)

// c13RealBinaries (thorough tier, optional): compile tiny C programs with the installed gcc/clang
// under several link modes, run them, read their own /proc/self/maps and the runtime addresses of
// three symbols, read the real program headers with debug/elf, and
//   (1) "maps" cases: every file-backed maps line of the binary must be a piece of the image the
//       LOADER MODEL of coq/S_Elf.v predicts for one of the PT_LOAD segments at the observed bias
//       (this validates the specification side against the real kernel);
//   (2) "objaddr" cases with the real headers, the real mapping and the real symbol addresses:
//       model = implementation, and the answer must be address - bias = the ELF symbol value.
//       The same question is also put to the public API (binutils.Open + ObjAddr on the file on
//       disk); a different answer is reported in the observable.
// Nothing here is required for the quick tier; without a compiler the stream is empty.

const c13CSource = `#include <stdio.h>
int data_sym = 42;
static int bss_sym[3000];
__attribute__((noinline)) int hot(int x) { return x * 2 + bss_sym[x % 3000]; }
int main(void) {
  char line[1024];
  FILE *f = fopen("/proc/self/maps", "r");
  if (!f) return 2;
  printf("SYM main %p\nSYM hot %p\nSYM data_sym %p\n", (void *)main, (void *)hot, (void *)&data_sym);
  while (fgets(line, sizeof line, f)) fputs(line, stdout);
  return hot(3) == 12345;
}
`

type c13MapsLine struct {
	start, limit, offset uint64
	perms                string
}

func c13RealBinaries(c *Ctx) {
	var ccs []string
	for _, n := range []string{"gcc", "clang"} {
		if p, err := exec.LookPath(n); err == nil {
			ccs = append(ccs, p)
		}
	}
	if len(ccs) == 0 {
		c.Extra["real_binaries"] = "no C compiler found; stream skipped"
		return
	}
	dir, err := os.Getwd()
	if err != nil {
		c.Extra["real_binaries"] = "getwd: " + err.Error()
		return
	}
	src := filepath.Join(dir, "c13prog.c")
	if err := os.WriteFile(src, []byte(c13CSource), 0o644); err != nil {
		c.Extra["real_binaries"] = "write: " + err.Error()
		return
	}
	modes := [][]string{
		{"-fPIE", "-pie"},
		{"-fno-pie", "-no-pie"},
		{"-fPIE", "-pie", "-Wl,-z,separate-code"},
		{"-fPIE", "-pie", "-Wl,-z,noseparate-code"},
		{"-fno-pie", "-no-pie", "-Wl,-z,noseparate-code"},
		{"-fPIE", "-pie", "-Wl,-z,max-page-size=0x200000"},
		{"-fPIE", "-pie", "-Wl,-z,max-page-size=0x1000"},
		{"-fPIE", "-pie", "-Wl,-z,norelro"},
		{"-fPIE", "-pie", "-O2", "-Wl,-z,now"},
		{"-fno-pie", "-no-pie", "-Wl,-z,max-page-size=0x200000", "-Wl,-Ttext-segment=0x800000"},
		{"-fPIE", "-static-pie"},
		{"-fno-pie", "-static"},
	}
	built, ran, skipped := 0, 0, 0
	var notes []string
	for ci, cc := range ccs {
		for mi, mode := range modes {
			bin := filepath.Join(dir, fmt.Sprintf("c13prog_%d_%d", ci, mi))
			args := append(append([]string{"-o", bin}, mode...), src)
			if out, err := exec.Command(cc, args...).CombinedOutput(); err != nil {
				skipped++
				if len(notes) < 4 {
					notes = append(notes, fmt.Sprintf("%s %v: %v %.80s", filepath.Base(cc), mode, err, out))
				}
				continue
			}
			built++
			for run := 0; run < 3; run++ {
				if c13RealOne(c, bin, filepath.Base(cc)+" "+strings.Join(mode, " "), run == 0) {
					ran++
				}
			}
			os.Remove(bin)
		}
	}
	os.Remove(src)
	c.Extra["real_binaries"] = map[string]interface{}{"compilers": ccs, "built": built, "runs": ran, "build_failures": skipped, "notes": notes}
}

// c13RealSymbolize: a conversation with the REAL symbolizer tools through the public API
// (Binutils.Open + SourceLine on one object): main, an address the tools know nothing about (PLT),
// hot, main, hot -- once with the default tools (llvm-symbolizer when installed) and once with
// GNU addr2line + nm only. The function reported for main / hot must be main / hot at every
// position of the conversation.
func c13RealSymbolize(c *Ctx, bin, desc string, ml c13MapsLine, syms map[string]uint64, unknown uint64) {
	type q struct {
		addr uint64
		want string
	}
	qs := []q{{syms["main"], "main"}}
	if unknown != 0 {
		qs = append(qs, q{unknown, ""})
	}
	qs = append(qs, q{syms["hot"], "hot"}, q{syms["main"], "main"}, q{syms["hot"], "hot"})
	configs := map[string]string{"default": ""}
	if a, err := exec.LookPath("addr2line"); err == nil {
		if n, err := exec.LookPath("nm"); err == nil {
			configs["addr2line"] = "addr2line:" + filepath.Dir(a) + ",nm:" + filepath.Dir(n)
		}
	}
	for _, name := range []string{"default", "addr2line"} {
		cfg, ok := configs[name]
		if !ok {
			continue
		}
		bu := &binutils.Binutils{}
		if cfg != "" {
			// fileAddr2Line.init starts "llvm-symbolizer" from PATH even when SetTools did not find it:
			// hide PATH for the duration of this conversation so that GNU addr2line + nm are used
			oldPath := os.Getenv("PATH")
			os.Setenv("PATH", "/nonexistent-c13")
			defer os.Setenv("PATH", oldPath)
			bu.SetTools(cfg)
		}
		var in, obs []Term
		of, err := bu.Open(bin, ml.start, ml.limit, ml.offset, "")
		if err != nil {
			continue
		}
		for _, x := range qs {
			got := ""
			fr, err := of.SourceLine(x.addr)
			if err != nil {
				got = "error: " + err.Error()
			} else if len(fr) > 0 {
				got = fr[len(fr)-1].Func
			}
			if x.want == "" {
				got = "" // whatever the tools say about an address without symbol
			}
			in = append(in, L(ZU(x.addr), S(x.want)))
			obs = append(obs, S(got))
		}
		of.Close()
		c.Case("real-symbolize", L(S("realsym"), S(name+": "+desc), L(in...)), L(obs...), true, "op:realsym", "tools:"+name)
	}
}

func c13RealOne(c *Ctx, bin, desc string, symbolize bool) bool {
	cmd := exec.Command(bin)
	cmd.Env = []string{"LC_ALL=C"}
	out, err := cmd.Output()
	if err != nil {
		return false
	}
	syms := map[string]uint64{}
	var lines []c13MapsLine
	sc := bufio.NewScanner(strings.NewReader(string(out)))
	for sc.Scan() {
		f := strings.Fields(sc.Text())
		if len(f) == 3 && f[0] == "SYM" {
			v, _ := strconv.ParseUint(strings.TrimPrefix(f[2], "0x"), 16, 64)
			syms[f[1]] = v
			continue
		}
		if len(f) >= 6 && f[5] == bin {
			rng := strings.SplitN(f[0], "-", 2)
			if len(rng) != 2 {
				continue
			}
			s, e1 := strconv.ParseUint(rng[0], 16, 64)
			l, e2 := strconv.ParseUint(rng[1], 16, 64)
			o, e3 := strconv.ParseUint(f[2], 16, 64)
			if e1 == nil && e2 == nil && e3 == nil {
				lines = append(lines, c13MapsLine{s, l, o, f[1]})
			}
		}
	}
	ef, err := elf.Open(bin)
	if err != nil {
		return false
	}
	defer ef.Close()
	lay := c13Layout{etype: ef.Type}
	for _, p := range ef.Progs {
		lay.progs = append(lay.progs, p.ProgHeader)
	}
	for _, s := range ef.Sections {
		if s.Name == ".text" || s.Name == ".data" {
			lay.secs = append(lay.secs, c13Sec{s.Name, s.Addr})
		}
	}
	es, err := ef.Symbols()
	if err != nil {
		return false
	}
	link := map[string]uint64{}
	for _, s := range es {
		if _, ok := syms[s.Name]; ok {
			link[s.Name] = s.Value
		}
	}
	if len(link) != 3 || len(lines) == 0 {
		return false
	}
	bias := syms["main"] - link["main"]
	if syms["hot"]-link["hot"] != bias || syms["data_sym"]-link["data_sym"] != bias || int64(bias) < 0 {
		return false
	}
	if symbolize {
		var unknown uint64
		if plt := ef.Section(".plt"); plt != nil && plt.Size >= 16 {
			unknown = bias + plt.Addr + 8
		}
		for _, ml := range lines {
			if syms["main"] >= ml.start && syms["main"] < ml.limit && syms["hot"] >= ml.start && syms["hot"] < ml.limit {
				if unknown < ml.start || unknown >= ml.limit {
					unknown = 0
				}
				c13RealSymbolize(c, bin, desc, ml, syms, unknown)
				break
			}
		}
	}
	bu := &binutils.Binutils{}
	for _, ml := range lines {
		m := &c13Map{start: ml.start, limit: ml.limit, offset: ml.offset}
		// (1) loader-model validation
		c.Case("real-maps", L(S("maps"), lay.term(), m.term(), Z(int64(bias))), L(), true, "op:maps", "perms:"+ml.perms)
		// (2) translation of the symbols that live in this mapping
		var addrs []uint64
		for _, n := range []string{"main", "hot", "data_sym"} {
			if a := syms[n]; a >= ml.start && a < ml.limit {
				addrs = append(addrs, a)
			}
		}
		if len(addrs) == 0 {
			continue
		}
		// the public API on the file on disk (real elf.Open) must give the same answers as the
		// shim path on the in-memory headers
		want, _ := c13ObjAddrObs(lay, m, true, addrs)
		var rs []Term
		if of, err := bu.Open(bin, ml.start, ml.limit, ml.offset, ""); err != nil {
			rs = append(rs, L(S("open-failed"), S(err.Error())))
		} else {
			for _, a := range addrs {
				rs = append(rs, c13Res(of.ObjAddr(a)))
			}
			of.Close()
		}
		if got := Render(L(rs...)); !strings.HasPrefix(Render(want), "TL ["+got) {
			c.Case("real-objaddr", L(S("objaddr"), lay.term(), m.term(), Bool(true), c13ZUs(addrs), Z(int64(bias))),
				L(S("public-api-differs"), S(got), S(desc)), true, "op:objaddr", "real")
			continue
		}
		c13ObjAddr(c, "real-objaddr", lay, m, true, addrs, int64(bias), "real", "perms:"+ml.perms)
	}
	return true
}
