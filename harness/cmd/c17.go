//go:build verif

package main

import (
	"encoding/json"
	"fmt"
	"math"
	"math/big"
	"net/url"
	"os"
	"path/filepath"
	"sort"
	"strconv"

	"github.com/google/pprof/internal/driver"
	"github.com/google/pprof/internal/graph"
	"github.com/google/pprof/internal/report"
	"github.com/google/pprof/profile"
)

func init() { registry["C17"] = runC17 }

// ---------------------------------------------------------------------------------------------
// observables

// c17Dump renders a StackSet in the layout R_C17.v decodes.  nulls counts nil slices (the
// StackSet contract: "Slices in StackSet and the types it contains are always non-nil").
func c17Dump(ss report.StackSet) Term {
	nulls := 0
	if ss.Stacks == nil {
		nulls++
	}
	if ss.Sources == nil {
		nulls++
	}
	var stacks, srcs []Term
	for _, st := range ss.Stacks {
		if st.Sources == nil {
			nulls++
		}
		var ix []Term
		for _, x := range st.Sources {
			ix = append(ix, ZI(x))
		}
		stacks = append(stacks, L(Z(st.Value), L(ix...)))
	}
	for _, s := range ss.Sources {
		if s.Display == nil {
			nulls++
		}
		if s.Places == nil {
			nulls++
		}
		var pl []Term
		for _, p := range s.Places {
			pl = append(pl, L(ZI(p.Stack), ZI(p.Pos)))
		}
		srcs = append(srcs, L(S(s.FullName), S(s.FileName), S(s.UniqueName), Bool(s.Inlined), Ss(s.Display), L(pl...), Z(s.Self)))
	}
	return L(Z(ss.Total), Rat(ss.Scale), S(ss.Type), S(ss.Unit), L(stacks...), L(srcs...), ZI(nulls))
}

// c17FromJSON turns the decoded first argument of stackViewer(...) (v) and the second one (nodes,
// the per-source name list the page's viewer indexes by source number) into the layout of c17Dump.
// Every JSON null, every missing field and every value of the wrong JSON type counts as a null,
// and so does a node list that does not have exactly one string per source.
func c17FromJSON(v interface{}, nodes interface{}) Term {
	nulls := 0
	obj := func(v interface{}) map[string]interface{} {
		m, ok := v.(map[string]interface{})
		if !ok {
			nulls++
			return map[string]interface{}{}
		}
		return m
	}
	arr := func(m map[string]interface{}, k string) []interface{} {
		a, ok := m[k].([]interface{})
		if !ok {
			nulls++
		}
		return a
	}
	num := func(v interface{}) Term {
		n, ok := v.(json.Number)
		if !ok {
			nulls++
			return Z(0)
		}
		b, ok := new(big.Int).SetString(n.String(), 10)
		if !ok {
			nulls++
			return Z(0)
		}
		return ZB(b)
	}
	str := func(v interface{}) Term {
		s, ok := v.(string)
		if !ok {
			nulls++
		}
		return S(s)
	}
	top := obj(v)
	scale := L(S("nonfinite"))
	if n, ok := top["Scale"].(json.Number); ok {
		if f, err := strconv.ParseFloat(n.String(), 64); err == nil {
			scale = Rat(f)
		}
	} else {
		nulls++
	}
	var stacks, srcs []Term
	for _, e := range arr(top, "Stacks") {
		m := obj(e)
		var ix []Term
		for _, x := range arr(m, "Sources") {
			ix = append(ix, num(x))
		}
		stacks = append(stacks, L(num(m["Value"]), L(ix...)))
	}
	for _, e := range arr(top, "Sources") {
		m := obj(e)
		var disp, pl []Term
		for _, d := range arr(m, "Display") {
			disp = append(disp, str(d))
		}
		for _, p := range arr(m, "Places") {
			pm := obj(p)
			pl = append(pl, L(num(pm["Stack"]), num(pm["Pos"])))
		}
		inl, ok := m["Inlined"].(bool)
		if !ok {
			nulls++
		}
		srcs = append(srcs, L(str(m["FullName"]), str(m["FileName"]), str(m["UniqueName"]), Bool(inl), L(disp...), L(pl...), num(m["Self"])))
	}
	if na, ok := nodes.([]interface{}); !ok || len(na) != len(srcs) {
		nulls++
	} else {
		for _, n := range na {
			if _, ok := n.(string); !ok {
				nulls++
			}
		}
	}
	return L(num(top["Total"]), scale, str(top["Type"]), str(top["Unit"]), L(stacks...), L(srcs...), ZI(nulls))
}

// ---------------------------------------------------------------------------------------------
// inputs

func c17AddLineInfo(s string, line, col int64) string {
	if col != 0 {
		return s + ":" + strconv.FormatInt(line, 10) + ":" + strconv.FormatInt(col, 10)
	}
	if line != 0 {
		return s + ":" + strconv.FormatInt(line, 10)
	}
	return s
}

// c17Oracles computes the answers of the two unmodelled functions (graph.ShortenFunctionName,
// filepath.Clean+ToSlash) for every string the model can ask about; only non-identity answers are
// shipped (the model's tables default to the identity).
func c17Oracles(p *profile.Profile, trims ...string) (Term, Term) {
	sh, cl := map[string]string{}, map[string]string{}
	nilLines := 0
	for _, s := range p.Sample {
		for _, l := range s.Location {
			for _, ln := range l.Line {
				if ln.Function == nil {
					nilLines++
				}
			}
		}
	}
	for _, l := range p.Location {
		for _, ln := range l.Line {
			var names []string
			if ln.Function == nil {
				for k := 1; k <= nilLines+1; k++ {
					names = append(names, fmt.Sprintf("?%d?", k))
				}
			} else if ln.Function.Name != "" {
				names = append(names, ln.Function.Name)
			} else {
				for _, trim := range trims {
					full := c17AddLineInfo(report.VerifC17TrimPath(ln.Function.Filename, trim, ""), ln.Line, ln.Column)
					if full != "" {
						if c := filepath.ToSlash(filepath.Clean(full)); c != full {
							cl[full] = c
						}
					}
				}
			}
			for _, n := range names {
				full := c17AddLineInfo(n, ln.Line, ln.Column)
				if s := graph.ShortenFunctionName(full); s != full {
					sh[full] = s
				}
			}
		}
	}
	tab := func(m map[string]string) Term {
		var ks []string
		for k := range m {
			ks = append(ks, k)
		}
		sort.Strings(ks)
		var es []Term
		for _, k := range ks {
			es = append(es, L(S(k), S(m[k])))
		}
		return L(es...)
	}
	return tab(sh), tab(cl)
}

type c17Opts struct {
	index   int
	meanDiv int // -1 = nil
	typ     string
	unit    string
	trim    string
	ratio   float64
}

func (o c17Opts) term() Term {
	return L(ZI(o.index), ZI(o.meanDiv), S(o.typ), S(o.unit), S(o.trim), Rat(o.ratio))
}

func (o c17Opts) reportOptions() *report.Options {
	ropt := &report.Options{
		SampleValue: func(v []int64) int64 { return v[o.index] },
		SampleType:  o.typ, SampleUnit: o.unit, TrimPath: o.trim, Ratio: o.ratio,
	}
	if o.meanDiv >= 0 {
		ropt.SampleMeanDivisor = func(v []int64) int64 { return v[o.meanDiv] }
	}
	return ropt
}

func c17Input(p *profile.Profile, o c17Opts) Term {
	sh, cl := c17Oracles(p, o.trim)
	return L(DumpProfile(p), o.term(), sh, cl)
}

// c17OptsOfReport reads back the options a report was built with (sample index and mean divisor by
// probing the extractor functions with the vector 0,1,2,...).
func c17OptsOfReport(rpt *report.Report) c17Opts {
	ro := report.VerifC17Options(rpt)
	rp := report.VerifC17Profile(rpt)
	probe := make([]int64, len(rp.SampleType))
	for i := range probe {
		probe[i] = int64(i)
	}
	o := c17Opts{index: int(ro.SampleValue(probe)), meanDiv: -1, typ: ro.SampleType, unit: ro.SampleUnit, trim: ro.TrimPath, ratio: ro.Ratio}
	if ro.SampleMeanDivisor != nil {
		o.meanDiv = int(ro.SampleMeanDivisor(probe))
	}
	return o
}

// c17Alias makes parts of an in-memory profile share backing arrays, which profile.Profile allows
// (a converter that interns call stacks produces exactly this): two samples with the very same
// Location slice, two samples whose Location slices are overlapping windows of one array, a slice
// with spare capacity followed by another sample's data, locations sharing one Line array, samples
// sharing one Value array.  Code that edits a slice it was only meant to read (reverse, sort,
// append, truncate-and-extend) then changes what a LATER sample or a LATER call sees.  The logical
// content is whatever DumpProfile shows after this function returns.
func c17Alias(r *Rng, p *profile.Profile) []string {
	var tags []string
	ns := len(p.Sample)
	if ns >= 2 {
		i, j := r.Intn(ns), r.Intn(ns)
		if i != j {
			switch r.Intn(4) {
			case 0: // the very same slice
				p.Sample[j].Location = p.Sample[i].Location
				tags = append(tags, "f:shared-location-slice")
			case 1: // overlapping windows of one array
				arr := append(append([]*profile.Location{}, p.Sample[i].Location...), p.Sample[j].Location...)
				ni, nj := len(p.Sample[i].Location), len(p.Sample[j].Location)
				if ni > 0 && nj > 0 {
					k := r.Intn(ni)
					p.Sample[i].Location = arr[:ni]
					p.Sample[j].Location = arr[k : k+nj]
					tags = append(tags, "f:overlapping-location-slices")
				}
			case 2: // spare capacity of i's slice is j's data
				arr := append(append([]*profile.Location{}, p.Sample[i].Location...), p.Sample[j].Location...)
				ni := len(p.Sample[i].Location)
				p.Sample[i].Location = arr[:ni]
				p.Sample[j].Location = arr[ni:]
				tags = append(tags, "f:adjacent-location-slices")
			case 3: // one Value array
				p.Sample[j].Value = p.Sample[i].Value
				tags = append(tags, "f:shared-value-slice")
			}
		}
	}
	if nl := len(p.Location); nl >= 2 && r.P(1, 3) {
		i, j := r.Intn(nl), r.Intn(nl)
		if i != j && len(p.Location[i].Line) > 0 {
			p.Location[j].Line = p.Location[i].Line
			tags = append(tags, "f:shared-line-slice")
		}
	}
	return tags
}

// c17Seq is the call-sequence op: reports rpts[j] = report.New(p, os[j]) all share the profile p;
// call k is rpts[steps[k]].Stacks().  The input is dumped before the first call; the observable is
// the list of all returned stack sets and the profile as dumped again after the last call.
func c17Seq(c *Ctx, gen string, p *profile.Profile, os []c17Opts, steps []int, tags ...string) {
	var trims []string
	var ots, sts []Term
	for _, o := range os {
		trims = append(trims, o.trim)
		ots = append(ots, o.term())
	}
	for _, k := range steps {
		sts = append(sts, ZI(k))
	}
	sh, cl := c17Oracles(p, trims...)
	in := L(S("seq"), DumpProfile(p), L(ots...), L(sts...), sh, cl)
	ft, frames := c17Features(p)
	var dumps []Term
	var after Term
	func() {
		defer func() {
			if e := recover(); e != nil {
				dumps = append(dumps, L(S("panic"), S(fmt.Sprint(e))))
				after = L(S("panic"))
			}
		}()
		var rpts []*report.Report
		for _, o := range os {
			rpts = append(rpts, report.New(p, o.reportOptions()))
		}
		for _, k := range steps {
			dumps = append(dumps, c17Dump(rpts[k].Stacks()))
		}
		after = DumpProfile(p)
	}()
	c.Case(gen, in, L(L(dumps...), after), frames > 0, append(append([]string{"path:direct", fmt.Sprintf("calls:%d", len(steps))}, tags...), ft...)...)
}

func c17Features(p *profile.Profile) (tags []string, frames int) {
	rec, inl, nilfn, empty, nolines := false, false, false, false, false
	for _, s := range p.Sample {
		seen := map[*profile.Location]bool{}
		n := 0
		for _, l := range s.Location {
			if seen[l] {
				rec = true
			}
			seen[l] = true
			if len(l.Line) > 1 {
				inl = true
			}
			if len(l.Line) == 0 {
				nolines = true
			}
			for _, ln := range l.Line {
				n++
				if ln.Function == nil {
					nilfn = true
				}
			}
		}
		if n == 0 {
			empty = true
		}
		frames += n
	}
	for k, v := range map[string]bool{"f:recursion": rec, "f:inlined": inl, "f:nil-function": nilfn, "f:empty-stack": empty, "f:location-without-lines": nolines} {
		if v {
			tags = append(tags, k)
		}
	}
	sort.Strings(tags)
	return
}

// ---------------------------------------------------------------------------------------------
// generators

var c17Names = []string{"main", "foo", "bar", "a.b.c", "ns::cls::f", "pkg/path.Func", "f", "", "?1?", "?2?", "x.", "op::", "a:b",
	"runtime.mallocgc", "main.(*T).m", "std::vector<int>::push_back(int const&)", "java.util.List.add", "main.f.func1"}
var c17NamesBin = []string{"a\"b", "x\ny", "<tpl>", "\xff\xfe", "日本.語", "100%#1", "root"}
// names and files that matter to whoever reads the served page: HTML tokenizer triggers inside an
// inline script (end tags in any letter case and with the delimiters the tokenizer accepts, comment
// and nested-script openers that switch it to the escaped states), other raw-text end tags, template
// and JavaScript syntax, the characters JSON must escape.  All valid UTF-8.
var c17NamesWeb = []string{"a</script>b", "x</SCRIPT >y", "</ScRiPt/", "</script\n", "</scriptx>", "<!--", "<!--<script>", "-->", "<script>alert(1)</script>",
	"render(\"<b>x</b>\")", "a<b>&c", "operator<=>", "q\"uote", "back\\slash", "tab\tname", "nl\nname", "ctl\x01\x1f", "del\x7f", "</style>", "</title>", "</textarea>",
	"]]>", "{{.Stacks}}", "'); alert(1); ('", "*/", "//", "`${x}`", "é.ü::ß", "&lt;", "\\u003c"}
var c17FilesWeb = []string{"x</script>.js", "dir/<b>.go", "a&b.c", "tpl/{{.}}.html", "/src/</SCRIPT>/y.go", "q\"f.go"}
var c17Files = []string{"main.go", "foo.c", "dir/bar.cc", "", "/proc/self/cwd/foo.c", "/proc/self/cwd/./bar.c", "dir/../x.go", "a//b.go",
	"/src/lib/x.go", "/src/x.go", "./rel.go", "/other/y.go", "main.go/"}
var c17Trims = []string{"", "", "", "/src", "/src/", "/src/lib:/other", ":", "dir", "/nowhere:/src/lib/"}
var c17Grans = []string{"raw", "addresses", "lines", "files", "functions", "filefunctions"}
var c17Units = []string{"count", "nanoseconds", "bytes", "ms", "", "objects", "KB", "GCU", "Seconds", "default", "hrs"}

func c17Knobs(r *Rng, web bool) Knobs {
	k := DefaultKnobs()
	k.MaxSamples = 1 + r.Intn(6)
	k.MaxLocs = 1 + r.Intn(6)
	k.MaxFuncs = 1 + r.Intn(5)
	k.MaxLines = 1 + r.Intn(4)
	k.MaxDepth = 1 + r.Intn(6)
	k.Extreme = r.P(1, 4)
	k.Names = c17Names
	if !web && r.P(1, 5) {
		k.Names = append(append([]string{}, c17Names...), c17NamesBin...)
	}
	if r.P(1, 3) { // few names: equal names in different files / different ids
		k.Names = []string{PickS(r, c17Names), PickS(r, c17Names)}
	}
	k.Files = c17Files
	if r.P(1, 3) {
		k.Files = []string{PickS(r, c17Files), PickS(r, c17Files)}
	}
	if web && r.P(1, 3) { // content the page's consumers (HTML tokenizer, JS, JSON) could trip over
		k.Names = append([]string{PickS(r, c17Names), PickS(r, c17Names)}, PickS(r, c17NamesWeb), PickS(r, c17NamesWeb), PickS(r, c17NamesWeb))
		if r.Bool() {
			k.Files = append([]string{PickS(r, c17Files)}, PickS(r, c17FilesWeb), PickS(r, c17FilesWeb))
		}
	}
	return k
}

// c17Profile generates a profile aimed at the case splits of stacks.go.
func c17Profile(r *Rng, web bool) *profile.Profile {
	p := GenProfile(r, c17Knobs(r, web))
	for tries := 0; len(p.Sample) == 0 && tries < 4; tries++ { // keep sample-less profiles rare
		p = GenProfile(r, c17Knobs(r, web))
	}
	for _, s := range p.Sample { // GenProfile can leave a unit list of an overwritten numeric label behind
		for k, us := range s.NumUnit {
			if len(us) != len(s.NumLabel[k]) {
				delete(s.NumUnit, k)
			}
		}
	}
	for _, st := range p.SampleType {
		if r.P(1, 3) {
			st.Unit = PickS(r, c17Units)
		}
	}
	if len(p.Location) > 0 {
		// recursion: repeat one location / a cycle inside a stack
		for _, s := range p.Sample {
			if r.P(1, 4) && len(s.Location) > 0 {
				l := s.Location[r.Intn(len(s.Location))]
				for k := 1 + r.Intn(3); k > 0; k-- {
					at := r.Intn(len(s.Location) + 1)
					s.Location = append(s.Location[:at], append([]*profile.Location{l}, s.Location[at:]...)...)
				}
			}
			if r.P(1, 8) { // identical stack twice in the profile
				s.Location = append([]*profile.Location{}, p.Sample[0].Location...)
			}
		}
		// the same function inlined into itself / lines differing only in line or column
		for _, l := range p.Location {
			if len(l.Line) > 0 && r.P(1, 5) {
				l.Line = append(l.Line, l.Line[r.Intn(len(l.Line))])
			}
			if len(l.Line) > 0 && r.P(1, 6) {
				ln := l.Line[0]
				ln.Column = int64(r.Intn(2))
				ln.Line = int64(r.Intn(3)) - 1
				l.Line = append(l.Line, ln)
			}
		}
	}
	if r.P(1, 6) { // difference-base samples
		for _, s := range p.Sample {
			if r.Bool() {
				if s.Label == nil {
					s.Label = map[string][]string{}
				}
				s.Label["pprof::base"] = []string{PickS(r, []string{"true", "true", "false"})}
			}
		}
	}
	if !web && r.P(1, 4) { // lines without function (stacks.go synthesizes "?n?")
		for _, l := range p.Location {
			for i := range l.Line {
				if r.P(1, 3) {
					l.Line[i].Function = nil
				}
			}
		}
	}
	return p
}

func c17Aggregate(p *profile.Profile, gran string, noinlines, columns bool) {
	var function, filename, linenumber, address bool
	switch gran {
	case "raw":
		return
	case "addresses":
		if !noinlines {
			return
		}
		function, filename, linenumber, address = true, true, true, true
	case "lines":
		function, filename, linenumber = true, true, true
	case "files":
		filename = true
	case "functions":
		function = true
	case "filefunctions":
		function, filename = true, true
	}
	p.Aggregate(!noinlines, function, filename, linenumber, columns, address) // error = CheckValid of nil functions: irrelevant here
}

func c17RandOpts(r *Rng, p *profile.Profile) c17Opts {
	ix := r.Intn(len(p.SampleType))
	o := c17Opts{index: ix, meanDiv: -1, typ: p.SampleType[ix].Type, unit: p.SampleType[ix].Unit, trim: PickS(r, c17Trims),
		ratio: []float64{0, 0, 1, 0.5, 2, 0.001, -1, 1e-9}[r.Intn(8)]}
	if r.P(1, 5) {
		o.meanDiv = r.Intn(len(p.SampleType))
	}
	return o
}

// c17Direct builds a report the way the driver does (report.New with explicit options) and dumps Stacks().
func c17Direct(c *Ctx, gen string, p *profile.Profile, o c17Opts, tags ...string) {
	ropt := o.reportOptions()
	in := c17Input(p, o)
	ft, frames := c17Features(p)
	var obs Term
	func() {
		defer func() {
			if e := recover(); e != nil {
				obs = L(S("panic"), S(fmt.Sprint(e)))
			}
		}()
		obs = c17Dump(report.New(p, ropt).Stacks())
	}()
	c.Case(gen, in, obs, frames > 0, append(append([]string{"path:direct"}, tags...), ft...)...)
}

// c17Web serves /flamegraph through the real handler and parses the JSON embedded in the page.
func c17Query(r *Rng, p *profile.Profile) (url.Values, string) {
	gran := c17Grans[1+r.Intn(len(c17Grans)-1)]
	q := url.Values{}
	q.Set("g", gran)
	q.Set("si", strconv.Itoa(r.Intn(len(p.SampleType))))
	if r.P(1, 5) {
		q.Set("mean", "t")
	}
	if r.P(1, 4) {
		q.Set("noinlines", "t")
	}
	if r.P(1, 4) {
		q.Set("showcolumns", "t")
	}
	return q, gran
}

// c17WebSeq serves 2-4 /flamegraph requests through ONE web interface (a browser session): the same
// URL again, other granularities / sample indexes, and sometimes a request that fails (unknown
// granularity -> 400) in between.  Every successful page is judged like a single request, against
// the report built from a pristine copy of the profile.
func c17WebSeq(c *Ctx, gen string, p *profile.Profile, r *Rng) {
	n := 2 + r.Intn(3)
	var qs []string
	var grans []string
	for k := 0; k < n; k++ {
		switch {
		case k > 0 && r.P(1, 3): // the same request again
			qs, grans = append(qs, qs[k-1]), append(grans, grans[k-1])
		case k < n-1 && r.P(1, 6): // an error path followed by more work
			qs, grans = append(qs, "g=bogus"), append(grans, "bogus")
		default:
			q, g := c17Query(r, p)
			qs, grans = append(qs, q.Encode()), append(grans, g)
		}
	}
	trim := PickS(r, c17Trims)
	div := []float64{1, 1, 2, 0.5, 1000}[r.Intn(5)]
	var steps []driver.VerifC17Step
	var err error
	func() {
		defer func() {
			if e := recover(); e != nil {
				err = fmt.Errorf("panic: %v", e)
			}
		}()
		steps, err = driver.VerifC17StackViewSeq(p, qs, trim, div)
	}()
	if err != nil {
		c.Case(gen, L(S("web-seq-error"), Ss(qs)), L(S("error"), S(err.Error())), false, "path:web")
		return
	}
	for k, st := range steps {
		if grans[k] == "bogus" {
			if st.Status == 200 { // must be refused; a page here would be served from stale state
				c.Case(gen, L(S("web-seq-bogus"), Ss(qs[:k+1])), L(S("http"), ZI(st.Status)), false, "path:web")
			}
			continue
		}
		if st.Err != nil || st.Rpt == nil {
			c.Case(gen, L(S("web-seq-error"), Ss(qs[:k+1])), L(S("error"), ZI(st.Status), S(fmt.Sprint(st.Err))), false, "path:web")
			continue
		}
		rp := report.VerifC17Profile(st.Rpt)
		in := c17Input(rp, c17OptsOfReport(st.Rpt))
		ft, frames := c17Features(rp)
		obs := L(S("http"), ZI(st.Status))
		if st.Status == 200 {
			obs = c17FromPage(st.Page)
		}
		c.Case(gen, in, obs, frames > 0, append([]string{"path:web", "gran:" + grans[k], fmt.Sprintf("request:%d", k+1)}, ft...)...)
	}
}

func c17Web(c *Ctx, gen string, p *profile.Profile, r *Rng) {
	q, gran := c17Query(r, p)
	trim := PickS(r, c17Trims)
	div := []float64{1, 1, 2, 0.5, 1000}[r.Intn(5)]
	var in, obs Term
	frames := 0
	var ft []string
	func() {
		defer func() {
			if e := recover(); e != nil {
				in, obs = L(S("web-panic"), S(q.Encode())), L(S("panic"), S(fmt.Sprint(e)))
			}
		}()
		status, page, rpt, err := driver.VerifC17StackView(p, q.Encode(), trim, div)
		if err != nil || rpt == nil {
			in, obs = L(S("web-error"), S(q.Encode())), L(S("error"), ZI(status), S(fmt.Sprint(err)))
			return
		}
		rp := report.VerifC17Profile(rpt)
		in = c17Input(rp, c17OptsOfReport(rpt))
		ft, frames = c17Features(rp)
		if status != 200 {
			obs = L(S("http"), ZI(status))
			return
		}
		obs = c17FromPage(page)
	}()
	c.Case(gen, in, obs, frames > 0, append([]string{"path:web", "gran:" + gran}, ft...)...)
}

// c17Small enumerates every profile with nloc locations drawn from a fixed menu and every stack of
// depth <= depth over them (thorough tier: exhaustive small scope).
func c17Small(c *Ctx, depth int) {
	mk := func() (*profile.Profile, []*profile.Location) {
		f1 := &profile.Function{ID: 1, Name: "f", Filename: "a.go"}
		f2 := &profile.Function{ID: 2, Name: "f", Filename: "b.go"}
		f3 := &profile.Function{ID: 3, Name: "g", Filename: "a.go"}
		l1 := &profile.Location{ID: 1, Line: []profile.Line{{Function: f1, Line: 1}}}
		l2 := &profile.Location{ID: 2, Line: []profile.Line{{Function: f3, Line: 2}, {Function: f2, Line: 1}}}
		l3 := &profile.Location{ID: 3, Line: []profile.Line{{Function: f1, Line: 1}, {Function: f1, Line: 1}}}
		l4 := &profile.Location{ID: 4}
		p := &profile.Profile{SampleType: []*profile.ValueType{{Type: "samples", Unit: "count"}},
			Function: []*profile.Function{f1, f2, f3}, Location: []*profile.Location{l1, l2, l3, l4}}
		return p, p.Location
	}
	var stacks [][]int
	var rec func(cur []int)
	rec = func(cur []int) {
		stacks = append(stacks, append([]int{}, cur...))
		if len(cur) == depth {
			return
		}
		for i := 0; i < 4; i++ {
			rec(append(cur, i))
		}
	}
	rec(nil)
	for ai, a := range stacks {
		for bi, b := range stacks {
			if c.Tier != "thorough" && (ai+bi)%4 != 0 {
				continue
			}
			for _, gran := range []string{"raw", "functions", "files"} {
				p, locs := mk()
				for k, st := range [][]int{a, b, a} {
					s := &profile.Sample{Value: []int64{int64(k*7 + 1)}}
					for _, i := range st {
						s.Location = append(s.Location, locs[i])
					}
					if k == 2 { // the third sample IS the first one's stack: same Location slice
						s.Location = p.Sample[0].Location
					}
					p.Sample = append(p.Sample, s)
				}
				c17Aggregate(p, gran, false, false)
				c17Direct(c, "small-scope", p, c17Opts{index: 0, meanDiv: -1, typ: "samples", unit: "count"}, "gran:"+gran)
			}
		}
	}
}

func runC17(c *Ctx) {
	// the web handler looks for a settings file under the user configuration directory: point it
	// at the scratch cwd so that nothing outside is read
	cwd, _ := os.Getwd()
	os.Setenv("XDG_CONFIG_HOME", cwd)
	os.Setenv("HOME", cwd)
	c17E2EEnv()

	// end-to-end layer: driver.PProf -http with real flags, fetch pipeline and handlers
	c17E2EFixed(c)
	for k := 0; k < c.Budget(40, 2500); k++ {
		c17E2ERandom(c, c.R)
	}

	// hand-made corner cases, always generated
	{
		// equal names in different files, recursion f->g->f->f, empty stack, location without lines
		f1 := &profile.Function{ID: 1, Name: "f", Filename: "a.go"}
		f2 := &profile.Function{ID: 2, Name: "f", Filename: "b.go"}
		g := &profile.Function{ID: 7, Name: "g", Filename: "a.go"}
		l1 := &profile.Location{ID: 1, Line: []profile.Line{{Function: f1, Line: 3}}}
		l2 := &profile.Location{ID: 2, Line: []profile.Line{{Function: f2, Line: 3}}}
		l3 := &profile.Location{ID: 3, Line: []profile.Line{{Function: g, Line: 9, Column: 2}, {Function: f1, Line: 3}}}
		l4 := &profile.Location{ID: 4}
		mk := func() *profile.Profile {
			return &profile.Profile{SampleType: []*profile.ValueType{{Type: "cpu", Unit: "nanoseconds"}, {Type: "alloc", Unit: "bytes"}},
				Function: []*profile.Function{f1, f2, g}, Location: []*profile.Location{l1, l2, l3, l4},
				Sample: []*profile.Sample{
					{Location: []*profile.Location{l1, l1, l3, l1}, Value: []int64{5, 50}},
					{Location: []*profile.Location{l2, l1}, Value: []int64{-3, 30}},
					{Location: nil, Value: []int64{4, 40}},
					{Location: []*profile.Location{l4}, Value: []int64{8, 80}},
					{Location: []*profile.Location{l1, l1, l3, l1}, Value: []int64{math.MaxInt64, math.MinInt64}},
					{Location: []*profile.Location{l3}, Value: []int64{math.MaxInt64, math.MinInt64}},
				}}
		}
		for ix := 0; ix < 2; ix++ {
			for _, gran := range c17Grans {
				p := mk().Copy()
				c17Aggregate(p, gran, false, false)
				c17Direct(c, "corner", p, c17Opts{index: ix, meanDiv: -1, typ: p.SampleType[ix].Type, unit: p.SampleType[ix].Unit}, "gran:"+gran)
			}
		}
		// no samples at all, no sample at all with mean
		p := mk().Copy()
		p.Sample = nil
		c17Direct(c, "corner", p, c17Opts{index: 0, meanDiv: 1, typ: "cpu", unit: "nanoseconds"}, "gran:raw")
		// nil function next to a real function called "?1?"
		q := mk().Copy()
		q.Function[2].Name, q.Function[2].Filename = "?1?", ""
		q.Location[0].Line[0].Function = nil
		q.Location[2].Line[0].Line, q.Location[2].Line[0].Column = 3, 0
		c17Direct(c, "corner", q, c17Opts{index: 0, meanDiv: -1, typ: "cpu", unit: "nanoseconds"}, "gran:raw")
		// two samples with the very same Location slice (an interned call stack), one call
		sh := mk().Copy()
		sh.Sample[1].Location = sh.Sample[0].Location
		sh.Sample[5].Location = sh.Sample[0].Location[1:3]
		c17Direct(c, "corner", sh, c17Opts{index: 0, meanDiv: -1, typ: "cpu", unit: "nanoseconds"}, "gran:raw", "f:shared-location-slice")
		// Stacks() three times on one report; two reports (cpu / alloc) sharing the profile, interleaved
		o0 := c17Opts{index: 0, meanDiv: -1, typ: "cpu", unit: "nanoseconds"}
		o1 := c17Opts{index: 1, meanDiv: -1, typ: "alloc", unit: "bytes", trim: "/src"}
		for _, gran := range []string{"raw", "functions", "files"} {
			p1 := mk().Copy()
			c17Aggregate(p1, gran, false, false)
			c17Seq(c, "corner-calls", p1, []c17Opts{o0}, []int{0, 0, 0}, "gran:"+gran)
			p2 := mk().Copy()
			c17Aggregate(p2, gran, false, false)
			c17Seq(c, "corner-calls", p2, []c17Opts{o0, o1}, []int{0, 1, 0, 1}, "gran:"+gran)
		}
	}

	// Scale / Unit / Total: every unit family and spelling (default and non-default units, unknown
	// units, the literal "default") x divide_by ratios (unset, 1, < 1, > 1, tiny, negative), on a
	// profile with an empty stack, a location without lines, negative values and a base sample
	{
		fa := &profile.Function{ID: 1, Name: "a", Filename: "a.go"}
		fb := &profile.Function{ID: 2, Name: "b", Filename: "b.go"}
		la := &profile.Location{ID: 1, Line: []profile.Line{{Function: fa, Line: 1}}}
		lb := &profile.Location{ID: 2, Line: []profile.Line{{Function: fb, Line: 2}}}
		ln := &profile.Location{ID: 3}
		units := []string{"nanoseconds", "ns", "us", "microseconds", "ms", "milliseconds", "s", "seconds", "minutes", "hrs", "days", "bytes", "B", "kB", "KB", "kilobytes", "MB", "GB",
			"count", "", "objects", "GCU", "n*GCU", "microgcu", "milligcu", "k*GCU", "default", "minimum", "auto", "bogus", "Seconds", "MS"}
		ratios := []float64{0, 1, 0.5, 4, 0.25, 0.001, 1000, -1, 1e-9}
		for ui, u := range units {
			for ri, ratio := range ratios {
				if c.Tier != "thorough" && ri > 3 && (ui+ri)%3 != 0 {
					continue
				}
				p := &profile.Profile{SampleType: []*profile.ValueType{{Type: "t", Unit: u}, {Type: "n", Unit: "count"}},
					Function: []*profile.Function{fa, fb}, Location: []*profile.Location{la, lb, ln},
					Sample: []*profile.Sample{
						{Location: []*profile.Location{lb, la}, Value: []int64{70, 2}},
						{Location: []*profile.Location{la}, Value: []int64{-20, 3}},
						{Location: nil, Value: []int64{10, 1}},
						{Location: []*profile.Location{ln}, Value: []int64{5, 0}},
					}}
				if ri%3 == 2 {
					p.Sample[1].Label = map[string][]string{"pprof::base": {"true"}}
				}
				o := c17Opts{index: 0, meanDiv: -1, typ: "t", unit: u, ratio: ratio}
				if ri%4 == 3 {
					o.meanDiv = 1
				}
				c17Direct(c, "scale-matrix", p, o, "unit:"+u)
			}
		}
	}

	// equal-named functions whose files differ only by a prefix that path trimming removes (configured
	// trim paths, the built-in /proc/self/cwd/ and /proc/self/cwd/./ prefixes): the displayed file names
	// coincide, the sources must stay apart (interning is by the function's own file name)
	{
		type c17tc struct {
			trim  string
			files []string
		}
		for ti, tc := range []c17tc{
			{"/build/a:/build/b", []string{"/build/a/src/run.go", "/build/b/src/run.go", "src/run.go"}},
			{"", []string{"/proc/self/cwd/src/run.go", "src/run.go", "/proc/self/cwd/./src/run.go"}},
			{"/src", []string{"/src/x.go", "x.go", "/proc/self/cwd/x.go"}},
			{"/src/", []string{"/src/x.go", "x.go", "/src//x.go"}},
			{":", []string{"/x.go", "x.go", "//x.go"}},
			{"/nowhere:/a/", []string{"/a/y.go", "y.go", "/nowhere/y.go"}},
		} {
			for _, gran := range []string{"raw", "filefunctions", "files", "lines", "functions"} {
				p := &profile.Profile{SampleType: []*profile.ValueType{{Type: "cpu", Unit: "ms"}}}
				for j, fl := range tc.files {
					f := &profile.Function{ID: uint64(j + 1), Name: "run", SystemName: "run", Filename: fl}
					l := &profile.Location{ID: uint64(j + 1), Line: []profile.Line{{Function: f, Line: 7}}}
					p.Function, p.Location = append(p.Function, f), append(p.Location, l)
					p.Sample = append(p.Sample, &profile.Sample{Location: []*profile.Location{l}, Value: []int64{int64(10 * (j + 1))}})
				}
				// one stack through all of them, and a repeated one
				p.Sample = append(p.Sample, &profile.Sample{Location: append([]*profile.Location{}, p.Location...), Value: []int64{7}},
					&profile.Sample{Location: []*profile.Location{p.Location[1]}, Value: []int64{-3}})
				c17Aggregate(p, gran, false, false)
				c17Direct(c, "trim-collide", p, c17Opts{index: 0, meanDiv: -1, typ: "cpu", unit: "ms", trim: tc.trim}, "gran:"+gran, fmt.Sprintf("trimcase:%d", ti))
			}
		}
	}

	n := c.Budget(400, 30000)
	for k := 0; k < n; k++ {
		p := c17Profile(c.R, false)
		gran := PickS(c.R, c17Grans)
		c17Aggregate(p, gran, c.R.P(1, 4), c.R.P(1, 4))
		tags := []string{"gran:" + gran}
		if c.R.P(1, 3) {
			tags = append(tags, c17Alias(c.R, p)...)
		}
		c17Direct(c, "random", p, c17RandOpts(c.R, p), tags...)
	}
	// call sequences: the same report asked again ("repeat"), several reports over one profile asked
	// in turn ("interleave"); half of the profiles with shared backing arrays
	for k := 0; k < c.Budget(160, 6000); k++ {
		p := c17Profile(c.R, false)
		gran := PickS(c.R, c17Grans)
		c17Aggregate(p, gran, c.R.P(1, 4), c.R.P(1, 4))
		tags := []string{"gran:" + gran}
		if c.R.Bool() {
			tags = append(tags, c17Alias(c.R, p)...)
		}
		if k%5 < 3 {
			steps := []int{0, 0}
			if c.R.P(1, 3) {
				steps = append(steps, 0)
			}
			c17Seq(c, "repeat", p, []c17Opts{c17RandOpts(c.R, p)}, steps, tags...)
		} else {
			nr := 2 + c.R.Intn(2)
			var os []c17Opts
			for j := 0; j < nr; j++ {
				os = append(os, c17RandOpts(c.R, p))
			}
			steps := []int{0, 1}
			for j := c.R.Intn(3); j >= 0; j-- {
				steps = append(steps, c.R.Intn(nr))
			}
			c17Seq(c, "interleave", p, os, steps, tags...)
		}
	}
	// every page-hostile name and file once, through the handler, with names shown (functions) and
	// with file names shown (files granularity)
	for i := 0; i < len(c17NamesWeb); i += 3 {
		p := &profile.Profile{SampleType: []*profile.ValueType{{Type: "cpu", Unit: "ms"}}}
		for j := i; j < i+3 && j < len(c17NamesWeb); j++ {
			f := &profile.Function{ID: uint64(j - i + 1), Name: c17NamesWeb[j], SystemName: c17NamesWeb[j], Filename: c17FilesWeb[j%len(c17FilesWeb)]}
			l := &profile.Location{ID: uint64(j - i + 1), Line: []profile.Line{{Function: f, Line: int64(j)}}}
			p.Function, p.Location = append(p.Function, f), append(p.Location, l)
			p.Sample = append(p.Sample, &profile.Sample{Location: append([]*profile.Location{}, p.Location...), Value: []int64{int64(j + 1)}})
		}
		c17Web(c, "web-hostile-names", p, c.R)
	}
	for k := 0; k < c.Budget(35, 1200); k++ {
		c17WebSeq(c, "web-session", c17Profile(c.R, true), c.R)
	}
	nw := c.Budget(150, 6000)
	for k := 0; k < nw; k++ {
		p := c17Profile(c.R, true)
		gen := "web"
		if k%12 == 0 { // the arrays that can be empty (Stacks, root's Places) are empty only without samples
			p.Sample = nil
			gen = "web-no-samples"
		} else if k%12 == 1 { // only empty stacks: Stacks non-empty, every stack is the root alone
			for _, s := range p.Sample {
				s.Location = nil
			}
			gen = "web-empty-stacks"
		}
		c17Web(c, gen, p, c.R)
	}
	if c.Tier == "thorough" {
		c17Small(c, 3)
	} else {
		c17Small(c, 2)
	}
}
