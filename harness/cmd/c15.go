//go:build verif

package main

import (
	"bytes"
	"fmt"
	"math"
	"math/big"
	"os"
	"strings"

	"github.com/google/pprof/internal/driver"
	"github.com/google/pprof/internal/measurement"
	"github.com/google/pprof/internal/plugin"
	"github.com/google/pprof/internal/report"
	"github.com/google/pprof/profile"
)

func init() {
	registry["C15"] = runC15
	subcmds["gen-unittable"] = genUnitTable
}

// genUnitTable is the translator for C15: it dumps measurement.UnitTypes (as compiled from
// /repo's current source) as Gallina data. Factors are the exact rationals of the float64s.
func genUnitTable(args []string) {
	var sb strings.Builder
	sb.WriteString("(* GENERATED from /repo/internal/measurement/measurement.go (UnitTypes) on every run; do not edit. *)\n")
	sb.WriteString("From Coq Require Import QArith.\nFrom PV Require Import M_Measure.\nOpen Scope string_scope.\n\n")
	q := func(f float64) string {
		r := new(big.Rat)
		r.SetFloat64(f)
		return fmt.Sprintf("(%s # %s)%%Q", r.Num().String(), r.Denom().String())
	}
	str := func(s string) string { return Render(S(s))[3:] }
	unit := func(u measurement.Unit) string {
		var al []string
		for _, a := range measurement.VerifAliases(u) {
			al = append(al, str(a))
		}
		return fmt.Sprintf("{| u_name := %s; u_aliases := [%s]; u_factor := %s |}", str(u.CanonicalName), strings.Join(al, "; "), q(u.Factor))
	}
	sb.WriteString("Definition unit_types : list unit_type := [\n")
	for i, ut := range measurement.UnitTypes {
		if i > 0 {
			sb.WriteString(";\n")
		}
		sb.WriteString("  {| ut_default := " + unit(ut.DefaultUnit) + ";\n     ut_units := [\n")
		for j, u := range ut.Units {
			if j > 0 {
				sb.WriteString(";\n")
			}
			sb.WriteString("       " + unit(u))
		}
		sb.WriteString("] |}")
	}
	sb.WriteString("].\n")
	if len(args) > 0 {
		os.WriteFile(args[0], []byte(sb.String()), 0o644)
	} else {
		fmt.Print(sb.String())
	}
}

func c15Spellings() (known []string, all []string) {
	seen := map[string]bool{}
	add := func(dst *[]string, s string) {
		if !seen[s] {
			seen[s] = true
			*dst = append(*dst, s)
		}
	}
	for _, ut := range measurement.UnitTypes {
		for _, u := range ut.Units {
			names := append([]string{u.CanonicalName}, measurement.VerifAliases(u)...)
			for _, a := range names {
				add(&known, a)
				add(&known, a+"s")
				if isASCII(a) { // strings.ToLower on non-ASCII capitals is outside the model's to_lower
					add(&known, strings.ToUpper(a[:1])+a[1:])
					add(&known, strings.ToUpper(a))
				}
				add(&known, a+"ss")
			}
		}
	}
	all = append(all, known...)
	for _, s := range []string{"", "s", "ss", "count", "samples", "unit", "objects", "bogus", "by", "se", "hours", "hrss", "n*gcu", "B ", " b", "b\x00", "kib", "minimum", "auto"} {
		add(&all, s)
	}
	return
}

func isASCII(s string) bool {
	for i := 0; i < len(s); i++ {
		if s[i] >= 0x80 {
			return false
		}
	}
	return true
}

func c15Values(r *Rng) []int64 {
	vs := []int64{0, 1, -1, 2, 99, 100, 101, 999, 1000, 1001, 1023, 1024, 1025, 1536, -1536,
		math.MaxInt64, math.MinInt64, math.MinInt64 + 1, math.MaxInt64 - 1, 1 << 53, 1<<53 + 1, -(1 << 53) - 1}
	for _, ut := range measurement.UnitTypes {
		for _, u := range ut.Units {
			for _, w := range ut.Units {
				q := u.Factor / w.Factor
				if q >= 1 && q < 9e18 {
					k := int64(q)
					vs = append(vs, k-1, k, k+1, -k)
				}
			}
		}
	}
	for i := 0; i < 12; i++ {
		sh := uint(r.Intn(63))
		vs = append(vs, r.I64()>>sh)
	}
	return vs
}

func runC15(c *Ctx) {
	known, all := c15Spellings()
	targets := append([]string{"auto", "minimum", "count", "sample", "unit", "zzz", ""}, all...)
	vals := c15Values(c.R)
	c.Extra["spellings"] = len(all)
	c.Extra["values_pool"] = len(vals)

	scaleCase := func(gen string, v int64, from, to string) {
		f, u := measurement.Scale(v, from, to)
		in := L(S("scale"), Z(v), S(from), S(to))
		c.Case(gen, in, L(Rat(f), S(u)), from != to && v != 0, "op:scale")
		lbl := measurement.ScaledLabel(v, from, to)
		c.Case(gen, L(S("label"), Z(v), S(from), S(to)), S(lbl), v != 0, "op:label")
	}
	// full alias x alias matrix with one value per pair (value index rotates), plus targets
	// (quick tier: a seeded 1/10 sample of the matrix; thorough: all of it)
	i := 0
	for _, from := range all {
		for _, to := range targets {
			if c.Tier == "thorough" || c.R.P(1, 10) {
				scaleCase("matrix", vals[i%len(vals)], from, to)
			}
			i++
		}
	}
	// the witness of known finding F17 is always replayed
	scaleCase("finding-F17", math.MinInt64, "bytes", "auto")
	// random triples, biased to known units
	n := c.Budget(1500, 60000)
	for k := 0; k < n; k++ {
		from := PickS(c.R, known)
		if c.R.P(1, 8) {
			from = PickS(c.R, all)
		}
		to := PickS(c.R, targets)
		scaleCase("random", PickI(c.R, vals), from, to)
	}
	// monotonicity pairs for Label: x <= y in the same unit; observed are both labels
	for k := 0; k < c.Budget(400, 20000); k++ {
		unit := PickS(c.R, known)
		x := PickI(c.R, vals)
		y := x + int64(c.R.Intn(5000))
		if c.R.Bool() {
			y = PickI(c.R, vals)
		}
		if y < x {
			x, y = y, x
		}
		c.Case("mono", L(S("mono"), Z(x), Z(y), S(unit)), L(S(measurement.Label(x, unit)), S(measurement.Label(y, unit))), x != y, "op:mono")
	}
	// monotonicity across every unit step: the value just below a unit boundary vs the boundary
	for _, ut := range measurement.UnitTypes {
		for _, u := range ut.Units {
			for _, w := range ut.Units {
				q := w.Factor / u.Factor
				if q > 1 && q < 9e18 {
					k := int64(q)
					for _, d := range []int64{1, 2, 3, 5, 7, 10} {
						for _, al := range measurement.VerifAliases(u) {
							if k-d > 0 {
								c.Case("mono-boundary", L(S("mono"), Z(k-d), Z(k), S(al)), L(S(measurement.Label(k-d, al)), S(measurement.Label(k, al))), true, "op:mono")
							}
						}
					}
				}
			}
		}
	}
	// percentages
	for k := 0; k < c.Budget(400, 20000); k++ {
		v, t := PickI(c.R, vals), PickI(c.R, vals)
		if c.R.Bool() {
			t = int64(c.R.Intn(100000)) - 300
			v = int64(c.R.Intn(100000)) - 300
		}
		c.Case("pct", L(S("pct"), Z(v), Z(t)), S(measurement.Percentage(v, t)), t != 0 && v != 0, "op:pct")
	}
	// the text report (pprof -top) with -unit and divide_by: flat/cum labels are the scaled values,
	// the three percentage columns are |value| / total of the UNSCALED values
	for k := 0; k < c.Budget(250, 8000); k++ {
		n := 1 + c.R.Intn(5)
		var names []string
		var vs []int64
		used := map[int64]bool{}
		for len(vs) < n {
			v := int64(1 + c.R.Intn(5000))
			if c.R.P(1, 4) {
				v = PickI(c.R, []int64{1, 7, 999, 1000, 1024, 1 << 20, 1<<30 + 1, 123456789012, 1 << 50})
			}
			if used[v] {
				continue
			}
			used[v] = true
			if c.R.P(1, 5) {
				v = -v
			}
			vs = append(vs, v)
			names = append(names, fmt.Sprintf("f%d", len(vs)))
		}
		unit := PickS(c.R, []string{"bytes", "kb", "ns", "ms", "seconds", "count", "widgets", "gcu", "milligcu", "MB", "M*GCU", "k*GCU", "GCU", "m*GCU", "Seconds", "KiB"})
		out := PickS(c.R, []string{"auto", "minimum", "", "kb", "mb", "gb", "us", "s", "hrs", "widgets", "bytes", "kilogcu", "GCU", "k*GCU", "M*GCU"})
		if k%4 == 0 { // a diff-like report: entries several units apart, the smallest one negative
			vs = []int64{int64(1+c.R.Intn(20)) * 1000000000, int64(1+c.R.Intn(9)) * 1000000, -int64(1+c.R.Intn(9)) * int64(PickI(c.R, []int64{1, 1000, 1000000}))}
			if c.R.Bool() {
				vs[0] = -vs[0]
			}
			if vs[1] == -vs[2] { // keep |value| pairwise distinct: the order of ties is not this property's
				vs[1]++
			}
			names = []string{"f1", "f2", "f3"}
			unit, out = PickS(c.R, []string{"ns", "bytes", "nanogcu", "us"}), "minimum"
		}
		ratio := []float64{0, 1, 0.5, 0.25, 2, 4, 0.1, 1.0 / 3, 0.001, 1.5}[c.R.Intn(10)]
		in := []Term{}
		for i := range vs {
			in = append(in, L(S(names[i]), Z(vs[i])))
		}
		duration := PickI(c.R, []int64{0, 0, 1000000000, 10000000000, 123456789, 1, 3600000000000})
		c.Case("toptext", L(S("toptext"), L(in...), S(unit), S(out), Rat(ratio), Z(duration)), c15TopText(names, vs, unit, out, ratio, duration), true,
			"op:toptext", fmt.Sprintf("ratio:%v", ratio))
		// the same report through the real command line (flag parsing, fetch from a file, the driver's
		// reportOptions): -top -unit=<out> -divide_by=<1/ratio>, nothing trimmed
		if d, ok := map[float64]string{1: "1", 0.5: "2", 0.25: "4", 2: "0.5", 4: "0.25", 0.1: "10", 0.001: "1000"}[ratio]; ok && out != "" {
			c.Case("toptext-cli", L(S("toptext"), L(in...), S(unit), S(out), Rat(ratio), Z(duration)), c15TopTextCLI(names, vs, unit, out, d, duration), true,
				"op:toptext-cli", fmt.Sprintf("ratio:%v", ratio))
		}
	}
	// CommonValueType over lists of (type, unit)
	types := []string{"cpu", "cpus", "space", "alloc", "", "s"}
	for k := 0; k < c.Budget(300, 10000); k++ {
		m := c.R.Intn(5)
		var ts []*profile.ValueType
		var in []Term
		ty := PickS(c.R, types)
		for j := 0; j < m; j++ {
			t := ty
			if c.R.P(1, 6) {
				t = PickS(c.R, types)
			}
			u := PickS(c.R, known)
			if c.R.P(1, 6) {
				u = PickS(c.R, all)
			}
			ts = append(ts, &profile.ValueType{Type: t, Unit: u})
			in = append(in, L(S(t), S(u)))
		}
		r, err := measurement.CommonValueType(ts)
		var obs Term
		switch {
		case err != nil:
			obs = L(S("err"))
		case r == nil:
			obs = L(S("nil"))
		default:
			obs = L(S("ok"), S(r.Type), S(r.Unit))
		}
		c.Case("common", L(S("common"), L(in...)), obs, m >= 2, "op:common")
	}
	// CommonValueType on lists of 3..5 units of ONE family in every order (the finest must win
	// wherever it stands)
	r := c.R
	for k := 0; k < c.Budget(300, 8000); k++ {
		ut := measurement.UnitTypes[r.Intn(len(measurement.UnitTypes))]
		m := 3 + r.Intn(3)
		var ts []*profile.ValueType
		var in []Term
		for j := 0; j < m; j++ {
			u := ut.Units[r.Intn(len(ut.Units))]
			al := measurement.VerifAliases(u)
			name := u.CanonicalName
			if len(al) > 0 {
				name = al[r.Intn(len(al))]
			}
			if r.P(1, 3) {
				name += "s"
			}
			ts = append(ts, &profile.ValueType{Type: "cpu", Unit: name})
			in = append(in, L(S("cpu"), S(name)))
		}
		res, err := measurement.CommonValueType(ts)
		var obs Term
		switch {
		case err != nil:
			obs = L(S("err"))
		case res == nil:
			obs = L(S("nil"))
		default:
			obs = L(S("ok"), S(res.Type), S(res.Unit))
		}
		c.Case("common-family", L(S("common"), L(in...)), obs, true, "op:common")
	}
}

// c15TopText renders the text report of a profile with one single-frame sample per name and
// returns its rows: flat label, flat%, sum%, cum label, cum%, name.
func c15TopProfile(names []string, vals []int64, unit string, duration int64) *profile.Profile {
	p := &profile.Profile{SampleType: []*profile.ValueType{{Type: "v", Unit: unit}}, DurationNanos: duration}
	for i, n := range names {
		f := &profile.Function{ID: uint64(i + 1), Name: n, SystemName: n}
		l := &profile.Location{ID: uint64(i + 1), Line: []profile.Line{{Function: f}}} // no address, no line: the entry is named by the function
		p.Function = append(p.Function, f)
		p.Location = append(p.Location, l)
		p.Sample = append(p.Sample, &profile.Sample{Location: []*profile.Location{l}, Value: []int64{vals[i]}})
	}
	return p
}

// c15TopTextCLI prints the same report as c15TopText through driver.PProf with real flags.
func c15TopTextCLI(names []string, vals []int64, unit, out, divideBy string, duration int64) (res Term) {
	defer func() {
		if r := recover(); r != nil {
			res = L(S("panic"), S(fmt.Sprint(r)))
		}
	}()
	p := c15TopProfile(names, vals, unit, duration)
	var pb bytes.Buffer
	if err := p.Write(&pb); err != nil {
		return L(S("err"), S(err.Error()))
	}
	if err := os.WriteFile("c15in.prof", pb.Bytes(), 0o644); err != nil {
		return L(S("harness-err"))
	}
	defer os.Remove("c15in.prof")
	defer os.Remove("c15out.txt")
	args := []string{"-symbolize=none", "-top", "-output=c15out.txt", "-nodecount=0", "-nodefraction=0", "-edgefraction=0",
		"-unit=" + out, "-divide_by=" + divideBy, "c15in.prof"}
	o := &plugin.Options{Flagset: newC09Flags(args), Sym: c09Sym{}, Obj: &c09Obj{}, UI: &c09UI{}}
	if err := driver.PProf(o); err != nil {
		return L(S("err"), S(err.Error()))
	}
	b, _ := os.ReadFile("c15out.txt")
	return c15ParseTop(string(b))
}

func c15TopText(names []string, vals []int64, unit, out string, ratio float64, duration int64) (res Term) {
	defer func() {
		if r := recover(); r != nil {
			res = L(S("panic"), S(fmt.Sprint(r)))
		}
	}()
	p := c15TopProfile(names, vals, unit, duration)
	opt := &report.Options{OutputFormat: report.Text, SampleValue: func(v []int64) int64 { return v[0] },
		SampleUnit: unit, OutputUnit: out, Ratio: ratio}
	var buf bytes.Buffer
	if err := report.Generate(&buf, report.New(p, opt), nil); err != nil {
		return L(S("err"), S(err.Error()))
	}
	return c15ParseTop(buf.String())
}

func c15ParseTop(text string) Term {
	var rows []Term
	started := false
	legend := ""
	for _, ln := range strings.Split(text, "\n") {
		f := strings.Fields(ln)
		if !started {
			if strings.HasPrefix(ln, "Duration: ") {
				legend = ln
			}
			started = len(f) == 5 && f[0] == "flat" && f[1] == "flat%"
			continue
		}
		if len(f) == 0 {
			continue
		}
		rows = append(rows, Ss(f))
	}
	return L(S("ok"), L(rows...), S(legend))
}
