//go:build verif

package main

import (
	"fmt"
	"math"
	"math/big"
	"os"
	"strings"

	"github.com/google/pprof/internal/measurement"
	"github.com/google/pprof/profile"
)

func init() {
	registry["C15"] = runC15
	subcmds["gen-unittable"] = genUnitTable
}

// genUnitTable is the translator for C15: it dumps measurement.UnitTypes (as compiled from
// /repo's current source) as Gallina data. Factors are the exact rationals of the float64s.
func genUnitTable(args []string) {
	var sb strings.Builder
	sb.WriteString("(* GENERATED from /repo/internal/measurement/measurement.go (UnitTypes) on every run; do not edit. *)\n")
	sb.WriteString("From Coq Require Import QArith.\nFrom PV Require Import M_Measure.\nOpen Scope string_scope.\n\n")
	q := func(f float64) string {
		r := new(big.Rat)
		r.SetFloat64(f)
		return fmt.Sprintf("(%s # %s)%%Q", r.Num().String(), r.Denom().String())
	}
	str := func(s string) string { return Render(S(s))[3:] }
	unit := func(u measurement.Unit) string {
		var al []string
		for _, a := range measurement.VerifAliases(u) {
			al = append(al, str(a))
		}
		return fmt.Sprintf("{| u_name := %s; u_aliases := [%s]; u_factor := %s |}", str(u.CanonicalName), strings.Join(al, "; "), q(u.Factor))
	}
	sb.WriteString("Definition unit_types : list unit_type := [\n")
	for i, ut := range measurement.UnitTypes {
		if i > 0 {
			sb.WriteString(";\n")
		}
		sb.WriteString("  {| ut_default := " + unit(ut.DefaultUnit) + ";\n     ut_units := [\n")
		for j, u := range ut.Units {
			if j > 0 {
				sb.WriteString(";\n")
			}
			sb.WriteString("       " + unit(u))
		}
		sb.WriteString("] |}")
	}
	sb.WriteString("].\n")
	if len(args) > 0 {
		os.WriteFile(args[0], []byte(sb.String()), 0o644)
	} else {
		fmt.Print(sb.String())
	}
}

func c15Spellings() (known []string, all []string) {
	seen := map[string]bool{}
	add := func(dst *[]string, s string) {
		if !seen[s] {
			seen[s] = true
			*dst = append(*dst, s)
		}
	}
	for _, ut := range measurement.UnitTypes {
		for _, u := range ut.Units {
			names := append([]string{u.CanonicalName}, measurement.VerifAliases(u)...)
			for _, a := range names {
				add(&known, a)
				add(&known, a+"s")
				if isASCII(a) { // strings.ToLower on non-ASCII capitals is outside the model's to_lower
					add(&known, strings.ToUpper(a[:1])+a[1:])
					add(&known, strings.ToUpper(a))
				}
				add(&known, a+"ss")
			}
		}
	}
	all = append(all, known...)
	for _, s := range []string{"", "s", "ss", "count", "samples", "unit", "objects", "bogus", "by", "se", "hours", "hrss", "n*gcu", "B ", " b", "b\x00", "kib", "minimum", "auto"} {
		add(&all, s)
	}
	return
}

func isASCII(s string) bool {
	for i := 0; i < len(s); i++ {
		if s[i] >= 0x80 {
			return false
		}
	}
	return true
}

func c15Values(r *Rng) []int64 {
	vs := []int64{0, 1, -1, 2, 99, 100, 101, 999, 1000, 1001, 1023, 1024, 1025, 1536, -1536,
		math.MaxInt64, math.MinInt64, math.MinInt64 + 1, math.MaxInt64 - 1, 1 << 53, 1<<53 + 1, -(1 << 53) - 1}
	for _, ut := range measurement.UnitTypes {
		for _, u := range ut.Units {
			for _, w := range ut.Units {
				q := u.Factor / w.Factor
				if q >= 1 && q < 9e18 {
					k := int64(q)
					vs = append(vs, k-1, k, k+1, -k)
				}
			}
		}
	}
	for i := 0; i < 12; i++ {
		sh := uint(r.Intn(63))
		vs = append(vs, r.I64()>>sh)
	}
	return vs
}

func runC15(c *Ctx) {
	known, all := c15Spellings()
	targets := append([]string{"auto", "minimum", "count", "sample", "unit", "zzz", ""}, all...)
	vals := c15Values(c.R)
	c.Extra["spellings"] = len(all)
	c.Extra["values_pool"] = len(vals)

	scaleCase := func(gen string, v int64, from, to string) {
		f, u := measurement.Scale(v, from, to)
		in := L(S("scale"), Z(v), S(from), S(to))
		c.Case(gen, in, L(Rat(f), S(u)), from != to && v != 0, "op:scale")
		lbl := measurement.ScaledLabel(v, from, to)
		c.Case(gen, L(S("label"), Z(v), S(from), S(to)), S(lbl), v != 0, "op:label")
	}
	// full alias x alias matrix with one value per pair (value index rotates), plus targets
	// (quick tier: a seeded 1/10 sample of the matrix; thorough: all of it)
	i := 0
	for _, from := range all {
		for _, to := range targets {
			if c.Tier == "thorough" || c.R.P(1, 10) {
				scaleCase("matrix", vals[i%len(vals)], from, to)
			}
			i++
		}
	}
	// the witness of known finding F17 is always replayed
	scaleCase("finding-F17", math.MinInt64, "bytes", "auto")
	// random triples, biased to known units
	n := c.Budget(1500, 60000)
	for k := 0; k < n; k++ {
		from := PickS(c.R, known)
		if c.R.P(1, 8) {
			from = PickS(c.R, all)
		}
		to := PickS(c.R, targets)
		scaleCase("random", PickI(c.R, vals), from, to)
	}
	// monotonicity pairs for Label: x <= y in the same unit; observed are both labels
	for k := 0; k < c.Budget(400, 20000); k++ {
		unit := PickS(c.R, known)
		x := PickI(c.R, vals)
		y := x + int64(c.R.Intn(5000))
		if c.R.Bool() {
			y = PickI(c.R, vals)
		}
		if y < x {
			x, y = y, x
		}
		c.Case("mono", L(S("mono"), Z(x), Z(y), S(unit)), L(S(measurement.Label(x, unit)), S(measurement.Label(y, unit))), x != y, "op:mono")
	}
	// monotonicity across every unit step: the value just below a unit boundary vs the boundary
	for _, ut := range measurement.UnitTypes {
		for _, u := range ut.Units {
			for _, w := range ut.Units {
				q := w.Factor / u.Factor
				if q > 1 && q < 9e18 {
					k := int64(q)
					for _, d := range []int64{1, 2, 3, 5, 7, 10} {
						for _, al := range measurement.VerifAliases(u) {
							if k-d > 0 {
								c.Case("mono-boundary", L(S("mono"), Z(k-d), Z(k), S(al)), L(S(measurement.Label(k-d, al)), S(measurement.Label(k, al))), true, "op:mono")
							}
						}
					}
				}
			}
		}
	}
	// percentages
	for k := 0; k < c.Budget(400, 20000); k++ {
		v, t := PickI(c.R, vals), PickI(c.R, vals)
		if c.R.Bool() {
			t = int64(c.R.Intn(100000)) - 300
			v = int64(c.R.Intn(100000)) - 300
		}
		c.Case("pct", L(S("pct"), Z(v), Z(t)), S(measurement.Percentage(v, t)), t != 0 && v != 0, "op:pct")
	}
	// CommonValueType over lists of (type, unit)
	types := []string{"cpu", "cpus", "space", "alloc", "", "s"}
	for k := 0; k < c.Budget(300, 10000); k++ {
		m := c.R.Intn(5)
		var ts []*profile.ValueType
		var in []Term
		ty := PickS(c.R, types)
		for j := 0; j < m; j++ {
			t := ty
			if c.R.P(1, 6) {
				t = PickS(c.R, types)
			}
			u := PickS(c.R, known)
			if c.R.P(1, 6) {
				u = PickS(c.R, all)
			}
			ts = append(ts, &profile.ValueType{Type: t, Unit: u})
			in = append(in, L(S(t), S(u)))
		}
		r, err := measurement.CommonValueType(ts)
		var obs Term
		switch {
		case err != nil:
			obs = L(S("err"))
		case r == nil:
			obs = L(S("nil"))
		default:
			obs = L(S("ok"), S(r.Type), S(r.Unit))
		}
		c.Case("common", L(S("common"), L(in...)), obs, m >= 2, "op:common")
	}
	// CommonValueType on lists of 3..5 units of ONE family in every order (the finest must win
	// wherever it stands)
	r := c.R
	for k := 0; k < c.Budget(300, 8000); k++ {
		ut := measurement.UnitTypes[r.Intn(len(measurement.UnitTypes))]
		m := 3 + r.Intn(3)
		var ts []*profile.ValueType
		var in []Term
		for j := 0; j < m; j++ {
			u := ut.Units[r.Intn(len(ut.Units))]
			al := measurement.VerifAliases(u)
			name := u.CanonicalName
			if len(al) > 0 {
				name = al[r.Intn(len(al))]
			}
			if r.P(1, 3) {
				name += "s"
			}
			ts = append(ts, &profile.ValueType{Type: "cpu", Unit: name})
			in = append(in, L(S("cpu"), S(name)))
		}
		res, err := measurement.CommonValueType(ts)
		var obs Term
		switch {
		case err != nil:
			obs = L(S("err"))
		case res == nil:
			obs = L(S("nil"))
		default:
			obs = L(S("ok"), S(res.Type), S(res.Unit))
		}
		c.Case("common-family", L(S("common"), L(in...)), obs, true, "op:common")
	}
}
