//go:build verif

package main

// C16, round 7: fetch() (fetch.go:492) decides file-or-URL by os.Stat(source): a source is a local
// file only when stat SUCCEEDS; every stat failure -- not found, but also name too long, not a
// directory, permission denied -- sends it down the URL path.  These shapes are HTTP sources (real
// transport, local servers) whose spelling makes stat fail differently from "not found": URLs just
// below / above PATH_MAX and far above it (long query), URLs whose first path component ("http:" or
// host:port for scheme-less sources) exists as a regular file in the working directory.  They are
// ordinary successes / failures for the model: the term of such a source is that of its kind.

func (c *Ctx) c16NameStreams() {
	src := func(i, grp, kind, pad int, noScheme bool) c16Src {
		s := c16Plain(i, grp, true)
		s.kind, s.pad, s.noScheme = kind, pad, noScheme
		return s
	}
	emit := func(notdir int, srcs, bases []c16Src) {
		cs := c16Case{names: true, notdir: notdir, srcs: srcs, bases: bases}
		cs.order = c16Order(c.R, len(srcs), len(bases), 1)
		c.c16Emit("names", cs, "gen-names")
	}
	h, ins, bad := c16KTrHTTPOK, c16KTrInsecureOK, c16KTrHTTP500
	emit(0, []c16Src{src(0, 0, h, 5000, false), src(1, 0, kFetchOK, 0, false), src(2, 0, h, 0, false)}, nil)
	emit(0, []c16Src{src(0, 0, h, 5000, false)}, nil) // the only source
	emit(0, []c16Src{src(0, 0, kFetchOK, 0, false)}, []c16Src{src(0, 1, h, 6000, false)}) // the only base
	emit(0, []c16Src{src(0, 0, h, 3900, false), src(1, 0, h, 4070, false), src(2, 0, h, 4200, false), src(3, 0, ins, 5000, false)}, nil) // around PATH_MAX
	emit(0, []c16Src{src(0, 0, bad, 5000, false), src(1, 0, h, 20000, false), src(2, 0, kFileMissing, 0, false)}, nil) // a long URL answering 500 is an HTTP failure
	emit(0, []c16Src{src(0, 0, h, 5000, true), src(1, 0, h, 0, true)}, nil) // scheme-less
	emit(1, []c16Src{src(0, 0, h, 0, false), src(1, 0, ins, 0, false), src(2, 0, bad, 0, false), src(3, 0, kFetchOK, 0, false)}, []c16Src{src(0, 1, h, 0, false)})
	emit(2, []c16Src{src(0, 0, h, 0, true), src(1, 0, h, 0, false), src(2, 0, bad, 0, true)}, nil)
	emit(1, []c16Src{src(0, 0, h, 0, false)}, nil)
}
