//go:build verif

package main

// C16 -- multi-source fetch merges whatever succeeded, independent of timing.
// The implementation (driver.grabSourcesAndBases -> chunkedGrab -> concurrentGrab -> grabProfile)
// is driven with a scripted plugin.Fetcher whose calls block on per-source gates; a controller
// releases the gates in the scripted completion order.  Every source has a scripted outcome
// (kind): profile from the fetcher, fetcher error, invalid profile, or fall-through to the real
// file / HTTP path (good file, missing file, garbage, malformed profile, HTTP 200, HTTP 500 through
// a scripted http.RoundTripper).

import (
	"strconv"
	"bytes"
	"fmt"
	"hash/fnv"
	"io"
	"net/http"
	"os"
	"sort"
	"strings"
	"sync"
	"time"

	"github.com/google/pprof/internal/driver"
	"github.com/google/pprof/internal/plugin"
	"github.com/google/pprof/profile"
)

func init() { registry["C16"] = runC16 }

const (
	kFetchOK      = 0  // fetcher returns the profile, src ""
	kFetchRemote  = 1  // fetcher returns the profile, src "http://c16remote/..." (remote => save)
	kFetchTest    = 2  // fetcher returns the profile, src "http://pproftest.local/..." (treated as local)
	kFetchErr     = 3  // fetcher returns an error
	kFetchInvalid = 4  // fetcher returns a profile failing CheckValid
	kFileOK       = 5  // fetcher declines (nil,nil); good file
	kFileMissing  = 6  // fetcher declines; no such file
	kFileGarbage  = 7  // fetcher declines; file is not a profile
	kFileInvalid  = 8  // fetcher declines; file parses into an invalid profile
	kHTTPOK       = 9  // fetcher declines; URL answered 200 with a profile (remote => save)
	kHTTP500      = 10 // fetcher declines; URL answered 500
	c16NumKinds   = 11
	// kinds 11.. : the fetcher declines and the request goes through the REAL internal/transport
	// object of the run (one per case, as one per pprof run) to a local server (c16_transport.go)
	c16KTrHTTPOK      = 11 // http://plain server, 200 + profile
	c16KTrHTTP500     = 12 // http://plain server, 500
	c16KTrInsecureOK  = 13 // https+insecure://server with an untrusted certificate, 200 + profile
	c16KTrUntrusted   = 14 // https://server with an untrusted certificate: TLS verification fails
	c16KTrTrustedOK   = 15 // https://server whose certificate is in -tls_ca, 200 + profile
	c16KTrInsecureBad = 16 // https+insecure://untrusted server, 200 + garbage body
	c16KTrInsecure500 = 17 // https+insecure://trusted server, 500
)

func c16KindTransport(k int) bool { return k >= c16KTrHTTPOK && k <= c16KTrInsecure500 }

func c16KindOK(k int) bool {
	switch k {
	case kFetchOK, kFetchRemote, kFetchTest, kFileOK, kHTTPOK, c16KTrHTTPOK, c16KTrInsecureOK, c16KTrTrustedOK:
		return true
	}
	return false
}

type c16KV struct {
	k string
	v int64
}

type c16Src struct {
	kind    int
	typ     string // sample type name; "" = a profile without sample types (and without samples)
	samples []c16KV
	comment string // distinct per source: the merged profile's Comments list the contributors in merge order
	tmd      bool // part of a timed case; sec/tmo repeat the case's -seconds / -timeout for the runner
	sec, tmo int
	pad      int  // round 7: "?pad=xxx..." of this length appended to the address (stat -> ENAMETOOLONG from ~4 KiB)
	noScheme bool // round 7: the address is written host:port/path (adjustURL adds http://)
	urlSec  string // round 6 (timed cases): "?seconds=<urlSec>" appended to the address ("" = none)
	delayMs int    // round 6: the local server answers after this many milliseconds
	unit    string // unit of the sample type ("" = "count"); round-5 header streams use time units
	dst     string // Profile.DefaultSampleType
	drop    string // Profile.DropFrames (end-to-end streams: "", a pattern matching no frame, or a non-RE2 pattern)
}

type c16Ev struct{ grp, idx int }

type c16Case struct {
	srcs, bases []c16Src
	order       []c16Ev
	fetch       bool // drive fetchProfiles (base subtraction included) instead of grabSourcesAndBases
	// end-to-end layer (c16_e2e.go): drive driver.PProf.  srcs/bases are then TABLES of distinct source
	// names; args[g] lists, by table index, what the command line names (repeats allowed).
	names            bool // round 7: source NAMES that make os.Stat fail in other ways than "not found"
	notdir           int  // round 7: 1 = a regular file "http:" exists in the cwd, 2 = one named like the plain server's host:port (stat -> ENOTDIR)
	timed            bool // round 6: run with explicit source.Seconds / source.Timeout, record the client deadline
	seconds, timeout int
	e2e       int // 0 = off, else c16E2E* (which entry point / output is used)
	args      [2][]int
	diffBase  bool // -diff_base instead of -base
	emptyBase bool // an additional empty -base= value (dropEmpty)
}

type c16Sym struct{}

func (c16Sym) Symbolize(mode string, srcs plugin.MappingSources, prof *profile.Profile) error { return nil }

// ---- building real profiles from the toy description

func c16Profile(s c16Src, invalid bool) *profile.Profile {
	// PeriodType must not be nil: profile.(*Profile).compatible dereferences it (merge.go:537)
	p := &profile.Profile{PeriodType: &profile.ValueType{Type: "cpu", Unit: "nanoseconds"}, Period: 1}
	if s.typ != "" {
		u := s.unit
		if u == "" {
			u = "count"
		}
		p.SampleType = []*profile.ValueType{{Type: s.typ, Unit: u}}
		p.DefaultSampleType = s.dst
	}
	if s.comment != "" {
		p.Comments = []string{s.comment}
	}
	p.DropFrames = s.drop
	m := &profile.Mapping{ID: 1, Start: 0x1000, Limit: 0x100000, BuildID: "c16build"}
	p.Mapping = []*profile.Mapping{m}
	fns := map[string]*profile.Location{}
	if s.typ != "" {
		for _, kv := range s.samples {
			loc := fns[kv.k]
			if loc == nil {
				h := fnv.New32a()
				h.Write([]byte(kv.k))
				f := &profile.Function{ID: uint64(len(p.Function) + 1), Name: kv.k, SystemName: kv.k, Filename: "c16.go"}
				p.Function = append(p.Function, f)
				loc = &profile.Location{ID: uint64(len(p.Location) + 1), Mapping: m, Address: 0x1000 + uint64(h.Sum32()%0xf000),
					Line: []profile.Line{{Function: f, Line: 1}}}
				p.Location = append(p.Location, loc)
				fns[kv.k] = loc
			}
			p.Sample = append(p.Sample, &profile.Sample{Location: []*profile.Location{loc}, Value: []int64{kv.v}})
		}
	}
	if invalid {
		// two values for one sample type: CheckValid (and Parse) reject it
		p.SampleType = []*profile.ValueType{{Type: "samples", Unit: "count"}}
		p.Sample = append(p.Sample, &profile.Sample{Value: []int64{1, 2}})
	}
	return p
}

func c16Bytes(p *profile.Profile) []byte {
	var b bytes.Buffer
	p.Write(&b)
	return b.Bytes()
}

func c16ObsProfile(p *profile.Profile) Term {
	if p == nil {
		return L()
	}
	typ := ""
	if len(p.SampleType) > 0 {
		typ = p.SampleType[0].Type
	}
	var ss []Term
	for _, s := range p.Sample {
		name := "?"
		if len(s.Location) > 0 && len(s.Location[0].Line) > 0 && s.Location[0].Line[0].Function != nil {
			name = s.Location[0].Line[0].Function.Name
		}
		var v int64
		if len(s.Value) > 0 {
			v = s.Value[0]
		}
		ss = append(ss, L(S(name), Z(v)))
	}
	unit := ""
	if len(p.SampleType) > 0 {
		unit = p.SampleType[0].Unit
	}
	return L(S(typ), L(ss...), ZI(len(p.SampleType)), Ss(p.Comments), ZI(c16UnitCode(unit)), S(p.DefaultSampleType))
}

// ---- scripted environment

type c16Gate struct {
	arrived, release, returned chan struct{}
	onceA, onceR, onceT         sync.Once
}

type c16Env struct {
	gates map[string]*c16Gate
	srcOf map[string]c16Src
	mu    sync.Mutex
	errs  []string
	calls map[string]int
	byPath map[string]string // "/s3" -> address, for the sources served by the local servers
	allow         map[string]time.Duration // round 6: address -> time the client allowed the request
	notConcurrent string    // end-to-end streams: set when the fetches of the run were not all in flight together
	lines         []string  // interactive session: what ReadLine hands out
}

func (e *c16Env) Fetch(src string, duration, timeout time.Duration) (*profile.Profile, string, error) {
	g := e.gates[src]
	if g == nil {
		return nil, "", fmt.Errorf("c16: unknown source %q", src)
	}
	e.mu.Lock()
	e.calls[src]++
	e.mu.Unlock()
	g.onceA.Do(func() { close(g.arrived) })
	<-g.release
	s := e.srcOf[src]
	if c16KindTransport(s.kind) {
		return nil, "", nil // decline; c16RT closes g.returned when the real transport has answered
	}
	defer g.onceT.Do(func() { close(g.returned) })
	switch s.kind {
	case kFetchOK:
		return c16Profile(s, false), "", nil
	case kFetchRemote:
		return c16Profile(s, false), "http://c16remote/" + src, nil
	case kFetchTest:
		return c16Profile(s, false), "http://pproftest.local/" + src, nil
	case kFetchErr:
		return nil, "", fmt.Errorf("c16 scripted failure")
	case kFetchInvalid:
		return c16Profile(s, true), "", nil
	}
	return nil, "", nil // decline: grabProfile falls through to fetch()
}

func (e *c16Env) RoundTrip(req *http.Request) (*http.Response, error) {
	addr := req.URL.String()
	s, ok := e.srcOf[addr]
	resp := &http.Response{Proto: "HTTP/1.1", ProtoMajor: 1, ProtoMinor: 1, Header: http.Header{}, Request: req}
	if !ok || s.kind != kHTTPOK {
		resp.StatusCode, resp.Status = 500, "500 Internal Server Error"
		resp.Body = io.NopCloser(strings.NewReader("scripted"))
		return resp, nil
	}
	resp.StatusCode, resp.Status = 200, "200 OK"
	resp.Body = io.NopCloser(bytes.NewReader(c16Bytes(c16Profile(s, false))))
	return resp, nil
}

// plugin.UI
func (e *c16Env) ReadLine(prompt string) (string, error) {
	e.mu.Lock()
	defer e.mu.Unlock()
	if len(e.lines) == 0 {
		return "", io.EOF
	}
	l := e.lines[0]
	e.lines = e.lines[1:]
	return l, nil
}
func (e *c16Env) Print(args ...interface{})              {}
func (e *c16Env) PrintErr(args ...interface{}) {
	e.mu.Lock()
	e.errs = append(e.errs, fmt.Sprint(args...))
	e.mu.Unlock()
}
func (e *c16Env) IsTerminal() bool                             { return false }
func (e *c16Env) WantBrowser() bool                            { return false }
func (e *c16Env) SetAutoComplete(complete func(string) string) {}

type c16Obj struct{}

func (c16Obj) Open(file string, start, limit, offset uint64, relocationSymbol string) (plugin.ObjFile, error) {
	return nil, fmt.Errorf("c16: no object files")
}
func (c16Obj) Disasm(file string, start, end uint64, intelSyntax bool) ([]plugin.Inst, error) {
	return nil, fmt.Errorf("c16: no disasm")
}

func c16Addr(grp, idx int, kind int) string {
	g := "s"
	if grp == 1 {
		g = "b"
	}
	switch kind {
	case kFileOK, kFileMissing, kFileGarbage, kFileInvalid:
		return fmt.Sprintf("c16_%s%d.pb", g, idx)
	case kHTTPOK, kHTTP500:
		return fmt.Sprintf("http://c16host/%s%d", g, idx)
	}
	if c16KindTransport(kind) {
		return c16TrAddr(kind, fmt.Sprintf("/%s%d", g, idx))
	}
	return fmt.Sprintf("%s%d", g, idx)
}

func c16ErrCode(msg string) string {
	switch {
	case msg == "c16 scripted failure":
		return "fetcher"
	case strings.Contains(msg, "no such file or directory"):
		return "missing"
	case strings.HasPrefix(msg, "parsing profile: unrecognized profile format"):
		return "garbage"
	case strings.HasPrefix(msg, "malformed profile: mismatch: sample has 2 values vs. 1 types"):
		return "malformed"
	case msg == "mismatch: sample has 2 values vs. 1 types":
		return "invalid"
	case strings.HasPrefix(msg, "server response: 500"):
		return "http"
	case strings.HasPrefix(msg, "http fetch:") && strings.Contains(msg, "x509:"):
		return "tls"
	case strings.HasPrefix(msg, "http fetch:") && (strings.Contains(msg, "Client.Timeout exceeded") || strings.Contains(msg, "context deadline exceeded")):
		return "timeout"
	}
	return "other:" + msg
}

var c16Stalls int

// c16Run executes one case against the implementation and returns the observable.
func c16Run(cs c16Case) (obs Term) {
	env := &c16Env{gates: map[string]*c16Gate{}, srcOf: map[string]c16Src{}, calls: map[string]int{}, byPath: map[string]string{}}
	rt := c16NewRT(env, cs) // scripted answers for c16host, the run's real transport for everything else
	addrs := [2][]string{}
	index := map[string]c16Ev{}
	var files []string
	for grp, l := range [2][]c16Src{cs.srcs, cs.bases} {
		for i, s := range l {
			a := c16Addr(grp, i, s.kind)
			if s.urlSec != "" {
				a += "?seconds=" + s.urlSec
			}
			if s.noScheme {
				a = strings.TrimPrefix(a, "http://")
			}
			if s.pad > 0 {
				a += "?pad=" + strings.Repeat("x", s.pad)
			}
			addrs[grp] = append(addrs[grp], a)
			index[a] = c16Ev{grp, i}
			env.gates[a] = &c16Gate{arrived: make(chan struct{}), release: make(chan struct{}), returned: make(chan struct{})}
			env.srcOf[a] = s
			if c16KindTransport(s.kind) {
				path := a[strings.LastIndex(a, "/"):]
				if k := strings.Index(path, "?"); k >= 0 {
					path = path[:k]
				}
				env.byPath[path] = a
			}
			switch s.kind {
			case kFileOK:
				os.WriteFile(a, c16Bytes(c16Profile(s, false)), 0o644)
				files = append(files, a)
			case kFileGarbage:
				os.WriteFile(a, []byte("this is not a profile\n"), 0o644)
				files = append(files, a)
			case kFileInvalid:
				os.WriteFile(a, c16Bytes(c16Profile(s, true)), 0o644)
				files = append(files, a)
			}
		}
	}
	defer func() {
		for _, f := range files {
			os.Remove(f)
		}
	}()
	if cs.notdir != 0 {
		blocker := "http:"
		if cs.notdir == 2 {
			blocker = strings.TrimPrefix(c16StartServers().plain.URL, "http://")
		}
		os.WriteFile(blocker, []byte("c16: a regular file where a URL's first path component would be\n"), 0o644)
		defer os.Remove(blocker)
	}
	// controller: release the gates in the scripted order, each after the previous fetch returned
	done := make(chan struct{})
	finished := make(chan struct{}) // closed when the implementation has returned
	go func() {
		defer close(done)
		stalls := 0
		if cs.e2e != 0 {
			// "fetches them concurrently": every fetch of the run (fewer than a chunk) must be in flight
			// before the first one is allowed to complete
			deadline := time.After(400 * time.Millisecond)
			inflight := 0
		wait:
			for _, ev := range cs.order {
				select {
				case <-env.gates[addrs[ev.grp][ev.idx]].arrived:
					inflight++
				case <-finished:
					break wait
				case <-deadline:
					break wait
				}
			}
			if inflight < len(cs.order) {
				env.mu.Lock()
				env.notConcurrent = fmt.Sprintf("not-concurrent: %d of %d fetches in flight together", inflight, len(cs.order))
				env.mu.Unlock()
				stalls = 3
			}
		}
		for _, ev := range cs.order {
			g := env.gates[addrs[ev.grp][ev.idx]]
			arrived := false
			if stalls < 3 {
				select {
				case <-g.arrived:
					arrived = true
				case <-finished: // e.g. a combine error ended the chunk loop early
					stalls = 3
				case <-time.After(200 * time.Millisecond):
					stalls++
					c16Stalls++
				}
			}
			g.onceR.Do(func() { close(g.release) })
			if arrived {
				select {
				case <-g.returned:
					// let goroutine ev finish grabProfile and write its slot (best effort: completion
					// cannot be observed without touching the implementation)
					for t0 := time.Now(); time.Since(t0) < 15*time.Microsecond; {
					}
				case <-finished:
				case <-time.After(200 * time.Millisecond):
				}
			}
		}
		for _, g := range env.gates { // whatever the script did not mention
			g.onceR.Do(func() { close(g.release) })
		}
	}()
	var p, pb *profile.Profile
	var save bool
	var err error
	panicked := ""
	func() {
		defer func() {
			if r := recover(); r != nil {
				panicked = fmt.Sprint(r)
			}
		}()
		if cs.e2e != 0 {
			p, err = c16RunE2E(env, rt, cs, addrs)
		} else if cs.fetch {
			p, err = driver.VerifC16Fetch(addrs[0], addrs[1], false,
				&plugin.Options{Fetch: env, Sym: c16Sym{}, Obj: c16Obj{}, UI: env, HTTPTransport: rt})
		} else {
			if cs.timed {
				p, pb, _, _, save, err = driver.VerifC16GrabT(addrs[0], addrs[1], cs.seconds, cs.timeout, env, c16Obj{}, env, rt)
			} else {
				p, pb, _, _, save, err = driver.VerifC16Grab(addrs[0], addrs[1], env, c16Obj{}, env, rt)
			}
		}
	}()
	close(finished)
	for _, g := range env.gates {
		g.onceR.Do(func() { close(g.release) })
	}
	<-done
	if panicked != "" {
		return L(S("panic"), S(panicked))
	}
	status := "ok"
	if err != nil {
		m := err.Error()
		switch {
		case strings.HasPrefix(m, "problem fetching source profiles:"):
			status = "err-src"
		case strings.HasPrefix(m, "problem fetching base profiles:"):
			status = "err-base"
		case m == "failed to fetch any source profiles":
			status = "no-src"
		case m == "failed to fetch any base profiles":
			status = "no-base"
		case (cs.fetch || cs.e2e != 0) && (strings.HasPrefix(m, "profiles have empty common sample type list") || strings.HasPrefix(m, "sample types:") || strings.HasPrefix(m, "period type:")):
			status = "err-diff" // combining the merged sources with the negated merged bases failed
		default:
			status = "other:" + m
		}
	}
	// stderr: per-group error lines "addr: msg" in print order, tail = everything else
	var el [2][]Term
	var tail []Term
	env.mu.Lock()
	for _, line := range env.errs {
		matched := false
		if k := strings.Index(line, ": "); k > 0 { // no address contains ": "
			if ev, ok := index[line[:k]]; ok {
				el[ev.grp] = append(el[ev.grp], S(fmt.Sprintf("%d: %s", ev.idx, c16ErrCode(line[k+2:]))))
				matched = true
			}
		}
		if !matched && cs.e2e != 0 && (strings.HasPrefix(line, "Generating report in ") || strings.HasPrefix(line, "Serving web UI on ")) {
			matched = true // the report step's own progress lines
		}
		if !matched {
			tail = append(tail, S(line))
		}
	}
	// a source fetched more than once would be an observable too
	var multi []string
	want := map[string]int{}
	if cs.e2e != 0 {
		for g := 0; g < 2; g++ {
			for _, id := range cs.args[g] {
				want[addrs[g][id]]++
			}
		}
		if env.notConcurrent != "" {
			multi = append(multi, env.notConcurrent)
		}
	}
	for a, n := range env.calls {
		if cs.e2e != 0 && n == want[a] {
			continue
		}
		if n != 1 || cs.e2e != 0 {
			multi = append(multi, fmt.Sprintf("%s x%d", a, n))
		}
	}
	if cs.timed {
		// how long the http.Client allowed each request (deadline seen by the transport), in half seconds
		for a, d := range env.allow {
			ev := index[a]
			multi = append(multi, fmt.Sprintf("allow %d:%d=%d", ev.grp, ev.idx, (d+250*time.Millisecond)/(500*time.Millisecond)))
		}
	}
	env.mu.Unlock()
	sort.Strings(multi)
	return L(S(status), c16ObsProfile(p), c16ObsProfile(pb), Bool(save), L(el[0]...), L(el[1]...), L(tail...), Ss(multi))
}

// c16IsPlain: the source is exactly c16Plain(i, grp, _) -- shipped as TL [TZ kind]; the runner
// (coq/R_C16.v plain_prof) rebuilds the profile from the position.
func c16IsPlain(s c16Src, i, grp int) bool {
	q := c16Plain(i, grp, true)
	if s.tmd || s.unit != "" || s.dst != "" || s.drop != "" || s.typ != q.typ || len(s.samples) != len(q.samples) || s.comment != fmt.Sprintf("c%d:%d", grp, i) {
		return false
	}
	for j := range s.samples {
		if s.samples[j] != q.samples[j] {
			return false
		}
	}
	return true
}

func c16SrcTermAt(s c16Src, i, grp int) Term {
	if c16IsPlain(s, i, grp) {
		return L(ZI(s.kind))
	}
	return c16SrcTerm(s)
}

func c16SrcTerm(s c16Src) Term {
	var kv []Term
	for _, x := range s.samples {
		kv = append(kv, L(S(x.k), Z(x.v)))
	}
	cm := []string{}
	if s.comment != "" {
		cm = append(cm, s.comment)
	}
	if s.tmd {
		us := int64(1000000001) // no seconds= parameter
		if n, err := strconv.Atoi(s.urlSec); err == nil && s.urlSec != "" {
			us = int64(n)
		} else if s.urlSec != "" {
			us = 1000000002 // present but not a number
		}
		return L(ZI(s.kind), S(s.typ), L(kv...), Ss(cm), S(s.drop), ZI(c16UnitCode(s.unit)), S(s.dst), Z(us), ZI(s.delayMs), ZI(s.sec), ZI(s.tmo))
	}
	if s.unit != "" || s.dst != "" {
		return L(ZI(s.kind), S(s.typ), L(kv...), Ss(cm), S(s.drop), ZI(c16UnitCode(s.unit)), S(s.dst))
	}
	if s.drop != "" {
		return L(ZI(s.kind), S(s.typ), L(kv...), Ss(cm), S(s.drop))
	}
	return L(ZI(s.kind), S(s.typ), L(kv...), Ss(cm))
}

func c16Input(cs c16Case) Term {
	var a, b, o []Term
	for i, s := range cs.srcs {
		a = append(a, c16SrcTermAt(s, i, 0))
	}
	for i, s := range cs.bases {
		b = append(b, c16SrcTermAt(s, i, 1))
	}
	for _, e := range cs.order {
		o = append(o, ZI(e.grp*1000000+e.idx))
	}
	if cs.e2e != 0 {
		flags := 0
		if cs.diffBase {
			flags |= 1
		}
		if cs.emptyBase {
			flags |= 2
		}
		return L(L(a...), L(b...), L(o...), S("pprof"), L(Zs(c16I64(cs.args[0])), Zs(c16I64(cs.args[1])), ZI(cs.e2e), ZI(flags)))
	}
	if cs.names {
		var codes []Term
		for _, l := range [][]c16Src{cs.srcs, cs.bases} {
			for _, s := range l {
				ns := 0
				if s.noScheme {
					ns = 1
				}
				codes = append(codes, L(ZI(s.pad), ZI(ns)))
			}
		}
		return L(L(a...), L(b...), L(o...), S("names"), L(ZI(cs.notdir), L(codes...)))
	}
	if cs.fetch {
		return L(L(a...), L(b...), L(o...), S("fetch"))
	}
	return L(L(a...), L(b...), L(o...))
}

type c16Item struct {
	gen  string
	cs   c16Case
	tags []string
}

var c16Queue []c16Item

func (c *Ctx) c16Emit(gen string, cs c16Case, tags ...string) {
	for i := range cs.srcs {
		cs.srcs[i].comment = fmt.Sprintf("c0:%d", i)
	}
	for i := range cs.bases {
		cs.bases[i].comment = fmt.Sprintf("c1:%d", i)
	}
	c16Queue = append(c16Queue, c16Item{gen, cs, tags})
}

// c16Flush runs the queued cases, the large ones spread evenly among the small ones so that the
// Coq shards evaluating them are balanced.
func (c *Ctx) c16Flush() {
	var small, big []c16Item
	for _, it := range c16Queue {
		if len(it.cs.srcs)+len(it.cs.bases) > 40 {
			big = append(big, it)
		} else {
			small = append(small, it)
		}
	}
	c16Queue = nil
	every := len(small)
	if len(big) > 0 {
		every = len(small)/len(big) + 1
	}
	for i, it := range small {
		c.c16Do(it.gen, it.cs, it.tags...)
		if (i+1)%every == 0 && len(big) > 0 {
			c.c16Do(big[0].gen, big[0].cs, big[0].tags...)
			big = big[1:]
		}
	}
	for _, it := range big {
		c.c16Do(it.gen, it.cs, it.tags...)
	}
}

func (c *Ctx) c16Do(gen string, cs c16Case, tags ...string) {
	obs := c16Run(cs)
	nfail, nok := 0, 0
	for _, l := range [][]c16Src{cs.srcs, cs.bases} {
		for _, s := range l {
			if c16KindOK(s.kind) {
				nok++
			} else {
				nfail++
			}
		}
	}
	n := len(cs.srcs) + len(cs.bases)
	tags = append(tags, fmt.Sprintf("n:%s", c16Bucket(n)))
	if len(cs.bases) > 0 {
		tags = append(tags, "with-bases")
	}
	if nfail > 0 && nok > 0 {
		tags = append(tags, "mixed-failures")
	}
	// non-trivial: at least two sources, at least one failing and one succeeding
	c.Case(gen, c16Input(cs), obs, n >= 2 && nfail > 0 && nok > 0, tags...)
}

func c16Bucket(n int) string {
	switch {
	case n <= 5:
		return fmt.Sprint(n)
	case n <= 126:
		return "6-126"
	case n <= 130:
		return "127-130"
	case n <= 254:
		return "131-254"
	case n <= 258:
		return "255-258"
	}
	return ">258"
}

// ---- generators

func c16Perms(n int) [][]int {
	if n == 0 {
		return [][]int{{}}
	}
	var out [][]int
	for _, p := range c16Perms(n - 1) {
		for pos := 0; pos <= len(p); pos++ {
			q := append(append(append([]int{}, p[:pos]...), n-1), p[pos:]...)
			out = append(out, q)
		}
	}
	return out
}

func c16Shuffle(r *Rng, l []int) {
	for i := len(l) - 1; i > 0; i-- {
		j := r.Intn(i + 1)
		l[i], l[j] = l[j], l[i]
	}
}

// c16Order: a random global completion order that a correct implementation can follow without
// waiting: inside each group the chunks (of the implementation's 128) finish one after the other,
// inside a chunk the order is a random permutation; the two groups are interleaved at random.
func c16Order(r *Rng, ns, nb int, mode int) []c16Ev {
	grp := func(g, n int) []c16Ev {
		var out []c16Ev
		for start := 0; start < n; start += 128 {
			end := start + 128
			if end > n {
				end = n
			}
			idx := make([]int, 0, end-start)
			for i := start; i < end; i++ {
				idx = append(idx, i)
			}
			switch mode {
			case 0:
				c16Shuffle(r, idx)
			case 1: // reversed
				for i, j := 0, len(idx)-1; i < j; i, j = i+1, j-1 {
					idx[i], idx[j] = idx[j], idx[i]
				}
			}
			for _, i := range idx {
				out = append(out, c16Ev{g, i})
			}
		}
		return out
	}
	a, b := grp(0, ns), grp(1, nb)
	var out []c16Ev
	for len(a) > 0 || len(b) > 0 {
		if len(b) == 0 || (len(a) > 0 && r.Intn(len(a)+len(b)) < len(a)) {
			out, a = append(out, a[0]), a[1:]
		} else {
			out, b = append(out, b[0]), b[1:]
		}
	}
	return out
}

var c16FailKinds = []int{kFetchErr, kFetchInvalid, kFileMissing, kFileGarbage, kFileInvalid, kHTTP500}
var c16OKKinds = []int{kFetchOK, kFetchRemote, kFetchTest, kFileOK, kHTTPOK}

func c16Plain(i int, grp int, ok bool) c16Src {
	k := kFetchOK
	if !ok {
		k = kFetchErr
	}
	own := fmt.Sprintf("f%d", i)
	if grp == 1 {
		own = fmt.Sprintf("g%d", i)
	}
	// own key reveals order, the shared key reveals the set (distinct powers of two up to 2^61, then wrap-around sums)
	return c16Src{kind: k, typ: "samples", samples: []c16KV{{own, int64(i + 1)}, {"shared", int64(1) << uint(i%62)}}}
}

func runC16(c *Ctx) {
	os.Setenv("PPROF_BINARY_PATH", "c16-no-such-dir")
	if cwd, err := os.Getwd(); err == nil { // the web entry point reads its settings file
		os.MkdirAll(cwd+"/c16_home", 0o755)
		os.Setenv("XDG_CONFIG_HOME", cwd+"/c16_home")
		os.Setenv("PPROF_TMPDIR", cwd+"/c16_home")
	}
	thorough := c.Tier == "thorough"

	// G1: exhaustive small scope: m = ns+nb sources, every split, every completion order of the m
	// fetches, every failure subset.
	maxM := 4
	if thorough {
		maxM = 5
	}
	exh := func(m int, sample int) {
		perms := c16Perms(m)
		for nb := 0; nb < m; nb++ {
			ns := m - nb
			for _, perm := range perms {
				for mask := 0; mask < 1<<uint(m); mask++ {
					if sample > 0 && !c.R.P(1, sample) {
						continue
					}
					var cs c16Case
					for i := 0; i < ns; i++ {
						cs.srcs = append(cs.srcs, c16Plain(i, 0, mask>>uint(i)&1 == 0))
					}
					for i := 0; i < nb; i++ {
						cs.bases = append(cs.bases, c16Plain(i, 1, mask>>uint(ns+i)&1 == 0))
					}
					for _, g := range perm {
						if g < ns {
							cs.order = append(cs.order, c16Ev{0, g})
						} else {
							cs.order = append(cs.order, c16Ev{1, g - ns})
						}
					}
					c.c16Emit("exhaustive", cs, "gen-exhaustive")
				}
			}
		}
	}
	for m := 1; m <= maxM; m++ {
		exh(m, 0)
	}
	if !thorough {
		exh(5, 40)
	} else {
		exh(6, 60)
	}

	// G2: every outcome kind (file / HTTP / fetcher; five ways to succeed, six ways to fail), random
	// sample sets with shared keys, cancelling and zero values, occasional incompatible sample types
	keys := []string{"a", "b", "c", "shared", "x\"y", "k k"}
	vals := []int64{1, 2, 3, 5, -5, 7, -7, 0, 100, 1 << 40, 9223372036854775807, -9223372036854775808}
	rndSrc := func(i, grp int, pIncompat int) c16Src {
		s := c16Src{typ: "samples"}
		if c.R.P(1, 2) {
			s.kind = c16OKKinds[c.R.Intn(len(c16OKKinds))]
		} else {
			s.kind = c.R.Intn(c16NumKinds)
		}
		if pIncompat > 0 && c.R.P(1, pIncompat) {
			s.typ = "other"
			if c.R.P(1, 3) {
				s.typ = ""
			}
		}
		ns := c.R.Intn(4)
		for j := 0; j < ns; j++ {
			s.samples = append(s.samples, c16KV{PickS(c.R, keys), PickI(c.R, vals)})
		}
		if c.R.P(2, 3) {
			s.samples = append(s.samples, c16KV{fmt.Sprintf("own%d_%d", grp, i), int64(i + 1)})
		}
		if s.typ == "" {
			s.samples = nil
		}
		return s
	}
	for k := 0; k < c.Budget(900, 40000); k++ {
		var cs c16Case
		ns, nb := 1+c.R.Intn(6), 0
		if c.R.P(1, 2) {
			nb = c.R.Intn(4)
		}
		pin := 0
		if c.R.P(1, 6) {
			pin = 3
		}
		for i := 0; i < ns; i++ {
			cs.srcs = append(cs.srcs, rndSrc(i, 0, pin))
		}
		for i := 0; i < nb; i++ {
			cs.bases = append(cs.bases, rndSrc(i, 1, pin))
		}
		cs.order = c16Order(c.R, ns, nb, 0)
		tags := []string{"gen-kinds"}
		if pin > 0 {
			tags = append(tags, "maybe-incompatible")
		}
		c.c16Emit("kinds", cs, tags...)
	}

	// G3: the 128-source chunk boundary.  Failure patterns aimed at the chunk loop's case split:
	// whole chunks failing (first / middle / last), a single success at the boundary indices,
	// everything failing, nothing failing, random halves; keys cancelling across the boundary.
	sizes := []int{127, 128, 129, 255, 256, 257, 300}
	if thorough {
		sizes = append(sizes, 1, 2, 126, 130, 254, 258, 383, 384, 385, 512, 513)
	}
	patterns := []string{"none", "all", "half", "chunk0", "chunk1", "lastchunk", "only0", "only127", "only128", "onlylast", "allbut128", "sparse"}
	reps := c.Budget(1, 6)
	for _, n := range sizes {
		for pi, pat := range patterns {
			// quick tier: every pattern at 129 and 257 (one source past a boundary), a rotating third elsewhere
			if !thorough && n != 129 && n != 257 && (pi+n)%3 != 0 {
				continue
			}
			for rep := 0; rep < reps; rep++ {
				var cs c16Case
				lastStart := (n - 1) / 128 * 128
				for i := 0; i < n; i++ {
					ok := true
					switch pat {
					case "all":
						ok = false
					case "half":
						ok = c.R.Bool()
					case "chunk0":
						ok = i >= 128
					case "chunk1":
						ok = i < 128 || i >= 256
					case "lastchunk":
						ok = i < lastStart
					case "only0":
						ok = i == 0
					case "only127":
						ok = i == 127
					case "only128":
						ok = i == 128
					case "onlylast":
						ok = i == n-1
					case "allbut128":
						ok = i != 128 && i != 127
					case "sparse":
						ok = c.R.P(1, 40)
					}
					s := c16Plain(i, 0, ok)
					if ok && c.R.P(1, 10) { // a key that cancels inside / across chunks
						s.samples = append(s.samples, c16KV{"cancel", []int64{5, -5}[i%2]})
					}
					if !ok && c.R.P(1, 8) {
						s.kind = c16FailKinds[c.R.Intn(len(c16FailKinds))]
					}
					if ok && c.R.P(1, 12) {
						s.kind = c16OKKinds[c.R.Intn(len(c16OKKinds))]
					}
					cs.srcs = append(cs.srcs, s)
				}
				nb := 0
				switch c.R.Intn(4) {
				case 1:
					nb = 1 + c.R.Intn(3)
				case 2:
					nb = 129
				}
				for i := 0; i < nb; i++ {
					cs.bases = append(cs.bases, c16Plain(i, 1, c.R.P(2, 3)))
				}
				cs.order = c16Order(c.R, n, nb, c.R.Intn(3))
				c.c16Emit("boundary", cs, "gen-boundary", "pattern:"+pat)
			}
		}
	}
	// G4: incompatible successes placed on either side of the boundary (error path of the chunk fold)
	for _, n := range []int{3, 129, 257} {
		for _, at := range []int{0, 1, n - 1, 127, 128} {
			if at >= n {
				continue
			}
			var cs c16Case
			for i := 0; i < n; i++ {
				s := c16Plain(i, 0, i%3 != 1)
				if i == at {
					s.kind, s.typ = kFetchOK, "other"
				}
				cs.srcs = append(cs.srcs, s)
			}
			cs.order = c16Order(c.R, n, 0, 0)
			c.c16Emit("incompatible", cs, "gen-incompatible")
		}
	}
	// G5: the same through fetchProfiles (fetch.go:41): the profile pprof goes on to report on is the
	// merged sources minus the merged bases.  Values stay below 2^40 (Scale(-1) goes through float64);
	// no remote kinds (a remote source would make fetchProfiles save a copy under $HOME/pprof).
	localOK := []int{kFetchOK, kFetchTest, kFileOK}
	smallVals := []int64{1, 2, 3, 5, -5, 7, 0, 100, 1 << 39}
	for k := 0; k < c.Budget(400, 15000); k++ {
		cs := c16Case{fetch: true}
		ns, nb := 1+c.R.Intn(5), c.R.Intn(4)
		mk := func(i, grp int) c16Src {
			s := c16Src{typ: "samples"}
			if c.R.P(2, 3) {
				s.kind = localOK[c.R.Intn(len(localOK))]
			} else {
				s.kind = c16FailKinds[c.R.Intn(len(c16FailKinds))]
			}
			if c.R.P(1, 25) {
				s.typ = "other"
			}
			for j := c.R.Intn(4); j > 0; j-- {
				s.samples = append(s.samples, c16KV{PickS(c.R, keys), PickI(c.R, smallVals)})
			}
			s.samples = append(s.samples, c16KV{fmt.Sprintf("own%d_%d", grp, i), int64(i + 1)})
			return s
		}
		for i := 0; i < ns; i++ {
			cs.srcs = append(cs.srcs, mk(i, 0))
		}
		for i := 0; i < nb; i++ {
			cs.bases = append(cs.bases, mk(i, 1))
		}
		cs.order = c16Order(c.R, ns, nb, 0)
		c.c16Emit("fetchprofiles", cs, "gen-fetchprofiles")
	}
	c.c16TransportStreams()
	c.c16E2EStreams()
	c.c16HeaderStreams()
	c.c16DeadlineStreams()
	c.c16NameStreams()
	c.c16Flush()
	c.Extra["controller_stalls"] = c16Stalls
}
