//go:build verif

package main

// C09: the symbolization mode parser (internal/symbolizer/symbolizer.go Symbolize) and the
// demangler-mode switch behind it (demanglerModeToOptions panics on a mode it does not know).

import (
	"strings"
	"time"

	"github.com/google/pprof/internal/plugin"
	"github.com/google/pprof/internal/symbolizer"
	"github.com/google/pprof/profile"
	"github.com/ianlancetaylor/demangle"
)

const c09Mangled = "_Z3fooIiEvT_" // void foo<int>(int)

// c09DemangleLabel names the demangler mode that produced name from c09Mangled (oracle: the
// demangle package itself with the option sets of demanglerModeToOptions).
func c09DemangleLabel(name string) string {
	if name == c09Mangled {
		return "none"
	}
	for _, m := range []struct {
		label string
		opts  []demangle.Option
	}{
		{"default", []demangle.Option{demangle.NoParams, demangle.NoEnclosingParams, demangle.NoTemplateParams}},
		{"templates", []demangle.Option{demangle.NoParams, demangle.NoEnclosingParams}},
		{"full", []demangle.Option{demangle.NoClones}},
	} {
		if demangle.Filter(c09Mangled, m.opts...) == name {
			return m.label
		}
	}
	return "other:" + name
}

var c09SymOpts = []string{"none", "no", "local", "fastlocal", "remote", "force", "demangle=full", "demangle=none", "demangle=templates",
	"demangle=default", "demangle=", "demangle=gnu", "demangle=simple", "demangle=full,templates", "demangle=all", "bogus", "",
	"full", "templates", "default", "demangle", "demangle=demangle=full", "Demangle=Full", "LOCAL", "None", "demangle=None", " local", "local ", "fast", "demangle=x,y"}

func c09SymMode(r *Rng) string {
	if r.P(1, 20) {
		return c09Noisy(r)
	}
	n := 1 + r.Intn(4)
	if r.P(1, 2) {
		n = 1
	}
	var parts []string
	for i := 0; i < n; i++ {
		parts = append(parts, PickS(r, c09SymOpts))
	}
	return strings.Join(parts, ":")
}

// c09SymCase runs Symbolizer.Symbolize(mode) on a one-function profile whose name is mangled.
// observable: [outcome; number of "unrecognized option" messages; demangler mode seen in the name]
func c09SymCase(c *Ctx, gen, mode string) {
	f := &profile.Function{ID: 1, Name: c09Mangled, SystemName: c09Mangled}
	m := &profile.Mapping{ID: 1, Start: 0x1000, Limit: 0x2000}
	l := &profile.Location{ID: 1, Mapping: m, Address: 0x1100, Line: []profile.Line{{Function: f, Line: 1}}}
	p := &profile.Profile{SampleType: []*profile.ValueType{{Type: "samples", Unit: "count"}}, Mapping: []*profile.Mapping{m},
		Function: []*profile.Function{f}, Location: []*profile.Location{l}, Sample: []*profile.Sample{{Location: []*profile.Location{l}, Value: []int64{1}}}}
	ui := &c09SymUI{}
	s := &symbolizer.Symbolizer{Obj: &c09Obj{}, UI: ui, Transport: c09NoNet{}}
	in := L(S("symmode"), S(mode))
	c09Announce(gen, in)
	out := c09Guarded(10*time.Second, func() string { return c09ErrClass(s.Symbolize(mode, plugin.MappingSources{}, p)) })
	obs := L(out)
	if _, isS := out.(tS); isS {
		obs = L(out, ZI(ui.unrecognized), S(c09DemangleLabel(f.Name)))
	}
	c09Emit(c, gen, in, obs, mode != "", "op:symmode")
}

type c09SymUI struct {
	c09UI
	unrecognized int
}

func (u *c09SymUI) PrintErr(args ...interface{}) {
	if len(args) > 0 {
		if s, ok := args[0].(string); ok && strings.HasPrefix(s, "ignoring unrecognized symbolization option") {
			u.unrecognized++
		}
	}
}

// c09Symbolize: the mode parser compared with the model, then command lines through driver.PProf
// with the REAL symbolizer (Options.Sym nil) and -symbolize values from the same grammar.
func c09Symbolize(c *Ctx) {
	r := c.R
	for _, o := range c09SymOpts {
		c09SymCase(c, "symmode-pool", o)
	}
	for _, m := range []string{"local:demangle=simple", "force:demangle=all", "demangle=full,templates", "demangle=gnu", "none:demangle=gnu", "demangle=gnu:none", "::", "local::force", "remote:remote:local"} {
		c09SymCase(c, "symmode-pool", m)
	}
	for k := 0; k < c.Budget(200, 10000); k++ {
		c09SymCase(c, "symmode-grammar", c09SymMode(r))
	}
	cmds := []string{"-top", "-traces", "-raw", "-tree", "-dot", "-tags", "-proto", ""}
	for k := 0; k < c.Budget(150, 6000); k++ {
		p := c09Profile(r, false)
		for _, f := range p.Function {
			if r.P(1, 3) {
				f.SystemName = PickS(r, []string{c09Mangled, "_ZN3foo3barEv", "_Z", "_ZZ", "_R", "main.(*T).f", "<unknown>", "<lambda>", ""})
				if r.Bool() {
					f.Name = f.SystemName
				}
			}
		}
		var args []string
		if cm := PickS(r, cmds); cm != "" {
			args = append(args, cm)
		}
		args = append(args, "-symbolize="+c09SymMode(r))
		if r.P(1, 6) {
			args = append(args, "-buildid="+PickS(r, c09BuildIDs))
		}
		args = append(args, "p")
		c09CLISym(c, "cli-symbolize", p, args, nil, true)
	}
}
