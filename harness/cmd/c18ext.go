//go:build verif

package main

import (
	"strings"

	"github.com/google/pprof/internal/driver"
	"github.com/google/pprof/internal/graph"
	"github.com/google/pprof/internal/report"
	"github.com/google/pprof/profile"
)

// Streams added for shapes the first generators never produced (round 3):
//  * LONG strings (70..400 bytes, dense in quotes and backslashes) in every position: any
//    size-dependent treatment of a name -- abbreviation, truncation, wrapping, hashing -- only
//    shows beyond a threshold no ordinary name reaches;
//  * graphs that MIX nodes with and without an address (and other special subpositions: equal,
//    descending, one apart, differences at the decimal/hex length boundary, 2^63, 2^64-1), many
//    of them single-frame so that the case is outside F11 and the reader gives a failing input;
//  * the pseudo frames of -tagroot / -tagleaf (label values become function names, no mapping,
//    address 0) in both graph outputs.

// c18LongMode makes c18Name / c18Str return long strings half of the time.
var c18LongMode bool

func c18LongStr(r *Rng, meta bool) string {
	target := 90 + r.Intn(200)
	if r.P(1, 4) {
		target = 120 + r.Intn(24) // around 128
	}
	if r.P(1, 8) {
		target = 250 + r.Intn(150)
	}
	var sb strings.Builder
	// dense escapes: every cut point is likely to fall inside an escape pair
	dense := []string{"\"", "\\", "\\\"", "\"\"", "\\\\", "<\"key\">", "::", ".", "(", ")", "T", "ns", "apply", ",", " ", "\xe6\x97\xa5"}
	for sb.Len() < target {
		switch {
		case meta && r.P(1, 2):
			pc := PickS(r, dense)
			sb.WriteString(pc)
		case meta && r.P(1, 6):
			pc := PickS(r, c18Pieces)
			if c18NoNL && strings.Contains(pc, "\n") {
				pc = "\\"
			}
			sb.WriteString(pc)
		default:
			sb.WriteString(PickS(r, c18Plain))
		}
	}
	return sb.String()
}

// special subpositions
var c18AddrPool = []uint64{0, 0, 0, 1, 9, 10, 15, 16, 99, 100, 0xfff, 0x1000, 0x401000, 0x401001, 0x401010, 0x401200, 0x4011ff,
	0x401000 + 99999, 0x401000 + 100000, 1 << 32, 1<<32 - 1, 1 << 40, 1 << 63, 1<<63 - 1, 1<<64 - 1, 1<<64 - 2}

// c18AddrProfile: few functions, locations drawn from the address pool (address 0 = no mapping,
// like a synthesized frame), mostly short stacks.
func c18AddrProfile(r *Rng, meta bool) *profile.Profile {
	p := &profile.Profile{SampleType: []*profile.ValueType{{Type: "cpu", Unit: PickS(r, []string{"ms", "count", "bytes"})}}}
	m := &profile.Mapping{ID: 1, Start: 0, Limit: 1<<64 - 1, File: "/bin/" + c18Str(r, false)}
	p.Mapping = []*profile.Mapping{m}
	nf := 2 + r.Intn(4)
	for i := 0; i < nf; i++ {
		name := c18Name(r, meta) + string(rune('A'+i))
		p.Function = append(p.Function, &profile.Function{ID: uint64(i + 1), Name: name, SystemName: name, Filename: "dir/" + c18Str(r, false) + ".go"})
	}
	nl := 2 + r.Intn(6)
	for i := 0; i < nl; i++ {
		a := c18AddrPool[r.Intn(len(c18AddrPool))]
		if r.P(1, 4) {
			a = 0x401000 + uint64(r.Intn(0x400))
		}
		l := &profile.Location{ID: uint64(i + 1), Address: a}
		if a != 0 || r.P(1, 3) {
			l.Mapping = m
		}
		if !r.P(1, 8) {
			l.Line = []profile.Line{{Function: p.Function[r.Intn(nf)], Line: int64(r.Intn(3) * r.Intn(50))}}
		}
		p.Location = append(p.Location, l)
	}
	ns := 2 + r.Intn(6)
	for i := 0; i < ns; i++ {
		s := &profile.Sample{Value: []int64{int64(1 + 7*i + r.Intn(5) + 40*r.Intn(9))}}
		d := 1
		if r.P(1, 3) {
			d = 2 + r.Intn(2)
		}
		for ; d > 0; d-- {
			s.Location = append(s.Location, p.Location[r.Intn(nl)])
		}
		p.Sample = append(p.Sample, s)
	}
	return p
}

func c18ExtCases(c *Ctx, dotCase func(gen string, g *graph.Graph, a *graph.DotAttributes, cfg *graph.DotConfig, tags ...string)) {
	r := c.R
	grans := []string{"functions", "lines", "files", "addresses", "filefunctions"}

	// ---- long strings
	c18LongMode = true
	for i := 0; i < c.Budget(40, 600); i++ {
		s := c18LongStr(r, true)
		c.Case("esc-long", L(S("esc"), PS(s)), PS(graph.VerifEscapeForDot(s)), true, "op:esc", "long")
	}
	for i := 0; i < c.Budget(45, 800); i++ {
		g, a, cfg := c18SynthGraph(r, true, !r.P(1, 3))
		dotCase("dot-synth-long", g, a, cfg, "long")
	}
	for i := 0; i < c.Budget(20, 800); i++ {
		po := c18POpts{meta: true, fileMeta: r.P(1, 2), unitMeta: r.P(1, 3), diff: r.P(1, 4)}
		p := c18Profile(r, po)
		ro := c18ROpts{callTree: r.P(1, 3), dropNeg: r.P(1, 4), trim: r.P(1, 4), gran: PickS(r, grans), nodeCount: 1 + r.Intn(3)}
		if r.P(1, 2) {
			ro.title = c18Name(r, true)
		}
		g, cfg := report.GetDOT(c18Report(p, report.Dot, ro))
		dotCase("dot-report-long", g, &graph.DotAttributes{}, cfg, "long", "gran:"+ro.gran)
	}
	c18NoNL = true
	for i := 0; i < c.Budget(40, 500); i++ {
		po := c18POpts{meta: true, fileMeta: r.P(1, 2), unitMeta: r.P(1, 6)}
		p := c18Profile(r, po)
		gran := PickS(r, []string{"functions", "lines", "files", "addresses"})
		c18CGCase(c, "cg-report-long", p, c18ROpts{callTree: r.P(1, 4), gran: gran}, "long", "gran:"+gran)
	}
	c18NoNL = false
	c18LongMode = false

	// ---- special subpositions, mixed zero / non-zero addresses
	c18NoNL = true
	for i := 0; i < c.Budget(170, 2500); i++ {
		p := c18AddrProfile(r, r.P(1, 3))
		ro := c18ROpts{gran: "addresses", callTree: r.P(1, 8)}
		tags := []string{"gran:addresses", "mixed-addr"}
		if r.P(1, 3) {
			// a coarse explicit unit: most costs truncate to 0 (zero-cost lines still carry a position)
			ro.unit = map[string]string{"ms": PickS(r, []string{"s", "hours"}), "bytes": PickS(r, []string{"mb", "gb"}), "count": "count"}[p.SampleType[0].Unit]
			tags = append(tags, "coarse-unit")
		}
		c18CGCase(c, "cg-addr", p, ro, tags...)
	}

	// ---- -tagroot / -tagleaf pseudo frames, both graph outputs
	for i := 0; i < c.Budget(36, 1000); i++ {
		meta := r.P(2, 3)
		po := c18POpts{meta: meta, fileMeta: r.P(1, 4), unitMeta: r.P(1, 8)}
		p := c18Profile(r, po)
		keys := []string{"k", "req", "bytes"}
		for _, s := range p.Sample { // whatever keys the generator used
			for k := range s.Label {
				found := false
				for _, q := range keys {
					found = found || q == k
				}
				if !found {
					keys = append(keys, k)
				}
			}
		}
		// (map iteration above only decides membership; the order of keys is fixed by sorting)
		c18SortStrings(keys)
		var rootKeys, leafKeys []string
		for _, k := range keys {
			switch r.Intn(3) {
			case 0:
				rootKeys = append(rootKeys, k)
			case 1:
				leafKeys = append(leafKeys, k)
			}
		}
		if len(rootKeys)+len(leafKeys) == 0 {
			leafKeys = []string{"k"}
		}
		unit := p.SampleType[len(p.SampleType)-1].Unit
		driver.VerifAddLabelNodes(p, rootKeys, leafKeys, unit)
		gran := PickS(r, []string{"functions", "addresses", "lines", "files"})
		if r.Bool() {
			ro := c18ROpts{callTree: r.P(1, 3), gran: gran}
			g, cfg := report.GetDOT(c18Report(p.Copy(), report.Dot, ro))
			dotCase("dot-tagroot", g, &graph.DotAttributes{}, cfg, "tagroot", "gran:"+gran)
		} else {
			c18CGCase(c, "cg-tagroot", p, c18ROpts{gran: gran, callTree: r.P(1, 6)}, "tagroot", "gran:"+gran)
		}
	}
	c18NoNL = false
}

func c18SortStrings(l []string) {
	for i := 1; i < len(l); i++ {
		for j := i; j > 0 && l[j] < l[j-1]; j-- {
			l[j], l[j-1] = l[j-1], l[j]
		}
	}
}
