//go:build verif

package main

import (
	"fmt"
	"strings"

	"github.com/google/pprof/internal/binutils"
)

// C13 op a2lnm: addr2Liner.addrInfo with the nm fix-up attached.
//   a2lnm base syms(link addresses) hasNM addr(runtime) stack(names addr2line answers) ↦ Func of the frames
// The nm table is built with the file's base (as fileAddr2Line.init does), so it is keyed by RUNTIME
// addresses; the fix-up must consult it with the runtime address. Tables are contiguous text
// (function sizes 0x10..0x800) so that an address off by `base` lands in a different symbol for
// small and page-sized bases and outside the table for large ones.

func c13A2LNM(c *Ctx, gen string, base uint64, syms []c13Sym, hasNM bool, addr uint64, stack []string, tags ...string) {
	var st []Term
	var sb strings.Builder
	for _, s := range syms {
		fmt.Fprintf(&sb, "%s %s %x %x\n", s.name, s.typ, s.addr, s.size)
		st = append(st, L(ZU(s.addr), ZU(s.size), S(s.name), S(s.typ)))
	}
	in := L(S("a2lnm"), ZU(base), L(st...), Bool(hasNM), ZU(addr), Ss(stack))
	replaced := "same"
	obs := c13Guard(func() Term {
		funcs, err := binutils.VerifC13A2LWithNM(base, sb.String(), hasNM, addr, stack)
		if err != nil {
			return L(S("err"), S(err.Error()))
		}
		if len(funcs) == len(stack) && len(stack) > 0 && funcs[len(funcs)-1] != stack[len(stack)-1] {
			replaced = "replaced"
		}
		return Ss(funcs)
	})
	c.Case(gen, in, obs, hasNM && base != 0 && len(syms) > 1 && len(stack) > 0, append([]string{"op:a2lnm", "a2l:" + replaced}, tags...)...)
}

var c13MangledStems = []string{"_ZN3foo3barEv", "_ZN4base8internal9SpinLock4LockEv", "_ZNSt6vectorIiSaIiEE9push_backERKi", "main", "_start",
	"runtime.mallocgc", "_ZN5abslL10RawLogVAEPKc", "f", "go", "_Z1gv", "tcmalloc::CentralFreeList::Populate()"}

func c13A2LNMCases(c *Ctx, n int) {
	r := c.R
	for k := 0; k < n; k++ {
		ns := 2 + r.Intn(22)
		link := []uint64{0x1000, 0x401000, 0x100, 0x2540}[r.Intn(4)]
		var syms []c13Sym
		for i := 0; i < ns; i++ {
			size := []uint64{0x10, 0x20, 0x40, 0x100, 0x230, 0x800}[r.Intn(6)]
			name := fmt.Sprintf("%s.%d", c13MangledStems[r.Intn(len(c13MangledStems))], i)
			typ := "T"
			switch r.Intn(12) {
			case 0:
				typ = "t"
			case 1:
				typ = "W"
			case 2:
				typ = "D"
			}
			syms = append(syms, c13Sym{link, size, name, typ})
			if !r.P(1, 10) { // 1/10: the next symbol aliases this start
				link += size
				if r.P(1, 8) {
					link += 0x10 // alignment gap
				}
			}
		}
		textEnd := syms[ns-1].addr + syms[ns-1].size
		textSize := textEnd - syms[0].addr
		var base uint64
		bk := ""
		switch r.Intn(8) {
		case 0:
			base, bk = 0, "zero"
		case 1, 2:
			base, bk = []uint64{0x10, 0x20, 0x40, 0x100, 0x230}[r.Intn(5)], "small"
		case 3, 4:
			base, bk = uint64(1+r.Intn(4))*c13Page, "page"
		case 5:
			base, bk = 1+r.U64()%textSize, "below-text-size"
		case 6:
			base, bk = 0x555555554000, "large"
		default:
			base, bk = 0x7f0000000000+uint64(r.Intn(1<<20))*c13Page, "large"
		}
		// the runtime address: inside a chosen symbol (start, end-1, middle), sometimes at the table edges
		si := r.Intn(ns)
		s := syms[si]
		addr := base + s.addr + []uint64{0, s.size - 1, s.size / 2, uint64(r.Intn(int(s.size)))}[r.Intn(4)]
		if r.P(1, 15) {
			addr = base + []uint64{syms[0].addr - 1, textEnd, textEnd + 0x1000}[r.Intn(3)]
		}
		// what addr2line answers for the non-inlined frame: the true name truncated (binutils bug
		// 17541), the full name, or something unrelated
		full := s.name
		var last string
		switch r.Intn(8) {
		case 0:
			last = full
		case 1:
			last = full[:len(full)-1]
		case 2:
			last = ""
		case 3:
			last = "unrelated_function_name_that_is_quite_long_indeed"
		default:
			cut := 2 + r.Intn(6)
			if cut > len(full) {
				cut = len(full)
			}
			last = full[:len(full)-cut]
		}
		var stack []string
		for x := r.Intn(3); x > 0; x-- {
			stack = append(stack, fmt.Sprintf("inlined%d", x))
		}
		stack = append(stack, last)
		if r.P(1, 25) {
			stack = nil // addr2line answered no frame
		}
		hasNM := !r.P(1, 12)
		c13A2LNM(c, "a2lnm", base, syms, hasNM, addr, stack, "base:"+bk)
	}
	// fixed example: base 0x100, runtime 0x1250 lies in bar (link 0x1100), baz is 0x100 lower
	ex := []c13Sym{{0x1000, 0x100, "_ZN3foo3bazEv", "T"}, {0x1100, 0x100, "_ZN3foo3barEv", "T"}}
	c13A2LNM(c, "a2lnm-example", 0x100, ex, true, 0x1250, []string{"inl", "_ZN3foo"}, "base:small")
}
