//go:build verif

package main

// Translators of the C08 check.  Both read /repo's CURRENT Go source at run time with the
// standard library only (go/parser, go/ast, go/token) and emit Gallina DATA:
//
//	cmpscan  -> Gen/Gen_Comparators.v  the Less functions of the output paths as comparator chains,
//	                                   plus every sort.* call site of the scanned packages
//	maprange -> Gen/Gen_MapRange.v     every `range` whose operand is (or may be) a map
//
// Both fail closed: a syntactic shape that is not understood makes the translator exit non-zero
// (cmpscan) or is emitted as an `unknown` site that the committed table must classify (maprange).

import (
	"fmt"
	"go/ast"
	"go/parser"
	"go/token"
	"os"
	"path/filepath"
	"sort"
	"strings"
)

func init() {
	subcmds["cmpscan"] = cmpscanMain
	subcmds["maprange"] = maprangeMain
}

func repoRoot() string {
	if r := os.Getenv("VERIF_REPO"); r != "" {
		return r
	}
	return "/repo"
}

// packages on the output path (property C08 anchors + what they call for formatting)
var c08Pkgs = []string{"profile", "internal/graph", "internal/report", "internal/driver", "internal/measurement"}

func c08CoqStr(s string) string { return Render(S(s))[3:] }

func die(format string, a ...interface{}) {
	fmt.Fprintf(os.Stderr, format+"\n", a...)
	os.Exit(3)
}

func parseDir(fset *token.FileSet, dir string) []*ast.File {
	ents, err := os.ReadDir(dir)
	if err != nil {
		die("cannot read %s: %v", dir, err)
	}
	var fs []*ast.File
	for _, e := range ents {
		n := e.Name()
		if e.IsDir() || !strings.HasSuffix(n, ".go") || strings.HasSuffix(n, "_test.go") || strings.HasPrefix(n, "zz_verif") {
			continue
		}
		f, err := parser.ParseFile(fset, filepath.Join(dir, n), nil, parser.SkipObjectResolution)
		if err != nil {
			die("cannot parse %s: %v", n, err)
		}
		fs = append(fs, f)
	}
	return fs
}

// ------------------------------------------------------------------------------------ cmpscan

type cstep struct {
	guard, decide string
	desc          bool
}

type cscan struct {
	// the two element expressions of the comparator being read, as printed text
	left, right string
	env         map[string]ast.Expr // local definitions and substitutions (ident -> expr)
	scoreExpr   ast.Expr            // score[n] = scoreExpr (n bound through env)
	chains      map[string][]cstep  // already translated chains that may be tail-called
	flagField   string              // receiver flag tested by `if !recv.flag {..}`, "" if none
	flagValue   bool
}

func exprText(e ast.Expr) string {
	switch x := e.(type) {
	case *ast.Ident:
		return x.Name
	case *ast.SelectorExpr:
		return exprText(x.X) + "." + x.Sel.Name
	case *ast.IndexExpr:
		return exprText(x.X) + "[" + exprText(x.Index) + "]"
	case *ast.CallExpr:
		var as []string
		for _, a := range x.Args {
			as = append(as, exprText(a))
		}
		return exprText(x.Fun) + "(" + strings.Join(as, ", ") + ")"
	case *ast.BasicLit:
		return x.Value
	case *ast.UnaryExpr:
		return x.Op.String() + exprText(x.X)
	case *ast.BinaryExpr:
		return exprText(x.X) + " " + x.Op.String() + " " + exprText(x.Y)
	case *ast.ParenExpr:
		return "(" + exprText(x.X) + ")"
	case *ast.StarExpr:
		return "*" + exprText(x.X)
	case *ast.ArrayType:
		return "[]" + exprText(x.Elt)
	case *ast.MapType:
		return "map[" + exprText(x.Key) + "]" + exprText(x.Value)
	case *ast.CompositeLit:
		if x.Type != nil {
			return exprText(x.Type) + "{..}"
		}
		return "{..}"
	case *ast.FuncLit:
		return "func(..)"
	case *ast.SliceExpr:
		return exprText(x.X) + "[:]"
	case *ast.TypeAssertExpr:
		return exprText(x.X) + ".(type)"
	case *ast.KeyValueExpr:
		return exprText(x.Key) + ": " + exprText(x.Value)
	case *ast.InterfaceType:
		return "interface{}"
	case *ast.FuncType:
		return "func"
	case *ast.StructType:
		return "struct{}"
	case *ast.Ellipsis:
		return "..." + exprText(x.Elt)
	case *ast.ChanType:
		return "chan " + exprText(x.Value)
	case nil:
		return ""
	}
	return fmt.Sprintf("<%T>", e)
}

// canon renders a key expression with the element expression replaced by nothing and reports
// which element(s) it mentions: bit 1 = left, bit 2 = right.
func (c *cscan) canon(e ast.Expr, depth int) (string, int, error) {
	if depth > 20 {
		return "", 0, fmt.Errorf("definition cycle")
	}
	if t := exprText(e); t == c.left {
		return "", 1, nil
	} else if t == c.right {
		return "", 2, nil
	}
	switch x := e.(type) {
	case *ast.Ident:
		if d, ok := c.env[x.Name]; ok {
			return c.canon(d, depth+1)
		}
		return x.Name, 0, nil
	case *ast.SelectorExpr:
		t, s, err := c.canon(x.X, depth)
		return t + "." + x.Sel.Name, s, err
	case *ast.IndexExpr:
		if id, ok := x.X.(*ast.Ident); ok && id.Name == "score" && c.scoreExpr != nil {
			old, had := c.env["n"]
			c.env["n"] = x.Index
			t, s, err := c.canon(c.scoreExpr, depth+1)
			if had {
				c.env["n"] = old
			} else {
				delete(c.env, "n")
			}
			return t, s, err
		}
		return "", 0, fmt.Errorf("unsupported index expression %s", exprText(e))
	case *ast.CallExpr:
		ft, fs, err := c.canon(x.Fun, depth)
		if err != nil {
			return "", 0, err
		}
		var as []string
		for _, a := range x.Args {
			t, s, err := c.canon(a, depth)
			if err != nil {
				return "", 0, err
			}
			fs |= s
			as = append(as, t)
		}
		return ft + "(" + strings.Join(as, ", ") + ")", fs, nil
	case *ast.ParenExpr:
		return c.canon(x.X, depth)
	}
	return "", 0, fmt.Errorf("unsupported key expression %s", exprText(e))
}

// cmpPair reads `A op B` where A mentions one element and B the other with the same key text.
// It returns the key and whether the operands are in (left, right) order.
func (c *cscan) cmpPair(a, b ast.Expr) (key string, lr bool, err error) {
	ta, sa, err := c.canon(a, 0)
	if err != nil {
		return "", false, err
	}
	tb, sb, err := c.canon(b, 0)
	if err != nil {
		return "", false, err
	}
	if ta != tb {
		return "", false, fmt.Errorf("the two sides compute different keys: %q vs %q", ta, tb)
	}
	switch {
	case sa == 1 && sb == 2:
		return ta, true, nil
	case sa == 2 && sb == 1:
		return ta, false, nil
	}
	return "", false, fmt.Errorf("operands %s / %s do not mention exactly one element each", exprText(a), exprText(b))
}

func (c *cscan) retStep(r *ast.ReturnStmt) (key string, desc bool, err error) {
	if len(r.Results) != 1 {
		return "", false, fmt.Errorf("return with %d results", len(r.Results))
	}
	be, ok := r.Results[0].(*ast.BinaryExpr)
	if !ok || (be.Op != token.LSS && be.Op != token.GTR) {
		return "", false, fmt.Errorf("return is not `a < b` / `a > b`: %s", exprText(r.Results[0]))
	}
	k, lr, err := c.cmpPair(be.X, be.Y)
	if err != nil {
		return "", false, err
	}
	desc = be.Op == token.GTR
	if !lr {
		desc = !desc
	}
	return k, desc, nil
}

func (c *cscan) block(stmts []ast.Stmt) ([]cstep, error) {
	var out []cstep
	for i, st := range stmts {
		last := i == len(stmts)-1
		switch s := st.(type) {
		case *ast.AssignStmt:
			if s.Tok != token.DEFINE || len(s.Lhs) != len(s.Rhs) {
				return nil, fmt.Errorf("unsupported assignment %s", exprText(s.Lhs[0]))
			}
			for k := range s.Lhs {
				id, ok := s.Lhs[k].(*ast.Ident)
				if !ok {
					return nil, fmt.Errorf("unsupported assignment target")
				}
				c.env[id.Name] = s.Rhs[k]
			}
		case *ast.IfStmt:
			if s.Else != nil {
				return nil, fmt.Errorf("if with else")
			}
			// `if recv.flag { steps }`
			if sel, ok := s.Cond.(*ast.SelectorExpr); ok && s.Init == nil && c.flagField != "" && sel.Sel.Name == c.flagField {
				if c.flagValue {
					inner, err := c.block(s.Body.List)
					if err != nil {
						return nil, err
					}
					out = append(out, inner...)
				}
				continue
			}
			// `if !recv.flag { steps }`
			if u, ok := s.Cond.(*ast.UnaryExpr); ok && s.Init == nil && u.Op == token.NOT {
				if sel, ok := u.X.(*ast.SelectorExpr); ok && c.flagField != "" && sel.Sel.Name == c.flagField {
					if !c.flagValue {
						inner, err := c.block(s.Body.List)
						if err != nil {
							return nil, err
						}
						out = append(out, inner...)
					}
					continue
				}
				return nil, fmt.Errorf("unsupported condition %s", exprText(s.Cond))
			}
			if s.Init != nil {
				as, ok := s.Init.(*ast.AssignStmt)
				if !ok || as.Tok != token.DEFINE || len(as.Lhs) != len(as.Rhs) {
					return nil, fmt.Errorf("unsupported if-init")
				}
				for k := range as.Lhs {
					c.env[as.Lhs[k].(*ast.Ident).Name] = as.Rhs[k]
				}
			}
			be, ok := s.Cond.(*ast.BinaryExpr)
			if !ok || be.Op != token.NEQ {
				return nil, fmt.Errorf("guard is not `a != b`: %s", exprText(s.Cond))
			}
			g, _, err := c.cmpPair(be.X, be.Y)
			if err != nil {
				return nil, fmt.Errorf("guard: %v", err)
			}
			if len(s.Body.List) != 1 {
				return nil, fmt.Errorf("guarded block is not a single return")
			}
			r, ok := s.Body.List[0].(*ast.ReturnStmt)
			if !ok {
				return nil, fmt.Errorf("guarded block is not a return")
			}
			d, desc, err := c.retStep(r)
			if err != nil {
				return nil, err
			}
			out = append(out, cstep{g, d, desc})
		case *ast.ReturnStmt:
			if !last {
				return nil, fmt.Errorf("return before the end of the block")
			}
			// tail call to another chain with the elements in order
			if len(s.Results) == 1 {
				if call, ok := s.Results[0].(*ast.CallExpr); ok {
					if fn, ok := call.Fun.(*ast.Ident); ok && len(call.Args) == 2 {
						if sub, ok := c.chains[fn.Name]; ok {
							_, s1, e1 := c.canon(call.Args[0], 0)
							_, s2, e2 := c.canon(call.Args[1], 0)
							if e1 != nil || e2 != nil || s1 != 1 || s2 != 2 {
								return nil, fmt.Errorf("tail call %s does not pass (left, right)", exprText(call))
							}
							out = append(out, sub...)
							continue
						}
					}
				}
			}
			if len(s.Results) == 1 && exprText(s.Results[0]) == "false" {
				continue // the chain simply ends
			}
			k, desc, err := c.retStep(s)
			if err != nil {
				return nil, err
			}
			out = append(out, cstep{k, k, desc})
		default:
			return nil, fmt.Errorf("unsupported statement %T", st)
		}
	}
	return out, nil
}

type namedChain struct {
	name, carrier string
	steps         []cstep
}

func cmpscanMain(args []string) {
	root := repoRoot()
	fset := token.NewFileSet()
	gfile := filepath.Join(root, "internal/graph/graph.go")
	f, err := parser.ParseFile(fset, gfile, nil, parser.SkipObjectResolution)
	if err != nil {
		die("cmpscan: %v", err)
	}
	var chains []namedChain
	done := map[string][]cstep{}
	funcs := map[string]*ast.FuncDecl{}
	for _, d := range f.Decls {
		if fd, ok := d.(*ast.FuncDecl); ok {
			name := fd.Name.Name
			if fd.Recv != nil && len(fd.Recv.List) == 1 {
				name = exprText(fd.Recv.List[0].Type) + "." + name
			}
			funcs[name] = fd
		}
	}
	need := func(n string) *ast.FuncDecl {
		fd := funcs[n]
		if fd == nil || fd.Body == nil {
			die("cmpscan: function %s not found in %s", n, gfile)
		}
		return fd
	}
	params := func(ft *ast.FuncType) []string {
		var ps []string
		for _, p := range ft.Params.List {
			for _, n := range p.Names {
				ps = append(ps, n.Name)
			}
		}
		return ps
	}

	// compareNodes(l, r *Node) bool
	{
		fd := need("compareNodes")
		ps := params(fd.Type)
		if len(ps) != 2 {
			die("cmpscan: compareNodes does not take two parameters")
		}
		c := &cscan{left: ps[0], right: ps[1], env: map[string]ast.Expr{}, chains: done}
		st, err := c.block(fd.Body.List)
		if err != nil {
			die("cmpscan: compareNodes: %v", err)
		}
		done["compareNodes"] = st
		chains = append(chains, namedChain{"compareNodes", "CNode", st})
	}

	// Nodes.Sort: one closure per NodeOrder
	{
		fd := need("Nodes.Sort")
		var sw *ast.SwitchStmt
		for _, st := range fd.Body.List {
			if s, ok := st.(*ast.SwitchStmt); ok {
				sw = s
			}
		}
		if sw == nil {
			die("cmpscan: Nodes.Sort has no switch")
		}
		sorterClosure := func(st ast.Stmt, locals map[string]*ast.FuncLit) *ast.FuncLit {
			as, ok := st.(*ast.AssignStmt)
			if !ok || len(as.Lhs) != 1 || exprText(as.Lhs[0]) != "s" {
				return nil
			}
			cl, ok := as.Rhs[0].(*ast.CompositeLit)
			if !ok || exprText(cl.Type) != "nodeSorter" || len(cl.Elts) != 2 {
				return nil
			}
			switch x := cl.Elts[1].(type) {
			case *ast.FuncLit:
				return x
			case *ast.Ident:
				return locals[x.Name]
			}
			return nil
		}
		emit := func(name string, fl *ast.FuncLit, score ast.Expr) {
			ps := params(fl.Type)
			if len(ps) != 2 {
				die("cmpscan: closure of %s does not take two parameters", name)
			}
			c := &cscan{left: ps[0], right: ps[1], env: map[string]ast.Expr{}, chains: done, scoreExpr: score}
			st, err := c.block(fl.Body.List)
			if err != nil {
				die("cmpscan: Nodes.Sort/%s: %v", name, err)
			}
			chains = append(chains, namedChain{name, "CNode", st})
		}
		for _, cc := range sw.Body.List {
			cl := cc.(*ast.CaseClause)
			if cl.List == nil {
				continue // default: error return
			}
			var names []string
			for _, e := range cl.List {
				names = append(names, exprText(e))
			}
			locals := map[string]*ast.FuncLit{}
			var direct *ast.FuncLit
			var inner *ast.SwitchStmt
			for _, st := range cl.Body {
				switch s := st.(type) {
				case *ast.AssignStmt:
					if fl := sorterClosure(s, locals); fl != nil {
						direct = fl
					} else if s.Tok == token.DEFINE && len(s.Lhs) == 1 && len(s.Rhs) == 1 {
						if fl, ok := s.Rhs[0].(*ast.FuncLit); ok {
							locals[exprText(s.Lhs[0])] = fl
						} else {
							die("cmpscan: Nodes.Sort case %v: unsupported statement", names)
						}
					} else {
						die("cmpscan: Nodes.Sort case %v: unsupported assignment", names)
					}
				case *ast.DeclStmt: // var score map[*Node]int64
				case *ast.SwitchStmt:
					inner = s
				default:
					die("cmpscan: Nodes.Sort case %v: unsupported statement %T", names, st)
				}
			}
			if direct != nil && inner == nil {
				for _, n := range names {
					emit(n, direct, nil)
				}
				continue
			}
			if inner == nil {
				die("cmpscan: Nodes.Sort case %v: no comparator found", names)
			}
			seen := map[string]bool{}
			for _, icc := range inner.Body.List {
				icl := icc.(*ast.CaseClause)
				var fl *ast.FuncLit
				var score ast.Expr
				for _, st := range icl.Body {
					if f := sorterClosure(st, locals); f != nil {
						fl = f
					}
					ast.Inspect(st, func(n ast.Node) bool {
						if as, ok := n.(*ast.AssignStmt); ok && len(as.Lhs) == 1 && as.Tok == token.ASSIGN {
							if ix, ok := as.Lhs[0].(*ast.IndexExpr); ok && exprText(ix.X) == "score" && exprText(ix.Index) == "n" {
								score = as.Rhs[0]
							}
						}
						return true
					})
				}
				if fl == nil || score == nil {
					die("cmpscan: Nodes.Sort case %v: inner case without comparator/score", names)
				}
				for _, e := range icl.List {
					emit(exprText(e), fl, score)
					seen[exprText(e)] = true
				}
			}
			for _, n := range names {
				if !seen[n] {
					die("cmpscan: Nodes.Sort: order %s has no comparator", n)
				}
			}
		}
	}

	// edgeList.Less(i, j int)
	{
		fd := need("edgeList.Less")
		ps := params(fd.Type)
		rv := fd.Recv.List[0].Names[0].Name
		c := &cscan{left: rv + "[" + ps[0] + "]", right: rv + "[" + ps[1] + "]", env: map[string]ast.Expr{}, chains: done}
		st, err := c.block(fd.Body.List)
		if err != nil {
			die("cmpscan: edgeList.Less: %v", err)
		}
		chains = append(chains, namedChain{"edgeList.Less", "CEdge", st})
	}
	// tags.Less(i, j int), once per value of the flat flag
	{
		fd := need("tags.Less")
		ps := params(fd.Type)
		rv := fd.Recv.List[0].Names[0].Name
		for _, flat := range []bool{true, false} {
			c := &cscan{left: rv + ".t[" + ps[0] + "]", right: rv + ".t[" + ps[1] + "]", env: map[string]ast.Expr{}, chains: done,
				flagField: "flat", flagValue: flat}
			st, err := c.block(fd.Body.List)
			if err != nil {
				die("cmpscan: tags.Less: %v", err)
			}
			name := "tags.Less/flat"
			if !flat {
				name = "tags.Less/cum"
			}
			chains = append(chains, namedChain{name, "CTag", st})
		}
	}

	// every sort.* call site of the scanned packages
	type site struct{ file, fn, call string }
	var sites []site
	var reps []c08RepSite
	for _, pkg := range c08Pkgs {
		for _, pf := range parseDir(fset, filepath.Join(root, pkg)) {
			fname := filepath.Join(pkg, filepath.Base(fset.Position(pf.Pos()).Filename))
			for _, d := range pf.Decls {
				fd, ok := d.(*ast.FuncDecl)
				if !ok || fd.Body == nil {
					continue
				}
				fn := fd.Name.Name
				if fd.Recv != nil && len(fd.Recv.List) == 1 {
					fn = strings.TrimPrefix(exprText(fd.Recv.List[0].Type), "*") + "." + fn
				}
				for _, rs := range c08RepSorts(fd) {
					reps = append(reps, c08RepSite{fname, fn, rs.slice, rs.order, rs.kind})
				}
				ast.Inspect(fd.Body, func(n ast.Node) bool {
					if call, ok := n.(*ast.CallExpr); ok {
						if sel, ok := call.Fun.(*ast.SelectorExpr); ok && (exprText(sel.X) == "sort" || exprText(sel.X) == "slices") {
							sites = append(sites, site{fname, fn, exprText(call)})
						} else if n := lastName(call.Fun); n == "Sort" || n == "SortTags" || n == "SortNodes" || n == "sortedKeys1" || n == "sortedKeys2" {
							sites = append(sites, site{fname, fn, exprText(call)})
						}
					}
					return true
				})
			}
		}
	}
	sort.Slice(sites, func(i, j int) bool {
		a, b := sites[i], sites[j]
		if a.file != b.file {
			return a.file < b.file
		}
		if a.fn != b.fn {
			return a.fn < b.fn
		}
		return a.call < b.call
	})

	var sb strings.Builder
	sb.WriteString("(* GENERATED by `harness cmpscan` from /repo/internal/graph/graph.go (comparators) and the sort.* call\n   sites of profile, internal/{graph,report,driver,measurement} on every run; do not edit. *)\n")
	sb.WriteString("From PV Require Import M_Order.\nOpen Scope string_scope.\n\n")
	sb.WriteString("Definition comparators : list (string * carrier * chain) := [\n")
	for i, ch := range chains {
		if i > 0 {
			sb.WriteString(";\n")
		}
		fmt.Fprintf(&sb, "  (%s, %s, [", c08CoqStr(ch.name), ch.carrier)
		for j, s := range ch.steps {
			if j > 0 {
				sb.WriteString(";\n     ")
			}
			d := "Asc"
			if s.desc {
				d = "Desc"
			}
			fmt.Fprintf(&sb, "{| guard := %s; decide := %s; sdir := %s |}", c08CoqStr(s.guard), c08CoqStr(s.decide), d)
		}
		sb.WriteString("])")
	}
	sb.WriteString("].\n\nDefinition sort_sites : list (string * string * string) := [\n")
	for i, s := range sites {
		if i > 0 {
			sb.WriteString(";\n")
		}
		fmt.Fprintf(&sb, "  (%s, %s, %s)", c08CoqStr(s.file), c08CoqStr(s.fn), c08CoqStr(s.call))
	}
	sb.WriteString("].\n\n")
	// node-order sorts of slices: how the sorted slice was filled (see c08RepSorts)
	sort.Slice(reps, func(i, j int) bool {
		a, b := reps[i], reps[j]
		if a.file != b.file {
			return a.file < b.file
		}
		if a.fn != b.fn {
			return a.fn < b.fn
		}
		if a.slice != b.slice {
			return a.slice < b.slice
		}
		return a.order < b.order
	})
	sb.WriteString("Definition rep_sort_sites : list (string * string * string * string * string) := [\n")
	for i, s := range reps {
		if i > 0 {
			sb.WriteString(";\n")
		}
		fmt.Fprintf(&sb, "  (%s, %s, %s, %s, %s)", c08CoqStr(s.file), c08CoqStr(s.fn), c08CoqStr(s.slice), c08CoqStr(s.order), c08CoqStr(s.kind))
	}
	sb.WriteString("].\n")
	writeOut(args, sb.String())
}

// c08RepSite: a call `X.Sort(<NodeOrder>)` and how X was filled.
type c08RepSite struct{ file, fn, slice, order, kind string }

// c08RepSorts finds the node-order sorts of a function and classifies the sorted slice:
//
//	"rep:<key>"  X receives ONE node per group -- `if M[K] == nil { X = append(X, n) }` or
//	             `if !M[K] { ... }` -- the first node of the group in iteration order (which may be map
//	             order); <key> is K with the node variable removed (".Info.File").  The order of the
//	             groups is then well defined only if the comparator separates two groups on <key> alone.
//	"all"        X receives every node of a loop (possibly filtered by `continue`): a plain collection.
//	"given"      X is not filled in this function (parameter, field, result of a call).
//	"cond:<c>"   X is filled under some other condition: not understood, must be classified by hand.
func c08RepSorts(fd *ast.FuncDecl) []c08RepSite {
	var out []c08RepSite
	ast.Inspect(fd.Body, func(n ast.Node) bool {
		call, ok := n.(*ast.CallExpr)
		if !ok || len(call.Args) != 1 {
			return true
		}
		sel, ok := call.Fun.(*ast.SelectorExpr)
		if !ok || sel.Sel.Name != "Sort" || !strings.HasSuffix(lastName(call.Args[0]), "Order") {
			return true
		}
		x := exprText(sel.X)
		kind := "given"
		if _, isIdent := sel.X.(*ast.Ident); isIdent {
			kinds := map[string]bool{}
			var walk func(n ast.Node, cond ast.Expr)
			walk = func(n ast.Node, cond ast.Expr) {
				switch s := n.(type) {
				case *ast.IfStmt:
					if s.Init != nil {
						walk(s.Init, cond)
					}
					walk(s.Body, s.Cond)
					if s.Else != nil {
						walk(s.Else, &ast.UnaryExpr{Op: token.NOT, X: &ast.ParenExpr{X: s.Cond}})
					}
					return
				case *ast.ForStmt:
					walk(s.Body, nil)
					return
				case *ast.RangeStmt:
					walk(s.Body, nil)
					return
				case *ast.FuncLit:
					walk(s.Body, nil)
					return
				case *ast.BlockStmt:
					for _, st := range s.List {
						walk(st, cond)
					}
					return
				case *ast.SwitchStmt, *ast.TypeSwitchStmt, *ast.SelectStmt, *ast.CaseClause, *ast.CommClause, *ast.LabeledStmt:
					ast.Inspect(s, func(m ast.Node) bool {
						if as, ok := m.(*ast.AssignStmt); ok && m != n {
							walk(as, ast.NewIdent("switch"))
							return false
						}
						return true
					})
					return
				case *ast.AssignStmt:
					if len(s.Lhs) != 1 || len(s.Rhs) != 1 || exprText(s.Lhs[0]) != x {
						return
					}
					ap, ok := s.Rhs[0].(*ast.CallExpr)
					if !ok || exprText(ap.Fun) != "append" || len(ap.Args) < 2 || exprText(ap.Args[0]) != x {
						if s.Tok == token.DEFINE || exprText(s.Rhs[0]) == "nil" {
							return // declaration / reset
						}
						kinds["cond:assigned from "+exprText(s.Rhs[0])] = true
						return
					}
					if cond == nil {
						kinds["all"] = true
						return
					}
					elem := exprText(ap.Args[1])
					var idx *ast.IndexExpr
					switch c := cond.(type) {
					case *ast.BinaryExpr:
						if c.Op == token.EQL && exprText(c.Y) == "nil" {
							idx, _ = c.X.(*ast.IndexExpr)
						}
					case *ast.UnaryExpr:
						if c.Op == token.NOT {
							idx, _ = c.X.(*ast.IndexExpr)
						}
					}
					if idx != nil && len(ap.Args) == 2 && strings.HasPrefix(exprText(idx.Index), elem+".") {
						kinds["rep:"+strings.TrimPrefix(exprText(idx.Index), elem)] = true
					} else {
						kinds["cond:"+exprText(cond)] = true
					}
				}
			}
			walk(fd.Body, nil)
			if len(kinds) == 1 {
				for k := range kinds {
					kind = k
				}
			} else if len(kinds) > 1 {
				var ks []string
				for k := range kinds {
					ks = append(ks, k)
				}
				sort.Strings(ks)
				kind = "cond:mixed " + strings.Join(ks, " | ")
			}
		}
		out = append(out, c08RepSite{slice: x, order: lastName(call.Args[0]), kind: kind})
		return true
	})
	return out
}

func writeOut(args []string, s string) {
	if len(args) > 0 {
		if err := os.WriteFile(args[0], []byte(s), 0o644); err != nil {
			die("%v", err)
		}
	} else {
		fmt.Print(s)
	}
}
