//go:build verif

package main

import (
	"errors"
	"fmt"
	"html"
	"net/url"
	"os"
	"regexp"
	"strings"

	"github.com/google/pprof/internal/driver"
	"github.com/google/pprof/internal/plugin"
	"github.com/google/pprof/profile"
)

// END-TO-END LAYER of C19: settings histories pushed through the real entry point. pprof is started
// with driver.PProf and a real flag set (`pprof <option flags> -http=... p`): the option state that
// a save stores comes from parseFlags (M_Flags.apply_flags), the settings file is found through
// $XDG_CONFIG_HOME, and every request goes to the handlers serveWebInterface registers
// (/saveconfig, /deleteconfig with the name url-encoded as the page script does it; the Config menu
// is read back from the HTML of a served /top page). Judged by the same model (M_Settings) and the
// same checkers (save_ok, delete_ok, menu_ok) as the direct streams.

var c19MenuRE = regexp.MustCompile(`(?s)<a href="([^"]*)">\s*(<span class="menu-check-mark">[^<]*</span>)?\s*(.*?)\s*(<span class="menu-delete-btn" data-config=("[^"]*"|[^>]*)>[^<]*</span>)?\s*</a>`)

// c19ParseMenu reads the Config menu back from a served page: (name, link query, current, user).
func c19ParseMenu(body string) Term {
	i := strings.Index(body, `id="save-config"`)
	if i < 0 {
		return L(S("no-menu"))
	}
	sub := body[i:]
	if j := strings.Index(sub, "</div>"); j >= 0 {
		sub = sub[:j]
	}
	l := []Term{}
	for _, m := range c19MenuRE.FindAllStringSubmatch(sub, -1) {
		href := html.UnescapeString(m[1])
		name := html.UnescapeString(strings.TrimSpace(m[3]))
		var qq url.Values
		if u, err := url.Parse(href); err == nil {
			qq = u.Query()
		}
		l = append(l, L(S(name), c19ValuesTerm(qq), Bool(m[2] != ""), Bool(m[4] != ""), Bool(strings.HasPrefix(href, "?"))))
	}
	return L(l...)
}

// c19E2EProfile: a fixed small profile that has every sample type the shortcut flags can select.
func c19E2EProfile() *profile.Profile {
	var sts []*profile.ValueType
	for _, t := range []string{"samples", "cpu", "delay", "contentions", "inuse_space", "inuse_objects", "alloc_space", "alloc_objects"} {
		sts = append(sts, &profile.ValueType{Type: t, Unit: "count"})
	}
	m := &profile.Mapping{ID: 1, Start: 0x1000, Limit: 0x9000, File: "/no/such/binary", HasFunctions: true}
	fn := &profile.Function{ID: 1, Name: "main", SystemName: "main", Filename: "main.c"}
	fn2 := &profile.Function{ID: 2, Name: "foo", SystemName: "foo", Filename: "foo.c"}
	l1 := &profile.Location{ID: 1, Mapping: m, Address: 0x1010, Line: []profile.Line{{Function: fn, Line: 4}}}
	l2 := &profile.Location{ID: 2, Mapping: m, Address: 0x1020, Line: []profile.Line{{Function: fn2, Line: 7}}}
	return &profile.Profile{SampleType: sts, Mapping: []*profile.Mapping{m}, Function: []*profile.Function{fn, fn2},
		Location: []*profile.Location{l1, l2},
		Sample: []*profile.Sample{{Location: []*profile.Location{l2, l1}, Value: []int64{1, 2, 3, 4, 5, 6, 7, 8}},
			{Location: []*profile.Location{l1}, Value: []int64{8, 7, 6, 5, 4, 3, 2, 1}, Label: map[string][]string{"k": {"v"}}}}}
}

var c19E2ENames = []string{"a", "a b", "a+b", "p99%2Bp50", "p99+p50", "100%", "x&y=z", "caf\xc3\xa9", "q?r#s", "other", "mine", "%41", "a%20b"}

func c19E2ECase(c *Ctx, gen string, fl []c10Flag, names []string, cfgs []driver.VerifConfig, ops []c19Op) {
	fields := driver.VerifConfigFields()
	dir, fname := c19Dir()
	defer os.RemoveAll(dir)
	os.Setenv("XDG_CONFIG_HOME", dir)
	strs, jstrs := map[string]bool{}, map[string]bool{}
	for _, f := range fl {
		strs[f.value] = true
		jstrs[f.value] = true
	}
	c19CollectCfg(strs, driver.VerifDefaultConfig())
	var initT Term = L(S("absent"))
	if names != nil {
		if err := driver.VerifWriteSettings(fname, names, cfgs); err != nil {
			panic(err)
		}
		var l []Term
		for i := range names {
			jstrs[names[i]] = true
			c19CollectAll(jstrs, cfgs[i])
			c19CollectCfg(strs, cfgs[i])
			l = append(l, L(S(names[i]), c19CfgTerm(cfgs[i])))
		}
		initT = L(S("good"), L(l...))
	}
	var opT, obs []Term
	for _, o := range ops {
		opT = append(opT, o.term())
		c19Collect(strs, o.q)
		c19Collect(jstrs, o.q)
		jstrs[o.name] = true
	}
	restoreG := driver.VerifGlobals()
	defer restoreG()
	driver.VerifSetCurrentConfig(driver.VerifDefaultConfig())
	args := append(c10FlagArgs(fl), "-http=localhost:18082", "-no_browser", "p")
	data := c10Serialize(c19E2EProfile())
	var cur driver.VerifConfig
	served, nt := false, false
	o := c10E2EOptions(args, data, c10NullUI{}, &c10MemWriter{})
	o.HTTPServer = func(a *plugin.HTTPServerArgs) error {
		served = true
		cur = driver.VerifCurrentConfig()
		code := func(status int, body string) int {
			if status == 200 {
				return 0
			}
			return c19SettingsErrCode(errors.New(strings.TrimSpace(body)))
		}
		for _, op := range ops {
			switch op.kind {
			case "save":
				st, _, body := c10Do3(a.Handlers, c10Req{"/saveconfig", op.q})
				obs = append(obs, L(ZI(code(st, body)), c19SettingsState(fname), Bool(c19FileAgrees(fname, fields))))
				nt = nt || st == 200
			case "delete":
				st, _, body := c10Do3(a.Handlers, c10Req{"/deleteconfig", url.Values{"config": {op.name}}})
				obs = append(obs, L(ZI(code(st, body)), c19SettingsState(fname), Bool(c19FileAgrees(fname, fields))))
				nt = nt || st == 200
			case "menu":
				st, _, body := c10Do3(a.Handlers, c10Req{"/top", op.q})
				if st != 200 {
					obs = append(obs, L(ZI(0), L(S(fmt.Sprintf("status-%d", st)))))
				} else {
					obs = append(obs, L(ZI(0), c19ParseMenu(body)))
				}
			}
		}
		return nil
	}
	err := driver.PProf(o)
	in := L(S("e2eseq"), c19PfTable(strs), c19JsTable(jstrs), c10FlagTerm(fl), initT, L(opT...))
	if !served {
		c.Case(gen, in, L(S("refused"), Bool(err != nil)), true, "op:e2eseq", "e2e:refused")
		return
	}
	c.Case(gen, in, L(c19CfgTerm(cur), L(obs...)), nt, "op:e2eseq")
}

func c19RunE2E(c *Ctx, fields []driver.VerifField) {
	q := func(kv ...string) url.Values {
		v := url.Values{}
		for i := 0; i+1 < len(kv); i += 2 {
			v[kv[i]] = []string{kv[i+1]}
		}
		return v
	}
	mk := func(kv ...string) driver.VerifConfig {
		cfg := driver.VerifDefaultConfig()
		for i := 0; i+1 < len(kv); i += 2 {
			cfg, _, _ = driver.VerifSetField(cfg, kv[i], kv[i+1])
		}
		return cfg
	}
	save := func(name string, kv ...string) c19Op {
		v := q(kv...)
		v["config"] = []string{name}
		return c19Op{kind: "save", q: v}
	}
	del := func(name string) c19Op { return c19Op{kind: "delete", name: name} }
	menu := func(kv ...string) c19Op { return c19Op{kind: "menu", q: q(kv...)} }
	// deterministic shapes: names that change under URL decoding, with their decoded twins stored too
	c19E2ECase(c, "e2e-names", nil, []string{"a b", "a+b", "other"}, []driver.VerifConfig{mk("focus", "F1"), mk("focus", "F2"), mk("hide", "F3")},
		[]c19Op{menu(), del("a+b"), menu(), del("a b"), del("a b"), save("a+b", "f", "again"), save("a b", "h", "x"), del("a+b")})
	c19E2ECase(c, "e2e-names", nil, []string{"p99%2Bp50", "p99+p50", "100%", "%41", "A"}, []driver.VerifConfig{mk("focus", "F1"), mk("focus", "F2"), mk("hide", "F3"), mk("show", "S"), mk("ignore", "I")},
		[]c19Op{del("p99%2Bp50"), menu(), del("100%"), del("%41"), menu(), del("A"), del("p99+p50")})
	c19E2ECase(c, "e2e-names", nil, nil, nil,
		[]c19Op{save("x&y=z", "f", "main"), save("q?r#s", "n", "7"), save("a%20b", "h", "f"), save("a b", "s", "g"), menu("f", "main"), del("a%20b"), del("x&y=z"), del("q?r#s"), menu()})
	// option interplay: flags shape the view that is saved; saving over the entry the menu marks as
	// current for the request URL must still store the options in force
	c19E2ECase(c, "e2e-flags", []c10Flag{{"focus", "mangled1000"}, {"nodecount", "15"}, {"tagroot", "k"}}, []string{"mine", "other"},
		[]driver.VerifConfig{mk("hide", "mangled3000"), mk("show", "S")},
		[]c19Op{menu("h", "mangled3000"), save("mine", "h", "mangled3000"), menu("h", "mangled3000"), save("mine", "h", "mangled3000"), del("other"), menu()})
	c19E2ECase(c, "e2e-flags", []c10Flag{{"call_tree", "true"}, {"cum", "true"}, {"unit", "ms"}}, []string{"v"},
		[]driver.VerifConfig{mk()},
		[]c19Op{menu(), save("v"), menu(), save("w", "calltree", "f"), menu("calltree", "f"), save("w", "calltree", "f")})
	c19E2ECase(c, "e2e-flags", []c10Flag{{"cum", "true"}, {"flat", "true"}}, nil, nil, []c19Op{save("never")})
	// random: flag combinations x stored names x request histories
	for k := 0; k < c.Budget(30, 400); k++ {
		fl := c10GenFlags(c.R)
		var names []string
		var cfgs []driver.VerifConfig
		for i, n := 0, c.R.Intn(4); i < n; i++ {
			names = append(names, PickS(c.R, c19E2ENames))
			cfgs = append(cfgs, mk(PickS(c.R, []string{"focus", "hide", "show", "ignore"}), PickS(c.R, []string{"main", "foo", "x|y"})))
		}
		if len(names) == 0 && c.R.Bool() {
			names = nil
		}
		var ops []c19Op
		for i, n := 0, 2+c.R.Intn(5); i < n; i++ {
			switch c.R.Intn(5) {
			case 0, 1:
				kv := []string{}
				if c.R.Bool() {
					kv = append(kv, PickS(c.R, []string{"f", "h", "s", "n", "sort", "g", "calltree"}), PickS(c.R, []string{"main", "5", "cum", "lines", "t", "zz"}))
				}
				ops = append(ops, save(PickS(c.R, c19E2ENames), kv...))
			case 2, 3:
				ops = append(ops, del(PickS(c.R, c19E2ENames)))
			default:
				ops = append(ops, menu())
			}
		}
		c19E2ECase(c, "e2e-random", fl, names, cfgs, ops)
	}
}
