//go:build verif

package main

import (
	"encoding/binary"
	"fmt"
	"math/big"
	"strconv"
	"strings"

	"github.com/google/pprof/profile"
)

// C14: legacy text/binary profiles. Documents are generated as abstract models (numerals kept as
// the strings that are printed), printed by the printers below (which coq/M_LegacyDoc.v mirrors
// byte for byte), and parsed by the real profile.ParseData.

func init() { registry["C14"] = c14Run }

// ---------------------------------------------------------------- observation

func c14Observe(data []byte) (obs Term) {
	defer func() {
		if r := recover(); r != nil {
			obs = L(S("panic"), S(fmt.Sprint(r)))
		}
	}()
	p, err := profile.ParseData(data)
	if err != nil {
		if strings.Contains(err.Error(), "unrecognized profile format") {
			return L(S("unrec"))
		}
		return L(S("err"))
	}
	alloc, allocSkip, lock, cpu := profile.VerifLegacyFrameRx()
	tok := func(s string) string {
		switch s {
		case alloc:
			return "<alloc>"
		case allocSkip:
			return "<allocskip>"
		case lock:
			return "<lock>"
		case cpu:
			return "<cpu>"
		}
		return s
	}
	p.DropFrames, p.KeepFrames = tok(p.DropFrames), tok(p.KeepFrames)
	return L(S("ok"), DumpProfile(p))
}

func c14ProtoOK(data []byte) (ok bool) {
	defer func() { recover() }()
	if len(data) == 0 {
		return false
	}
	_, err := profile.ParseUncompressed(data)
	return err == nil
}

// ---------------------------------------------------------------- math.Exp oracle (math/big)

// c14BigExp computes exp(x) for x >= 0 with ~200 bits by argument halving and a Taylor series.
func c14BigExp(x *big.Float) *big.Float {
	const prec = 256
	k := 0
	y := new(big.Float).SetPrec(prec).Set(x)
	one := new(big.Float).SetPrec(prec).SetInt64(1)
	for y.Cmp(one) > 0 {
		y.Quo(y, big.NewFloat(2))
		k++
	}
	sum := new(big.Float).SetPrec(prec).SetInt64(1)
	term := new(big.Float).SetPrec(prec).SetInt64(1)
	for i := 1; i < 80; i++ {
		term.Mul(term, y)
		term.Quo(term, new(big.Float).SetPrec(prec).SetInt64(int64(i)))
		sum.Add(sum, term)
	}
	for ; k > 0; k-- {
		sum.Mul(sum, sum)
	}
	return sum
}

// c14UnsampleOracle returns trunc(count*scale), trunc(size*scale), scale = 1/(1-exp(-(size/count)/rate)).
func c14UnsampleOracle(count, size, rate int64) (int64, int64) {
	const prec = 256
	f := func(v int64) *big.Float { return new(big.Float).SetPrec(prec).SetInt64(v) }
	avg := new(big.Float).SetPrec(prec).Quo(f(size), f(count))
	x := new(big.Float).SetPrec(prec).Quo(avg, f(rate)) // > 0 in the generated domain
	e := c14BigExp(x)
	inv := new(big.Float).SetPrec(prec).Quo(f(1), e)     // exp(-x)
	den := new(big.Float).SetPrec(prec).Sub(f(1), inv)   // 1 - exp(-x)
	scale := new(big.Float).SetPrec(prec).Quo(f(1), den) // 1/(1-exp(-x))
	c, _ := new(big.Float).SetPrec(prec).Mul(f(count), scale).Int(nil)
	s, _ := new(big.Float).SetPrec(prec).Mul(f(size), scale).Int(nil)
	return c.Int64(), s.Int64()
}

// ---------------------------------------------------------------- documents

type c14DmapT struct {
	kind                                                          int
	start, limit, perm, offset, dev, inode, file, buildid string
}

func (e c14DmapT) term() Term {
	return L(ZI(e.kind), S(e.start), S(e.limit), S(e.perm), S(e.offset), S(e.dev), S(e.inode), S(e.file), S(e.buildid))
}

func (e c14DmapT) print() string {
	switch e.kind {
	case 0:
		s := e.start + "-" + e.limit + " " + e.perm + " " + e.offset + " " + e.dev + " " + e.inode
		if e.file != "" {
			s += " " + e.file
		}
		return s
	case 1:
		s := "0x" + e.start + "-0x" + e.limit + " " + e.file
		if e.offset != "" {
			s += " (@" + e.offset + ")"
		}
		if e.buildid != "" {
			s += " " + e.buildid
		}
		return s
	}
	return "  " + e.start + "-" + e.limit + ": " + e.file
}

type c14MapsecT struct {
	present  bool
	sentinel int
	entries  []c14DmapT
}

func (m c14MapsecT) term() Term {
	var es []Term
	for _, e := range m.entries {
		es = append(es, e.term())
	}
	return L(Bool(m.present), ZI(m.sentinel), L(es...))
}

func (m c14MapsecT) lines() []string {
	if !m.present {
		return nil
	}
	ls := []string{"--- Memory map: ---"}
	if m.sentinel != 0 {
		ls[0] = "MAPPED_LIBRARIES:"
	}
	for _, e := range m.entries {
		ls = append(ls, e.print())
	}
	return ls
}

func c14Hx(v uint64) string { return strconv.FormatUint(v, 16) }

var c14Files = []string{"/bin/main", "/usr/lib/libc-2.15.so", "/lib/libm.so.6", "[vdso]", "/opt/app(deleted)", "/anon_hugepage(deleted)",
	"/home/u/server_main", "libfoo.so_1", "/lib/ld.so", "", "abc"}

// c14GenMaps builds a memory-map section aimed at the case splits of massageMappings/remapMappingIDs:
// adjacent pieces (merged), a main binary behind libraries (swapped to the front), start-offset ==
// 0x400000, a mapping whose first part is missing (start -= offset), /anon_hugepage, non-executable
// entries, and addresses covered by nothing (catch-all mapping).
func c14GenMaps(r *Rng, allowSentinel1 bool) c14MapsecT {
	m := c14MapsecT{present: r.P(3, 4)}
	if !m.present {
		return m
	}
	if allowSentinel1 && r.P(1, 4) {
		m.sentinel = 1
	}
	m.entries = c14GenMapEntries(r)
	return m
}

func c14GenMapEntries(r *Rng) []c14DmapT {
	var es []c14DmapT
	n := r.Intn(5)
	base := []uint64{0x400000, 0x401000, 0x600000, 0x7f0000000000, 0x10000, 0x500000}[r.Intn(6)]
	cur := base
	for i := 0; i < n; i++ {
		size := uint64(1+r.Intn(3)) * 0x1000
		if !r.P(1, 2) { // gap: not adjacent
			cur += uint64(r.Intn(3)) * 0x1000
		}
		e := c14DmapT{kind: r.Intn(3), start: c14Hx(cur), limit: c14Hx(cur + size), perm: PickS(r, []string{"r-xp", "r-xp", "rwxp", "rw-p", "r--p", "---p", "x"}),
			offset: c14Hx(uint64(r.Intn(3)) * 0x1000), dev: PickS(r, []string{"fc:01", "00:00", "08:1f"}), inode: strconv.Itoa(r.Intn(100000)),
			file: PickS(r, c14Files)}
		if r.P(1, 6) {
			e.start = "00" + e.start
		}
		if r.P(1, 8) { // start - offset == 0x400000
			e.start, e.limit, e.offset = c14Hx(0x400000+0x2000), c14Hx(0x400000+0x2000+size), c14Hx(0x2000)
			cur = 0x400000 + 0x2000
		}
		switch e.kind {
		case 1:
			e.perm, e.dev, e.inode = "", "", ""
			if e.file == "" || strings.ContainsAny(e.file[:1], "-rwxp") {
				e.file = "/bin/main"
			}
			if r.P(1, 2) {
				e.offset = ""
			}
			if r.P(1, 2) {
				e.buildid = PickS(r, []string{"abc123", "0123456789abcdef", "ff"})
			}
		case 2:
			e.perm, e.dev, e.inode, e.offset = "", "", "", ""
			if e.file == "" || strings.ContainsAny(e.file[:1], "-rwxp") {
				e.file = "/home/u/server_main"
			}
		}
		es = append(es, e)
		cur += size
	}
	return es
}

// address pool: shared addresses (ties in the location table), 0 and 1 (wrap to 2^64-1 / to the
// nil-mapping address 0), adjacent pairs (duplicate-leaf clean-up), addresses inside/outside maps
func c14GenAddr(r *Rng) uint64 {
	switch r.Intn(10) {
	case 0:
		return []uint64{0, 1, 2, ^uint64(0), 1 << 63, 0xffffffff}[r.Intn(6)]
	case 1, 2, 3:
		return 0x400000 + uint64(r.Intn(6))*0x800
	case 4:
		return 0x7f0000000000 + uint64(r.Intn(4))*0x1000 + 1
	case 5:
		return 0x401000 + uint64(r.Intn(3))
	default:
		return []uint64{0x40be31, 0x40be32, 0x40be30, 0xbc8f1c, 0x600010, 0x10abc, 0x500001, 0x3ff000}[r.Intn(8)]
	}
}

func c14GenHexes(r *Rng, minN, maxN int) []string {
	n := minN + r.Intn(maxN-minN+1)
	var hs []string
	for i := 0; i < n; i++ {
		a := c14GenAddr(r)
		if i > 0 && r.P(1, 5) { // previous address - 1, + 1 or equal
			p, _ := strconv.ParseUint(hs[i-1], 16, 64)
			a = p + uint64(r.Intn(3)) - 1
		}
		h := c14Hx(a)
		if r.P(1, 10) {
			h = "00" + h
		}
		if len(h) > 16 {
			h = h[len(h)-16:]
		}
		hs = append(hs, h)
	}
	return hs
}

func c14HexesStr(hs []string) string {
	var sb strings.Builder
	for _, h := range hs {
		sb.WriteString(" 0x" + h)
	}
	return sb.String()
}

func c14GenCount(r *Rng) string {
	switch r.Intn(8) {
	case 0:
		return "0"
	case 1:
		return PickS(r, []string{"9223372036854775807", "4294967296", "1", "9", "10", "8", "77"})
	default:
		return strconv.Itoa(r.Intn(500))
	}
}

func c14GenSkipLine(r *Rng) string {
	return PickS(r, []string{"", "  ", "# comment", "#", "  # heap profile: 1: 2 [3: 4] @ heap/5", "\t", "# 1 @ 0x1", "#--- x"})
}

func c14JoinLines(ls []string) string {
	var sb strings.Builder
	for _, l := range ls {
		sb.WriteString(l)
		sb.WriteByte('\n')
	}
	return sb.String()
}

// ---- Go count
type c14CitemT struct {
	skip  bool
	count string
	addrs []string
	line  string
}
type c14CdocT struct {
	pre         []string
	typ, total  string
	items       []c14CitemT
	m           c14MapsecT
}

func c14GenCDoc(r *Rng) c14CdocT {
	d := c14CdocT{typ: PickS(r, []string{"goroutine", "threadcreate", "x", "heap"}), total: strconv.Itoa(r.Intn(100))}
	for i := r.Intn(3); i > 0; i-- {
		d.pre = append(d.pre, PickS(r, []string{"", "# c", "  ", "#"}))
	}
	for i := r.Intn(6); i > 0; i-- {
		if r.P(1, 5) {
			d.items = append(d.items, c14CitemT{skip: true, line: c14GenSkipLine(r)})
		} else {
			d.items = append(d.items, c14CitemT{count: c14GenCount(r), addrs: c14GenHexes(r, 1, 5)})
		}
	}
	d.m = c14GenMaps(r, false)
	return d
}
func (d c14CdocT) term() Term {
	var its []Term
	for _, i := range d.items {
		if i.skip {
			its = append(its, L(Z(1), S(i.line)))
		} else {
			its = append(its, L(Z(0), S(i.count), Ss(i.addrs)))
		}
	}
	return L(Ss(d.pre), S(d.typ), S(d.total), L(its...), d.m.term())
}
func (d c14CdocT) lines() []string {
	ls := append([]string{}, d.pre...)
	ls = append(ls, d.typ+" profile: total "+d.total)
	for _, i := range d.items {
		if i.skip {
			ls = append(ls, i.line)
		} else {
			ls = append(ls, i.count+" @"+c14HexesStr(i.addrs))
		}
	}
	return append(ls, d.m.lines()...)
}

// ---- heap
type c14HitemT struct {
	skip            bool
	c, s, ac, as    string
	addrs           []string
	line            string
}
type c14HdocT struct {
	name           string
	h              [4]string
	rate           string
	items          []c14HitemT
	m              c14MapsecT
	lead           string
	approx         bool
	oracle         []Term
}

func c14GenHDoc(r *Rng) c14HdocT {
	d := c14HdocT{name: PickS(r, []string{"heap", "heap", "heap_v2", "heapz_v2", "heapprofile", "growthz", "growth", "fragmentationz", "fragmentation"})}
	d.h = [4]string{strconv.Itoa(r.Intn(200)), strconv.Itoa(r.Intn(90000)), "", ""}
	switch r.Intn(4) {
	case 0:
		d.h[2], d.h[3] = d.h[0], d.h[1] // no alloc columns
	case 1:
		d.h[2], d.h[3] = "0", "0"
	case 2:
		d.h[2], d.h[3] = d.h[0], strconv.Itoa(r.Intn(90000)+90000)
	default:
		d.h[2], d.h[3] = strconv.Itoa(r.Intn(500)+200), strconv.Itoa(r.Intn(90000)+90000)
	}
	rate := int64(0)
	if strings.HasPrefix(d.name, "heap") {
		// rates around the "rate <= 1 => raw values" guard of scaleHeapSample: no rate (0), 1, 2 and 3 (effective
		// rate 1 for "heap", whose rate is halved; 2 and 3 for heap_v2), 4/5 (effective 2 for "heap"), small, 524288
		switch r.Intn(8) {
		case 0:
			d.rate = ""
		case 1:
			d.rate, rate = "1", 1
		case 2:
			d.rate, rate = "2", 2
		case 3:
			d.rate, rate = "3", 3
		case 4:
			rate = PickI(r, []int64{4, 5, 6, 16})
			d.rate = strconv.FormatInt(rate, 10)
		case 5:
			rate = PickI(r, []int64{512, 1024, 2048})
			d.rate = strconv.FormatInt(rate, 10)
		case 6:
			d.rate, rate = "524288", 524288
		default:
			rate = PickI(r, []int64{4096, 1048576, 100000})
			d.rate = strconv.FormatInt(rate, 10)
		}
	}
	period := int64(1)
	v2 := false
	switch d.name {
	case "heap":
		period, v2 = rate/2, true
	case "heap_v2", "heapz_v2":
		period, v2 = rate, true
	}
	hasAlloc := strings.HasPrefix(d.name, "heap") && ((d.h[2] != d.h[0] && d.h[2] != "0") || (d.h[3] != d.h[1] && d.h[3] != "0"))
	d.lead = PickS(r, []string{"", "", "  ", "     "})
	seen := map[[2]int64]bool{}
	pair := func(neg bool) (string, string) {
		if r.P(1, 6) {
			return "0", "0"
		}
		c := int64(1 + r.Intn(50))
		avg := int64(1 + r.Intn(4096))
		if !(v2 && period > 1024) && r.P(1, 3) {
			// tiny blocks, counts up to the thousands: 1/(1-exp(-avg/rate)) is far from 1 when rate is 1 or 2
			// (1.58 for 1-byte blocks, 1.000335 for 8-byte blocks at rate 1), so a wrong guard shows in the values
			avg = PickI(r, []int64{1, 1, 2, 3, 8})
			c = PickI(r, []int64{1, 2, 7, 3000, 5000, 40000})
		} else if v2 && period > 1 {
			// keep (size/count)/rate >= 2^-10 so that 1-exp(-x) does not cancel in float64
			lo := period/1024 + 1
			avg = lo + int64(r.Intn(int(4*period)))
			if r.P(1, 4) {
				avg = period
			}
		}
		s := c*avg + int64(r.Intn(int(c)))
		if r.P(1, 12) {
			s = 0 // count != 0, size == 0
		}
		if v2 && period > 1 && s != 0 && !seen[[2]int64{c, s}] {
			seen[[2]int64{c, s}] = true
			oc, os := c14UnsampleOracle(c, s, period)
			d.oracle = append(d.oracle, L(Z(c), Z(s), Z(period), Z(oc), Z(os)))
			d.approx = true
			if neg {
				d.oracle = append(d.oracle, L(Z(-c), Z(-s), Z(period), Z(-oc), Z(-os)))
			}
		}
		if neg {
			if s == 0 {
				return "-" + strconv.FormatInt(c, 10), "0"
			}
			return "-" + strconv.FormatInt(c, 10), "-" + strconv.FormatInt(s, 10)
		}
		return strconv.FormatInt(c, 10), strconv.FormatInt(s, 10)
	}
	for i := r.Intn(6); i > 0; i-- {
		if r.P(1, 6) {
			d.items = append(d.items, c14HitemT{skip: true, line: PickS(r, []string{"", "  ", "# c", "#", "\t# 1: 2 [3: 4] @ 0x1"})})
			continue
		}
		it := c14HitemT{addrs: c14GenHexes(r, 0, 5)}
		it.c, it.s = pair(r.P(1, 10))
		it.ac, it.as = pair(false)
		if !hasAlloc && r.P(1, 2) {
			it.ac, it.as = it.c, it.s
			if strings.HasPrefix(it.c, "-") {
				it.ac, it.as = "0", "0"
			}
		}
		d.items = append(d.items, it)
	}
	d.m = c14GenMaps(r, true)
	return d
}
func (d c14HdocT) term() Term {
	var its []Term
	for _, i := range d.items {
		if i.skip {
			its = append(its, L(Z(1), S(i.line)))
		} else {
			its = append(its, L(Z(0), S(i.c), S(i.s), S(i.ac), S(i.as), Ss(i.addrs)))
		}
	}
	return L(S(d.name), Ss(d.h[:]), S(d.rate), L(its...), d.m.term(), S(d.lead))
}
func (d c14HdocT) header() string {
	s := "heap profile: " + d.h[0] + ": " + d.h[1] + " [" + d.h[2] + ": " + d.h[3] + "] @ " + d.name
	if d.rate != "" {
		s += "/" + d.rate
	}
	return s
}
func (d c14HdocT) lines(style int) []string {
	ls := []string{d.header()}
	if style == 1 {
		ls[0] = fmt.Sprintf("heap profile: %6s: %8s [%6s: %8s] @ %s", d.h[0], d.h[1], d.h[2], d.h[3], d.name)
		if d.rate != "" {
			ls[0] += "/" + d.rate
		}
	}
	for _, i := range d.items {
		switch {
		case i.skip:
			ls = append(ls, i.line)
		case style == 1:
			ls = append(ls, fmt.Sprintf("%6s: %8s [%6s: %8s] @%s", i.c, i.s, i.ac, i.as, c14HexesStr(i.addrs)))
			if len(ls)%3 == 0 {
				ls = append(ls, "# interleaved comment")
			}
		case style == 2:
			ls = append(ls, "\t"+i.c+":"+i.s+"["+i.ac+":"+i.as+"] @"+c14HexesStr(i.addrs)+"  ")
		default:
			ls = append(ls, d.lead+i.c+": "+i.s+" ["+i.ac+": "+i.as+"] @"+c14HexesStr(i.addrs))
		}
	}
	return append(ls, d.m.lines()...)
}

// ---- contention
type c14KitemT struct {
	skip          bool
	delay, count  string
	addrs         []string
	line          string
}
type c14KdocT struct {
	header string
	attrs  [][2]string
	items  []c14KitemT
	m      c14MapsecT
	approx bool
}

func c14GenKDoc(r *Rng) c14KdocT {
	d := c14KdocT{header: PickS(r, []string{"--- contentionz 1 ---", "--- mutex:", "--- contention:", "--- contentionz 7 ---", "--- mutex: x"})}
	hz, period := int64(0), int64(1)
	for i := r.Intn(5); i > 0; i-- {
		switch r.Intn(4) {
		case 0:
			hz = PickI(r, []int64{1000000000, 2000000000, 500000000, 3201000000, 1000, 999999937, 0})
			d.attrs = append(d.attrs, [2]string{"cycles/second", strconv.FormatInt(hz, 10)})
		case 1:
			period = PickI(r, []int64{1, 100, 0, 7, 1000000})
			d.attrs = append(d.attrs, [2]string{"sampling period", strconv.FormatInt(period, 10)})
		case 2:
			d.attrs = append(d.attrs, [2]string{"ms since reset", PickS(r, []string{"16502830", "0", "9223372036854", "9223372036854775"})})
		default:
			d.attrs = append(d.attrs, [2]string{"discarded samples", strconv.Itoa(r.Intn(10))})
		}
	}
	d.approx = hz > 0 && period > 0
	for i := r.Intn(6); i > 0; i-- {
		if r.P(1, 6) {
			d.items = append(d.items, c14KitemT{skip: true, line: PickS(r, []string{"", "  ", "# c", "#1 2 @ 0x3"})})
			continue
		}
		it := c14KitemT{delay: strconv.Itoa(r.Intn(100000)), count: c14GenCount(r), addrs: c14GenHexes(r, 0, 5)}
		if it.count == "9223372036854775807" && period > 1 {
			it.count = "4611686018427387904" // wraps when multiplied by the period
		}
		d.items = append(d.items, it)
	}
	d.m = c14GenMaps(r, false)
	return d
}
func (d c14KdocT) term() Term {
	var as, its []Term
	for _, a := range d.attrs {
		as = append(as, L(S(a[0]), S(a[1])))
	}
	for _, i := range d.items {
		if i.skip {
			its = append(its, L(Z(1), S(i.line)))
		} else {
			its = append(its, L(Z(0), S(i.delay), S(i.count), Ss(i.addrs)))
		}
	}
	return L(S(d.header), L(as...), L(its...), d.m.term())
}
func (d c14KdocT) lines(style int) []string {
	ls := []string{d.header}
	for _, a := range d.attrs {
		if style == 1 {
			ls = append(ls, "  "+a[0]+"="+a[1]+" ", "# c")
		} else {
			ls = append(ls, a[0]+" = "+a[1])
		}
	}
	for _, i := range d.items {
		switch {
		case i.skip:
			ls = append(ls, i.line)
		case style == 1:
			ls = append(ls, fmt.Sprintf("%10s %8s @%s", i.delay, i.count, c14HexesStr(i.addrs)))
		default:
			ls = append(ls, i.delay+" "+i.count+" @"+c14HexesStr(i.addrs))
		}
	}
	return append(ls, d.m.lines()...)
}

// ---- threadz
type c14TblockT struct {
	id, name, tid string
	same          bool
	lines         [][]string
}
type c14TdocT struct {
	pre      []string
	threadz  bool
	num      string
	junk     []string
	blocks   []c14TblockT
	nostack  bool
	m        c14MapsecT
}

func c14GenTDoc(r *Rng) c14TdocT {
	d := c14TdocT{threadz: r.P(2, 3), num: strconv.Itoa(r.Intn(3))}
	for i := r.Intn(3); i > 0; i-- {
		d.pre = append(d.pre, PickS(r, []string{"", "# c", "  "}))
	}
	if d.threadz {
		for i := r.Intn(3); i > 0; i-- {
			d.junk = append(d.junk, PickS(r, []string{"", "some text", "0x1234 not a stack", " - indented dash"}))
		}
	}
	nb := r.Intn(6)
	if !d.threadz && nb == 0 {
		nb = 1
	}
	for i := 0; i < nb; i++ {
		b := c14TblockT{id: c14Hx(0x7f794ab90940 + uint64(i)*0x1000), name: PickS(r, []string{"main", "thread1", "a/b", "", "x (y)"}), tid: strconv.Itoa(14748 + i)}
		switch {
		case r.P(1, 4):
			b.same = true
		default:
			for j := r.Intn(4); j > 0; j-- {
				b.lines = append(b.lines, c14GenHexes(r, 1, 3))
			}
		}
		d.blocks = append(d.blocks, b)
	}
	d.nostack = r.P(1, 6)
	d.m = c14GenMaps(r, false)
	d.m.present = true // without the sentinel the parser rejects the whole input (see DESIGN C14)
	return d
}
func (d c14TdocT) term() Term {
	tz := L()
	if d.threadz {
		tz = L(S(d.num), Ss(d.junk))
	}
	var bs []Term
	for _, b := range d.blocks {
		var ls []Term
		for _, l := range b.lines {
			ls = append(ls, Ss(l))
		}
		bs = append(bs, L(S(b.id), S(b.name), S(b.tid), Bool(b.same), L(ls...)))
	}
	return L(Ss(d.pre), tz, L(bs...), Bool(d.nostack), d.m.term())
}
func (d c14TdocT) lines(style int) []string {
	ls := append([]string{}, d.pre...)
	if d.threadz {
		ls = append(ls, "--- threadz "+d.num+" ---")
		ls = append(ls, d.junk...)
	}
	for _, b := range d.blocks {
		ls = append(ls, "--- Thread "+b.id+" (name: "+b.name+"/"+b.tid+") stack: ---")
		if b.same {
			ls = append(ls, "  [same as previous thread]")
			continue
		}
		for k, l := range b.lines {
			if style == 1 {
				for q, h := range l {
					if k == 0 && q == 0 {
						ls = append(ls, "  PC:  0x"+h+": helper(arg *)")
					} else {
						ls = append(ls, "  0x"+h+": main", "")
					}
				}
			} else {
				ls = append(ls, " "+c14HexesStr(l))
			}
		}
	}
	if d.nostack {
		ls = append(ls, "---- no stack trace for 3 threads ----")
	}
	return append(ls, d.m.lines()...)
}

// ---- binary CPU
type c14PsampleT struct {
	count uint64
	addrs []uint64
}
type c14PdocT struct {
	kind    int
	period  uint64
	samples []c14PsampleT
	eod     bool
	maps    []c14DmapT
}

func c14GenPDoc(r *Rng, big bool) c14PdocT {
	d := c14PdocT{kind: r.Intn(4), period: uint64(PickI(r, []int64{1, 10000, 100, 4294967295, 1000})), eod: r.P(4, 5)}
	n := r.Intn(6)
	if big {
		n = 30 + r.Intn(12) // len/32 margin >= 1
	}
	sig := 0x401000 + uint64(r.Intn(3)) // shared second frame ("signal handler"), possibly leaf-1 adjacent
	sig2 := uint64(0x40be31)
	mode := r.Intn(4)
	// number of samples WITHOUT the shared second frame: around both sides of len/32 (and len/16, len/64)
	nonShare := []int{0, n / 32, n/32 + 1, n / 16, n/16 + 1, n / 64}[r.Intn(6)]
	for i := 0; i < n; i++ {
		s := c14PsampleT{count: uint64(r.Intn(20))}
		if r.P(1, 10) {
			s.count = uint64(PickI(r, []int64{0, 4294967295, 1 << 31}))
		}
		m := r.Intn(5)
		if big && mode >= 1 {
			m = 1 + r.Intn(4) // every sample can carry the shared frame: the count is controlled by nonShare alone
		}
		for j := 0; j < m; j++ {
			a := c14GenAddr(r)
			if d.kind < 2 {
				a &= 0xffffffff
			}
			if j > 0 && r.P(1, 4) {
				a = s.addrs[j-1] + 1 // after the -1 adjustment equals the previous frame
			}
			if d.kind < 2 {
				a &= 0xffffffff
			}
			s.addrs = append(s.addrs, a)
		}
		// mode 1: nearly all samples share the second frame; mode 2: two shared frames; mode 3: exactly at the margin
		if mode >= 1 && len(s.addrs) >= 1 && !(big && i < nonShare) && !(!big && mode == 3 && i < 1) {
			rest := append([]uint64{}, s.addrs[1:]...)
			s.addrs = append([]uint64{s.addrs[0], sig + 1}, rest...)
			if mode == 2 {
				s.addrs = append([]uint64{s.addrs[0], sig + 1, sig2 + 1}, rest...)
			}
		}
		if s.count == 0 && len(s.addrs) == 1 && s.addrs[0] == 0 {
			s.count = 1 // would be the end-of-data marker
		}
		d.samples = append(d.samples, s)
	}
	if d.eod {
		d.maps = c14GenMapEntries(r)
	}
	return d
}
func (d c14PdocT) term() Term {
	var ss, ms []Term
	for _, s := range d.samples {
		var as []Term
		for _, a := range s.addrs {
			as = append(as, ZU(a))
		}
		ss = append(ss, L(ZU(s.count), L(as...)))
	}
	for _, e := range d.maps {
		ms = append(ms, e.term())
	}
	return L(ZI(d.kind), ZU(d.period), L(ss...), Bool(d.eod), L(ms...))
}
func c14PutWord(b []byte, kind int, w uint64) []byte {
	switch kind {
	case 0:
		return binary.LittleEndian.AppendUint32(b, uint32(w))
	case 1:
		return binary.BigEndian.AppendUint32(b, uint32(w))
	case 2:
		return binary.LittleEndian.AppendUint64(b, w)
	}
	return binary.BigEndian.AppendUint64(b, w)
}
func (d c14PdocT) bytes() []byte {
	var b []byte
	for _, w := range []uint64{0, 3, 0, d.period, 0} {
		b = c14PutWord(b, d.kind, w)
	}
	for _, s := range d.samples {
		b = c14PutWord(b, d.kind, s.count)
		b = c14PutWord(b, d.kind, uint64(len(s.addrs)))
		for _, a := range s.addrs {
			b = c14PutWord(b, d.kind, a)
		}
	}
	if d.eod {
		for _, w := range []uint64{0, 1, 0} {
			b = c14PutWord(b, d.kind, w)
		}
		for _, e := range d.maps {
			b = append(b, e.print()...)
			b = append(b, '\n')
		}
	}
	return b
}

// ---------------------------------------------------------------- mutations

var c14MutTokens = []string{" ", "0", "x", "-", ":", "@", "[", "]", "#", "\n", "=", "a", "/", "0x", "--- ", "f", "9", "\r", "(", ")", "heap", " @ "}

func c14Mutate(r *Rng, data []byte) []byte {
	b := append([]byte{}, data...)
	for k := 1 + r.Intn(2); k > 0; k-- {
		if len(b) == 0 {
			return b
		}
		pos := r.Intn(len(b))
		switch r.Intn(6) {
		case 0: // delete a byte
			b = append(b[:pos], b[pos+1:]...)
		case 1: // insert a token
			t := PickS(r, c14MutTokens)
			b = append(b[:pos], append([]byte(t), b[pos:]...)...)
		case 2: // replace a byte
			t := PickS(r, c14MutTokens)
			b[pos] = t[0]
		case 3: // truncate
			b = b[:pos]
		case 4: // duplicate a line
			ls := strings.SplitAfter(string(b), "\n")
			i := r.Intn(len(ls))
			ls = append(ls[:i+1], ls[i:]...)
			b = []byte(strings.Join(ls, ""))
		default: // drop a line
			ls := strings.SplitAfter(string(b), "\n")
			i := r.Intn(len(ls))
			ls = append(ls[:i], ls[i+1:]...)
			b = []byte(strings.Join(ls, ""))
		}
	}
	return b
}

func c14AsciiOnly(b []byte) bool {
	for _, c := range b {
		if c >= 0x80 {
			return false
		}
	}
	return true
}

// ---------------------------------------------------------------- driver

func c14Run(c *Ctx) {
	emit := func(gen, kind, fmtName string, doc Term, data []byte, oracle []Term, approx bool, nt bool, tags ...string) {
		flags := L(Bool(c14ProtoOK(data)), Bool(approx))
		in := L(S(kind), S(fmtName), doc, S(string(data)), L(oracle...), flags)
		c.Case(gen, in, c14Observe(data), nt, append(tags, "fmt:"+fmtName, "kind:"+kind)...)
	}
	crlf := func(s string) []byte { return []byte(strings.ReplaceAll(s, "\n", "\r\n")) }
	nMut := func() int {
		if c.Tier == "thorough" {
			return 3
		}
		return 1
	}
	// deterministic streams: runs of equal consecutive records in every format (c14_runs.go)
	c14RunStreams(emit)
	// end-to-end layer: the same documents through driver.PProf, interactive sessions and the web handlers (c14_e2e.go)
	c14RunE2E(c)
	// Java heapz/contentionz through the driver: the drop/keep-frame tables are applied for real (c14_java.go)
	c14RunJava(c)
	n := c.Budget(120, 1500)
	for k := 0; k < n; k++ {
		// Go count
		{
			d := c14GenCDoc(c.R)
			data := []byte(c14JoinLines(d.lines()))
			nt := len(d.items) > 0
			emit("count-doc", "doc", "count", d.term(), data, nil, false, nt)
			if k%3 == 0 {
				c14E2ERandom(c, "count", d.term(), data, false)
			}
			switch c.R.Intn(3) {
			case 0:
				emit("count-var", "var", "count", d.term(), crlf(string(data)), nil, false, nt, "var:crlf")
			case 1:
				emit("count-var", "var", "count", d.term(), data[:len(data)-1], nil, false, nt, "var:no-final-newline")
			}
			for q := nMut(); q > 0; q-- {
				emit("count-mut", "mut", "count", L(), c14Mutate(c.R, data), nil, false, true)
			}
		}
		// heap
		{
			d := c14GenHDoc(c.R)
			data := []byte(c14JoinLines(d.lines(0)))
			nt := len(d.items) > 0
			emit("heap-doc", "doc", "heap", d.term(), data, d.oracle, d.approx, nt, "heap:"+d.name)
			if k%3 == 1 {
				c14E2ERandom(c, "heap", d.term(), data, d.approx)
			}
			st := 1 + c.R.Intn(2)
			emit("heap-var", "var", "heap", d.term(), []byte(c14JoinLines(d.lines(st))), d.oracle, d.approx, nt, fmt.Sprintf("var:style%d", st))
			if c.R.P(1, 3) {
				emit("heap-var", "var", "heap", d.term(), crlf(string(data)), d.oracle, d.approx, nt, "var:crlf")
			}
			for q := nMut(); q > 0; q-- {
				emit("heap-mut", "mut", "heap", L(), c14Mutate(c.R, data), d.oracle, d.approx, true)
			}
		}
		// contention
		{
			d := c14GenKDoc(c.R)
			data := []byte(c14JoinLines(d.lines(0)))
			nt := len(d.items) > 0
			emit("contention-doc", "doc", "contention", d.term(), data, nil, d.approx, nt)
			if k%3 == 2 {
				c14E2ERandom(c, "contention", d.term(), data, d.approx)
			}
			if c.R.P(1, 2) {
				emit("contention-var", "var", "contention", d.term(), []byte(c14JoinLines(d.lines(1))), nil, d.approx, nt, "var:style1")
			}
			for q := nMut(); q > 0; q-- {
				emit("contention-mut", "mut", "contention", L(), c14Mutate(c.R, data), nil, d.approx, true)
			}
		}
		// threadz
		{
			d := c14GenTDoc(c.R)
			data := []byte(c14JoinLines(d.lines(0)))
			nt := len(d.blocks) > 0
			emit("thread-doc", "doc", "thread", d.term(), data, nil, false, nt)
			if c.R.P(1, 2) {
				emit("thread-var", "var", "thread", d.term(), []byte(c14JoinLines(d.lines(1))), nil, false, nt, "var:style1")
			}
			for q := nMut(); q > 0; q-- {
				emit("thread-mut", "mut", "thread", L(), c14Mutate(c.R, data), nil, false, true)
			}
		}
		// binary CPU
		{
			d := c14GenPDoc(c.R, k%4 == 0)
			data := d.bytes()
			emit("cpu-doc", "doc", "cpu", d.term(), data, nil, false, len(d.samples) > 0, fmt.Sprintf("cpu:kind%d", d.kind))
			for q := nMut(); q > 0; q-- {
				m := c14Mutate(c.R, data)
				if c14AsciiOnly(m) || true {
					emit("cpu-mut", "mut", "cpu", L(), m, nil, false, true)
				}
			}
		}
	}
	// fixed error-path and corner documents (model-vs-implementation only)
	for _, s := range []string{
		"", "\n", "x", "heap profile: 1: 2 [3: 4] @ heap/9223372036854775808\n",
		"heap profile: 1: 2 [1: 2] @ heap/2\n0: 5 [0: 0] @ 0x1\n",
		"heap profile: 1: 2 [1: 2] @ heap/2\n1: 5 [0: 0] @ 0x10000000000000000\n",
		"heap profile: 1: 2 [1: 2] @ heapx/2\n", "heap profile: 1: 2 [1: 2] @ heap\n1: 5 [0: 0] @\n",
		"goroutine profile: total 1\n010 @ 0x1\n", "goroutine profile: total 1\n08 @ 0x1\n", "goroutine profile: total 1\n1 @ 0x10000000000000000\n",
		"goroutine profile: total 1\n1 @ 0x1 \n", "goroutine profile: total 1\nMAPPED_LIBRARIES:\n",
		"--- threadz 1 ---\n--- Thread 1 (name: a/1) stack: ---\n 0x1\n", "--- threadz 1 ---\n",
		"--- Thread 1 (name: a/1) stack: ---\n 0x1\n 0x2\n--- Memory map: ---\n",
		"--- contentionz 1 ---\nformat = java\n", "--- contentionz 1 ---\nbogus = 1\n", "--- contentionz 1 ---\ncycles/second = 0x10\nsampling period = 010\n5 6 @ 0x9\n",
		"--- contentionz 1 ---\n123 @ 0x5\n", "--- contentionz 1 ---\n1 2 3 @ 0x5\n", "--- mutex:\nsampling period = 1_0\n",
		"--- heapz 1 ---\nformat = java\n", "--- contentionz 1 ---\nsampling period = 99999999999999999999\n",
		"\x1f\x8bxx",
	} {
		emit("fixed", "mut", "fixed", L(), []byte(s), nil, false, true)
	}
}
