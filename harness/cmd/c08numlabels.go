//go:build verif

package main

// C08: deterministic part of the quick tier for the numeric labels of samples on the -dot path.
// report.newGraph keeps only the `bytes` label of a sample before the graph is built; a regression
// that keeps "some" label of a Go map instead flips only about one run in eight for a two-entry map,
// so the shapes are fixed (2, 3 and 5 numeric labels none of them `bytes`; three with `bytes` among
// them) and each is produced 64 times, through report.Generate and through driver.PProf.

import (
	"fmt"
	"strings"

	"github.com/google/pprof/internal/report"
	"github.com/google/pprof/profile"
)

var c08NumLabelSets = [][]string{
	{"latency", "size"},
	{"latency", "size", "request"},
	{"alpha", "beta", "gamma", "delta", "eps"},
	{"latency", "bytes", "size"},
}
var c08NumLabelUnits = map[string]string{"latency": "milliseconds", "size": "bytes", "request": "bytes", "bytes": "bytes",
	"alpha": "seconds", "beta": "kb", "gamma": "", "delta": "ms", "eps": "objects"}

func c08NumLabelProfile(keys []string) *profile.Profile {
	p := c08E2EFixedProfile()
	for i, s := range p.Sample {
		s.NumLabel = map[string][]int64{}
		s.NumUnit = map[string][]string{}
		for j, k := range keys {
			s.NumLabel[k] = []int64{int64((i + 1) * (j + 2) * 1000)}
			s.NumUnit[k] = []string{c08NumLabelUnits[k]}
		}
	}
	return p
}

func c08DetNumLabels(c *Ctx) {
	const reps = 64
	unstable := 0
	for _, keys := range c08NumLabelSets {
		p := c08NumLabelProfile(keys)
		for _, f := range []c08Fmt{{"dot", report.Dot}, {"callgrind", report.Callgrind}} {
			o := c08Opts{agg: 1}
			nodes, cnt := c08FullNodes(p, f.f, o)
			n, first, _ := distinct(reps, func() string { return c08Render(p, f.f, o) })
			errc := 0
			if strings.HasPrefix(first, "panic: ") {
				errc = 2
			} else if strings.HasPrefix(first, "error: ") {
				errc = 1
			}
			if n > 1 {
				unstable++
			}
			c.Case("det-numlabels", L(S("det"), S(f.name), o.term(), nodes, DumpProfile(p)), L(ZI(n), ZI(errc)), cnt >= 2, "det:"+f.name,
				fmt.Sprintf("det-numlabels:%d", len(keys)))
		}
	}
	c.Extra["det_numlabels_unstable"] = unstable
}

// the same shapes through the real command line (driver.PProf): called from c08E2E, inside its environment
func c08E2ENumLabels(c *Ctx) {
	const reps = 64
	for _, keys := range c08NumLabelSets {
		p := c08NumLabelProfile(keys)
		data := c08E2EBytes(p)
		for _, args := range [][]string{{"-dot", "-output=rep"}, {"-dot", "-lines", "-nodecount=3", "-output=rep"}} {
			n, first, _ := distinct(reps, func() string { return c08E2ERunCLI(data, args) })
			kind := first
			if strings.HasPrefix(first, "ok:") {
				kind = "ok"
			}
			c.Case("e2e-cli-numlabels", L(S("e2e-cli"), Ss(args), DumpProfile(p)), L(ZI(n), S(kind)), true, "e2e-cli", "e2e-cli:"+kind)
		}
	}
}
