//go:build verif

package main

import (
	"bytes"
	"compress/gzip"
	"encoding/json"
	"fmt"
	"io"
	"net/http"
	"net/http/httptest"
	"os"
	"regexp"
	"sort"
	"strconv"
	"strings"

	"github.com/google/pprof/internal/driver"
	"github.com/google/pprof/internal/plugin"
	"github.com/google/pprof/profile"
)

// C14 end-to-end layer: the printed legacy documents are written to files (plain or gzip) and pushed
// through the real entry points -- driver.PProf with a command line (real parseFlags, file fetch,
// report, output through the plugin Writer), an interactive session (scripted UI, `traces >file`), and
// the web handlers behind -http (httptest) -- and what is PRINTED is parsed back into the observable
// the glue model (coq/M_LegacyGlue.v) predicts from the documented conversion of the document:
// the "Type:" legend and, per sample, the value in front of the trace and the stack addresses
// (-traces), or the flat value per leaf address (web /top).

type c14Step [2]string

func c14StepsTerm(st []c14Step) Term {
	var l []Term
	for _, s := range st {
		l = append(l, L(S(s[0]), S(s[1])))
	}
	return L(l...)
}

type c14CapWriter struct {
	bufs map[string]*c14CapBuf
}
type c14CapBuf struct{ bytes.Buffer }

func (*c14CapBuf) Close() error { return nil }
func (w *c14CapWriter) Open(name string) (io.WriteCloser, error) {
	if w.bufs == nil {
		w.bufs = map[string]*c14CapBuf{}
	}
	b := &c14CapBuf{}
	w.bufs[name] = b
	return b, nil
}

func c14Gzip(data []byte) []byte {
	var b bytes.Buffer
	zw := gzip.NewWriter(&b)
	zw.Write(data)
	zw.Close()
	return b.Bytes()
}

// c14WriteDoc stores the document in the scratch cwd, plain or gzip-compressed, and returns the source name.
func c14WriteDoc(data []byte, gz bool) string {
	name := "c14doc.prof"
	if gz {
		name, data = "c14doc.prof.gz", c14Gzip(data)
	}
	os.WriteFile(name, data, 0o644)
	return name
}

var c14HexName = regexp.MustCompile(`^[0-9a-f]{16}`)

func c14NameU(name string) uint64 {
	v, _ := strconv.ParseUint(c14HexName.FindString(name), 16, 64)
	return v
}

func c14NameAddr(name string) Term {
	if m := c14HexName.FindString(name); m != "" {
		v, _ := strconv.ParseUint(m, 16, 64)
		return ZU(v)
	}
	return Z(0) // a location without an address prints no address
}

// c14Value parses "[-]digits<unit suffix>"; anything else (scaled, fractional) is reported verbatim
func c14Value(s string) Term {
	i := 0
	if strings.HasPrefix(s, "-") {
		i = 1
	}
	j := i
	for j < len(s) && s[j] >= '0' && s[j] <= '9' {
		j++
	}
	if j == i || strings.ContainsAny(s[j:], ".0123456789") {
		return S(s)
	}
	v, err := strconv.ParseInt(s[:j], 10, 64)
	if err != nil {
		return S(s)
	}
	return Z(v)
}

var c14LabelLine = regexp.MustCompile(`^\s*\S+:  `)

// c14ParseTraces turns the text of a -traces report into TL [TS "ok"; TS type; TL rows].
func c14ParseTraces(out string) Term {
	const sep = "-----------+-------------------------------------------------------"
	typ := "<no Type line>"
	var rows []Term
	var cur []Term
	var val Term
	in := false
	flush := func() {
		if cur != nil {
			rows = append(rows, L(val, L(cur...)))
		}
		cur, val = nil, nil
	}
	for _, line := range strings.Split(out, "\n") {
		switch {
		case line == sep:
			flush()
			in = true
		case !in:
			if strings.HasPrefix(line, "Type: ") {
				typ = strings.TrimPrefix(line, "Type: ")
			}
		case cur == nil && c14LabelLine.MatchString(line): // text / numeric label line
		case strings.TrimSpace(line) == "":
		case cur == nil: // first frame: "%10s   %s" with the value (which may be wider than 10)
			t := strings.TrimLeft(line, " ")
			k := strings.IndexByte(t, ' ')
			if k < 0 {
				val, cur = c14Value(t), []Term{S("<no name>")}
				continue
			}
			val = c14Value(t[:k])
			cur = append(cur, c14NameAddr(strings.TrimLeft(t[k:], " ")))
		default:
			cur = append(cur, c14NameAddr(strings.TrimLeft(line, " ")))
		}
	}
	return L(S("ok"), S(typ), L(rows...))
}

func c14BaseOptions(args []string, ui *c09UI, w *c14CapWriter) *plugin.Options {
	return &plugin.Options{UI: ui, Obj: &c09Obj{}, Sym: c09Sym{}, Writer: w, Flagset: newC09Flags(args), HTTPTransport: c09NoNet{}}
}

func c14StepArgs(steps []c14Step) []string {
	var a []string
	for _, s := range steps {
		switch s[0] {
		case "si":
			a = append(a, "-sample_index="+s[1])
		case "mean":
			if s[1] == "1" {
				a = append(a, "-mean")
			} else {
				a = append(a, "-mean=false")
			}
		case "legacy":
			a = append(a, "-"+s[1])
		}
	}
	return a
}

// c14RunCLI: pprof -traces -addresses -symbolize=none -unit=nanoseconds <options> -output=out <file>
func c14RunCLI(data []byte, gz bool, steps []c14Step) (obs Term) {
	defer func() {
		if r := recover(); r != nil {
			obs = L(L(S("panic"), S(fmt.Sprint(r))))
		}
	}()
	if !c09Reset() {
		return L(L(S("harness-poisoned")))
	}
	src := c14WriteDoc(data, gz)
	defer os.Remove(src)
	w := &c14CapWriter{}
	args := append([]string{"-traces", "-addresses", "-symbolize=none", "-unit=nanoseconds", "-output=out"}, c14StepArgs(steps)...)
	o := c14BaseOptions(append(args, src), &c09UI{}, w)
	if err := driver.PProf(o); err != nil {
		return L(L(S("err")))
	}
	b := w.bufs["out"]
	if b == nil {
		return L(L(S("no-output")))
	}
	return L(c14ParseTraces(b.String()))
}

func c14StepLine(s c14Step, k int) string {
	switch s[0] {
	case "si":
		return "sample_index=" + s[1]
	case "mean":
		return "mean=" + s[1]
	case "type":
		return s[1]
	case "total":
		return "total_" + s[1]
	case "meanof":
		return "mean_" + s[1]
	case "traces":
		return fmt.Sprintf("traces >t%d", k)
	}
	return s[1] // ("line", text): passed as is; has no effect on the selection
}

// c14RunInteractive: pprof -symbolize=none <file>, scripted input; every ("traces", _) step is `traces >tK`.
func c14RunInteractive(data []byte, gz bool, steps []c14Step) (obs Term) {
	defer func() {
		if r := recover(); r != nil {
			obs = L(L(S("panic"), S(fmt.Sprint(r))))
		}
	}()
	if !c09Reset() {
		return L(L(S("harness-poisoned")))
	}
	src := c14WriteDoc(data, gz)
	defer os.Remove(src)
	lines := []string{"granularity=addresses", "unit=nanoseconds"}
	var outs []string
	for k, s := range steps {
		lines = append(lines, c14StepLine(s, k))
		if s[0] == "traces" {
			outs = append(outs, fmt.Sprintf("t%d", k))
		}
	}
	w := &c14CapWriter{}
	o := c14BaseOptions([]string{"-symbolize=none", src}, &c09UI{lines: lines}, w)
	if err := driver.PProf(o); err != nil {
		return L(L(S("session-err")))
	}
	var reps []Term
	for _, n := range outs {
		if b := w.bufs[n]; b != nil {
			reps = append(reps, c14ParseTraces(b.String()))
		} else {
			reps = append(reps, L(S("err")))
		}
	}
	return L(reps...)
}

var c14LegendType = regexp.MustCompile(`<div>Type: ([^<]*)</div>`)

// c14RunWeb: pprof -symbolize=none -http=... <file>; GET /top with the URL parameters of each request.
func c14RunWeb(data []byte, gz bool, reqs [][]c14Step) (obs Term) {
	defer func() {
		if r := recover(); r != nil {
			obs = L(L(S("panic"), S(fmt.Sprint(r))))
		}
	}()
	if !c09Reset() {
		return L(L(S("harness-poisoned")))
	}
	src := c14WriteDoc(data, gz)
	defer os.Remove(src)
	var handlers map[string]http.Handler
	o := c14BaseOptions([]string{"-symbolize=none", "-no_browser", "-http=localhost:0", src}, &c09UI{}, &c14CapWriter{})
	o.HTTPServer = func(a *plugin.HTTPServerArgs) error { handlers = a.Handlers; return nil }
	if err := driver.PProf(o); err != nil || handlers == nil || handlers["/top"] == nil {
		return L(L(S("session-err")))
	}
	var reps []Term
	for _, rq := range reqs {
		q := "g=addresses&nf=0&ef=0&unit=nanoseconds"
		for _, s := range rq {
			switch s[0] {
			case "si":
				q += "&si=" + s[1]
			case "mean":
				q += "&mean=" + s[1]
			}
		}
		rec := httptest.NewRecorder()
		handlers["/top"].ServeHTTP(rec, httptest.NewRequest("GET", "/top?"+q, nil))
		body := rec.Body.String()
		if rec.Code != 200 {
			reps = append(reps, L(S("err")))
			continue
		}
		typ := "<no Type legend>"
		if m := c14LegendType.FindStringSubmatch(body); m != nil {
			typ = m[1]
		}
		i := strings.LastIndex(body, "makeTopTable(")
		if i >= 0 {
			i = strings.Index(body[i:], "[") + i
		}
		var items []struct {
			Name string
			Flat int64
		}
		if i < 0 || json.NewDecoder(strings.NewReader(body[i:])).Decode(&items) != nil {
			reps = append(reps, L(S("unparsable-top")))
			continue
		}
		var rows []Term
		sort.SliceStable(items, func(a, b int) bool { return c14NameU(items[a].Name) < c14NameU(items[b].Name) })
		for _, it := range items {
			if it.Flat != 0 {
				rows = append(rows, L(c14NameAddr(it.Name), Z(it.Flat)))
			}
		}
		reps = append(reps, L(S("ok"), S(typ), L(rows...)))
	}
	return L(reps...)
}

// ---------------------------------------------------------------- documents for the end-to-end layer

type c14E2EDoc struct {
	fmtName string
	doc     Term
	data    []byte
	types   []string
}

var c14E2EMap = c14MapsecT{present: true, entries: []c14DmapT{
	{kind: 0, start: "00400000", limit: "00402000", perm: "r-xp", offset: "00000000", dev: "fc:01", inode: "7", file: "/bin/main"},
	{kind: 1, start: "7f0000000000", limit: "7f0000004000", file: "/usr/lib/libc-2.15.so", offset: "1000", buildid: "abc123"}}}

func c14E2EHeap(name, rate string, h [4]string) c14HdocT {
	d := c14HdocT{name: name, rate: rate, h: h, m: c14E2EMap, lead: "  "}
	d.items = []c14HitemT{
		{c: "1", s: "1024", ac: "3", as: "6144", addrs: []string{"400801", "400901"}},
		{c: "0", s: "0", ac: "2", as: "2048", addrs: []string{"400a01", "400901"}},
		{c: "2", s: "96", ac: "2", as: "96", addrs: []string{"400801", "400b01", "7f0000000101"}},
		{c: "4", s: "64", ac: "5", as: "80", addrs: nil}, // empty stack: not shown by -traces
		{c: "-1", s: "-16", ac: "0", as: "0", addrs: []string{"400c01"}},
		{c: "1", s: "1024", ac: "3", as: "6144", addrs: []string{"400801", "400901"}}, // equal record: stays a sample of its own
	}
	return d
}

func c14E2EDocs() []c14E2EDoc {
	var out []c14E2EDoc
	add := func(fmtName string, doc Term, data []byte) {
		e := c14E2EDoc{fmtName: fmtName, doc: doc, data: data}
		if p, err := profile.ParseData(data); err == nil {
			for _, st := range p.SampleType {
				e.types = append(e.types, st.Type)
			}
		}
		out = append(out, e)
	}
	for _, h := range []c14HdocT{
		c14E2EHeap("heapprofile", "", [4]string{"3", "164", "9", "4460"}), // four columns, raw
		c14E2EHeap("heap", "1", [4]string{"3", "164", "3", "4460"}),       // four columns (one total differs), rate 1 -> raw
		c14E2EHeap("heap_v2", "1", [4]string{"3", "164", "3", "164"}),     // two columns
		c14E2EHeap("growthz", "", [4]string{"3", "164", "9", "4460"}),     // two columns whatever the totals
	} {
		add("heap", h.term(), []byte(c14JoinLines(h.lines(0))))
	}
	k := c14KdocT{header: "--- contentionz 1 ---", attrs: [][2]string{{"cycles/second", "1000000000"}, {"sampling period", "2"}}, m: c14E2EMap}
	k.items = []c14KitemT{{delay: "600", count: "3", addrs: []string{"400801", "400901"}}, {delay: "175", count: "1", addrs: []string{"400a01"}},
		{delay: "50", count: "0", addrs: []string{"400b01", "400901"}}, {delay: "7", count: "2", addrs: nil}, {delay: "600", count: "3", addrs: []string{"400801", "400901"}}}
	add("contention", k.term(), []byte(c14JoinLines(k.lines(0))))
	k2 := k
	k2.header, k2.attrs = "--- mutex:", [][2]string{{"sampling period", "5"}}
	add("contention", k2.term(), []byte(c14JoinLines(k2.lines(0))))
	cd := c14CdocT{typ: "goroutine", total: "5", m: c14E2EMap, items: []c14CitemT{{count: "3", addrs: []string{"400801", "400901"}}, {count: "2", addrs: []string{"7f0000000101"}}}}
	add("count", cd.term(), []byte(c14JoinLines(cd.lines())))
	td := c14TdocT{threadz: true, num: "1", m: c14E2EMap, blocks: []c14TblockT{
		{id: "7f794ab90940", name: "main", tid: "14748", lines: [][]string{{"400800", "400901"}, {"400a01"}}},
		{id: "7f794ab91940", name: "t1", tid: "14749", same: true},
		{id: "7f794ab92940", name: "t2", tid: "14750", lines: [][]string{{"400b00", "400b00", "400901"}}}}}
	add("thread", td.term(), []byte(c14JoinLines(td.lines(0))))
	for kind := 0; kind < 4; kind += 3 {
		pd := c14RunPDoc(kind, 2, 1, true, true)
		add("cpu", pd.term(), pd.bytes())
	}
	return out
}

var c14BigNumeral = regexp.MustCompile(`[0-9]{15,}`)

// c14E2ESafe: printed values must read back exactly (the reports format float64) and unsampled /
// float-scaled documents are left to the ParseData layer
func c14E2ESafe(data []byte, approx bool) bool {
	return !approx && !c14BigNumeral.Match(data)
}

func c14TypesOf(data []byte) []string {
	p, err := profile.ParseData(data)
	if err != nil {
		return nil
	}
	var ts []string
	for _, st := range p.SampleType {
		ts = append(ts, st.Type)
	}
	return ts
}

// c14CLISelections: every way of naming a column on the command line, alone and combined
func c14CLISelections(types []string) [][]c14Step {
	sel := [][]c14Step{nil, {{"mean", "1"}}, {{"si", "bogus"}}, {{"si", "9"}}, {{"si", "-1"}}, {{"si", "space"}}, {{"si", "inuse_space"}}, {{"si", "inuse_objects"}},
		{{"legacy", "inuse_space"}, {"legacy", "alloc_space"}}, {{"legacy", "alloc_objects"}, {"legacy", "inuse_objects"}},
		{{"legacy", "total_delay"}, {"legacy", "contentions"}}, {{"legacy", "contentions"}, {"legacy", "mean_delay"}},
		{{"si", "0"}, {"legacy", "mean_delay"}}, {{"mean", "1"}, {"mean", "0"}}}
	for _, l := range []string{"total_delay", "mean_delay", "contentions", "inuse_space", "inuse_objects", "alloc_space", "alloc_objects"} {
		sel = append(sel, []c14Step{{"legacy", l}})
	}
	for i, t := range types {
		sel = append(sel, []c14Step{{"si", t}}, []c14Step{{"si", strconv.Itoa(i)}}, []c14Step{{"mean", "1"}, {"si", t}},
			[]c14Step{{"si", t}, {"legacy", "inuse_space"}}, []c14Step{{"si", "inuse_" + t}}, []c14Step{{"si", "bogus"}, {"si", t}})
	}
	return sel
}

// c14History: a deterministic interactive history per profile: every total_/mean_ shortcut after the other,
// assignments by name and number, a failing assignment, each followed by a report
func c14History(types []string) []c14Step {
	h := []c14Step{{"traces", ""}}
	for i, t := range types {
		h = append(h, c14Step{"meanof", t}, c14Step{"traces", ""}, c14Step{"total", t}, c14Step{"traces", ""},
			c14Step{"mean", "1"}, c14Step{"type", t}, c14Step{"traces", ""}, c14Step{"si", "bogus"}, c14Step{"traces", ""},
			c14Step{"mean", "0"}, c14Step{"si", strconv.Itoa(i)}, c14Step{"traces", ""}, c14Step{"si", "inuse_" + t}, c14Step{"traces", ""})
	}
	h = append(h, c14Step{"si", ""}, c14Step{"traces", ""})
	return h
}

func c14RandHistory(r *Rng, types []string) []c14Step {
	var h []c14Step
	pool := append([]string{"bogus", "space", "inuse_space", "0", "1", "7", ""}, types...)
	for n := 4 + r.Intn(8); n > 0; n-- {
		switch r.Intn(8) {
		case 0:
			h = append(h, c14Step{"si", PickS(r, pool)})
		case 1:
			h = append(h, c14Step{"mean", PickS(r, []string{"0", "1"})})
		case 2:
			h = append(h, c14Step{"type", PickS(r, types)})
		case 3:
			h = append(h, c14Step{"total", PickS(r, types)})
		case 4:
			h = append(h, c14Step{"meanof", PickS(r, types)})
		case 5:
			h = append(h, c14Step{"line", PickS(r, []string{"sort=cum", "nodecount=3", "top 2 >discard", "unit=nanoseconds", "call_tree", "compact_labels=false"})})
		default:
			h = append(h, c14Step{"traces", ""})
		}
	}
	return append(h, c14Step{"traces", ""})
}

func c14RunE2E(c *Ctx) {
	c09Env()
	flags := L(Bool(false), Bool(false))
	e2e := func(gen, kind string, d c14E2EDoc, steps Term, obs Term, tags ...string) {
		in := L(S(kind), S(d.fmtName), d.doc, S(""), L(), flags, steps)
		c.Case(gen, in, obs, true, append(tags, "fmt:"+d.fmtName, "kind:"+kind)...)
	}
	n := 0
	for _, d := range c14E2EDocs() {
		// ParseData on the gzip-compressed document: same profile as the plain one
		in := L(S("gzdoc"), S(d.fmtName), d.doc, S(string(d.data)), L(), flags)
		c.Case("gz-parsedata", in, c14Observe(c14Gzip(d.data)), true, "fmt:"+d.fmtName, "kind:gzdoc")
		if len(d.types) == 0 {
			continue
		}
		for _, sel := range c14CLISelections(d.types) {
			gz := n%3 == 0
			n++
			e2e("e2e-cli", "e2e-cli", d, c14StepsTerm(sel), c14RunCLI(d.data, gz, sel), fmt.Sprintf("gz:%v", gz))
		}
		h := c14History(d.types)
		e2e("e2e-int", "e2e-int", d, c14StepsTerm(h), c14RunInteractive(d.data, false, h))
		e2e("e2e-int", "e2e-int", d, c14StepsTerm(h), c14RunInteractive(d.data, true, h), "gz:true")
		for q := 0; q < 2; q++ {
			rh := c14RandHistory(c.R, d.types)
			e2e("e2e-int-rand", "e2e-int", d, c14StepsTerm(rh), c14RunInteractive(d.data, q == 1, rh))
		}
		reqs := [][]c14Step{nil, {{"mean", "1"}}, {{"si", "bogus"}}, {{"si", "inuse_space"}}, {{"si", "space"}}}
		for i, t := range d.types {
			reqs = append(reqs, []c14Step{{"si", t}}, []c14Step{{"si", strconv.Itoa(i)}}, []c14Step{{"mean", "1"}, {"si", t}}, nil)
		}
		var rt []Term
		for _, rq := range reqs {
			rt = append(rt, c14StepsTerm(rq))
		}
		e2e("e2e-web", "e2e-web", d, L(rt...), c14RunWeb(d.data, n%2 == 0, reqs))
	}
	c09Cleanup()
}

// c14E2ERandom: one command line and one random interactive history on a randomly generated document
func c14E2ERandom(c *Ctx, fmtName string, doc Term, data []byte, approx bool) {
	if !c14E2ESafe(data, approx) {
		return
	}
	d := c14E2EDoc{fmtName: fmtName, doc: doc, data: data, types: c14TypesOf(data)}
	if len(d.types) == 0 {
		return
	}
	flags := L(Bool(false), Bool(false))
	sels := c14CLISelections(d.types)
	sel := sels[c.R.Intn(len(sels))]
	gz := c.R.P(1, 3)
	c.Case("e2e-cli-rand", L(S("e2e-cli"), S(fmtName), doc, S(""), L(), flags, c14StepsTerm(sel)), c14RunCLI(data, gz, sel), true, "fmt:"+fmtName, "kind:e2e-cli")
	rh := c14RandHistory(c.R, d.types)
	c.Case("e2e-int-rand", L(S("e2e-int"), S(fmtName), doc, S(""), L(), flags, c14StepsTerm(rh)), c14RunInteractive(data, !gz, rh), true, "fmt:"+fmtName, "kind:e2e-int")
}
