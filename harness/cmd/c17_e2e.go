//go:build verif

package main

import (
	"bytes"
	"fmt"
	"net/http/httptest"
	"net/url"
	"os"
	"path/filepath"
	"sort"
	"strconv"
	"strings"

	"github.com/google/pprof/internal/driver"
	"github.com/google/pprof/internal/graph"
	"github.com/google/pprof/internal/plugin"
	"github.com/google/pprof/internal/report"
	"github.com/google/pprof/profile"
)

// End-to-end layer of C17.  The flame-graph stack set is observable on one entry point only: the
// /flamegraph page of `pprof -http`.  Here it is reached the way a user reaches it: driver.PProf with
// a FlagSet built from command-line arguments (real parseFlags), the profile fetched through a
// Fetcher plug-in from its serialized bytes (real fetch/merge/symbolize/prune pipeline), the real
// serveWebInterface handlers captured through the HTTPServer plug-in and driven with a history of
// requests (other views first, repeated and refused requests in between).  Every /flamegraph page
// is read as a browser reads it (c17FromPage) and judged against the glue model
// (coq/M_StacksGlue.v: flags + URL parameters -> options and aggregation) applied to the profile
// AS THE USER LOADED IT (the harness's own profile.ParseData of the same bytes), followed by the
// model of Stacks().

type c17Flags struct {
	si      string   // -sample_index
	legacy  []string // -inuse_space ... (names without dash)
	mean    bool
	gran    string // granularity choice flag
	noinl   bool
	cols    bool
	trim    string
	divide  float64 // 0 = not given
	others  []string // flags that must not matter to the stack set
}

func (f c17Flags) args() []string {
	var a []string
	if f.si != "" {
		a = append(a, "-sample_index="+f.si)
	}
	for _, l := range f.legacy {
		a = append(a, "-"+l)
	}
	if f.mean {
		a = append(a, "-mean")
	}
	if f.gran != "" {
		a = append(a, "-"+f.gran)
	}
	if f.noinl {
		a = append(a, "-noinlines")
	}
	if f.cols {
		a = append(a, "-showcolumns")
	}
	if f.trim != "" {
		a = append(a, "-trim_path="+f.trim)
	}
	if f.divide != 0 {
		a = append(a, "-divide_by="+strconv.FormatFloat(f.divide, 'g', -1, 64))
	}
	return append(a, f.others...)
}

func (f c17Flags) term() Term {
	return L(S(f.si), Ss(f.legacy), Bool(f.mean), S(f.gran), Bool(f.noinl), Bool(f.cols), S(f.trim))
}

func (f c17Flags) ratio() float64 {
	if f.divide == 0 {
		return 1
	}
	return 1 / f.divide
}

type c17Req struct{ path, rawq string }

// c17OraclesAll: oracle answers for every full name any granularity / showcolumns combination can
// produce (line info absent, line only, line and column), computed without the driver.
func c17OraclesAll(p *profile.Profile, trim string) (Term, Term) {
	sh, cl := map[string]string{}, map[string]string{}
	for _, l := range p.Location {
		for _, ln := range l.Line {
			if ln.Function == nil {
				continue
			}
			for _, lc := range [][2]int64{{0, 0}, {ln.Line, 0}, {ln.Line, ln.Column}} {
				if n := ln.Function.Name; n != "" {
					full := c17AddLineInfo(n, lc[0], lc[1])
					if s := graph.ShortenFunctionName(full); s != full {
						sh[full] = s
					}
				}
				full := c17AddLineInfo(report.VerifC17TrimPath(ln.Function.Filename, trim, ""), lc[0], lc[1])
				if full != "" {
					if c := filepath.ToSlash(filepath.Clean(full)); c != full {
						cl[full] = c
					}
				}
			}
		}
	}
	tab := func(m map[string]string) Term {
		var ks []string
		for k := range m {
			ks = append(ks, k)
		}
		sort.Strings(ks)
		var es []Term
		for _, k := range ks {
			es = append(es, L(S(k), S(m[k])))
		}
		return L(es...)
	}
	return tab(sh), tab(cl)
}

// c17E2E runs one `pprof -http <flags> p` session and fires reqs at the registered handlers in
// order.  One case per /flamegraph request.
func c17E2E(c *Ctx, gen string, p *profile.Profile, f c17Flags, reqs []c17Req, tags ...string) {
	p.DropFrames, p.KeepFrames = "", "" // frame dropping on load is C11's subject
	var buf bytes.Buffer
	if err := p.Write(&buf); err != nil {
		return
	}
	data := buf.Bytes()
	loaded, err := profile.ParseData(data)
	if err != nil {
		return
	}
	driver.VerifC09Reset()
	type answer struct {
		status int
		page   string
	}
	answers := map[int]answer{}
	server := func(a *plugin.HTTPServerArgs) error {
		for k, rq := range reqs {
			h := a.Handlers[rq.path]
			if h == nil {
				continue
			}
			func() {
				defer func() {
					if e := recover(); e != nil {
						answers[k] = answer{-1, fmt.Sprint(e)}
					}
				}()
				req := httptest.NewRequest("GET", "http://localhost"+rq.path, nil)
				req.URL.RawQuery = rq.rawq
				w := httptest.NewRecorder()
				h.ServeHTTP(w, req)
				answers[k] = answer{w.Code, w.Body.String()}
			}()
		}
		return nil
	}
	args := append(append([]string{"-http=localhost:8080"}, f.args()...), "p")
	o := &plugin.Options{UI: &c09UI{}, Obj: &c09Obj{}, Sym: c09Sym{}, Writer: &c09Writer{}, Flagset: newC09Flags(args),
		Fetch: c09Fetch{data}, HTTPServer: server, HTTPTransport: c09NoNet{}}
	var perr error
	func() {
		defer func() {
			if e := recover(); e != nil {
				perr = fmt.Errorf("panic: %v", e)
			}
		}()
		perr = driver.PProf(o)
	}()
	driver.VerifC09Reset()
	c09Cleanup()
	sh, cl := c17OraclesAll(loaded, f.trim)
	lp := DumpProfile(loaded)
	ft, frames := c17Features(loaded)
	var hist []Term
	for k, rq := range reqs {
		hist = append(hist, L(S(rq.path), S(rq.rawq)))
		if rq.path != "/flamegraph" {
			continue
		}
		q, _ := url.ParseQuery(rq.rawq)
		ut := L(S(q.Get("si")), S(q.Get("mean")), S(q.Get("g")), S(q.Get("noinlines")), S(q.Get("showcolumns")))
		in := L(S("e2e"), lp, f.term(), ut, Rat(f.ratio()), L(append([]Term{}, hist...)...), sh, cl, Ss(f.args()))
		var obs Term
		a, ok := answers[k]
		switch {
		case perr != nil:
			obs = L(S("pprof-failed"), S(perr.Error()))
		case !ok:
			obs = L(S("not-served"))
		case a.status == -1:
			obs = L(S("panic"), S(a.page))
		case a.status != 200:
			if os.Getenv("C17_DEBUG") != "" {
				fmt.Fprintf(os.Stderr, "C17 %v %s?%s -> %d %s\n", f.args(), rq.path, rq.rawq, a.status, strings.TrimSpace(a.page))
			}
			obs = L(S("http"), ZI(a.status))
		default:
			obs = c17FromPage(a.page)
		}
		c.Case(gen, in, obs, frames > 0, append(append([]string{"path:e2e", fmt.Sprintf("request:%d", k+1)}, tags...), ft...)...)
	}
}

// ---------------------------------------------------------------------------------------------
// deterministic sessions (the decisive shapes are not left to the PRNG)

// c17E2EProfile: three sample types with names that need URL decoding, equal function names in two
// files, inlining, columns, a stack occurring three times (values +, +, -), a zero sample, an empty stack.
func c17E2EProfile() *profile.Profile {
	fm := &profile.Function{ID: 1, Name: "main", Filename: "/src/main.go"}
	fa := &profile.Function{ID: 2, Name: "work", Filename: "/src/a.go"}
	fb := &profile.Function{ID: 3, Name: "work", Filename: "/src/b.go"}
	fi := &profile.Function{ID: 4, Name: "inl", Filename: "/src/a.go"}
	m := &profile.Mapping{ID: 1, Start: 0x1000, Limit: 0x9000, File: "/bin/prog", HasFunctions: true, HasFilenames: true, HasLineNumbers: true, HasInlineFrames: true}
	lm := &profile.Location{ID: 1, Mapping: m, Address: 0x1100, Line: []profile.Line{{Function: fm, Line: 10, Column: 3}}}
	la := &profile.Location{ID: 2, Mapping: m, Address: 0x1200, Line: []profile.Line{{Function: fi, Line: 7, Column: 1}, {Function: fa, Line: 20, Column: 5}}}
	lb := &profile.Location{ID: 3, Mapping: m, Address: 0x1300, Line: []profile.Line{{Function: fb, Line: 20, Column: 5}}}
	lb2 := &profile.Location{ID: 4, Mapping: m, Address: 0x1400, Line: []profile.Line{{Function: fb, Line: 21}}}
	s := func(v0, v1, v2 int64, locs ...*profile.Location) *profile.Sample {
		return &profile.Sample{Location: locs, Value: []int64{v0, v1, v2}}
	}
	return &profile.Profile{
		SampleType: []*profile.ValueType{{Type: "inuse_space", Unit: "bytes"}, {Type: "alloc_space", Unit: "bytes"}, {Type: "x+y %z", Unit: "ms"}},
		Mapping:    []*profile.Mapping{m}, Function: []*profile.Function{fm, fa, fb, fi},
		Location: []*profile.Location{lm, la, lb, lb2},
		Sample: []*profile.Sample{
			s(500, 4096, 7, la, lm), s(300, 1024, 0, lb, lm), s(200, 2048, 5, la, lm), s(0, 0, 0, lb2, lb, lm),
			s(-100, 512, -3, la, lm), s(40, 8, 1), s(60, 16, 2, lb2, lm), s(300, 1024, 9, lb, lm),
		},
		PeriodType: &profile.ValueType{Type: "space", Unit: "bytes"}, Period: 1,
	}
}

func c17E2EFixed(c *Ctx) {
	fg := func(q string) c17Req { return c17Req{"/flamegraph", q} }
	// histories: another view with the same query immediately before, in between, after a refused request
	for i, q := range []string{"", "si=alloc_space", "g=functions", "g=lines&showcolumns=t", "si=0&noinlines=t&n=5"} {
		_ = i
		c17E2E(c, "e2e-history", c17E2EProfile(), c17Flags{}, []c17Req{{"/", q}, fg(q), {"/top", q}, fg(q), fg(q)}, "q:"+q)
		c17E2E(c, "e2e-history", c17E2EProfile(), c17Flags{}, []c17Req{fg(q), {"/", q}, {"/peek", "f=work&" + q}, fg(q), {"/source", "f=work&" + q}, fg(q)}, "q:"+q)
	}
	c17E2E(c, "e2e-history", c17E2EProfile(), c17Flags{}, []c17Req{{"/", "g=files"}, fg(""), fg("g=bogus"), fg("g=files"), {"/", ""}, fg("si=nosuchtype"), fg(""), {"/download", ""}, fg("si=2")})
	// command line x URL: every way of selecting the sample value on the command line against every
	// way of selecting it in the URL
	urls := []string{"", "si=alloc_space", "si=inuse_space", "si=0", "si=2", "si=" + url.QueryEscape("x+y %z"), "si=space", "si=7", "si=alloc_space&mean=t", "mean=f"}
	for _, fl := range []c17Flags{{}, {si: "inuse_space"}, {si: "1"}, {si: "x+y %z"}, {legacy: []string{"alloc_space"}}, {legacy: []string{"inuse_space", "alloc_objects"}},
		{si: "alloc_space", mean: true}, {legacy: []string{"mean_delay"}}} {
		var reqs []c17Req
		for _, u := range urls {
			reqs = append(reqs, fg(u))
		}
		c17E2E(c, "e2e-flag-x-url", c17E2EProfile(), fl, reqs)
	}
	// -divide_by against sample units that are not their family's default (the scale has to carry
	// both the unit factor and the ratio); includes a sample with an empty stack for Total
	for _, dv := range []float64{4, 0.5, 1} {
		p := c17E2EProfile()
		p.SampleType[0].Unit, p.SampleType[1].Unit, p.SampleType[2].Unit = "nanoseconds", "kB", "ms"
		c17E2E(c, "e2e-scale", p, c17Flags{divide: dv}, []c17Req{fg("si=0"), fg("si=1"), fg("si=2"), fg("si=2&mean=t")})
	}
	// -trim_path (and the built-in /proc/self/cwd/ prefix) making the displayed file names of equal-named
	// functions coincide
	for _, tc := range [][]string{{"/build/a:/build/b", "/build/a/src/run.go", "/build/b/src/run.go", "src/run.go"},
		{"", "/proc/self/cwd/src/run.go", "src/run.go", "/proc/self/cwd/./src/run.go"}, {"/src", "/src/x.go", "x.go", "/proc/self/cwd/x.go"}} {
		p := &profile.Profile{SampleType: []*profile.ValueType{{Type: "cpu", Unit: "ms"}}}
		for j, fl := range tc[1:] {
			f := &profile.Function{ID: uint64(j + 1), Name: "run", SystemName: "run", Filename: fl}
			l := &profile.Location{ID: uint64(j + 1), Line: []profile.Line{{Function: f, Line: 7}}}
			p.Function, p.Location = append(p.Function, f), append(p.Location, l)
			p.Sample = append(p.Sample, &profile.Sample{Location: []*profile.Location{l}, Value: []int64{int64(10 * (j + 1))}})
		}
		p.Sample = append(p.Sample, &profile.Sample{Location: append([]*profile.Location{}, p.Location...), Value: []int64{7}})
		c17E2E(c, "e2e-trim-collide", p, c17Flags{trim: tc[0]}, []c17Req{fg(""), fg("g=files"), fg("g=lines"), fg("g=functions")})
	}
	// the other options: given on the command line, overridden (or not) in the URL
	for _, fl := range []c17Flags{
		{gran: "functions", noinl: true, cols: true, trim: "/src", divide: 2},
		{gran: "lines", cols: true, divide: 0.5, others: []string{"-nodecount=3", "-call_tree", "-unit=kb"}},
		{gran: "files", trim: "/src/", others: []string{"-trim=false", "-drop_negative", "-cum"}},
		{gran: "addresses", noinl: true}, {gran: "filefunctions"}, {noinl: true}, {cols: true},
	} {
		c17E2E(c, "e2e-options", c17E2EProfile(), fl, []c17Req{fg(""), fg("g=files"), fg("g=lines&showcolumns=f"), fg("noinlines=f&showcolumns=t&g=addresses"),
			fg("noinlines=t"), fg("g=functions&dropneg=t&calltree=f&n=2&nf=0.5&ef=0.5&trim=f&sort=cum&unit=ms&compact=t&rel=t"), fg("g=filefunctions&noinlines=no&showcolumns=YES"), fg("showcolumns=maybe")})
	}
}

var c17E2ETypes = []string{"samples", "cpu", "alloc_space", "inuse_space", "space", "delay", "contentions", "a b", "x+y", "50%", "q&a=1", "0", "mean_cpu"}

func c17E2ERandom(c *Ctx, r *Rng) {
	p := c17Profile(r, true)
	// distinct sample type names: profile.CompatibilizeSampleTypes, which the driver applies to what it
	// fetched, drops every sample type whose name occurs twice in a (single) profile
	used := map[string]bool{}
	for _, st := range p.SampleType {
		if r.P(1, 2) {
			st.Type = PickS(r, c17E2ETypes)
		}
		for used[st.Type] {
			st.Type = PickS(r, c17E2ETypes)
		}
		used[st.Type] = true
	}
	if p.DefaultSampleType != "" {
		p.DefaultSampleType = p.SampleType[r.Intn(len(p.SampleType))].Type
	}
	if len(p.Sample) > 0 { // not pre-aggregated: repeated stacks, zero samples, opposite signs
		for k := r.Intn(3); k > 0; k-- {
			s := p.Sample[r.Intn(len(p.Sample))]
			d := &profile.Sample{Location: append([]*profile.Location{}, s.Location...), Value: append([]int64{}, s.Value...)}
			switch r.Intn(3) {
			case 0:
				for i := range d.Value {
					d.Value[i] = -d.Value[i]
				}
			case 1:
				for i := range d.Value {
					d.Value[i] = 0
				}
			}
			at := r.Intn(len(p.Sample) + 1)
			p.Sample = append(p.Sample[:at], append([]*profile.Sample{d}, p.Sample[at:]...)...)
		}
	}
	var f c17Flags
	if r.P(1, 2) {
		f.si = []string{p.SampleType[r.Intn(len(p.SampleType))].Type, strconv.Itoa(r.Intn(len(p.SampleType)))}[r.Intn(2)]
	}
	if r.P(1, 6) {
		f.legacy = []string{PickS(r, []string{"inuse_space", "alloc_space", "contentions", "total_delay", "mean_delay", "inuse_objects"})}
	}
	f.mean = r.P(1, 5)
	if r.P(1, 3) {
		f.gran = c17Grans[1+r.Intn(len(c17Grans)-1)]
	}
	f.noinl, f.cols = r.P(1, 4), r.P(1, 4)
	f.trim = PickS(r, c17Trims)
	f.divide = []float64{0, 0, 1, 2, 0.5, 1000}[r.Intn(6)]
	q := func() string {
		v := url.Values{}
		if r.P(1, 2) {
			v.Set("si", []string{p.SampleType[r.Intn(len(p.SampleType))].Type, strconv.Itoa(r.Intn(len(p.SampleType) + 1)), "inuse_" + p.SampleType[0].Type}[r.Intn(3)])
		}
		if r.P(1, 3) {
			v.Set("g", c17Grans[1+r.Intn(len(c17Grans)-1)])
		}
		if r.P(1, 4) {
			v.Set("mean", PickS(r, []string{"t", "f", "true", "0", "Y"}))
		}
		if r.P(1, 4) {
			v.Set("noinlines", PickS(r, []string{"t", "f", "1", "no"}))
		}
		if r.P(1, 4) {
			v.Set("showcolumns", PickS(r, []string{"t", "f", "yes", "N"}))
		}
		if r.P(1, 4) {
			kv := [][2]string{{"n", "1"}, {"nf", "0.1"}, {"sort", "cum"}, {"trim", "f"}, {"calltree", "t"}, {"unit", "ms"}, {"rel", "t"}}[r.Intn(7)]
			v.Set(kv[0], kv[1])
		}
		return v.Encode()
	}
	var reqs []c17Req
	last := ""
	for k := 2 + r.Intn(4); k > 0; k-- {
		if r.P(1, 3) {
			last = q()
		}
		switch r.Intn(5) {
		case 0:
			reqs = append(reqs, c17Req{PickS(r, []string{"/", "/top", "/peek", "/source", "/disasm", "/download"}), last})
		case 1:
			reqs = append(reqs, c17Req{"/flamegraph", PickS(r, []string{"g=bogus", "si=nosuch", "mean=perhaps", "showcolumns=2"})})
		default:
			reqs = append(reqs, c17Req{"/flamegraph", last})
		}
	}
	reqs = append(reqs, c17Req{"/flamegraph", last})
	c17E2E(c, "e2e-random", p, f, reqs)
}

func c17E2EEnv() {
	cwd, _ := os.Getwd()
	for _, d := range []string{"emptybin", "tmp"} {
		os.MkdirAll(filepath.Join(cwd, d), 0o755)
	}
	os.Setenv("PATH", filepath.Join(cwd, "emptybin")) // no dot, no browser, no external tool
	os.Setenv("TMPDIR", filepath.Join(cwd, "tmp"))
	os.Setenv("PPROF_TMPDIR", filepath.Join(cwd, "tmp"))
	os.Setenv("PPROF_BINARY_PATH", filepath.Join(cwd, "emptybin"))
	os.Unsetenv("BROWSER")
	os.Unsetenv("DISPLAY")
	os.Unsetenv("PPROF_TOOLS")
	_ = strings.TrimSpace
}
