//go:build verif

// Command harness is the correspondence harness of /verif. It is compiled INTO /repo's module
// through `go build -overlay` (nothing is written under /repo), generates inputs from one PRNG,
// runs the implementation on them and writes (input, observed) cases as JSON lines.
package main

import (
	"bufio"
	"crypto/sha256"
	"encoding/hex"
	"encoding/json"
	"flag"
	"fmt"
	"os"
	"sort"
	"strings"
)

type Ctx struct {
	Prop  string
	Tier  string
	Seed  uint64
	R     *Rng
	N     int // case budget multiplier
	out   *bufio.Writer
	count int
	dist  map[string]int
	seen  map[string]bool
	nontr int
	Extra map[string]interface{} // free-form, copied into the evidence
}

type caseLine struct {
	In   string   `json:"in"`
	Obs  string   `json:"obs"`
	Gen  string   `json:"gen"`
	Tags []string `json:"tags,omitempty"`
	NT   bool     `json:"nt"`
}

// Case records one (input, observed) pair. gen names the generator/stream, tags feed the input
// distribution written to the evidence, nontrivial is the per-property non-triviality rule.
// onlyGens: VERIF_ONLY="gen:prefix1,prefix2" (set when another property reuses this harness for one
// of its clauses) keeps only the cases whose generator name starts with one of the prefixes.
var onlyGens = func() []string {
	if v := os.Getenv("VERIF_ONLY"); strings.HasPrefix(v, "gen:") {
		return strings.Split(v[4:], ",")
	}
	return nil
}()

func (c *Ctx) Case(gen string, in, obs Term, nontrivial bool, tags ...string) {
	if onlyGens != nil {
		keep := false
		for _, p := range onlyGens {
			keep = keep || strings.HasPrefix(gen, p)
		}
		if !keep {
			return
		}
	}
	cl := caseLine{In: Render(in), Obs: Render(obs), Gen: gen, Tags: tags, NT: nontrivial}
	b, _ := json.Marshal(cl)
	c.out.Write(b)
	c.out.WriteByte('\n')
	c.count++
	c.dist["gen:"+gen]++
	for _, t := range tags {
		c.dist[t]++
	}
	h := sha256.Sum256([]byte(cl.In))
	k := hex.EncodeToString(h[:8])
	if !c.seen[k] {
		c.seen[k] = true
		if nontrivial {
			c.nontr++
		}
	}
}

type propFn func(c *Ctx)

var registry = map[string]propFn{}
var subcmds = map[string]func(args []string){}

func main() {
	if len(os.Args) >= 2 {
		if f, ok := subcmds[os.Args[1]]; ok {
			f(os.Args[2:])
			return
		}
	}
	prop := flag.String("prop", "", "property id")
	tier := flag.String("tier", "quick", "quick|thorough")
	seed := flag.Uint64("seed", 1, "PRNG seed")
	out := flag.String("out", "", "output cases file (jsonl)")
	meta := flag.String("meta", "", "output meta file (json)")
	n := flag.Int("n", 0, "override case budget")
	flag.Parse()
	f, ok := registry[*prop]
	if !ok {
		var ks []string
		for k := range registry {
			ks = append(ks, k)
		}
		sort.Strings(ks)
		fmt.Fprintf(os.Stderr, "unknown property %q; have %v\n", *prop, ks)
		os.Exit(2)
	}
	of, err := os.Create(*out)
	if err != nil {
		fmt.Fprintln(os.Stderr, err)
		os.Exit(2)
	}
	c := &Ctx{Prop: *prop, Tier: *tier, Seed: *seed, R: NewRng(*seed), N: *n, out: bufio.NewWriterSize(of, 1<<20),
		dist: map[string]int{}, seen: map[string]bool{}, Extra: map[string]interface{}{}}
	f(c)
	c.out.Flush()
	of.Close()
	m := map[string]interface{}{
		"cases": c.count, "distinct": len(c.seen), "distinct_nontrivial": c.nontr,
		"distribution": c.dist, "extra": c.Extra,
	}
	mb, _ := json.MarshalIndent(m, "", " ")
	if *meta != "" {
		os.WriteFile(*meta, mb, 0o644)
	}
}

// Budget returns the number of cases for a stream: quick q, thorough t, or the -n override.
func (c *Ctx) Budget(q, t int) int {
	if c.N > 0 {
		return c.N
	}
	if c.Tier == "thorough" {
		return t
	}
	return q
}

// Rng is splitmix64; every random choice of a run derives from the one seed.
type Rng struct{ s uint64 }

func NewRng(seed uint64) *Rng { return &Rng{seed*0x9E3779B97F4A7C15 + 0x1234567} }
func (r *Rng) U64() uint64 {
	r.s += 0x9E3779B97F4A7C15
	z := r.s
	z = (z ^ (z >> 30)) * 0xBF58476D1CE4E5B9
	z = (z ^ (z >> 27)) * 0x94D049BB133111EB
	return z ^ (z >> 31)
}
func (r *Rng) Intn(n int) int {
	if n <= 0 {
		return 0
	}
	return int(r.U64() % uint64(n))
}
func (r *Rng) Bool() bool             { return r.U64()&1 == 1 }
func (r *Rng) P(num, den int) bool    { return r.Intn(den) < num }
func (r *Rng) I64() int64             { return int64(r.U64()) }
func PickS(r *Rng, l []string) string { return l[r.Intn(len(l))] }
func PickI(r *Rng, l []int64) int64   { return l[r.Intn(len(l))] }
