//go:build verif

package main

// C09 exploration streams, each run in a child process of the harness (see c09RunChildren).

import (
	"bufio"
	"encoding/json"
	"fmt"
	"net/url"
	"os"
	"os/exec"
	"strconv"
	"strings"
	"sync"
	"time"

	"github.com/google/pprof/internal/driver"
	"github.com/google/pprof/profile"
)

func init() {
	subcmds["c09-child"] = c09Child
}

type c09RawTerm struct{ s string }

func (t c09RawTerm) coq(sb *strings.Builder) { sb.WriteString(t.s) }

type c09ChildLine struct {
	Announce string   `json:"announce,omitempty"` // input about to be run
	In       string   `json:"in,omitempty"`
	Obs      string   `json:"obs,omitempty"`
	Gen      string   `json:"gen,omitempty"`
	Tags     []string `json:"tags,omitempty"`
	NT       bool     `json:"nt,omitempty"`
}

var c09ChildOut *bufio.Writer // non-nil in a child: cases go to stdout as c09ChildLine

// c09Announce tells the parent which input is about to run, so that a death of the process can
// be attributed to it.
func c09Announce(gen string, in Term) {
	if c09ChildOut != nil {
		b, _ := json.Marshal(c09ChildLine{Announce: Render(in), Gen: gen})
		c09ChildOut.Write(b)
		c09ChildOut.WriteByte('\n')
		c09ChildOut.Flush()
	}
}

// c09Emit records a case: directly in the parent, as a line on stdout in a child.
func c09Emit(c *Ctx, gen string, in, obs Term, nt bool, tags ...string) {
	if c09ChildOut == nil {
		c.Case(gen, in, obs, nt, tags...)
		return
	}
	b, _ := json.Marshal(c09ChildLine{In: Render(in), Obs: Render(obs), Gen: gen, Tags: tags, NT: nt})
	c09ChildOut.Write(b)
	c09ChildOut.WriteByte('\n')
	c09ChildOut.Flush()
	if c09Poisoned {
		// a call of this case never returned; its goroutine may hold a lock of the driver package
		// or spin: nothing more can be run here.  The case above carries the "hang" observable.
		os.Exit(c09ExitPoisoned)
	}
}

const c09ExitPoisoned = 3

// c09Child: harness c09-child <stream> <seed> <tier> <n>   (cwd = a scratch directory of its own)
func c09Child(args []string) {
	seed, _ := strconv.ParseUint(args[1], 10, 64)
	n, _ := strconv.Atoi(args[3])
	c09ChildOut = bufio.NewWriterSize(os.NewFile(uintptr(3), "cases"), 1<<16)
	c := &Ctx{Prop: "C09", Tier: args[2], Seed: seed, R: NewRng(seed), N: n, dist: map[string]int{}, seen: map[string]bool{}, Extra: map[string]interface{}{}}
	c09Env()
	c09Explore(c, args[0])
	if c09Poisoned { // a watchdog fired outside any case (state reset): report it against the stream
		c09Emit(c, args[0], L(S("died"), S(args[0])), L(L(S("hang"))), true, "op:"+args[0])
	}
	c09ChildOut.Flush()
}

// c09RunChildren runs the exploration streams in parallel child processes and merges their cases
// in a fixed order.  A child that dies yields a case whose observable is the death.
func c09RunChildren(c *Ctx, streams []string) {
	type res struct {
		lines []c09ChildLine
		died  string
		wall  float64
	}
	out := make([]res, len(streams))
	var wg sync.WaitGroup
	cwd, _ := os.Getwd()
	for i, st := range streams {
		wg.Add(1)
		go func(i int, st string) {
			defer wg.Done()
			t0 := time.Now()
			dir := cwd + "/child-" + st
			os.MkdirAll(dir, 0o755)
			pr, pw, err := os.Pipe()
			if err != nil {
				out[i].died = err.Error()
				return
			}
			cmd := exec.Command(os.Args[0], "c09-child", st, strconv.FormatUint(c.Seed*1000003+uint64(i)+1, 10), c.Tier, strconv.Itoa(c.N))
			cmd.Dir = dir
			cmd.ExtraFiles = []*os.File{pw}
			var stderr strings.Builder
			cmd.Stderr = &stderr
			if err := cmd.Start(); err != nil {
				out[i].died = err.Error()
				return
			}
			pw.Close()
			sc := bufio.NewScanner(pr)
			sc.Buffer(make([]byte, 1<<20), 1<<26)
			for sc.Scan() {
				var l c09ChildLine
				if json.Unmarshal(sc.Bytes(), &l) == nil {
					out[i].lines = append(out[i].lines, l)
				}
			}
			if err := cmd.Wait(); err != nil && cmd.ProcessState.ExitCode() != c09ExitPoisoned {
				msg := stderr.String()
				if k := strings.Index(msg, "\n\n"); k > 0 {
					msg = msg[:k]
				}
				if len(msg) > 300 {
					msg = msg[:300]
				}
				out[i].died = err.Error() + ": " + msg
			}
			out[i].wall = time.Since(t0).Seconds()
		}(i, st)
	}
	wg.Wait()
	for i, st := range streams {
		var pending *c09ChildLine
		for k := range out[i].lines {
			l := out[i].lines[k]
			if l.Announce != "" {
				pending = &out[i].lines[k]
				continue
			}
			pending = nil
			c.Case(l.Gen, c09RawTerm{l.In}, c09RawTerm{l.Obs}, l.NT, l.Tags...)
		}
		if out[i].died != "" {
			in := L(S("died"), S(st))
			gen := st
			if pending != nil {
				in, gen = c09RawTerm{pending.Announce}, pending.Gen
			}
			// the process exited abnormally while (or right after) running this input
			c.Case(gen, in, L(L(S("panic"), S("process died: "+out[i].died))), true, "op:"+st, "process-died")
		}
		c.Extra[st+"_wall_s"] = out[i].wall
	}
}

// c09MeanProfile: at least two sample types, at least one sample, and the first value of every
// other sample (incl. the first) is 0 while the sample keeps its stack.
func c09MeanProfile(r *Rng) *profile.Profile {
	for {
		p := c09Profile(r, false)
		if len(p.SampleType) < 2 || len(p.Sample) == 0 {
			continue
		}
		withStack := false
		for j, sm := range p.Sample {
			if j%2 == 0 {
				sm.Value[0] = 0
				if sm.Value[len(sm.Value)-1] == 0 {
					sm.Value[len(sm.Value)-1] = 500
				}
				withStack = withStack || len(sm.Location) > 0
			}
		}
		if withStack && p.CheckValid() == nil {
			return p
		}
	}
}

// c09Explore generates and runs one exploration stream.
func c09Explore(c *Ctx, stream string) {
	names, kinds, choices := c09ConfigNames()
	cmds, _ := driver.VerifC09Commands()
	r := c.R
	genQuery := c09QueryGen(r)
	switch stream {
	case "core", "config", "session-hook":
		c09Core(c, stream)
	case "symbolize":
		c09Symbolize(c)
	case "e2e-session", "e2e-cli", "e2e-web", "e2e-lines", "e2e-numeric", "e2e-paths":
		c09E2E(c, stream)
	case "matrix-session-0", "matrix-session-1", "matrix-session-2", "matrix-cli", "matrix-web":
		c09Matrix(c, stream)
	case "session-real":
		for k := 0; k < c.Budget(300, 20000); k++ {
			p := c09Profile(r, false)
			var lines []string
			for j := 1 + r.Intn(4); j > 0; j-- {
				lines = append(lines, c09Line(r, names, kinds, choices, cmds, c09STypes(p)))
			}
			c09Session(c, "session-real", p, lines, true)
		}
		// every report under mean / mean_<type>, on profiles whose count column holds zeros
		// (the mean divides by the first value of a sample)
		reports := []string{"text", "top", "tree", "traces", "peek .", "dot", "callgrind", "tags", "raw", "topproto", "comments", "proto", "list .", "svg"}
		for k := 0; k < c.Budget(42, 1400); k++ {
			p := c09MeanProfile(r)
			pre := "mean=1"
			switch k % 3 {
			case 1:
				pre = "sample_index=" + p.SampleType[len(p.SampleType)-1].Type
			case 2:
				pre = "mean_" + p.SampleType[len(p.SampleType)-1].Type
			}
			c09Session(c, "session-mean", p, []string{"mean=1", pre, reports[k%len(reports)]}, true)
		}
	case "web":
		// a profile without sample types never reaches the web handlers: fetchProfiles rejects it
		// ("empty common sample type list"); the model predicts "error"
		p0 := &profile.Profile{Comments: []string{"no sample types"}}
		c09Web(c, "no-sample-types", p0, nil, []c09Req{{"/top", ""}})
		paths := []string{"/", "/top", "/disasm", "/source", "/peek", "/flamegraph", "/flamegraph2", "/flamegraphold", "/saveconfig", "/deleteconfig", "/download"}
		for k := 0; k < c.Budget(150, 5000); k++ {
			p := c09Profile(r, true)
			var reqs []c09Req
			for j := 1 + r.Intn(5); j > 0; j-- {
				reqs = append(reqs, c09Req{PickS(r, paths), genQuery()})
			}
			var cli []string
			if r.P(1, 3) {
				n := PickS(r, names)
				cli = append(cli, "-"+n+"="+c09Value(r, kinds[n], n))
			}
			c09Web(c, "web", p, cli, reqs)
		}
		// every handler under mean=1 on profiles whose count column holds zeros
		for k := 0; k < c.Budget(22, 700); k++ {
			p := c09MeanProfile(r)
			q := "mean=1"
			if k%2 == 1 {
				q = "mean=t&si=" + url.QueryEscape(p.SampleType[len(p.SampleType)-1].Type)
			}
			if k%3 == 2 {
				q += "&f=."
			}
			c09Web(c, "web-mean", p, nil, []c09Req{{paths[k%len(paths)], q}})
		}
		// the witness of known finding F38 is always replayed: a divisor so small that its reciprocal
		// (report.Options.Ratio) is +Inf makes the flame graph's Scale +Inf, json.Marshal refuses it and
		// the handler answers 500 instead of 400
		c09Web(c, "finding-F38", c09Shapes()[0].p, []string{"-divide_by=4.9e-324"}, []c09Req{{"/flamegraph", ""}})
		// the witness of known finding F25 is always replayed, LAST (the spinning goroutine dies with
		// this process): two lines of one function 2^63 apart, listed through /source
		{
			f := &profile.Function{ID: 1, Name: "main", SystemName: "main", Filename: "main.go"}
			l1 := &profile.Location{ID: 1, Address: 0x1000, Line: []profile.Line{{Function: f, Line: -20}}}
			l2 := &profile.Location{ID: 2, Address: 0x2000, Line: []profile.Line{{Function: f, Line: 1<<63 - 11}}}
			pw := &profile.Profile{SampleType: []*profile.ValueType{{Type: "samples", Unit: "count"}},
				Function: []*profile.Function{f}, Location: []*profile.Location{l1, l2},
				Sample: []*profile.Sample{{Location: []*profile.Location{l1}, Value: []int64{1}}, {Location: []*profile.Location{l2}, Value: []int64{1}}}}
			c09WebD(c, "finding-F25", pw, nil, []c09Req{{"/source", "f=main"}}, 4*time.Second)
		}
	case "cli":
		// ... nor the interactive loop (whose `o` command would index st[len(st)-1] on it)
		p0 := &profile.Profile{Comments: []string{"no sample types"}}
		c09CLI(c, "no-sample-types", p0, []string{"p"}, []string{"o"})
		c09CLI(c, "no-sample-types", p0, []string{"-top", "p"}, nil)
		// every report format under -mean on profiles whose count column holds zeros
		for k := 0; k < c.Budget(44, 1500); k++ {
			p := c09MeanProfile(r)
			cn := cmds[k%len(cmds)]
			if k%6 == 0 {
				cn = "traces" // the report that divides per sample
			}
			args := []string{"-" + cn}
			if cn == "list" || cn == "peek" || cn == "disasm" || cn == "weblist" {
				args = []string{"-" + cn + "=."}
			}
			args = append(args, "-mean")
			switch k % 4 {
			case 1:
				args = append(args, "-sample_index="+p.SampleType[len(p.SampleType)-1].Type)
			case 2:
				args = append(args, "-sample_index=0")
			case 3:
				args = append(args, "-output=out")
			}
			c09CLI(c, "cli-mean", p, append(args, "p"), nil)
		}
		for k := 0; k < c.Budget(300, 15000); k++ {
			p := c09Profile(r, true)
			var args []string
			if !r.P(1, 8) {
				cn := PickS(r, cmds)
				if cn == "list" || cn == "peek" || cn == "disasm" || cn == "weblist" {
					args = append(args, "-"+cn+"="+PickS(r, c09Regexps))
				} else {
					args = append(args, "-"+cn)
				}
			}
			for j := r.Intn(4); j > 0; j-- {
				n := PickS(r, names)
				if r.P(1, 8) {
					n = PickS(r, []string{"buildid", "add_comment", "symbolize", "base", "diff_base", "seconds", "timeout", "inuse_space", "mean_delay", "contentions", "no_browser", "zz", "cum", "flat", "lines", "files"})
				}
				v := c09Value(r, kinds[n], n)
				if kinds[n] == "" {
					v = PickS(r, []string{"a", "ab", "x", "", "1", "p", "bad", "none", "force", "true"})
				}
				if r.P(2, 3) { // mostly values the flag package accepts, so that the run gets past flag parsing
					switch kinds[n] {
					case "bool", "choice":
						v = PickS(r, []string{"true", "false", "1", "0", "t"})
					case "int":
						v = PickS(r, []string{"0", "-1", "10", "2147483647", "-5"})
					case "float":
						v = PickS(r, []string{"0.5", "0", "1", "1e-3", "2"})
					}
				}
				args = append(args, "-"+n+"="+v)
			}
			switch r.Intn(10) {
			case 0:
				args = append(args, "bad")
			case 1:
				args = append(args, "p", "p")
			case 2:
			default:
				args = append(args, "p")
			}
			var lines []string
			if r.P(1, 3) {
				lines = append(lines, c09Line(r, names, kinds, choices, cmds, c09STypes(p)))
			}
			c09CLI(c, "cli", p, args, lines)
		}
	default:
		fmt.Fprintln(os.Stderr, "unknown stream", stream)
		os.Exit(2)
	}
}
