//go:build verif

package main

// C20 end-to-end layer: the same kind of concurrent scenarios, but pushed through the tool's real entry
// points instead of export shims -- driver.PProf with a real flag set, the default HTTPTransport
// (internal/transport), the built-in fetch incl. perf.data conversion, an interactive session, and the
// web handlers of a FRESH process whose very first requests arrive together. What comes out (the
// -proto output re-read, the converter's log, HTTP statuses, leaked locks) is judged by R_C20.v.

import (
	"bytes"
	"context"
	"encoding/json"
	"fmt"
	"net/http"
	"net/http/httptest"
	"os"
	"os/exec"
	"path/filepath"
	"sort"
	"strconv"
	"strings"
	"sync"
	"time"

	"github.com/google/pprof/internal/driver"
	"github.com/google/pprof/internal/plugin"
	"github.com/google/pprof/profile"
)

func init() { subcmds["c20-webchild"] = c20WebChild }

// c20OneSample: a valid profile with one sample of weight v on a fixed stack.
func c20OneSample(v int64) *profile.Profile {
	fn := &profile.Function{ID: 1, Name: "main.work", SystemName: "main.work", Filename: "main.go"}
	loc := &profile.Location{ID: 1, Address: 0x1000, Line: []profile.Line{{Function: fn, Line: 1}}}
	return &profile.Profile{
		SampleType: []*profile.ValueType{{Type: "samples", Unit: "count"}},
		PeriodType: &profile.ValueType{Type: "cpu", Unit: "nanoseconds"}, Period: 1,
		Sample:     []*profile.Sample{{Location: []*profile.Location{loc}, Value: []int64{v}}},
		Location:   []*profile.Location{loc},
		Function:   []*profile.Function{fn},
	}
}

func c20ProfileBytes(p *profile.Profile) []byte {
	var b bytes.Buffer
	p.Write(&b)
	return b.Bytes()
}

type c20Srv struct {
	plain, tls *httptest.Server
}

func c20StartServers() *c20Srv {
	h := http.HandlerFunc(func(w http.ResponseWriter, r *http.Request) {
		v, _ := strconv.ParseInt(r.URL.Query().Get("v"), 10, 64)
		w.Write(c20ProfileBytes(c20OneSample(v)))
	})
	s := &c20Srv{plain: httptest.NewServer(h), tls: httptest.NewTLSServer(h)}
	// the TLS server's handshake errors (clients that refuse its certificate) are expected
	s.tls.Config.ErrorLog = nil
	return s
}

// c20RunPProf runs the real driver entry point with a real flag set; returns the total weight of the
// -proto output and whether PProf succeeded. A run that does not return within the deadline is "blocked".
func c20RunPProf(o *plugin.Options, out string, deadline time.Duration) (total int64, ok bool, blocked bool) {
	done := make(chan error, 1)
	go func() {
		defer func() {
			if r := recover(); r != nil {
				done <- fmt.Errorf("panic: %v", r)
			}
		}()
		done <- driver.PProf(o)
	}()
	select {
	case err := <-done:
		if err != nil {
			return 0, false, false
		}
	case <-time.After(deadline):
		return 0, false, true
	}
	if out == "" {
		return 0, true, false
	}
	f, err := os.Open(out)
	if err != nil {
		return 0, false, false
	}
	defer f.Close()
	p, err := profile.Parse(f)
	if err != nil {
		return -1, false, false
	}
	for _, s := range p.Sample {
		for _, v := range s.Value {
			total += v
		}
	}
	return total, true, false
}

type c20DelayFetcher struct{ delay map[string]time.Duration }

// Fetch declines every source (the driver then uses its built-in fetch) after the source's delay:
// a plug-in that only staggers the parallel fetches of one invocation.
func (f *c20DelayFetcher) Fetch(src string, _, _ time.Duration) (*profile.Profile, string, error) {
	time.Sleep(f.delay[src])
	return nil, "", nil
}

func c20E2E(c *Ctx) {
	cwd, _ := os.Getwd()
	base := filepath.Join(cwd, "c20-e2e")
	os.MkdirAll(base, 0o755)
	defer os.RemoveAll(base)
	os.Setenv("PPROF_TMPDIR", filepath.Join(base, "saved"))
	srv := c20StartServers()
	defer srv.plain.Close()
	defer srv.tls.Close()
	seq := 0
	ui := &c20UI{}

	// ---- (a1) parallel fetch of sources with different schemes through the DEFAULT transport.
	// kind 0 http, 1 https+insecure (certificate not verified), 2 https (certificate untrusted: refused),
	// 3 local file
	fetchCase := func(gen string, kinds []int, vals []int64) {
		seq++
		d := filepath.Join(base, fmt.Sprintf("f%d", seq))
		os.MkdirAll(d, 0o755)
		defer os.RemoveAll(d)
		out := filepath.Join(d, "out.pb")
		args := []string{"-proto", "-symbolize=none", "-output=" + out}
		var in []Term
		for i, k := range kinds {
			q := "/p?v=" + strconv.FormatInt(vals[i], 10)
			switch k {
			case 0:
				args = append(args, srv.plain.URL+q)
			case 1:
				args = append(args, "https+insecure://"+strings.TrimPrefix(srv.tls.URL, "https://")+q)
			case 2:
				args = append(args, srv.tls.URL+q)
			case 3:
				fn := filepath.Join(d, fmt.Sprintf("src%d.pb.gz", i))
				os.WriteFile(fn, c20ProfileBytes(c20OneSample(vals[i])), 0o644)
				args = append(args, fn)
			}
			in = append(in, L(ZI(k), Z(vals[i])))
		}
		o := &plugin.Options{Flagset: newC09Flags(args), UI: ui, Sym: c09Sym{}, Obj: &c09Obj{}}
		total, ok, blocked := c20RunPProf(o, out, 60*time.Second)
		c.Case(gen, L(S("e2e-fetch"), L(in...)), L(Z(total), Bool(ok), Bool(blocked), Ss(driver.VerifC20LeakedLocks())), len(kinds) >= 2, "op:e2e-fetch")
	}
	reps := c.Budget(12, 150)
	if os.Getenv("VERIF_C20_RACE") != "" && reps > 6 {
		reps = 6 // the race detector sees the shared write in every single round
	}
	for rep := 0; rep < reps; rep++ {
		fetchCase("e2e-fetch-insecure+secure", []int{1, 2, 1, 2, 1, 2}, []int64{1, 10, 100, 1000, 10000, 100000})
	}
	fetchCase("e2e-fetch-all-kinds", []int{0, 1, 2, 3}, []int64{3, 5, 7, 11})
	fetchCase("e2e-fetch-all-refused", []int{2, 2}, []int64{3, 5})
	for n := 0; n < c.Budget(10, 200); n++ {
		var ks []int
		var vs []int64
		for i := 0; i < 2+c.R.Intn(7); i++ {
			ks = append(ks, c.R.Intn(4))
			vs = append(vs, int64(1+c.R.Intn(1000)))
		}
		fetchCase("e2e-fetch-random", ks, vs)
	}

	// ---- (a2) several perf.data inputs of one invocation: each is converted by the external
	// perf_to_profile into a temp file reserved with newTempFile; the conversions overlap (staggered by
	// a Fetcher plug-in), every one must get its own output name and all must end up in the result
	bin := filepath.Join(base, "bin")
	os.MkdirAll(bin, 0o755)
	perfLog := filepath.Join(base, "perf.log")
	script := "#!/bin/sh\nin=\"\"; out=\"\"; force=0\nwhile [ $# -gt 0 ]; do case \"$1\" in -i) in=\"$2\"; shift;; -o) out=\"$2\"; shift;; -f) force=1;; esac; shift; done\n" +
		"echo \"$out\" >> \"" + perfLog + "\"\nsleep 0.25\nif [ -e \"$out\" ] && [ $force -eq 0 ]; then echo \"perf_to_profile: output exists\" >&2; exit 1; fi\ncp \"$in.pb\" \"$out\"\n"
	os.WriteFile(filepath.Join(bin, "perf_to_profile"), []byte(script), 0o755)
	oldPath, oldTmp := os.Getenv("PATH"), os.Getenv("TMPDIR")
	perfCase := func(gen string, vals []int64, staggerMs int) {
		seq++
		d := filepath.Join(base, fmt.Sprintf("p%d", seq))
		tmp := filepath.Join(d, "tmp")
		os.MkdirAll(tmp, 0o755)
		defer os.RemoveAll(d)
		os.Setenv("PATH", bin+string(os.PathListSeparator)+oldPath)
		os.Setenv("TMPDIR", tmp)
		defer func() { os.Setenv("PATH", oldPath); os.Setenv("TMPDIR", oldTmp) }()
		os.Remove(perfLog)
		out := filepath.Join(d, "out.pb")
		args := []string{"-proto", "-symbolize=none", "-output=" + out}
		fetcher := &c20DelayFetcher{delay: map[string]time.Duration{}}
		for i, v := range vals {
			fn := filepath.Join(d, fmt.Sprintf("in%d.perf.data", i))
			os.WriteFile(fn, []byte("PERFILE2 not really perf data"), 0o644)
			os.WriteFile(fn+".pb", c20ProfileBytes(c20OneSample(v)), 0o644)
			args = append(args, fn)
			fetcher.delay[fn] = time.Duration(i*staggerMs) * time.Millisecond
		}
		o := &plugin.Options{Flagset: newC09Flags(args), UI: ui, Sym: c09Sym{}, Obj: &c09Obj{}, Fetch: fetcher}
		total, ok, blocked := c20RunPProf(o, out, 60*time.Second)
		names := map[string]bool{}
		if b, err := os.ReadFile(perfLog); err == nil {
			for _, l := range strings.Split(strings.TrimSpace(string(b)), "\n") {
				if l != "" {
					names[l] = true
				}
			}
		}
		left, _ := os.ReadDir(tmp) // converted files are registered for deletion: none may survive PProf
		c.Case(gen, L(S("e2e-perf"), Zs(vals), ZI(staggerMs)), L(Z(total), Bool(ok), Bool(blocked), ZI(len(names)), ZI(len(left))), len(vals) >= 2, "op:e2e-perf")
	}
	perfCase("e2e-perf-two-staggered", []int64{3, 50}, 100)
	perfCase("e2e-perf-three-staggered", []int64{1, 20, 300}, 80)
	perfCase("e2e-perf-together", []int64{7, 90}, 0)
	for n := 0; n < c.Budget(1, 30); n++ {
		perfCase("e2e-perf-random", []int64{int64(1 + c.R.Intn(9)), int64(10 * (1 + c.R.Intn(9))), int64(100 * (1 + c.R.Intn(9)))}[:2+c.R.Intn(2)], 40+c.R.Intn(120))
	}

	// ---- (b) an interactive session through the real command loop: rejected option assignments
	// followed by more commands whose output goes to files; it must finish and leave no lock held
	sessCase := func(gen string, lines []string) {
		seq++
		d := filepath.Join(base, fmt.Sprintf("s%d", seq))
		os.MkdirAll(d, 0o755)
		defer os.RemoveAll(d)
		src := filepath.Join(d, "src.pb.gz")
		os.WriteFile(src, c20ProfileBytes(c20OneSample(42)), 0o644)
		var script []string
		nout := 0
		for _, l := range lines {
			if strings.Contains(l, ">") {
				nout++
				l = strings.Replace(l, ">", ">"+d+"/out"+strconv.Itoa(nout), 1)
			}
			script = append(script, l)
		}
		sui := &c09UI{lines: append(script, "quit")}
		o := &plugin.Options{Flagset: newC09Flags([]string{"-symbolize=none", src}), UI: sui, Sym: c09Sym{}, Obj: &c09Obj{}}
		_, _, blocked := c20RunPProf(o, "", 8*time.Second)
		leaked := driver.VerifC20LeakedLocks()
		files := 0
		for i := 1; i <= nout; i++ {
			if fi, err := os.Stat(d + "/out" + strconv.Itoa(i)); err == nil && fi.Size() > 0 {
				files++
			}
		}
		c.Case(gen, L(S("e2e-session"), Ss(lines)), L(Bool(blocked), Ss(leaked), ZI(files)), true, "op:e2e-session")
		driver.VerifC20Set(-1, "")
	}
	sessCase("e2e-session-rejected-choice", []string{"sort=flat", "cum=false", "top >", "lines=0", "nodecount=x", "nodecount=5", "text >", "cum", "traces >"})
	sessCase("e2e-session-plain", []string{"top >", "cum=true", "tree >", "granularity=lines", "peek . >"})
	sessCase("e2e-session-unknown", []string{"nosuchoption=1", "flat=abc", "top >", "trim=maybe", "raw >"})

	// ---- (c) a fresh process serving the web UI whose very first requests arrive together
	webFirst := func(gen string, nfuncs, k, mix int) {
		ctx, cancel := context.WithTimeout(context.Background(), 90*time.Second)
		defer cancel()
		cmd := exec.CommandContext(ctx, os.Args[0], "c20-webchild", strconv.Itoa(nfuncs), strconv.Itoa(k), strconv.Itoa(mix))
		var stdout bytes.Buffer
		cmd.Stdout = &stdout
		cmd.Stderr = os.Stderr // race reports and runtime crashes of the child stay visible
		err := cmd.Run()
		var res struct {
			Codes    []int64 `json:"codes"`
			Bad      int     `json:"bad"` // downloads whose gunzipped, re-parsed content is not the profile
			Compared int     `json:"compared"`
			Equal    int     `json:"equal"`
		}
		line := strings.TrimSpace(stdout.String())
		if i := strings.LastIndex(line, "\n"); i >= 0 {
			line = line[i+1:]
		}
		json.Unmarshal([]byte(line), &res)
		if res.Codes == nil {
			res.Codes = []int64{}
		}
		c.dist["e2e-webfirst:pages-compared"] += res.Compared
		c.dist["e2e-webfirst:pages-identical"] += res.Equal
		c.Case(gen, L(S("e2e-webfirst"), ZI(nfuncs), ZI(k), ZI(mix)), L(Bool(err == nil), Zs(res.Codes), ZI(res.Bad)), true, "op:e2e-webfirst")
	}
	if os.Getenv("VERIF_C20_RACE") != "" { // under the race detector everything is ~10x slower: smaller profiles
		webFirst("e2e-webfirst-flamegraph", 600, 8, 0)
		webFirst("e2e-webfirst-mixed", 400, 8, 1)
		webFirst("e2e-webfirst-download", 800, 6, 2)
	} else {
		webFirst("e2e-webfirst-flamegraph", 3000, 8, 0)
		webFirst("e2e-webfirst-flamegraph", 3000, 8, 0)
		webFirst("e2e-webfirst-mixed", 1500, 8, 1)
		// the FIRST downloads of a fresh web interface, together, on a large profile; then pages and
		// downloads mixed
		webFirst("e2e-webfirst-download", 20000, 8, 2)
		webFirst("e2e-webfirst-download", 20000, 3, 2)
		webFirst("e2e-webfirst-download+pages", 6000, 8, 3)
	}
	for n := 0; n < c.Budget(0, 12); n++ {
		webFirst("e2e-webfirst-random", 500+c.R.Intn(4000), 2+c.R.Intn(10), c.R.Intn(4))
	}
}

// c20WebChild: `harness c20-webchild <nfuncs> <k> <mix>`. Runs driver.PProf -http on a profile with
// nfuncs distinctly named functions; the HTTPServer hook sends k requests at the same moment as the
// FIRST requests of this process, then the same requests one at a time, and prints the statuses.
func c20WebChild(args []string) {
	nf, _ := strconv.Atoi(args[0])
	k, _ := strconv.Atoi(args[1])
	mix, _ := strconv.Atoi(args[2])
	p := &profile.Profile{
		SampleType: []*profile.ValueType{{Type: "samples", Unit: "count"}},
		PeriodType: &profile.ValueType{Type: "cpu", Unit: "nanoseconds"}, Period: 1,
	}
	for i := 0; i < nf; i++ {
		name := fmt.Sprintf("example.com/org/pkg%d/sub.(*Type%d).Method%d", i%37, i%11, i)
		if i%3 == 1 {
			name = fmt.Sprintf("ns%d::Class%d<int, ns::T%d>::method%d(int, char const*)", i%13, i%7, i%5, i)
		}
		fn := &profile.Function{ID: uint64(i + 1), Name: name, SystemName: name, Filename: fmt.Sprintf("/src/dir%d/file%d.go", i%17, i)}
		loc := &profile.Location{ID: uint64(i + 1), Address: uint64(0x1000 + i), Line: []profile.Line{{Function: fn, Line: int64(i%90 + 1)}}}
		p.Function = append(p.Function, fn)
		p.Location = append(p.Location, loc)
	}
	for i := 0; i+2 < nf; i += 2 {
		p.Sample = append(p.Sample, &profile.Sample{Location: []*profile.Location{p.Location[i], p.Location[i+1], p.Location[i+2]}, Value: []int64{int64(1 + i%7)}})
	}
	cwd, _ := os.MkdirTemp(".", "c20-webchild")
	defer os.RemoveAll(cwd)
	src := filepath.Join(cwd, "src.pb.gz")
	os.WriteFile(src, c20ProfileBytes(p), 0o644)
	paths := []string{"/flamegraph"}
	switch mix {
	case 1:
		paths = []string{"/flamegraph", "/top", "/flamegraph?f=pkg1", "/peek?f=Method1", "/flamegraph?sf=Class"}
	case 2:
		paths = []string{"/download"}
	case 3:
		paths = []string{"/download", "/top", "/download", "/flamegraph"}
	}
	// what a download must contain: the profile itself (gunzipped and parsed back)
	okDownload := func(body string) bool {
		q, err := profile.ParseData([]byte(body))
		if err != nil || len(q.Sample) != len(p.Sample) || len(q.Function) != len(p.Function) || len(q.Location) != len(p.Location) {
			return false
		}
		var a, b int64
		for i := range q.Sample {
			a += q.Sample[i].Value[0]
			b += p.Sample[i].Value[0]
		}
		return a == b
	}
	var result struct {
		Codes    []int64 `json:"codes"`
			Bad      int     `json:"bad"` // downloads whose gunzipped, re-parsed content is not the profile
		Compared int     `json:"compared"`
		Equal    int     `json:"equal"`
	}
	server := func(a *plugin.HTTPServerArgs) error {
		serve := func(pq string) (int, string) {
			path, rawq := pq, ""
			if i := strings.Index(pq, "?"); i >= 0 {
				path, rawq = pq[:i], pq[i+1:]
			}
			h := a.Handlers[path]
			if h == nil {
				return 0, ""
			}
			req := httptest.NewRequest("GET", "http://localhost"+path, nil)
			req.URL.RawQuery = rawq
			w := httptest.NewRecorder()
			h.ServeHTTP(w, req)
			return w.Code, w.Body.String()
		}
		codes := make([]int64, k)
		bodies := make([]string, k)
		var wg sync.WaitGroup
		gate := make(chan struct{})
		wg.Add(k)
		for i := 0; i < k; i++ {
			go func(i int) {
				defer wg.Done()
				<-gate
				c, b := serve(paths[i%len(paths)])
				codes[i], bodies[i] = int64(c), b
			}(i)
		}
		close(gate)
		wg.Wait()
		result.Codes = codes
		for i := 0; i < k; i++ {
			if strings.HasPrefix(paths[i%len(paths)], "/download") && !okDownload(bodies[i]) {
				result.Bad++
			}
		}
		if mix >= 2 { // and the download a later, single request gets (a corrupt first result must not stay cached)
			if _, b := serve("/download"); !okDownload(b) {
				result.Bad++
			}
		}
		for i := 0; i < k; i++ { // afterwards, one at a time (pages are only counted: tie orders are C08's subject)
			_, b := serve(paths[i%len(paths)])
			_, b2 := serve(paths[i%len(paths)])
			if b == b2 {
				result.Compared++
				if b == bodies[i] {
					result.Equal++
				}
			}
		}
		return nil
	}
	ui := &c20UI{}
	o := &plugin.Options{Flagset: newC09Flags([]string{"-http=localhost:0", "-symbolize=none", src}), UI: ui, Sym: c09Sym{}, Obj: &c09Obj{}, HTTPServer: server}
	if err := driver.PProf(o); err != nil {
		fmt.Fprintln(os.Stderr, "c20-webchild:", err)
		os.Exit(3)
	}
	sort.Slice(result.Codes, func(i, j int) bool { return result.Codes[i] < result.Codes[j] })
	b, _ := json.Marshal(result)
	fmt.Println(string(b))
}
