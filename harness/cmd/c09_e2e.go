//go:build verif

package main

// C09 end-to-end layer: deterministic decisive shapes pushed through the real entry points
// (interactive sessions with `cmd >file`, driver.PProf command lines with -output, the web handlers),
// with the printed "Active filters" legend parsed back and compared with the model.
//  * values that are exactly ONE delimiter character, a delimiter pair, or wrapped in delimiters
//    (quotes, brackets, regexp and shell metacharacters) for options of every kind;
//  * filter values whose name=value text is just below / at / above the legend's 80-byte cut, built from
//    1-, 2-, 3- and 4-byte characters (byte length and character count disagree), and much longer ones;
//  * histories: assignment, report, reset, report on ONE session; every report written to a file.

import (
	"net/url"
	"strings"

	"github.com/google/pprof/internal/driver"
	"github.com/google/pprof/profile"
)

var c09Delims = []string{`"`, `'`, "`", "(", ")", "[", "]", "{", "}", "<", ">", "|", `\`, "/", "#", "=", ":", ";", ",", ".", "*", "+", "?", "^", "$", "%", "&", "~", "!", "@", "-", "_", " "}

// c09DelimValues: d, dd, d around a word, and the closing partner forms for brackets.
func c09DelimValues() []string {
	var out []string
	close := map[string]string{"(": ")", "[": "]", "{": "}", "<": ">"}
	for _, d := range c09Delims {
		out = append(out, d, d+d, d+"hot"+d)
		if cl, ok := close[d]; ok {
			out = append(out, d+cl, d+"hot"+cl)
		}
	}
	return out
}

// c09LongValues: for a filter option name, values such that len(name=value) lands on each target byte
// length (as closely as the character width allows), for characters of 1..4 bytes.
func c09LongValues(name string) []string {
	var out []string
	for _, ch := range []string{"a", "é", "€", "\U0001F600"} {
		for _, target := range []int{78, 80, 81, 84, 100, 200, 330} {
			n := (target - len(name) - 1 - len("|hot")) / len(ch)
			if n < 1 {
				n = 1
			}
			out = append(out, strings.Repeat(ch, n)+"|hot")
			if target == 81 {
				out = append(out, strings.Repeat(ch, n+1)+"|hot", strings.Repeat(ch, n+2)+"|hot")
			}
		}
	}
	return out
}

var c09FilterNames = []string{"focus", "ignore", "hide", "show", "show_from", "tagfocus", "tagignore", "tagshow", "taghide"}

// c09E2E runs the deterministic end-to-end streams.
func c09E2E(c *Ctx, stream string) {
	shapes := c09Shapes()
	diamond, mixed := shapes[0].p, shapes[1].p
	full := c.Tier == "thorough"
	switch stream {
	case "e2e-session":
		// delimiter values, typed in the shell: recorded sessions for every delimiter form on options of
		// every kind (model-compared), then real reports written to files for the filter options
		kinds := []string{"focus", "unit", "nodecount", "nodefraction", "trim", "sort", "output", "tagfocus", "sample_index", "granularity"}
		k := 0
		for _, v := range c09DelimValues() {
			for _, n := range kinds {
				k++
				if !full && n != "focus" && k%9 != int(c.Seed%9) {
					continue
				}
				c09Session(c, "e2e-delim-hook", diamond, []string{n + "=" + v, n + " = " + v + "   ", n + "=" + v + "  //: a comment", "top"}, false)
			}
			c09Session(c, "e2e-delim-real", diamond, []string{"top >o1", "focus=" + v, "top >o2", "hide = " + v + "  //: c", "tree >o3", "focus=", "hide=", "top >o4"}, true)
		}
		// values around the 80-byte cut of the legend, one session per (option, value): assignment, two
		// reports to files, reset, report
		for ni, n := range c09FilterNames {
			for vi, v := range c09LongValues(n) {
				if !full && (ni+vi)%3 != int(c.Seed%3) && n != "focus" {
					continue
				}
				p := diamond
				if strings.HasPrefix(n, "tag") {
					p = mixed
				}
				c09Session(c, "e2e-long-session", p, []string{"top >o1", n + "=" + v, "top >o2", "tree >o3", "peek . >o4", n + "=", "text >o5"}, true)
			}
		}
		// a REJECTED line typed again in the same process (state left behind by an error path): every
		// command that takes a regexp argument x every malformed regexp, twice, then with a redirection,
		// then ordinary work; likewise rejected assignments
		bad := []string{"(", "[", "a{2,1}", "\\", ")", "+", "a{1001}", "\xff", "main(", "wor[k", "*"}
		pnames, hasParam := driver.VerifC09Commands()
		for i, n := range pnames {
			if !hasParam[i] {
				continue
			}
			for _, rx := range bad {
				c09Session(c, "e2e-repeat", diamond, []string{n + " " + rx, n + " " + rx, n + " " + rx + " >o1", "top >o2", n + " . >o3"}, true)
			}
		}
		for _, rx := range bad {
			c09Session(c, "e2e-repeat", mixed, []string{"focus=" + rx, "top >o1", "top >o2", "focus=" + rx, "tree >o3", "tagfocus=" + rx, "tags", "tags", "focus=", "tagfocus=", "top >o4"}, true)
			c09Session(c, "e2e-repeat", diamond, []string{"top " + rx, "top " + rx, "top -" + rx, "top -" + rx, "nodecount=" + rx, "nodecount=" + rx, "top >o1"}, true)
		}
		// several filters at once, all printed in one legend
		c09Session(c, "e2e-long-session", mixed, []string{"focus=" + c09LongValues("focus")[9], "ignore=zz", "hide=" + c09LongValues("hide")[17], "tagfocus=v1", "show=.", "top >o1", "tree >o2"}, true)
	case "e2e-lines":
		// line numbers recorded in the profile drive loops of the source listings: functions whose
		// line records are far apart (and negative / extreme), through every listing entry point.
		// Own stream: a hang here must not cut the other deterministic streams short.
		for _, pr := range [][3]int64{{10, 1 << 40, 1}, {10, 1 << 40, 0}, {-5, 1 << 33, 1}, {3, 1<<63 - 11, 1}, {1 << 40, 1<<40 + 2, 1 << 20}, {0, 1 << 50, -1}} {
			b := newC09ShapeBuilder("samples")
			b.sample("hot main", 100)
			b.sample("hot other main", 50)
			b.function("hot").StartLine = pr[2]
			b.loc["hot"].Line[0].Line = pr[0]
			far := b.location("hot") // second location of the same function, far away
			l2 := *far
			l2.ID = 999
			l2.Address = 0x8000
			l2.Line = []profile.Line{{Function: b.function("hot"), Line: pr[1]}}
			b.p.Location = append(b.p.Location, &l2)
			b.p.Sample = append(b.p.Sample, &profile.Sample{Location: []*profile.Location{&l2, b.location("main")}, Value: []int64{70}})
			if b.p.CheckValid() != nil {
				continue
			}
			for _, cmd := range []string{"list", "weblist", "disasm", "peek"} {
				c09Session(c, "e2e-lines", b.p, []string{cmd + " hot >o1", cmd + " . >o2", "top >o3"}, true)
				c09CLI(c, "e2e-lines-cli", b.p, []string{"-" + cmd + "=hot", "-output=out", "p"}, nil)
			}
			c09Web(c, "e2e-lines-web", b.p, nil, []c09Req{{"/source", "f=hot"}, {"/peek", "f=hot"}, {"/disasm", "f=hot"}, {"/flamegraph", ""}})
		}
	case "e2e-numeric":
		// NEGATIVE / out-of-range numeric option values on report kinds that trim: every numeric field
		// of the configuration table (ints, floats), sample_index numbers, integer arguments of
		// commands (`top -3`), n=/nf=/ef=/si= URL parameters -- followed by EVERY report format, on a
		// profile with more nodes than any limit (wide), the two-caller diamond and the mixed one.
		ints := []string{"-3", "-2", "-1", "-1000000", "0", "1", "2147483647", "-2147483648", "2147483648", "9223372036854775807", "-9223372036854775808", "99999999999999999999"}
		floats := []string{"-0.5", "-1", "-1e300", "1e300", "1e-300", "5e-324", "1.5", "1", "NaN", "Inf", "-Inf", "-0"}
		type nv struct{ name, value, urlparam string }
		var nvs []nv
		for _, f := range driver.VerifC09Default() {
			switch f.Kind {
			case "int":
				for _, v := range ints {
					nvs = append(nvs, nv{f.Name, v, f.URLParam})
				}
			case "float":
				for _, v := range floats {
					nvs = append(nvs, nv{f.Name, v, f.URLParam})
				}
			}
			if f.Name == "sample_index" {
				for _, v := range []string{"-1", "-3", "1", "2", "99", "2147483648", "-9223372036854775808"} {
					nvs = append(nvs, nv{f.Name, v, f.URLParam})
				}
			}
		}
		wide := shapes[2].p
		cmdLines := c09MatrixLines(0, full)
		for i, e := range nvs {
			for si, p := range []*profile.Profile{wide, diamond, mixed} {
				if !full && si > 0 && (i+si)%3 != int(c.Seed%3) {
					continue // quick: every value on the wide profile, a rotating third on the others
				}
				lines := append([]string{e.name + "=" + e.value}, cmdLines...)
				c09Session(c, "e2e-numeric-session", p, lines, true)
			}
		}
		// integer tokens on the command line of a report command (parseCommandLine reads them as node count)
		names, hasParam := driver.VerifC09Commands()
		for _, n := range []string{"-3", "-1", "0", "-2", "-2147483648", "2147483647", "2147483648", "-0", "+3", "-03"} {
			var lines []string
			for i, cmd := range names {
				if hasParam[i] {
					lines = append(lines, cmd+" . "+n)
				} else {
					lines = append(lines, cmd+" "+n)
				}
			}
			c09Session(c, "e2e-numeric-arg", wide, lines, true)
			c09Session(c, "e2e-numeric-arg", diamond, append([]string{"call_tree=true"}, lines...), true)
		}
		// the same values as command-line flags ...
		for i, e := range nvs {
			for ci, cmd := range []string{"-top", "-tree", "-dot", "-text", "-callgrind", "-peek=.", "-traces", "-svg", "-list=.", "-tags", "-raw", "-topproto"} {
				if !full && ci >= 4 && (i+ci)%3 != int(c.Seed%3) {
					continue
				}
				c09CLI(c, "e2e-numeric-cli", wide, []string{cmd, "-" + e.name + "=" + e.value, "-output=out", "p"}, nil)
			}
		}
		// ... and as URL parameters on every report handler
		var nreqs []c09Req
		for _, e := range nvs {
			if e.urlparam == "" {
				continue
			}
			for _, pth := range []string{"/", "/top", "/peek", "/flamegraph", "/source", "/disasm"} {
				q := url.QueryEscape(e.urlparam) + "=" + url.QueryEscape(e.value)
				if pth == "/peek" || pth == "/source" || pth == "/disasm" {
					q += "&f=."
				}
				nreqs = append(nreqs, c09Req{pth, q})
				if len(nreqs) == 12 {
					c09Web(c, "e2e-numeric-web", wide, nil, nreqs)
					nreqs = nil
				}
			}
		}
		if len(nreqs) > 0 {
			c09Web(c, "e2e-numeric-web", wide, nil, nreqs)
		}
	case "e2e-paths":
		// file names that EQUAL a prefix they are matched against (trim_path entries, the built-in
		// /proc/self/cwd, source_path entries), with and without trailing slash, empty and "/"
		for _, fnames := range [][]string{{"/proc/self/cwd", "dir", "dir/sub/x.go"}, {"/proc/self/cwd/", "dir/", "/"}, {"", ".", "/home/u/src"}} {
			b := newC09ShapeBuilder("samples")
			b.sample("leaf left main", 100)
			b.sample("leaf right main", 60)
			b.sample("other main", 5)
			for i, f := range b.p.Function {
				f.Filename = fnames[i%len(fnames)]
			}
			if b.p.CheckValid() != nil {
				continue
			}
			cmdLines := c09MatrixLines(0, full)
			for _, tp := range []string{"dir", "dir/", "/proc/self/cwd", "/", "dir:/home/u/src::/", "/home/u/src", ".", "dir/sub/x.go"} {
				c09Session(c, "e2e-paths", b.p, append([]string{"trim_path=" + tp}, cmdLines...), true)
				c09Session(c, "e2e-paths", b.p, append([]string{"source_path=" + tp, "trim_path=" + tp}, "list .", "weblist .", "top"), true)
				c09CLI(c, "e2e-paths-cli", b.p, []string{"-top", "-trim_path=" + tp, "-output=out", "p"}, nil)
				c09CLI(c, "e2e-paths-cli", b.p, []string{"-list=.", "-trim_path=" + tp, "-source_path=" + tp, "-output=out", "p"}, nil)
			}
			c09Web(c, "e2e-paths-web", b.p, []string{"-trim_path=dir:/proc/self/cwd"}, []c09Req{{"/", ""}, {"/flamegraph", ""}, {"/source", "f=."}, {"/top", ""}})
		}
	case "e2e-cli":
		for ni, n := range c09FilterNames {
			for vi, v := range c09LongValues(n) {
				if !full && (ni+vi)%3 != int(c.Seed%3) && n != "focus" {
					continue
				}
				for ci, cmd := range []string{"-top", "-tree", "-peek=."} {
					if !full && ci > 0 && n != "focus" {
						continue
					}
					c09CLI(c, "e2e-long-cli", mixed, []string{cmd, "-" + n + "=" + v, "-output=out", "p"}, nil)
				}
			}
		}
		// the same rejected command line twice in one process
		for _, cmd := range []string{"-list", "-peek", "-disasm", "-weblist"} {
			for _, rx := range []string{"(", "[", "main(", "a{2,1}", "\xff"} {
				for rep := 0; rep < 2; rep++ {
					c09CLI(c, "e2e-repeat-cli", diamond, []string{cmd + "=" + rx, "-output=out", "p"}, nil)
				}
				c09CLI(c, "e2e-repeat-cli", diamond, []string{"-top", "-focus=" + rx, "-output=out", "p"}, nil)
			}
		}
		for i, v := range c09DelimValues() {
			n := c09FilterNames[i%len(c09FilterNames)]
			c09CLI(c, "e2e-delim-cli", diamond, []string{"-top", "-" + n + "=" + v, "-output=out", "p"}, nil)
			if full || i%4 == int(c.Seed%4) {
				c09CLI(c, "e2e-delim-cli", diamond, []string{"-text", "-focus=" + v, "-unit=" + v, "-hide=" + v, "-output=out", "p"}, nil)
			}
		}
	case "e2e-web":
		urlOf := map[string]string{}
		for _, f := range driver.VerifC09Default() {
			urlOf[f.Name] = f.URLParam
		}
		paths := []string{"/top", "/flamegraph", "/peek", "/", "/source", "/disasm"}
		var reqs []c09Req
		flush := func(gen string) {
			if len(reqs) > 0 {
				c09Web(c, gen, mixed, nil, reqs)
				reqs = nil
			}
		}
		for ni, n := range c09FilterNames {
			for vi, v := range c09LongValues(n) {
				if !full && (ni+vi)%3 != int(c.Seed%3) && n != "focus" {
					continue
				}
				for pi, pth := range paths {
					if !full && pi >= 3 && (ni+vi+pi)%2 == 0 {
						continue
					}
					q := url.QueryEscape(urlOf[n]) + "=" + url.QueryEscape(v)
					if n != "focus" {
						q += "&f=."
					}
					reqs = append(reqs, c09Req{pth, q})
					if len(reqs) == 10 {
						flush("e2e-long-web")
					}
				}
			}
		}
		flush("e2e-long-web")
		// the same rejected request twice on one server
		for _, pth := range []string{"/disasm", "/source", "/peek", "/top"} {
			for _, rx := range []string{"(", "[", "main(", "\xff"} {
				q := "f=" + url.QueryEscape(rx)
				reqs = append(reqs, c09Req{pth, q}, c09Req{pth, q}, c09Req{pth, "f=."})
			}
			flush("e2e-repeat-web")
		}
		for i, v := range c09DelimValues() {
			n := c09FilterNames[i%len(c09FilterNames)]
			reqs = append(reqs, c09Req{paths[i%3], url.QueryEscape(urlOf[n]) + "=" + url.QueryEscape(v)}, c09Req{"/top", "f=" + v})
			if len(reqs) >= 10 {
				flush("e2e-delim-web")
			}
		}
		flush("e2e-delim-web")
	}
}
